(* C11 - level A for lines: the text of a printed items list goes through
   open().readlines(), Table._rewrite and the two line patterns of Table._read and comes
   out as the classified lines of the items (Model/TableSpec.v items_kinds), whatever the
   indentation, the blank and comment lines, the trailing comments and the spacing. *)
From Coq Require Import Lia.
From Eupsv Require Import Base.Base Base.BaseLemmas Model.Rx Model.Cond Model.Args Model.Legacy
  Model.Blocks Model.TableSpec Proofs.RxLib Proofs.CondEval Proofs.CondTok.

(* ---------------------------------------------------------------- characters of a line *)

(* not a hash, not a line end *)
Definition okc (c : ascii) : bool :=
  negb (ascii_eqb c c_hash || ascii_eqb c c_nl || ascii_eqb c (chr 13)).
Definition okl (s : str) : bool := forallb okc s.

Lemma pyspace_not_hash c : is_pyspace c = true -> ascii_eqb c c_hash = false.
Proof. destruct c as [[] [] [] [] [] [] [] []]; vm_compute; intros H; try discriminate H; reflexivity. Qed.

Lemma ws_okl s : all_ws s = true -> no_newline s = true -> okl s = true.
Proof.
  unfold all_ws, no_newline, okl. induction s as [|c s IH]; [reflexivity|]. cbn [forallb].
  rewrite !andb_true_iff. intros [H1 H2] [H3 H4]. split; [|now apply IH].
  unfold okc. rewrite (pyspace_not_hash c H1). cbn [orb]. exact H3.
Qed.

Lemma okl_app a b : okl (a ++ b) = okl a && okl b.
Proof. apply forallb_app. Qed.

Lemma okl_no_newline s : okl s = true -> no_newline s = true.
Proof.
  unfold okl, no_newline. apply forallb_impl. intros c. unfold okc.
  rewrite !negb_true_iff, !orb_false_iff. tauto.
Qed.

Lemma okl_no_hash s : okl s = true -> no_hash s = true.
Proof.
  unfold okl, no_hash. apply forallb_impl. intros c. unfold okc.
  rewrite !negb_true_iff, !orb_false_iff. tauto.
Qed.

Lemma no_newline_mem s : no_newline s = true -> mem_ascii c_nl s = false /\ mem_ascii (chr 13) s = false.
Proof.
  unfold no_newline. induction s as [|c s IH]; [split; reflexivity|]. cbn [forallb mem_ascii].
  rewrite andb_true_iff, negb_true_iff, orb_false_iff. intros [[H1 H2] H3].
  destruct (IH H3) as [I1 I2]. rewrite (ascii_eqb_sym c_nl c), H1, (ascii_eqb_sym (chr 13) c), H2. auto.
Qed.

Lemma no_newline_app a b : no_newline (a ++ b) = no_newline a && no_newline b.
Proof. apply forallb_app. Qed.

(* ---------------------------------------------------------------- prep_line *)

Definition ws_of (s : str) : str := fst (span is_pyspace s).

Lemma span_split p s : s = fst (span p s) ++ snd (span p s).
Proof.
  induction s as [|c s IH]; [reflexivity|]. cbn [span]. destruct (p c); [|reflexivity].
  destruct (span p s) as [a b]. cbn [fst snd app] in *. now rewrite <- IH.
Qed.

Lemma span_fst_all p s : forallb p (fst (span p s)) = true.
Proof.
  induction s as [|c s IH]; [reflexivity|]. cbn [span]. destruct (p c) eqn:E; [|reflexivity].
  destruct (span p s) as [a b]. cbn [fst forallb] in *. now rewrite E, IH.
Qed.

Lemma span_snd_drop p s : snd (span p s) = drop_while p s.
Proof.
  induction s as [|c s IH]; [reflexivity|]. cbn [span drop_while]. destruct (p c); [|reflexivity].
  destruct (span p s) as [a b]. cbn [snd] in *. exact IH.
Qed.

Lemma wf_after_split s : wf_after s = true ->
  all_ws (ws_of s) = true /\ no_newline (ws_of s) = true /\
  exists c, s = ws_of s ++ c /\ (c = [] \/ exists r, c = c_hash :: r).
Proof.
  unfold wf_after. rewrite andb_true_iff. intros [Hn Hd].
  pose proof (span_split is_pyspace s) as Hs. pose proof (span_fst_all is_pyspace s) as Ha.
  pose proof (span_snd_drop is_pyspace s) as Hdrop.
  unfold ws_of. split; [exact Ha|]. split.
  - rewrite Hs, no_newline_app in Hn. apply andb_true_iff in Hn. tauto.
  - exists (snd (span is_pyspace s)). split; [exact Hs|].
    rewrite Hdrop. unfold drop_ws in Hd. destruct (drop_while is_pyspace s) as [|c r]; [left; reflexivity|].
    right. exists r. apply ascii_eqb_eq in Hd. now subst.
Qed.

Lemma cut_comment_app a b : no_hash a = true -> cut_comment (a ++ b) = a ++ cut_comment b.
Proof.
  unfold no_hash. induction a as [|c a IH]; [reflexivity|]. cbn [forallb app cut_comment].
  rewrite andb_true_iff, negb_true_iff. intros [H1 H2]. now rewrite H1, IH.
Qed.

Lemma filter_no_newline s : no_newline s = true -> filter (fun c => negb (ascii_eqb c c_nl)) s = s.
Proof.
  unfold no_newline. induction s as [|c s IH]; [reflexivity|]. cbn [forallb filter].
  rewrite andb_true_iff, negb_true_iff, orb_false_iff. intros [[H1 _] H2]. now rewrite H1, IH.
Qed.

(* a junk line disappears *)
Lemma prep_junk s : wf_junk s = true -> prep_line s = [].
Proof.
  intros H. unfold wf_junk in H. destruct (wf_after_split s H) as (Ha & Hn & c & Hs & Hc).
  unfold wf_after in H. apply andb_true_iff in H. destruct H as [Hnl _].
  unfold prep_line. rewrite (filter_no_newline s Hnl). rewrite Hs.
  rewrite drop_ws_app by exact Ha. destruct Hc as [->|[r ->]]; [reflexivity|].
  unfold drop_ws. rewrite drop_while_stop by reflexivity. cbn. reflexivity.
Qed.

Definition first_not_ws (s : str) : bool := match s with c :: _ => negb (is_pyspace c) | [] => false end.

(* a line with content keeps its core and the blanks after it *)
Lemma prep_content indent core after :
  all_ws indent = true -> no_newline indent = true -> okl core = true -> first_not_ws core = true ->
  wf_after after = true ->
  prep_line (indent ++ core ++ after) = core ++ ws_of after.
Proof.
  intros Hi Hin Hc Hf Ha. destruct (wf_after_split after Ha) as (Wa & Wn & c & Hs & Hcc).
  unfold wf_after in Ha. apply andb_true_iff in Ha. destruct Ha as [Hnl _].
  unfold prep_line. rewrite filter_no_newline.
  2:{ rewrite !no_newline_app, Hin, (okl_no_newline _ Hc), Hnl. reflexivity. }
  rewrite drop_ws_app by exact Hi. destruct core as [|c0 core]; [discriminate|].
  cbn [first_not_ws] in Hf. apply negb_true_iff in Hf.
  cbn [app]. unfold drop_ws. rewrite drop_while_stop by exact Hf.
  change (c0 :: core ++ after) with ((c0 :: core) ++ after).
  rewrite cut_comment_app by (apply okl_no_hash, Hc). f_equal.
  rewrite Hs at 1. rewrite cut_comment_app by (apply okl_no_hash, ws_okl; auto).
  destruct Hcc as [->|[r ->]]; cbn [cut_comment]; [now rewrite app_nil_r|].
  rewrite ascii_eqb_refl. now rewrite app_nil_r.
Qed.

(* ---------------------------------------------------------------- the archaic forms do not match *)

Definition legacy_keys : list str :=
  [lit "file"; lit "action"; lit "qualifiers"; lit "group:"; lit "flavor"; lit "common:"; lit "end:"].

Definition head_pass (h : str) : bool := forallb (fun k => mismatch k (lower_str h)) legacy_keys.

Lemma key_eq_mismatch key cls h r : mismatch key (lower_str h) = true -> key_eq key cls (h ++ r) = None.
Proof. intros H. unfold key_eq. now rewrite (ci_prefix_mismatch key h r H). Qed.

(* occurrences of a text without blanks cannot straddle the end of the line's core *)
Lemma starts_with_app_inv p t w : starts_with p (t ++ w) = true ->
  starts_with p t = true \/ exists c, In c p /\ In c w.
Proof.
  revert t. induction p as [|a p IH]; intros t H; [left; reflexivity|].
  destruct t as [|b t].
  - cbn [app] in H. destruct w as [|c w]; [discriminate|]. cbn [starts_with] in H.
    destruct (ascii_eqb a c) eqn:E; [|discriminate]. apply ascii_eqb_eq in E. subst c.
    right. exists a. split; left; reflexivity.
  - cbn [app starts_with] in *. destruct (ascii_eqb a b); [|discriminate].
    destruct (IH t H) as [H1|(c & H1 & H2)]; [left; exact H1|]. right. exists c. split; [right|]; assumption.
Qed.

Lemma contains_app_ws p s w :
  nonempty p = true -> forallb (fun c => negb (is_pyspace c)) p = true -> all_ws w = true ->
  contains p s = false -> contains p (s ++ w) = false.
Proof.
  intros Hne Hp Hw.
  assert (N : forall t, starts_with p t = false -> starts_with p (t ++ w) = false).
  { intros t Ht. destruct (starts_with p (t ++ w)) eqn:E; [|reflexivity].
    destruct (starts_with_app_inv p t w E) as [H|(c & H1 & H2)]; [congruence|].
    rewrite forallb_forall in Hp. specialize (Hp c H1). unfold all_ws in Hw. rewrite forallb_forall in Hw.
    rewrite (Hw c H2) in Hp. discriminate. }
  induction s as [|c s IH]; intros H.
  - cbn [app]. clear N. induction w as [|c w IHw].
    + destruct p; [discriminate|reflexivity].
    + cbn [contains]. cbn [all_ws forallb] in Hw. apply andb_true_iff in Hw. destruct Hw as [Hc Hw].
      rewrite (IHw Hw), orb_false_r. destruct p as [|a p]; [discriminate|]. cbn [starts_with].
      destruct (ascii_eqb a c) eqn:E; [|reflexivity]. apply ascii_eqb_eq in E. subst c.
      cbn [forallb] in Hp. apply andb_true_iff in Hp. destruct Hp as [Hp _]. rewrite Hc in Hp. discriminate.
  - cbn [contains] in H. apply orb_false_iff in H. destruct H as [H1 H2].
    cbn [app contains]. rewrite (IH H2), orb_false_r. apply (N (c :: s) H1).
Qed.

Lemma replace_all_absent old new s : contains old s = false -> replace_all old new s = s.
Proof.
  unfold replace_all, resub. induction s as [|c s IH]; intros H; [reflexivity|].
  cbn [contains] in H. apply orb_false_iff in H. destruct H as [H1 H2].
  cbn [scan]. assert (E : lit_match old new (c :: s) = None).
  { unfold lit_match. destruct old as [|a old]; [reflexivity|].
    assert (G : forall p t, starts_with p t = false -> cs_prefix p t = None).
    { induction p as [|x p IHp]; intros t Ht; [discriminate|]. destruct t as [|y t]; [reflexivity|].
      cbn [starts_with cs_prefix] in *. destruct (ascii_eqb x y); [now apply IHp|reflexivity]. }
    now rewrite (G _ _ H1). }
  rewrite E. f_equal. apply IH, H2.
Qed.

Definition no_syn (s : str) : bool := forallb (fun o => negb (contains o s)) synonym_olds.

Lemma synonyms_id s : no_syn s = true -> synonyms s = s.
Proof.
  unfold no_syn, synonym_olds. cbn [forallb]. rewrite !andb_true_iff, !negb_true_iff.
  intros (H1 & H2 & H3 & H4 & H5 & H6 & H7 & _).
  unfold synonyms, syn.
  rewrite (replace_all_absent _ _ s H1), (replace_all_absent _ _ s H2), (replace_all_absent _ _ s H3),
    (replace_all_absent _ _ s H4), (replace_all_absent _ _ s H5), (replace_all_absent _ _ s H6).
  apply (replace_all_absent _ _ s H7).
Qed.

Lemma no_syn_app_ws s w : all_ws w = true -> no_syn s = true -> no_syn (s ++ w) = true.
Proof.
  intros Hw. unfold no_syn, synonym_olds. cbn [forallb]. rewrite !andb_true_iff, !negb_true_iff.
  intros (H1 & H2 & H3 & H4 & H5 & H6 & H7 & _).
  repeat split; apply contains_app_ws; auto.
Qed.

(* a line whose first word is none of the archaic keywords passes _rewrite unchanged, in
   every state of _rewrite except directly after a Flavor= line *)
Lemma rewrite_keep ingroup ng cond raw l h r rest :
  ng <> NGFlavors ->
  prep_line raw = l -> l = h ++ r -> nonempty l = true -> head_pass h = true -> no_syn l = true ->
  rewrite_go false ingroup ng cond (raw :: rest)
  = bind (rewrite_go false ingroup ng cond rest) (fun o => Ok (l :: o)).
Proof.
  intros Hng Hp Hl Hne Hh Hs. unfold head_pass, legacy_keys in Hh. cbn [forallb] in Hh.
  rewrite !andb_true_iff in Hh. destruct Hh as (K1 & K2 & K3 & K4 & K5 & K6 & K7 & _).
  cbn [rewrite_go]. rewrite Hp. destruct l as [|c0 l0] eqn:El; [discriminate|]. rewrite <- El in *.
  clear El. rewrite Hl at 1. rewrite (key_eq_mismatch _ _ h r K1). cbn [andb].
  rewrite (synonyms_id l Hs). rewrite Hl.
  rewrite (key_eq_mismatch _ _ h r K2).
  unfold qualifiers_match. rewrite (ci_prefix_mismatch _ h r K3).
  unfold key_colon. rewrite (ci_prefix_mismatch _ h r K4), (ci_prefix_mismatch _ h r K6), (ci_prefix_mismatch _ h r K7).
  rewrite (key_eq_mismatch _ _ h r K5). cbn [app].
  destruct ingroup, ng; try congruence; reflexivity.
Qed.

Lemma rewrite_skip ingroup ng cond raw rest :
  prep_line raw = [] ->
  rewrite_go false ingroup ng cond (raw :: rest) = rewrite_go false ingroup ng cond rest.
Proof. intros H. cbn [rewrite_go]. now rewrite H. Qed.

Lemma rewrite_junk ingroup ng cond junk rest :
  forallb wf_junk junk = true ->
  rewrite_go false ingroup ng cond (junk ++ rest) = rewrite_go false ingroup ng cond rest.
Proof.
  induction junk as [|j junk IH]; [reflexivity|]. cbn [forallb]. rewrite andb_true_iff. intros [H1 H2].
  cbn [app]. rewrite rewrite_skip by (apply prep_junk, H1). now apply IH.
Qed.

(* what the core of a line has to satisfy *)
Record core_ok (core h r : str) : Prop := {
  co_split : core = h ++ r;
  co_okl : okl core = true;
  co_first : first_not_ws core = true;
  co_head : head_pass h = true;
  co_syn : no_syn core = true }.

Lemma rewrite_line ingroup ng cond junk indent core h r after rest :
  ng <> NGFlavors ->
  forallb wf_junk junk = true -> all_ws indent = true -> no_newline indent = true ->
  core_ok core h r -> wf_after after = true ->
  rewrite_go false ingroup ng cond (junk ++ (indent ++ core ++ after) :: rest)
  = bind (rewrite_go false ingroup ng cond rest) (fun o => Ok ((core ++ ws_of after) :: o)).
Proof.
  intros Hng Hj Hi Hin [Hsp Hok Hf Hh Hs] Ha. rewrite rewrite_junk by exact Hj.
  destruct (wf_after_split after Ha) as (Wa & _).
  apply (rewrite_keep _ _ _ _ _ h (r ++ ws_of after)).
  - exact Hng.
  - now apply prep_content.
  - now rewrite Hsp, app_assoc.
  - destruct core; [discriminate|reflexivity].
  - exact Hh.
  - now apply no_syn_app_ws.
Qed.

(* ---------------------------------------------------------------- the cores of the printed lines *)

Definition okc2 (c : ascii) : bool := okc c && negb (ascii_eqb c c_dollar).
Definition okl2 (s : str) : bool := forallb okc2 s.

Lemma okl2_okl s : okl2 s = true -> okl s = true.
Proof. apply forallb_impl. intros c. unfold okc2. rewrite andb_true_iff. tauto. Qed.

Lemma okl2_app a b : okl2 (a ++ b) = okl2 a && okl2 b.
Proof. apply forallb_app. Qed.

Lemma pyspace_facts c : is_pyspace c = true ->
  ascii_eqb c c_dollar = false /\ ascii_eqb c c_rp = false /\ is_word c = false /\ ascii_eqb c c_rb = false
  /\ ascii_eqb c c_lb = false /\ ascii_eqb c c_semi = false.
Proof. destruct c as [[] [] [] [] [] [] [] []]; vm_compute; intros H; try discriminate H; repeat split. Qed.

Lemma ws_okl2 s : all_ws s = true -> no_newline s = true -> okl2 s = true.
Proof.
  intros Ha Hn. pose proof (ws_okl s Ha Hn) as H. unfold okl2, okl, all_ws in *.
  rewrite forallb_forall in *. intros c Hc. unfold okc2. rewrite (H c Hc).
  destruct (pyspace_facts c (Ha c Hc)) as (-> & _). reflexivity.
Qed.

Lemma wordc_okc2 c : is_wordc c = true -> okc2 c = true.
Proof. destruct c as [[] [] [] [] [] [] [] []]; vm_compute; intros H; try discriminate H; reflexivity. Qed.

Lemma alpha_okc2 c : is_alpha c = true -> okc2 c = true.
Proof. intros H. apply wordc_okc2, alpha_wordc, H. Qed.

Lemma sp_okl2 n : okl2 (sp n) = true.
Proof. induction n; [reflexivity|]. cbn. exact IHn. Qed.

Lemma no_dollar_contains o s :
  (match o with c :: _ => ascii_eqb c c_dollar | [] => false end) = true ->
  forallb (fun c => negb (ascii_eqb c c_dollar)) s = true -> contains o s = false.
Proof.
  intros Ho. destruct o as [|a o]; [discriminate|]. apply ascii_eqb_eq in Ho. subst a.
  induction s as [|c s IH]; [reflexivity|]. cbn [forallb contains starts_with].
  rewrite andb_true_iff, negb_true_iff. intros [H1 H2]. rewrite ascii_eqb_sym, H1, (IH H2). reflexivity.
Qed.

Lemma okl2_no_syn s : okl2 s = true -> no_syn s = true.
Proof.
  intros H. assert (D : forallb (fun c => negb (ascii_eqb c c_dollar)) s = true).
  { eapply forallb_impl; [|exact H]. intros c. unfold okc2. rewrite andb_true_iff. tauto. }
  unfold no_syn, synonym_olds. cbn [forallb].
  rewrite !(no_dollar_contains _ s) by (reflexivity || exact D). reflexivity.
Qed.

(* the text of a condition *)
Lemma cond_okl2 c : wf_cond c = true -> okl2 (print_cond c) = true.
Proof.
  induction c as [l v o x | s1 s2 o a IHa b IHb | s1 s2 c IHc]; cbn [wf_cond print_cond]; intros Hwf.
  - apply andb_true_iff in Hwf. destruct Hwf as [Hl Hx].
    destruct (spelling_wordtok v l Hl) as [Sw _]. destruct (wf_lit_wordtok x Hx) as [Xw _].
    unfold is_wordtok in *. apply andb_true_iff in Sw. apply andb_true_iff in Xw.
    assert (W : forall s, forallb is_wordc s = true -> okl2 s = true).
    { intros s. apply forallb_impl, wordc_okc2. }
    rewrite !okl2_app, !sp_okl2, (W _ (proj2 Sw)), (W _ (proj2 Xw)).
    destruct o, (al_q l); reflexivity.
  - apply andb_true_iff in Hwf. destruct Hwf as [Ha Hb].
    rewrite !okl2_app, (IHa Ha), !sp_okl2. destruct (is_bin b).
    + rewrite !okl2_app, (IHb Hb). destruct o; reflexivity.
    + rewrite (IHb Hb). destruct o; reflexivity.
  - rewrite !okl2_app, (IHc Hwf), !sp_okl2. reflexivity.
Qed.

Lemma all_ws_first_not s x r : all_ws s = true -> is_pyspace x = false -> first_not_ws (s ++ x :: r) = true -> s = [].
Proof. destruct s as [|c s]; [reflexivity|]. cbn. intros H. apply andb_true_iff in H. destruct H as [-> _]. discriminate. Qed.

Lemma wf_bracelay_parts l : wf_bracelay l = true ->
  forallb wf_junk (bl_junk l) = true /\ (all_ws (bl_indent l) = true /\ no_newline (bl_indent l) = true) /\
  (all_ws (bl_s0 l) = true /\ no_newline (bl_s0 l) = true) /\
  (all_ws (bl_s00 l) = true /\ no_newline (bl_s00 l) = true) /\
  (all_ws (bl_s1 l) = true /\ no_newline (bl_s1 l) = true) /\
  (all_ws (bl_s2 l) = true /\ no_newline (bl_s2 l) = true) /\ wf_after (bl_after l) = true.
Proof. unfold wf_bracelay. rewrite !andb_true_iff. tauto. Qed.

Lemma if_core_ok b : wf_branch b = true ->
  core_ok (if_core b) (lit "if")
    (bl_s1 (b_lay b) ++ c_lp :: print_cond (b_cond b) ++ c_rp :: bl_s2 (b_lay b) ++ [c_lb]).
Proof.
  unfold wf_branch. rewrite !andb_true_iff. intros [[Hc _] Hl].
  destruct (wf_bracelay_parts _ Hl) as (_ & _ & _ & _ & [A1 N1] & [A2 N2] & _).
  assert (O : okl2 (if_core b) = true).
  { unfold if_core. rewrite okl2_app, okl2_app. cbn [okl2 forallb]. fold (okl2 (print_cond (b_cond b) ++ c_rp :: bl_s2 (b_lay b) ++ [c_lb])).
    rewrite okl2_app. cbn [okl2 forallb]. fold (okl2 (bl_s2 (b_lay b) ++ [c_lb])). rewrite okl2_app.
    rewrite (ws_okl2 _ A1 N1), (ws_okl2 _ A2 N2), (cond_okl2 _ Hc). reflexivity. }
  split; auto using okl2_okl, okl2_no_syn; reflexivity.
Qed.

Lemma elif_core_ok b : wf_branch b = true -> exists r, core_ok (elif_core b) [c_rb] r /\ elif_core b = c_rb :: r.
Proof.
  unfold wf_branch. rewrite !andb_true_iff. intros [[Hc _] Hl].
  destruct (wf_bracelay_parts _ Hl) as (_ & _ & [A0 N0] & [A00 N00] & [A1 N1] & [A2 N2] & _).
  eexists. split; [|reflexivity].
  assert (O : okl2 (elif_core b) = true).
  { unfold elif_core. cbn [okl2 forallb]. fold okl2. rewrite !okl2_app. cbn [okl2 forallb]. fold okl2.
    rewrite !okl2_app. cbn [okl2 forallb]. fold okl2. rewrite !okl2_app.
    rewrite (ws_okl2 _ A0 N0), (ws_okl2 _ A00 N00), (ws_okl2 _ A1 N1), (ws_okl2 _ A2 N2), (cond_okl2 _ Hc). reflexivity. }
  split; auto using okl2_okl, okl2_no_syn; reflexivity.
Qed.

Lemma else_core_ok l : wf_bracelay l = true -> exists r, core_ok (else_core l) [c_rb] r /\ else_core l = c_rb :: r.
Proof.
  intros Hl. destruct (wf_bracelay_parts _ Hl) as (_ & _ & [A0 N0] & _ & _ & [A2 N2] & _).
  eexists. split; [|reflexivity].
  assert (O : okl2 (else_core l) = true).
  { unfold else_core. cbn [okl2 forallb]. fold okl2. rewrite !okl2_app.
    rewrite (ws_okl2 _ A0 N0), (ws_okl2 _ A2 N2). reflexivity. }
  split; auto using okl2_okl, okl2_no_syn; reflexivity.
Qed.

Lemma close_core_ok : core_ok close_core [c_rb] [].
Proof. split; reflexivity. Qed.

(* ---- command lines *)

Lemma kind_name_lower k : forallb is_lower (lower_str (kind_name k)) = true.
Proof. destruct k; reflexivity. Qed.

Lemma kind_head_pass k : head_pass (kind_name k) = true /\ mismatch (lit "if") (lower_str (kind_name k)) = true.
Proof. destruct k; split; reflexivity. Qed.

Lemma spell_facts k s : str_eqb (lower_str s) (lower_str (kind_name k)) = true ->
  forallb is_alpha s = true /\ nonempty s = true /\ head_pass s = true /\ mismatch (lit "if") (lower_str s) = true.
Proof.
  intros H. apply str_eqb_eq in H. split; [|split].
  - apply lower_is_lower_alpha. rewrite H. apply kind_name_lower.
  - destruct s; [destruct k; discriminate H|reflexivity].
  - unfold head_pass. rewrite H. apply kind_head_pass.
Qed.

Lemma wf_value_okl a : wf_value a = true -> okl a = true.
Proof.
  unfold wf_value. rewrite andb_true_iff. intros [_ H]. eapply forallb_impl; [|exact H].
  intros c. unfold bad_arg_char, okc. rewrite !negb_true_iff, !orb_false_iff. tauto.
Qed.

Lemma argsep_okl s : forallb is_argsep s = true -> okl s = true.
Proof.
  apply forallb_impl. intros c. unfold is_argsep. rewrite orb_true_iff.
  intros [H|H]; apply ascii_eqb_eq in H; subst c; reflexivity.
Qed.

Lemma sp_okl n : okl (sp n) = true.
Proof. apply okl2_okl, sp_okl2. Qed.

(* escaping the double quotes adds backslashes only *)
Lemma esc_dq_okl a : okl a = true -> okl (esc_dq a) = true.
Proof.
  unfold okl, esc_dq. induction a as [|c a IH]; [reflexivity|]. cbn [forallb flat_map].
  rewrite andb_true_iff. intros [Hc Ha]. rewrite forallb_app, (IH Ha), andb_true_r.
  destruct (ascii_eqb c c_dq); cbn [forallb]; [reflexivity|now rewrite Hc].
Qed.

Lemma wf_value_esc_okl a : wf_value a = true -> okl (esc_dq a) = true.
Proof. intros H. apply esc_dq_okl, wf_value_okl, H. Qed.

Lemma pr_rest_okl l args : wf_rest l args = true -> okl (pr_rest l args) = true.
Proof.
  revert args. induction l as [|[sep q] l IH]; intros [|x args] H; try discriminate H; [reflexivity|].
  cbn [wf_rest] in H. rewrite !andb_true_iff in H. destruct H as [[[Hs Hv] _] Hr].
  unfold wf_sep in Hs. rewrite !andb_true_iff in Hs. destruct Hs as [[_ Hs] _].
  cbn [pr_rest]. rewrite !okl_app, (argsep_okl _ Hs), (IH _ Hr). cbn [andb].
  rewrite andb_true_r. destruct q; cbn [pr_arg].
  - cbn [okl forallb]. fold okl. rewrite okl_app, (wf_value_esc_okl _ Hv). reflexivity.
  - apply wf_value_esc_okl, Hv.
Qed.

Lemma print_args_okl g args : wf_args g args = true -> okl (print_args g args) = true.
Proof.
  destruct args as [|a0 rest]; cbn [wf_args print_args]; [intros _; apply sp_okl|].
  rewrite !andb_true_iff. intros [[Hv _] Hr].
  rewrite !okl_app, !sp_okl, (wf_value_esc_okl _ Hv), (pr_rest_okl _ _ Hr). reflexivity.
Qed.

Definition cmd_tail (c : cmd) : str :=
  cl_presemi (c_lay c) ++ (if cl_semi (c_lay c) then [c_semi] else []).

Lemma wf_cmd_parts c : wf_cmd c = true ->
  str_eqb (lower_str (cl_spell (c_lay c))) (lower_str (kind_name (c_kind c))) = true /\
  wf_args (cl_args (c_lay c)) (c_args c) = true /\
  forallb wf_junk (cl_junk (c_lay c)) = true /\
  (all_ws (cl_indent (c_lay c)) = true /\ no_newline (cl_indent (c_lay c)) = true) /\
  (all_ws (cl_sp (c_lay c)) = true /\ no_newline (cl_sp (c_lay c)) = true) /\
  (all_ws (cl_presemi (c_lay c)) = true /\ no_newline (cl_presemi (c_lay c)) = true) /\
  wf_after (cl_after (c_lay c)) = true /\ no_syn (cmd_core c) = true.
Proof. unfold wf_cmd, no_syn. rewrite !andb_true_iff. tauto. Qed.

Lemma cmd_core_ok c : wf_cmd c = true ->
  core_ok (cmd_core c) (cl_spell (c_lay c))
    (cl_sp (c_lay c) ++ c_lp :: print_args (cl_args (c_lay c)) (c_args c) ++ c_rp :: cmd_tail c).
Proof.
  intros H. destruct (wf_cmd_parts c H) as (Hs & Ha & _ & _ & [S1 S2] & [P1 P2] & _ & Hsyn).
  destruct (spell_facts _ _ Hs) as (Sa & Sn & Sh & _).
  split.
  - reflexivity.
  - unfold cmd_core. rewrite !okl_app. cbn [okl forallb]. fold okl. rewrite !okl_app. cbn [okl forallb]. fold okl.
    rewrite !okl_app.
    assert (E : okl (cl_spell (c_lay c)) = true).
    { apply okl2_okl. eapply forallb_impl; [|exact Sa]. apply alpha_okc2. }
    rewrite E, (ws_okl _ S1 S2), (print_args_okl _ _ Ha), (ws_okl _ P1 P2).
    destruct (cl_semi (c_lay c)); reflexivity.
  - unfold cmd_core. destruct (cl_spell (c_lay c)) as [|x s]; [discriminate|].
    cbn [app first_not_ws]. cbn [forallb] in Sa. apply andb_true_iff in Sa. destruct Sa as [Sx _].
    destruct (is_pyspace x) eqn:E; [|reflexivity]. destruct (pyspace_facts x E) as (_ & _ & W & _).
    apply alpha_wordc in Sx. unfold is_wordc in Sx. unfold is_word in W.
    destruct x as [[] [] [] [] [] [] [] []]; vm_compute in E, Sx; discriminate.
  - exact Sh.
  - exact Hsyn.
Qed.

(* ---------------------------------------------------------------- classification of the cores *)

Lemma ws_no_rp s : all_ws s = true -> mem_ascii c_rp s = false.
Proof.
  induction s as [|c s IH]; [reflexivity|]. cbn [all_ws forallb mem_ascii]. rewrite andb_true_iff. intros [H1 H2].
  destruct (pyspace_facts c H1) as (_ & R & _). rewrite ascii_eqb_sym, R. now apply IH.
Qed.

Lemma if_head_ok pre s1 cond tail :
  lower_str pre = lit "if" -> all_ws s1 = true -> mem_ascii c_rp tail = false ->
  if_head (pre ++ s1 ++ c_lp :: cond ++ c_rp :: tail) = Some (cond, tail).
Proof.
  intros Hp Hs Ht. unfold if_head. rewrite (ci_prefix_app _ pre _ Hp).
  rewrite drop_ws_app by exact Hs. unfold drop_ws. rewrite drop_while_stop by reflexivity.
  unfold paren_group. rewrite ascii_eqb_refl. now apply split_last_app.
Qed.

Lemma tail_brace_ok s2 w : all_ws s2 = true -> all_ws w = true -> tail_brace true (s2 ++ c_lb :: w) = true.
Proof.
  intros H1 H2. unfold tail_brace. rewrite drop_ws_app by exact H1.
  unfold drop_ws. rewrite drop_while_stop by reflexivity. rewrite ascii_eqb_refl. exact H2.
Qed.

Lemma brace_tail_no_rp s2 w : all_ws s2 = true -> all_ws w = true -> mem_ascii c_rp (s2 ++ c_lb :: w) = false.
Proof.
  intros H1 H2. rewrite mem_ascii_app, (ws_no_rp _ H1). cbn [mem_ascii orb].
  replace (ascii_eqb c_rp c_lb) with false by reflexivity. now apply ws_no_rp.
Qed.

Ltac norm_app := repeat (rewrite <- app_assoc || rewrite <- app_comm_cons); cbn [app].

Lemma if_core_shape b w :
  if_core b ++ w = lit "if" ++ bl_s1 (b_lay b) ++ c_lp :: print_cond (b_cond b) ++ c_rp :: (bl_s2 (b_lay b) ++ c_lb :: w).
Proof. unfold if_core. norm_app. reflexivity. Qed.

Lemma elif_core_shape b w :
  elif_core b ++ w = c_rb :: bl_s0 (b_lay b) ++ lit "else" ++ bl_s00 (b_lay b) ++
    (lit "if" ++ bl_s1 (b_lay b) ++ c_lp :: print_cond (b_cond b) ++ c_rp :: (bl_s2 (b_lay b) ++ c_lb :: w)).
Proof. unfold elif_core. norm_app. reflexivity. Qed.

Lemma else_core_shape l w :
  else_core l ++ w = c_rb :: bl_s0 l ++ lit "else" ++ (bl_s2 l ++ c_lb :: w).
Proof. unfold else_core. norm_app. reflexivity. Qed.

Lemma classify_if b w : wf_branch b = true -> all_ws w = true ->
  classify true (if_core b ++ w) = LIf (print_cond (b_cond b)).
Proof.
  unfold wf_branch. rewrite !andb_true_iff. intros [_ Hl] Hw.
  destruct (wf_bracelay_parts _ Hl) as (_ & _ & _ & _ & [A1 _] & [A2 _] & _).
  rewrite if_core_shape. unfold classify, brace_match.
  rewrite (if_head_ok (lit "if") _ _ _ eq_refl A1 (brace_tail_no_rp _ _ A2 Hw)).
  now rewrite (tail_brace_ok _ _ A2 Hw).
Qed.

Lemma if_head_rb r : if_head (c_rb :: r) = None.
Proof. reflexivity. Qed.

Lemma drop_ws_lit s (t r : str) :
  all_ws s = true -> first_not_ws (t ++ r) = true -> drop_ws (s ++ t ++ r) = t ++ r.
Proof.
  intros Hs Hf. rewrite drop_ws_app by exact Hs. destruct (t ++ r) as [|c x]; [discriminate|].
  cbn [first_not_ws] in Hf. apply negb_true_iff in Hf. unfold drop_ws. now rewrite drop_while_stop.
Qed.

Lemma ci_else x : ci_prefix (lit "else") (lit "else" ++ x) = Some x.
Proof. reflexivity. Qed.
Lemma cs_else x : cs_prefix (lit "else") (lit "else" ++ x) = Some x.
Proof. reflexivity. Qed.

Lemma classify_elif b w : wf_branch b = true -> all_ws w = true ->
  classify true (elif_core b ++ w) = LElseIf (print_cond (b_cond b)).
Proof.
  unfold wf_branch. rewrite !andb_true_iff. intros [_ Hl] Hw.
  destruct (wf_bracelay_parts _ Hl) as (_ & _ & [A0 _] & [A00 _] & [A1 _] & [A2 _] & _).
  rewrite elif_core_shape. unfold classify, brace_match. rewrite if_head_rb, ascii_eqb_refl.
  rewrite (drop_ws_lit _ (lit "else")) by (exact A0 || reflexivity).
  match goal with |- context [lit "else" ++ ?X] => remember (lit "else" ++ X) as E eqn:HE end.
  destruct E as [|a0 l0]; [discriminate HE|]. rewrite HE.
  rewrite ci_else, cs_else.
  assert (NE : forall x : str, match lit "else" ++ x with [] => Some LClose | _ :: _ => Some (LElseIf (print_cond (b_cond b))) end
               = Some (LElseIf (print_cond (b_cond b)))) by reflexivity.
  rewrite (drop_ws_lit _ (lit "if")) by (exact A00 || reflexivity).
  rewrite (if_head_ok (lit "if") _ _ _ eq_refl A1 (brace_tail_no_rp _ _ A2 Hw)).
  rewrite (tail_brace_ok _ _ A2 Hw). reflexivity.
Qed.

Lemma classify_else l w : wf_bracelay l = true -> all_ws w = true ->
  classify true (else_core l ++ w) = LElse true.
Proof.
  intros Hl Hw.
  destruct (wf_bracelay_parts _ Hl) as (_ & _ & [A0 _] & _ & _ & [A2 _] & _).
  rewrite else_core_shape. unfold classify, brace_match. rewrite if_head_rb, ascii_eqb_refl.
  rewrite (drop_ws_lit _ (lit "else")) by (exact A0 || reflexivity).
  match goal with |- context [lit "else" ++ ?X] => remember (lit "else" ++ X) as E eqn:HE end.
  destruct E as [|a0 l0]; [discriminate HE|]. rewrite HE.
  rewrite ci_else, cs_else.
  assert (E : if_head (drop_ws (bl_s2 l ++ c_lb :: w)) = None).
  { rewrite drop_ws_app by exact A2. unfold drop_ws. rewrite drop_while_stop by reflexivity. reflexivity. }
  rewrite E. rewrite (tail_brace_ok _ _ A2 Hw). reflexivity.
Qed.

Lemma classify_close w : all_ws w = true -> classify true (close_core ++ w) = LClose.
Proof.
  intros Hw. unfold classify, brace_match, close_core. cbn [app]. rewrite if_head_rb, ascii_eqb_refl.
  unfold drop_ws. rewrite drop_while_all by exact Hw. reflexivity.
Qed.

Lemma ws_facts_all s : all_ws s = true ->
  mem_ascii c_rp s = false /\ forallb (fun c => negb (is_word c)) s = true.
Proof.
  intros H. split; [now apply ws_no_rp|]. eapply forallb_impl; [|exact H]. intros c Hc.
  destruct (pyspace_facts c Hc) as (_ & _ & -> & _). reflexivity.
Qed.

Lemma tail_semi_ok pre (semi : bool) w : all_ws pre = true -> all_ws w = true ->
  tail_semi (pre ++ (if semi then [c_semi] else []) ++ w) = true.
Proof.
  intros H1 H2. unfold tail_semi. rewrite drop_ws_app by exact H1. destruct semi; cbn [app].
  - unfold drop_ws. rewrite drop_while_stop by reflexivity. rewrite ascii_eqb_refl. exact H2.
  - unfold drop_ws. rewrite drop_while_all by exact H2. reflexivity.
Qed.

Lemma classify_cmd c w : wf_cmd c = true -> all_ws w = true ->
  classify true (cmd_core c ++ w) = cmd_kind_line c.
Proof.
  intros H Hw. destruct (wf_cmd_parts c H) as (Hs & _ & _ & _ & [S1 _] & [P1 _] & _).
  destruct (spell_facts _ _ Hs) as (Sa & Sn & _ & Sif).
  set (spell := cl_spell (c_lay c)) in *. set (A := print_args (cl_args (c_lay c)) (c_args c)).
  set (T := cl_presemi (c_lay c) ++ (if cl_semi (c_lay c) then [c_semi] else []) ++ w).
  assert (Sh : cmd_core c ++ w = spell ++ cl_sp (c_lay c) ++ c_lp :: A ++ c_rp :: T).
  { unfold cmd_core, T, A, spell. norm_app. reflexivity. }
  rewrite Sh. unfold classify.
  assert (NoRp : mem_ascii c_rp T = false).
  { unfold T. rewrite !mem_ascii_app, (ws_no_rp _ P1), (ws_no_rp _ Hw). destruct (cl_semi (c_lay c)); reflexivity. }
  assert (B : brace_match true (spell ++ cl_sp (c_lay c) ++ c_lp :: A ++ c_rp :: T) = None).
  { unfold brace_match, if_head. rewrite (ci_prefix_mismatch _ spell _ Sif).
    destruct spell as [|x sp']; [discriminate|]. cbn [app]. cbn [forallb] in Sa. apply andb_true_iff in Sa.
    destruct Sa as [Sx _]. destruct (alpha_facts x Sx) as (_ & _ & _ & _ & _ & _ & _ & _).
    destruct (ascii_eqb x c_rb) eqn:E; [|reflexivity]. apply ascii_eqb_eq in E. subst x. discriminate Sx. }
  rewrite B. unfold cmd_match.
  assert (Sp : span is_word (spell ++ cl_sp (c_lay c) ++ c_lp :: A ++ c_rp :: T)
               = (spell, cl_sp (c_lay c) ++ c_lp :: A ++ c_rp :: T)).
  { assert (W : forallb is_word spell = true).
    { eapply forallb_impl; [|exact Sa]. intros x Hx. unfold is_word. now rewrite Hx. }
    destruct (cl_sp (c_lay c)) as [|y s'] eqn:E.
    - cbn [app]. apply span_app; [exact W|reflexivity].
    - cbn [app]. apply span_app; [exact W|]. cbn [all_ws forallb] in S1. apply andb_true_iff in S1.
      destruct S1 as [Sy _]. now destruct (pyspace_facts y Sy) as (_ & _ & -> & _). }
  rewrite Sp. destruct spell as [|x sp'] eqn:Esp; [discriminate|]. rewrite <- Esp.
  rewrite drop_ws_app by exact S1. unfold drop_ws. rewrite drop_while_stop by reflexivity.
  unfold paren_group. rewrite ascii_eqb_refl, (split_last_app _ A T NoRp).
  unfold T. rewrite (tail_semi_ok _ _ _ P1 Hw). reflexivity.
Qed.

(* ---------------------------------------------------------------- the whole file *)

Definition R (ingroup : bool) (ng : newgrp) (cond : str) (lines : list str) : res (list str) :=
  rewrite_go false ingroup ng cond lines.

(* the raw lines X leave the rewritten lines Y, in every state of _rewrite except directly
   after a Flavor= line *)
Definition emits (X Y : list str) : Prop :=
  forall ingroup ng cond rest, ng <> NGFlavors ->
    R ingroup ng cond (X ++ rest) = bind (R ingroup ng cond rest) (fun o => Ok (Y ++ o)).

Lemma emits_nil : emits [] [].
Proof. intros ig ng cd rest _. cbn [app]. destruct (R ig ng cd rest); reflexivity. Qed.

Lemma emits_app X1 Y1 X2 Y2 : emits X1 Y1 -> emits X2 Y2 -> emits (X1 ++ X2) (Y1 ++ Y2).
Proof.
  intros H1 H2 ig ng cd rest Hng. rewrite <- app_assoc, H1, H2 by exact Hng.
  destruct (R ig ng cd rest); cbn [bind]; [|reflexivity]. now rewrite app_assoc.
Qed.

Lemma emits_flat_map {A} (f g : A -> list str) l :
  (forall x, In x l -> emits (f x) (g x)) -> emits (flat_map f l) (flat_map g l).
Proof.
  induction l as [|x l IH]; intros H; [apply emits_nil|]. cbn [flat_map].
  apply emits_app; [apply H; left; reflexivity|]. apply IH. intros y Hy. apply H. right. exact Hy.
Qed.

Lemma emits_line junk indent core h r after :
  forallb wf_junk junk = true -> all_ws indent = true -> no_newline indent = true ->
  core_ok core h r -> wf_after after = true ->
  emits (junk ++ [indent ++ core ++ after]) [core ++ ws_of after].
Proof.
  intros Hj Hi Hn Hc Ha ig ng cd rest Hng. unfold R. rewrite <- app_assoc. cbn [app].
  exact (rewrite_line ig ng cd junk indent core h r after rest Hng Hj Hi Hn Hc Ha).
Qed.

Definition cmd_out (c : cmd) : str := cmd_core c ++ ws_of (cl_after (c_lay c)).
Definition brace_out (l : bracelay) (core : str) : str := core ++ ws_of (bl_after l).

Definition item_outs (i : item) : list str :=
  match i with
  | ICmd c => [cmd_out c]
  | IChain b0 elifs els cl =>
      [brace_out (b_lay b0) (if_core b0)] ++ map cmd_out (b_body b0)
      ++ flat_map (fun b => [brace_out (b_lay b) (elif_core b)] ++ map cmd_out (b_body b)) elifs
      ++ (match els with
          | Some (b, l) => [brace_out l (else_core l)] ++ map cmd_out b
          | None => []
          end)
      ++ [brace_out cl close_core]
  end.

Lemma emits_cmd c : wf_cmd c = true -> emits (cmd_lines c) [cmd_out c].
Proof.
  intros H. destruct (wf_cmd_parts c H) as (_ & _ & Hj & [I1 I2] & _ & _ & Ha & _).
  unfold cmd_lines, cmd_line, cmd_out. eapply emits_line; eauto using cmd_core_ok.
Qed.

Lemma flat_map_singleton {A B} (f : A -> B) l : flat_map (fun x => [f x]) l = map f l.
Proof. induction l as [|x l IH]; [reflexivity|]. cbn. now rewrite IH. Qed.

Lemma emits_cmds body : forallb wf_cmd body = true -> emits (flat_map cmd_lines body) (map cmd_out body).
Proof.
  intros H. rewrite <- flat_map_singleton.
  apply emits_flat_map. intros c Hc. apply emits_cmd. rewrite forallb_forall in H. now apply H.
Qed.

Lemma emits_brace l core h r : wf_bracelay l = true -> core_ok core h r ->
  emits (brace_line l core) [brace_out l core].
Proof.
  intros Hl Hc. destruct (wf_bracelay_parts _ Hl) as (Hj & [I1 I2] & _ & _ & _ & _ & Ha).
  unfold brace_line, brace_out. eapply emits_line; eauto.
Qed.

Lemma wf_branch_parts b : wf_branch b = true ->
  wf_cond (b_cond b) = true /\ forallb wf_cmd (b_body b) = true /\ wf_bracelay (b_lay b) = true.
Proof. unfold wf_branch. rewrite !andb_true_iff. tauto. Qed.

Lemma emits_item i : wf_item i = true -> emits (item_lines i) (item_outs i).
Proof.
  destruct i as [c|b0 elifs els cl]; cbn [wf_item item_lines item_outs].
  - apply emits_cmd.
  - rewrite !andb_true_iff. intros [[[Hb0 Hel] Hels] Hcl].
    destruct (wf_branch_parts _ Hb0) as (_ & Hc0 & Hl0).
    apply emits_app; [apply (emits_brace _ _ _ _ Hl0 (if_core_ok b0 Hb0))|].
    apply emits_app; [apply emits_cmds, Hc0|].
    apply emits_app.
    { apply emits_flat_map. intros b Hb. rewrite forallb_forall in Hel. specialize (Hel b Hb).
      destruct (wf_branch_parts _ Hel) as (_ & Hcb & Hlb).
      destruct (elif_core_ok b Hel) as (r & Hok & _).
      apply emits_app; [apply (emits_brace _ _ _ _ Hlb Hok)|apply emits_cmds, Hcb]. }
    apply emits_app.
    { destruct els as [[eb el]|]; [|apply emits_nil]. apply andb_true_iff in Hels. destruct Hels as [He1 He2].
      destruct (else_core_ok el He2) as (r & Hok & _).
      apply emits_app; [apply (emits_brace _ _ _ _ He2 Hok)|apply emits_cmds, He1]. }
    apply (emits_brace _ _ _ _ Hcl close_core_ok).
Qed.

Lemma emits_items is : wf_items is = true -> emits (items_lines is) (flat_map item_outs is).
Proof.
  intros H. apply emits_flat_map. intros i Hi. apply emits_item.
  unfold wf_items in H. rewrite forallb_forall in H. now apply H.
Qed.

(* ---- classification of the rewritten lines *)

Lemma ws_of_ws after : wf_after after = true -> all_ws (ws_of after) = true.
Proof. intros H. now destruct (wf_after_split after H). Qed.

Lemma classify_cmds body : forallb wf_cmd body = true ->
  map (classify true) (map cmd_out body) = map cmd_kind_line body.
Proof.
  induction body as [|c body IH]; [reflexivity|]. cbn [forallb map]. rewrite andb_true_iff. intros [H1 H2].
  rewrite (IH H2). f_equal. unfold cmd_out. apply classify_cmd; [exact H1|].
  destruct (wf_cmd_parts c H1) as (_ & _ & _ & _ & _ & _ & Ha & _). now apply ws_of_ws.
Qed.

Lemma classify_item i : wf_item i = true -> map (classify true) (item_outs i) = item_kinds i.
Proof.
  destruct i as [c|b0 elifs els cl]; cbn [wf_item item_outs item_kinds].
  - intros H. apply (classify_cmds [c]). cbn. now rewrite H.
  - rewrite !andb_true_iff. intros [[[Hb0 Hel] Hels] Hcl].
    destruct (wf_branch_parts _ Hb0) as (_ & Hc0 & Hl0).
    destruct (wf_bracelay_parts _ Hl0) as (_ & _ & _ & _ & _ & _ & Ha0).
    destruct (wf_bracelay_parts _ Hcl) as (_ & _ & _ & _ & _ & _ & Hacl).
    rewrite !map_app. cbn [map app]. unfold brace_out.
    rewrite (classify_if b0 _ Hb0 (ws_of_ws _ Ha0)), (classify_cmds _ Hc0). f_equal. f_equal.
    f_equal.
    { clear -Hel. induction elifs as [|b r IH]; [reflexivity|]. cbn [forallb] in Hel.
      apply andb_true_iff in Hel. destruct Hel as [Hb Hr]. cbn [flat_map]. rewrite map_app, (IH Hr). f_equal.
      destruct (wf_branch_parts _ Hb) as (_ & Hcb & Hlb).
      destruct (wf_bracelay_parts _ Hlb) as (_ & _ & _ & _ & _ & _ & Hab).
      cbn [app map]. unfold brace_out. rewrite (classify_elif b _ Hb (ws_of_ws _ Hab)), (classify_cmds _ Hcb). reflexivity. }
    f_equal.
    { destruct els as [[eb el]|]; [|reflexivity]. apply andb_true_iff in Hels. destruct Hels as [He1 He2].
      destruct (wf_bracelay_parts _ He2) as (_ & _ & _ & _ & _ & _ & Hae).
      cbn [app map]. unfold brace_out. rewrite (classify_else el _ He2 (ws_of_ws _ Hae)), (classify_cmds _ He1). reflexivity. }
    rewrite (classify_close _ (ws_of_ws _ Hacl)). reflexivity.
Qed.

Lemma classify_items is : wf_items is = true ->
  map (classify true) (flat_map item_outs is) = items_kinds is.
Proof.
  induction is as [|i is IH]; [reflexivity|]. cbn [wf_items forallb flat_map]. rewrite andb_true_iff.
  intros [H1 H2]. unfold items_kinds. cbn [flat_map]. rewrite map_app, (classify_item i H1). f_equal. now apply IH.
Qed.

(* ---- readlines *)

Lemma split_lines_print lines :
  Forall (fun l => no_newline l = true) lines ->
  split_lines (flat_map (fun l => l ++ [c_nl]) lines) = lines ++ [[]].
Proof.
  intros H. unfold split_lines.
  assert (E : map_char (chr 13) c_nl (flat_map (fun l => l ++ [c_nl]) lines) = flat_map (fun l => l ++ [c_nl]) lines).
  { apply map_char_id. induction H as [|l ls Hl _ IH]; [reflexivity|]. cbn [flat_map].
    rewrite !mem_ascii_app, IH. destruct (no_newline_mem l Hl) as [_ ->]. reflexivity. }
  rewrite E. clear E. induction H as [|l ls Hl _ IH]; [reflexivity|]. cbn [flat_map].
  rewrite <- app_assoc. cbn [app]. destruct (no_newline_mem l Hl) as [N _].
  rewrite (split_on_app c_nl l _ N). cbn [app]. now rewrite IH.
Qed.

Lemma line_no_newline indent core after :
  no_newline indent = true -> okl core = true -> wf_after after = true ->
  no_newline (indent ++ core ++ after) = true.
Proof.
  intros H1 H2 H3. unfold wf_after in H3. apply andb_true_iff in H3. destruct H3 as [H3 _].
  now rewrite !no_newline_app, H1, (okl_no_newline _ H2), H3.
Qed.

Lemma junk_no_newline junk : forallb wf_junk junk = true -> Forall (fun l => no_newline l = true) junk.
Proof.
  rewrite forallb_Forall. apply Forall_impl. intros l H. unfold wf_junk, wf_after in H.
  apply andb_true_iff in H. tauto.
Qed.

Lemma cmd_lines_nn c : wf_cmd c = true -> Forall (fun l => no_newline l = true) (cmd_lines c).
Proof.
  intros H. destruct (wf_cmd_parts c H) as (_ & _ & Hj & [_ I2] & _ & _ & Ha & _).
  unfold cmd_lines. apply Forall_app. split; [now apply junk_no_newline|]. constructor; [|constructor].
  unfold cmd_line. apply line_no_newline; auto. destruct (cmd_core_ok c H). assumption.
Qed.

Lemma brace_line_nn l core h r : wf_bracelay l = true -> core_ok core h r ->
  Forall (fun l => no_newline l = true) (brace_line l core).
Proof.
  intros Hl Hc. destruct (wf_bracelay_parts _ Hl) as (Hj & [_ I2] & _ & _ & _ & _ & Ha).
  unfold brace_line. apply Forall_app. split; [now apply junk_no_newline|]. constructor; [|constructor].
  apply line_no_newline; auto. destruct Hc. assumption.
Qed.

Lemma Forall_flat_map {A B} (P : B -> Prop) (f : A -> list B) l :
  (forall x, In x l -> Forall P (f x)) -> Forall P (flat_map f l).
Proof.
  induction l as [|x l IH]; intros H; [constructor|]. cbn [flat_map]. apply Forall_app. split.
  - apply H. left. reflexivity.
  - apply IH. intros y Hy. apply H. right. exact Hy.
Qed.

Lemma cmds_lines_nn body : forallb wf_cmd body = true ->
  Forall (fun l => no_newline l = true) (flat_map cmd_lines body).
Proof.
  intros H. apply Forall_flat_map. intros c Hc. apply cmd_lines_nn. rewrite forallb_forall in H. now apply H.
Qed.

Lemma item_lines_nn i : wf_item i = true -> Forall (fun l => no_newline l = true) (item_lines i).
Proof.
  destruct i as [c|b0 elifs els cl]; cbn [wf_item item_lines].
  - apply cmd_lines_nn.
  - rewrite !andb_true_iff. intros [[[Hb0 Hel] Hels] Hcl].
    destruct (wf_branch_parts _ Hb0) as (_ & Hc0 & Hl0).
    apply Forall_app; split; [apply (brace_line_nn _ _ _ _ Hl0 (if_core_ok b0 Hb0))|].
    apply Forall_app; split; [apply cmds_lines_nn, Hc0|].
    apply Forall_app; split.
    { apply Forall_flat_map. intros b Hb. rewrite forallb_forall in Hel. specialize (Hel b Hb).
      destruct (wf_branch_parts _ Hel) as (_ & Hcb & Hlb). destruct (elif_core_ok b Hel) as (r & Hok & _).
      apply Forall_app. split; [apply (brace_line_nn _ _ _ _ Hlb Hok)|apply cmds_lines_nn, Hcb]. }
    apply Forall_app; split.
    { destruct els as [[eb el]|]; [|constructor]. apply andb_true_iff in Hels. destruct Hels as [He1 He2].
      destruct (else_core_ok el He2) as (r & Hok & _).
      apply Forall_app. split; [apply (brace_line_nn _ _ _ _ He2 Hok)|apply cmds_lines_nn, He1]. }
    apply (brace_line_nn _ _ _ _ Hcl close_core_ok).
Qed.

(* the text of a well-formed items list is read as its classified lines *)
Theorem read_text_print eb top is : wf_items is = true ->
  read_text true eb top (print_table is) = read_blocks_sel true eb top (items_kinds is).
Proof.
  intros H. unfold read_text, print_table.
  rewrite split_lines_print.
  2:{ apply Forall_flat_map. intros i Hi. apply item_lines_nn. unfold wf_items in H. rewrite forallb_forall in H. now apply H. }
  unfold rewrite. pose proof (emits_items is H false NG0 [] [[]]) as E. unfold R in E. rewrite E by discriminate.
  cbn [rewrite_go prep_line filter drop_ws drop_while cut_comment bind]. rewrite app_nil_r.
  now rewrite (classify_items is H).
Qed.
