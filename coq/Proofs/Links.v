(* Symbolic links (C16): what realpath makes of the names below a stack that is reached
   through a link, for the link tables the theorems are instantiated with. *)
From Eupsv Require Import Base.Base Base.BaseLemmas Model.Paths Proofs.RecordsLib Proofs.PathsLib.
From Coq Require Import Lia.

Lemma app_cons_middle {A} (a : list A) c b : a ++ c :: b = (a ++ [c]) ++ b.
Proof. now rewrite <- app_assoc. Qed.

(* a suffix that continues a directory name: nothing, or a slash and more *)
Definition sfx (x : str) : bool :=
  match x with [] => true | c :: _ => ascii_eqb c c_slash end.

(* The stack named root is the directory rroot: the name itself and every name below it
   resolve to the same place below rroot. *)
Definition link_view (lk : links) (root rroot : str) : Prop :=
  forall x, sfx x = true -> realpath lk (root ++ x) = rroot ++ x.

Lemma realpath_step lk s :
  realpath lk s = match resolve1 lk s with Some s' => realpath_f 39 lk s' | None => s end.
Proof. reflexivity. Qed.

Lemma realpath_f_none fuel lk s : resolve1 lk s = None -> realpath_f fuel lk s = s.
Proof. intro H. destruct fuel; [reflexivity|]. cbn [realpath_f]. now rewrite H. Qed.

Lemma realpath_nil s : realpath [] s = s.
Proof. reflexivity. Qed.

Lemma link_view_nil root : link_view [] root root.
Proof. intros x _. reflexivity. Qed.

Lemma sfx_cons x : sfx x = true -> x = [] \/ exists y, x = c_slash :: y.
Proof.
  destruct x as [|c y]; [now left|]. cbn. intro H. right. exists y. f_equal.
  now apply ascii_eqb_eq in H.
Qed.

Lemma sfx_app s x : sfx s = true -> sfx x = true -> sfx (s ++ x) = true.
Proof. destruct s; cbn; auto. Qed.

(* a prefix of a ++ b is a prefix of a, or goes on into b *)
Lemma sw_split p a b : starts_with p (a ++ b) = true ->
  starts_with p a = true \/ exists p', p = a ++ p' /\ starts_with p' b = true.
Proof.
  revert p. induction a as [|c a IH]; intros p H.
  - right. exists p. split; [reflexivity|exact H].
  - destruct p as [|d p]; [now left|]. cbn [app starts_with] in *.
    destruct (ascii_eqb d c) eqn:E; [|discriminate]. apply ascii_eqb_eq in E. subst d.
    destruct (IH p H) as [L|[p' [-> R]]]; [now left|]. right. exists p'. now split.
Qed.

Lemma sw_mono p a b : starts_with p a = true -> starts_with p (a ++ b) = true.
Proof.
  intro H. destruct (starts_with_true_app _ _ H) as [r ->]. rewrite <- app_assoc. apply starts_with_refl.
Qed.

(* neither name is the other one or a directory above it *)
Definition unrelated (l t : str) : bool :=
  negb (starts_with (l ++ [c_slash]) (t ++ [c_slash])) && negb (starts_with (t ++ [c_slash]) l).

Lemma snoc_eq_split (l t : str) (q : str) :
  l ++ [c_slash] = t ++ c_slash :: q -> l = t \/ starts_with (t ++ [c_slash]) l = true.
Proof.
  intro E. destruct (exists_last (l := c_slash :: q)) as [q' [e Eq]]; [discriminate|].
  rewrite Eq in E. rewrite app_assoc in E. apply app_inj_tail in E. destruct E as [E _].
  destruct q' as [|c q''].
  - left. cbn in Eq. now rewrite app_nil_r in E.
  - right. cbn [app] in Eq. injection Eq as <- _. subst l.
    rewrite (app_cons_middle t c_slash q''). apply starts_with_refl.
Qed.

Lemma unrelated_none l t x : unrelated l t = true -> sfx x = true -> resolve1 [(l, t)] (t ++ x) = None.
Proof.
  unfold unrelated. rewrite andb_true_iff, !negb_true_iff. intros [U1 U2] Hx.
  cbn [resolve1].
  assert (A : str_eqb (t ++ x) l = false).
  { apply str_eqb_neq. intro E. destruct (sfx_cons x Hx) as [->|[y ->]].
    - rewrite app_nil_r in E. subst l. now rewrite starts_with_self in U1.
    - subst l. rewrite (app_cons_middle t c_slash y) in U2. now rewrite starts_with_refl in U2. }
  assert (B : starts_with (l ++ [c_slash]) (t ++ x) = false).
  { destruct (starts_with (l ++ [c_slash]) (t ++ x)) eqn:E; [|reflexivity].
    destruct (sw_split _ _ _ E) as [L|[p' [Ep R]]].
    - rewrite (sw_mono _ t [c_slash] L) in U1. discriminate.
    - destruct (sfx_cons x Hx) as [->|[y ->]].
      + destruct p' as [|? ?]; [|discriminate]. rewrite app_nil_r in Ep.
        rewrite Ep in U1. now rewrite starts_with_refl in U1.
      + destruct p' as [|c q].
        * rewrite app_nil_r in Ep. rewrite Ep in U1. now rewrite starts_with_refl in U1.
        * cbn [starts_with] in R. destruct (ascii_eqb c c_slash) eqn:Ec; [|discriminate].
          apply ascii_eqb_eq in Ec. subst c.
          destruct (snoc_eq_split l t q Ep) as [->|S].
          -- now rewrite starts_with_self in U1.
          -- congruence. }
  now rewrite A, B.
Qed.

(* one link: the stack directory itself (s empty) or a directory above it *)
Lemma link_view_single l t s : unrelated l t = true -> sfx s = true ->
  link_view [(l, t)] (l ++ s) (t ++ s).
Proof.
  intros U Hs x Hx. rewrite <- !app_assoc. set (y := s ++ x).
  assert (Hy : sfx y = true) by now apply sfx_app.
  rewrite realpath_step. cbn [resolve1].
  assert (H : str_eqb (l ++ y) l || starts_with (l ++ [c_slash]) (l ++ y) = true).
  { destruct (sfx_cons y Hy) as [->|[z ->]].
    - rewrite app_nil_r, str_eqb_refl. reflexivity.
    - rewrite (app_cons_middle l c_slash z), starts_with_refl. apply orb_true_r. }
  rewrite H, skipn_app_len. apply realpath_f_none. now apply unrelated_none.
Qed.

(* a path no entry applies to is its own resolved name *)
Lemma realpath_none lk s : resolve1 lk s = None -> realpath lk s = s.
Proof. apply realpath_f_none. Qed.
