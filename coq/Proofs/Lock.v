(* C09 - safety of the lock protocol over a path of stacks: the inductive invariants behind mutex,
   no_residue and no_residue_after_failure.  The case analyses of one call are in Proofs/LockNext*.v;
   here they are lifted to the global state. *)
From Eupsv Require Import Base.Base Model.Lock Proofs.LockLib Proofs.LockNext Proofs.LockNext2.
From Coq Require Import Lia.

(* a lock file lies in an existing lock directory *)
Definition I0 (s : state) := forall k x, In x (files s k) -> dir s k = true.
(* where a process thinks it has a lock file, it has one ... *)
Definition I1 (cfg : config) (s : state) :=
  forall p x k, owns (local_of s p) x = true -> nth_error (path_of cfg p) x = Some k -> In p (files s k).
(* ... and nowhere else *)
Definition I2 (cfg : config) (s : state) :=
  forall p k, In p (files s k) -> exists x, nth_error (path_of cfg p) x = Some k /\ owns (local_of s p) x = true.
(* an existing lock directory holds a file or has a process bound to fill or remove it *)
Definition IJ (cfg : config) (s : state) :=
  forall k, dir s k = true ->
    files s k <> [] \/
    exists p, resp (pc s p) = true /\ nth_error (path_of cfg p) (widx (local_of s p)) = Some k.
Definition IN (s : state) := forall p, pc s p <> LHeldNoLock.
Definition IW (cfg : config) (s : state) :=
  forall p, nlk s p <= length (path_of cfg p) /\ (pc s p = LHeld -> nlk s p = length (path_of cfg p)).
(* a process that has ended owns nothing *)
Definition IT (s : state) := forall p, clean (local_of s p).
(* while a lock is firm, an incompatible unrelated lock file on the same stack is unvalidated *)
Definition I3 (cfg : config) (s : state) :=
  forall a b x k, a <> b -> ~ related cfg a b -> (kind_of cfg a = Ex \/ kind_of cfg b = Ex) ->
    nth_error (path_of cfg a) x = Some k -> firm (local_of s a) x = true -> In b (files s k) ->
    unvalidated (pc s b) = true /\ nth_error (path_of cfg b) (nlk s b) = Some k.

(* ---- one step, seen through its effect *)

Lemma step_cases fx fr cfg s p c :
  (exists k d' fs' lo',
      nth_error (path_of cfg p) (widx (local_of s p)) = Some k /\
      next fx fr cfg (dir s k) (files s k) (local_of s p) p c = (d', fs', lo') /\
      step_gen fx fr cfg s p c = put (write s k d' fs') p lo') \/
  (nth_error (path_of cfg p) (widx (local_of s p)) = None /\
   step_gen fx fr cfg s p c = put s p (nostack (local_of s p))).
Proof.
  unfold step_gen. destruct (nth_error (path_of cfg p) (widx (local_of s p))) as [k|] eqn:W.
  - left. destruct (next fx fr cfg (dir s k) (files s k) (local_of s p) p c) as [[d' fs'] lo'] eqn:N.
    exists k, d', fs', lo'. auto.
  - right. auto.
Qed.

Lemma local_put_same s p lo : local_of (put s p lo) p = lo.
Proof. unfold local_of, put. cbn. rewrite !upd_same. now destruct lo. Qed.

Lemma local_put_other s p lo q : q <> p -> local_of (put s p lo) q = local_of s q.
Proof. intro H. unfold local_of, put. cbn. now rewrite !upd_other. Qed.

Lemma local_write s k d fs q : local_of (write s k d fs) q = local_of s q.
Proof. reflexivity. Qed.

Lemma files_put s p lo k : files (put s p lo) k = files s k.
Proof. reflexivity. Qed.
Lemma dir_put s p lo k : dir (put s p lo) k = dir s k.
Proof. reflexivity. Qed.
Lemma files_write_same s k d fs : files (write s k d fs) k = fs.
Proof. cbn. apply upd_same. Qed.
Lemma files_write_other s k d fs k' : k' <> k -> files (write s k d fs) k' = files s k'.
Proof. intro H. cbn. now apply upd_other. Qed.
Lemma dir_write_same s k d fs : dir (write s k d fs) k = d.
Proof. cbn. apply upd_same. Qed.
Lemma dir_write_other s k d fs k' : k' <> k -> dir (write s k d fs) k' = dir s k'.
Proof. intro H. cbn. now apply upd_other. Qed.
Lemma pc_local s p : pc s p = lpc (local_of s p).
Proof. reflexivity. Qed.
Lemma nlk_local s p : nlk s p = lnl (local_of s p).
Proof. reflexivity. Qed.
Lemma cur_local s p : cur s p = lcur (local_of s p).
Proof. reflexivity. Qed.

Section Inductive.
Variables (fx fr : bool) (cfg : config).
Notation stp := (step_gen fx fr cfg).

(* whatever the step, the lock files of the other processes stay where they are *)
Lemma files_other s p c x k : x <> p -> (In x (files (stp s p c) k) <-> In x (files s k)).
Proof.
  intro Hne. destruct (step_cases fx fr cfg s p c) as [(k0 & d' & fs' & lo' & W & N & E) | (W & E)]; rewrite E.
  - rewrite files_put. destruct (Nat.eq_dec k k0) as [->|Hk].
    + rewrite files_write_same.
      destruct (next_files _ _ _ _ _ _ _ _ _ _ _ N) as [F | [(_ & _ & F & _) | (m & _ & _ & F & _)]]; subst fs'.
      * tauto.
      * rewrite in_add. tauto.
      * rewrite in_rem. tauto.
    + now rewrite files_write_other.
  - now rewrite files_put.
Qed.

Lemma local_other s p c x : x <> p -> local_of (stp s p c) x = local_of s x.
Proof.
  intro Hne. destruct (step_cases fx fr cfg s p c) as [(k0 & d' & fs' & lo' & W & N & E) | (W & E)]; rewrite E.
  - now rewrite local_put_other, local_write.
  - now rewrite local_put_other.
Qed.

Lemma init_inv : I0 init /\ I1 cfg init /\ I2 cfg init /\ IJ cfg init /\ IN init /\ IW cfg init /\ IT init /\ I3 cfg init.
Proof.
  unfold I0, I1, I2, IJ, IN, IW, IT, I3, clean, owns, firm, local_of. cbn.
  repeat split; intros; try discriminate; try contradiction; try lia.
Qed.

Lemma step_I0 s p c : I0 s -> I0 (stp s p c).
Proof.
  intros H0 k x. destruct (step_cases fx fr cfg s p c) as [(k0 & d' & fs' & lo' & W & N & E) | (W & E)]; rewrite E.
  - rewrite files_put, dir_put. destruct (Nat.eq_dec k k0) as [->|Hk].
    + rewrite files_write_same, dir_write_same. intro Hin.
      destruct (next_dir _ _ _ _ _ _ _ _ _ _ _ N) as [D | [(_ & _ & D & _) | (m & _ & _ & _ & _ & F)]].
      * subst d'. destruct (next_files _ _ _ _ _ _ _ _ _ _ _ N) as [F | [(_ & D & _) | (m & _ & Hp & _)]].
        -- subst fs'. now apply (H0 k0 x).
        -- assumption.
        -- now apply (H0 k0 p).
      * assumption.
      * subst fs'. contradiction.
    + rewrite files_write_other, dir_write_other by assumption. apply H0.
  - rewrite files_put, dir_put. apply H0.
Qed.

Lemma step_IW s p c : IW cfg s -> IW cfg (stp s p c).
Proof.
  intros HW q. destruct (Nat.eq_dec q p) as [->|Hne].
  - destruct (HW p) as [L H]. rewrite pc_local, nlk_local in *.
    destruct (step_cases fx fr cfg s p c) as [(k0 & d' & fs' & lo' & W & N & E) | (W & E)]; rewrite E;
      rewrite local_put_same.
    + apply (next_IW _ _ _ _ _ _ _ _ _ _ _ N); try assumption. now apply nth_error_lt in W.
    + now apply nostack_IW.
  - rewrite pc_local, nlk_local, (local_other s p c q Hne). apply HW.
Qed.

Hypothesis WF : wf cfg.

Lemma step_I1 s p c : I1 cfg s -> I1 cfg (stp s p c).
Proof.
  intros H1 q x k Ho Hk. destruct (Nat.eq_dec q p) as [->|Hne].
  - destruct (step_cases fx fr cfg s p c) as [(k0 & d' & fs' & lo' & W & N & E) | (W & E)]; rewrite E in Ho |- *;
      rewrite local_put_same in Ho; rewrite files_put.
    + destruct (Nat.eq_dec x (widx (local_of s p))) as [->|Hx].
      * assert (k = k0) by congruence. subst k. rewrite files_write_same.
        apply (next_I1 _ _ _ _ _ _ _ _ _ _ _ N); [|assumption]. intro Ho'. now apply (H1 p (widx (local_of s p)) k0).
      * assert (Hk' : k <> k0).
        { intro. subst k. apply Hx. now apply (nodup_nth_eq _ _ _ k0 (WF p)). }
        rewrite files_write_other by assumption.
        rewrite (next_owns_other _ _ _ _ _ _ _ _ _ _ _ _ N Hx) in Ho. now apply (H1 p x k).
    + rewrite owns_nostack in Ho. now apply (H1 p x k).
  - rewrite (local_other s p c q Hne) in Ho. apply (files_other s p c q k Hne). now apply (H1 q x k).
Qed.

Lemma step_I2 s p c : I0 s -> I2 cfg s -> I2 cfg (stp s p c).
Proof.
  intros H0 H2 q k Hin. destruct (Nat.eq_dec q p) as [->|Hne].
  - destruct (step_cases fx fr cfg s p c) as [(k0 & d' & fs' & lo' & W & N & E) | (W & E)]; rewrite E in Hin |- *;
      rewrite local_put_same; rewrite files_put in Hin.
    + destruct (Nat.eq_dec k k0) as [->|Hk].
      * rewrite files_write_same in Hin. exists (widx (local_of s p)). split; [assumption|].
        apply (next_I2 _ _ _ _ _ _ _ _ _ _ _ N); try assumption.
        -- intro Hp. destruct (H2 p k0 Hp) as (x & Hx & Ho).
           now rewrite <- (nodup_nth_eq _ _ _ k0 (WF p) Hx W).
        -- apply H0.
      * rewrite files_write_other in Hin by assumption.
        destruct (H2 p k Hin) as (x & Hx & Ho). exists x. split; [assumption|].
        rewrite (next_owns_other _ _ _ _ _ _ _ _ _ _ _ _ N); [assumption|]. intro. subst x. congruence.
    + destruct (H2 p k Hin) as (x & Hx & Ho). exists x. split; [assumption|]. now rewrite owns_nostack.
  - rewrite (local_other s p c q Hne). apply H2. now apply (files_other s p c q k Hne).
Qed.

Lemma step_IJ s p c : IJ cfg s -> IJ cfg (stp s p c).
Proof.
  intros HJ k. destruct (step_cases fx fr cfg s p c) as [(k0 & d' & fs' & lo' & W & N & E) | (W & E)].
  - rewrite E, dir_put, files_put. destruct (Nat.eq_dec k k0) as [->|Hk].
    + rewrite dir_write_same, files_write_same. intro D'.
      assert (keep : forall q, q <> p -> resp (pc s q) = true /\ nth_error (path_of cfg q) (widx (local_of s q)) = Some k0 ->
                     exists q', resp (pc (put (write s k0 d' fs') p lo') q') = true /\
                       nth_error (path_of cfg q') (widx (local_of (put (write s k0 d' fs') p lo') q')) = Some k0).
      { intros q Hq [R Wq]. exists q. rewrite pc_local, local_put_other, local_write by assumption. auto. }
      assert (me : resp (lpc lo') = true /\ widx lo' = widx (local_of s p) ->
                   exists q', resp (pc (put (write s k0 d' fs') p lo') q') = true /\
                     nth_error (path_of cfg q') (widx (local_of (put (write s k0 d' fs') p lo') q')) = Some k0).
      { intros [R Wp]. exists p. rewrite pc_local, local_put_same. rewrite Wp. auto. }
      destruct (next_dir _ _ _ _ _ _ _ _ _ _ _ N) as [D | [(_ & _ & _ & L1 & L2 & _) | (m & _ & _ & _ & D & _)]].
      * assert (D0 : dir s k0 = true) by congruence. destruct (HJ k0 D0) as [Hne | (q & R & Wq)].
        -- destruct (next_files _ _ _ _ _ _ _ _ _ _ _ N) as [F | [(_ & _ & F & _) | (m & _ & _ & F & L)]]; subst fs'.
           ++ now left.
           ++ left. apply add_nonempty.
           ++ right. now apply me.
        -- destruct (Nat.eq_dec q p) as [->|Hqp].
           ++ destruct (next_resp _ _ _ _ _ _ _ _ _ _ _ N R D0 D') as [F|R']; [now left|]. right. now apply me.
           ++ right. now apply (keep q).
      * right. apply me. now split.
      * congruence.
    + rewrite dir_write_other, files_write_other by assumption. intro D.
      destruct (HJ k D) as [Hne | (q & R & Wq)]; [now left|]. right.
      assert (Hqp : q <> p) by (intro; subst q; congruence).
      exists q. rewrite pc_local, local_put_other, local_write by assumption. auto.
  - rewrite E, dir_put, files_put. intro D. destruct (HJ k D) as [Hne | (q & R & Wq)]; [now left|]. right.
    exists q. destruct (Nat.eq_dec q p) as [->|Hqp].
    + rewrite pc_local, local_put_same. rewrite (nostack_same (local_of s p)) by now left. auto.
    + rewrite pc_local, local_put_other by assumption. auto.
Qed.

End Inductive.

(* ---- the parts that need the second look, and the release on failure *)

Section Repaired.
Variables (fr : bool) (cfg : config).
Notation stp := (step_gen true fr cfg).
Hypothesis WF : wf cfg.

Lemma step_IN s p c : IN s -> IN (stp s p c).
Proof.
  intros H q. destruct (Nat.eq_dec q p) as [->|Hne].
  - rewrite pc_local.
    destruct (step_cases true fr cfg s p c) as [(k0 & d' & fs' & lo' & W & N & E) | (W & E)]; rewrite E, local_put_same.
    + apply (next_IN _ _ _ _ _ _ _ _ _ _ N). apply H.
    + apply nostack_IN. apply H.
  - rewrite pc_local, (local_other true fr cfg s p c q Hne). apply H.
Qed.

Lemma firm_owns lo x : firm lo x = true -> owns lo x = true.
Proof.
  destruct lo as [l i n j]. unfold firm, owns. cbn [lpc lnl lcur]. destruct l; try discriminate; try (intro H; exact H).
  - intro H. apply Nat.ltb_lt in H. apply Nat.leb_le. lia.
  - destruct m; try discriminate. intro H. destruct (gfile g); [|exact H].
    apply Nat.ltb_lt in H. apply Nat.leb_le. lia.
Qed.

Lemma firm_widx lo x : firm lo x = true -> x <> widx lo.
Proof.
  destruct lo as [l i n j]. unfold firm, widx. cbn [lpc lnl lcur].
  destruct l; try discriminate; try (intro H; apply Nat.ltb_lt in H; lia).
  destruct m; try discriminate. intro H; apply Nat.ltb_lt in H; lia.
Qed.

Lemma unvalidated_widx lo : unvalidated (lpc lo) = true -> widx lo = lnl lo.
Proof. destruct lo as [l i n j]. unfold widx. cbn [lpc]. destruct l; try discriminate; try reflexivity. destruct m, g; try discriminate; reflexivity. Qed.

Lemma step_I3 s p c : I0 s -> I1 cfg s -> I3 cfg s -> I3 cfg (stp s p c).
Proof.
  intros H0 H1 H3 a b x k Hab Hrel HK Hx Hf Hb.
  destruct (Nat.eq_dec a p) as [->|Hap].
  - (* the stepping process owns the firm lock *)
    assert (Hbp : b <> p) by congruence.
    apply (files_other true fr cfg s p c b k Hbp) in Hb.
    rewrite pc_local, nlk_local, (local_other true fr cfg s p c b Hbp), <- pc_local, <- nlk_local.
    destruct (step_cases true fr cfg s p c) as [(k0 & d' & fs' & lo' & W & N & E) | (W & E)];
      rewrite E, local_put_same in Hf.
    + destruct (next_firm _ _ _ _ _ _ _ _ _ _ _ N Hf) as [F | (L & Xn & Wn & C & _)].
      * now apply (H3 p b x k).
      * exfalso. assert (k = k0) by congruence. subst k.
        assert (HR : root_of cfg p <> Some b) by (intro; apply Hrel; now left).
        rewrite (conflict_if_other cfg p b (files s k0) Hb Hbp HR HK) in C. discriminate.
    + apply firm_nostack in Hf. now apply (H3 p b x k).
  - rewrite (local_other true fr cfg s p c a Hap) in Hf.
    destruct (Nat.eq_dec b p) as [->|Hbp].
    + (* the stepping process owns the file the firm holder must not overlook *)
      assert (Hain : In a (files s k)) by (apply (H1 a x k); [now apply firm_owns | assumption]).
      assert (HR : root_of cfg p <> Some a) by (intro; apply Hrel; now right).
      assert (HK' : kind_of cfg p = Ex \/ kind_of cfg a = Ex) by tauto.
      rewrite pc_local, nlk_local.
      destruct (step_cases true fr cfg s p c) as [(k0 & d' & fs' & lo' & W & N & E) | (W & E)];
        rewrite E in Hb |- *; rewrite local_put_same; rewrite files_put in Hb.
      * destruct (Nat.eq_dec k k0) as [->|Hk].
        -- rewrite files_write_same in Hb.
           pose proof (conflict_if_other cfg p a (files s k0) Hain Hap HR HK') as HC.
           destruct (next_pending _ _ _ _ _ _ _ _ _ _ N) as (U & Ln & Wn); try assumption.
           ++ intro Hp. now apply (H3 a p x k0).
           ++ apply H0.
           ++ split; [assumption|]. rewrite Ln, <- Wn. assumption.
        -- exfalso. rewrite files_write_other in Hb by assumption.
           destruct (H3 a p x k Hab Hrel HK Hx Hf Hb) as [U Wk].
           rewrite pc_local in U. apply unvalidated_widx in U. rewrite nlk_local, <- U in Wk. congruence.
      * destruct (H3 a p x k Hab Hrel HK Hx Hf Hb) as [U Wk].
        rewrite pc_local in U. rewrite (nostack_same (local_of s p)) by now right. auto.
    + rewrite pc_local, nlk_local, (local_other true fr cfg s p c b Hbp), <- pc_local, <- nlk_local.
      apply (files_other true fr cfg s p c b k Hbp) in Hb. now apply (H3 a b x k).
Qed.

End Repaired.

Section Released.
Variable cfg : config.
Notation stp := (step_gen true true cfg).

Lemma step_IT s p c : I0 s -> I1 cfg s -> IT s -> IT (stp s p c).
Proof.
  intros H0 H1 HT q. destruct (Nat.eq_dec q p) as [->|Hne].
  - destruct (step_cases true true cfg s p c) as [(k0 & d' & fs' & lo' & W & N & E) | (W & E)]; rewrite E, local_put_same.
    + apply (next_clean _ _ _ _ _ _ _ _ _ N); [apply HT | | apply H0].
      intro Ho. now apply (H1 p (widx (local_of s p)) k0).
    + apply clean_nostack. apply HT.
  - rewrite (local_other true true cfg s p c q Hne). apply HT.
Qed.

End Released.

(* ---- every reachable state satisfies the invariants *)

Lemma reachable_gen_inv fx fr cfg s :
  wf cfg -> reachable_gen fx fr cfg s -> I0 s /\ I1 cfg s /\ I2 cfg s /\ IJ cfg s /\ IW cfg s.
Proof.
  intro WF. induction 1 as [|s p c _ (H0 & H1 & H2 & HJ & HW)].
  - destruct (init_inv cfg) as (? & ? & ? & ? & _ & ? & _). auto.
  - refine (conj _ (conj _ (conj _ (conj _ _))));
      [apply step_I0 | apply step_I1 | apply step_I2 | apply step_IJ | apply step_IW]; assumption.
Qed.

Lemma reachable_fx_inv fr cfg s : wf cfg -> reachable_gen true fr cfg s -> IN s /\ I3 cfg s.
Proof.
  intro WF. induction 1 as [|s p c Hr (HN & H3)].
  - destruct (init_inv cfg) as (_ & _ & _ & _ & ? & _ & _ & ?). auto.
  - destruct (reachable_gen_inv true fr cfg s WF Hr) as (H0 & H1 & _).
    split; [apply step_IN | apply step_I3]; assumption.
Qed.

Lemma reachable_inv cfg s : wf cfg -> reachable cfg s -> IT s.
Proof.
  intro WF. induction 1 as [|s p c Hr HT].
  - destruct (init_inv cfg) as (_ & _ & _ & _ & _ & _ & ? & _). auto.
  - destruct (reachable_gen_inv true true cfg s WF Hr) as (H0 & H1 & _). now apply step_IT.
Qed.

(* ---- C09, safety *)

(* on every stack, no exclusive lock is ever held together with another unrelated lock: every schedule,
   every choice of directory order, any number of processes and stacks, any retry budgets; with or without
   the release on failure *)
Lemma mutex_proof fr cfg s p q k :
  wf cfg -> reachable_gen true fr cfg s -> holds s p -> holds s q -> p <> q -> ~ related cfg p q ->
  In k (path_of cfg p) -> In k (path_of cfg q) ->
  kind_of cfg p = Sh /\ kind_of cfg q = Sh.
Proof.
  intros WF Hr Hp Hq Hpq Hrel Kp Kq.
  destruct (reachable_fx_inv fr cfg s WF Hr) as (HN & H3).
  destruct (reachable_gen_inv true fr cfg s WF Hr) as (_ & H1 & _ & _ & HW).
  assert (Hh : forall x, holds s x -> pc s x = LHeld).
  { intros x Hx. unfold holds, holdsb in Hx. pose proof (HN x) as Hn.
    destruct (pc s x); try discriminate; [reflexivity | congruence]. }
  apply Hh in Hp. apply Hh in Hq.
  destruct (nth_error_in_ex _ _ Kp) as [xp Xp]. destruct (nth_error_in_ex _ _ Kq) as [xq Xq].
  assert (Fp : firm (local_of s p) xp = true).
  { unfold firm, local_of. cbn [lpc lnl]. rewrite Hp. apply Nat.ltb_lt.
    rewrite (proj2 (HW p) Hp). now apply nth_error_lt in Xp. }
  assert (Oq : owns (local_of s q) xq = true).
  { apply firm_owns. unfold firm, local_of. cbn [lpc lnl]. rewrite Hq. apply Nat.ltb_lt.
    rewrite (proj2 (HW q) Hq). now apply nth_error_lt in Xq. }
  assert (Hqf : In q (files s k)) by now apply (H1 q xq k).
  destruct (kind_of cfg p) eqn:Ep, (kind_of cfg q) eqn:Eq; try (split; reflexivity); exfalso.
  - destruct (H3 p q xp k Hpq Hrel (or_intror Eq) Xp Fp Hqf) as [U _]. rewrite Hq in U. discriminate.
  - destruct (H3 p q xp k Hpq Hrel (or_introl Ep) Xp Fp Hqf) as [U _]. rewrite Hq in U. discriminate.
  - destruct (H3 p q xp k Hpq Hrel (or_introl Ep) Xp Fp Hqf) as [U _]. rewrite Hq in U. discriminate.
Qed.

(* a process that has ended owns no lock file on any stack *)
Lemma ended_owns_nothing cfg s p k :
  wf cfg -> reachable cfg s -> terminal (pc s p) = true -> ~ In p (files s k).
Proof.
  intros WF Hr Ht Hin.
  destruct (reachable_gen_inv true true cfg s WF Hr) as (_ & _ & H2 & _).
  pose proof (reachable_inv cfg s WF Hr p) as C. unfold clean in C. rewrite <- pc_local in C. specialize (C Ht).
  destruct (H2 p k Hin) as (x & _ & Ho). unfold owns in Ho. rewrite <- pc_local in Ho.
  rewrite <- nlk_local, <- cur_local in *.
  destruct (pc s p); try discriminate; apply andb_true_iff in Ho; destruct Ho as [A B];
    apply Nat.leb_le in A; apply Nat.ltb_lt in B; lia.
Qed.

(* when no process is inside takeLocks or giveLocks no lock directory exists *)
Lemma no_residue_proof cfg s k :
  wf cfg -> reachable cfg s -> quiescent s -> dir s k = false /\ files s k = [].
Proof.
  intros WF Hr Hq.
  destruct (reachable_gen_inv true true cfg s WF Hr) as (_ & _ & H2 & HJ & _).
  assert (F : files s k = []).
  { destruct (files s k) as [|x r] eqn:E; [reflexivity|]. exfalso.
    assert (Hin : In x (files s k)) by (rewrite E; now left).
    specialize (Hq x). unfold idle in Hq. rewrite <- pc_local, <- nlk_local in Hq.
    destruct (pc s x) eqn:L; try discriminate;
      try (apply (ended_owns_nothing cfg s x k WF Hr); [rewrite L; reflexivity | assumption]).
    apply Nat.eqb_eq in Hq. destruct (H2 x k Hin) as (y & _ & Ho). unfold owns in Ho.
    rewrite <- pc_local, L, <- nlk_local, Hq in Ho. discriminate. }
  split; [|assumption].
  destruct (dir s k) eqn:D; [|reflexivity]. exfalso.
  destruct (HJ k D) as [Hne | (x & Hx & _)]; [contradiction|].
  specialize (Hq x). unfold idle in Hq. rewrite <- pc_local in Hq. destruct (pc s x); cbn in Hx; discriminate.
Qed.
