(* C09 - safety of the lock protocol: the inductive invariants behind mutex and no_residue.
   Everything that does not mention validation is proved for both protocols (fx arbitrary). *)
From Eupsv Require Import Base.Base Model.Lock Proofs.LockLib.
From Coq Require Import Lia.

(* program counters at which the process owns a lock file in the directory *)
Definition has_file (l : loc) : bool :=
  match l with
  | LValidate | LHeld | LGive _ GIsdir | LGive _ GExistsF | LGive _ GRemove => true
  | _ => false
  end.

(* program counters of a process that has created its file but not yet looked again, or is withdrawing *)
Definition unvalidated (l : loc) : bool :=
  match l with
  | LValidate | LGive true GIsdir | LGive true GExistsF | LGive true GRemove => true
  | _ => false
  end.

(* program counters of a process that is bound to create a file, or to remove the directory if it is
   empty, before it does anything else *)
Definition resp (l : loc) : bool :=
  match l with
  | LScanX | LCreate | LGive _ GCount | LGive _ GRmdir => true
  | _ => false
  end.

Definition I0 (s : state) := forall x, In x (files s) -> dir s = true.
Definition I1 (s : state) := forall p, has_file (pc s p) = true -> In p (files s).
Definition I2 (s : state) := forall p, In p (files s) -> has_file (pc s p) = true.
Definition IJ (s : state) := dir s = true -> files s <> [] \/ exists p, resp (pc s p) = true.
Definition IN (s : state) := forall p, pc s p <> LHeldNoLock.
Definition I3 (cfg : config) (s : state) :=
  forall a b, a <> b -> ~ related cfg a b -> (kind_of cfg a = Ex \/ kind_of cfg b = Ex) ->
    pc s a = LHeld -> In b (files s) -> unvalidated (pc s b) = true.

(* ---- one step, seen through its effect on the four fields *)

Lemma step_fields fx cfg s p c :
  exists d' fs' l' i',
    next fx cfg (dir s) (files s) (pc s p) (tries s p) p c = (d', fs', (l', i')) /\
    step_gen fx cfg s p c = {| dir := d'; files := fs'; pc := upd (pc s) p l'; tries := upd (tries s) p i' |}.
Proof.
  unfold step_gen. destruct (next fx cfg (dir s) (files s) (pc s p) (tries s p) p c) as [[d' fs'] [l' i']].
  now exists d', fs', l', i'.
Qed.

(* case analysis of [next]: destruct the program counter, then every test the branch makes *)
Ltac next_cases N :=
  unfold next, give_race, after_give, retry in N;
  repeat (cbv beta iota in N;
          match type of N with
          | context [match ?x with _ => _ end] =>
              match x with
              | _ => is_var x; destruct x
              | _ => let E := fresh "E" in destruct x eqn:E
              end
          end);
  cbv beta iota in N; inversion N; subst; clear N.

Ltac bool_facts :=
  repeat match goal with
  | H : _ && _ = true |- _ => apply andb_true_iff in H; destruct H
  | H : _ && _ = false |- _ => apply andb_false_iff in H
  | H : mem _ _ = true |- _ => apply mem_In in H
  | H : mem _ _ = false |- _ => apply mem_false in H
  end.

(* how the set of lock files can change *)
Lemma next_files fx cfg d fs l i p c d' fs' l' i' :
  next fx cfg d fs l i p c = (d', fs', (l', i')) ->
  fs' = fs \/
  (l = LCreate /\ d = true /\ fs' = add p fs /\ l' = (if fx then LValidate else LHeld)) \/
  (exists b, l = LGive b GRemove /\ In p fs /\ fs' = rem p fs /\ l' = LGive b GCount).
Proof.
  intro N. next_cases N; bool_facts;
    first [ now left | right; left; now auto | right; right; eexists; now eauto ].
Qed.

(* how the existence of the directory can change *)
Lemma next_dir fx cfg d fs l i p c d' fs' l' i' :
  next fx cfg d fs l i p c = (d', fs', (l', i')) ->
  d' = d \/
  (l = LMkdir /\ d = false /\ d' = true /\ l' = LScanX /\ fs' = fs) \/
  (exists b, l = LGive b GRmdir /\ d = true /\ fs = [] /\ d' = false /\ fs' = []).
Proof.
  intro N. next_cases N; bool_facts;
    first [ now left | right; left; now auto | right; right; eexists; now eauto 10 ].
Qed.

Lemma filter_nonempty {A} (f : A -> bool) l : filter f l <> [] -> l <> [].
Proof. intros H E. subst. now apply H. Qed.

(* a process at a responsible program counter stays responsible, or leaves a file behind, as long as
   the directory exists *)
Lemma next_resp fx cfg d fs l i p c d' fs' l' i' :
  next fx cfg d fs l i p c = (d', fs', (l', i')) ->
  resp l = true -> d = true -> d' = true -> fs' <> [] \/ resp l' = true.
Proof.
  intros N R D D'. next_cases N; cbn in R; try discriminate;
    first [ now right
          | left; apply add_nonempty
          | left; discriminate
          | left; eapply filter_nonempty; rewrite E; discriminate ].
Qed.

(* what the stepping process itself owns afterwards *)
Lemma next_I1 fx cfg d fs l i p c d' fs' l' i' :
  next fx cfg d fs l i p c = (d', fs', (l', i')) ->
  (has_file l = true -> In p fs) -> has_file l' = true -> In p fs'.
Proof.
  intros N H1 H. next_cases N; cbn in H; try discriminate;
    first [ apply in_add; now left | apply H1; reflexivity ].
Qed.

Lemma next_I2 fx cfg d fs l i p c d' fs' l' i' :
  next fx cfg d fs l i p c = (d', fs', (l', i')) ->
  (In p fs -> has_file l = true) -> (In p fs -> d = true) -> In p fs' -> has_file l' = true.
Proof.
  intros N H2 H0 Hin. next_cases N; bool_facts; try reflexivity;
    try (exfalso; now apply (not_in_rem p fs));
    try (specialize (H2 Hin); cbn in H2; discriminate);
    try (specialize (H0 Hin); discriminate);
    try (exfalso; match goal with H : _ \/ _ |- _ => destruct H as [H|H]; bool_facts end;
         [ specialize (H0 Hin); congruence | contradiction ]).
Qed.

(* ---- the invariants are inductive *)

Section Inductive.
Variable fx : bool.
Variable cfg : config.
Notation stp := (step_gen fx cfg).

Lemma init_inv : I0 init /\ I1 init /\ I2 init /\ IJ init /\ IN init /\ I3 cfg init.
Proof.
  repeat split; red; cbn; try discriminate; try contradiction.
Qed.

Lemma step_I0 s p c : I0 s -> I0 (stp s p c).
Proof.
  intros H0 x. destruct (step_fields fx cfg s p c) as (d' & fs' & l' & i' & N & E). rewrite E. cbn [dir files].
  intro Hin.
  destruct (next_dir _ _ _ _ _ _ _ _ _ _ _ _ N) as [D | [(_ & _ & D & _) | (b & _ & _ & _ & _ & F)]].
  - subst d'. destruct (next_files _ _ _ _ _ _ _ _ _ _ _ _ N) as [F | [(_ & D & _) | (b & _ & Hp & _)]].
    + subst fs'. now apply (H0 x).
    + assumption.
    + now apply (H0 p).
  - assumption.
  - subst fs'. contradiction.
Qed.

Lemma files_other s p c x : x <> p -> (In x (files (stp s p c)) <-> In x (files s)).
Proof.
  intro Hne. destruct (step_fields fx cfg s p c) as (d' & fs' & l' & i' & N & E). rewrite E. cbn [files].
  destruct (next_files _ _ _ _ _ _ _ _ _ _ _ _ N) as [F | [(_ & _ & F & _) | (b & _ & _ & F & _)]]; subst fs'.
  - tauto.
  - rewrite in_add. tauto.
  - rewrite in_rem. tauto.
Qed.

Lemma pc_other s p c x : x <> p -> pc (stp s p c) x = pc s x.
Proof.
  intro Hne. destruct (step_fields fx cfg s p c) as (d' & fs' & l' & i' & N & E). rewrite E. cbn [pc].
  now apply upd_other.
Qed.

Lemma step_I1 s p c : I1 s -> I1 (stp s p c).
Proof.
  intros H1 x. destruct (Nat.eq_dec x p) as [->|Hne].
  - destruct (step_fields fx cfg s p c) as (d' & fs' & l' & i' & N & E). rewrite E. cbn [pc files].
    rewrite upd_same. apply (next_I1 _ _ _ _ _ _ _ _ _ _ _ _ N). apply H1.
  - rewrite (pc_other s p c x Hne), (files_other s p c x Hne). apply H1.
Qed.

Lemma step_I2 s p c : I0 s -> I2 s -> I2 (stp s p c).
Proof.
  intros H0 H2 x. destruct (Nat.eq_dec x p) as [->|Hne].
  - destruct (step_fields fx cfg s p c) as (d' & fs' & l' & i' & N & E). rewrite E. cbn [pc files].
    rewrite upd_same. apply (next_I2 _ _ _ _ _ _ _ _ _ _ _ _ N); [apply H2 | apply H0].
  - rewrite (pc_other s p c x Hne), (files_other s p c x Hne). apply H2.
Qed.

Lemma step_IJ s p c : IJ s -> IJ (stp s p c).
Proof.
  intros HJ. red. destruct (step_fields fx cfg s p c) as (d' & fs' & l' & i' & N & E). rewrite E.
  cbn [dir files pc]. intro D'.
  destruct (next_dir _ _ _ _ _ _ _ _ _ _ _ _ N) as [D | [(_ & _ & _ & L & _) | (b & _ & _ & _ & D & _)]].
  - assert (D0 : dir s = true) by congruence. destruct (HJ D0) as [Hne | [q Hq]].
    + destruct (next_files _ _ _ _ _ _ _ _ _ _ _ _ N) as [F | [(_ & _ & F & _) | (b & _ & _ & F & L)]]; subst fs'.
      * now left.
      * left. apply add_nonempty.
      * right. exists p. rewrite upd_same. subst l'. reflexivity.
    + destruct (Nat.eq_dec q p) as [->|Hqp].
      * destruct (next_resp _ _ _ _ _ _ _ _ _ _ _ _ N Hq D0 D') as [F|R]; [now left|].
        right. exists p. now rewrite upd_same.
      * right. exists q. now rewrite upd_other.
  - right. exists p. rewrite upd_same. subst l'. reflexivity.
  - congruence.
Qed.

End Inductive.

(* ---- the part that needs the re-validation of the repaired protocol *)

Lemma next_IN cfg d fs l i p c d' fs' l' i' :
  next true cfg d fs l i p c = (d', fs', (l', i')) -> l <> LHeldNoLock -> l' <> LHeldNoLock.
Proof. intros N H. next_cases N; try discriminate; try assumption. Qed.

(* Held is entered only from a validation that saw no conflict *)
Lemma next_to_held cfg d fs l i p c d' fs' l' i' :
  next true cfg d fs l i p c = (d', fs', (l', i')) -> l' = LHeld ->
  (l = LValidate /\ conflict cfg p fs = false /\ fs' = fs) \/ (l = LHeld /\ False).
Proof. intros N H. next_cases N; try discriminate. left. auto. Qed.

(* a process whose file is visible while an incompatible unrelated lock is held cannot get past
   its validation *)
Lemma next_unvalidated cfg d fs l i p c d' fs' l' i' :
  next true cfg d fs l i p c = (d', fs', (l', i')) ->
  (In p fs -> unvalidated l = true) -> (In p fs -> d = true) -> conflict cfg p fs = true ->
  In p fs' -> unvalidated l' = true.
Proof.
  intros N HU H0 HC Hin. next_cases N; bool_facts; try reflexivity; try congruence;
    try (exfalso; now apply (not_in_rem p fs));
    try (specialize (HU Hin); cbn in HU; discriminate);
    try (specialize (HU Hin); destruct backoff; cbn in HU |- *; congruence);
    try (specialize (H0 Hin); discriminate);
    try (exfalso; match goal with H : _ \/ _ |- _ => destruct H as [H|H]; bool_facts end;
         [ specialize (H0 Hin); congruence | contradiction ]).
Qed.

Section Repaired.
Variable cfg : config.
Notation stp := (step_gen true cfg).

Lemma step_IN s p c : IN s -> IN (stp s p c).
Proof.
  intros H x. destruct (Nat.eq_dec x p) as [->|Hne].
  - destruct (step_fields true cfg s p c) as (d' & fs' & l' & i' & N & E). rewrite E. cbn [pc].
    rewrite upd_same. apply (next_IN _ _ _ _ _ _ _ _ _ _ _ N). apply H.
  - rewrite (pc_other true cfg s p c x Hne). apply H.
Qed.

Lemma step_I3 s p c : I0 s -> I1 s -> I3 cfg s -> I3 cfg (stp s p c).
Proof.
  intros H0 H1 H3 a b Hab Hrel HK Ha Hb.
  destruct (Nat.eq_dec a p) as [->|Hap].
  - (* the stepping process is the holder: it has just validated, so it saw no incompatible lock *)
    exfalso. assert (Hbp : b <> p) by congruence.
    apply (files_other true cfg s p c b Hbp) in Hb.
    destruct (step_fields true cfg s p c) as (d' & fs' & l' & i' & N & E). rewrite E in Ha. cbn [pc] in Ha.
    rewrite upd_same in Ha.
    destruct (next_to_held _ _ _ _ _ _ _ _ _ _ _ N Ha) as [(L & C & F) | (_ & [])].
    assert (HR : root_of cfg p <> Some b) by (intro; apply Hrel; now left).
    rewrite (conflict_if_other cfg p b (files s) Hb Hbp HR HK) in C. discriminate.
  - rewrite (pc_other true cfg s p c a Hap) in Ha.
    destruct (Nat.eq_dec b p) as [->|Hbp].
    + (* the stepping process is the one whose file the holder must not overlook *)
      assert (Hain : In a (files s)) by (apply H1; now rewrite Ha).
      assert (HR : root_of cfg p <> Some a) by (intro; apply Hrel; now right).
      assert (HK' : kind_of cfg p = Ex \/ kind_of cfg a = Ex) by tauto.
      pose proof (conflict_if_other cfg p a (files s) Hain Hap HR HK') as HC.
      destruct (step_fields true cfg s p c) as (d' & fs' & l' & i' & N & E). rewrite E in Hb |- *.
      cbn [pc files] in Hb |- *. rewrite upd_same.
      apply (next_unvalidated _ _ _ _ _ _ _ _ _ _ _ N); try assumption.
      * intro Hp. now apply (H3 a p).
      * apply H0.
    + (* a third process steps *)
      rewrite (pc_other true cfg s p c b Hbp). apply (files_other true cfg s p c b Hbp) in Hb.
      now apply (H3 a b).
Qed.

End Repaired.

(* ---- every reachable state satisfies the invariants *)

Lemma reachable_gen_inv fx cfg s : reachable_gen fx cfg s -> I0 s /\ I1 s /\ I2 s /\ IJ s.
Proof.
  induction 1 as [|s p c _ (H0 & H1 & H2 & HJ)].
  - destruct (init_inv cfg) as (? & ? & ? & ? & _). auto.
  - repeat split; [apply step_I0 | apply step_I1 | apply step_I2 | apply step_IJ]; assumption.
Qed.

Lemma reachable_inv cfg s : reachable cfg s -> IN s /\ I3 cfg s.
Proof.
  induction 1 as [|s p c Hr (HN & H3)].
  - destruct (init_inv cfg) as (_ & _ & _ & _ & ? & ?). auto.
  - destruct (reachable_gen_inv true cfg s Hr) as (H0 & H1 & _).
    split; [apply step_IN | apply step_I3]; assumption.
Qed.

(* ---- C09, safety *)

(* no exclusive lock is ever held together with another unrelated lock: every schedule, every choice
   of directory order, any number of processes, any retry budgets *)
Lemma mutex_proof cfg s p q :
  reachable cfg s -> holds s p -> holds s q -> p <> q -> ~ related cfg p q ->
  kind_of cfg p = Sh /\ kind_of cfg q = Sh.
Proof.
  intros Hr Hp Hq Hpq Hrel.
  destruct (reachable_inv cfg s Hr) as (HN & H3).
  destruct (reachable_gen_inv true cfg s Hr) as (_ & H1 & _).
  assert (Hh : forall x, holds s x -> pc s x = LHeld).
  { intros x Hx. unfold holds, holdsb in Hx. pose proof (HN x) as Hn.
    destruct (pc s x); try discriminate; [reflexivity | congruence]. }
  apply Hh in Hp. apply Hh in Hq.
  assert (Hqf : In q (files s)) by (apply H1; now rewrite Hq).
  destruct (kind_of cfg p) eqn:Ep, (kind_of cfg q) eqn:Eq; try (split; reflexivity); exfalso.
  - assert (U : unvalidated (pc s q) = true) by (apply (H3 p q); auto). rewrite Hq in U. discriminate.
  - assert (U : unvalidated (pc s q) = true) by (apply (H3 p q); auto). rewrite Hq in U. discriminate.
  - assert (U : unvalidated (pc s q) = true) by (apply (H3 p q); auto). rewrite Hq in U. discriminate.
Qed.

(* when no process is inside takeLocks or giveLocks the lock directory is gone; true of both protocols *)
Lemma no_residue_proof fx cfg s :
  reachable_gen fx cfg s -> quiescent s -> dir s = false /\ files s = [].
Proof.
  intros Hr Hq. destruct (reachable_gen_inv fx cfg s Hr) as (_ & _ & H2 & HJ).
  assert (F : files s = []).
  { destruct (files s) as [|x r] eqn:E; [reflexivity|]. exfalso.
    assert (Hx : has_file (pc s x) = true) by (apply H2; rewrite E; now left).
    specialize (Hq x). destruct (pc s x); cbn in Hx, Hq; discriminate. }
  split; [|assumption].
  destruct (dir s) eqn:D; [|reflexivity]. exfalso.
  destruct (HJ D) as [Hne | [x Hx]]; [contradiction|].
  specialize (Hq x). destruct (pc s x); cbn in Hx, Hq; discriminate.
Qed.
