(* C09 - lemmas about Model/LockCmd.v *)
From Coq Require Import List Arith Bool.
Import ListNotations.
From Eupsv Require Import Base.Base Model.Lock Model.LockCmd.

Lemma dedupe_in seen l k : In k (dedupe seen l) -> In k l.
Proof.
  revert seen. induction l as [|a r IH]; intros seen H; [exact H|].
  cbn [dedupe] in H. destruct (existsb (Nat.eqb a) seen).
  - right. exact (IH _ H).
  - destruct H as [H|H]; [left; exact H|right; exact (IH _ H)].
Qed.

Lemma dedupe_keeps seen l k : In k l -> existsb (Nat.eqb k) seen = false -> In k (dedupe seen l).
Proof.
  revert seen. induction l as [|a r IH]; intros seen H NS; [exact H|].
  cbn [dedupe]. destruct (Nat.eq_dec a k) as [E|NE].
  - subst a. rewrite NS. left. reflexivity.
  - destruct H as [H|H]; [congruence|].
    destruct (existsb (Nat.eqb a) seen); [exact (IH _ H NS)|].
    right. apply IH; [exact H|]. cbn [existsb]. rewrite NS.
    destruct (Nat.eqb k a) eqn:E; [apply Nat.eqb_eq in E; congruence|reflexivity].
Qed.

Lemma set_eups_path_in env z sel k :
  In k (set_eups_path env z sel) ->
  In k (match z with Some (a :: r) => a :: r | _ => env end) /\
  match sel with Some f => f k = true | None => True end.
Proof.
  unfold set_eups_path. intro H. apply dedupe_in in H. destruct sel as [f|].
  - apply filter_In in H. exact H.
  - split; [exact H|exact I].
Qed.

Lemma set_eups_path_intro env z sel k :
  In k (match z with Some (a :: r) => a :: r | _ => env end) ->
  match sel with Some f => f k = true | None => True end ->
  In k (set_eups_path env z sel).
Proof.
  unfold set_eups_path. intros H S. apply dedupe_keeps; [|reflexivity]. destruct sel as [f|].
  - apply filter_In. split; assumption.
  - exact H.
Qed.

(* the stacks the Eups object of the command works on are exactly the ones execute has locked *)
Lemma used_iff_locked c k : In k (used_stacks c) <-> In k (locked_stacks c).
Proof.
  unfold used_stacks. split; intro H.
  - apply set_eups_path_in in H. destruct H as [H S].
    destruct (lastZ (all_opts c) None) as [[|a r]|] eqn:Z; try exact H.
    unfold locked_stacks. rewrite Z. apply set_eups_path_intro; assumption.
  - pose proof H as H0. unfold locked_stacks in H0. apply set_eups_path_in in H0. destruct H0 as [H0 S].
    apply set_eups_path_intro; [|exact S].
    destruct (lastZ (all_opts c) None) as [[|a r]|] eqn:Z; try exact H. exact H0.
Qed.
