(* C09 - elementary facts about the list and function-update helpers of Model/Lock.v *)
From Eupsv Require Import Base.Base Model.Lock.
From Coq Require Import Lia.

Lemma upd_same {A} (f : nat -> A) p v : upd f p v p = v.
Proof. unfold upd. now rewrite Nat.eqb_refl. Qed.

Lemma upd_other {A} (f : nat -> A) p v q : q <> p -> upd f p v q = f q.
Proof. unfold upd. intro H. apply Nat.eqb_neq in H. now rewrite H. Qed.

Lemma mem_In p fs : mem p fs = true <-> In p fs.
Proof.
  induction fs as [|q r IH]; cbn [mem In].
  - split; [discriminate | tauto].
  - destruct (Nat.eqb q p) eqn:E.
    + apply Nat.eqb_eq in E. tauto.
    + apply Nat.eqb_neq in E. rewrite IH. tauto.
Qed.

Lemma mem_false p fs : mem p fs = false <-> ~ In p fs.
Proof. rewrite <- mem_In. destruct (mem p fs); split; congruence. Qed.

Lemma in_add x p fs : In x (add p fs) <-> x = p \/ In x fs.
Proof.
  unfold add. destruct (mem p fs) eqn:E.
  - apply mem_In in E. split; [tauto | intros [->|H]; assumption].
  - cbn [In]. split; intros [H|H]; auto.
Qed.

Lemma add_nonempty p fs : add p fs <> [].
Proof.
  unfold add. destruct (mem p fs) eqn:E; [|discriminate].
  apply mem_In in E. destruct fs; [contradiction | discriminate].
Qed.

Lemma in_rem x p fs : In x (rem p fs) <-> In x fs /\ x <> p.
Proof. unfold rem. rewrite filter_In, negb_true_iff, Nat.eqb_neq. tauto. Qed.

Lemma not_in_rem p fs : ~ In p (rem p fs).
Proof. rewrite in_rem. tauto. Qed.

Lemma in_nonempty {A} (x : A) l : In x l -> l <> [].
Proof. destruct l; [contradiction | discriminate]. Qed.

Lemma is_root_true cfg p q : is_root cfg p q = true <-> root_of cfg p = Some q.
Proof.
  unfold is_root. destruct (root_of cfg p) as [r|].
  - rewrite Nat.eqb_eq. split; congruence.
  - split; discriminate.
Qed.

Lemma is_root_false cfg p q : root_of cfg p <> Some q -> is_root cfg p q = false.
Proof. intro H. destruct (is_root cfg p q) eqn:E; [|reflexivity]. apply is_root_true in E. contradiction. Qed.

Lemma relatedb_true cfg p q : relatedb cfg p q = true <-> related cfg p q.
Proof. unfold relatedb, related. rewrite orb_true_iff, !is_root_true. tauto. Qed.

Lemma in_others cfg p q fs : In q fs -> q <> p -> root_of cfg p <> Some q -> In q (others cfg p fs).
Proof.
  intros Hin Hne Hr. unfold others. apply filter_In. split; [assumption|].
  apply andb_true_iff. split; apply negb_true_iff.
  - now apply Nat.eqb_neq.
  - now apply is_root_false.
Qed.

Lemma others_in cfg p q fs : In q (others cfg p fs) -> In q fs /\ q <> p /\ root_of cfg p <> Some q.
Proof.
  unfold others. rewrite filter_In, andb_true_iff, !negb_true_iff, Nat.eqb_neq.
  intros [H1 [H2 H3]]. repeat split; try assumption.
  intro H. apply is_root_true in H. congruence.
Qed.

(* the heart of the repair: whoever looks after creating its own file sees every unrelated lock
   that is incompatible with its own *)
Lemma conflict_if_other cfg p q fs :
  In q fs -> q <> p -> root_of cfg p <> Some q -> (kind_of cfg p = Ex \/ kind_of cfg q = Ex) ->
  conflict cfg p fs = true.
Proof.
  intros Hin Hne Hr HK. pose proof (in_others cfg p q fs Hin Hne Hr) as Ho.
  unfold conflict. destruct (kind_of cfg p) eqn:Ep.
  - destruct HK as [HK|HK]; [discriminate|]. apply existsb_exists. exists q. split; [assumption|].
    unfold isEx. now rewrite HK.
  - destruct (others cfg p fs); [contradiction | reflexivity].
Qed.

Lemma conflict_false_ex cfg p fs :
  kind_of cfg p = Ex -> (forall q, In q fs -> q = p \/ root_of cfg p = Some q) -> conflict cfg p fs = false.
Proof.
  intros HK H. unfold conflict. rewrite HK.
  destruct (others cfg p fs) as [|q r] eqn:E; [reflexivity|].
  assert (Hq : In q (others cfg p fs)) by (rewrite E; now left).
  apply others_in in Hq. destruct Hq as [Hin [Hne Hr]]. destruct (H q Hin); contradiction.
Qed.

Lemma conflict_false_sh cfg p fs :
  kind_of cfg p = Sh ->
  (forall q, In q fs -> q = p \/ root_of cfg p = Some q \/ kind_of cfg q = Sh) -> conflict cfg p fs = false.
Proof.
  intros HK H. unfold conflict. rewrite HK.
  destruct (existsb (isEx cfg) (others cfg p fs)) eqn:E; [|reflexivity].
  apply existsb_exists in E. destruct E as [q [Hq Hx]].
  apply others_in in Hq. destruct Hq as [Hin [Hne Hr]].
  unfold isEx in Hx. destruct (H q Hin) as [?|[?|Hs]]; try contradiction. rewrite Hs in Hx. discriminate.
Qed.

Lemma run_gen_app fx fr cfg s a b :
  run_gen fx fr cfg s (a ++ b) = run_gen fx fr cfg (run_gen fx fr cfg s a) b.
Proof. revert s. induction a as [|[p c] r IH]; intro s; cbn [run_gen app]; [reflexivity | apply IH]. Qed.

Lemma reachable_run fx fr cfg s sched :
  reachable_gen fx fr cfg s -> reachable_gen fx fr cfg (run_gen fx fr cfg s sched).
Proof.
  revert s. induction sched as [|[p c] r IH]; intros s H; cbn [run_gen]; [assumption|].
  apply IH. now constructor.
Qed.

(* two positions of a duplicate-free path that name the same stack are the same position *)
Lemma nodup_nth_eq (l : list nat) x y k :
  NoDup l -> nth_error l x = Some k -> nth_error l y = Some k -> x = y.
Proof.
  intros N X Y. apply (proj1 (NoDup_nth_error l) N).
  - apply nth_error_Some. congruence.
  - congruence.
Qed.

Lemma nth_error_lt {A} (l : list A) x k : nth_error l x = Some k -> x < length l.
Proof. intro H. apply nth_error_Some. congruence. Qed.

Lemma nth_error_in_ex {A} (l : list A) k : In k l -> exists x, nth_error l x = Some k.
Proof. apply In_nth_error. Qed.

(* duplicate-free paths, decidably, for configurations given as lists *)
Fixpoint nodupb (l : list nat) : bool :=
  match l with [] => true | x :: r => negb (mem x r) && nodupb r end.

Lemma nodupb_NoDup l : nodupb l = true -> NoDup l.
Proof.
  induction l as [|x r IH]; cbn [nodupb]; intro H; [constructor|].
  apply andb_true_iff in H. destruct H as [A B]. apply negb_true_iff in A. apply mem_false in A.
  constructor; auto.
Qed.

Lemma wf_cfg_of (l : procs) : forallb (fun e => nodupb (snd (snd e))) l = true -> wf (cfg_of l).
Proof.
  intros H p. unfold cfg_of. cbn [path_of].
  induction l as [|[q v] r IH]; cbn [cfg_lookup].
  - constructor.
  - cbn [forallb] in H. apply andb_true_iff in H. destruct H as [A B].
    destruct (Nat.eqb q p); [now apply nodupb_NoDup | now apply IH].
Qed.

Lemma share_stack_true cfg p q :
  share_stack cfg p q = true -> exists k, In k (path_of cfg p) /\ In k (path_of cfg q).
Proof.
  unfold share_stack. intro H. apply existsb_exists in H. destruct H as (k & A & B).
  exists k. split; [assumption | now apply mem_In].
Qed.
