(* C09 - what the repaired protocol lets through, for processes that lock a single stack: a process that
   runs alone acquires a free stack, readers join readers, a child re-enters the lock of its EUPS_LOCK_PID
   ancestor.  The runs are followed one file-system call at a time with the one-step lemmas below; nothing
   here asks Coq to normalise a whole run of [next] at once. *)
From Eupsv Require Import Base.Base Model.Lock Proofs.LockLib Proofs.LockNext Proofs.LockNext2 Proofs.Lock.
From Coq Require Import Lia.

(* n consecutive steps of process p on stack k, seen on the part of the state they can touch *)
Fixpoint solo (fx fr : bool) (cfg : config) (p : pid) (c : choice) (n : nat)
  (st : bool * list pid * local) : bool * list pid * local :=
  match n with
  | 0 => st
  | S m => match st with (d, fs, lo) => solo fx fr cfg p c m (next fx fr cfg d fs lo p c) end
  end.

(* ... provided each of them is about stack k *)
Fixpoint solo_on (fx fr : bool) (cfg : config) (p : pid) (k : stack) (c : choice) (n : nat)
  (st : bool * list pid * local) : Prop :=
  match n with
  | 0 => True
  | S m => match st with
           | (d, fs, lo) => nth_error (path_of cfg p) (widx lo) = Some k /\
                            solo_on fx fr cfg p k c m (next fx fr cfg d fs lo p c)
           end
  end.

Lemma solo_S fx fr cfg p c m d fs lo :
  solo fx fr cfg p c (S m) (d, fs, lo) = solo fx fr cfg p c m (next fx fr cfg d fs lo p c).
Proof. reflexivity. Qed.

Lemma solo_0 fx fr cfg p c st : solo fx fr cfg p c 0 st = st.
Proof. reflexivity. Qed.

Lemma solo_on_S fx fr cfg p k c m d fs lo :
  nth_error (path_of cfg p) (widx lo) = Some k -> solo_on fx fr cfg p k c m (next fx fr cfg d fs lo p c) ->
  solo_on fx fr cfg p k c (S m) (d, fs, lo).
Proof. intros A B. split; assumption. Qed.

Lemma step_on fx fr cfg s p c k d' fs' lo' :
  nth_error (path_of cfg p) (widx (local_of s p)) = Some k ->
  next fx fr cfg (dir s k) (files s k) (local_of s p) p c = (d', fs', lo') ->
  step_gen fx fr cfg s p c = put (write s k d' fs') p lo'.
Proof. intros W N. unfold step_gen. now rewrite W, N. Qed.

Lemma run_solo fx fr cfg p c k n : forall s,
  solo_on fx fr cfg p k c n (dir s k, files s k, local_of s p) ->
  let r := solo fx fr cfg p c n (dir s k, files s k, local_of s p) in
  let s' := run_gen fx fr cfg s (repeat (p, c) n) in
  dir s' k = fst (fst r) /\ files s' k = snd (fst r) /\ local_of s' p = snd r /\
  (forall q, q <> p -> local_of s' q = local_of s q) /\
  (forall k', k' <> k -> dir s' k' = dir s k' /\ files s' k' = files s k').
Proof.
  induction n as [|m IH]; intros s On.
  - cbn. repeat split; auto.
  - cbv zeta. rewrite solo_S. change (repeat (p, c) (S m)) with ((p, c) :: repeat (p, c) m).
    change (run_gen fx fr cfg s ((p, c) :: repeat (p, c) m))
      with (run_gen fx fr cfg (step_gen fx fr cfg s p c) (repeat (p, c) m)).
    destruct On as [W On].
    destruct (next fx fr cfg (dir s k) (files s k) (local_of s p) p c) as [[d' fs'] lo'] eqn:N.
    rewrite (step_on fx fr cfg s p c k d' fs' lo' W N).
    specialize (IH (put (write s k d' fs') p lo')). cbv zeta in IH.
    rewrite dir_put, files_put, dir_write_same, files_write_same, local_put_same in IH.
    destruct (IH On) as (A & B & C & D & F). repeat split; try assumption.
    + intros q Hq. rewrite (D q Hq). now rewrite local_put_other, local_write.
    + destruct (F k' H) as [F1 _]. rewrite F1, dir_put. now apply dir_write_other.
    + destruct (F k' H) as [_ F2]. rewrite F2, files_put. now apply files_write_other.
Qed.

(* the form in which it is used: once the local run is known, so is the global one *)
Lemma run_solo_eq fx fr cfg p c k n s d' fs' lo' :
  solo_on fx fr cfg p k c n (dir s k, files s k, local_of s p) ->
  solo fx fr cfg p c n (dir s k, files s k, local_of s p) = (d', fs', lo') ->
  let s' := run_gen fx fr cfg s (repeat (p, c) n) in
  dir s' k = d' /\ files s' k = fs' /\ pc s' p = lpc lo' /\
  (forall q, q <> p -> local_of s' q = local_of s q) /\
  (forall q, q <> p -> pc s' q = pc s q).
Proof.
  intros On H. destruct (run_solo fx fr cfg p c k n s On) as (A & B & C & D & F). cbv zeta in *.
  rewrite H in A, B, C. cbn [fst snd] in A, B, C. repeat split; try assumption.
  - exact (f_equal lpc C).
  - intros q Hq. exact (f_equal lpc (D q Hq)).
Qed.

Lemma mem_single_ne (p r : pid) : p <> r -> mem p (@cons pid r (@nil pid)) = false.
Proof. intro H. cbn. apply not_eq_sym in H. apply Nat.eqb_neq in H. now rewrite H. Qed.

Lemma held_holds s p : pc s p = LHeld -> holds s p.
Proof. intro H. unfold holds, holdsb. now rewrite H. Qed.

Lemma local_eq_pc s s' p : local_of s' p = local_of s p -> pc s' p = pc s p /\ nlk s' p = nlk s p.
Proof. intro H. split; [exact (f_equal lpc H) | exact (f_equal lnl H)]. Qed.

Lemma holds_local s s' p : local_of s' p = local_of s p -> holds s p -> holds s' p.
Proof. intros H Hp. unfold holds, holdsb in *. now rewrite (proj1 (local_eq_pc s s' p H)). Qed.

Definition mk (l : loc) (i n j : nat) : local := {| lpc := l; ltry := i; lnl := n; lcur := j |}.

(* ---- one call of the repaired protocol at a time *)

Section Steps.
Variable cfg : config.
Notation nx := (next true true cfg).

Lemma next_mkdir_free fs i n j p c : nx false fs (mk LMkdir i n j) p c = (true, fs, mk LScanX i n j).
Proof. reflexivity. Qed.

Lemma next_mkdir_busy_sh fs i n j p c :
  kind_of cfg p = Sh -> nx true fs (mk LMkdir i n j) p c = (true, fs, mk LExists i n j).
Proof. intro K. unfold next, mk, setpc. cbn [lpc ltry lnl lcur]. now rewrite K. Qed.

Lemma next_mkdir_busy_ex fs i n j p c :
  kind_of cfg p = Ex -> nx true fs (mk LMkdir i n j) p c = (true, fs, mk LListAll i n j).
Proof. intro K. unfold next, mk, setpc. cbn [lpc ltry lnl lcur]. now rewrite K. Qed.

Lemma next_exists_yes fs i n j p c : nx true fs (mk LExists i n j) p c = (true, fs, mk LScanX i n j).
Proof. reflexivity. Qed.

Lemma next_listall_root d fs i n j p c :
  only_root cfg p fs = true -> nx d fs (mk LListAll i n j) p c = (d, fs, mk LScanX i n j).
Proof. intro H. unfold next, mk, setpc. cbn [lpc ltry lnl lcur]. now rewrite H. Qed.

Lemma next_scan_none d fs i n j p c :
  filter (isEx cfg) fs = [] -> nx d fs (mk LScanX i n j) p c = (d, fs, mk LCreate i n j).
Proof. intro H. unfold next, mk, setpc. cbn [lpc ltry lnl lcur]. now rewrite H. Qed.

Lemma next_scan_one d fs i n j p c q :
  filter (isEx cfg) fs = [q] -> nx d fs (mk LScanX i n j) p c = (d, fs, mk LScanX2 i n j).
Proof. intro H. unfold next, mk, setpc. cbn [lpc ltry lnl lcur]. now rewrite H. Qed.

Lemma next_scan2_root d fs i n j p q :
  filter (isEx cfg) fs = [q] -> is_root cfg p q = true ->
  nx d fs (mk LScanX2 i n j) p 0 = (d, fs, mk LCreate i n j).
Proof.
  intros H R. unfold next, mk, setpc. cbn [lpc ltry lnl lcur]. rewrite H. unfold pick.
  cbn [length Nat.modulo Nat.divmod fst snd Nat.sub nth_error]. now rewrite R.
Qed.

Lemma next_create fs i n j p c : nx true fs (mk LCreate i n j) p c = (true, add p fs, mk LValidate i n j).
Proof. reflexivity. Qed.

(* the second look clears the only stack of the path: takeLocks returns *)
Lemma next_validate_last d fs i j p c k :
  path_of cfg p = [k] -> conflict cfg p fs = false ->
  nx d fs (mk LValidate i 0 j) p c = (d, fs, mk LHeld i 1 j).
Proof.
  intros P H. unfold next, mk, setpc, advance. cbn [lpc ltry lnl lcur]. rewrite H, P. reflexivity.
Qed.

End Steps.

Section Live.
Variable cfg : config.

Ltac on_k P := apply solo_on_S; [rewrite P; reflexivity|].

(* from the scan onwards, when no exclusive lock is in sight and the second look finds no conflict *)
Lemma scan_to_held p c k fs i j :
  path_of cfg p = [k] -> filter (isEx cfg) fs = [] -> conflict cfg p (add p fs) = false ->
  solo_on true true cfg p k c 3 (true, fs, mk LScanX i 0 j) /\
  solo true true cfg p c 3 (true, fs, mk LScanX i 0 j) = (true, add p fs, mk LHeld i 1 j).
Proof.
  intros P FX HC. split.
  - on_k P. rewrite next_scan_none by assumption. on_k P. rewrite next_create. on_k P. exact I.
  - rewrite solo_S, next_scan_none by assumption. rewrite solo_S, next_create.
    rewrite solo_S, (next_validate_last cfg true (add p fs) i j p c k P HC). apply solo_0.
Qed.

(* a process alone on a free stack acquires its lock, whatever its kind, in four steps *)
Lemma solo_free_acquires s p c k :
  path_of cfg p = [k] -> dir s k = false -> files s k = [] -> pc s p = LMkdir -> nlk s p = 0 ->
  let s' := run cfg s (repeat (p, c) 4) in
  pc s' p = LHeld /\ files s' k = [p] /\ dir s' k = true /\ (forall q, q <> p -> pc s' q = pc s q).
Proof.
  intros P D F L N0. cbv zeta. unfold run.
  assert (HC : conflict cfg p (add p []) = false).
  { change (add p []) with [p]. destruct (kind_of cfg p) eqn:K.
    - apply conflict_false_sh; [assumption|]. intros q [<-|[]]. now left.
    - apply conflict_false_ex; [assumption|]. intros q [<-|[]]. now left. }
  destruct (scan_to_held p c k [] (tries s p) (cur s p) P eq_refl HC) as [On E].
  assert (LO : local_of s p = mk LMkdir (tries s p) 0 (cur s p)).
  { unfold local_of, mk. now rewrite L, N0. }
  assert (On4 : solo_on true true cfg p k c 4 (dir s k, files s k, local_of s p)).
  { rewrite D, F, LO. on_k P. rewrite next_mkdir_free. exact On. }
  assert (E4 : solo true true cfg p c 4 (dir s k, files s k, local_of s p)
               = (true, [p], mk LHeld (tries s p) 1 (cur s p))).
  { rewrite D, F, LO. rewrite solo_S, next_mkdir_free. exact E. }
  destruct (run_solo_eq true true cfg p c k 4 s _ _ _ On4 E4) as (A & B & C & _ & O).
  repeat split; assumption.
Qed.

(* a reader joins whatever readers are there: no exclusive lock file in sight *)
Lemma shared_joins s q c k :
  path_of cfg q = [k] -> kind_of cfg q = Sh -> (forall x, In x (files s k) -> kind_of cfg x = Sh) ->
  pc s q = LMkdir -> nlk s q = 0 ->
  exists n, let s' := run cfg s (repeat (q, c) n) in
    pc s' q = LHeld /\ (forall r, r <> q -> local_of s' r = local_of s r) /\
    (forall x, In x (files s' k) -> kind_of cfg x = Sh).
Proof.
  intros P K A L N0.
  assert (FX : filter (isEx cfg) (files s k) = []).
  { destruct (filter (isEx cfg) (files s k)) as [|x r] eqn:E; [reflexivity|]. exfalso.
    assert (Hx : In x (filter (isEx cfg) (files s k))) by (rewrite E; now left).
    apply filter_In in Hx. destruct Hx as [Hin Hx]. unfold isEx in Hx. rewrite (A x Hin) in Hx. discriminate. }
  assert (A' : forall x, In x (add q (files s k)) -> kind_of cfg x = Sh).
  { intros x Hx. apply in_add in Hx. destruct Hx as [->|Hx]; auto. }
  assert (HC : conflict cfg q (add q (files s k)) = false).
  { apply conflict_false_sh; [assumption|]. intros x Hx. right. right. now apply A'. }
  destruct (scan_to_held q c k (files s k) (tries s q) (cur s q) P FX HC) as [On E].
  assert (LO : local_of s q = mk LMkdir (tries s q) 0 (cur s q)).
  { unfold local_of, mk. now rewrite L, N0. }
  assert (G : exists n, solo_on true true cfg q k c n (dir s k, files s k, local_of s q) /\
                        solo true true cfg q c n (dir s k, files s k, local_of s q)
                        = (true, add q (files s k), mk LHeld (tries s q) 1 (cur s q))).
  { rewrite LO. destruct (dir s k) eqn:D.
    - exists 5. split.
      + on_k P. rewrite next_mkdir_busy_sh by assumption. on_k P. rewrite next_exists_yes. exact On.
      + rewrite solo_S, next_mkdir_busy_sh by assumption. rewrite solo_S, next_exists_yes. exact E.
    - exists 4. split.
      + on_k P. rewrite next_mkdir_free. exact On.
      + rewrite solo_S, next_mkdir_free. exact E. }
  destruct G as (n & On' & G). exists n. cbv zeta. unfold run.
  destruct (run_solo_eq true true cfg q c k n s _ _ _ On' G) as (R1 & R2 & R3 & R5 & _).
  repeat split.
  - exact R3.
  - assumption.
  - rewrite R2. assumption.
Qed.

(* any number of readers of one stack hold together *)
Lemma readers_share_proof k n :
  (forall i, i < n -> kind_of cfg i = Sh /\ path_of cfg i = [k]) ->
  exists s, reachable cfg s /\ (forall i, i < n -> holds s i) /\
    (forall i, n <= i -> pc s i = LMkdir /\ nlk s i = 0) /\ (forall x, In x (files s k) -> kind_of cfg x = Sh).
Proof.
  induction n as [|n IH]; intro K.
  - exists init. repeat split.
    + constructor.
    + intros i Hi. lia.
    + intros x [].
  - destruct IH as (s & R & H & M & A); [intros i Hi; apply K; lia|].
    destruct (K n (Nat.lt_succ_diag_r n)) as [Kn Pn]. destruct (M n (le_n n)) as [Ln Nn].
    destruct (shared_joins s n 0 k Pn Kn A Ln Nn) as (m & L & O & A').
    cbv zeta in *. exists (run cfg s (repeat (n, 0) m)). repeat split; try assumption.
    + now apply reachable_run.
    + intros i Hi. destruct (Nat.eq_dec i n) as [Heq|Hne].
      * subst i. apply held_holds. exact L.
      * apply (holds_local s _ i (O i Hne)). apply H. lia.
    + assert (Hne : i <> n) by lia. destruct (M i ltac:(lia)) as [M1 _].
      exact (eq_trans (proj1 (local_eq_pc s _ i (O i Hne))) M1).
    + assert (Hne : i <> n) by lia. destruct (M i ltac:(lia)) as [_ M2].
      exact (eq_trans (proj2 (local_eq_pc s _ i (O i Hne))) M2).
Qed.

(* a child re-enters the lock of the process it inherited EUPS_LOCK_PID from, whatever the two kinds *)
Lemma reentry_proof s p q k :
  path_of cfg q = [k] -> root_of cfg q = Some p -> q <> p -> dir s k = true -> files s k = [p] ->
  pc s p = LHeld -> pc s q = LMkdir -> nlk s q = 0 ->
  exists n, let s' := run cfg s (repeat (q, 0) n) in
    pc s' q = LHeld /\ pc s' p = LHeld /\ files s' k = [q; p].
Proof.
  intros P R Hne D F Lp Lq N0.
  assert (IR : is_root cfg q p = true) by now apply is_root_true.
  assert (OR : only_root cfg q [p] = true) by exact IR.
  assert (HM : add q [p] = [q; p]) by (unfold add; now rewrite (mem_single_ne q p Hne)).
  assert (HC : conflict cfg q [q; p] = false).
  { destruct (kind_of cfg q) eqn:K.
    - apply conflict_false_sh; [assumption|]. intros x [<-|[<-|[]]]; auto.
    - apply conflict_false_ex; [assumption|]. intros x [<-|[<-|[]]]; auto. }
  set (i := tries s q). set (j := cur s q).
  (* from the creation of the file onwards *)
  assert (T : solo_on true true cfg q k 0 2 (true, [p], mk LCreate i 0 j) /\
              solo true true cfg q 0 2 (true, [p], mk LCreate i 0 j) = (true, [q; p], mk LHeld i 1 j)).
  { split.
    - on_k P. rewrite next_create. on_k P. exact I.
    - rewrite solo_S, next_create, HM. rewrite solo_S, (next_validate_last cfg true [q; p] i j q 0 k P HC).
      apply solo_0. }
  destruct T as [TO T].
  (* the scan sees nothing, or exactly the lock of the parent *)
  assert (SC : exists m, solo_on true true cfg q k 0 m (true, [p], mk LScanX i 0 j) /\
                         solo true true cfg q 0 m (true, [p], mk LScanX i 0 j) = (true, [q; p], mk LHeld i 1 j)).
  { destruct (isEx cfg p) eqn:X.
    - assert (FX : filter (isEx cfg) [p] = [p]) by (cbn [filter]; now rewrite X).
      exists 4. split.
      + on_k P. rewrite (next_scan_one cfg true [p] i 0 j q 0 p FX).
        on_k P. rewrite (next_scan2_root cfg true [p] i 0 j q p FX IR). exact TO.
      + rewrite solo_S, (next_scan_one cfg true [p] i 0 j q 0 p FX).
        rewrite solo_S, (next_scan2_root cfg true [p] i 0 j q p FX IR). exact T.
    - assert (FX : filter (isEx cfg) [p] = []) by (cbn [filter]; now rewrite X).
      exists 3. split.
      + on_k P. rewrite next_scan_none by assumption. exact TO.
      + rewrite solo_S, next_scan_none by assumption. exact T. }
  destruct SC as (m & SO & SC).
  assert (LO : local_of s q = mk LMkdir i 0 j) by (unfold local_of, mk, i, j; now rewrite Lq, N0).
  assert (G : solo_on true true cfg q k 0 (S (S m)) (dir s k, files s k, local_of s q) /\
              solo true true cfg q 0 (S (S m)) (dir s k, files s k, local_of s q) = (true, [q; p], mk LHeld i 1 j)).
  { rewrite D, F, LO. destruct (kind_of cfg q) eqn:K.
    - split.
      + on_k P. rewrite next_mkdir_busy_sh by assumption. on_k P. rewrite next_exists_yes. exact SO.
      + rewrite solo_S, next_mkdir_busy_sh by assumption. rewrite solo_S, next_exists_yes. exact SC.
    - split.
      + on_k P. rewrite next_mkdir_busy_ex by assumption. on_k P. rewrite next_listall_root by assumption. exact SO.
      + rewrite solo_S, next_mkdir_busy_ex by assumption. rewrite solo_S, next_listall_root by assumption.
        exact SC. }
  destruct G as [GO G]. exists (S (S m)). cbv zeta. unfold run.
  destruct (run_solo_eq true true cfg q 0 k (S (S m)) s _ _ _ GO G) as (R1 & R2 & R3 & _ & R5).
  repeat split.
  - exact R3.
  - exact (eq_trans (R5 p (not_eq_sym Hne)) Lp).
  - exact R2.
Qed.

End Live.
