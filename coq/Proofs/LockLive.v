(* C09 - what the repaired protocol lets through: a process that runs alone acquires a free stack,
   readers join readers, a child re-enters the lock of its EUPS_LOCK_PID ancestor.
   The runs are followed one file-system call at a time with the one-step lemmas below; nothing here
   asks Coq to normalise a whole run of [next] at once. *)
From Eupsv Require Import Base.Base Model.Lock Proofs.LockLib Proofs.Lock.
From Coq Require Import Lia.

(* n consecutive steps of process p, seen on the part of the state they can touch *)
Fixpoint solo (fx : bool) (cfg : config) (p : pid) (c : choice) (n : nat)
  (st : bool * list pid * (loc * nat)) : bool * list pid * (loc * nat) :=
  match n with
  | 0 => st
  | S k => match st with (d, fs, (l, i)) => solo fx cfg p c k (next fx cfg d fs l i p c) end
  end.

Lemma solo_S fx cfg p c k d fs l i :
  solo fx cfg p c (S k) (d, fs, (l, i)) = solo fx cfg p c k (next fx cfg d fs l i p c).
Proof. reflexivity. Qed.

Lemma solo_0 fx cfg p c st : solo fx cfg p c 0 st = st.
Proof. reflexivity. Qed.

Lemma run_solo fx cfg p c n : forall s,
  let r := solo fx cfg p c n (dir s, files s, (pc s p, tries s p)) in
  let s' := run_gen fx cfg s (repeat (p, c) n) in
  dir s' = fst (fst r) /\ files s' = snd (fst r) /\ pc s' p = fst (snd r) /\ tries s' p = snd (snd r) /\
  (forall q, q <> p -> pc s' q = pc s q).
Proof.
  induction n as [|k IH]; intro s.
  - cbn. auto.
  - cbv zeta. rewrite solo_S. change (repeat (p, c) (S k)) with ((p, c) :: repeat (p, c) k).
    change (run_gen fx cfg s ((p, c) :: repeat (p, c) k))
      with (run_gen fx cfg (step_gen fx cfg s p c) (repeat (p, c) k)).
    destruct (step_fields fx cfg s p c) as (d' & fs' & l' & i' & N & E).
    specialize (IH (step_gen fx cfg s p c)). cbv zeta in IH. rewrite N. rewrite E in IH |- *.
    cbn [dir files pc tries] in IH. rewrite !upd_same in IH. destruct IH as (A & B & C & D & F).
    repeat split; try assumption.
    intros q Hq. rewrite (F q Hq). now apply upd_other.
Qed.

(* the form in which it is used: once the local run is known, so is the global one *)
Lemma run_solo_eq fx cfg p c n s d' fs' l' i' :
  solo fx cfg p c n (dir s, files s, (pc s p, tries s p)) = (d', fs', (l', i')) ->
  dir (run_gen fx cfg s (repeat (p, c) n)) = d' /\
  files (run_gen fx cfg s (repeat (p, c) n)) = fs' /\
  pc (run_gen fx cfg s (repeat (p, c) n)) p = l' /\
  (forall q, q <> p -> pc (run_gen fx cfg s (repeat (p, c) n)) q = pc s q).
Proof.
  intro H. destruct (run_solo fx cfg p c n s) as (A & B & C & _ & F). cbv zeta in *.
  rewrite H in A, B, C. cbn [fst snd] in A, B, C. auto.
Qed.

Lemma mem_single_ne p r : p <> r -> mem p [r] = false.
Proof. intro H. cbn. apply not_eq_sym in H. apply Nat.eqb_neq in H. now rewrite H. Qed.

Lemma held_holds s p : pc s p = LHeld -> holds s p.
Proof. intro H. unfold holds, holdsb. now rewrite H. Qed.

(* ---- one call of the repaired protocol at a time *)

Section Steps.
Variable cfg : config.
Notation nx := (next true cfg).

Lemma next_mkdir_free fs i p c : nx false fs LMkdir i p c = (true, fs, (LScanX, i)).
Proof. reflexivity. Qed.

Lemma next_mkdir_busy_sh fs i p c : kind_of cfg p = Sh -> nx true fs LMkdir i p c = (true, fs, (LExists, i)).
Proof. intro K. cbn [next]. now rewrite K. Qed.

Lemma next_mkdir_busy_ex fs i p c : kind_of cfg p = Ex -> nx true fs LMkdir i p c = (true, fs, (LListAll, i)).
Proof. intro K. cbn [next]. now rewrite K. Qed.

Lemma next_exists_yes fs i p c : nx true fs LExists i p c = (true, fs, (LScanX, i)).
Proof. reflexivity. Qed.

Lemma next_listall_root d fs i p c : only_root cfg p fs = true -> nx d fs LListAll i p c = (d, fs, (LScanX, i)).
Proof. intro H. cbn [next]. now rewrite H. Qed.

Lemma next_scan_none d fs i p c : filter (isEx cfg) fs = [] -> nx d fs LScanX i p c = (d, fs, (LCreate, i)).
Proof. intro H. cbn [next]. now rewrite H. Qed.

Lemma next_scan_one d fs i p c q : filter (isEx cfg) fs = [q] -> nx d fs LScanX i p c = (d, fs, (LScanX2, i)).
Proof. intro H. cbn [next]. now rewrite H. Qed.

Lemma next_scan2_root d fs i p q :
  filter (isEx cfg) fs = [q] -> is_root cfg p q = true -> nx d fs LScanX2 i p 0 = (d, fs, (LCreate, i)).
Proof. intros H R. cbn [next]. rewrite H. unfold pick. cbn. now rewrite R. Qed.

Lemma next_create fs i p c : nx true fs LCreate i p c = (true, add p fs, (LValidate, i)).
Proof. reflexivity. Qed.

Lemma next_validate_ok d fs i p c : conflict cfg p fs = false -> nx d fs LValidate i p c = (d, fs, (LHeld, i)).
Proof. intro H. cbn [next]. now rewrite H. Qed.

End Steps.

Section Live.
Variable cfg : config.

(* a process alone on a free stack acquires its lock, whatever its kind, in four steps *)
Lemma solo_free_acquires s p c :
  dir s = false -> files s = [] -> pc s p = LMkdir ->
  let s' := run cfg s (repeat (p, c) 4) in
  pc s' p = LHeld /\ files s' = [p] /\ dir s' = true /\ (forall q, q <> p -> pc s' q = pc s q).
Proof.
  intros D F L. cbv zeta. unfold run.
  assert (HC : conflict cfg p [p] = false).
  { destruct (kind_of cfg p) eqn:K.
    - apply conflict_false_sh; [assumption|]. intros q [<-|[]]. now left.
    - apply conflict_false_ex; [assumption|]. intros q [<-|[]]. now left. }
  assert (E : solo true cfg p c 4 (dir s, files s, (pc s p, tries s p)) = (true, [p], (LHeld, tries s p))).
  { rewrite D, F, L.
    rewrite solo_S, next_mkdir_free.
    rewrite solo_S, next_scan_none by reflexivity.
    rewrite solo_S, next_create. change (add p []) with [p].
    rewrite solo_S, next_validate_ok by assumption.
    apply solo_0. }
  destruct (run_solo_eq true cfg p c 4 s _ _ _ _ E) as (A & B & C & O). auto.
Qed.

(* a reader joins whatever readers are there: no exclusive lock file in sight *)
Lemma shared_joins s q c :
  I0 s -> kind_of cfg q = Sh -> (forall x, In x (files s) -> kind_of cfg x = Sh) -> pc s q = LMkdir ->
  exists n, let s' := run cfg s (repeat (q, c) n) in
    pc s' q = LHeld /\ (forall r, r <> q -> pc s' r = pc s r) /\
    (forall x, In x (files s') -> kind_of cfg x = Sh) /\ I0 s'.
Proof.
  intros H0 K A L.
  assert (FX : filter (isEx cfg) (files s) = []).
  { destruct (filter (isEx cfg) (files s)) as [|x r] eqn:E; [reflexivity|]. exfalso.
    assert (Hx : In x (filter (isEx cfg) (files s))) by (rewrite E; now left).
    apply filter_In in Hx. destruct Hx as [Hin Hx]. unfold isEx in Hx. rewrite (A x Hin) in Hx. discriminate. }
  assert (A' : forall x, In x (add q (files s)) -> kind_of cfg x = Sh).
  { intros x Hx. apply in_add in Hx. destruct Hx as [->|Hx]; auto. }
  assert (HC : conflict cfg q (add q (files s)) = false).
  { apply conflict_false_sh; [assumption|]. intros x Hx. right. right. now apply A'. }
  (* from the scan onwards the two cases coincide *)
  assert (T : forall i, solo true cfg q c 3 (true, files s, (LScanX, i)) = (true, add q (files s), (LHeld, i))).
  { intro i. rewrite solo_S, next_scan_none by assumption.
    rewrite solo_S, next_create. rewrite solo_S, next_validate_ok by assumption. apply solo_0. }
  assert (G : exists n, solo true cfg q c n (dir s, files s, (pc s q, tries s q))
                        = (true, add q (files s), (LHeld, tries s q))).
  { rewrite L. destruct (dir s) eqn:D.
    - exists 5. rewrite solo_S, next_mkdir_busy_sh by assumption. rewrite solo_S, next_exists_yes. apply T.
    - exists 4. rewrite solo_S, next_mkdir_free. apply T. }
  destruct G as [n G]. exists n. cbv zeta. unfold run.
  destruct (run_solo_eq true cfg q c n s _ _ _ _ G) as (R1 & R2 & R3 & R5).
  assert (H0' : I0 (run_gen true cfg s (repeat (q, c) n))).
  { intros x Hx. exact R1. }
  repeat split; try assumption.
  rewrite R2. assumption.
Qed.

(* any number of readers hold together *)
Lemma readers_share_proof n :
  (forall i, i < n -> kind_of cfg i = Sh) ->
  exists s, reachable cfg s /\ (forall i, i < n -> holds s i) /\
    (forall i, n <= i -> pc s i = LMkdir) /\ (forall x, In x (files s) -> kind_of cfg x = Sh) /\ I0 s.
Proof.
  induction n as [|n IH]; intro K.
  - exists init. repeat split.
    + constructor.
    + intros i Hi. lia.
    + intros x [].
    + intros x [].
  - destruct IH as (s & R & H & M & A & H0); [intros i Hi; apply K; lia|].
    destruct (shared_joins s n 0 H0 (K n (Nat.lt_succ_diag_r n)) A (M n (le_n n))) as (k & L & O & A' & H0').
    cbv zeta in *. exists (run cfg s (repeat (n, 0) k)). repeat split; try assumption.
    + now apply reachable_run.
    + intros i Hi. destruct (Nat.eq_dec i n) as [Heq|Hne].
      * subst i. apply held_holds. exact L.
      * assert (Hi' : holds s i) by (apply H; lia). unfold holds, holdsb in *.
        pose proof (O i Hne) as Oi. cbv beta in Oi. rewrite <- Oi in Hi'. exact Hi'.
    + intros i Hi. rewrite O by lia. apply M. lia.
Qed.

(* a child re-enters the lock of the process it inherited EUPS_LOCK_PID from, whatever the two kinds *)
Lemma reentry_proof s p q :
  root_of cfg q = Some p -> q <> p -> dir s = true -> files s = [p] -> pc s p = LHeld -> pc s q = LMkdir ->
  exists n, let s' := run cfg s (repeat (q, 0) n) in
    pc s' q = LHeld /\ pc s' p = LHeld /\ files s' = [q; p].
Proof.
  intros R Hne D F Lp Lq.
  assert (IR : is_root cfg q p = true) by now apply is_root_true.
  assert (OR : only_root cfg q [p] = true) by exact IR.
  assert (HM : add q [p] = [q; p]) by (unfold add; now rewrite (mem_single_ne q p Hne)).
  assert (HC : conflict cfg q [q; p] = false).
  { destruct (kind_of cfg q) eqn:K.
    - apply conflict_false_sh; [assumption|]. intros x [<-|[<-|[]]]; auto.
    - apply conflict_false_ex; [assumption|]. intros x [<-|[<-|[]]]; auto. }
  (* from the creation of the file onwards *)
  assert (T : forall i, solo true cfg q 0 2 (true, [p], (LCreate, i)) = (true, [q; p], (LHeld, i))).
  { intro i. rewrite solo_S, next_create, HM. rewrite solo_S, next_validate_ok by assumption. apply solo_0. }
  (* the scan sees nothing, or exactly the lock of the parent *)
  assert (SC : forall i, exists k, solo true cfg q 0 k (true, [p], (LScanX, i)) = (true, [q; p], (LHeld, i))).
  { intro i. destruct (isEx cfg p) eqn:X.
    - assert (FX : filter (isEx cfg) [p] = [p]) by (cbn [filter]; now rewrite X).
      exists 4. rewrite solo_S, (next_scan_one cfg true [p] i q 0 p FX).
      rewrite solo_S, (next_scan2_root cfg true [p] i q p FX IR). apply T.
    - assert (FX : filter (isEx cfg) [p] = []) by (cbn [filter]; now rewrite X).
      exists 3. rewrite solo_S, next_scan_none by assumption. apply T. }
  assert (G : exists n, solo true cfg q 0 n (dir s, files s, (pc s q, tries s q)) = (true, [q; p], (LHeld, tries s q))).
  { rewrite D, F, Lq. destruct (SC (tries s q)) as [k Hk]. exists (S (S k)).
    destruct (kind_of cfg q) eqn:K.
    - rewrite solo_S, next_mkdir_busy_sh by assumption. rewrite solo_S, next_exists_yes. exact Hk.
    - rewrite solo_S, next_mkdir_busy_ex by assumption. rewrite solo_S, next_listall_root by assumption. exact Hk. }
  destruct G as [n G]. exists n. cbv zeta. unfold run.
  destruct (run_solo_eq true cfg q 0 n s _ _ _ _ G) as (R1 & R2 & R3 & R5).
  split; [exact R3 | split; [exact (eq_trans (R5 p (not_eq_sym Hne)) Lp) | exact R2]].
Qed.

End Live.
