(* C09 - what the repaired protocol lets through: a process that runs alone acquires a free stack,
   readers join readers, a child re-enters the lock of its EUPS_LOCK_PID ancestor. *)
From Eupsv Require Import Base.Base Model.Lock Proofs.LockLib Proofs.Lock.
From Coq Require Import Lia.

(* n consecutive steps of process p, seen on the part of the state they can touch *)
Fixpoint solo (fx : bool) (cfg : config) (p : pid) (c : choice) (n : nat)
  (st : bool * list pid * (loc * nat)) : bool * list pid * (loc * nat) :=
  match n with
  | 0 => st
  | S k => match st with (d, fs, (l, i)) => solo fx cfg p c k (next fx cfg d fs l i p c) end
  end.

Lemma run_solo fx cfg p c n : forall s,
  let r := solo fx cfg p c n (dir s, files s, (pc s p, tries s p)) in
  let s' := run_gen fx cfg s (repeat (p, c) n) in
  dir s' = fst (fst r) /\ files s' = snd (fst r) /\ pc s' p = fst (snd r) /\ tries s' p = snd (snd r) /\
  (forall q, q <> p -> pc s' q = pc s q).
Proof.
  induction n as [|k IH]; intro s; cbn [solo repeat run_gen].
  - cbn. auto.
  - destruct (step_fields fx cfg s p c) as (d' & fs' & l' & i' & N & E).
    specialize (IH (step_gen fx cfg s p c)). rewrite N. rewrite E in IH |- *. cbn [dir files pc tries] in IH.
    rewrite !upd_same in IH. destruct IH as (A & B & C & D & F). repeat split; try assumption.
    intros q Hq. rewrite (F q Hq). now apply upd_other.
Qed.

Lemma mem_single_ne p r : p <> r -> mem p [r] = false.
Proof. intro H. cbn. apply not_eq_sym in H. apply Nat.eqb_neq in H. now rewrite H. Qed.

Lemma held_holds s p : pc s p = LHeld -> holds s p.
Proof. intro H. unfold holds, holdsb. now rewrite H. Qed.

Section Live.
Variable cfg : config.

(* a process alone on a free stack acquires its lock, whatever its kind, in four steps *)
Lemma solo_free_acquires s p c :
  dir s = false -> files s = [] -> pc s p = LMkdir ->
  let s' := run cfg s (repeat (p, c) 4) in
  pc s' p = LHeld /\ files s' = [p] /\ dir s' = true /\ (forall q, q <> p -> pc s' q = pc s q).
Proof.
  intros D F L. cbv zeta. unfold run.
  destruct (run_solo true cfg p c 4 s) as (A & B & C & _ & E).
  rewrite D, F, L in *. rewrite A, B, C. clear A B C.
  cbn [solo next filter add mem fst snd].
  assert (HC : conflict cfg p [p] = false).
  { destruct (kind_of cfg p) eqn:K.
    - apply conflict_false_sh; [assumption|]. intros q [<-|[]]. now left.
    - apply conflict_false_ex; [assumption|]. intros q [<-|[]]. now left. }
  rewrite HC. cbn. auto.
Qed.

(* a reader joins whatever readers are there: no exclusive lock file in sight *)
Lemma shared_joins s q c :
  I0 s -> kind_of cfg q = Sh -> (forall x, In x (files s) -> kind_of cfg x = Sh) -> pc s q = LMkdir ->
  exists n, let s' := run cfg s (repeat (q, c) n) in
    pc s' q = LHeld /\ (forall r, r <> q -> pc s' r = pc s r) /\
    (forall x, In x (files s') -> kind_of cfg x = Sh) /\ I0 s'.
Proof.
  intros H0 K A L.
  assert (FX : filter (isEx cfg) (files s) = []).
  { destruct (filter (isEx cfg) (files s)) as [|x r] eqn:E; [reflexivity|]. exfalso.
    assert (Hx : In x (filter (isEx cfg) (files s))) by (rewrite E; now left).
    apply filter_In in Hx. destruct Hx as [Hin Hx]. unfold isEx in Hx. rewrite (A x Hin) in Hx. discriminate. }
  assert (A' : forall x, In x (add q (files s)) -> kind_of cfg x = Sh).
  { intros x Hx. apply in_add in Hx. destruct Hx as [->|Hx]; auto. }
  assert (HC : conflict cfg q (add q (files s)) = false).
  { apply conflict_false_sh; [assumption|]. intros x Hx. right. right. now apply A'. }
  destruct (dir s) eqn:D.
  - exists 5. cbv zeta. unfold run.
    destruct (run_solo true cfg q c 5 s) as (R1 & R2 & R3 & _ & R5).
    rewrite D, L in *. cbn [solo next] in R1, R2, R3. rewrite K in R1, R2, R3. cbn [solo next] in R1, R2, R3.
    rewrite FX in R1, R2, R3. cbn [solo next] in R1, R2, R3. rewrite HC in R1, R2, R3.
    cbn [fst snd] in R1, R2, R3.
    repeat split; try assumption.
    + rewrite R2. assumption.
    + intros x _. assumption.
  - exists 4. cbv zeta. unfold run.
    destruct (run_solo true cfg q c 4 s) as (R1 & R2 & R3 & _ & R5).
    rewrite D, L in *. cbn [solo next] in R1, R2, R3.
    rewrite FX in R1, R2, R3. cbn [solo next] in R1, R2, R3. rewrite HC in R1, R2, R3.
    cbn [fst snd] in R1, R2, R3.
    repeat split; try assumption.
    + rewrite R2. assumption.
    + intros x _. assumption.
Qed.

(* any number of readers hold together *)
Lemma readers_share_proof n :
  (forall i, i < n -> kind_of cfg i = Sh) ->
  exists s, reachable cfg s /\ (forall i, i < n -> holds s i) /\
    (forall i, n <= i -> pc s i = LMkdir) /\ (forall x, In x (files s) -> kind_of cfg x = Sh) /\ I0 s.
Proof.
  induction n as [|n IH]; intro K.
  - exists init. repeat split.
    + constructor.
    + intros i Hi. lia.
    + intros x [].
    + intros x [].
  - destruct IH as (s & R & H & M & A & H0); [intros i Hi; apply K; lia|].
    destruct (shared_joins s n 0 H0 (K n (Nat.lt_succ_diag_r n)) A (M n (le_n n))) as (k & L & O & A' & H0').
    cbv zeta in *. exists (run cfg s (repeat (n, 0) k)). repeat split; try assumption.
    + now apply reachable_run.
    + intros i Hi. destruct (Nat.eq_dec i n) as [Heq|Hne].
      * subst i. apply held_holds. exact L.
      * assert (Hi' : holds s i) by (apply H; lia). unfold holds, holdsb in *.
        pose proof (O i Hne) as Oi. cbv beta in Oi. rewrite <- Oi in Hi'. exact Hi'.
    + intros i Hi. rewrite O by lia. apply M. lia.
Qed.

(* a child re-enters the lock of the process it inherited EUPS_LOCK_PID from, whatever the two kinds *)
Lemma reentry_proof s p q :
  root_of cfg q = Some p -> q <> p -> dir s = true -> files s = [p] -> pc s p = LHeld -> pc s q = LMkdir ->
  exists n, let s' := run cfg s (repeat (q, 0) n) in
    pc s' q = LHeld /\ pc s' p = LHeld /\ files s' = [q; p].
Proof.
  intros R Hne D F Lp Lq.
  assert (IR : is_root cfg q p = true) by now apply is_root_true.
  assert (HM : mem q [p] = false) by now apply mem_single_ne.
  assert (HC : conflict cfg q [q; p] = false).
  { destruct (kind_of cfg q) eqn:K.
    - apply conflict_false_sh; [assumption|]. intros x [<-|[<-|[]]]; auto.
    - apply conflict_false_ex; [assumption|]. intros x [<-|[<-|[]]]; auto. }
  assert (tail : forall i, solo true cfg q 0 2 (true, [p], (LCreate, i)) = (true, [q; p], (LHeld, i))).
  { intro i. cbn [solo next]. unfold add. rewrite HM. cbn [solo next]. rewrite HC. reflexivity. }
  assert (scan : forall i, exists k, solo true cfg q 0 k (true, [p], (LScanX, i)) = (true, [q; p], (LHeld, i))).
  { intro i. destruct (isEx cfg p) eqn:X.
    - exists 4.
      repeat (cbn [solo next filter pick length nth_error Nat.modulo Nat.divmod fst snd Nat.sub]; rewrite ?X, ?IR).
      apply tail.
    - exists 3. repeat (cbn [solo next filter]; rewrite ?X). apply tail. }
  destruct (kind_of cfg q) eqn:K.
  - destruct (scan (tries s q)) as [k Hk]. exists (2 + k). cbv zeta. unfold run.
    destruct (run_solo true cfg q 0 (2 + k) s) as (R1 & R2 & R3 & _ & R5).
    rewrite D, F, Lq in *. cbn [solo next Nat.add] in R1, R2, R3. rewrite K in R1, R2, R3.
    cbn [solo next] in R1, R2, R3. rewrite Hk in R1, R2, R3. cbn [fst snd] in R2, R3.
    split; [exact R3 | split; [exact (eq_trans (R5 p (not_eq_sym Hne)) Lp) | exact R2]].
  - destruct (scan (tries s q)) as [k Hk]. exists (2 + k). cbv zeta. unfold run.
    destruct (run_solo true cfg q 0 (2 + k) s) as (R1 & R2 & R3 & _ & R5).
    rewrite D, F, Lq in *. cbn [solo next Nat.add] in R1, R2, R3. rewrite K in R1, R2, R3.
    cbn [solo next only_root] in R1, R2, R3. rewrite IR in R1, R2, R3.
    rewrite Hk in R1, R2, R3. cbn [fst snd] in R2, R3.
    split; [exact R3 | split; [exact (eq_trans (R5 p (not_eq_sym Hne)) Lp) | exact R2]].
Qed.

End Live.
