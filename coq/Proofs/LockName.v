(* C09 - the file-name layer (Model/LockName.v): the name of a lock file parses back to its parts, foreign
   entries are invisible to listLockers, and the protocol over names refines the protocol over owners. *)
From Coq Require Import DecimalString DecimalNat DecimalFacts Decimal Lia.
From Eupsv Require Import Base.Base Base.BaseLemmas Model.Lock Model.LockName Proofs.LockLib Proofs.Lock.

(* ---- decimal rendering *)

Lemma list_ascii_inj a b : String.list_ascii_of_string a = String.list_ascii_of_string b -> a = b.
Proof.
  intro H. rewrite <- (String.string_of_list_ascii_of_string a), <- (String.string_of_list_ascii_of_string b).
  now rewrite H.
Qed.

Lemma string_of_uint_inj a b : NilEmpty.string_of_uint a = NilEmpty.string_of_uint b -> a = b.
Proof.
  intro H. pose proof (NilEmpty.usu a) as A. rewrite H, NilEmpty.usu in A. now injection A.
Qed.

Lemma digits_inj p q : digits p = digits q -> p = q.
Proof. intro H. apply Unsigned.to_uint_inj, string_of_uint_inj, list_ascii_inj, H. Qed.

Lemma uint_chars_digits d : forallb is_digit (String.list_ascii_of_string (NilEmpty.string_of_uint d)) = true.
Proof. induction d; cbn [NilEmpty.string_of_uint String.list_ascii_of_string forallb]; try rewrite IHd; reflexivity. Qed.

Lemma little_nonnil n acc : acc <> Nil -> Nat.to_little_uint n acc <> Nil.
Proof.
  revert acc. induction n as [|n IH]; intros acc H; cbn [Nat.to_little_uint]; [exact H|].
  apply IH. destruct acc; cbn; discriminate.
Qed.

Lemma to_uint_nonnil n : Nat.to_uint n <> Nil.
Proof.
  unfold Nat.to_uint. intro H. apply rev_nil_inv in H. revert H. apply little_nonnil. discriminate.
Qed.

Lemma digits_all_digits n : all_digits (digits n) = true.
Proof.
  unfold all_digits, digits. rewrite uint_chars_digits, Bool.andb_true_r.
  destruct (Nat.to_uint n) eqn:E; try reflexivity. now apply to_uint_nonnil in E.
Qed.

Lemma all_digits_no c x : is_digit c = false -> all_digits x = true -> mem_ascii c x = false.
Proof.
  intros Hc H. unfold all_digits in H. apply Bool.andb_true_iff in H. destruct H as [_ H].
  induction x as [|y r IH]; [reflexivity|]. cbn [forallb] in H. apply Bool.andb_true_iff in H. destruct H as [Hy Hr].
  cbn [mem_ascii]. destruct (ascii_eqb c y) eqn:E; [|now apply IH].
  apply ascii_eqb_eq in E. subst y. congruence.
Qed.

Lemma digits_no_dot n : mem_ascii dot (digits n) = false.
Proof. apply all_digits_no; [reflexivity | apply digits_all_digits]. Qed.

Lemma digits_not_minus1 n : str_eqb (digits n) (lit "-1") = false.
Proof.
  apply str_eqb_neq. intro H. pose proof (all_digits_no dash (digits n) eq_refl (digits_all_digits n)) as M.
  rewrite H in M. discriminate M.
Qed.

Lemma digits_eqb p q : str_eqb (digits q) (digits p) = Nat.eqb q p.
Proof.
  destruct (Nat.eqb q p) eqn:E.
  - apply Nat.eqb_eq in E. subst. apply str_eqb_refl.
  - apply str_eqb_neq. intro H. apply digits_inj in H. apply Nat.eqb_neq in E. contradiction.
Qed.

(* ---- parsing *)

Lemma strip_app p x : strip p (p ++ x) = Some x.
Proof. induction p as [|c p IH]; [reflexivity|]. cbn [strip app]. now rewrite ascii_eqb_refl. Qed.

Lemma split_last_none d b : mem_ascii d b = false -> split_last d b = None.
Proof.
  induction b as [|c r IH]; [reflexivity|]. cbn [mem_ascii split_last]. rewrite (ascii_eqb_sym d c).
  destruct (ascii_eqb c d); [discriminate|]. intro H. now rewrite (IH H).
Qed.

Lemma split_last_app d a b : mem_ascii d b = false -> split_last d (a ++ d :: b) = Some (a, b).
Proof.
  intro H. induction a as [|c a IH].
  - cbn [app split_last]. now rewrite (split_last_none d b H), ascii_eqb_refl.
  - cbn [app split_last]. now rewrite IH.
Qed.

(* the name of a lock file reads back as what it was made of: for every kind, every pid, and every login
   name .+ can match (not empty, no newline) - dots, dashes, at-signs, digits and all *)
Lemma parse_lock_name_roundtrip k u p :
  user_ok u = true -> parse_lock_name (lock_name k u p) = Some (k, u, digits p).
Proof.
  intro U. unfold parse_lock_name, lock_name.
  assert (S : (match strip (kind_name Ex ++ [dash]) (kind_name k ++ dash :: u ++ dot :: digits p) with
               | Some r => Some (Ex, r)
               | None => match strip (kind_name Sh ++ [dash]) (kind_name k ++ dash :: u ++ dot :: digits p) with
                         | Some r => Some (Sh, r) | None => None end
               end) = Some (k, u ++ dot :: digits p)).
  { destruct k.
    - change (kind_name Sh ++ dash :: u ++ dot :: digits p) with ((kind_name Sh ++ [dash]) ++ (u ++ dot :: digits p)).
      rewrite strip_app. reflexivity.
    - change (kind_name Ex ++ dash :: u ++ dot :: digits p) with ((kind_name Ex ++ [dash]) ++ (u ++ dot :: digits p)).
      rewrite strip_app. reflexivity. }
  rewrite S. rewrite (split_last_app dot u (digits p) (digits_no_dot p)). now rewrite U, digits_all_digits.
Qed.

Lemma glob_lock_name pt k u p :
  glob_match pt (lock_name k u p) = match pt with PAll => true | PExcl => match k with Ex => true | Sh => false end end.
Proof. destruct pt, k; reflexivity. Qed.

(* an entry that does not parse, or that the pattern does not match, changes no listing *)
Lemma foreign_invisible pt ig a j b :
  parse_lock_name j = None \/ glob_match pt j = false ->
  list_lockers pt ig (a ++ j :: b) = list_lockers pt ig (a ++ b).
Proof.
  intro H. unfold list_lockers. rewrite !flat_map_app. f_equal. cbn [flat_map].
  destruct (glob_match pt j); [|reflexivity]. destruct H as [H|H]; [now rewrite H | discriminate].
Qed.

(* ---- the queries of the protocol over names, on a directory that holds the lock files of fs *)
Section Queries.
Variable cfg : config.
Variable usr : pid -> str.
Hypothesis UOK : users_ok usr.

Notation nm := (myname cfg usr).

Lemma parse_myname q : parse_lock_name (nm q) = Some (kind_of cfg q, usr q, digits q).
Proof. apply parse_lock_name_roundtrip, UOK. Qed.

Lemma myname_inj p q : nm p = nm q -> p = q.
Proof.
  intro H. pose proof (parse_myname p) as A. rewrite H, parse_myname in A. injection A as _ _ A.
  now apply digits_inj in A.
Qed.

Lemma myname_eqb p q : str_eqb (nm q) (nm p) = Nat.eqb q p.
Proof.
  destruct (Nat.eqb q p) eqn:E.
  - apply Nat.eqb_eq in E. subst. apply str_eqb_refl.
  - apply str_eqb_neq. intro H. apply myname_inj in H. apply Nat.eqb_neq in E. contradiction.
Qed.

Definition sel (pt : pat) (q : pid) : bool := match pt with PAll => true | PExcl => isEx cfg q end.

Lemma list_lockers_names pt ig fs :
  list_lockers pt ig (map nm fs) =
  map digits (filter (fun q => sel pt q && negb (mem_str (digits q) ig)) fs).
Proof.
  unfold list_lockers. induction fs as [|q r IH]; [reflexivity|].
  cbn [map flat_map filter]. rewrite IH. unfold myname at 1. rewrite glob_lock_name.
  fold (nm q). rewrite parse_myname.
  assert (E : match pt with PAll => true | PExcl => match kind_of cfg q with Ex => true | Sh => false end end = sel pt q)
    by (destruct pt; reflexivity).
  rewrite E. destruct (sel pt q); [|reflexivity]. cbn [andb].
  destruct (mem_str (digits q) ig); reflexivity.
Qed.

Lemma filter_true {A} (l : list A) : filter (fun _ => true) l = l.
Proof. induction l as [|x r IH]; [reflexivity|]. cbn [filter]. now rewrite IH. Qed.

Lemma list_all fs : list_lockers PAll [] (map nm fs) = map digits fs.
Proof. rewrite list_lockers_names. cbn [sel mem_str negb andb]. now rewrite filter_true. Qed.

Lemma list_excl fs : list_lockers PExcl [] (map nm fs) = map digits (filter (isEx cfg) fs).
Proof.
  rewrite list_lockers_names. f_equal. apply filter_ext. intro q. cbn [sel mem_str negb]. apply Bool.andb_true_r.
Qed.

Lemma env_pid_eqb p q : str_eqb (digits q) (env_pid cfg p) = is_root cfg p q.
Proof.
  unfold env_pid, is_root. destruct (root_of cfg p) as [r|].
  - rewrite digits_eqb. apply Nat.eqb_sym.
  - apply digits_not_minus1.
Qed.

Lemma n_only_root_names p fs : n_only_root cfg p (map nm fs) = only_root cfg p fs.
Proof.
  unfold n_only_root, only_root. rewrite list_all. destruct fs as [|q [|q' r]]; try reflexivity.
  cbn [map]. apply env_pid_eqb.
Qed.

Lemma n_conflict_names p fs : n_conflict cfg p (map nm fs) = conflict cfg p fs.
Proof.
  unfold n_conflict, conflict, others. rewrite list_lockers_names.
  assert (G : forall q, negb (mem_str (digits q) [digits p; env_pid cfg p]) = negb (Nat.eqb q p) && negb (is_root cfg p q)).
  { intro q. cbn [mem_str]. rewrite digits_eqb, env_pid_eqb.
    destruct (Nat.eqb q p); [reflexivity|]. destruct (is_root cfg p q); reflexivity. }
  destruct (kind_of cfg p).
  - (* shared: exclusive files of others *)
    induction fs as [|q r IH]; [reflexivity|]. cbn [filter]. rewrite G. cbn [sel].
    destruct (negb (Nat.eqb q p) && negb (is_root cfg p q)) eqn:O.
    + cbn [existsb]. destruct (isEx cfg q); [reflexivity|]. cbn [andb orb]. exact IH.
    + rewrite Bool.andb_false_r. exact IH.
  - induction fs as [|q r IH]; [reflexivity|]. cbn [filter]. rewrite G. cbn [sel andb].
    destruct (negb (Nat.eqb q p) && negb (is_root cfg p q)) eqn:O; [reflexivity|]. exact IH.
Qed.

Lemma mem_myname p fs : mem_str (nm p) (map nm fs) = mem p fs.
Proof.
  induction fs as [|q r IH]; [reflexivity|]. cbn [map mem_str mem]. rewrite (str_eqb_sym (nm p) (nm q)), myname_eqb.
  destruct (Nat.eqb q p); [reflexivity | exact IH].
Qed.

Lemma nadd_names p fs : nadd (nm p) (map nm fs) = map nm (add p fs).
Proof. unfold nadd, add. rewrite mem_myname. destruct (mem p fs); reflexivity. Qed.

Lemma remove_names p fs : remove_str (nm p) (map nm fs) = map nm (rem p fs).
Proof.
  unfold remove_str, rem. induction fs as [|q r IH]; [reflexivity|]. cbn [map filter]. rewrite myname_eqb, IH.
  destruct (Nat.eqb q p); reflexivity.
Qed.

Lemma npick_names c (l : list pid) : npick c (map digits l) = option_map digits (pick c l).
Proof. unfold npick, pick. rewrite map_length. apply nth_error_map. Qed.

Definition lift3 (r : bool * list pid * local) : bool * list str * local :=
  match r with (d, fs, lo) => (d, map nm fs, lo) end.

(* one call over names does what the call over owners does *)
Lemma nnext_refines fx fr d fs lo p c :
  nnext fx fr cfg usr d (map nm fs) lo p c = lift3 (next fx fr cfg d fs lo p c).
Proof.
  unfold nnext, next. destruct (lpc lo) as [ | | | | | | | | | |m g| | | ].
  - destruct d; reflexivity.
  - rewrite n_only_root_names. reflexivity.
  - reflexivity.
  - destruct d; [reflexivity|]. destruct fx; reflexivity.
  - rewrite list_excl. cbn [lift3]. destruct (filter (isEx cfg) fs) as [|a [|b r]]; reflexivity.
  - rewrite list_excl, npick_names. cbn [lift3]. destruct (pick c (filter (isEx cfg) fs)) as [q|]; [|reflexivity].
    cbn [option_map]. now rewrite env_pid_eqb.
  - destruct d; [|reflexivity]. cbn [lift3]. now rewrite nadd_names.
  - rewrite n_conflict_names. reflexivity.
  - reflexivity.
  - reflexivity.
  - destruct g.
    + reflexivity.
    + rewrite mem_myname. reflexivity.
    + rewrite mem_myname. destruct (d && mem p fs); [|reflexivity]. cbn [lift3]. now rewrite remove_names.
    + destruct d; [|reflexivity]. destruct fs; reflexivity.
    + destruct d; [|reflexivity]. destruct fs; reflexivity.
  - reflexivity.
  - reflexivity.
  - reflexivity.
Qed.

(* ---- states *)

(* the state over names ns shows the state over owners s *)
Definition shows (ns : nstate) (s : state) : Prop :=
  (forall k, ndir ns k = dir s k) /\ (forall k, nfiles ns k = map nm (files s k)) /\
  (forall p, nlocal ns p = local_of s p).

Lemma shows_init : shows (ninit no_junk) init.
Proof. repeat split. Qed.

Lemma shows_step fx fr ns s p c :
  shows ns s -> shows (nstep fx fr cfg usr ns p c) (step_gen fx fr cfg s p c).
Proof.
  intros (HD & HF & HL). unfold nstep, step_gen. rewrite HL.
  destruct (nth_error (path_of cfg p) (widx (local_of s p))) as [k|].
  - rewrite HD, HF, nnext_refines.
    destruct (next fx fr cfg (dir s k) (files s k) (local_of s p) p c) as [[d' fs'] lo']. cbn [lift3].
    repeat split; cbn [ndir nfiles nlocal]; intro x.
    + cbn [put write dir]. unfold upd. destruct (Nat.eqb x k); [reflexivity | apply HD].
    + cbn [put write files]. unfold upd. destruct (Nat.eqb x k); [reflexivity | apply HF].
    + unfold upd. destruct (Nat.eqb x p) eqn:E.
      * apply Nat.eqb_eq in E. subst x. now rewrite local_put_same.
      * apply Nat.eqb_neq in E. rewrite local_put_other by exact E. rewrite local_write. apply HL.
  - repeat split; cbn [ndir nfiles nlocal]; intro x.
    + apply HD.
    + apply HF.
    + unfold upd. destruct (Nat.eqb x p) eqn:E.
      * apply Nat.eqb_eq in E. subst x. now rewrite local_put_same.
      * apply Nat.eqb_neq in E. rewrite local_put_other by exact E. apply HL.
Qed.

Lemma nreachable_shows fx fr ns :
  nreachable fx fr cfg usr no_junk ns -> exists s, reachable_gen fx fr cfg s /\ shows ns s.
Proof.
  induction 1 as [|ns p c _ (s & R & S)].
  - exists init. split; [constructor | apply shows_init].
  - exists (step_gen fx fr cfg s p c). split; [now constructor | now apply shows_step].
Qed.

Lemma shows_holds ns s p : shows ns s -> nholdsb ns p = holdsb s p.
Proof. intros (_ & _ & HL). unfold nholdsb, holdsb. now rewrite HL. Qed.

End Queries.

(* mutual exclusion of the protocol over names: whatever the login names of the processes *)
Lemma mutex_named_proof cfg usr ns p q k :
  wf cfg -> users_ok usr -> nreachable true true cfg usr no_junk ns ->
  nholds ns p -> nholds ns q -> p <> q -> ~ related cfg p q ->
  In k (path_of cfg p) -> In k (path_of cfg q) ->
  kind_of cfg p = Sh /\ kind_of cfg q = Sh.
Proof.
  intros WF U R Hp Hq Hpq Hrel Kp Kq.
  destruct (nreachable_shows cfg usr U true true ns R) as (s & Rs & S).
  unfold nholds in Hp, Hq. rewrite (shows_holds cfg usr ns s p S) in Hp. rewrite (shows_holds cfg usr ns s q S) in Hq.
  exact (mutex_proof true cfg s p q k WF Rs Hp Hq Hpq Hrel Kp Kq).
Qed.

(* an exclusive lock file is seen by the scan of every reader, whoever owns it: if the directory holds the
   lock file of an exclusive process q, a shared requester p that is not q's child does not get past its
   first scan nor past its second look *)
Lemma exclusive_seen cfg usr p q fs :
  users_ok usr -> In q fs -> kind_of cfg q = Ex -> kind_of cfg p = Sh -> q <> p -> root_of cfg p <> Some q ->
  list_lockers PExcl [] (map (myname cfg usr) fs) <> [] /\ n_conflict cfg p (map (myname cfg usr) fs) = true.
Proof.
  intros U Hin Kq Kp Hne Hroot. split.
  - rewrite (list_excl cfg usr U). intro H. apply map_eq_nil in H.
    assert (I : In q (filter (isEx cfg) fs)) by (apply filter_In; split; [exact Hin | unfold isEx; now rewrite Kq]).
    rewrite H in I. destruct I.
  - rewrite (n_conflict_names cfg usr U). apply (conflict_if_other cfg p q fs); auto.
Qed.
