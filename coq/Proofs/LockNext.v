(* C09 - the local lemmas: what one call [next] of one process does to the stack it is working on and
   to the private state of that process.  Each is a case analysis of [next] down to the helper functions
   (raise_, retry, advance, give_next, give_crash, give_race, begin_release), whose relevant facts are
   proved first, so that no case split is larger than the text of [next]. *)
From Eupsv Require Import Base.Base Model.Lock Proofs.LockLib.
From Coq Require Import Lia.

(* ---- classification of program counters *)

Definition gfile (g : gstep) : bool := match g with GIsdir | GExistsF | GRemove => true | _ => false end.

(* the positions of its path at which the process has its lock file in place *)
Definition owns (lo : local) (x : nat) : bool :=
  match lpc lo with
  | LValidate => x <=? lnl lo
  | LGive GBackoff g => if gfile g then x <=? lnl lo else x <? lnl lo
  | LGive _ g => (if gfile g then lcur lo <=? x else lcur lo <? x) && (x <? lnl lo)
  | LDone | LFailed | LCrashed => (lcur lo <=? x) && (x <? lnl lo)
  | _ => x <? lnl lo
  end.

(* the positions at which the lock is validated and kept: the process is still acquiring later stacks,
   or holds *)
Definition firm (lo : local) (x : nat) : bool :=
  match lpc lo with
  | LMkdir | LListAll | LListAll2 | LExists | LScanX | LScanX2 | LCreate | LValidate | LHeld
  | LGive GBackoff _ => x <? lnl lo
  | _ => false
  end.

(* the lock file on the stack being acquired exists but the second look has not cleared it *)
Definition unvalidated (l : loc) : bool :=
  match l with
  | LValidate | LGive GBackoff GIsdir | LGive GBackoff GExistsF | LGive GBackoff GRemove => true
  | _ => false
  end.

(* program counters of a process that is bound to create a file on the stack it is working on, or to
   remove that stack's lock directory if it is empty, before it does anything else *)
Definition resp (l : loc) : bool :=
  match l with
  | LScanX | LCreate | LGive _ GCount | LGive _ GRmdir => true
  | _ => false
  end.

Definition terminal (l : loc) : bool :=
  match l with LDone | LFailed | LCrashed => true | _ => false end.

(* ---- boolean arithmetic *)

Ltac b2p :=
  repeat match goal with
  | H : _ && _ = true |- _ => apply andb_true_iff in H; destruct H
  | H : (_ <? _) = true |- _ => apply Nat.ltb_lt in H
  | H : (_ <? _) = false |- _ => apply Nat.ltb_ge in H
  | H : (_ <=? _) = true |- _ => apply Nat.leb_le in H
  | H : (_ <=? _) = false |- _ => apply Nat.leb_gt in H
  | H : (_ =? _) = true |- _ => apply Nat.eqb_eq in H
  | H : (_ =? _) = false |- _ => apply Nat.eqb_neq in H
  end.

Ltac bdestr :=
  repeat match goal with
  | |- context [?a <? ?b] => destruct (a <? b) eqn:?
  | |- context [?a <=? ?b] => destruct (a <=? b) eqn:?
  | |- context [?a =? ?b] => destruct (a =? b) eqn:?
  end.

Ltac barith := cbn [andb orb negb]; bdestr; cbn [andb orb negb]; b2p; try reflexivity; try discriminate; try lia.

(* ---- the helper functions *)

Section Helpers.
Variables (fx fr : bool) (cfg : config).

Ltac unf := unfold raise_, retry, advance, give_next, give_crash, give_race, begin_release, final_clean, setpc.

Ltac hsplit :=
  repeat match goal with
  | |- context [if ?b then _ else _] => destruct b eqn:?
  | |- context [match ?x with _ => _ end] => destruct x eqn:?
  end.

(* ownership after each helper *)
Lemma owns_raise c lo x : owns (raise_ fr c lo) x = (x <? lnl lo).
Proof. unfold raise_, final_clean. destruct fr, c; hsplit; unfold owns; cbn [lpc ltry lnl lcur gfile]; barith. Qed.

Lemma owns_retry p lo x : owns (retry fr cfg p lo) x = (x <? lnl lo).
Proof. unfold retry. destruct (ltry lo =? ntry_of cfg p); [apply owns_raise | reflexivity]. Qed.

Lemma owns_advance p lo x : owns (advance cfg p lo) x = (x <=? lnl lo).
Proof. unfold advance. hsplit; unfold owns; cbn [lpc ltry lnl lcur gfile]; barith. Qed.

Lemma owns_give_next m p lo x :
  owns (give_next fr cfg m p lo) x =
  match m with GBackoff => x <? lnl lo | _ => (S (lcur lo) <=? x) && (x <? lnl lo) end.
Proof.
  unfold give_next. destruct m.
  - destruct (S (lcur lo) <? lnl lo) eqn:E; unfold owns, final_clean; cbn [lpc ltry lnl lcur gfile]; barith.
  - destruct (kind_of cfg p); [apply owns_raise | apply owns_retry].
  - destruct (S (lcur lo) <? lnl lo) eqn:E; unfold owns, final_clean; [|destruct crashed]; cbn [lpc ltry lnl lcur gfile]; barith.
Qed.

Lemma owns_give_crash m lo x :
  owns (give_crash fr m lo) x =
  match m with GBackoff => x <? lnl lo | _ => (S (lcur lo) <=? x) && (x <? lnl lo) end.
Proof. unfold give_crash. destruct m; try apply owns_raise; unfold owns; cbn [lpc ltry lnl lcur gfile]; barith. Qed.

Lemma owns_give_race m p lo x :
  owns (give_race fx fr cfg m p lo) x =
  match m with GBackoff => x <? lnl lo | _ => (S (lcur lo) <=? x) && (x <? lnl lo) end.
Proof. unfold give_race. destruct fx; [apply owns_give_next | apply owns_give_crash]. Qed.

Lemma owns_begin_release lo x : owns (begin_release lo) x = (x <? lnl lo).
Proof. unfold begin_release, final_clean. hsplit; unfold owns; cbn [lpc ltry lnl lcur gfile]; barith. Qed.

(* none of the helpers leaves the process responsible or with an unvalidated file *)
Lemma lpc_raise c lo :
  let l := lpc (raise_ fr c lo) in resp l = false /\ unvalidated l = false /\ l <> LHeldNoLock /\ l <> LHeld.
Proof. unfold raise_, final_clean. destruct fr, c; hsplit; cbn; repeat split; discriminate. Qed.

Lemma lpc_retry p lo :
  let l := lpc (retry fr cfg p lo) in resp l = false /\ unvalidated l = false /\ l <> LHeldNoLock /\ l <> LHeld.
Proof.
  unfold retry. destruct (ltry lo =? ntry_of cfg p); [apply lpc_raise|].
  cbn. repeat split; discriminate.
Qed.

Lemma lpc_advance p lo :
  let l := lpc (advance cfg p lo) in resp l = false /\ unvalidated l = false /\ l <> LHeldNoLock.
Proof. unfold advance. hsplit; cbn; repeat split; discriminate. Qed.

Lemma lpc_give_next m p lo :
  let l := lpc (give_next fr cfg m p lo) in resp l = false /\ unvalidated l = false /\ l <> LHeldNoLock /\ l <> LHeld.
Proof.
  unfold give_next. destruct m.
  - hsplit; cbn; repeat split; discriminate.
  - destruct (kind_of cfg p); [apply lpc_raise | apply lpc_retry].
  - unfold final_clean. hsplit; cbn; repeat split; discriminate.
Qed.

Lemma lpc_give_crash m lo :
  let l := lpc (give_crash fr m lo) in resp l = false /\ unvalidated l = false /\ l <> LHeldNoLock /\ l <> LHeld.
Proof. unfold give_crash. destruct m; try apply lpc_raise; cbn; repeat split; discriminate. Qed.

Lemma lpc_give_race m p lo :
  let l := lpc (give_race fx fr cfg m p lo) in resp l = false /\ unvalidated l = false /\ l <> LHeldNoLock /\ l <> LHeld.
Proof. unfold give_race. destruct fx; [apply lpc_give_next | apply lpc_give_crash]. Qed.

Lemma lpc_begin_release lo :
  let l := lpc (begin_release lo) in resp l = false /\ unvalidated l = false /\ l <> LHeldNoLock /\ l <> LHeld.
Proof. unfold begin_release, final_clean. hsplit; cbn; repeat split; discriminate. Qed.

(* firmness after the helpers *)
Lemma firm_raise c lo x : firm (raise_ fr c lo) x = false.
Proof. unfold raise_, final_clean. destruct fr, c; hsplit; reflexivity. Qed.

Lemma firm_retry p lo x : firm (retry fr cfg p lo) x = true -> x < lnl lo.
Proof.
  unfold retry. destruct (ltry lo =? ntry_of cfg p); [rewrite firm_raise; discriminate|].
  unfold firm. cbn [lpc ltry lnl lcur]. intro H. now apply Nat.ltb_lt.
Qed.

Lemma firm_advance p lo x : firm (advance cfg p lo) x = true -> x <= lnl lo.
Proof. unfold advance. hsplit; unfold firm; cbn [lpc ltry lnl lcur]; intro H; apply Nat.ltb_lt in H; lia. Qed.

Lemma firm_give_next m p lo x : firm (give_next fr cfg m p lo) x = true -> m = GBackoff /\ x < lnl lo.
Proof.
  unfold give_next. destruct m.
  - unfold final_clean. hsplit; unfold firm; cbn [lpc ltry lnl lcur]; discriminate.
  - destruct (kind_of cfg p); [rewrite firm_raise; discriminate|]. intro H. split; [reflexivity|].
    now apply firm_retry in H.
  - unfold final_clean. hsplit; unfold firm; cbn [lpc ltry lnl lcur]; discriminate.
Qed.

Lemma firm_give_crash m lo x : firm (give_crash fr m lo) x = false.
Proof. unfold give_crash. destruct m; try apply firm_raise; reflexivity. Qed.

Lemma firm_give_race m p lo x : firm (give_race fx fr cfg m p lo) x = true -> m = GBackoff /\ x < lnl lo.
Proof. unfold give_race. destruct fx; [apply firm_give_next | rewrite firm_give_crash; discriminate]. Qed.

Lemma firm_begin_release lo x : firm (begin_release lo) x = false.
Proof. unfold begin_release, final_clean. hsplit; reflexivity. Qed.

(* the number of locked stacks never exceeds the length of the path *)
Lemma lnl_raise c lo : lnl (raise_ fr c lo) <= lnl lo.
Proof. unfold raise_, final_clean. destruct fr, c; hsplit; cbn; lia. Qed.

Lemma lnl_retry p lo : lnl (retry fr cfg p lo) <= lnl lo.
Proof. unfold retry. destruct (ltry lo =? ntry_of cfg p); [apply lnl_raise | cbn; lia]. Qed.

Lemma lnl_advance p lo :
  lnl (advance cfg p lo) = S (lnl lo) /\
  (lpc (advance cfg p lo) = LHeld -> S (lnl lo) = length (path_of cfg p)).
Proof.
  unfold advance. destruct (S (lnl lo) =? length (path_of cfg p)) eqn:E; cbn.
  - apply Nat.eqb_eq in E. auto.
  - split; [reflexivity | discriminate].
Qed.

Lemma lnl_give_next m p lo : lnl (give_next fr cfg m p lo) <= lnl lo.
Proof.
  unfold give_next, final_clean. destruct m.
  - hsplit; cbn; lia.
  - destruct (kind_of cfg p); [apply lnl_raise | apply lnl_retry].
  - hsplit; cbn; lia.
Qed.

Lemma lnl_give_crash m lo : lnl (give_crash fr m lo) <= lnl lo.
Proof. unfold give_crash. destruct m; try apply lnl_raise; cbn; lia. Qed.

Lemma lnl_give_race m p lo : lnl (give_race fx fr cfg m p lo) <= lnl lo.
Proof. unfold give_race. destruct fx; [apply lnl_give_next | apply lnl_give_crash]. Qed.

Lemma lnl_begin_release lo : lnl (begin_release lo) <= lnl lo.
Proof. unfold begin_release, final_clean. hsplit; cbn; lia. Qed.

(* an end reached through a helper owns nothing: always for the clean ends; for raise_ when the stacks are
   given back first (fr) or when nothing was locked yet *)
Definition clean (lo : local) : Prop := terminal (lpc lo) = true -> lnl lo <= lcur lo.

Lemma clean_raise c lo : fr = true \/ lnl lo = 0 -> clean (raise_ fr c lo).
Proof.
  unfold raise_, final_clean, clean. intros [->|H].
  - destruct c; hsplit; cbn; intros; try discriminate; lia.
  - destruct fr, c; hsplit; cbn; intros; try discriminate; lia.
Qed.

Lemma clean_retry p lo : fr = true \/ lnl lo = 0 -> clean (retry fr cfg p lo).
Proof.
  intro H. unfold retry. destruct (ltry lo =? ntry_of cfg p); [now apply clean_raise|].
  unfold clean. cbn. discriminate.
Qed.

Lemma clean_advance p lo : clean (advance cfg p lo).
Proof. unfold advance, clean. hsplit; cbn; discriminate. Qed.

Lemma clean_give_next m p lo : fr = true \/ lnl lo = 0 -> clean (give_next fr cfg m p lo).
Proof.
  intro H. unfold give_next, final_clean. destruct m.
  - unfold clean. hsplit; cbn; intros; try discriminate; lia.
  - destruct (kind_of cfg p); [now apply clean_raise | now apply clean_retry].
  - unfold clean. hsplit; cbn; intros; try discriminate; lia.
Qed.

Lemma clean_begin_release lo : clean (begin_release lo).
Proof. unfold begin_release, final_clean, clean. hsplit; cbn; intros; try discriminate; lia. Qed.

(* the helpers other than give_next in release mode do not move the process to another stack, as far as
   responsibility is concerned: nothing to say, they are never responsible (lpc_* above) *)

End Helpers.

(* ---- case analysis of [next]: destruct the private state, the program counter, then every test the
   branch makes; the helper functions stay folded *)

Ltac next_cases N :=
  unfold next in N;
  repeat (cbv beta iota in N; cbn [lpc ltry lnl lcur] in N;
          match type of N with
          | context [match ?x with _ => _ end] =>
              match x with
              | _ => is_var x; destruct x
              | _ => let E := fresh "E" in destruct x eqn:E
              end
          end);
  cbv beta iota in N; inversion N; subst; clear N.

Ltac dm := repeat match goal with m : gmode |- _ => destruct m end.

Ltac bool_facts :=
  repeat match goal with
  | H : _ && _ = true |- _ => apply andb_true_iff in H; destruct H
  | H : _ && _ = false |- _ => apply andb_false_iff in H
  | H : mem _ _ = true |- _ => apply mem_In in H
  | H : mem _ _ = false |- _ => apply mem_false in H
  end.

Lemma filter_nonempty {A} (f : A -> bool) l : filter f l <> [] -> l <> [].
Proof. intros H E. subst. now apply H. Qed.

Section Next.
Variables (fx fr : bool) (cfg : config).
Notation nxt := (next fx fr cfg).

(* how the set of lock files of the stack can change *)
Lemma next_files d fs lo p c d' fs' lo' :
  nxt d fs lo p c = (d', fs', lo') ->
  fs' = fs \/
  (lpc lo = LCreate /\ d = true /\ fs' = add p fs /\ widx lo = lnl lo) \/
  (exists m, lpc lo = LGive m GRemove /\ In p fs /\ fs' = rem p fs /\
             resp (lpc lo') = true /\ widx lo' = widx lo).
Proof.
  intro N. destruct lo as [l i n j]. next_cases N; bool_facts;
    first [ now left | right; left; now auto
          | right; right; eexists; repeat split; try eassumption; try reflexivity; dm; reflexivity ].
Qed.

(* how the existence of the lock directory can change *)
Lemma next_dir d fs lo p c d' fs' lo' :
  nxt d fs lo p c = (d', fs', lo') ->
  d' = d \/
  (lpc lo = LMkdir /\ d = false /\ d' = true /\ resp (lpc lo') = true /\ widx lo' = widx lo /\ fs' = fs) \/
  (exists m, lpc lo = LGive m GRmdir /\ d = true /\ fs = [] /\ d' = false /\ fs' = []).
Proof.
  intro N. destruct lo as [l i n j]. next_cases N; bool_facts;
    first [ now left | right; left; now auto 10 | right; right; eexists; now eauto 10 ].
Qed.

(* a responsible process stays responsible for the same stack, or leaves a file behind, as long as the
   directory exists *)
Lemma next_resp d fs lo p c d' fs' lo' :
  nxt d fs lo p c = (d', fs', lo') ->
  resp (lpc lo) = true -> d = true -> d' = true ->
  fs' <> [] \/ (resp (lpc lo') = true /\ widx lo' = widx lo).
Proof.
  intros N R D D'. destruct lo as [l i n j]. next_cases N; cbn in R; try discriminate;
    first [ right; split; reflexivity
          | left; apply add_nonempty
          | left; discriminate
          | left; eapply filter_nonempty; rewrite E; discriminate ].
Qed.

(* conversely a process that becomes responsible does so for the stack it was working on *)
Lemma next_resp_widx d fs lo p c d' fs' lo' :
  nxt d fs lo p c = (d', fs', lo') -> resp (lpc lo') = true -> widx lo' = widx lo.
Proof.
  intros N R. destruct lo as [l i n j]. next_cases N; try reflexivity; exfalso;
    first [ rewrite (proj1 (lpc_raise fr _ _)) in R
          | rewrite (proj1 (lpc_retry fr cfg _ _)) in R
          | rewrite (proj1 (lpc_advance cfg _ _)) in R
          | rewrite (proj1 (lpc_give_next fr cfg _ _ _)) in R
          | rewrite (proj1 (lpc_give_crash fr _ _)) in R
          | rewrite (proj1 (lpc_give_race fx fr cfg _ _ _)) in R
          | rewrite (proj1 (lpc_begin_release _)) in R
          | cbn in R ]; discriminate.
Qed.

(* ownership at the positions the step is not about does not change *)
Lemma next_owns_other d fs lo p c d' fs' lo' x :
  nxt d fs lo p c = (d', fs', lo') -> x <> widx lo -> owns lo' x = owns lo x.
Proof.
  intros N Hx. destruct lo as [l i n j]. next_cases N; dm;
    rewrite ?owns_raise, ?owns_retry, ?owns_advance, ?owns_give_next, ?owns_give_crash, ?owns_give_race,
            ?owns_begin_release;
    unfold owns, widx in *; cbn [lpc ltry lnl lcur setpc gfile] in *; try reflexivity; barith.
Qed.

(* ownership at the position the step is about follows the lock file *)
Lemma next_I1 d fs lo p c d' fs' lo' :
  nxt d fs lo p c = (d', fs', lo') ->
  (owns lo (widx lo) = true -> In p fs) -> owns lo' (widx lo) = true -> In p fs'.
Proof.
  intros N H1 H. destruct lo as [l i n j]. next_cases N; dm;
    rewrite ?owns_raise, ?owns_retry, ?owns_advance, ?owns_give_next, ?owns_give_crash, ?owns_give_race,
            ?owns_begin_release in H;
    unfold owns, widx in *; cbn [lpc ltry lnl lcur setpc gfile] in *;
    first [ apply in_add; now left
          | apply H1; revert H; barith
          | exfalso; revert H; barith ].
Qed.

Lemma next_I2 d fs lo p c d' fs' lo' :
  nxt d fs lo p c = (d', fs', lo') ->
  (In p fs -> owns lo (widx lo) = true) -> (In p fs -> d = true) -> In p fs' -> owns lo' (widx lo) = true.
Proof.
  intros N H2 H0 Hin. destruct lo as [l i n j]. next_cases N; dm; bool_facts;
    rewrite ?owns_raise, ?owns_retry, ?owns_advance, ?owns_give_next, ?owns_give_crash, ?owns_give_race,
            ?owns_begin_release;
    try (exfalso; now apply (not_in_rem p fs));
    try (specialize (H0 Hin); discriminate);
    try (exfalso; match goal with H : _ \/ _ |- _ => destruct H as [H|H]; bool_facts end;
         [ specialize (H0 Hin); congruence | contradiction ]);
    try (specialize (H2 Hin));
    unfold owns, widx in *; cbn [lpc ltry lnl lcur setpc gfile] in *;
    try reflexivity; try (revert H2; barith); barith.
Qed.

(* the bound on the number of locked stacks *)
Lemma next_IW d fs lo p c d' fs' lo' :
  nxt d fs lo p c = (d', fs', lo') ->
  widx lo < length (path_of cfg p) -> lnl lo <= length (path_of cfg p) ->
  (lpc lo = LHeld -> lnl lo = length (path_of cfg p)) ->
  lnl lo' <= length (path_of cfg p) /\ (lpc lo' = LHeld -> lnl lo' = length (path_of cfg p)).
Proof.
  intros N W L H. destruct lo as [l i n j]. unfold widx in W. cbn [lpc ltry lnl lcur] in *.
  next_cases N; cbn [lpc ltry lnl lcur setpc] in *;
    try (split; [assumption | first [assumption | discriminate]]);
    try (match goal with |- context [raise_ ?a ?b ?c] =>
           pose proof (lnl_raise a b c); destruct (lpc_raise a b c) as (_ & _ & _ & ?) end;
         cbn [lnl] in *; split; [lia | intro; contradiction]);
    try (match goal with |- context [retry ?a ?b ?c ?d] =>
           pose proof (lnl_retry a b c d); destruct (lpc_retry a b c d) as (_ & _ & _ & ?) end;
         cbn [lnl] in *; split; [lia | intro; contradiction]);
    try (match goal with |- context [give_next ?a ?b ?c ?d ?e] =>
           pose proof (lnl_give_next a b c d e); destruct (lpc_give_next a b c d e) as (_ & _ & _ & ?) end;
         cbn [lnl] in *; split; [lia | intro; contradiction]);
    try (match goal with |- context [give_crash ?a ?b ?c] =>
           pose proof (lnl_give_crash a b c); destruct (lpc_give_crash a b c) as (_ & _ & _ & ?) end;
         cbn [lnl] in *; split; [lia | intro; contradiction]);
    try (match goal with |- context [give_race ?a ?b ?c ?d ?e ?f] =>
           pose proof (lnl_give_race a b c d e f); destruct (lpc_give_race a b c d e f) as (_ & _ & _ & ?) end;
         cbn [lnl] in *; split; [lia | intro; contradiction]);
    try (match goal with |- context [begin_release ?a] =>
           pose proof (lnl_begin_release a); destruct (lpc_begin_release a) as (_ & _ & _ & ?) end;
         cbn [lnl] in *; split; [lia | intro; contradiction]);
    try (match goal with |- context [advance ?a ?b ?c] => destruct (lnl_advance a b c) as [A1 A2] end;
         cbn [lnl] in *; split; [lia | intro HH; rewrite A1; apply A2; exact HH]).
Qed.

End Next.
