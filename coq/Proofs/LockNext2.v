(* C09 - local lemmas, second part: the facts about one call that need the second look (fx = true) and,
   for the clean ends, the release on failure (fr = true); and the steps that concern no stack. *)
From Eupsv Require Import Base.Base Model.Lock Proofs.LockLib Proofs.LockNext.
From Coq Require Import Lia.

Section NextFx.
Variables (fr : bool) (cfg : config).
Notation nxt := (next true fr cfg).

Lemma next_IN d fs lo p c d' fs' lo' :
  nxt d fs lo p c = (d', fs', lo') -> lpc lo <> LHeldNoLock -> lpc lo' <> LHeldNoLock.
Proof.
  intros N H. destruct lo as [l i n j]. cbn [lpc] in H. next_cases N; cbn [lpc setpc]; try discriminate;
    try assumption;
    first [ apply (lpc_raise fr) | apply (lpc_retry fr cfg) | apply (lpc_advance cfg)
          | apply (lpc_give_next fr cfg) | apply (lpc_give_crash fr) | apply (lpc_give_race true fr cfg)
          | apply lpc_begin_release ].
Qed.

(* a lock becomes firm only through a second look that saw no incompatible lock *)
Lemma next_firm d fs lo p c d' fs' lo' x :
  nxt d fs lo p c = (d', fs', lo') -> firm lo' x = true ->
  firm lo x = true \/
  (lpc lo = LValidate /\ x = lnl lo /\ widx lo = lnl lo /\ conflict cfg p fs = false /\ fs' = fs).
Proof.
  intros N F. destruct lo as [l i n j]. next_cases N; dm;
    try (rewrite firm_raise in F; discriminate);
    try (rewrite firm_give_crash in F; discriminate);
    try (rewrite firm_begin_release in F; discriminate);
    try (apply firm_retry in F; cbn [lnl] in F; left; unfold firm; cbn [lpc lnl]; now apply Nat.ltb_lt);
    try (apply firm_give_next in F; destruct F as [F1 F2]; try discriminate; cbn [lnl] in F2; left;
         unfold firm; cbn [lpc lnl]; now apply Nat.ltb_lt);
    try (apply firm_give_race in F; destruct F as [F1 F2]; try discriminate; cbn [lnl] in F2; left;
         unfold firm; cbn [lpc lnl]; now apply Nat.ltb_lt);
    try (apply firm_advance in F; cbn [lnl] in F; destruct (Nat.eq_dec x n) as [->|Hne];
         [ right; repeat split; assumption
         | left; unfold firm; cbn [lpc lnl]; apply Nat.ltb_lt; lia ]);
    try (left; exact F);
    try (unfold firm in F; cbn [lpc lnl setpc] in F; discriminate).
Qed.

(* a process whose file on the stack is visible while an incompatible lock on that stack is firm cannot get
   past its second look: it stays on that stack, unvalidated, until it has removed the file *)
Lemma next_pending d fs lo p c d' fs' lo' :
  nxt d fs lo p c = (d', fs', lo') ->
  (In p fs -> unvalidated (lpc lo) = true) -> (In p fs -> d = true) -> conflict cfg p fs = true ->
  In p fs' -> unvalidated (lpc lo') = true /\ lnl lo' = lnl lo /\ widx lo = lnl lo.
Proof.
  intros N HU H0 HC Hin. destruct lo as [l i n j]. next_cases N; dm; bool_facts;
    try (repeat split; reflexivity);
    try congruence;
    try (exfalso; now apply (not_in_rem p fs));
    try (specialize (HU Hin); cbn in HU; discriminate);
    try (specialize (H0 Hin); discriminate);
    try (exfalso; match goal with H : _ \/ _ |- _ => destruct H as [H|H]; bool_facts end;
         [ specialize (H0 Hin); congruence | contradiction ]).
Qed.

End NextFx.

(* with both repairs a process that has ended owns nothing *)
Lemma clean_give_next_rel cfg m p lo : m <> GBackoff -> clean (give_next true cfg m p lo).
Proof.
  intro H. unfold give_next, final_clean, clean. destruct m; try contradiction;
    repeat match goal with |- context [if ?b then _ else _] => destruct b eqn:? end;
    cbn; intros; try discriminate; lia.
Qed.

Lemma next_clean cfg d fs lo p c d' fs' lo' :
  next true true cfg d fs lo p c = (d', fs', lo') ->
  clean lo -> (owns lo (widx lo) = true -> In p fs) -> (In p fs -> d = true) -> clean lo'.
Proof.
  intros N C H1 H0. destruct lo as [l i n j]. next_cases N; unfold give_race;
    try (apply clean_raise; now left);
    try (apply clean_retry; now left);
    try apply clean_advance;
    try (apply clean_give_next; now left);
    try apply clean_begin_release;
    try exact C;
    try (unfold clean; cbn [lpc setpc terminal]; discriminate);
    try (unfold clean; cbn [lpc setpc terminal]; destruct (only_root cfg p fs'); discriminate);
    try (unfold clean; cbn [lpc setpc terminal]; destruct (d' && mem p fs'); discriminate);
    try (unfold clean, final_clean;
         repeat match goal with |- context [if ?b then _ else _] => destruct b end;
         cbn [lpc lnl lcur terminal]; intros; try discriminate; lia).
  (* the lock file giveLocks is about to remove is not there: excluded by the invariants *)
  unfold give_crash. destruct m.
  - unfold clean. cbn [lpc lnl lcur terminal]. intros _.
    unfold owns, widx in H1. cbn [lpc lnl lcur gfile] in H1.
    destruct (j <? n) eqn:Ej; [|apply Nat.ltb_ge in Ej; lia].
    assert (Hin : In p fs') by (apply H1; rewrite Nat.leb_refl; reflexivity).
    specialize (H0 Hin). apply mem_In in Hin. rewrite H0, Hin in E. discriminate.
  - apply clean_raise. now left.
  - unfold clean. cbn [lpc lnl lcur terminal]. intros _.
    unfold owns, widx in H1. cbn [lpc lnl lcur gfile] in H1.
    destruct (j <? n) eqn:Ej; [|apply Nat.ltb_ge in Ej; lia].
    assert (Hin : In p fs') by (apply H1; rewrite Nat.leb_refl; reflexivity).
    specialize (H0 Hin). apply mem_In in Hin. rewrite H0, Hin in E. discriminate.
Qed.

(* ---- the steps that concern no stack *)

Lemma owns_nostack lo x : owns (nostack lo) x = owns lo x.
Proof.
  destruct lo as [l i n j]. unfold nostack. cbn [lpc]. destruct l; try reflexivity;
    rewrite ?owns_begin_release; unfold owns; cbn [lpc lnl setpc]; reflexivity.
Qed.

Lemma firm_nostack lo x : firm (nostack lo) x = true -> firm lo x = true.
Proof.
  destruct lo as [l i n j]. unfold nostack. cbn [lpc]. destruct l; try (intro H; exact H);
    rewrite ?firm_begin_release; try discriminate.
Qed.

Lemma nostack_same lo : resp (lpc lo) = true \/ unvalidated (lpc lo) = true -> nostack lo = lo.
Proof. destruct lo as [l i n j]. unfold nostack. cbn [lpc]. destruct l; cbn; intros [H|H]; try discriminate; reflexivity. Qed.

Lemma nostack_lpc lo :
  resp (lpc (nostack lo)) = true \/ unvalidated (lpc (nostack lo)) = true -> nostack lo = lo.
Proof.
  destruct lo as [l i n j]. unfold nostack. cbn [lpc]. destruct l; cbn [lpc setpc]; try reflexivity;
    destruct (lpc_begin_release {| lpc := LHeld; ltry := i; lnl := n; lcur := j |}) as (A & B & _);
    destruct (lpc_begin_release {| lpc := LHeldNoLock; ltry := i; lnl := n; lcur := j |}) as (A' & B' & _);
    cbn in *; intros [H|H]; try discriminate;
    unfold begin_release in *; cbn [lnl] in *; congruence.
Qed.

Lemma nostack_IN lo : lpc lo <> LHeldNoLock -> lpc (nostack lo) <> LHeldNoLock.
Proof.
  destruct lo as [l i n j]. unfold nostack. cbn [lpc]. destruct l; cbn [lpc setpc]; try discriminate;
    try (intro H; exact H); intros _; apply lpc_begin_release.
Qed.

Lemma clean_nostack lo : clean lo -> clean (nostack lo).
Proof.
  destruct lo as [l i n j]. unfold nostack. cbn [lpc]. destruct l; try (intro H; exact H);
    intros _; try apply clean_begin_release; unfold clean; cbn; discriminate.
Qed.

Lemma nostack_IW cfg p lo :
  nth_error (path_of cfg p) (widx lo) = None -> lnl lo <= length (path_of cfg p) ->
  (lpc lo = LHeld -> lnl lo = length (path_of cfg p)) ->
  lnl (nostack lo) <= length (path_of cfg p) /\ (lpc (nostack lo) = LHeld -> lnl (nostack lo) = length (path_of cfg p)).
Proof.
  intros W L H. apply nth_error_None in W. destruct lo as [l i n j]. unfold nostack, widx in *.
  cbn [lpc lnl lcur] in *. destruct l; cbn [lpc lnl setpc]; try (split; [assumption | first [assumption | discriminate]]).
  - split; [assumption | intros _; lia].
  - pose proof (lnl_begin_release {| lpc := LHeld; ltry := i; lnl := n; lcur := j |}) as A.
    destruct (lpc_begin_release {| lpc := LHeld; ltry := i; lnl := n; lcur := j |}) as (_ & _ & _ & B).
    cbn [lnl] in A. split; [lia | intro; contradiction].
  - pose proof (lnl_begin_release {| lpc := LHeldNoLock; ltry := i; lnl := n; lcur := j |}) as A.
    destruct (lpc_begin_release {| lpc := LHeldNoLock; ltry := i; lnl := n; lcur := j |}) as (_ & _ & _ & B).
    cbn [lnl] in A. split; [lia | intro; contradiction].
Qed.
