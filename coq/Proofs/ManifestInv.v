(* C18: Mapping.inverse. *)
From Coq Require Import Lia.
From Eupsv Require Import Base.Base Base.BaseLemmas Model.Manifest Model.ManifestSpec
  Proofs.ManifestLib Proofs.ManifestMap.

(* ------------------------------------------------------------------ lookups *)

Lemma m_exists1_mget m p v f :
  m_exists1 m p v f = match mget (mp_map m) f p v with Some _ => true | None => false end.
Proof.
  unfold m_exists1, mget, group_val, mgroup, amem.
  destruct (alookup f (mp_map m)) as [pm|]; [|reflexivity]. destruct (alookup p pm); reflexivity.
Qed.

Lemma mget_fm_add_set fm inP inV outP c w fl f p k :
  mget (fm_add fm inP inV outP (Some (c :: w)) fl true) f p k =
  if str_eqb f fl && str_eqb p inP && str_eqb k inV then Some (outP, c :: w) else mget fm f p k.
Proof.
  unfold mget, group_val at 1. rewrite mgroup_fm_add.
  destruct (str_eqb_spec f fl) as [->|Hf]; cbn [andb]; [|reflexivity].
  destruct (str_eqb_spec p inP) as [->|Hp]; cbn [andb]; [|reflexivity].
  destruct (str_eqb_spec k inV) as [->|Hk].
  - now rewrite alookup_aset_same.
  - now rewrite alookup_aset_other.
Qed.

Definition clean (fm : fmap) : Prop := forall f p, mgroup fm f p <> Some [].

Lemma aset_nonnil {V} k (v : V) m : aset k v m <> [].
Proof. destruct m as [|[k' v'] m]; cbn [aset]; [discriminate|]. destruct (str_eqb k k'); discriminate. Qed.

Lemma clean_fm_add_set fm inP inV outP c w fl :
  clean fm -> clean (fm_add fm inP inV outP (Some (c :: w)) fl true).
Proof.
  intros H f p. rewrite mgroup_fm_add. destruct (str_eqb f fl && str_eqb p inP); [|apply H].
  intros [= E]. now apply aset_nonnil in E.
Qed.

Lemma clean_empty : clean [].
Proof. intros f p. discriminate. Qed.

(* ------------------------------------------------------------------ the rows of a mapping *)

Definition fm_nodup (fm : fmap) : Prop :=
  NoDup (akeys fm) /\
  forall f pm, In (f, pm) fm -> NoDup (akeys pm) /\ forall p vm, In (p, vm) pm -> NoDup (akeys vm).

Lemma In_NoDup_alookup {V} k (v : V) m : NoDup (akeys m) -> In (k, v) m -> alookup k m = Some v.
Proof.
  unfold akeys. induction m as [|[k' v'] m IH]; cbn [map fst In alookup]; [tauto|].
  intros Hnd [[= -> ->]|Hin].
  - now rewrite str_eqb_refl.
  - inversion Hnd; subst. destruct (str_eqb_spec k k') as [->|Hne]; [|auto].
    exfalso. apply H1. change k' with (fst (k', v)). now apply in_map.
Qed.

Lemma mget_In_rows m f p v q w : mget (mp_map m) f p v = Some (q, w) -> In (f, p, v, q, w) (m_rows m).
Proof.
  unfold mget, group_val, mgroup, m_rows.
  destruct (alookup f (mp_map m)) as [pm|] eqn:E1; [|discriminate].
  destruct (alookup p pm) as [vm|] eqn:E2; [|discriminate]. intros E3.
  apply alookup_Some_In in E1, E2, E3.
  apply in_flat_map. exists (f, pm). split; [assumption|].
  apply in_flat_map. exists (p, vm). split; [assumption|].
  apply in_map_iff. exists (v, (q, w)). auto.
Qed.

Lemma In_rows_mget m f p v q w :
  fm_nodup (mp_map m) -> In (f, p, v, q, w) (m_rows m) -> mget (mp_map m) f p v = Some (q, w).
Proof.
  intros [N1 N2] H. unfold m_rows in H.
  apply in_flat_map in H. destruct H as [[f' pm] [Hf H]].
  apply in_flat_map in H. destruct H as [[p' vm] [Hp H]].
  apply in_map_iff in H. destruct H as [[v' [q' w']] [[= <- <- <- <- <-] Hv]].
  destruct (N2 _ _ Hf) as [N3 N4]. specialize (N4 _ _ Hp).
  unfold mget, group_val, mgroup.
  rewrite (In_NoDup_alookup _ _ _ N1 Hf), (In_NoDup_alookup _ _ _ N3 Hp).
  now apply In_NoDup_alookup.
Qed.

Lemma invertible_In m r : forallb invertible_row (m_rows m) = true -> In r (m_rows m) -> invertible_row r = true.
Proof. intros H. rewrite forallb_forall in H. apply H. Qed.

(* ------------------------------------------------------------------ the fold of inverse *)

Definition tgt (r : mrow) : str * str * str := match r with (f, p, v, q, w) => (f, q, w) end.

Lemma fold_err R e : fold_left inv_step R (Err e) = Err e.
Proof. induction R as [|r R IH]; cbn [fold_left]; [reflexivity|]. cbn [inv_step]. apply IH. Qed.

Lemma mp_map_inv_add inv f p v q w :
  nonempty p = true -> nonempty v = true -> is_noreinstall (Some v) = false ->
  mp_map (m_add inv q w (Some p) (Some v) f true) = fm_add (mp_map inv) q w p (Some v) f true.
Proof.
  intros Hp Hv Hn. unfold m_add. rewrite Hn. destruct p; [discriminate|]. reflexivity.
Qed.

Lemma invertible_parts f p v q w : invertible_row (f, p, v, q, w) = true ->
  nonempty p = true /\ nonempty v = true /\ str_eqb v s_any = false /\ str_eqb w s_any = false /\
  is_noreinstall (Some v) = false /\ (str_eqb q p && str_eqb w v) = false.
Proof.
  cbn [invertible_row]. intros H. do 5 (apply andb_true_iff in H; destruct H as [H ?]).
  rewrite !negb_true_iff in *. auto 10.
Qed.

Lemma inverse_fold R : forall inv0 inv,
  forallb invertible_row R = true ->
  fold_left inv_step R (Ok inv0) = Ok inv ->
  (forall f q w x, mget (mp_map inv) f q w = Some x <->
     (mget (mp_map inv0) f q w = Some x \/ exists p v, x = (p, v) /\ In (f, p, v, q, w) R)) /\
  (clean (mp_map inv0) -> clean (mp_map inv)).
Proof.
  induction R as [|r R IH]; intros inv0 inv Hwf Hfold.
  - cbn [fold_left] in Hfold. injection Hfold as <-. split; [|auto].
    intros f q w x. split; [auto|]. intros [H|[p [v [_ []]]]]. exact H.
  - cbn [forallb] in Hwf. apply andb_true_iff in Hwf. destruct Hwf as [Hr HR].
    destruct r as [[[[f p] v] q] w]. cbn [fold_left inv_step] in Hfold.
    destruct (m_exists1 inv0 q w f) eqn:Eex; [rewrite fold_err in Hfold; discriminate|].
    rewrite m_exists1_mget in Eex.
    destruct (invertible_parts _ _ _ _ _ Hr) as [Hp [Hv [_ [_ [Hn _]]]]].
    destruct (IH _ _ HR Hfold) as [I1 I2]. rewrite mp_map_inv_add in I1, I2 by assumption.
    destruct v as [|vc vr]; [discriminate|].
    split.
    + intros f' q' w' x. rewrite I1, mget_fm_add_set.
      destruct (str_eqb_spec f' f) as [->|Hf]; cbn [andb].
      * destruct (str_eqb_spec q' q) as [->|Hq]; cbn [andb].
        -- destruct (str_eqb_spec w' w) as [->|Hw].
           ++ split.
              ** intros [[= <-]|[p' [v' [-> Hin]]]]; right; [exists p, (vc :: vr); split; auto; now left|].
                 exists p', v'. split; auto. now right.
              ** intros [H|[p' [v' [-> [[= <- <-]|Hin]]]]].
                 --- destruct (mget (mp_map inv0) f q w); [discriminate|discriminate].
                 --- now left.
                 --- right. eauto.
           ++ split.
              ** intros [H|[p' [v' [-> Hin]]]]; [now left|]. right. exists p', v'. split; auto. now right.
              ** intros [H|[p' [v' [-> [Heq|Hin]]]]]; [now left| inversion Heq; congruence | right; eauto].
        -- split.
           ** intros [H|[p' [v' [-> Hin]]]]; [now left|]. right. exists p', v'. split; auto. now right.
           ** intros [H|[p' [v' [-> [Heq|Hin]]]]]; [now left| inversion Heq; congruence | right; eauto].
      * split.
        ** intros [H|[p' [v' [-> Hin]]]]; [now left|]. right. exists p', v'. split; auto. now right.
        ** intros [H|[p' [v' [-> [Heq|Hin]]]]]; [now left| inversion Heq; congruence | right; eauto].
    + intros Hc. apply I2. now apply clean_fm_add_set.
Qed.

Lemma fold_refused R : forall acc e,
  (forall e', acc = Err e' -> e' = Refused) -> fold_left inv_step R acc = Err e -> e = Refused.
Proof.
  induction R as [|r R IH]; intros acc e Hacc H; cbn [fold_left] in H.
  - now apply Hacc.
  - eapply IH; [|exact H]. intros e' He'. destruct acc as [inv|e0].
    + destruct r as [[[[f p] v] q] w]. cbn [inv_step] in He'.
      destruct (m_exists1 inv q w f); congruence.
    + cbn [inv_step] in He'. injection He' as <-. now apply Hacc.
Qed.

Lemma fold_ok R : forall inv0,
  forallb invertible_row R = true -> NoDup (map tgt R) ->
  (forall r, In r R -> match tgt r with (f, q, w) => mget (mp_map inv0) f q w = None end) ->
  exists inv, fold_left inv_step R (Ok inv0) = Ok inv.
Proof.
  induction R as [|r R IH]; intros inv0 Hwf Hnd Hfree; cbn [fold_left]; [eauto|].
  cbn [forallb] in Hwf. apply andb_true_iff in Hwf. destruct Hwf as [Hr HR].
  destruct r as [[[[f p] v] q] w]. cbn [inv_step].
  pose proof (Hfree _ (or_introl eq_refl)) as H0. cbn [tgt] in H0.
  rewrite m_exists1_mget, H0.
  destruct (invertible_parts _ _ _ _ _ Hr) as [Hp [Hv [_ [_ [Hn _]]]]].
  cbn [map] in Hnd. inversion Hnd as [|? ? Hnin Hnd']; subst.
  apply IH; auto.
  intros r Hin. rewrite mp_map_inv_add by assumption.
  destruct v as [|vc vr]; [discriminate|].
  destruct r as [[[[f' p'] v'] q'] w'] eqn:Er. cbn [tgt]. rewrite mget_fm_add_set.
  destruct (str_eqb_spec f' f) as [->|]; cbn [andb];
    [destruct (str_eqb_spec q' q) as [->|]; cbn [andb];
     [destruct (str_eqb_spec w' w) as [->|]|]|];
    try (apply (Hfree (f', p', v', q', w')); now right);
    try (apply (Hfree (f, p', v', q', w')); now right);
    try (apply (Hfree (f, p', v', q, w')); now right).
  exfalso. apply Hnin. cbn [tgt]. change (f, q, w) with (tgt (f, p', v', q, w)). now apply in_map.
Qed.

(* ------------------------------------------------------------------ _apply, by cases *)

Lemma apply1_hit m p v f q w : mget (mp_map m) f p v = Some (q, w) -> m_apply1 m p v f = (q, Some w).
Proof.
  intros H. rewrite m_apply1_mgroup. unfold mget, group_val in H.
  destruct (mgroup (mp_map m) f p) as [vm|]; [|discriminate].
  destruct vm as [|e vm]; [discriminate|]. now rewrite H.
Qed.

Lemma apply1_miss m p v f :
  mget (mp_map m) f p v = None -> mget (mp_map m) f p s_any = None -> mgroup (mp_map m) f p <> Some [] ->
  m_apply1 m p v f = (p, Some v).
Proof.
  intros H1 H2 H3. rewrite m_apply1_mgroup. unfold mget, group_val in H1, H2.
  destruct (mgroup (mp_map m) f p) as [vm|]; [|reflexivity].
  destruct vm as [|e vm]; [now elim H3|]. now rewrite H1, H2.
Qed.

Lemma apply1_cases m p v f :
  mget (mp_map m) f p s_any = None ->
  m_apply1 m p v f = (p, None) \/
  (exists q w, mget (mp_map m) f p v = Some (q, w) /\ m_apply1 m p v f = (q, Some w)) \/
  (mget (mp_map m) f p v = None /\ m_apply1 m p v f = (p, Some v)).
Proof.
  intros H2. rewrite m_apply1_mgroup. unfold mget, group_val in *.
  destruct (mgroup (mp_map m) f p) as [vm|]; [|auto].
  destruct vm as [|e vm]; [auto|]. rewrite H2.
  destruct (alookup v (e :: vm)) as [[q w]|]; [|auto]. right. left. eauto.
Qed.

(* ------------------------------------------------------------------ inverse undoes apply *)

Lemma same_pv_refl p v : same_pv (p, Some v) p v = true.
Proof. cbn [same_pv]. now rewrite !str_eqb_refl. Qed.

Lemma inverse_undoes_lemma m inv fl p v q w :
  fm_nodup (mp_map m) ->
  forallb invertible_row (m_rows m) = true ->
  m_inverse m = Ok inv ->
  (forall p1 v1 p2 v2, in_dom m fl p1 v1 = true -> in_dom m fl p2 v2 = true ->
     m_apply m p1 v1 fl = m_apply m p2 v2 fl -> p1 = p2 /\ v1 = v2) ->
  in_dom m fl p v = true ->
  m_apply m p v fl = (q, Some w) ->
  m_apply inv q w fl = (p, Some v).
Proof.
  intros Hnd Hwf Hinv Hinj Hdom Happ.
  destruct (inverse_fold _ _ _ Hwf Hinv) as [HI Hclean]. specialize (Hclean clean_empty).
  assert (F1 : forall f p v q w, mget (mp_map m) f p v = Some (q, w) -> mget (mp_map inv) f q w = Some (p, v)).
  { intros. apply HI. right. eauto using mget_In_rows. }
  assert (F2 : forall f p v q w, mget (mp_map inv) f q w = Some (p, v) -> mget (mp_map m) f p v = Some (q, w)).
  { intros f0 p0 v0 q0 w0 H. apply HI in H. destruct H as [H|[p' [v' [[= <- <-] H]]]]; [discriminate|].
    now apply In_rows_mget. }
  assert (F3 : forall f q, mget (mp_map inv) f q s_any = None).
  { intros f0 q0. destruct (mget (mp_map inv) f0 q0 s_any) as [[p0 v0]|] eqn:E; [|reflexivity].
    apply F2, mget_In_rows in E. apply (invertible_In _ _ Hwf) in E.
    destruct (invertible_parts _ _ _ _ _ E) as [_ [_ [_ [E' _]]]]. now rewrite str_eqb_refl in E'. }
  assert (F5 : forall f p, mget (mp_map m) f p s_any = None).
  { intros f0 p0. destruct (mget (mp_map m) f0 p0 s_any) as [[q0 w0]|] eqn:E; [|reflexivity].
    apply mget_In_rows in E. apply (invertible_In _ _ Hwf) in E.
    destruct (invertible_parts _ _ _ _ _ E) as [_ [_ [E' _]]]. now rewrite str_eqb_refl in E'. }
  assert (F6 : forall f p v q w, mget (mp_map m) f p v = Some (q, w) -> same_pv (q, Some w) p v = false).
  { intros f0 p0 v0 q0 w0 E. apply mget_In_rows in E. apply (invertible_In _ _ Hwf) in E.
    now destruct (invertible_parts _ _ _ _ _ E) as [_ [_ [_ [_ [_ E']]]]]. }
  assert (F7 : forall f p v q w, mget (mp_map inv) f q w = Some (p, v) -> same_pv (p, Some v) q w = false).
  { intros f0 p0 v0 q0 w0 E. apply F2, F6 in E. cbn [same_pv] in *.
    now rewrite (str_eqb_sym p0 q0), (str_eqb_sym v0 w0). }
  unfold in_dom in Hdom. rewrite !m_exists1_mget in Hdom.
  unfold m_apply in Happ |- *.
  destruct (str_eqb_spec fl s_generic) as [->|Hg]; cbn [negb andb] in Happ |- *.
  - (* the generic table alone *)
    destruct (mget (mp_map m) s_generic p v) as [[q' w']|] eqn:E; [|discriminate].
    rewrite (apply1_hit _ _ _ _ _ _ E) in Happ. injection Happ as -> ->.
    now apply apply1_hit, F1.
  - destruct (mget (mp_map m) fl p v) as [[q' w']|] eqn:E.
    + (* named by a row of the running flavor *)
      rewrite (apply1_hit _ _ _ _ _ _ E), (F6 _ _ _ _ _ E) in Happ. injection Happ as -> ->.
      apply F1 in E. rewrite (apply1_hit _ _ _ _ _ _ E), (F7 _ _ _ _ _ E). reflexivity.
    + (* named by a generic row only *)
      cbn [orb] in Hdom.
      destruct (mget (mp_map m) s_generic p v) as [[q' w']|] eqn:Eg; [|discriminate].
      destruct (apply1_cases m p v fl (F5 _ _)) as [Hc|[[q0 [w0 [Hc _]]]|[_ Hc]]].
      * rewrite Hc in Happ. cbn [same_pv] in Happ. discriminate.
      * congruence.
      * rewrite Hc, same_pv_refl, (apply1_hit _ _ _ _ _ _ Eg) in Happ. injection Happ as -> ->.
        destruct (mget (mp_map inv) fl q w) as [[p2 v2]|] eqn:Ei.
        -- exfalso. apply F2 in Ei.
           assert (Hd2 : in_dom m fl p2 v2 = true) by (unfold in_dom; rewrite !m_exists1_mget, Ei; reflexivity).
           assert (Hd1 : in_dom m fl p v = true) by (unfold in_dom; rewrite !m_exists1_mget, E, Eg; reflexivity).
           assert (Ha2 : m_apply m p2 v2 fl = (q, Some w)).
           { unfold m_apply. rewrite (apply1_hit _ _ _ _ _ _ Ei), (F6 _ _ _ _ _ Ei).
             now rewrite andb_false_r. }
           assert (Ha1 : m_apply m p v fl = (q, Some w)).
           { unfold m_apply. rewrite Hc, same_pv_refl.
             destruct (str_eqb_spec fl s_generic); [contradiction|]. cbn [negb andb].
             now apply apply1_hit. }
           destruct (Hinj _ _ _ _ Hd2 Hd1 (eq_trans Ha2 (eq_sym Ha1))) as [-> ->]. congruence.
        -- rewrite (apply1_miss inv q w fl Ei (F3 _ _) (Hclean _ _)), same_pv_refl.
           now apply apply1_hit, F1.
Qed.

(* ------------------------------------------------------------------ inverse refuses / accepts *)

Lemma inverse_rejects_lemma m R1 r1 R2 r2 R3 :
  forallb invertible_row (m_rows m) = true ->
  m_rows m = R1 ++ r1 :: R2 ++ r2 :: R3 -> tgt r1 = tgt r2 ->
  m_inverse m = Err Refused.
Proof.
  intros Hwf Hsplit Htgt. unfold m_inverse. rewrite Hsplit in *.
  replace (R1 ++ r1 :: R2 ++ r2 :: R3) with ((R1 ++ r1 :: R2) ++ r2 :: R3) in *
    by (rewrite <- app_assoc; reflexivity).
  rewrite fold_left_app. rewrite forallb_app in Hwf. apply andb_true_iff in Hwf. destruct Hwf as [HA _].
  destruct (fold_left inv_step (R1 ++ r1 :: R2) (Ok empty_mapping)) as [inv'|e] eqn:EA.
  - destruct (inverse_fold _ _ _ HA EA) as [HI _].
    destruct r1 as [[[[f1 p1] v1] q1] w1]. destruct r2 as [[[[f2 p2] v2] q2] w2].
    cbn [tgt] in Htgt. injection Htgt as <- <- <-.
    assert (E : mget (mp_map inv') f1 q1 w1 = Some (p1, v1)).
    { apply HI. right. exists p1, v1. split; auto. apply in_or_app. right. now left. }
    cbn [fold_left inv_step]. rewrite m_exists1_mget, E. apply fold_err.
  - rewrite fold_err. f_equal. eapply fold_refused; [|exact EA]. discriminate.
Qed.

Lemma inverse_accepts_lemma m :
  forallb invertible_row (m_rows m) = true -> NoDup (map tgt (m_rows m)) ->
  exists inv, m_inverse m = Ok inv.
Proof.
  intros Hwf Hnd. apply fold_ok; auto. intros [[[[f p] v] q] w] _. reflexivity.
Qed.

(* ------------------------------------------------------------------ tables built by add have no duplicate keys *)

Lemma In_aset {V} k (v : V) m k' v' : In (k', v') (aset k v m) -> (k' = k /\ v' = v) \/ In (k', v') m.
Proof.
  induction m as [|[k0 v0] m IH]; cbn [aset In].
  - intros [[= <- <-]|[]]. auto.
  - destruct (str_eqb k k0).
    + intros [[= <- <-]|H]; auto.
    + intros [H|H]; auto. destruct (IH H); auto.
Qed.

Lemma akeys_aset_In {V} k (v : V) m x : In x (akeys (aset k v m)) -> x = k \/ In x (akeys m).
Proof.
  unfold akeys. intros H. apply in_map_iff in H. destruct H as [[k' v'] [<- H]].
  apply In_aset in H. destruct H as [[-> _]|H]; auto. right. change k' with (fst (k', v')). now apply in_map.
Qed.

Lemma NoDup_aset {V} k (v : V) m : NoDup (akeys m) -> NoDup (akeys (aset k v m)).
Proof.
  unfold akeys. induction m as [|[k0 v0] m IH]; cbn [aset map fst]; intros H.
  - repeat constructor. intros [].
  - inversion H; subst. destruct (str_eqb_spec k k0) as [->|Hne]; cbn [map fst]; [now constructor|].
    constructor; [|auto]. intros Hin. apply akeys_aset_In in Hin. destruct Hin; [congruence|auto].
Qed.

Lemma In_aremove {V} k (m : amap V) e : In e (aremove k m) -> In e m.
Proof.
  induction m as [|[k0 v0] m IH]; cbn [aremove]; [auto|].
  destruct (str_eqb k k0); cbn [In]; intuition.
Qed.

Lemma NoDup_aremove {V} k (m : amap V) : NoDup (akeys m) -> NoDup (akeys (aremove k m)).
Proof.
  unfold akeys. induction m as [|[k0 v0] m IH]; cbn [aremove map fst]; intros H; [constructor|].
  inversion H; subst. destruct (str_eqb k k0); cbn [map fst]; auto.
  constructor; auto. intros Hin. apply H2. apply in_map_iff in Hin. destruct Hin as [e [E Hin]].
  apply In_aremove in Hin. rewrite <- E. now apply in_map.
Qed.

Definition pm_nodup (pm : pmap) : Prop :=
  NoDup (akeys pm) /\ forall p vm, In (p, vm) pm -> NoDup (akeys vm).

Lemma fm_nodup_alt fm : fm_nodup fm <-> NoDup (akeys fm) /\ forall f pm, In (f, pm) fm -> pm_nodup pm.
Proof. reflexivity. Qed.

Lemma oget_pm_nodup fm f : fm_nodup fm -> pm_nodup (oget f fm).
Proof.
  intros [_ H]. unfold oget. destruct (alookup f fm) as [pm|] eqn:E.
  - apply alookup_Some_In in E. exact (H _ _ E).
  - split; [constructor|]. intros ? ? [].
Qed.

Lemma oget_vm_nodup pm p : pm_nodup pm -> NoDup (akeys (oget p pm)).
Proof.
  intros [_ H]. unfold oget. destruct (alookup p pm) as [vm|] eqn:E.
  - apply alookup_Some_In in E. exact (H _ _ E).
  - constructor.
Qed.

Lemma fm_nodup_set fm fl inP X :
  fm_nodup fm -> NoDup (akeys X) -> fm_nodup (aset fl (aset inP X (oget fl fm)) fm).
Proof.
  intros Hfm HX. pose proof (oget_pm_nodup fm fl Hfm) as [P1 P2]. destruct Hfm as [N1 N2].
  split; [now apply NoDup_aset|].
  intros f pm Hin. apply In_aset in Hin. destruct Hin as [[-> ->]|Hin]; [|now apply N2 in Hin].
  split; [now apply NoDup_aset|].
  intros p vm Hp. apply In_aset in Hp. destruct Hp as [[-> ->]|Hp]; [assumption|now apply P2 in Hp].
Qed.

Lemma fm_nodup_fm_add fm inP inV outP outV fl ow :
  fm_nodup fm -> fm_nodup (fm_add fm inP inV outP outV fl ow).
Proof.
  intros H. unfold fm_add.
  pose proof (oget_vm_nodup _ inP (oget_pm_nodup fm fl H)) as HV.
  destruct (negb ow && amem inV (oget inP (oget fl fm))); [now apply fm_nodup_set|].
  destruct outV as [[|c w]|]; apply fm_nodup_set; auto using NoDup_aset, NoDup_aremove.
Qed.

Lemma fm_nodup_empty : fm_nodup [].
Proof. split; [constructor|]. intros ? ? []. Qed.

Lemma m_of_rows_nodup rows : fm_nodup (mp_map (m_of_rows rows)).
Proof.
  induction rows as [|r rows IH] using rev_ind; [apply fm_nodup_empty|].
  rewrite m_of_rows_snoc, mp_map_add_row. destruct (is_noreinstall (r_outV r)); [assumption|].
  now apply fm_nodup_fm_add.
Qed.

(* ------------------------------------------------------------------ the decidable one-to-one condition *)

Lemma tgt_row_target r : tgt r = row_target r.
Proof. now destruct r as [[[[f p] v] q] w]. Qed.

Lemma in_dom_list m fl p v : in_dom m fl p v = true -> In (p, v) (dom_list m fl).
Proof.
  unfold in_dom, dom_list. rewrite !m_exists1_mget. intros H.
  assert (Hex : exists f q w, (str_eqb f fl || str_eqb f s_generic) = true /\ mget (mp_map m) f p v = Some (q, w)).
  { destruct (mget (mp_map m) fl p v) as [[q w]|] eqn:E1.
    - exists fl, q, w. now rewrite str_eqb_refl.
    - destruct (mget (mp_map m) s_generic p v) as [[q w]|] eqn:E2; [|discriminate].
      exists s_generic, q, w. now rewrite str_eqb_refl, orb_true_r. }
  destruct Hex as [f [q [w [Hf Hm]]]]. apply mget_In_rows in Hm.
  apply in_flat_map. exists (f, p, v, q, w). split; [assumption|]. rewrite Hf. now left.
Qed.

Lemma res_eqb_refl a : res_eqb a a = true.
Proof. destruct a as [q [w|]]; unfold res_eqb; cbn [fst snd]; now rewrite ?str_eqb_refl. Qed.

Lemma one_to_one_inj m fl : one_to_one m fl = true ->
  forall p1 v1 p2 v2, in_dom m fl p1 v1 = true -> in_dom m fl p2 v2 = true ->
    m_apply m p1 v1 fl = m_apply m p2 v2 fl -> p1 = p2 /\ v1 = v2.
Proof.
  unfold one_to_one. intros H p1 v1 p2 v2 H1 H2 E.
  rewrite forallb_forall in H. specialize (H _ (in_dom_list _ _ _ _ H1)).
  rewrite forallb_forall in H. specialize (H _ (in_dom_list _ _ _ _ H2)).
  cbn [fst snd] in H. rewrite E, res_eqb_refl in H. cbn [implb] in H.
  unfold pv_eqb in H. cbn [fst snd] in H. apply andb_true_iff in H. destruct H as [Ha Hb].
  now apply str_eqb_eq in Ha, Hb.
Qed.
