(* C18: Mapping.inverse. *)
From Coq Require Import Lia.
From Eupsv Require Import Base.Base Base.BaseLemmas Model.Manifest Model.ManifestSpec
  Proofs.ManifestLib Proofs.ManifestMap.

(* ------------------------------------------------------------------ the rows of a mapping *)

Definition fm_nodup (fm : fmap) : Prop :=
  NoDup (akeys fm) /\
  forall f pm, In (f, pm) fm -> NoDup (akeys pm) /\ forall p vm, In (p, vm) pm -> NoDup (akeys vm).

Lemma In_NoDup_alookup {V} k (v : V) m : NoDup (akeys m) -> In (k, v) m -> alookup k m = Some v.
Proof.
  unfold akeys. induction m as [|[k' v'] m IH]; cbn [map fst In alookup]; [tauto|].
  intros Hnd [[= -> ->]|Hin].
  - now rewrite str_eqb_refl.
  - inversion Hnd; subst. destruct (str_eqb_spec k k') as [->|Hne]; [|auto].
    exfalso. apply H1. change k' with (fst (k', v)). now apply in_map.
Qed.

Lemma fm_get_In_rows fm f p v q w : mget fm f p v = Some (q, w) -> In (f, p, v, q, w) (fm_rows fm).
Proof.
  unfold mget, group_val, mgroup, fm_rows.
  destruct (alookup f fm) as [pm|] eqn:E1; [|discriminate].
  destruct (alookup p pm) as [vm|] eqn:E2; [|discriminate]. intros E3.
  apply alookup_Some_In in E1, E2, E3.
  apply in_flat_map. exists (f, pm). split; [assumption|].
  apply in_flat_map. exists (p, vm). split; [assumption|].
  apply in_map_iff. exists (v, (q, w)). auto.
Qed.

Lemma In_rows_fm_get fm f p v q w :
  fm_nodup fm -> In (f, p, v, q, w) (fm_rows fm) -> mget fm f p v = Some (q, w).
Proof.
  intros [N1 N2] H. unfold fm_rows in H.
  apply in_flat_map in H. destruct H as [[f' pm] [Hf H]].
  apply in_flat_map in H. destruct H as [[p' vm] [Hp H]].
  apply in_map_iff in H. destruct H as [[v' [q' w']] [[= <- <- <- <- <-] Hv]].
  destruct (N2 _ _ Hf) as [N3 N4]. specialize (N4 _ _ Hp).
  unfold mget, group_val, mgroup.
  rewrite (In_NoDup_alookup _ _ _ N1 Hf), (In_NoDup_alookup _ _ _ N3 Hp).
  now apply In_NoDup_alookup.
Qed.

Lemma mget_In_rows m f p v q w : mget (mp_map m) f p v = Some (q, w) -> In (f, p, v, q, w) (m_rows m).
Proof. apply fm_get_In_rows. Qed.

Lemma In_rows_mget m f p v q w :
  fm_nodup (mp_map m) -> In (f, p, v, q, w) (m_rows m) -> mget (mp_map m) f p v = Some (q, w).
Proof. apply In_rows_fm_get. Qed.

Lemma invertible_In m r : forallb invertible_row (m_rows m) = true -> In r (m_rows m) -> invertible_row r = true.
Proof. intros H. rewrite forallb_forall in H. apply H. Qed.

(* ------------------------------------------------------------------ the fold of inverse, on the rows that are kept *)

Definition lrow := (str * str * str * str * str)%type.

Definition lives (R : list mrow) : list lrow :=
  flat_map (fun r => match r with (f, p, v, q, Some w) => [(f, p, v, q, w)] | _ => [] end) R.

Definition inv_stepL (acc : res mapping) (r : lrow) : res mapping :=
  match acc, r with
  | Err e, _ => Err e
  | Ok inv, (f, p, v, q, w) =>
      if m_exists1 inv q w f then Err Refused else Ok (m_add inv q w (Some p) (Some v) f true)
  end.

Lemma fold_live R : forall acc, fold_left inv_step R acc = fold_left inv_stepL (lives R) acc.
Proof.
  induction R as [|[[[[f p] v] q] [w|]] R IH]; intros acc; cbn [fold_left lives flat_map app]; [reflexivity| |].
  - change (flat_map _ R) with (lives R). rewrite IH. destruct acc; reflexivity.
  - change (flat_map _ R) with (lives R). rewrite IH. destruct acc; reflexivity.
Qed.

Lemma In_lives R f p v q w : In (f, p, v, q, w) (lives R) <-> In (f, p, v, q, Some w) R.
Proof.
  unfold lives. rewrite in_flat_map. split.
  - intros [[[[[f' p'] v'] q'] [w'|]] [Hin H]]; [|destruct H]. destruct H as [[= <- <- <- <- <-]|[]]. exact Hin.
  - intros H. exists (f, p, v, q, Some w). split; [assumption|now left].
Qed.

Definition live_ok (r : lrow) : bool :=
  match r with (f, p, v, q, w) => invertible_row (f, p, v, q, Some w) end.

Lemma lives_ok R : forallb invertible_row R = true -> forallb live_ok (lives R) = true.
Proof.
  rewrite !forallb_forall. intros H [[[[f p] v] q] w] Hin. apply In_lives in Hin. exact (H _ Hin).
Qed.

Lemma lives_app a b : lives (a ++ b) = lives a ++ lives b.
Proof. unfold lives. apply flat_map_app. Qed.

Definition tgt (r : lrow) : str * str * str := match r with (f, p, v, q, w) => (f, q, w) end.

Lemma fold_err R e : fold_left inv_stepL R (Err e) = Err e.
Proof. induction R as [|r R IH]; cbn [fold_left]; [reflexivity|]. cbn [inv_stepL]. apply IH. Qed.

Lemma mp_map_inv_add inv f p v q w :
  nonempty p = true -> nonempty v = true -> is_noreinstall (Some v) = false ->
  mp_map (m_add inv q w (Some p) (Some v) f true) = fm_add (mp_map inv) q w p (Some v) f true.
Proof.
  intros Hp Hv Hn. unfold m_add. rewrite Hn. destruct p; [discriminate|]. reflexivity.
Qed.

Lemma live_parts f p v q w : live_ok (f, p, v, q, w) = true ->
  nonempty p = true /\ nonempty v = true /\ str_eqb v s_any = false /\ str_eqb w s_any = false /\
  is_noreinstall (Some v) = false.
Proof.
  cbn [live_ok invertible_row]. intros H. do 4 (apply andb_true_iff in H; destruct H as [H ?]).
  rewrite !negb_true_iff in *. auto 10.
Qed.

Lemma out_version_nonempty v : nonempty v = true -> out_version (Some v) = Some v.
Proof. destruct v; [discriminate|reflexivity]. Qed.

Lemma inverse_fold R : forall inv0 inv,
  forallb live_ok R = true ->
  fold_left inv_stepL R (Ok inv0) = Ok inv ->
  forall f q w x, mget (mp_map inv) f q w = Some x <->
     (mget (mp_map inv0) f q w = Some x \/ exists p v, x = (p, Some v) /\ In (f, p, v, q, w) R).
Proof.
  induction R as [|r R IH]; intros inv0 inv Hwf Hfold.
  - cbn [fold_left] in Hfold. injection Hfold as <-.
    intros f q w x. split; [auto|]. intros [H|[p [v [_ []]]]]. exact H.
  - cbn [forallb] in Hwf. apply andb_true_iff in Hwf. destruct Hwf as [Hr HR].
    destruct r as [[[[f p] v] q] w]. cbn [fold_left inv_stepL] in Hfold.
    destruct (m_exists1 inv0 q w f) eqn:Eex; [rewrite fold_err in Hfold; discriminate|].
    rewrite m_exists1_mget in Eex.
    destruct (live_parts _ _ _ _ _ Hr) as [Hp [Hv [_ [_ Hn]]]].
    pose proof (IH _ _ HR Hfold) as I1. rewrite mp_map_inv_add in I1 by assumption.
    intros f' q' w' x. rewrite I1, mget_fm_add, (out_version_nonempty _ Hv).
    destruct (str_eqb f' f && str_eqb q' q && str_eqb w' w) eqn:Ec.
    + apply andb_true_iff in Ec. destruct Ec as [Ec E3]. apply andb_true_iff in Ec. destruct Ec as [E1 E2].
      apply str_eqb_eq in E1, E2, E3. subst f' q' w'.
      split.
      * intros [[= <-]|[p' [v' [-> Hin]]]]; right.
        -- exists p, v. split; [reflexivity|now left].
        -- exists p', v'. split; [reflexivity|now right].
      * intros [H|[p' [v' [-> [[= <- <-]|Hin]]]]].
        -- rewrite H in Eex. discriminate.
        -- now left.
        -- right. eauto.
    + split.
      * intros [H|[p' [v' [-> Hin]]]]; [now left|]. right. exists p', v'. split; [reflexivity|now right].
      * intros [H|[p' [v' [-> [Heq|Hin]]]]]; [now left| |right; eauto].
        exfalso. injection Heq as <- <- <- <- <-. rewrite !str_eqb_refl in Ec. discriminate.
Qed.

Lemma fold_refused R : forall acc e,
  (forall e', acc = Err e' -> e' = Refused) -> fold_left inv_stepL R acc = Err e -> e = Refused.
Proof.
  induction R as [|r R IH]; intros acc e Hacc H; cbn [fold_left] in H.
  - now apply Hacc.
  - eapply IH; [|exact H]. intros e' He'. destruct acc as [inv|e0].
    + destruct r as [[[[f p] v] q] w]. cbn [inv_stepL] in He'.
      destruct (m_exists1 inv q w f); congruence.
    + cbn [inv_stepL] in He'. injection He' as <-. now apply Hacc.
Qed.

Lemma fold_ok R : forall inv0,
  forallb live_ok R = true -> NoDup (map tgt R) ->
  (forall r, In r R -> match tgt r with (f, q, w) => mget (mp_map inv0) f q w = None end) ->
  exists inv, fold_left inv_stepL R (Ok inv0) = Ok inv.
Proof.
  induction R as [|r R IH]; intros inv0 Hwf Hnd Hfree; cbn [fold_left]; [eauto|].
  cbn [forallb] in Hwf. apply andb_true_iff in Hwf. destruct Hwf as [Hr HR].
  destruct r as [[[[f p] v] q] w]. cbn [inv_stepL].
  pose proof (Hfree _ (or_introl eq_refl)) as H0. cbn [tgt] in H0.
  rewrite m_exists1_mget, H0.
  destruct (live_parts _ _ _ _ _ Hr) as [Hp [Hv [_ [_ Hn]]]].
  cbn [map] in Hnd. inversion Hnd as [|? ? Hnin Hnd']; subst.
  apply IH; auto.
  intros r Hin. rewrite mp_map_inv_add by assumption.
  destruct r as [[[[f' p'] v'] q'] w'] eqn:Er. cbn [tgt]. rewrite mget_fm_add.
  destruct (str_eqb f' f && str_eqb q' q && str_eqb w' w) eqn:Ec.
  - exfalso. apply andb_true_iff in Ec. destruct Ec as [Ec E3]. apply andb_true_iff in Ec. destruct Ec as [E1 E2].
    apply str_eqb_eq in E1, E2, E3. subst f' q' w'.
    apply Hnin. change (f, q, w) with (tgt (f, p', v', q, w)). now apply in_map.
  - apply (Hfree (f', p', v', q', w')). now right.
Qed.

(* ------------------------------------------------------------------ apply, by cases *)

Lemma apply_exact m p v fl r : mget (mp_map m) fl p v = Some r -> m_apply m p v fl = r.
Proof. intros H. rewrite m_apply_says. unfold fm_says, fm_find. now rewrite H. Qed.

Lemma apply_fallback m p v fl r :
  mget (mp_map m) fl p v = None -> mget (mp_map m) fl p s_any = None ->
  mget (mp_map m) s_generic p v = Some r -> m_apply m p v fl = r.
Proof.
  intros H1 H2 H3. destruct (str_eqb_spec fl s_generic) as [->|Hg]; [congruence|].
  rewrite m_apply_says. unfold fm_says, fm_find. rewrite H1, H2, H3.
  destruct (str_eqb_spec fl s_generic); [contradiction|reflexivity].
Qed.

(* ------------------------------------------------------------------ inverse undoes apply *)

Lemma inverse_undoes_lemma m inv fl p v q w :
  fm_nodup (mp_map m) ->
  forallb invertible_row (m_rows m) = true ->
  m_inverse m = Ok inv ->
  (forall p1 v1 p2 v2 q0 w0, in_dom m fl p1 v1 = true -> in_dom m fl p2 v2 = true ->
     m_apply m p1 v1 fl = (q0, Some w0) -> m_apply m p2 v2 fl = (q0, Some w0) -> p1 = p2 /\ v1 = v2) ->
  in_dom m fl p v = true ->
  m_apply m p v fl = (q, Some w) ->
  m_apply inv q w fl = (p, Some v).
Proof.
  intros Hnd Hwf Hinv Hinj Hdom Happ.
  unfold m_inverse in Hinv. rewrite fold_live in Hinv.
  pose proof (inverse_fold _ _ _ (lives_ok _ Hwf) Hinv) as HI.
  assert (F1 : forall f p v q w, mget (mp_map m) f p v = Some (q, Some w) -> mget (mp_map inv) f q w = Some (p, Some v)).
  { intros. apply HI. right. eexists _, _. split; [reflexivity|]. apply In_lives. now apply mget_In_rows. }
  assert (F2 : forall f q w x, mget (mp_map inv) f q w = Some x ->
                 exists p v, x = (p, Some v) /\ mget (mp_map m) f p v = Some (q, Some w)).
  { intros f0 q0 w0 x H. apply HI in H. destruct H as [H|[p' [v' [-> H]]]]; [discriminate|].
    exists p', v'. split; [reflexivity|]. apply In_lives in H. now apply In_rows_mget. }
  assert (F3 : forall f q, mget (mp_map inv) f q s_any = None).
  { intros f0 q0. destruct (mget (mp_map inv) f0 q0 s_any) as [x|] eqn:E; [|reflexivity].
    destruct (F2 _ _ _ _ E) as [p0 [v0 [_ E']]]. apply mget_In_rows in E'. apply (invertible_In _ _ Hwf) in E'.
    destruct (live_parts _ _ _ _ _ E') as [_ [_ [_ [E'' _]]]]. now rewrite str_eqb_refl in E''. }
  assert (F5 : forall f p q w, mget (mp_map m) f p s_any = Some (q, Some w) -> False).
  { intros f0 p0 q0 w0 E. apply mget_In_rows in E. apply (invertible_In _ _ Hwf) in E.
    destruct (live_parts _ _ _ _ _ E) as [_ [_ [E'' _]]]. now rewrite str_eqb_refl in E''. }
  unfold in_dom in Hdom. rewrite !m_exists1_mget in Hdom.
  destruct (mget (mp_map m) fl p v) as [r|] eqn:E.
  - (* named by a row of the running flavor (or fl is generic) *)
    rewrite (apply_exact _ _ _ _ _ E) in Happ. subst r.
    apply F1 in E. now apply apply_exact.
  - cbn [orb] in Hdom.
    destruct (mget (mp_map m) s_generic p v) as [r|] eqn:Eg; [|discriminate].
    destruct (str_eqb_spec fl s_generic) as [->|Hg]; [congruence|].
    destruct (mget (mp_map m) fl p s_any) as [[q' [w'|]]|] eqn:Ea.
    + exfalso. eapply F5; eauto.
    + (* the flavor removes every version *)
      rewrite m_apply_says in Happ. unfold fm_says, fm_find in Happ. rewrite E, Ea in Happ. discriminate.
    + (* named by a generic row only *)
      rewrite (apply_fallback _ _ _ _ _ E Ea Eg) in Happ. subst r.
      pose proof (F1 _ _ _ _ _ Eg) as Eig.
      destruct (mget (mp_map inv) fl q w) as [x|] eqn:Ei.
      * exfalso. destruct (F2 _ _ _ _ Ei) as [p2 [v2 [-> E2]]].
        assert (Hd2 : in_dom m fl p2 v2 = true) by (unfold in_dom; rewrite !m_exists1_mget, E2; reflexivity).
        assert (Hd1 : in_dom m fl p v = true) by (unfold in_dom; rewrite !m_exists1_mget, E, Eg; reflexivity).
        pose proof (apply_exact _ _ _ _ _ E2) as Ha2.
        pose proof (apply_fallback _ _ _ _ _ E Ea Eg) as Ha1.
        destruct (Hinj _ _ _ _ _ _ Hd2 Hd1 Ha2 Ha1) as [-> ->]. congruence.
      * now apply apply_fallback.
Qed.

(* ------------------------------------------------------------------ inverse refuses / accepts *)

Lemma lives_split (R1 : list mrow) (r1 : mrow) (R2 : list mrow) (r2 : mrow) (R3 : list mrow) f1 p1 v1 q1 w1 f2 p2 v2 q2 w2 :
  r1 = (f1, p1, v1, q1, Some w1) -> r2 = (f2, p2, v2, q2, Some w2) ->
  lives (R1 ++ r1 :: R2 ++ r2 :: R3) =
  (lives R1 ++ (f1, p1, v1, q1, w1) :: lives R2) ++ (f2, p2, v2, q2, w2) :: lives R3.
Proof.
  intros -> ->. rewrite lives_app. change (?a :: ?b) with ([a] ++ b) at 1. rewrite lives_app, lives_app.
  change (?a :: ?b) with ([a] ++ b) at 1. rewrite lives_app. cbn [lives flat_map app].
  now rewrite <- app_assoc.
Qed.

Lemma inverse_rejects_lemma m R1 r1 R2 r2 R3 :
  forallb invertible_row (m_rows m) = true ->
  m_rows m = R1 ++ r1 :: R2 ++ r2 :: R3 -> live_row r1 = true -> row_target r1 = row_target r2 ->
  m_inverse m = Err Refused.
Proof.
  intros Hwf Hsplit Hlive Htgt. unfold m_inverse. rewrite fold_live.
  apply lives_ok in Hwf. rewrite Hsplit in *.
  destruct r1 as [[[[f1 p1] v1] q1] [w1|]]; [|discriminate].
  destruct r2 as [[[[f2 p2] v2] q2] w2o]. cbn [row_target] in Htgt. injection Htgt as <- <- <-.
  pose proof (lives_split R1 _ R2 _ R3 f1 p1 v1 q1 w1 f1 p2 v2 q1 w1 eq_refl eq_refl) as HS.
  rewrite HS in Hwf. rewrite HS.
  rewrite fold_left_app. rewrite forallb_app in Hwf. apply andb_true_iff in Hwf. destruct Hwf as [HA _].
  destruct (fold_left inv_stepL (lives R1 ++ (f1, p1, v1, q1, w1) :: lives R2) (Ok empty_mapping)) as [inv'|e] eqn:EA.
  - pose proof (inverse_fold _ _ _ HA EA) as HI.
    assert (E : mget (mp_map inv') f1 q1 w1 = Some (p1, Some v1)).
    { apply HI. right. exists p1, v1. split; auto. apply in_or_app. right. now left. }
    cbn [fold_left inv_stepL]. rewrite m_exists1_mget, E. apply fold_err.
  - rewrite fold_err. f_equal. eapply fold_refused; [|exact EA]. discriminate.
Qed.

Lemma inverse_accepts_lemma m :
  forallb invertible_row (m_rows m) = true -> NoDup (map tgt (lives (m_rows m))) ->
  exists inv, m_inverse m = Ok inv.
Proof.
  intros Hwf Hnd. unfold m_inverse. rewrite fold_live. apply fold_ok; auto using lives_ok.
  intros [[[[f p] v] q] w] _. reflexivity.
Qed.

Lemma map_tgt_lives R : map (fun t => match t with (f, q, w) => (f, q, Some w) end) (map tgt (lives R)) =
                        map row_target (filter live_row R).
Proof.
  induction R as [|[[[[f p] v] q] [w|]] R IH]; cbn [lives flat_map app filter live_row map]; [reflexivity| |].
  - change (flat_map _ R) with (lives R). cbn [tgt row_target]. now rewrite IH.
  - change (flat_map _ R) with (lives R). exact IH.
Qed.

Lemma NoDup_map_inv_inj {A B} (g : A -> B) l :
  (forall x y, g x = g y -> x = y) -> NoDup (map g l) -> NoDup l.
Proof.
  intros Hg. induction l as [|x l IH]; cbn [map]; intros H; [constructor|].
  inversion H; subst. constructor; [|auto]. intros Hin. apply H2. now apply in_map.
Qed.

Lemma NoDup_tgt_lives R : NoDup (map row_target (filter live_row R)) -> NoDup (map tgt (lives R)).
Proof.
  intros H. rewrite <- map_tgt_lives in H. eapply NoDup_map_inv_inj; [|exact H].
  intros [[f q] w] [[f' q'] w'] [= -> -> ->]. reflexivity.
Qed.

(* ------------------------------------------------------------------ tables built by add have no duplicate keys *)

Lemma In_aset {V} k (v : V) m k' v' : In (k', v') (aset k v m) -> (k' = k /\ v' = v) \/ In (k', v') m.
Proof.
  induction m as [|[k0 v0] m IH]; cbn [aset In].
  - intros [[= <- <-]|[]]. auto.
  - destruct (str_eqb k k0).
    + intros [[= <- <-]|H]; auto.
    + intros [H|H]; auto. destruct (IH H); auto.
Qed.

Lemma akeys_aset_In {V} k (v : V) m x : In x (akeys (aset k v m)) -> x = k \/ In x (akeys m).
Proof.
  unfold akeys. intros H. apply in_map_iff in H. destruct H as [[k' v'] [<- H]].
  apply In_aset in H. destruct H as [[-> _]|H]; auto. right. change k' with (fst (k', v')). now apply in_map.
Qed.

Lemma NoDup_aset {V} k (v : V) m : NoDup (akeys m) -> NoDup (akeys (aset k v m)).
Proof.
  unfold akeys. induction m as [|[k0 v0] m IH]; cbn [aset map fst]; intros H.
  - repeat constructor. intros [].
  - inversion H; subst. destruct (str_eqb_spec k k0) as [->|Hne]; cbn [map fst]; [now constructor|].
    constructor; [|auto]. intros Hin. apply akeys_aset_In in Hin. destruct Hin; [congruence|auto].
Qed.

Definition pm_nodup (pm : pmap) : Prop :=
  NoDup (akeys pm) /\ forall p vm, In (p, vm) pm -> NoDup (akeys vm).

Lemma fm_nodup_alt fm : fm_nodup fm <-> NoDup (akeys fm) /\ forall f pm, In (f, pm) fm -> pm_nodup pm.
Proof. reflexivity. Qed.

Lemma oget_pm_nodup fm f : fm_nodup fm -> pm_nodup (oget f fm).
Proof.
  intros [_ H]. unfold oget. destruct (alookup f fm) as [pm|] eqn:E.
  - apply alookup_Some_In in E. exact (H _ _ E).
  - split; [constructor|]. intros ? ? [].
Qed.

Lemma oget_vm_nodup pm p : pm_nodup pm -> NoDup (akeys (oget p pm)).
Proof.
  intros [_ H]. unfold oget. destruct (alookup p pm) as [vm|] eqn:E.
  - apply alookup_Some_In in E. exact (H _ _ E).
  - constructor.
Qed.

Lemma pm_nodup_aset pm p X : pm_nodup pm -> NoDup (akeys X) -> pm_nodup (aset p X pm).
Proof.
  intros [P1 P2] HX. split; [now apply NoDup_aset|].
  intros p' vm Hp. apply In_aset in Hp. destruct Hp as [[-> ->]|Hp]; [assumption|now apply P2 in Hp].
Qed.

Lemma fm_nodup_aset fm f X : fm_nodup fm -> pm_nodup X -> fm_nodup (aset f X fm).
Proof.
  intros [N1 N2] HX. split; [now apply NoDup_aset|].
  intros f' pm Hin. apply In_aset in Hin. destruct Hin as [[-> ->]|Hin]; [exact HX|now apply N2 in Hin].
Qed.

Lemma fm_nodup_set fm fl inP X :
  fm_nodup fm -> NoDup (akeys X) -> fm_nodup (aset fl (aset inP X (oget fl fm)) fm).
Proof.
  intros Hfm HX. apply fm_nodup_aset; [assumption|]. apply pm_nodup_aset; [now apply oget_pm_nodup|assumption].
Qed.

Lemma fm_nodup_fm_add fm inP inV outP outV fl ow :
  fm_nodup fm -> fm_nodup (fm_add fm inP inV outP outV fl ow).
Proof.
  intros H. unfold fm_add.
  pose proof (oget_vm_nodup _ inP (oget_pm_nodup fm fl H)) as HV.
  destruct (negb ow && amem inV (oget inP (oget fl fm))); apply fm_nodup_set; auto using NoDup_aset.
Qed.

Lemma fm_nodup_empty : fm_nodup [].
Proof. split; [constructor|]. intros ? ? []. Qed.

Lemma m_add_nodup m inP inV outP outV fl ow :
  fm_nodup (mp_map m) -> fm_nodup (mp_map (m_add m inP inV outP outV fl ow)).
Proof.
  intros H. unfold m_add. destruct (is_noreinstall outV); cbn [mp_map]; [assumption|now apply fm_nodup_fm_add].
Qed.

Lemma m_of_rows_nodup rows : fm_nodup (mp_map (m_of_rows rows)).
Proof.
  induction rows as [|r rows IH] using rev_ind; [apply fm_nodup_empty|].
  rewrite m_of_rows_snoc. unfold add_row, add_row_ow. now apply m_add_nodup.
Qed.

(* ------------------------------------------------------------------ the decidable one-to-one condition *)

Lemma in_dom_list m fl p v : in_dom m fl p v = true -> In (p, v) (dom_list m fl).
Proof.
  unfold in_dom, dom_list. rewrite !m_exists1_mget. intros H.
  assert (Hex : exists f q w, (str_eqb f fl || str_eqb f s_generic) = true /\ mget (mp_map m) f p v = Some (q, w)).
  { destruct (mget (mp_map m) fl p v) as [[q w]|] eqn:E1.
    - exists fl, q, w. now rewrite str_eqb_refl.
    - destruct (mget (mp_map m) s_generic p v) as [[q w]|] eqn:E2; [|discriminate].
      exists s_generic, q, w. now rewrite str_eqb_refl, orb_true_r. }
  destruct Hex as [f [q [w [Hf Hm]]]]. apply mget_In_rows in Hm.
  apply in_flat_map. exists (f, p, v, q, w). split; [assumption|]. rewrite Hf. now left.
Qed.

Lemma res_eqb_refl a : res_eqb a a = true.
Proof. destruct a as [q [w|]]; unfold res_eqb; cbn [fst snd]; now rewrite ?str_eqb_refl. Qed.

Lemma one_to_one_inj m fl : one_to_one m fl = true ->
  forall p1 v1 p2 v2 q w, in_dom m fl p1 v1 = true -> in_dom m fl p2 v2 = true ->
    m_apply m p1 v1 fl = (q, Some w) -> m_apply m p2 v2 fl = (q, Some w) -> p1 = p2 /\ v1 = v2.
Proof.
  unfold one_to_one. intros H p1 v1 p2 v2 q w H1 H2 E1 E2.
  rewrite forallb_forall in H. specialize (H _ (in_dom_list _ _ _ _ H1)).
  rewrite forallb_forall in H. specialize (H _ (in_dom_list _ _ _ _ H2)).
  cbn [fst snd] in H. rewrite E1, E2, res_eqb_refl in H. cbn [implb] in H.
  unfold pv_eqb in H. cbn [fst snd] in H. apply andb_true_iff in H. destruct H as [Ha Hb].
  now apply str_eqb_eq in Ha, Hb.
Qed.
