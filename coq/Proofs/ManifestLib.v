(* Text-level lemmas for C18 (level A): words, ljust, lines_of, header parsers, sorting. *)
From Coq Require Import Lia Permutation.
From Eupsv Require Import Base.Base Base.BaseLemmas Model.Manifest Model.ManifestSpec.

(* ------------------------------------------------------------------ words *)

Definition nosp (s : str) : Prop := Forall (fun c => is_pyspace c = false) s.
Definition word (s : str) : Prop := s <> [] /\ nosp s.

Lemma wf_word_word s : wf_word s = true -> word s.
Proof.
  unfold wf_word, word, nosp. intros H. apply andb_true_iff in H. destruct H as [Hn Hf].
  split.
  - destruct s; [discriminate|congruence].
  - apply Forall_forall. intros c Hc. rewrite forallb_forall in Hf. specialize (Hf c Hc).
    unfold is_word_char in Hf. now apply negb_true_iff in Hf.
Qed.

Lemma word_cons c s : word (c :: s) -> is_pyspace c = false /\ nosp s.
Proof. intros [_ H]. inversion H; subst. auto. Qed.

Lemma sp_is_space : is_pyspace c_sp = true.
Proof. reflexivity. Qed.

Lemma words_space c x : is_pyspace c = true -> words (c :: x) = words x.
Proof. intros H. cbn [words]. now rewrite H. Qed.

Lemma words_spaces k x : words (repeat c_sp k ++ x) = words x.
Proof. induction k; cbn [repeat app]; [reflexivity|]. rewrite words_space; auto. Qed.

Lemma words_step a b r :
  words (a :: b :: r) =
  if is_pyspace a then words (b :: r)
  else if is_pyspace b then [a] :: words (b :: r)
       else match words (b :: r) with h :: t => (a :: h) :: t | [] => [[a]] end.
Proof. reflexivity. Qed.

Lemma words_one a : is_pyspace a = false -> words [a] = [[a]].
Proof. intros H. cbn [words]. now rewrite H. Qed.

Lemma words_word_sp w : nosp w -> w <> [] -> forall c x, is_pyspace c = true ->
  words (w ++ c :: x) = w :: words x.
Proof.
  induction w as [|a w IH]; intros Hn Hne c x Hc; [congruence|].
  inversion Hn as [|? ? Ha Hw]; subst.
  destruct w as [|b w].
  - cbn [app]. rewrite words_step, Ha, Hc. now rewrite words_space.
  - assert (Hb : is_pyspace b = false) by (inversion Hw; auto).
    change ((a :: b :: w) ++ c :: x) with (a :: b :: (w ++ c :: x)).
    rewrite words_step, Ha, Hb.
    change (b :: (w ++ c :: x)) with ((b :: w) ++ c :: x).
    rewrite (IH Hw ltac:(discriminate) c x Hc). reflexivity.
Qed.

Lemma words_word w : nosp w -> w <> [] -> words w = [w].
Proof.
  induction w as [|a w IH]; intros Hn Hne; [congruence|].
  inversion Hn as [|? ? Ha Hw]; subst.
  destruct w as [|b w].
  - now apply words_one.
  - assert (Hb : is_pyspace b = false) by (inversion Hw; auto).
    rewrite words_step, Ha, Hb.
    rewrite (IH Hw ltac:(discriminate)). reflexivity.
Qed.

Lemma words_nil : words [] = [].
Proof. reflexivity. Qed.

(* a left-justified word followed by the separating blank *)
Lemma words_ljust n w x : word w -> words (ljust n w ++ c_sp :: x) = w :: words x.
Proof.
  intros [Hne Hn]. unfold ljust. rewrite <- app_assoc.
  destruct (n - length w) as [|k].
  - cbn [repeat app]. apply words_word_sp; auto.
  - cbn [repeat app]. rewrite words_word_sp; auto. now rewrite words_spaces, words_space.
Qed.

Lemma words_extras v ex : word v -> Forall word ex ->
  words (v ++ concat (map (fun e => c_sp :: c_sp :: e) ex)) = v :: ex.
Proof.
  revert v. induction ex as [|e ex IH]; intros v [Hne Hn] Hex.
  - cbn [map concat]. rewrite app_nil_r. now apply words_word.
  - inversion Hex; subst. cbn [map concat]. cbn [app].
    rewrite words_word_sp; auto. rewrite words_space; auto. now rewrite IH.
Qed.

(* ------------------------------------------------------------------ comments *)

Lemma dropw_nosp c x : is_pyspace c = false -> dropw (c :: x) = c :: x.
Proof. intros H. cbn [dropw]. now rewrite H. Qed.

Lemma boc_word_start c x : is_pyspace c = false -> blank_or_comment (c :: x) = ascii_eqb c c_hash.
Proof. intros H. unfold blank_or_comment. now rewrite dropw_nosp. Qed.

Lemma boc_hash x : blank_or_comment (c_hash :: x) = true.
Proof. now rewrite boc_word_start. Qed.

(* ------------------------------------------------------------------ prefixes, spans *)

Lemma strip_prefix_app p x : strip_prefix p (p ++ x) = Some x.
Proof.
  induction p as [|c p IH]; cbn [app strip_prefix]; [now destruct x|].
  now rewrite ascii_eqb_refl.
Qed.

Lemma spanw_word w : nosp w -> forall c x, is_pyspace c = true -> spanw (w ++ c :: x) = (w, c :: x).
Proof.
  induction 1 as [|a w Ha Hw IH]; intros c x Hc; cbn [app spanw].
  - now rewrite Hc.
  - rewrite Ha. now rewrite IH.
Qed.

Lemma spanw_all w : nosp w -> spanw w = (w, []).
Proof.
  induction 1 as [|a w Ha Hw IH]; cbn [spanw]; [reflexivity|]. rewrite Ha. now rewrite IH.
Qed.

Lemma nosp_app a b : nosp a -> nosp b -> nosp (a ++ b).
Proof. unfold nosp. intros. apply Forall_app; auto. Qed.

(* ------------------------------------------------------------------ lines *)

Definition nonl (s : str) : Prop :=
  Forall (fun c => ascii_eqb c c_nl = false /\ ascii_eqb c c_cr = false) s.

Lemma no_nl_nonl s : no_nl s = true -> nonl s.
Proof.
  unfold no_nl, nonl. intros H. apply Forall_forall. intros c Hc.
  rewrite forallb_forall in H. specialize (H c Hc). apply andb_true_iff in H.
  destruct H as [H1 H2]. now rewrite negb_true_iff in H1, H2.
Qed.

Lemma nosp_nonl s : nosp s -> nonl s.
Proof.
  unfold nosp, nonl. intros H. eapply Forall_impl; [|exact H]. intros c Hc. cbv beta in *.
  split.
  - destruct (ascii_eqb_spec c c_nl); auto. subst. discriminate.
  - destruct (ascii_eqb_spec c c_cr); auto. subst. discriminate.
Qed.

Lemma nonl_app a b : nonl a -> nonl b -> nonl (a ++ b).
Proof. unfold nonl. intros. apply Forall_app; auto. Qed.

Lemma nonl_cons c s : ascii_eqb c c_nl = false -> ascii_eqb c c_cr = false -> nonl s -> nonl (c :: s).
Proof. unfold nonl. intros. constructor; auto. Qed.

Lemma nonl_repeat c n : ascii_eqb c c_nl = false -> ascii_eqb c c_cr = false -> nonl (repeat c n).
Proof. intros. induction n; cbn [repeat]; [constructor|]. apply nonl_cons; auto. Qed.

Lemma lines_of_line l rest : nonl l -> lines_of (l ++ c_nl :: rest) = l :: lines_of rest.
Proof.
  induction 1 as [|c l [H1 H2] Hl IH]; cbn [app].
  - cbn [lines_of]. now rewrite ascii_eqb_refl.
  - cbn [lines_of]. rewrite H1, H2. now rewrite IH.
Qed.

Lemma lines_of_unlines ls : Forall nonl ls -> lines_of (unlines ls) = ls.
Proof.
  unfold unlines. induction 1 as [|l ls Hl Hls IH]; cbn [map concat]; [reflexivity|].
  rewrite <- app_assoc. cbn [app]. rewrite lines_of_line; auto. now rewrite IH.
Qed.

(* ------------------------------------------------------------------ sorting *)

Lemma str_ltb_asym a : forall b, str_ltb a b = true -> str_ltb b a = false.
Proof.
  induction a as [|x a IH]; intros [|y b] H; cbn [str_ltb] in *; try congruence.
  destruct (N.ltb (N_of_ascii x) (N_of_ascii y)) eqn:E1.
  - apply N.ltb_lt in E1. destruct (N.ltb (N_of_ascii y) (N_of_ascii x)) eqn:E2.
    + apply N.ltb_lt in E2. lia.
    + reflexivity.
  - destruct (N.ltb (N_of_ascii y) (N_of_ascii x)) eqn:E2; [discriminate|]. auto.
Qed.

Lemma insert_sorted_perm x l : Permutation (insert_sorted x l) (x :: l).
Proof.
  induction l as [|y l IH]; cbn [insert_sorted]; [reflexivity|].
  destruct (str_ltb y x); [|reflexivity].
  rewrite IH. apply perm_swap.
Qed.

Lemma sort_str_perm l : Permutation (sort_str l) l.
Proof.
  unfold sort_str. induction l as [|x l IH]; cbn [fold_right]; [reflexivity|].
  rewrite insert_sorted_perm. now constructor.
Qed.

Lemma sort_str_In x l : In x (sort_str l) <-> In x l.
Proof.
  split; apply Permutation_in; [apply sort_str_perm | symmetry; apply sort_str_perm].
Qed.

Lemma sort_str_NoDup l : NoDup l -> NoDup (sort_str l).
Proof. intros H. eapply Permutation_NoDup; [symmetry; apply sort_str_perm | exact H]. Qed.

(* each element is not above its successor *)
Fixpoint lsorted (l : list str) : Prop :=
  match l with
  | x :: (y :: _) as l' => str_ltb y x = false /\ lsorted l'
  | _ => True
  end.

Lemma insert_sorted_lsorted x l : lsorted l -> lsorted (insert_sorted x l).
Proof.
  induction l as [|y l IH]; intros H; cbn [insert_sorted]; [exact I|].
  destruct (str_ltb y x) eqn:E.
  - specialize (IH ltac:(destruct l; [exact I | apply H])).
    destruct l as [|z l]; cbn [insert_sorted] in *.
    + split; [now apply str_ltb_asym | exact I].
    + destruct (str_ltb z x) eqn:E2.
      * split; [apply H | exact IH].
      * split; [now apply str_ltb_asym | exact IH].
  - split; [exact E | exact H].
Qed.

Lemma sort_str_lsorted l : lsorted (sort_str l).
Proof.
  unfold sort_str. induction l as [|x l IH]; cbn [fold_right]; [exact I|].
  now apply insert_sorted_lsorted.
Qed.

Lemma sort_str_sorted_id l : lsorted l -> sort_str l = l.
Proof.
  unfold sort_str. induction l as [|x l IH]; intros H; cbn [fold_right]; [reflexivity|].
  rewrite IH by (destruct l; [exact I | apply H]).
  destruct l as [|y l]; cbn [insert_sorted]; [reflexivity|].
  destruct H as [H _]. now rewrite H.
Qed.

Lemma sort_str_idem l : sort_str (sort_str l) = sort_str l.
Proof. apply sort_str_sorted_id, sort_str_lsorted. Qed.

(* ------------------------------------------------------------------ association lists *)

Lemma aset_fresh {V} k (v : V) m : ~ In k (akeys m) -> aset k v m = m ++ [(k, v)].
Proof.
  unfold akeys. induction m as [|[k' v'] m IH]; intros H; cbn [aset app]; [reflexivity|].
  cbn [map fst In] in H. destruct (str_eqb_spec k k') as [->|Hne].
  - exfalso. apply H. now left.
  - rewrite IH; auto.
Qed.

Lemma alookup_In_keys {V} k (m : amap V) : In k (akeys m) -> exists v, alookup k m = Some v.
Proof.
  unfold akeys. induction m as [|[k' v'] m IH]; cbn [map fst In alookup]; [tauto|].
  intros [->|H].
  - rewrite str_eqb_refl. eauto.
  - destruct (str_eqb k k'); eauto.
Qed.

Lemma alookup_not_In {V} k (m : amap V) : ~ In k (akeys m) -> alookup k m = None.
Proof.
  unfold akeys. induction m as [|[k' v'] m IH]; cbn [map fst In alookup]; [reflexivity|].
  intros H. destruct (str_eqb_spec k k') as [->|Hne]; [exfalso; auto|]. apply IH. tauto.
Qed.

Lemma alookup_Some_In {V} k (v : V) m : alookup k m = Some v -> In (k, v) m.
Proof.
  induction m as [|[k' v'] m IH]; cbn [alookup]; [discriminate|].
  destruct (str_eqb_spec k k') as [->|Hne].
  - intros [= ->]. now left.
  - intros H. right. auto.
Qed.

Lemma alookup_app {V} k (a b : amap V) :
  alookup k (a ++ b) = match alookup k a with Some v => Some v | None => alookup k b end.
Proof.
  induction a as [|[k' v'] a IH]; cbn [app alookup]; [reflexivity|].
  destruct (str_eqb k k'); auto.
Qed.
