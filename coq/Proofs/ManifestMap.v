(* C18: Mapping.add / _apply / apply against the row-by-row reading of a remap table. *)
From Coq Require Import Lia.
From Eupsv Require Import Base.Base Base.BaseLemmas Model.Manifest Model.ManifestSpec Proofs.ManifestLib.

(* ------------------------------------------------------------------ two-level lookups *)

Definition mgroup (fm : fmap) (f p : str) : option vmap :=
  match alookup f fm with Some pm => alookup p pm | None => None end.

Definition group_val (fm : fmap) (f p : str) : vmap :=
  match mgroup fm f p with Some vm => vm | None => [] end.

Definition mget (fm : fmap) (f p k : str) : option mval := alookup k (group_val fm f p).

Lemma mget_fm_get fm f p k : mget fm f p k = fm_get fm f p k.
Proof.
  unfold mget, group_val, mgroup, fm_get. destruct (alookup f fm) as [pm|]; [|reflexivity].
  destruct (alookup p pm); reflexivity.
Qed.

Lemma oget_group fm f p : oget p (oget f fm) = group_val fm f p.
Proof. unfold oget, group_val, mgroup. destruct (alookup f fm) eqn:E; reflexivity. Qed.

Lemma mgroup_aset2 fm fl inP X f p :
  mgroup (aset fl (aset inP X (oget fl fm)) fm) f p =
  if str_eqb f fl && str_eqb p inP then Some X else mgroup fm f p.
Proof.
  unfold mgroup. destruct (str_eqb_spec f fl) as [->|Hf].
  - rewrite alookup_aset_same. destruct (str_eqb_spec p inP) as [->|Hp]; cbn [andb].
    + now rewrite alookup_aset_same.
    + rewrite alookup_aset_other by assumption. unfold oget. destruct (alookup fl fm); reflexivity.
  - cbn [andb]. now rewrite alookup_aset_other.
Qed.

Lemma mgroup_fm_add fm inP inV outP outV fl f p :
  mgroup (fm_add fm inP inV outP outV fl true) f p =
  if str_eqb f fl && str_eqb p inP
  then Some (aset inV (outP, out_version outV) (group_val fm fl inP))
  else mgroup fm f p.
Proof. unfold fm_add. cbn [negb andb]. rewrite oget_group. apply mgroup_aset2. Qed.

Lemma mget_fm_add fm inP inV outP outV fl f p k :
  mget (fm_add fm inP inV outP outV fl true) f p k =
  if str_eqb f fl && str_eqb p inP && str_eqb k inV then Some (outP, out_version outV) else mget fm f p k.
Proof.
  unfold mget, group_val at 1. rewrite mgroup_fm_add.
  destruct (str_eqb_spec f fl) as [->|Hf]; cbn [andb]; [|reflexivity].
  destruct (str_eqb_spec p inP) as [->|Hp]; cbn [andb]; [|reflexivity].
  destruct (str_eqb_spec k inV) as [->|Hk].
  - now rewrite alookup_aset_same.
  - now rewrite alookup_aset_other.
Qed.

Lemma m_exists1_mget m p v f :
  m_exists1 m p v f = match mget (mp_map m) f p v with Some _ => true | None => false end.
Proof.
  unfold m_exists1, mget, group_val, mgroup, amem.
  destruct (alookup f (mp_map m)) as [pm|]; [|reflexivity]. destruct (alookup p pm); reflexivity.
Qed.

(* ------------------------------------------------------------------ _apply and apply through lookups *)

(* the row of one flavor level that answers for (p, v) *)
Definition fm_find (fm : fmap) (f p v : str) : option mval :=
  match mget fm f p v with Some r => Some r | None => mget fm f p s_any end.

(* the row that answers for (p, v) when the running flavor is fl *)
Definition fm_says (fm : fmap) (fl p v : str) : option mval :=
  match fm_find fm fl p v with
  | Some r => Some r
  | None => if str_eqb fl s_generic then None else fm_find fm s_generic p v
  end.

Lemma m_apply1_find m p v f :
  m_apply1 m p v f = match fm_find (mp_map m) f p v with Some r => r | None => (p, Some v) end.
Proof.
  unfold m_apply1, fm_find, mget, group_val, mgroup.
  destruct (alookup f (mp_map m)) as [pm|]; [|reflexivity].
  destruct (alookup p pm) as [vm|]; [|reflexivity].
  destruct (alookup v vm); [reflexivity|]. destruct (alookup s_any vm); reflexivity.
Qed.

Lemma m_apply_says m p v fl :
  m_apply m p v fl = match fm_says (mp_map m) fl p v with Some r => r | None => (p, Some v) end.
Proof.
  unfold m_apply, fm_says. rewrite !m_exists1_mget, !m_apply1_find.
  destruct (str_eqb_spec fl s_generic) as [->|Hg]; cbn [negb andb].
  - destruct (fm_find (mp_map m) s_generic p v); reflexivity.
  - unfold fm_find at 2 3.
    destruct (mget (mp_map m) fl p v); cbn [orb negb]; [reflexivity|].
    destruct (mget (mp_map m) fl p s_any); reflexivity.
Qed.

(* tables that answer every lookup alike are applied alike *)
Definition fm_equiv (a b : fmap) : Prop := forall f p k, fm_get a f p k = fm_get b f p k.

Lemma fm_equiv_mget a b : fm_equiv a b -> forall f p k, mget a f p k = mget b f p k.
Proof. intros H f p k. rewrite !mget_fm_get. apply H. Qed.

Lemma fm_says_equiv a b fl p v : fm_equiv a b -> fm_says a fl p v = fm_says b fl p v.
Proof. intros H. unfold fm_says, fm_find. now rewrite !(fm_equiv_mget _ _ H). Qed.

Lemma m_apply_equiv a b p v fl : fm_equiv (mp_map a) (mp_map b) -> m_apply a p v fl = m_apply b p v fl.
Proof. intros H. rewrite !m_apply_says. now rewrite (fm_says_equiv _ _ _ _ _ H). Qed.

Lemma remap_equiv fx a b fl ds : fm_equiv (mp_map a) (mp_map b) -> remap fx a fl ds = remap fx b fl ds.
Proof.
  intros H. unfold remap. induction ds as [|d ds IH]; cbn [flat_map]; [reflexivity|].
  rewrite IH. unfold remap_dep. now rewrite (m_apply_equiv _ _ _ _ _ H).
Qed.

Lemma fm_equiv_refl a : fm_equiv a a.
Proof. intros f p k. reflexivity. Qed.

Lemma fm_equiv_sym a b : fm_equiv a b -> fm_equiv b a.
Proof. intros H f p k. symmetry. apply H. Qed.

Lemma fm_equiv_trans a b c : fm_equiv a b -> fm_equiv b c -> fm_equiv a c.
Proof. intros H1 H2 f p k. now rewrite H1. Qed.

(* ------------------------------------------------------------------ rows *)

Definition row_val (r : row) : mval :=
  (match r_outP r with Some (a :: b) => a :: b | _ => r_inP r end, out_version (r_outV r)).

Definition val_verdict (x : mval) : verdict :=
  match snd x with Some w => Replace (fst x) w | None => Delete end.

Lemma verdict_row_val r : verdict_of r = val_verdict (row_val r).
Proof. unfold verdict_of, val_verdict, row_val. cbn [fst snd]. now destruct (r_outV r) as [[|c w]|]. Qed.

Definition lastval (rows : list row) (f p k : str) : option mval :=
  match last_row rows f p k with Some r => Some (row_val r) | None => None end.

Lemma last_row_snoc rows r f p k :
  last_row (rows ++ [r]) f p k = if names f p k r then Some r else last_row rows f p k.
Proof. unfold last_row. rewrite rev_unit. reflexivity. Qed.

Lemma find_app {A} (g : A -> bool) a b :
  find g (a ++ b) = match find g a with Some x => Some x | None => find g b end.
Proof. induction a as [|x a IH]; cbn [app find]; [reflexivity|]. now destruct (g x). Qed.

Lemma last_row_app a b f p k :
  last_row (a ++ b) f p k = match last_row b f p k with Some r => Some r | None => last_row a f p k end.
Proof. unfold last_row. rewrite rev_app_distr. apply find_app. Qed.

Lemma lastval_app a b f p k :
  lastval (a ++ b) f p k = match lastval b f p k with Some x => Some x | None => lastval a f p k end.
Proof. unfold lastval. rewrite last_row_app. now destruct (last_row b f p k). Qed.

Lemma m_of_rows_snoc rows r : m_of_rows (rows ++ [r]) = add_row (m_of_rows rows) r.
Proof. unfold m_of_rows. now rewrite fold_left_app. Qed.

Lemma last_row_names rows f p k r : last_row rows f p k = Some r -> names f p k r = true.
Proof. unfold last_row. intros H. now apply find_some in H. Qed.

Lemma last_row_In rows f p k r : last_row rows f p k = Some r -> In r rows.
Proof. unfold last_row. intros H. apply find_some in H. apply in_rev. apply H. Qed.

Lemma last_row_None_In rows f p k r : last_row rows f p k = None -> In r rows -> names f p k r = false.
Proof. unfold last_row. intros H Hin. apply (find_none _ _ H). now apply in_rev in Hin. Qed.

Lemma mp_map_add_row m r :
  mp_map (add_row m r) =
  if is_noreinstall (r_outV r) then mp_map m
  else fm_add (mp_map m) (r_inP r) (r_inV r) (fst (row_val r)) (r_outV r) (r_fl r) true.
Proof. unfold add_row, add_row_ow, m_add, row_val. cbn [fst]. now destruct (is_noreinstall (r_outV r)). Qed.

Lemma in_group_eq f p r : in_group f p r = true ->
  r_fl r = f /\ r_inP r = p /\ is_noreinstall (r_outV r) = false.
Proof.
  unfold in_group. intros H. do 2 (apply andb_true_iff in H; destruct H as [H ?]).
  apply str_eqb_eq in H, H1. now apply negb_true_iff in H0.
Qed.

Lemma names_spec f p k r :
  names f p k r = str_eqb f (r_fl r) && str_eqb p (r_inP r) && str_eqb k (r_inV r) && negb (is_noreinstall (r_outV r)).
Proof.
  unfold names, in_group. rewrite (str_eqb_sym (r_fl r)), (str_eqb_sym (r_inP r)), (str_eqb_sym (r_inV r)).
  destruct (str_eqb f (r_fl r)), (str_eqb p (r_inP r)), (str_eqb k (r_inV r)), (is_noreinstall (r_outV r)); reflexivity.
Qed.

(* the dictionaries built by add hold, under every key, the value of the last row that names it *)
Lemma mget_m_of_rows rows f p k : mget (mp_map (m_of_rows rows)) f p k = lastval rows f p k.
Proof.
  induction rows as [|r rows IH] using rev_ind; [reflexivity|].
  rewrite m_of_rows_snoc, mp_map_add_row. unfold lastval. rewrite last_row_snoc, names_spec.
  destruct (is_noreinstall (r_outV r)) eqn:En.
  - cbn [negb]. rewrite andb_false_r. exact IH.
  - cbn [negb]. rewrite andb_true_r, mget_fm_add.
    destruct (str_eqb f (r_fl r) && str_eqb p (r_inP r) && str_eqb k (r_inV r)); [|exact IH].
    unfold row_val. reflexivity.
Qed.

(* ------------------------------------------------------------------ one flavor level, both levels *)

Lemma fm_find_rows rows f p v :
  option_map val_verdict (fm_find (mp_map (m_of_rows rows)) f p v) = level_says rows f p v.
Proof.
  unfold fm_find, level_says. rewrite !mget_m_of_rows. unfold lastval.
  destruct (last_row rows f p v) as [r|]; cbn [option_map]; [now rewrite verdict_row_val|].
  destruct (last_row rows f p s_any) as [r|]; cbn [option_map]; [now rewrite verdict_row_val|reflexivity].
Qed.

Lemma fm_says_rows rows fl p v :
  option_map val_verdict (fm_says (mp_map (m_of_rows rows)) fl p v) = says rows fl p v.
Proof.
  unfold fm_says, says. rewrite <- !fm_find_rows.
  destruct (fm_find (mp_map (m_of_rows rows)) fl p v); cbn [option_map]; [reflexivity|].
  destruct (str_eqb fl s_generic); reflexivity.
Qed.

Lemma remap_dep_verdict fx m fl d :
  remap_dep fx m fl d =
  match option_map val_verdict (fm_says (mp_map m) fl (d_product d) (d_version d)) with
  | None => [d]
  | Some Delete => []
  | Some (Replace q w) =>
      if str_eqb q (d_product d) && str_eqb w (d_version d) then [d]
      else [new_dep fx q w None None None None false false []]
  end.
Proof.
  unfold remap_dep. rewrite m_apply_says.
  destruct (fm_says (mp_map m) fl (d_product d) (d_version d)) as [[q [w|]]|]; cbn [option_map val_verdict fst snd];
    try reflexivity.
  now rewrite !str_eqb_refl.
Qed.

Lemma remap_dep_says rows fl d :
  remap_dep true (m_of_rows rows) fl d = spec_remap_dep rows fl d.
Proof. rewrite remap_dep_verdict, fm_says_rows. reflexivity. Qed.

Lemma remap_says rows fl ds : remap true (m_of_rows rows) fl ds = spec_remap rows fl ds.
Proof.
  unfold remap, spec_remap. induction ds as [|d ds IH]; cbn [flat_map]; [reflexivity|].
  now rewrite remap_dep_says, IH.
Qed.

(* the apply of the table, entry by entry *)
Lemma apply_says rows fl p v :
  m_apply (m_of_rows rows) p v fl =
  match fm_says (mp_map (m_of_rows rows)) fl p v with Some r => r | None => (p, Some v) end.
Proof. apply m_apply_says. Qed.

Lemma apply_untouched rows fl p v : says rows fl p v = None -> m_apply (m_of_rows rows) p v fl = (p, Some v).
Proof.
  intros H. rewrite m_apply_says. rewrite <- fm_says_rows in H.
  destruct (fm_says (mp_map (m_of_rows rows)) fl p v); [discriminate|reflexivity].
Qed.

Lemma apply_replaced rows fl p v q w :
  says rows fl p v = Some (Replace q w) -> m_apply (m_of_rows rows) p v fl = (q, Some w).
Proof.
  intros H. rewrite m_apply_says. rewrite <- fm_says_rows in H.
  destruct (fm_says (mp_map (m_of_rows rows)) fl p v) as [[q' [w'|]]|]; cbn [option_map val_verdict fst snd] in H;
    congruence.
Qed.

Lemma apply_deleted rows fl p v :
  says rows fl p v = Some Delete -> snd (m_apply (m_of_rows rows) p v fl) = None.
Proof.
  intros H. rewrite m_apply_says. rewrite <- fm_says_rows in H.
  destruct (fm_says (mp_map (m_of_rows rows)) fl p v) as [[q' [w'|]]|]; cbn [option_map val_verdict fst snd] in H;
    try discriminate. reflexivity.
Qed.
