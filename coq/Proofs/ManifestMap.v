(* C18: Mapping.add / _apply / apply against the row-by-row reading of a remap table. *)
From Coq Require Import Lia.
From Eupsv Require Import Base.Base Base.BaseLemmas Model.Manifest Model.ManifestSpec Proofs.ManifestLib.

(* ------------------------------------------------------------------ two-level lookups *)

Definition mgroup (fm : fmap) (f p : str) : option vmap :=
  match alookup f fm with Some pm => alookup p pm | None => None end.

Definition group_val (fm : fmap) (f p : str) : vmap :=
  match mgroup fm f p with Some vm => vm | None => [] end.

Definition mget (fm : fmap) (f p k : str) : option (str * str) := alookup k (group_val fm f p).

Lemma oget_group fm f p : oget p (oget f fm) = group_val fm f p.
Proof. unfold oget, group_val, mgroup. destruct (alookup f fm) eqn:E; reflexivity. Qed.

Lemma mgroup_fm_add fm inP inV outP outV fl f p :
  mgroup (fm_add fm inP inV outP outV fl true) f p =
  if str_eqb f fl && str_eqb p inP
  then Some (match outV with
             | Some (c :: w) => aset inV (outP, c :: w) (group_val fm fl inP)
             | _ => aremove inV (group_val fm fl inP)
             end)
  else mgroup fm f p.
Proof.
  unfold fm_add. cbn [negb andb]. rewrite oget_group.
  assert (G : forall X, mgroup (aset fl (aset inP X (oget fl fm)) fm) f p =
                        if str_eqb f fl && str_eqb p inP then Some X else mgroup fm f p).
  { intros X. unfold mgroup. destruct (str_eqb_spec f fl) as [->|Hf].
    - rewrite alookup_aset_same. destruct (str_eqb_spec p inP) as [->|Hp]; cbn [andb].
      + now rewrite alookup_aset_same.
      + rewrite alookup_aset_other by assumption. unfold oget. destruct (alookup fl fm); reflexivity.
    - cbn [andb]. now rewrite alookup_aset_other. }
  destruct outV as [[|c w]|]; apply G.
Qed.

Lemma m_apply1_mgroup m p v fl :
  m_apply1 m p v fl =
  match mgroup (mp_map m) fl p with
  | None => (p, Some v)
  | Some [] => (p, None)
  | Some vm => match alookup v vm with
               | Some (q, w) => (q, Some w)
               | None => match alookup s_any vm with
                         | Some (q, w) => (q, Some w)
                         | None => (p, Some v)
                         end
               end
  end.
Proof. unfold m_apply1, mgroup. destruct (alookup fl (mp_map m)); reflexivity. Qed.

Lemma vm_empty (vm : vmap) : (forall k, alookup k vm = None) -> vm = [].
Proof.
  destruct vm as [|[k x] vm]; auto. intros H. specialize (H k). cbn [alookup] in H.
  rewrite str_eqb_refl in H. discriminate.
Qed.

(* ------------------------------------------------------------------ rows *)

Definition lastval (rows : list row) (f p k : str) : option (str * str) :=
  match last_row rows f p k with
  | Some r => match verdict_of r with Replace q w => Some (q, w) | Delete => None end
  | None => None
  end.

Lemma last_row_snoc rows r f p k :
  last_row (rows ++ [r]) f p k = if names f p k r then Some r else last_row rows f p k.
Proof. unfold last_row. rewrite rev_unit. reflexivity. Qed.

Lemma group_keys_snoc rows r f p :
  group_keys (rows ++ [r]) f p = group_keys rows f p ++ (if in_group f p r then [r_inV r] else []).
Proof.
  unfold group_keys. rewrite filter_app, map_app. cbn [filter]. now destruct (in_group f p r).
Qed.

Lemma m_of_rows_snoc rows r : m_of_rows (rows ++ [r]) = add_row (m_of_rows rows) r.
Proof. unfold m_of_rows. now rewrite fold_left_app. Qed.

Lemma last_row_None rows f p k : last_row rows f p k = None <-> ~ In k (group_keys rows f p).
Proof.
  unfold last_row, group_keys. split.
  - intros H Hin. apply in_map_iff in Hin. destruct Hin as [r [<- Hr]]. apply filter_In in Hr.
    destruct Hr as [Hr Hg]. pose proof (find_none _ _ H r (proj1 (in_rev _ _) Hr)) as Hn.
    unfold names in Hn. rewrite Hg, str_eqb_refl in Hn. discriminate.
  - intros H. destruct (find (names f p k) (rev rows)) as [r|] eqn:E; [|reflexivity].
    exfalso. apply find_some in E. destruct E as [Hin Hn]. apply H.
    unfold names in Hn. apply andb_true_iff in Hn. destruct Hn as [Hg Hk].
    apply str_eqb_eq in Hk. subst k. apply in_map. apply filter_In. split; [now apply in_rev|assumption].
Qed.

Lemma last_row_names rows f p k r : last_row rows f p k = Some r -> names f p k r = true.
Proof. unfold last_row. intros H. now apply find_some in H. Qed.

Definition Inv (rows : list row) (fm : fmap) : Prop :=
  forall f p, (mgroup fm f p = None <-> group_keys rows f p = []) /\
              forall k, mget fm f p k = lastval rows f p k.

Lemma mp_map_add_row m r :
  mp_map (add_row m r) =
  if is_noreinstall (r_outV r) then mp_map m
  else fm_add (mp_map m) (r_inP r) (r_inV r)
         (match r_outP r with Some (a :: b) => a :: b | _ => r_inP r end) (r_outV r) (r_fl r) true.
Proof. unfold add_row, m_add. now destruct (is_noreinstall (r_outV r)). Qed.

Lemma in_group_eq f p r : in_group f p r = true ->
  r_fl r = f /\ r_inP r = p /\ is_noreinstall (r_outV r) = false.
Proof.
  unfold in_group. intros H. do 2 (apply andb_true_iff in H; destruct H as [H ?]).
  apply str_eqb_eq in H, H1. now apply negb_true_iff in H0.
Qed.

Lemma Inv_m_of_rows rows : Inv rows (mp_map (m_of_rows rows)).
Proof.
  induction rows as [|r rows IH] using rev_ind.
  - intros f p. split; [split; reflexivity|]. intros k. reflexivity.
  - rewrite m_of_rows_snoc, mp_map_add_row.
    destruct (is_noreinstall (r_outV r)) eqn:En.
    + intros f p. destruct (IH f p) as [I1 I2].
      assert (Hg : in_group f p r = false) by (unfold in_group; rewrite En; cbn [negb]; now rewrite andb_false_r).
      rewrite group_keys_snoc, Hg, app_nil_r. split; auto.
      intros k. unfold lastval. rewrite last_row_snoc. unfold names. rewrite Hg. cbn [andb]. apply I2.
    + intros f p. destruct (IH f p) as [I1 I2].
      unfold mget, group_val. rewrite mgroup_fm_add.
      rewrite group_keys_snoc. unfold lastval. setoid_rewrite last_row_snoc.
      destruct (str_eqb_spec f (r_fl r)) as [->|Hf]; cbn [andb].
      * destruct (str_eqb_spec p (r_inP r)) as [->|Hp].
        -- assert (Hg : in_group (r_fl r) (r_inP r) r = true)
             by (unfold in_group; now rewrite !str_eqb_refl, En).
           rewrite Hg. split.
           ++ split; [discriminate|]. intros H. now apply app_eq_nil in H.
           ++ intros k. unfold names. rewrite Hg. cbn [andb].
              destruct (IH (r_fl r) (r_inP r)) as [_ J2]. unfold mget in J2.
              destruct (str_eqb_spec (r_inV r) k) as [<-|Hk].
              ** unfold verdict_of. destruct (r_outV r) as [[|c w]|].
                 --- now rewrite alookup_aremove_same.
                 --- now rewrite alookup_aset_same.
                 --- now rewrite alookup_aremove_same.
              ** fold (lastval rows (r_fl r) (r_inP r) k). rewrite <- J2.
                 destruct (r_outV r) as [[|c w]|].
                 --- apply alookup_aremove_other. congruence.
                 --- apply alookup_aset_other. congruence.
                 --- apply alookup_aremove_other. congruence.
        -- assert (Hg : in_group (r_fl r) p r = false).
           { unfold in_group. destruct (str_eqb_spec (r_inP r) p); [congruence|]. now rewrite andb_false_r. }
           rewrite Hg, app_nil_r. split; auto.
           intros k. unfold names. rewrite Hg. cbn [andb]. apply I2.
      * assert (Hg : in_group f p r = false).
        { unfold in_group. destruct (str_eqb_spec (r_fl r) f); [congruence|]. reflexivity. }
        rewrite Hg, app_nil_r. split; auto.
        intros k. unfold names. rewrite Hg. cbn [andb]. apply I2.
Qed.

(* ------------------------------------------------------------------ one flavor level *)

Definition result_of (x : option verdict) (p v : str) : str * option str :=
  match x with
  | Some (Replace q w) => (q, Some w)
  | Some Delete => (p, None)
  | None => (p, Some v)
  end.

Lemma key_deleted_lastval rows f p k :
  key_deleted rows f p k = false -> In k (group_keys rows f p) ->
  exists r q w, last_row rows f p k = Some r /\ verdict_of r = Replace q w /\ lastval rows f p k = Some (q, w).
Proof.
  intros Hd Hin. unfold key_deleted, lastval in *.
  destruct (last_row rows f p k) as [r|] eqn:E.
  - destruct (verdict_of r) as [q w|] eqn:Ev; [|discriminate]. exists r, q, w. auto.
  - exfalso. now apply last_row_None in E.
Qed.

Lemma level_code rows f p v :
  group_ok rows f p = true ->
  m_apply1 (m_of_rows rows) p v f = result_of (level_says rows f p v) p v.
Proof.
  intros Hok. rewrite m_apply1_mgroup.
  destruct (Inv_m_of_rows rows f p) as [[I1a I1b] I2]. unfold mget, group_val in I2.
  unfold group_ok in Hok. apply orb_true_iff in Hok.
  assert (Hnone : forall k, ~ In k (group_keys rows f p) -> lastval rows f p k = None).
  { intros k Hk. unfold lastval. apply last_row_None in Hk. now rewrite Hk. }
  destruct Hok as [Hlive|Hdel].
  - (* no key ends deleted *)
    rewrite forallb_forall in Hlive.
    assert (Hl : forall k, lastval rows f p k = None -> last_row rows f p k = None).
    { intros k Hk. destruct (in_dec str_eq_dec k (group_keys rows f p)) as [Hin|Hin].
      - specialize (Hlive k Hin). apply negb_true_iff in Hlive.
        destruct (key_deleted_lastval _ _ _ _ Hlive Hin) as [r [q [w [_ [_ E]]]]]. congruence.
      - now apply last_row_None. }
    destruct (mgroup (mp_map (m_of_rows rows)) f p) as [vm|] eqn:Eg.
    + assert (Hne : vm <> []).
      { intros ->. destruct (group_keys rows f p) as [|k0 ks] eqn:Ek.
        - specialize (I1b eq_refl). discriminate.
        - assert (Hin : In k0 (k0 :: ks)) by now left.
          pose proof (Hlive k0 Hin) as Hl0. apply negb_true_iff in Hl0.
          assert (Hin' : In k0 (group_keys rows f p)) by (rewrite Ek; now left).
          destruct (key_deleted_lastval _ _ _ _ Hl0 Hin') as [r [q [w [_ [_ E]]]]].
          rewrite <- I2 in E. discriminate. }
      destruct vm as [|e vm]; [congruence|]. rewrite !I2. unfold level_says.
      unfold lastval at 1. destruct (last_row rows f p v) as [r|] eqn:E1.
      * pose proof (last_row_names _ _ _ _ _ E1) as Hn.
        assert (Hin : In v (group_keys rows f p)).
        { destruct (in_dec str_eq_dec v (group_keys rows f p)); auto.
          apply last_row_None in n. congruence. }
        specialize (Hlive v Hin). apply negb_true_iff in Hlive. unfold key_deleted in Hlive.
        rewrite E1 in Hlive. destruct (verdict_of r); [reflexivity|discriminate].
      * unfold lastval. destruct (last_row rows f p s_any) as [r|] eqn:E2; [|reflexivity].
        assert (Hin : In s_any (group_keys rows f p)).
        { destruct (in_dec str_eq_dec s_any (group_keys rows f p)); auto.
          apply last_row_None in n. congruence. }
        specialize (Hlive s_any Hin). apply negb_true_iff in Hlive. unfold key_deleted in Hlive.
        rewrite E2 in Hlive. destruct (verdict_of r); [reflexivity|discriminate].
    + assert (Ek : group_keys rows f p = []) by now apply I1a.
      unfold level_says.
      assert (H1 : last_row rows f p v = None) by (apply last_row_None; now rewrite Ek).
      assert (H2 : last_row rows f p s_any = None) by (apply last_row_None; now rewrite Ek).
      now rewrite H1, H2.
  - (* every key ends deleted and the any key is one of them *)
    apply andb_true_iff in Hdel. destruct Hdel as [Hall Hany].
    rewrite forallb_forall in Hall. apply mem_str_In in Hany.
    assert (Hdelv : forall k r, last_row rows f p k = Some r -> verdict_of r = Delete).
    { intros k r E. assert (Hin : In k (group_keys rows f p)).
      { destruct (in_dec str_eq_dec k (group_keys rows f p)); auto. apply last_row_None in n. congruence. }
      specialize (Hall k Hin). unfold key_deleted in Hall. rewrite E in Hall.
      destruct (verdict_of r); [discriminate|reflexivity]. }
    assert (Hl : forall k, lastval rows f p k = None).
    { intros k. unfold lastval. destruct (last_row rows f p k) as [r|] eqn:E; [|reflexivity].
      now rewrite (Hdelv _ _ E). }
    destruct (mgroup (mp_map (m_of_rows rows)) f p) as [vm|] eqn:Eg.
    + assert (vm = []) by (apply vm_empty; intros k; rewrite I2; apply Hl). subst vm.
      unfold level_says. destruct (last_row rows f p v) as [r|] eqn:E1.
      * now rewrite (Hdelv _ _ E1).
      * destruct (last_row rows f p s_any) as [r|] eqn:E2.
        -- now rewrite (Hdelv _ _ E2).
        -- apply last_row_None in E2. contradiction.
    + assert (Ek : group_keys rows f p = []) by now apply I1a. rewrite Ek in Hany. destruct Hany.
Qed.

(* ------------------------------------------------------------------ apply with the generic fall-back *)

Lemma same_pv_result x p v : same_pv (result_of x p v) p v =
  match x with None => true | Some y => same_verdict (Some y) p v end.
Proof.
  destruct x as [[q w|]|]; cbn [result_of same_pv same_verdict]; auto.
  now rewrite !str_eqb_refl.
Qed.

Lemma apply_says rows fl p v :
  entry_ok rows fl p v = true ->
  m_apply (m_of_rows rows) p v fl = result_of (says rows fl p v) p v.
Proof.
  unfold entry_ok. intros H. apply andb_true_iff in H. destruct H as [H Hsh].
  apply andb_true_iff in H. destruct H as [Hok1 Hok2]. apply negb_true_iff in Hsh.
  unfold m_apply. rewrite (level_code _ _ _ _ Hok1), (level_code _ _ _ _ Hok2).
  rewrite same_pv_result. unfold says, shadowed_identity in *.
  destruct (str_eqb fl s_generic) eqn:Eg; cbn [negb andb] in *.
  - destruct (level_says rows fl p v); reflexivity.
  - destruct (level_says rows fl p v) as [x|] eqn:E1; [|reflexivity].
    destruct (same_verdict (Some x) p v) eqn:Es; [|reflexivity].
    cbn [andb] in Hsh.
    destruct x as [q w|]; cbn [same_verdict] in Es; [|discriminate].
    apply andb_true_iff in Es. destruct Es as [Eq Ew]. apply str_eqb_eq in Eq, Ew. subst q w.
    destruct (level_says rows s_generic p v) as [y|] eqn:E2; [|reflexivity].
    apply negb_false_iff in Hsh. destruct y as [q w|]; cbn [same_verdict] in Hsh; [|discriminate].
    apply andb_true_iff in Hsh. destruct Hsh as [Eq Ew]. apply str_eqb_eq in Eq, Ew. now subst q w.
Qed.

Lemma remap_dep_says rows fl d :
  entry_ok rows fl (d_product d) (d_version d) = true ->
  remap_dep true (m_of_rows rows) fl d = spec_remap_dep rows fl d.
Proof.
  intros H. unfold remap_dep, spec_remap_dep. rewrite (apply_says _ _ _ _ H).
  destruct (says rows fl (d_product d) (d_version d)) as [[q w|]|]; cbn [result_of]; try reflexivity.
  now rewrite !str_eqb_refl.
Qed.

Lemma remap_says rows fl ds :
  (forall d, In d ds -> entry_ok rows fl (d_product d) (d_version d) = true) ->
  remap true (m_of_rows rows) fl ds = spec_remap rows fl ds.
Proof.
  unfold remap, spec_remap. induction ds as [|d ds IH]; intros H; cbn [flat_map]; [reflexivity|].
  rewrite remap_dep_says by (apply H; now left). f_equal. apply IH. intros; apply H; now right.
Qed.
