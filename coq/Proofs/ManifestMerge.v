(* C18: Mapping.merge - row-wise union of two tables, one of them taking precedence. *)
From Coq Require Import Lia.
From Eupsv Require Import Base.Base Base.BaseLemmas Model.Manifest Model.ManifestSpec
  Proofs.ManifestLib Proofs.ManifestMap Proofs.ManifestInv.

(* the union of two answers: the one that takes precedence first *)
Definition pick {A} (first second : option A) : option A :=
  match first with Some x => Some x | None => second end.

Definition union_get {A} (ow : bool) (mine theirs : option A) : option A :=
  if ow then pick theirs mine else pick mine theirs.

Lemma NoDup_cons_keys {V} k (x : V) o : NoDup (akeys ((k, x) :: o)) -> alookup k o = None /\ NoDup (akeys o).
Proof.
  unfold akeys. cbn [map fst]. intros H. inversion H; subst. split; [|assumption].
  apply alookup_not_In. exact H2.
Qed.

Lemma alookup_vm_merge (o : vmap) : forall rows ow k, NoDup (akeys o) ->
  alookup k (vm_merge rows o ow) = union_get ow (alookup k rows) (alookup k o).
Proof.
  unfold vm_merge. induction o as [|[k0 x0] o IH]; intros rows ow k Hnd; cbn [fold_left fst snd].
  - cbn [alookup]. unfold union_get, pick. destruct ow; [reflexivity|]. now destruct (alookup k rows).
  - destruct (NoDup_cons_keys _ _ _ Hnd) as [Hk0 Hnd']. rewrite IH by assumption.
    cbn [alookup]. unfold union_get, pick, amem.
    destruct ow; cbn [negb andb].
    + destruct (str_eqb_spec k k0) as [->|Hne].
      * now rewrite Hk0, alookup_aset_same.
      * now rewrite alookup_aset_other.
    + destruct (alookup k0 rows) as [y|] eqn:Ey.
      * destruct (str_eqb_spec k k0) as [->|Hne]; [now rewrite Ey|reflexivity].
      * destruct (str_eqb_spec k k0) as [->|Hne].
        -- now rewrite alookup_aset_same, Ey.
        -- now rewrite alookup_aset_other.
Qed.

Lemma alookup_pm_merge (o : pmap) : forall s ow p, NoDup (akeys o) ->
  alookup p (pm_merge s o ow) =
  match alookup p o with
  | Some ovm => Some (vm_merge (oget p s) ovm ow)
  | None => alookup p s
  end.
Proof.
  unfold pm_merge. induction o as [|[p0 ovm0] o IH]; intros s ow p Hnd; cbn [fold_left fst snd]; [reflexivity|].
  destruct (NoDup_cons_keys _ _ _ Hnd) as [Hp0 Hnd']. rewrite IH by assumption. cbn [alookup].
  destruct (str_eqb_spec p p0) as [->|Hne].
  - now rewrite Hp0, alookup_aset_same.
  - unfold oget. now rewrite !alookup_aset_other.
Qed.

Lemma alookup_fm_merge (o : fmap) : forall s ow f, NoDup (akeys o) ->
  alookup f (fm_merge s o ow) =
  match alookup f o with
  | Some (e :: opm) => Some (pm_merge (oget f s) (e :: opm) ow)
  | _ => alookup f s
  end.
Proof.
  unfold fm_merge. induction o as [|[f0 opm0] o IH]; intros s ow f Hnd; cbn [fold_left fst snd]; [reflexivity|].
  destruct (NoDup_cons_keys _ _ _ Hnd) as [Hf0 Hnd']. rewrite IH by assumption. cbn [alookup].
  destruct (str_eqb_spec f f0) as [->|Hne].
  - rewrite Hf0. destruct opm0; [reflexivity|]. now rewrite alookup_aset_same.
  - destruct opm0; [reflexivity|]. unfold oget. now rewrite !alookup_aset_other.
Qed.

(* the law of merge: every lookup in the merged table is the union of the lookups *)
Lemma mget_fm_merge s o ow f p k : fm_nodup o ->
  mget (fm_merge s o ow) f p k = union_get ow (mget s f p k) (mget o f p k).
Proof.
  intros [N1 N2]. unfold mget, group_val, mgroup. rewrite alookup_fm_merge by assumption.
  destruct (alookup f o) as [opm|] eqn:Ef.
  - destruct (N2 _ _ (alookup_Some_In _ _ _ Ef)) as [N3 N4].
    destruct opm as [|e opm].
    + cbn [alookup]. unfold union_get, pick. destruct ow; [reflexivity|].
      now destruct (match alookup f s with Some pm => alookup p pm | None => None end) as [vm|]; [destruct (alookup k vm)|].
    + rewrite alookup_pm_merge by assumption.
      destruct (alookup p (e :: opm)) as [ovm|] eqn:Ep.
      * rewrite alookup_vm_merge by (exact (N4 _ _ (alookup_Some_In _ _ _ Ep))).
        f_equal. unfold oget. destruct (alookup f s) as [pm|]; [|reflexivity]. now destruct (alookup p pm).
      * cbn [alookup]. unfold oget, union_get, pick. destruct ow.
        -- destruct (alookup f s) as [pm|]; reflexivity.
        -- destruct (alookup f s) as [pm|]; [|reflexivity]. destruct (alookup p pm) as [vm|]; [|reflexivity].
           now destruct (alookup k vm).
  - cbn [alookup]. unfold union_get, pick. destruct ow; [reflexivity|].
    now destruct (match alookup f s with Some pm => alookup p pm | None => None end) as [vm|]; [destruct (alookup k vm)|].
Qed.

(* merged tables have no duplicate keys either *)
Lemma vm_merge_nodup (o : vmap) : forall rows ow, NoDup (akeys rows) -> NoDup (akeys (vm_merge rows o ow)).
Proof.
  unfold vm_merge. induction o as [|[k0 x0] o IH]; intros rows ow H; cbn [fold_left fst snd]; [assumption|].
  apply IH. destruct (negb ow && amem k0 rows); [assumption|now apply NoDup_aset].
Qed.

Lemma pm_merge_nodup (o : pmap) : forall s ow, pm_nodup s -> pm_nodup (pm_merge s o ow).
Proof.
  unfold pm_merge. induction o as [|[p0 ovm0] o IH]; intros s ow H; cbn [fold_left fst snd]; [assumption|].
  apply IH. apply pm_nodup_aset; [assumption|]. apply vm_merge_nodup. now apply oget_vm_nodup.
Qed.

Lemma fm_merge_nodup (o : fmap) : forall s ow, fm_nodup s -> fm_nodup (fm_merge s o ow).
Proof.
  unfold fm_merge. induction o as [|[f0 opm0] o IH]; intros s ow H; cbn [fold_left fst snd]; [assumption|].
  apply IH. destruct opm0; [assumption|]. apply fm_nodup_aset; [assumption|].
  apply pm_merge_nodup. now apply oget_pm_nodup.
Qed.

(* ------------------------------------------------------------------ laws *)

Lemma fm_equiv_of_mget a b : (forall f p k, mget a f p k = mget b f p k) -> fm_equiv a b.
Proof. intros H f p k. rewrite <- !mget_fm_get. apply H. Qed.

Lemma merge_empty_r s ow : fm_merge s [] ow = s.
Proof. reflexivity. Qed.

Lemma merge_empty_l o ow : fm_nodup o -> fm_equiv (fm_merge [] o ow) o.
Proof.
  intros H. apply fm_equiv_of_mget. intros f p k. rewrite mget_fm_merge by assumption.
  unfold union_get, pick. change (mget [] f p k) with (@None mval).
  destruct ow; now destruct (mget o f p k).
Qed.

Lemma merge_idem s ow : fm_nodup s -> fm_equiv (fm_merge s s ow) s.
Proof.
  intros H. apply fm_equiv_of_mget. intros f p k. rewrite mget_fm_merge by assumption.
  unfold union_get, pick. destruct ow; now destruct (mget s f p k).
Qed.

Lemma merge_assoc a b c ow : fm_nodup a -> fm_nodup b -> fm_nodup c ->
  fm_equiv (fm_merge (fm_merge a b ow) c ow) (fm_merge a (fm_merge b c ow) ow).
Proof.
  intros Ha Hb Hc. apply fm_equiv_of_mget. intros f p k.
  rewrite !mget_fm_merge by auto using fm_merge_nodup.
  unfold union_get, pick. destruct ow; destruct (mget a f p k), (mget b f p k), (mget c f p k); reflexivity.
Qed.

(* merging without overwrite is merging the other way round with overwrite *)
Lemma merge_flip a b : fm_nodup a -> fm_nodup b ->
  fm_equiv (fm_merge a b false) (fm_merge b a true).
Proof.
  intros Ha Hb. apply fm_equiv_of_mget. intros f p k. rewrite !mget_fm_merge by assumption. reflexivity.
Qed.

Lemma merge_congr a a' b b' ow : fm_nodup b -> fm_nodup b' -> fm_equiv a a' -> fm_equiv b b' ->
  fm_equiv (fm_merge a b ow) (fm_merge a' b' ow).
Proof.
  intros Hb Hb' H1 H2. apply fm_equiv_of_mget. intros f p k. rewrite !mget_fm_merge by assumption.
  now rewrite (fm_equiv_mget _ _ H1), (fm_equiv_mget _ _ H2).
Qed.

(* the merged table of two lists of rows is the table of the concatenated list *)
Lemma merge_rows a b ow :
  fm_equiv (mp_map (m_merge (m_of_rows a) (m_of_rows b) ow))
           (mp_map (m_of_rows (if ow then a ++ b else b ++ a))).
Proof.
  apply fm_equiv_of_mget. intros f p k. cbn [m_merge mp_map].
  rewrite mget_fm_merge by apply m_of_rows_nodup. rewrite !mget_m_of_rows.
  unfold union_get, pick. destruct ow; now rewrite lastval_app.
Qed.

Lemma m_merge_nodup m o ow : fm_nodup (mp_map m) -> fm_nodup (mp_map (m_merge m o ow)).
Proof. intros H. cbn [m_merge mp_map]. now apply fm_merge_nodup. Qed.

(* remapEntries over the merged table does what the concatenated rows say *)
Lemma remap_merged_says extra files fl ds :
  remap true (m_merge (m_of_rows extra) (m_of_rows files) false) fl ds = spec_remap (files ++ extra) fl ds.
Proof.
  rewrite <- remap_says. apply remap_equiv. exact (merge_rows extra files false).
Qed.
