(* C18: sessions of operations on one TaggedProductList / Manifest object; the flavor override. *)
From Coq Require Import Lia.
From Eupsv Require Import Base.Base Base.BaseLemmas Model.Manifest Model.ManifestSpec Model.ManifestOps
  Proofs.ManifestLib Proofs.ManifestText Proofs.ManifestTag.

(* ------------------------------------------------------------------ steps that write *)

Lemma tl_step_write_list s f fa na s' :
  tl_step s (TWrite f fa na) = Ok s' -> ts_list s' = ts_list s.
Proof. cbn [tl_step]. intros H. inversion H. reflexivity. Qed.

Lemma tl_step_noaction s f fa : tl_step s (TWrite f fa true) = Ok s.
Proof. destruct s. reflexivity. Qed.

Lemma tl_run_writes_list ops : forall s s',
  forallb tl_is_write ops = true -> tl_run s ops = Ok s' -> ts_list s' = ts_list s.
Proof.
  induction ops as [|o ops IH]; intros s s' Hw Hr; cbn [tl_run] in Hr.
  - inversion Hr. reflexivity.
  - cbn [forallb] in Hw. apply andb_true_iff in Hw. destruct Hw as [Ho Hw].
    destruct o as [| f fa na |]; try discriminate Ho.
    cbn [tl_step] in Hr. apply IH in Hr; [|assumption]. exact Hr.
Qed.

Lemma tl_run_writes_ok ops : forall s, forallb tl_is_write ops = true -> exists s', tl_run s ops = Ok s'.
Proof.
  induction ops as [|o ops IH]; intros s Hw; cbn [tl_run]; [eauto|].
  cbn [forallb] in Hw. apply andb_true_iff in Hw. destruct Hw as [Ho Hw].
  destruct o as [| f fa na |]; try discriminate Ho. cbn [tl_step]. now apply IH.
Qed.

Lemma tl_run_app a : forall s b,
  tl_run s (a ++ b) = match tl_run s a with Ok s' => tl_run s' b | Err e => Err e end.
Proof.
  induction a as [|o a IH]; intros s b; cbn [app tl_run]; [reflexivity|].
  destruct (tl_step s o); [apply IH|reflexivity].
Qed.

Lemma last_cons_any {A} (x : A) tr d d' : last (x :: tr) d = last (x :: tr) d'.
Proof.
  revert x. induction tr as [|y tr IH]; intros x; [reflexivity|].
  change (last (x :: y :: tr) d) with (last (y :: tr) d).
  change (last (x :: y :: tr) d') with (last (y :: tr) d'). apply IH.
Qed.

(* the trace and the run agree *)
Lemma tl_trace_run ops : forall s,
  match tl_run s ops with
  | Ok s' => snd (tl_trace s ops) = None /\ last (fst (tl_trace s ops)) s = s'
  | Err e => snd (tl_trace s ops) = Some e
  end.
Proof.
  induction ops as [|o ops IH]; intros s; cbn [tl_run tl_trace]; [now split|].
  destruct (tl_step s o) as [s1|e]; [|reflexivity].
  specialize (IH s1). destruct (tl_trace s1 ops) as [tr e] eqn:E. cbn [fst snd] in *.
  destruct (tl_run s1 ops) as [s'|e']; [|assumption].
  destruct IH as [H1 H2]. split; [assumption|].
  destruct tr as [|x tr]; [exact H2|]. change (last (s1 :: x :: tr) s) with (last (x :: tr) s). rewrite (last_cons_any x tr s s1). exact H2.
Qed.

(* ------------------------------------------------------------------ the override *)

Lemma tl_line_override g p i : tl_line (Some g) p i = tl_entry_line (restamp g (p, i)).
Proof. destruct i as [[f v] ex]. reflexivity. Qed.

Lemma tl_write_lines_override g t :
  tl_write_lines (Some g) t
  = tlheader (tl_tag t) ++ map tl_entry_line (map (restamp g) (sorted_entries (tl_entries t))).
Proof.
  unfold tl_write_lines, sorted_entries. f_equal.
  induction (sort_str (akeys (tl_entries t))) as [|p ks IH]; cbn [flat_map]; [reflexivity|].
  rewrite !map_app, <- IH. destruct (alookup p (tl_entries t)) as [i|]; [|reflexivity].
  cbn [map app]. now rewrite tl_line_override.
Qed.

Lemma map_fst_restamp g es : map fst (map (restamp g) es) = map fst es.
Proof.
  induction es as [|[p [[f v] ex]] es IH]; cbn [map fst restamp]; [reflexivity|]. now rewrite IH.
Qed.

Lemma wf_restamp g es : wf_word g = true ->
  forallb wf_tlinfo es = true -> forallb wf_tlinfo (map (restamp g) es) = true.
Proof.
  intros Hg. induction es as [|[p [[f v] ex]] es IH]; cbn [map forallb restamp]; [reflexivity|].
  intros H. apply andb_true_iff in H. destruct H as [He Hes]. rewrite (IH Hes), andb_true_r.
  cbn [wf_tlinfo] in *. do 3 (apply andb_true_iff in He; destruct He as [He ?]).
  now rewrite He, Hg, H0, H.
Qed.

(* the general statement: a reader of flavor fl sees of a file written with the override g the
   visible ones among the entries restamped with g *)
Lemma tl_read_write_override t g fl :
  nonl (tl_tag t) -> wf_entries (tl_entries t) -> wf_word g = true ->
  tl_read (tl_new (tl_tag t) (Some fl)) (tl_write (Some g) t)
  = Ok (mkTl (tl_tag t) fl
         (map (as_flavor fl) (filter (visible fl) (map (restamp g) (sorted_entries (tl_entries t)))))).
Proof.
  intros Ht Hwf Hg. destruct (wf_sorted_entries _ Hwf) as [H1 H2].
  assert (H1' := wf_restamp g _ Hg H1).
  unfold tl_read, tl_write. rewrite tl_write_lines_override.
  rewrite lines_of_unlines.
  - unfold tlheader. cbn [app]. unfold tl_read_lines, tl_new. cbn [tl_tag].
    rewrite parse_tlheader_written. cbn [tl_read_body].
    change (blank_or_comment k_product_flavor_version) with true. rewrite boc_hash. cbv iota.
    rewrite tl_read_body_entries; auto.
    now rewrite map_fst_restamp.
  - apply Forall_app. split.
    + unfold tlheader. repeat constructor;
        repeat (apply nonl_app || (apply nonl_const; reflexivity) || assumption
                || (apply nonl_repeat; reflexivity)).
    + apply Forall_forall. intros l Hl. apply in_map_iff in Hl. destruct Hl as [[p i] [<- He]].
      rewrite forallb_forall in H1'. apply nonl_tl_line. now apply H1'.
Qed.

Lemma visible_restamp_same g es :
  map (as_flavor g) (filter (visible g) (map (restamp g) es)) = map (restamp g) es.
Proof.
  induction es as [|[p [[f v] ex]] es IH]; cbn [map filter restamp]; [reflexivity|].
  cbn [visible]. rewrite str_eqb_refl. cbn [orb map as_flavor]. now rewrite IH.
Qed.

Lemma visible_restamp_other g fl es : g <> fl -> g <> s_generic ->
  filter (visible fl) (map (restamp g) es) = [].
Proof.
  intros H1 H2. induction es as [|[p [[f v] ex]] es IH]; cbn [map filter restamp]; [reflexivity|].
  cbn [visible]. destruct (str_eqb_spec g fl); [congruence|]. destruct (str_eqb_spec g s_generic); [congruence|].
  exact IH.
Qed.

(* ------------------------------------------------------------------ manifests *)

Lemma m_step_write_man efl who time ver s f noopt fa na s' :
  m_step efl who time ver s (MWrite f noopt fa na) = Ok s' -> ms_man s' = ms_man s.
Proof. cbn [m_step]. intros H. inversion H. reflexivity. Qed.

Lemma m_step_noaction efl who time ver s f noopt fa :
  m_step efl who time ver s (MWrite f noopt fa true) = Ok s.
Proof. destruct s. reflexivity. Qed.

Lemma m_run_writes_man efl who time ver ops : forall s s',
  forallb m_is_write ops = true -> m_run efl who time ver s ops = Ok s' -> ms_man s' = ms_man s.
Proof.
  induction ops as [|o ops IH]; intros s s' Hw Hr; cbn [m_run] in Hr.
  - inversion Hr. reflexivity.
  - cbn [forallb] in Hw. apply andb_true_iff in Hw. destruct Hw as [Ho Hw].
    destruct o as [| f noopt fa na | |]; try discriminate Ho.
    cbn [m_step] in Hr. apply IH in Hr; [|assumption]. exact Hr.
Qed.

Lemma m_run_writes_ok efl who time ver ops : forall s,
  forallb m_is_write ops = true -> exists s', m_run efl who time ver s ops = Ok s'.
Proof.
  induction ops as [|o ops IH]; intros s Hw; cbn [m_run]; [eauto|].
  cbn [forallb] in Hw. apply andb_true_iff in Hw. destruct Hw as [Ho Hw].
  destruct o as [| f noopt fa na | |]; try discriminate Ho. cbn [m_step]. now apply IH.
Qed.

Lemma m_run_app efl who time ver a : forall s b,
  m_run efl who time ver s (a ++ b)
  = match m_run efl who time ver s a with Ok s' => m_run efl who time ver s' b | Err e => Err e end.
Proof.
  induction a as [|o a IH]; intros s b; cbn [app m_run]; [reflexivity|].
  destruct (m_step efl who time ver s o); [apply IH|reflexivity].
Qed.
