(* C18: Manifest._readRemapFile - the rows a file names; reading back what Mapping.__str__ prints. *)
From Coq Require Import Lia.
From Eupsv Require Import Base.Base Base.BaseLemmas Model.Manifest Model.ManifestSpec
  Proofs.ManifestLib Proofs.ManifestMap Proofs.ManifestInv Proofs.ManifestMerge.

(* ------------------------------------------------------------------ the reader adds the rows of the file *)

Lemma read_lines_rows strict ow mode ls : forall m,
  read_remap_lines strict ow mode ls m =
  match file_rows strict mode ls with
  | Ok rows => Ok (fold_left (add_row_ow ow) rows m)
  | Err e => Err e
  end.
Proof.
  induction ls as [|l ls IH]; intros m; cbn [read_remap_lines file_rows]; [reflexivity|].
  destruct (remap_line strict mode l) as [[r|]|e]; [| apply IH | reflexivity].
  rewrite IH. destruct (file_rows strict mode ls); reflexivity.
Qed.

Lemma read_remap_rows ow mode text m :
  read_remap ow mode text m =
  match remap_rows mode text with
  | Ok rows => Ok (fold_left (add_row_ow ow) rows m)
  | Err e => Err e
  end.
Proof. apply read_lines_rows. Qed.

Lemma read_files_rows mode texts : forall m,
  read_remap_files mode texts m =
  match files_rows mode texts with
  | Ok rows => Ok (fold_left add_row rows m)
  | Err e => Err e
  end.
Proof.
  induction texts as [|t ts IH]; intros m; cbn [read_remap_files files_rows]; [reflexivity|].
  rewrite read_remap_rows. destruct (remap_rows mode t) as [a|e]; [|reflexivity].
  rewrite IH. destruct (files_rows mode ts) as [b|e]; [|reflexivity].
  now rewrite fold_left_app.
Qed.

Lemma remap_entries_says ex texts mode fl ds frows :
  files_rows mode texts = Ok frows ->
  remap_entries true (m_of_rows ex) texts mode fl ds =
  Ok (m_merge (m_of_rows ex) (m_of_rows frows) false, spec_remap (frows ++ ex) fl ds).
Proof.
  intros H. unfold remap_entries. rewrite read_files_rows, H.
  change (fold_left add_row frows empty_mapping) with (m_of_rows frows).
  now rewrite remap_merged_says.
Qed.

(* ------------------------------------------------------------------ text lemmas *)

Lemma before_hash_none x : mem_ascii c_hash x = false -> before_hash x = None.
Proof.
  induction x as [|c x IH]; cbn [before_hash]; [reflexivity|]. intros H.
  apply mem_ascii_cons_false in H. destruct H as [Hne H].
  destruct (ascii_eqb_spec c c_hash) as [->|_]; [congruence|]. now rewrite IH.
Qed.

Lemma cut_comment_nohash x : mem_ascii c_hash x = false -> cut_comment x = x.
Proof. intros H. unfold cut_comment. now rewrite before_hash_none. Qed.

Lemma rstrip_word_end x w : word w -> rstrip (x ++ w) = x ++ w.
Proof.
  intros [Hne Hn]. destruct (exists_last Hne) as [w' [c ->]].
  unfold nosp in Hn. apply Forall_app in Hn. destruct Hn as [_ Hc]. inversion Hc; subst.
  unfold rstrip. rewrite app_assoc, rev_unit, dropw_nosp by assumption.
  change (c :: rev (x ++ w')) with ([c] ++ rev (x ++ w')). rewrite rev_app_distr, rev_involutive. reflexivity.
Qed.

Lemma strip_word_ends w x u : word w -> word u -> strip (w ++ x ++ u) = w ++ x ++ u.
Proof.
  intros [Hne Hn] Hu. unfold strip. destruct w as [|c w]; [congruence|].
  inversion Hn; subst. cbn [app]. rewrite dropw_nosp by assumption.
  change (c :: w ++ x ++ u) with ((c :: w) ++ x ++ u). rewrite app_assoc. now apply rstrip_word_end.
Qed.

Lemma strip_line3 A X f : word A -> word f -> strip (A ++ k_4sp ++ X ++ k_4sp ++ f) = A ++ k_4sp ++ X ++ k_4sp ++ f.
Proof.
  intros HA Hf. replace (k_4sp ++ X ++ k_4sp ++ f) with ((k_4sp ++ X ++ k_4sp) ++ f) by (now rewrite <- !app_assoc).
  now apply strip_word_ends.
Qed.

Lemma span_until_app d a b : mem_ascii d a = false -> span_until d (a ++ d :: b) = (a, d :: b).
Proof.
  induction a as [|c a IH]; cbn [app span_until]; intros H.
  - now rewrite ascii_eqb_refl.
  - apply mem_ascii_cons_false in H. destruct H as [Hne H].
    destruct (ascii_eqb_spec c d) as [->|_]; [congruence|]. now rewrite IH.
Qed.

Lemma span_until_all d a : mem_ascii d a = false -> span_until d a = (a, []).
Proof.
  induction a as [|c a IH]; cbn [span_until]; intros H; [reflexivity|].
  apply mem_ascii_cons_false in H. destruct H as [Hne H].
  destruct (ascii_eqb_spec c d) as [->|_]; [congruence|]. now rewrite IH.
Qed.

Lemma split_colon_pair a b : a <> [] -> mem_ascii c_colon a = false ->
  split_colon (a ++ c_colon :: b) = Some (a, Some b).
Proof.
  intros Hne H. unfold split_colon. rewrite span_until_app by assumption. destruct a; [congruence|reflexivity].
Qed.

Lemma words3 A X f : word A -> word X -> word f -> words (A ++ k_4sp ++ X ++ k_4sp ++ f) = [A; X; f].
Proof.
  intros [HA1 HA2] [HX1 HX2] [Hf1 Hf2]. unfold k_4sp. cbn [app].
  rewrite words_word_sp by auto. rewrite !words_space by reflexivity.
  rewrite words_word_sp by auto. rewrite !words_space by reflexivity.
  now rewrite words_word.
Qed.

(* a line that begins with a product name free of equals signs, followed by a colon, is not a
   verbose line *)
Lemma strip_prefix_app_cases k : forall a b r,
  strip_prefix k (a ++ b) = Some r ->
  (exists a', a = k ++ a' /\ r = a' ++ b) \/ (exists k', k = a ++ k' /\ strip_prefix k' b = Some r).
Proof.
  induction k as [|c k IH]; intros a b r H.
  - left. exists a. cbn [strip_prefix] in H. injection H as <-. auto.
  - destruct a as [|d a].
    + right. exists (c :: k). auto.
    + cbn [app strip_prefix] in H. destruct (ascii_eqb_spec c d) as [->|]; [|discriminate].
      destruct (IH _ _ _ H) as [[a' [-> ->]]|[k' [-> Hk]]].
      * left. exists a'. auto.
      * right. exists k'. auto.
Qed.

Lemma not_verbose p rest : word p -> mem_ascii c_eq p = false ->
  is_verbose_line (p ++ c_colon :: rest) = false.
Proof.
  intros [Hne Hn] Heq. unfold is_verbose_line.
  destruct p as [|c p]; [congruence|]. inversion Hn as [|? ? Hc Hp]; subst.
  cbn [app]. rewrite dropw_nosp by assumption.
  change (c :: p ++ c_colon :: rest) with ((c :: p) ++ c_colon :: rest).
  destruct (strip_prefix k_verbose ((c :: p) ++ c_colon :: rest)) as [r|] eqn:E; [|reflexivity].
  apply strip_prefix_app_cases in E. destruct E as [[a' [Ea ->]]|[k' [Ek Hk]]].
  - (* the product name begins with the keyword: what follows is more of the name, or the colon *)
    assert (Ha' : nosp a' /\ mem_ascii c_eq a' = false).
    { rewrite Ea in Hn, Heq. unfold nosp in Hn. apply Forall_app in Hn.
      rewrite mem_ascii_app in Heq. apply orb_false_iff in Heq. tauto. }
    destruct Ha' as [Hn' Heq']. destruct a' as [|d a'].
    + cbn [app dropw]. reflexivity.
    + inversion Hn'; subst. cbn [app]. rewrite dropw_nosp by assumption.
      apply mem_ascii_cons_false in Heq'. destruct Heq' as [Hd _].
      destruct (ascii_eqb_spec d c_eq) as [->|_]; [congruence|reflexivity].
  - (* the name is a proper prefix of the keyword: the keyword has no colon *)
    destruct k' as [|d k'].
    + cbn [strip_prefix] in Hk. injection Hk as <-. reflexivity.
    + cbn [strip_prefix] in Hk. destruct (ascii_eqb_spec d c_colon) as [->|]; [|discriminate].
      exfalso. assert (Hin : In c_colon k_verbose) by (rewrite Ek; apply in_or_app; right; now left).
      apply mem_ascii_In in Hin. vm_compute in Hin. discriminate.
Qed.

(* ------------------------------------------------------------------ one printed line *)

Definition midf (q : str) (w : option str) : str :=
  match w with None => k_cap_none | Some w' => q ++ c_colon :: w' end.

Lemma row_line_eq f p v q w :
  row_line (f, p, v, q, w) = (p ++ c_colon :: v) ++ k_4sp ++ midf q w ++ k_4sp ++ f.
Proof. unfold row_line, midf. rewrite <- app_assoc. cbn [app]. destruct w; reflexivity. Qed.

Lemma wf_field_parts s : wf_field s = true -> word s /\ mem_ascii c_hash s = false.
Proof.
  unfold wf_field, no_char. intros H. apply andb_true_iff in H. destruct H as [H1 H2].
  split; [now apply wf_word_word|now apply negb_true_iff in H2].
Qed.

Lemma word_join a c b : word a -> is_pyspace c = false -> nosp b -> word (a ++ c :: b).
Proof.
  intros [H1 H2] Hc Hb. split; [destruct a; [congruence|discriminate]|].
  apply nosp_app; [assumption|]. constructor; assumption.
Qed.

Record wf_parts (f p v q : str) (w : option str) : Prop := {
  wp_f : word f; wp_fh : mem_ascii c_hash f = false;
  wp_p : word p; wp_ph : mem_ascii c_hash p = false; wp_pc : mem_ascii c_colon p = false;
  wp_pe : mem_ascii c_eq p = false; wp_pb : forall c r, p = c :: r -> ascii_eqb c c_lbr = false;
  wp_v : word v; wp_vh : mem_ascii c_hash v = false; wp_vA : str_eqb v k_cap_any = false;
  wp_mid : word (midf q w); wp_midh : mem_ascii c_hash (midf q w) = false }.

Lemma no_char_false c s : no_char c s = true -> mem_ascii c s = false.
Proof. unfold no_char. apply negb_true_iff. Qed.

Lemma wf_mrow_inv f p v q w : wf_mrow (f, p, v, q, w) = true ->
  wf_field f = true /\ wf_inproduct p = true /\ wf_field v = true /\ str_eqb v k_cap_any = false /\
  match w with
  | None => q = p
  | Some w' => wf_field q = true /\ no_char c_colon q = true /\ wf_field w' = true /\
               str_eqb w' s_any = false /\ str_eqb w' k_low_none = false /\ str_eqb w' k_cap_none = false /\
               is_noreinstall (Some w') = false
  end.
Proof.
  cbn [wf_mrow]. rewrite !andb_true_iff, !negb_true_iff. intros [[[[Hf Hp] Hv] HA] Hw]. repeat split; auto.
  destruct w as [w'|].
  - rewrite !andb_true_iff, !negb_true_iff in Hw. tauto.
  - now apply str_eqb_eq.
Qed.

Lemma wf_mrow_parts f p v q w : wf_mrow (f, p, v, q, w) = true -> wf_parts f p v q w.
Proof.
  intros H. destruct (wf_mrow_inv _ _ _ _ _ H) as [Hf0 [Hp0 [Hv0 [HA Hw]]]].
  destruct (wf_field_parts _ Hf0) as [Hf Hfh]. destruct (wf_field_parts _ Hv0) as [Hv Hvh].
  unfold wf_inproduct in Hp0. rewrite !andb_true_iff in Hp0. destruct Hp0 as [[[Hp1 Hp2] Hp3] Hp4].
  destruct (wf_field_parts _ Hp1) as [Hp Hph].
  assert (Hmid : word (midf q w) /\ mem_ascii c_hash (midf q w) = false).
  { destruct w as [w'|]; cbn [midf].
    - destruct Hw as [Hq [Hqc [Hw' _]]].
      destruct (wf_field_parts _ Hq) as [Hqw Hqh]. destruct (wf_field_parts _ Hw') as [Hww Hwh].
      split; [apply word_join; [assumption|reflexivity|apply Hww]|].
      rewrite mem_ascii_app, Hqh. cbn [orb mem_ascii]. exact Hwh.
    - split; [apply wf_word_word; reflexivity|reflexivity]. }
  constructor; try tauto; try (now apply no_char_false).
  intros c r ->. now apply negb_true_iff in Hp4.
Qed.

Lemma remap_line_core L c l r :
  L = c :: l -> ascii_eqb c c_lbr = false -> strip L = L -> mem_ascii c_hash L = false ->
  is_verbose_line L = false -> row_of_words (words L) = r ->
  remap_line true None L = r.
Proof.
  intros EL Hc Hs Hh Hv Hr. subst L. unfold remap_line. rewrite Hs, cut_comment_nohash by assumption.
  unfold select_line, parse_mode_prefix. rewrite Hc. cbn [truthy]. now rewrite Hv.
Qed.

Lemma remap_line_row_line f p v q w :
  wf_mrow (f, p, v, q, w) = true ->
  remap_line true None (row_line (f, p, v, q, w)) = Ok (Some (row_of_mrow (f, p, v, q, w))).
Proof.
  intros Hwf. pose proof (wf_mrow_parts _ _ _ _ _ Hwf) as P. destruct P.
  assert (HA : word (p ++ c_colon :: v)) by (apply word_join; [assumption|reflexivity|apply wp_v0]).
  rewrite row_line_eq.
  assert (Hpne : p <> []) by apply wp_p0.
  destruct p as [|c p'] eqn:Ep; [congruence|]. rewrite <- Ep in *.
  eapply remap_line_core with (c := c).
  - rewrite Ep. cbn [app]. reflexivity.
  - exact (wp_pb0 c p' Ep).
  - now apply strip_line3.
  - rewrite !mem_ascii_app, wp_ph0, wp_midh0, wp_fh0. cbn [mem_ascii orb]. rewrite wp_vh0. reflexivity.
  - rewrite <- app_assoc. cbn [app]. now apply not_verbose.
  - rewrite words3 by assumption. unfold row_of_words.
    rewrite split_colon_pair by assumption.
    assert (Hinv : (if str_eqb v s_any || str_eqb v k_cap_any then s_any else v) = v).
    { rewrite wp_vA0, orb_false_r. destruct (str_eqb_spec v s_any) as [->|]; reflexivity. }
    rewrite Hinv. cbn [row_of_mrow].
    destruct w as [w'|]; cbn [midf].
    + destruct (wf_mrow_inv _ _ _ _ _ Hwf) as [_ [_ [_ [_ [Hq [Hqc [Hw' [E1 [E2 [E3 _]]]]]]]]]].
      destruct (wf_field_parts _ Hq) as [[Hqne _] _]. destruct (wf_field_parts _ Hw') as [[Hwne _] _].
      rewrite split_colon_pair by (assumption || now apply no_char_false).
      destruct w' as [|d w'']; [congruence|]. cbn [truthy].
      rewrite E1, E2, E3. reflexivity.
    + destruct (wf_mrow_inv _ _ _ _ _ Hwf) as [_ [_ [_ [_ Hq]]]]. subst q. reflexivity.
Qed.

(* ------------------------------------------------------------------ the printed table *)

Lemma nonl_row_line f p v q w : wf_mrow (f, p, v, q, w) = true -> nonl (row_line (f, p, v, q, w)).
Proof.
  intros Hwf. destruct (wf_mrow_parts _ _ _ _ _ Hwf).
  rewrite row_line_eq.
  assert (H4 : nonl k_4sp) by (apply no_nl_nonl; reflexivity).
  repeat apply nonl_app; try assumption; try (apply nosp_nonl; apply wp_f0 || apply wp_mid0 || apply wp_p0).
  apply nonl_cons; [reflexivity|reflexivity|]. apply nosp_nonl. apply wp_v0.
Qed.

Lemma file_rows_printed R :
  forallb wf_mrow R = true -> file_rows true None (map row_line R) = Ok (map row_of_mrow R).
Proof.
  induction R as [|[[[[f p] v] q] w] R IH]; cbn [forallb map file_rows]; [reflexivity|].
  intros H. apply andb_true_iff in H. destruct H as [Hr HR].
  rewrite remap_line_row_line by assumption. now rewrite IH.
Qed.

Lemma remap_rows_print m : wf_table m = true -> remap_rows None (m_print m) = Ok (rows_of m).
Proof.
  intros H. unfold remap_rows, m_print, rows_of, wf_table in *.
  rewrite lines_of_unlines; [now apply file_rows_printed|].
  apply Forall_forall. intros l Hl. apply in_map_iff in Hl. destruct Hl as [[[[[f p] v] q] w] [<- Hin]].
  apply nonl_row_line. rewrite forallb_forall in H. now apply H.
Qed.

(* the rows of a table, added again, give a table that answers every lookup alike *)
Lemma row_val_of_mrow f p v q w : wf_mrow (f, p, v, q, w) = true ->
  row_val (row_of_mrow (f, p, v, q, w)) = (q, w) /\ is_noreinstall (r_outV (row_of_mrow (f, p, v, q, w))) = false.
Proof.
  intros Hwf. pose proof (wf_mrow_parts _ _ _ _ _ Hwf) as P.
  destruct (wf_mrow_inv _ _ _ _ _ Hwf) as [_ [_ [_ [_ Hw]]]].
  unfold row_val. cbn [row_of_mrow r_outP r_outV r_inP].
  destruct w as [w'|].
  - destruct Hw as [Hq [_ [Hw' [_ [_ [_ Hno]]]]]].
    destruct (wf_field_parts _ Hq) as [[Hqne _] _]. destruct (wf_field_parts _ Hw') as [[Hwne _] _].
    destruct q; [congruence|]. destruct w'; [congruence|]. cbn [out_version].
    split; [reflexivity|exact Hno].
  - subst q. destruct P. destruct wp_p0 as [Hpne _].
    destruct p; [congruence|]. split; reflexivity.
Qed.

Lemma rows_of_equiv m : wf_table m = true -> fm_nodup (mp_map m) ->
  fm_equiv (mp_map (m_of_rows (rows_of m))) (mp_map m).
Proof.
  intros Hwf Hnd. apply fm_equiv_of_mget. intros f p k. rewrite mget_m_of_rows.
  unfold wf_table in Hwf. rewrite forallb_forall in Hwf. unfold lastval.
  destruct (last_row (rows_of m) f p k) as [r|] eqn:E.
  - pose proof (last_row_names _ _ _ _ _ E) as Hn. apply last_row_In in E.
    unfold rows_of in E. apply in_map_iff in E. destruct E as [[[[[f' p'] v'] q'] w'] [<- Hin]].
    destruct (row_val_of_mrow _ _ _ _ _ (Hwf _ Hin)) as [Hv _]. rewrite Hv.
    rewrite names_spec in Hn. cbn [row_of_mrow r_fl r_inP r_inV] in Hn.
    do 3 (apply andb_true_iff in Hn; destruct Hn as [Hn ?]). apply str_eqb_eq in Hn, H1, H0. subst f' p' v'.
    symmetry. now apply In_rows_mget.
  - destruct (mget (mp_map m) f p k) as [[q w]|] eqn:Em; [|reflexivity].
    apply mget_In_rows in Em. exfalso.
    assert (Hin : In (row_of_mrow (f, p, k, q, w)) (rows_of m)) by (unfold rows_of; now apply in_map).
    pose proof (last_row_None_In _ _ _ _ _ E Hin) as Hn. rewrite names_spec in Hn.
    destruct (row_val_of_mrow _ _ _ _ _ (Hwf _ Em)) as [_ Hno]. rewrite Hno in Hn.
    cbn [row_of_mrow r_fl r_inP r_inV negb] in Hn. rewrite !str_eqb_refl in Hn. discriminate.
Qed.

Lemma m_of_rows_nore rows :
  (forall r, In r rows -> is_noreinstall (r_outV r) = false) -> mp_nore (m_of_rows rows) = [].
Proof.
  induction rows as [|r rows IH] using rev_ind; intros H; [reflexivity|].
  rewrite m_of_rows_snoc. unfold add_row, add_row_ow, m_add.
  rewrite (H r) by (apply in_or_app; right; now left). cbn [mp_nore]. apply IH.
  intros r' Hr'. apply H. apply in_or_app. now left.
Qed.

Lemma print_parse_lemma m : wf_table m = true -> fm_nodup (mp_map m) ->
  exists m', read_remap true None (m_print m) empty_mapping = Ok m' /\
             fm_equiv (mp_map m') (mp_map m) /\ mp_nore m' = [].
Proof.
  intros Hwf Hnd. exists (m_of_rows (rows_of m)). split; [|split].
  - rewrite read_remap_rows, remap_rows_print by assumption. reflexivity.
  - now apply rows_of_equiv.
  - apply m_of_rows_nore. intros r Hin. unfold rows_of in Hin. apply in_map_iff in Hin.
    destruct Hin as [[[[[f p] v] q] w] [<- Hin]]. unfold wf_table in Hwf. rewrite forallb_forall in Hwf.
    now destruct (row_val_of_mrow _ _ _ _ _ (Hwf _ Hin)).
Qed.
