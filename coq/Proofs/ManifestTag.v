(* C18: tagged-release lists: write then read. *)
From Coq Require Import Lia Permutation.
From Eupsv Require Import Base.Base Base.BaseLemmas Model.Manifest Model.ManifestSpec
  Proofs.ManifestLib Proofs.ManifestText.

Definition tl_entry_line (e : str * tlinfo) : str := tl_line None (fst e) (snd e).

(* ------------------------------------------------------------------ sorted entries *)

Lemma sorted_entries_keys m : akeys (sorted_entries m) = sort_str (akeys m).
Proof.
  unfold sorted_entries.
  assert (H : forall ks, (forall k, In k ks -> In k (akeys m)) ->
    akeys (flat_map (fun p => match alookup p m with Some i => [(p, i)] | None => [] end) ks) = ks).
  { induction ks as [|k ks IH]; intros Hin; cbn [flat_map]; [reflexivity|].
    destruct (alookup_In_keys k m (Hin k (or_introl eq_refl))) as [v ->].
    cbn [app]. unfold akeys in *. cbn [map fst]. f_equal. apply IH. intros; apply Hin; now right. }
  apply H. intros k Hk. exact (proj1 (sort_str_In _ _) Hk).
Qed.

Lemma alookup_flat_keys {V} (m : amap V) ks p : NoDup ks ->
  alookup p (flat_map (fun k => match alookup k m with Some i => [(k, i)] | None => [] end) ks)
  = if mem_str p ks then alookup p m else None.
Proof.
  induction 1 as [|k ks Hk Hnd IH]; cbn [flat_map mem_str]; [reflexivity|].
  rewrite alookup_app, IH.
  destruct (str_eqb_spec p k) as [->|Hne].
  - destruct (alookup k m) as [v|]; cbn [alookup]; [now rewrite str_eqb_refl|].
    now destruct (mem_str k ks).
  - destruct (alookup k m) as [v|]; cbn [alookup]; [|reflexivity].
    destruct (str_eqb_spec p k); [congruence|reflexivity].
Qed.

Lemma alookup_sorted_entries m p : NoDup (akeys m) -> alookup p (sorted_entries m) = alookup p m.
Proof.
  intros Hnd. unfold sorted_entries. rewrite alookup_flat_keys by now apply sort_str_NoDup.
  destruct (mem_str p (sort_str (akeys m))) eqn:E; [reflexivity|].
  apply mem_str_not_In in E. symmetry. apply alookup_not_In. intros H. apply E. exact (proj2 (sort_str_In _ _) H).
Qed.

Lemma sorted_entries_In m e : In e (sorted_entries m) -> In e m.
Proof.
  unfold sorted_entries. intros H. apply in_flat_map in H. destruct H as [p [_ H]].
  destruct (alookup p m) eqn:E; [|destruct H]. destruct H as [<-|[]]. now apply alookup_Some_In.
Qed.

(* the lines of the file are the lines of the sorted entries *)
Lemma tl_write_lines_entries t :
  tl_write_lines None t = tlheader (tl_tag t) ++ map tl_entry_line (sorted_entries (tl_entries t)).
Proof.
  unfold tl_write_lines, sorted_entries. f_equal.
  induction (sort_str (akeys (tl_entries t))) as [|p ks IH]; cbn [flat_map]; [reflexivity|].
  rewrite map_app, <- IH. now destruct (alookup p (tl_entries t)).
Qed.

(* ------------------------------------------------------------------ one line *)

Lemma wf_tlinfo_parts p f v ex : wf_tlinfo (p, (f, v, ex)) = true ->
  wf_product p = true /\ word f /\ word v /\ Forall word ex.
Proof.
  cbn [wf_tlinfo]. intros H. do 3 (apply andb_true_iff in H; destruct H as [H ?]).
  split; [assumption|]. split; [now apply wf_word_word|]. split; [now apply wf_word_word|].
  apply Forall_forall. intros e He. rewrite forallb_forall in H0. auto using wf_word_word.
Qed.

Lemma words_tl_line p f v ex : wf_tlinfo (p, (f, v, ex)) = true ->
  words (tl_line None p (f, v, ex)) = p :: f :: v :: ex.
Proof.
  intros H. destruct (wf_tlinfo_parts _ _ _ _ H) as [Hp [Wf [Wv Wex]]].
  destruct (wf_product_parts _ Hp) as [Wp _].
  cbn [tl_line]. rewrite !words_ljust by assumption. now rewrite words_extras.
Qed.

Lemma boc_tl_line p i : wf_tlinfo (p, i) = true -> blank_or_comment (tl_line None p i) = false.
Proof.
  destruct i as [[f v] ex]. intros H. destruct (wf_tlinfo_parts _ _ _ _ H) as [Hp _].
  destruct (wf_product_parts _ Hp) as [_ [c [r [-> [Hc Hh]]]]].
  cbn [tl_line]. unfold ljust. cbn [app]. now rewrite boc_word_start.
Qed.

(* ------------------------------------------------------------------ the body *)

Lemma tl_read_body_entries tag fl es : forall acc,
  forallb wf_tlinfo es = true -> NoDup (map fst es) ->
  (forall p, In p (map fst es) -> ~ In p (akeys acc)) ->
  tl_read_body (mkTl tag fl acc) (map tl_entry_line es)
  = Ok (mkTl tag fl (acc ++ map (as_flavor fl) (filter (visible fl) es))).
Proof.
  induction es as [|[p [[f v] ex]] es IH]; intros acc Hwf Hnd Hfresh; cbn [map tl_read_body filter].
  - now rewrite app_nil_r.
  - cbn [forallb] in Hwf. apply andb_true_iff in Hwf. destruct Hwf as [He Hes].
    cbn [map fst] in Hnd. inversion Hnd as [|? ? Hp Hnd']; subst.
    change (tl_entry_line (p, (f, v, ex))) with (tl_line None p (f, v, ex)).
    rewrite boc_tl_line, words_tl_line by assumption.
    cbn [tl_flavor visible].
    assert (Hfp : ~ In p (akeys acc)) by (apply Hfresh; now left).
    assert (Hstep : forall acc', acc' = acc ++ [(p, (fl, v, ex))] ->
      tl_read_body (mkTl tag fl acc') (map tl_entry_line es)
      = Ok (mkTl tag fl (acc ++ as_flavor fl (p, (f, v, ex)) :: map (as_flavor fl) (filter (visible fl) es)))).
    { intros acc' ->. rewrite IH; auto.
      - rewrite <- app_assoc. reflexivity.
      - intros q Hq. unfold akeys. rewrite map_app, in_app_iff. cbn [map fst In].
        intros [H|[<-|[]]]; [eapply Hfresh; [right; exact Hq | exact H] | auto]. }
    destruct (str_eqb_spec f s_generic) as [->|Hg].
    + rewrite str_eqb_refl, orb_true_r. cbn [map]. unfold tl_add. cbn [tl_tag tl_flavor tl_entries].
      rewrite aset_fresh by assumption. now apply Hstep.
    + rewrite orb_false_r. destruct (str_eqb_spec f fl) as [->|Hf].
      * cbn [map]. unfold tl_add. cbn [tl_tag tl_flavor tl_entries].
        rewrite aset_fresh by assumption. now apply Hstep.
      * apply IH; auto. intros q Hq. apply Hfresh. now right.
Qed.

(* ------------------------------------------------------------------ header and file *)

Lemma parse_tlheader_written tag :
  parse_tlheader tag (k_eups_distribution ++ tag ++ k_version_list_version ++ fmtversion) = Some fmtversion.
Proof.
  unfold parse_tlheader.
  change (k_version_list_version ++ fmtversion)
    with (k_version_list ++ "."%char :: (k_sp_version ++ fmtversion)).
  replace (k_eups_distribution ++ tag ++ k_version_list ++ "."%char :: k_sp_version ++ fmtversion)
    with ((k_eups_distribution ++ tag ++ k_version_list) ++ "."%char :: k_sp_version ++ fmtversion)
    by (now rewrite <- !app_assoc).
  rewrite strip_prefix_app. reflexivity.
Qed.

Definition wf_entries (m : amap tlinfo) : Prop := forallb wf_tlinfo m = true /\ NoDup (akeys m).

Lemma wf_sorted_entries m : wf_entries m ->
  forallb wf_tlinfo (sorted_entries m) = true /\ NoDup (map fst (sorted_entries m)).
Proof.
  intros [Hwf Hnd]. split.
  - apply forallb_forall. intros e He. rewrite forallb_forall in Hwf. auto using sorted_entries_In.
  - fold (akeys (sorted_entries m)). rewrite sorted_entries_keys. now apply sort_str_NoDup.
Qed.

Lemma tl_read_write_lines t fl :
  wf_entries (tl_entries t) ->
  tl_read_lines (tl_new (tl_tag t) (Some fl)) (tl_write_lines None t)
  = Ok (mkTl (tl_tag t) fl (map (as_flavor fl) (filter (visible fl) (sorted_entries (tl_entries t))))).
Proof.
  intros Hwf. destruct (wf_sorted_entries _ Hwf) as [H1 H2].
  rewrite tl_write_lines_entries. unfold tlheader. cbn [app]. unfold tl_read_lines, tl_new. cbn [tl_tag].
  rewrite parse_tlheader_written. cbn [tl_read_body].
  change (blank_or_comment k_product_flavor_version) with true. rewrite boc_hash. cbv iota.
  rewrite tl_read_body_entries; auto.
Qed.

Lemma nonl_tl_line p i : wf_tlinfo (p, i) = true -> nonl (tl_line None p i).
Proof.
  destruct i as [[f v] ex]. intros H. destruct (wf_tlinfo_parts _ _ _ _ H) as [Hp [[_ Wf] [[_ Wv] Wex]]].
  destruct (wf_product_parts _ Hp) as [[_ Wp] _].
  cbn [tl_line].
  repeat (apply nonl_ljust || apply nonl_app || apply nonl_cons || reflexivity);
    try (apply nosp_nonl; assumption).
  clear H Hp. induction Wex as [|e ex [_ We] _ IH]; cbn [map concat]; [constructor|].
  repeat (apply nonl_app || apply nonl_cons || reflexivity); auto using nosp_nonl.
Qed.

Lemma nonl_tl_write_lines t : nonl (tl_tag t) -> wf_entries (tl_entries t) ->
  Forall nonl (tl_write_lines None t).
Proof.
  intros Ht Hwf. destruct (wf_sorted_entries _ Hwf) as [H1 _].
  rewrite tl_write_lines_entries. apply Forall_app. split.
  - unfold tlheader. repeat constructor;
      repeat (apply nonl_app || (apply nonl_const; reflexivity) || assumption
              || (apply nonl_repeat; reflexivity)).
  - apply Forall_forall. intros l Hl. apply in_map_iff in Hl. destruct Hl as [[p i] [<- He]].
    rewrite forallb_forall in H1. apply nonl_tl_line. now apply H1.
Qed.

Lemma tl_read_write t fl :
  nonl (tl_tag t) -> wf_entries (tl_entries t) ->
  tl_read (tl_new (tl_tag t) (Some fl)) (tl_write None t)
  = Ok (mkTl (tl_tag t) fl (map (as_flavor fl) (filter (visible fl) (sorted_entries (tl_entries t))))).
Proof.
  intros Ht Hwf. unfold tl_read, tl_write. rewrite lines_of_unlines by now apply nonl_tl_write_lines.
  now apply tl_read_write_lines.
Qed.

(* ------------------------------------------------------------------ homogeneous lists *)

Definition homogeneous (fl : str) (m : amap tlinfo) : Prop :=
  forall p f v ex, In (p, (f, v, ex)) m -> f = fl.

Lemma homogeneous_visible fl es : homogeneous fl es ->
  map (as_flavor fl) (filter (visible fl) es) = es.
Proof.
  induction es as [|[p [[f v] ex]] es IH]; intros H; cbn [filter map]; [reflexivity|].
  assert (f = fl) by (eapply H; now left). subst f.
  cbn [visible]. rewrite str_eqb_refl. cbn [orb map as_flavor]. f_equal.
  apply IH. intros q f' v' ex' Hq. eapply H. right. exact Hq.
Qed.

Lemma tl_read_write_homogeneous t :
  nonl (tl_tag t) -> wf_entries (tl_entries t) -> homogeneous (tl_flavor t) (tl_entries t) ->
  tl_read (tl_new (tl_tag t) (Some (tl_flavor t))) (tl_write None t)
  = Ok (mkTl (tl_tag t) (tl_flavor t) (sorted_entries (tl_entries t))).
Proof.
  intros Ht Hwf Hh. rewrite tl_read_write by assumption. rewrite homogeneous_visible; [reflexivity|].
  intros p f v ex Hin. eapply Hh. eapply sorted_entries_In. exact Hin.
Qed.

(* writing depends only on the map, not on the insertion order *)
Lemma tl_write_sorted_entries t fa :
  NoDup (akeys (tl_entries t)) ->
  tl_write fa (mkTl (tl_tag t) (tl_flavor t) (sorted_entries (tl_entries t))) = tl_write fa t.
Proof.
  intros Hnd. unfold tl_write, tl_write_lines. cbn [tl_tag tl_entries].
  rewrite sorted_entries_keys, sort_str_idem. f_equal. f_equal.
  induction (sort_str (akeys (tl_entries t))) as [|p ks IH]; cbn [flat_map]; [reflexivity|].
  rewrite alookup_sorted_entries by assumption. now rewrite IH.
Qed.
