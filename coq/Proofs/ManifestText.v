(* C18: print-parse lemmas for manifests and tag lists (level A + level B). *)
From Coq Require Import Lia Permutation.
From Eupsv Require Import Base.Base Base.BaseLemmas Model.Manifest Model.ManifestSpec Proofs.ManifestLib.

(* ------------------------------------------------------------------ optional fields *)

Lemma const_word s : wf_word s = true -> word s.
Proof. apply wf_word_word. Qed.

Lemma wf_oword_cases o : wf_oword o = true -> truthy o = false \/ exists s, o = Some s /\ word s /\ truthy o = true.
Proof.
  destruct o as [[|c s]|]; cbn [wf_oword truthy]; auto.
  intros H. right. exists (c :: s). auto using wf_word_word.
Qed.

Lemma norm_flavor_word fa efl o :
  wf_oword fa = true -> wf_oword o = true -> wf_word efl = true ->
  exists s, norm_flavor fa efl o = Some s /\ word s.
Proof.
  intros Hfa Ho He. unfold norm_flavor.
  destruct (wf_oword_cases _ Hfa) as [Ef|[s [-> [Hs Ef]]]]; rewrite Ef; eauto.
  destruct (wf_oword_cases _ Ho) as [Eo|[s [-> [Hs Eo]]]]; rewrite Eo; eauto using wf_word_word.
Qed.

Lemma norm_ostr_word k o : wf_word k = true -> wf_oword o = true ->
  exists s, norm_ostr k o = Some s /\ word s.
Proof.
  intros Hk Ho. unfold norm_ostr.
  destruct (wf_oword_cases _ Ho) as [Eo|[s [-> [Hs Eo]]]]; rewrite Eo; eauto using wf_word_word.
Qed.

(* ------------------------------------------------------------------ one dependency line *)

Lemma dep_line_shape fa efl d :
  dep_line true fa efl d =
  ljust 15 (d_product d) ++ c_sp ::
  ljust 12 (ostr (norm_flavor fa efl (d_flavor d))) ++ c_sp ::
  ljust 10 (d_version d) ++ c_sp ::
  ljust 25 (ostr (norm_ostr k_low_none (d_table d))) ++ c_sp ::
  ljust 30 (ostr (norm_ostr k_low_none (d_dir d))) ++ c_sp ::
  ostr (d_distid d).
Proof.
  unfold dep_line, norm_flavor, norm_ostr. cbv zeta. destruct (truthy fa) eqn:E; rewrite ?E; reflexivity.
Qed.

Lemma wf_dep_parts d : wf_dep d = true ->
  wf_product (d_product d) = true /\ wf_word (d_version d) = true /\ wf_oword (d_flavor d) = true /\
  wf_oword (d_table d) = true /\ wf_oword (d_dir d) = true /\ wf_oword (d_distid d) = true.
Proof.
  unfold wf_dep. intros H. do 5 (apply andb_true_iff in H; destruct H as [H ?]). repeat split; assumption.
Qed.

Lemma wf_product_parts s : wf_product s = true ->
  word s /\ exists c r, s = c :: r /\ is_pyspace c = false /\ ascii_eqb c c_hash = false.
Proof.
  unfold wf_product. intros H. apply andb_true_iff in H. destruct H as [Hw Hh].
  pose proof (wf_word_word _ Hw) as W. split; auto.
  destruct s as [|c r]; [discriminate|]. exists c, r. split; auto.
  split; [apply (word_cons _ _ W) | now apply negb_true_iff].
Qed.

Lemma words_distid o : wf_oword o = true ->
  words (ostr o) = match o with
                   | None => [k_cap_none]
                   | Some [] => []
                   | Some s => [s]
                   end.
Proof.
  destruct o as [[|c s]|]; cbn [wf_oword ostr]; intros H; try reflexivity.
  destruct (wf_word_word _ H). now apply words_word.
Qed.

Lemma parse_dep_line_dep_line fa efl d :
  wf_dep d = true -> wf_oword fa = true -> wf_word efl = true ->
  parse_dep_line true false (dep_line true fa efl d) = Ok (norm_dep fa efl d).
Proof.
  intros Hd Hfa He.
  destruct (wf_dep_parts _ Hd) as [Hp [Hv [Hf [Ht [Hdi Hid]]]]].
  destruct (wf_product_parts _ Hp) as [Wp _].
  pose proof (wf_word_word _ Hv) as Wv.
  destruct (norm_flavor_word fa efl _ Hfa Hf He) as [F [EF WF]].
  destruct (norm_ostr_word k_low_none (d_table d) eq_refl Ht) as [T [ET WT]].
  destruct (norm_ostr_word k_low_none (d_dir d) eq_refl Hdi) as [D [ED WD]].
  unfold parse_dep_line. rewrite dep_line_shape, EF, ET, ED. cbn [ostr].
  rewrite !words_ljust by assumption. rewrite words_distid by assumption.
  unfold norm_dep. rewrite EF, ET, ED.
  destruct (d_distid d) as [[|c s]|]; cbn [norm_id].
  - reflexivity.
  - cbn [skipn]. unfold new_dep. cbn [andb].
    destruct (str_eqb_spec (c :: s) k_search) as [E|E].
    + rewrite E. reflexivity.
    + rewrite orb_false_r. destruct (str_eqb (c :: s) k_cap_none); reflexivity.
  - reflexivity.
Qed.

Lemma boc_dep_line fa efl d : wf_dep d = true -> blank_or_comment (dep_line true fa efl d) = false.
Proof.
  intros Hd. destruct (wf_dep_parts _ Hd) as [Hp _].
  destruct (wf_product_parts _ Hp) as [_ [c [r [E [Hc Hh]]]]].
  rewrite dep_line_shape, E. unfold ljust. cbn [app]. rewrite boc_word_start; auto.
Qed.

Lemma read_dep_lines_deps fa efl ds : forall acc,
  forallb wf_dep ds = true -> wf_oword fa = true -> wf_word efl = true ->
  read_dep_lines true false (map (dep_line true fa efl) ds) acc = Ok (acc ++ map (norm_dep fa efl) ds).
Proof.
  induction ds as [|d ds IH]; intros acc H Hfa He; cbn [map read_dep_lines].
  - now rewrite app_nil_r.
  - cbn [forallb] in H. apply andb_true_iff in H. destruct H as [Hd Hds].
    rewrite boc_dep_line, parse_dep_line_dep_line by assumption.
    rewrite IH by assumption. now rewrite <- app_assoc.
Qed.

(* ------------------------------------------------------------------ the manifest header *)

Lemma parse_version_tail_fmt : parse_version_tail (k_sp_version ++ fmtversion) = Some fmtversion.
Proof. reflexivity. Qed.

Lemma parse_mheader_written p v : word p -> word v ->
  parse_mheader (k_eups_distribution_manife ++ p ++ k_sp_lpar ++ v ++ k_rpar_version ++ fmtversion)
  = Some (p, v, fmtversion).
Proof.
  intros [Hpn Hp] [Hvn Hv]. unfold parse_mheader. rewrite strip_prefix_app.
  change (k_sp_lpar ++ v ++ k_rpar_version ++ fmtversion)
    with (c_sp :: ("("%char :: v ++ k_rpar_version ++ fmtversion)).
  rewrite spanw_word by (auto using sp_is_space).
  destruct p as [|pc pr]; [congruence|].
  change (c_sp :: "("%char :: v ++ k_rpar_version ++ fmtversion)
    with (k_sp_lpar ++ (v ++ k_rpar_version ++ fmtversion)).
  rewrite strip_prefix_app.
  change (v ++ k_rpar_version ++ fmtversion)
    with (v ++ [c_rpar; "."%char] ++ (k_sp_version ++ fmtversion)).
  rewrite app_assoc.
  change (k_sp_version ++ fmtversion) with (c_sp :: (tl k_sp_version ++ fmtversion)).
  rewrite spanw_word; [| apply nosp_app; [assumption | repeat constructor] | apply sp_is_space].
  rewrite rev_app_distr. cbn [rev app].
  change (ascii_eqb "."%char c_rpar) with false. cbn [andb].
  rewrite ascii_eqb_refl. rewrite rev_involutive.
  destruct v as [|vc vr]; [congruence|].
  change (c_sp :: tl k_sp_version ++ fmtversion) with (k_sp_version ++ fmtversion).
  rewrite parse_version_tail_fmt. reflexivity.
Qed.

Definition oname (dflt : str) (o : option str) : str := match o with Some s => s | None => dflt end.

Lemma oname_word dflt o : wf_word dflt = true -> wf_oname o = true -> word (oname dflt o).
Proof. destruct o; cbn [wf_oname oname]; auto using wf_word_word. Qed.

(* ------------------------------------------------------------------ level B: lines *)

Lemma m_read_write_lines noopt fa efl who time ver m :
  wf_manifest m = true -> wf_oword fa = true -> wf_word efl = true ->
  m_read_lines true true false empty_manifest (m_write_lines true noopt fa efl who time ver m)
  = Ok (norm_manifest noopt fa efl m).
Proof.
  intros Hm Hfa He. unfold wf_manifest in Hm.
  apply andb_true_iff in Hm. destruct Hm as [Hm Hds]. apply andb_true_iff in Hm. destruct Hm as [Hp Hv].
  pose proof (oname_word k_unknown_product _ eq_refl Hp) as Wp.
  pose proof (oname_word k_generic _ eq_refl Hv) as Wv.
  unfold m_write_lines, mheader. cbn [app]. unfold m_read_lines.
  fold (oname k_unknown_product (mf_product m)). fold (oname k_generic (mf_version m)).
  rewrite parse_mheader_written by assumption.
  cbn [mf_product mf_version mf_deps empty_manifest].
  cbn [read_dep_lines].
  rewrite !boc_hash.
  change (blank_or_comment (k_creator ++ who)) with true.
  change (blank_or_comment (k_time ++ time)) with true.
  change (blank_or_comment (k_eups_version ++ ver)) with true.
  change (blank_or_comment k_hashs) with true.
  change (blank_or_comment k_pkg_flavor_version_table) with true.
  cbv iota.
  rewrite read_dep_lines_deps; [reflexivity | | assumption | assumption].
  unfold written. clear - Hds. induction (mf_deps m) as [|d ds IH]; [reflexivity|].
    cbn [forallb] in Hds. apply andb_true_iff in Hds. destruct Hds as [Hd Hds].
  cbn [filter]. destruct (negb (d_opt d && noopt)); cbn [forallb]; auto.
  rewrite Hd. auto.
Qed.

(* ------------------------------------------------------------------ level A: the file *)

Lemma nonl_ljust n s : nonl s -> nonl (ljust n s).
Proof. intros. unfold ljust. apply nonl_app; auto. now apply nonl_repeat. Qed.

Lemma nonl_const s : no_nl s = true -> nonl s.
Proof. apply no_nl_nonl. Qed.

Lemma nonl_ostr_word o : (exists s, o = Some s /\ word s) -> nonl (ostr o).
Proof. intros [s [-> [_ H]]]. now apply nosp_nonl. Qed.

Lemma nonl_dep_line fa efl d :
  wf_dep d = true -> wf_oword fa = true -> wf_word efl = true -> nonl (dep_line true fa efl d).
Proof.
  intros Hd Hfa He.
  destruct (wf_dep_parts _ Hd) as [Hp [Hv [Hf [Ht [Hdi Hid]]]]].
  destruct (wf_product_parts _ Hp) as [[_ Wp] _].
  destruct (wf_word_word _ Hv) as [_ Wv].
  rewrite dep_line_shape.
  repeat (apply nonl_ljust || apply nonl_app || apply nonl_cons || reflexivity);
    try (apply nosp_nonl; assumption).
  - apply nonl_ostr_word. destruct (norm_flavor_word fa efl _ Hfa Hf He) as [s [E W]]; eauto.
  - apply nonl_ostr_word. destruct (norm_ostr_word k_low_none _ eq_refl Ht) as [s [E W]]; eauto.
  - apply nonl_ostr_word. destruct (norm_ostr_word k_low_none _ eq_refl Hdi) as [s [E W]]; eauto.
  - destruct (d_distid d) as [[|c s]|]; cbn [ostr].
    + constructor.
    + cbn [wf_oword] in Hid. apply nosp_nonl. apply (wf_word_word _ Hid).
    + now apply nonl_const.
Qed.

Lemma nonl_m_write_lines noopt fa efl who time ver m :
  wf_manifest m = true -> wf_oword fa = true -> wf_word efl = true ->
  no_nl who = true -> no_nl time = true -> no_nl ver = true ->
  Forall nonl (m_write_lines true noopt fa efl who time ver m).
Proof.
  intros Hm Hfa He Hw Ht Hv. unfold wf_manifest in Hm.
  apply andb_true_iff in Hm. destruct Hm as [Hm Hds]. apply andb_true_iff in Hm. destruct Hm as [Hp Hve].
  destruct (oname_word k_unknown_product _ eq_refl Hp) as [_ Wp].
  destruct (oname_word k_generic _ eq_refl Hve) as [_ Wv].
  unfold m_write_lines. apply Forall_app. split.
  - unfold mheader. fold (oname k_unknown_product (mf_product m)). fold (oname k_generic (mf_version m)).
    repeat constructor;
      repeat (apply nonl_app || (apply nonl_const; reflexivity) || (apply nosp_nonl; assumption)
              || (apply nonl_const; assumption) || (apply nonl_repeat; reflexivity)).
  - apply Forall_forall. intros l Hl. apply in_map_iff in Hl. destruct Hl as [d [<- Hd]].
    apply filter_In in Hd. destruct Hd as [Hd _].
    rewrite forallb_forall in Hds. apply nonl_dep_line; auto.
Qed.

Lemma m_read_write noopt fa efl who time ver m :
  wf_manifest m = true -> wf_oword fa = true -> wf_word efl = true ->
  no_nl who = true -> no_nl time = true -> no_nl ver = true ->
  m_read true true false empty_manifest (m_write true noopt fa efl who time ver m)
  = Ok (norm_manifest noopt fa efl m).
Proof.
  intros. unfold m_read, m_write. rewrite lines_of_unlines by now apply nonl_m_write_lines.
  now apply m_read_write_lines.
Qed.
