(* C18: the padded columns of the two writers, for fields of ANY length.

   TaggedProductList.write prints "%-20s %-10s %s" (+ "  %s" per extra column), Manifest.write prints
   "%-15s %-12s %-10s %-25s %-30s %s".  python's %-Ns pads a short field to N characters and prints a
   field of N or more characters as it is: the padding separates nothing once the field fills the column.
   What separates two columns is the literal blank of the format.  The lemmas below state this for every
   width and every field length; the print-parse theorems (tl_read_write, m_read_write) rest on
   words_ljust, which has no hypothesis on lengths either. *)
From Coq Require Import Lia.
From Eupsv Require Import Base.Base Base.BaseLemmas Model.Manifest Model.ManifestSpec
  Proofs.ManifestLib Proofs.ManifestText Proofs.ManifestTag.

(* ------------------------------------------------------------------ percent-minus-N-s *)

Lemma ljust_length n s : length (ljust n s) = Nat.max n (length s).
Proof. unfold ljust. rewrite app_length, repeat_length. lia. Qed.

(* a field shorter than the column is padded to the column's width *)
Lemma ljust_narrow n s : length s <= n -> length (ljust n s) = n.
Proof. intros. rewrite ljust_length. lia. Qed.

(* a field that fills the column, or is wider, is printed as it is: no padding at all *)
Lemma ljust_wide n s : n <= length s -> ljust n s = s.
Proof. intros H. unfold ljust. replace (n - length s) with 0 by lia. apply app_nil_r. Qed.

Lemma repeat_snoc {A} (a : A) k x : repeat a k ++ a :: x = a :: repeat a k ++ x.
Proof. induction k as [|k IH]; cbn [repeat app]; [reflexivity|]. now rewrite IH. Qed.

(* a column "%-Ns " is the field, then at least one blank - whatever N and the field's length *)
Lemma column_shape n s x : ljust n s ++ c_sp :: x = s ++ repeat c_sp (S (n - length s)) ++ x.
Proof. unfold ljust. rewrite <- app_assoc. cbn [repeat app]. now rewrite repeat_snoc. Qed.

(* the wide field is followed by exactly the one blank of the format *)
Lemma column_wide n s x : n <= length s -> ljust n s ++ c_sp :: x = s ++ c_sp :: x.
Proof. intros H. now rewrite ljust_wide. Qed.

(* padding alone separates nothing: a field as wide as its column runs into the next one *)
Lemma glued_wide n s x : n <= length s -> ljust n s ++ x = s ++ x.
Proof. intros H. now rewrite ljust_wide. Qed.

Lemma words_glued n a b : word a -> word b -> n <= length a -> words (ljust n a ++ b) = [a ++ b].
Proof.
  intros [Ha Na] [Hb Nb] H. rewrite glued_wide by assumption.
  apply words_word; [now apply nosp_app|]. destruct a; [contradiction|discriminate].
Qed.

(* ------------------------------------------------------------------ a line of a tag list *)

Definition tl_flav (fa : option str) (f : str) : str := match fa with Some g => g | None => f end.

(* the words of a written line are its fields, for every override and every field length *)
Lemma words_tl_line_any fa p f v ex :
  word p -> word (tl_flav fa f) -> word v -> Forall word ex ->
  words (tl_line fa p (f, v, ex)) = p :: tl_flav fa f :: v :: ex.
Proof.
  intros Wp Wf Wv Wex. cbn [tl_line]. fold (tl_flav fa f).
  rewrite !words_ljust by assumption. now rewrite words_extras.
Qed.

(* ------------------------------------------------------------------ a line of a manifest *)

Lemma words_dep_line_any fa efl d :
  wf_dep d = true -> wf_oword fa = true -> wf_word efl = true ->
  exists F T D,
    norm_flavor fa efl (d_flavor d) = Some F /\ word F /\
    norm_ostr k_low_none (d_table d) = Some T /\ word T /\
    norm_ostr k_low_none (d_dir d) = Some D /\ word D /\
    words (dep_line true fa efl d) = d_product d :: F :: d_version d :: T :: D :: words (ostr (d_distid d)).
Proof.
  intros Hd Hfa He.
  destruct (wf_dep_parts _ Hd) as [Hp [Hv [Hf [Ht [Hdi Hid]]]]].
  destruct (wf_product_parts _ Hp) as [Wp _].
  pose proof (wf_word_word _ Hv) as Wv.
  destruct (norm_flavor_word fa efl _ Hfa Hf He) as [F [EF WF]].
  destruct (norm_ostr_word k_low_none (d_table d) eq_refl Ht) as [T [ET WT]].
  destruct (norm_ostr_word k_low_none (d_dir d) eq_refl Hdi) as [D [ED WD]].
  exists F, T, D. repeat (split; [assumption|]).
  rewrite dep_line_shape, EF, ET, ED. cbn [ostr].
  now rewrite !words_ljust by assumption.
Qed.
