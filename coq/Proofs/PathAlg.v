(* Proofs about Model/PathAlg.v (C12) *)
From Eupsv Require Import Base.Base Base.BaseLemmas Model.PathAlg.
From Coq Require Import Lia.

(* regex metacharacters: a delimiter is spliced into patterns unescaped *)
Definition metachars : list ascii :=
  [".";"^";"$";"*";"+";"?";"{";"}";"[";"]";"\";"|";"(";")"]%char.
Definition wf_delim (d : ascii) : bool := negb (mem_ascii d metachars).
Definition no_dollar (x : str) : bool := negb (mem_ascii c_dollar x).
Definition wf_elem (d : ascii) (v : str) : bool :=
  nonempty v && negb (mem_ascii d v) && negb (mem_ascii c_dollar v).
Definition oldv (var : str) (e : env) : str :=
  match alookup var e with Some v => v | None => [] end.

Definition good (d : ascii) (p : str) : Prop :=
  nonempty p = true /\ mem_ascii d p = false /\ mem_ascii c_dollar p = false.

Lemma wf_elem_good d v : wf_elem d v = true -> good d v.
Proof.
  unfold wf_elem, good. rewrite !andb_true_iff, !negb_true_iff. tauto.
Qed.

Lemma wf_delim_not_dollar d : wf_delim d = true -> c_dollar <> d.
Proof.
  unfold wf_delim, metachars. rewrite negb_true_iff. intros H E. subst d.
  vm_compute in H. discriminate.
Qed.

(* ------------------------------------------------------------ no dollar: nothing expands *)

Lemma match_var_at_nodollar c r : c <> c_dollar -> match_var_at (c :: r) = None.
Proof. intro N. apply ascii_eqb_neq in N. unfold match_var_at. now rewrite N. Qed.

Lemma expand_aux_0 e c r :
  expand_aux e 0 (c :: r) =
  match match_var_at (c :: r) with
  | Some (opt, key, dflt, rest) =>
      match (match alookup key e with Some v => Some v | None => dflt end) with
      | Some v => seq_text v (expand_aux e (length (c :: r) - length rest - 1) r)
      | None => if opt then Ok None else Err Undefined
      end
  | None => seq_text [c] (expand_aux e 0 r)
  end.
Proof. reflexivity. Qed.

Lemma expand_aux_nodollar e x : mem_ascii c_dollar x = false -> expand_aux e 0 x = Ok (Some x).
Proof.
  induction x as [|c r IH]; intro H; [reflexivity|].
  apply mem_ascii_cons_false in H. destruct H as [Hc Hr].
  rewrite expand_aux_0, match_var_at_nodollar by congruence. now rewrite IH.
Qed.

Lemma expand_nodollar e v : mem_ascii c_dollar v = false -> expand_var e v = Ok (Some v).
Proof. apply expand_aux_nodollar. Qed.

Lemma interp_aux_nodollar e x : mem_ascii c_dollar x = false -> interp_aux e 0 x = x.
Proof.
  induction x as [|c r IH]; intro H; [reflexivity|].
  apply mem_ascii_cons_false in H. destruct H as [Hc Hr].
  assert (E : ascii_eqb c c_dollar = false) by (apply ascii_eqb_neq; congruence).
  simpl. destruct r as [|b r2].
  - reflexivity.
  - rewrite E. simpl andb. cbv iota. f_equal. now apply IH.
Qed.

Lemma interp_nodollar e x : mem_ascii c_dollar x = false -> interp e x = x.
Proof. apply interp_aux_nodollar. Qed.

(* ------------------------------------------------------------ stripping flags *)

Lemma strip_lead_none d v : mem_ascii d v = false -> strip_lead d v = (false, v).
Proof.
  destruct v as [|c r]; [reflexivity|]. intro H. apply mem_ascii_cons_false in H.
  destruct H as [Hc _]. simpl. assert (E : ascii_eqb c d = false) by (apply ascii_eqb_neq; congruence).
  now rewrite E.
Qed.

Lemma strip_trail_none d v : mem_ascii d v = false -> strip_trail d v = (false, v).
Proof.
  intro H. unfold strip_trail. destruct (rev v) as [|c r] eqn:E.
  - assert (v = []) by (rewrite <- (rev_involutive v), E; reflexivity). now subst.
  - assert (Hin : In c v) by (apply in_rev; rewrite E; now left).
    assert (N : ascii_eqb c d = false).
    { apply ascii_eqb_neq. intros ->. apply mem_ascii_In in Hin. congruence. }
    now rewrite N.
Qed.

Lemma strip_lead_some d v : strip_lead d (d :: v) = (true, v).
Proof. simpl. now rewrite ascii_eqb_refl. Qed.

Lemma strip_trail_some d v : strip_trail d (v ++ [d]) = (true, v).
Proof. unfold strip_trail. rewrite rev_app_distr. simpl. now rewrite ascii_eqb_refl, rev_involutive. Qed.

(* ------------------------------------------------------------ elems *)

Lemma elems_good_parts d x :
  mem_ascii c_dollar x = false -> Forall (good d) (elems d x).
Proof.
  intro H. unfold elems. apply Forall_forall. intros p Hp. apply filter_In in Hp.
  destruct Hp as [Hin Hne]. repeat split; [assumption| |].
  - pose proof (split_on_parts_nodelim d x) as F. rewrite Forall_forall in F. now apply F.
  - pose proof (split_on_parts_sub c_dollar d x H) as F. rewrite Forall_forall in F. now apply F.
Qed.

Lemma filter_nonempty_id d l : Forall (good d) l -> filter nonempty l = l.
Proof.
  induction 1 as [|x l [Hx _] Hl IH]; simpl; [reflexivity|]. now rewrite Hx, IH.
Qed.

Lemma elems_join d l : Forall (good d) l -> elems d (join d l) = l.
Proof.
  intro H. unfold elems. destruct l as [|x l]; [reflexivity|].
  rewrite split_on_join.
  - now apply (filter_nonempty_id d).
  - discriminate.
  - eapply Forall_impl; [|exact H]. intros p [_ [Hp _]]. exact Hp.
Qed.

Lemma join_nodollar d l :
  c_dollar <> d -> Forall (good d) l -> mem_ascii c_dollar (join d l) = false.
Proof.
  intros N H. apply mem_ascii_join; [assumption|].
  eapply Forall_impl; [|exact H]. intros p [_ [_ Hp]]. exact Hp.
Qed.

Lemma good_uniq d l : Forall (good d) l -> Forall (good d) (uniq l).
Proof.
  rewrite !Forall_forall. intros H p Hp. apply H. now apply uniq_In.
Qed.

Lemma good_step d ap fwd l v : good d v -> Forall (good d) l -> Forall (good d) (path_step ap fwd l v).
Proof.
  intros Hv Hl. assert (Hr : Forall (good d) (remove_str v l)) by now apply Forall_filter.
  unfold path_step. destruct fwd; [destruct ap|].
  - apply Forall_app. split; [assumption|constructor; [assumption|constructor]].
  - constructor; assumption.
  - assumption.
Qed.

(* ------------------------------------------------------------ the main computation *)

Definition result_list (ap fwd : bool) (d : ascii) (v old : str) : list str :=
  uniq (path_step ap fwd (elems d old) v).

Lemma env_prepend_wf ap fwd var v d e :
  wf_delim d = true -> wf_elem d v = true -> no_dollar (oldv var e) = true ->
  env_prepend ap fwd var v d e =
    Ok (Some (aset var (join d (result_list ap fwd d v (oldv var e))) e)).
Proof.
  intros Hd Hv Ho. pose proof (wf_elem_good d v Hv) as [Hne [Hnd Hn]].
  unfold no_dollar in Ho. rewrite negb_true_iff in Ho.
  unfold env_prepend. fold (oldv var e).
  rewrite (strip_lead_none d v Hnd). rewrite (strip_trail_none d v Hnd).
  assert (Hx : (if fwd then expand_var e v
                else match expand_var e v with Ok (Some x) => Ok (Some x) | _ => Ok (Some v) end)
               = Ok (Some v)).
  { rewrite (expand_nodollar e v Hn). now destruct fwd. }
  rewrite Hx. simpl bind. unfold new_path_text. rewrite (split_on_nodelim d v Hnd).
  simpl fold_left. simpl andb. cbv iota.
  fold (result_list ap fwd d v (oldv var e)).
  rewrite interp_nodollar; [reflexivity|].
  apply join_nodollar; [now apply wf_delim_not_dollar|].
  unfold result_list. apply good_uniq, good_step; [repeat split; assumption|].
  now apply elems_good_parts.
Qed.

Lemma oldv_aset_same var x e : oldv var (aset var x e) = x.
Proof. unfold oldv. now rewrite alookup_aset_same. Qed.

Lemma result_list_good ap fwd d v old :
  wf_elem d v = true -> mem_ascii c_dollar old = false -> Forall (good d) (result_list ap fwd d v old).
Proof.
  intros Hv Ho. unfold result_list. apply good_uniq, good_step.
  - now apply wf_elem_good.
  - now apply elems_good_parts.
Qed.

(* the state after a well-formed prepend/append/unsetup step *)
Lemma env_prepend_elems ap fwd var v d e :
  wf_delim d = true -> wf_elem d v = true -> no_dollar (oldv var e) = true ->
  exists e', env_prepend ap fwd var v d e = Ok (Some e') /\
    elems d (oldv var e') = result_list ap fwd d v (oldv var e) /\
    no_dollar (oldv var e') = true /\
    (forall k, k <> var -> alookup k e' = alookup k e).
Proof.
  intros Hd Hv Ho. eexists. split; [now apply env_prepend_wf|].
  rewrite oldv_aset_same.
  assert (G : Forall (good d) (result_list ap fwd d v (oldv var e))).
  { apply result_list_good; [assumption|]. unfold no_dollar in Ho. now rewrite negb_true_iff in Ho. }
  split; [now apply elems_join|]. split.
  - unfold no_dollar. rewrite negb_true_iff. apply join_nodollar; [now apply wf_delim_not_dollar|assumption].
  - intros k Hk. now apply alookup_aset_other.
Qed.

(* ------------------------------------------------------------ list laws of result_list *)

Lemma result_prepend d v old :
  result_list false true d v old = v :: remove_str v (uniq (elems d old)).
Proof.
  unfold result_list, path_step. cbn [uniq]. now rewrite uniq_remove_str, remove_str_idem.
Qed.

(* one law for envAppend, whether or not the value is already an element: it comes last, once *)
Lemma result_append d v old :
  result_list true true d v old = remove_str v (uniq (elems d old)) ++ [v].
Proof.
  unfold result_list, path_step. rewrite uniq_app_fresh.
  - now rewrite uniq_remove_str.
  - rewrite remove_str_In. intros [_ N]. now apply N.
Qed.

Lemma result_append_fresh d v old :
  ~ In v (elems d old) -> result_list true true d v old = uniq (elems d old) ++ [v].
Proof.
  intro H. rewrite result_append, remove_str_notin; [reflexivity|]. now rewrite uniq_In.
Qed.

Lemma last_opt_snoc {A} (l : list A) (x : A) : last_opt (l ++ [x]) = Some x.
Proof.
  induction l as [|a l IH]; [reflexivity|]. cbn [app last_opt].
  destruct (l ++ [x]) eqn:E; [now destruct l|exact IH].
Qed.

(* the pinned code (before the fix of D8): a present element stayed where it was *)
Definition result_list_pinned (ap fwd : bool) (d : ascii) (v old : str) : list str :=
  uniq (path_step_pinned ap fwd (elems d old) v).
Lemma result_append_present_pinned d v old :
  In v (elems d old) -> result_list_pinned true true d v old = uniq (elems d old).
Proof. intro H. unfold result_list_pinned, path_step_pinned. now apply uniq_app_present. Qed.

Lemma result_reverse ap d v old :
  result_list ap false d v old = remove_str v (uniq (elems d old)).
Proof. unfold result_list, path_step. apply uniq_remove_str. Qed.

Lemma result_NoDup ap fwd d v old : NoDup (result_list ap fwd d v old).
Proof. apply uniq_NoDup. Qed.

Lemma result_others ap fwd d v old :
  remove_str v (result_list ap fwd d v old) = remove_str v (uniq (elems d old)).
Proof.
  destruct fwd; [destruct ap|].
  - rewrite result_append, remove_str_app, remove_str_idem. simpl.
    rewrite str_eqb_refl. simpl. now rewrite app_nil_r.
  - rewrite result_prepend. simpl. rewrite str_eqb_refl. simpl. apply remove_str_idem.
  - rewrite result_reverse. apply remove_str_idem.
Qed.

(* ------------------------------------------------------------ MANPATH flags *)

Lemma starts_with_cons d x : starts_with [d] (d :: x) = true.
Proof. simpl. now rewrite ascii_eqb_refl. Qed.

Lemma ends_with_snoc d x : ends_with [d] (x ++ [d]) = true.
Proof. unfold ends_with. rewrite rev_app_distr. simpl. now rewrite ascii_eqb_refl. Qed.

Lemma elems_lead d x : elems d (d :: x) = elems d x.
Proof. unfold elems. simpl. now rewrite ascii_eqb_refl. Qed.

Lemma split_on_snoc d x : split_on d (x ++ [d]) = split_on d x ++ [[]].
Proof.
  induction x as [|c r IH]; simpl.
  - now rewrite ascii_eqb_refl.
  - destruct (ascii_eqb c d); rewrite IH; [reflexivity|].
    destruct (split_on d r) as [|h t] eqn:E; [now apply split_on_nonnil in E|reflexivity].
Qed.

Lemma elems_trail d x : elems d (x ++ [d]) = elems d x.
Proof. unfold elems. rewrite split_on_snoc, filter_app. simpl. apply app_nil_r. Qed.

(* the text produced when a leading / trailing delimiter was requested *)
Lemma flagged_text d pre app t :
  let s1 := if pre && negb (starts_with [d] t) then d :: t else t in
  let s2 := if app && negb (ends_with [d] s1) then s1 ++ [d] else s1 in
  elems d s2 = elems d t /\
  (pre = true -> starts_with [d] s2 = true) /\
  (app = true -> ends_with [d] s2 = true).
Proof.
  intros s1 s2.
  assert (E1 : elems d s1 = elems d t /\ (pre = true -> starts_with [d] s1 = true)).
  { subst s1. destruct pre; cbn [andb]; [|split; [reflexivity|discriminate]].
    destruct (starts_with [d] t) eqn:Es; cbn [negb].
    - split; [reflexivity|intros _; exact Es].
    - split; [apply elems_lead|intros _; apply starts_with_cons]. }
  destruct E1 as [E1 P1].
  subst s2. destruct app; cbn [andb].
  - destruct (ends_with [d] s1) eqn:Ee; cbn [negb].
    + repeat split; auto.
    + rewrite elems_trail. repeat split; auto.
      * intro Hp. specialize (P1 Hp). destruct s1 as [|c r]; [discriminate|]. exact P1.
      * intros _. apply ends_with_snoc.
  - repeat split; auto. discriminate.
Qed.

Lemma new_path_text_single ap fwd d pre app v old :
  mem_ascii d v = false ->
  new_path_text ap fwd d pre app v (elems d old) =
    (let t := join d (result_list ap fwd d v old) in
     let s1 := if pre && negb (starts_with [d] t) then d :: t else t in
     if app && negb (ends_with [d] s1) then s1 ++ [d] else s1).
Proof. intro H. unfold new_path_text. rewrite (split_on_nodelim d v H). reflexivity. Qed.

Lemma env_prepend_flagged ap var v d e (lead trail : bool) :
  wf_delim d = true -> wf_elem d v = true -> no_dollar (oldv var e) = true ->
  let value := (if lead then [d] else []) ++ v ++ (if trail then [d] else []) in
  exists e', env_prepend ap true var value d e = Ok (Some e') /\
    elems d (oldv var e') = result_list ap true d v (oldv var e) /\
    (lead = true -> starts_with [d] (oldv var e') = true) /\
    (trail = true -> ends_with [d] (oldv var e') = true) /\
    (forall k, k <> var -> alookup k e' = alookup k e).
Proof.
  intros Hd Hv Ho value. pose proof (wf_elem_good d v Hv) as [Hne [Hnd Hn]].
  assert (Ho' : mem_ascii c_dollar (oldv var e) = false)
    by (unfold no_dollar in Ho; now rewrite negb_true_iff in Ho).
  unfold env_prepend. fold (oldv var e).
  assert (S1 : strip_lead d value = (lead, v ++ (if trail then [d] else []))).
  { subst value. destruct lead; simpl app.
    - apply strip_lead_some.
    - destruct v as [|c r]; [discriminate|]. apply mem_ascii_cons_false in Hnd. destruct Hnd as [Hc _].
      simpl. assert (E : ascii_eqb c d = false) by (apply ascii_eqb_neq; congruence). now rewrite E. }
  rewrite S1.
  assert (S2 : strip_trail d (v ++ (if trail then [d] else [])) = (trail, v)).
  { destruct trail; [apply strip_trail_some|]. rewrite app_nil_r. now apply strip_trail_none. }
  rewrite S2. rewrite (expand_nodollar e v Hn). simpl bind.
  rewrite (new_path_text_single ap true d lead trail v (oldv var e) Hnd). cbv zeta.
  eexists. split; [reflexivity|]. rewrite oldv_aset_same.
  pose proof (result_list_good ap true d v (oldv var e) Hv Ho') as G.
  set (t := join d (result_list ap true d v (oldv var e))).
  pose proof (flagged_text d lead trail t) as F. cbv zeta in F.
  set (s1 := if lead && negb (starts_with [d] t) then d :: t else t) in *.
  set (s2 := if trail && negb (ends_with [d] s1) then s1 ++ [d] else s1) in *.
  assert (Hs2 : mem_ascii c_dollar s2 = false).
  { assert (Hd' : ascii_eqb c_dollar d = false) by (apply ascii_eqb_neq; now apply wf_delim_not_dollar).
    assert (Ht : mem_ascii c_dollar t = false)
      by (apply join_nodollar; [now apply wf_delim_not_dollar|assumption]).
    assert (Hs1 : mem_ascii c_dollar s1 = false).
    { subst s1. destruct (lead && negb (starts_with [d] t)); [|assumption]. cbn [mem_ascii]. now rewrite Hd'. }
    subst s2. destruct (trail && negb (ends_with [d] s1)); [|assumption].
    rewrite mem_ascii_app, Hs1. cbn [mem_ascii orb]. now rewrite Hd'. }
  change (elems d (interp e s2) = result_list ap true d v (oldv var e) /\
          (lead = true -> starts_with [d] (interp e s2) = true) /\
          (trail = true -> ends_with [d] (interp e s2) = true) /\
          (forall k, k <> var -> alookup k (aset var (interp e s2) e) = alookup k e)).
  rewrite (interp_nodollar e s2 Hs2).
  destruct F as [F1 [F2 F3]]. split.
  - rewrite F1. subst t. now apply elems_join.
  - repeat split; auto. intros k Hk. now apply alookup_aset_other.
Qed.

(* ------------------------------------------------------------ envSet *)

Lemma env_set_expanded k v v' e :
  expand_var e v = Ok (Some v') -> v' <> [] -> env_set true k v e = Ok (Some (aset k (interp e v') e)).
Proof.
  intros Hf Hv. unfold env_set. rewrite Hf. simpl. destruct v'; [congruence|reflexivity].
Qed.

(* one defined reference between dollar-free texts is replaced by its value *)
Lemma span_stop p x c y : (forall a, In a x -> p a = true) -> p c = false ->
  span p (x ++ c :: y) = (x, c :: y).
Proof.
  intros Hx Hc. induction x as [|a x IH]; simpl.
  - now rewrite Hc.
  - rewrite (Hx a (or_introl eq_refl)). rewrite IH; [reflexivity|]. intros b Hb. apply Hx. now right.
Qed.

Lemma interp_aux_skip e n x y : n = length x -> interp_aux e n (x ++ y) = interp_aux e 0 y.
Proof.
  revert n. induction x as [|c x IH]; intros n Hn; simpl in *; subst; [reflexivity|].
  now apply IH.
Qed.

Lemma interp_aux_0 e c r :
  interp_aux e 0 (c :: r) =
  match match_interp_at (c :: r) with
  | Some (key, rest) =>
      match alookup key e with
      | Some v => v ++ interp_aux e (length (c :: r) - length rest - 1) r
      | None => c :: interp_aux e 0 r
      end
  | None => c :: interp_aux e 0 r
  end.
Proof. reflexivity. Qed.

Lemma match_interp_at_ref key b :
  mem_ascii c_rbrace key = false ->
  match_interp_at (c_dollar :: c_lbrace :: key ++ c_rbrace :: b) = Some (key, b).
Proof.
  intro Hk. unfold match_interp_at. rewrite !ascii_eqb_refl. cbn [andb].
  rewrite (span_stop _ key c_rbrace b); [reflexivity| |].
  - intros x Hx. rewrite negb_true_iff. apply ascii_eqb_neq. intros ->.
    apply mem_ascii_In in Hx. congruence.
  - now rewrite ascii_eqb_refl.
Qed.

Lemma match_interp_at_nodollar c r : c <> c_dollar -> match_interp_at (c :: r) = None.
Proof.
  intro N. unfold match_interp_at. destruct r; [reflexivity|].
  apply ascii_eqb_neq in N. now rewrite N.
Qed.

Lemma interp_reference e a key val b :
  mem_ascii c_dollar a = false -> mem_ascii c_rbrace key = false -> alookup key e = Some val ->
  interp e (a ++ c_dollar :: c_lbrace :: key ++ c_rbrace :: b) = a ++ val ++ interp e b.
Proof.
  intros Ha Hk Hl. unfold interp. induction a as [|c r IH].
  - cbn [app]. rewrite interp_aux_0, (match_interp_at_ref key b Hk), Hl.
    apply (f_equal (app val)).
    replace (length (c_dollar :: c_lbrace :: key ++ c_rbrace :: b) - length b - 1)
      with (length (c_lbrace :: key ++ [c_rbrace])).
    + replace (c_lbrace :: key ++ c_rbrace :: b) with ((c_lbrace :: key ++ [c_rbrace]) ++ b).
      * now apply interp_aux_skip.
      * cbn [app]. now rewrite <- app_assoc.
    + cbn [length]. rewrite !app_length. cbn [length]. lia.
  - apply mem_ascii_cons_false in Ha. destruct Ha as [Hc Hr].
    cbn [app]. rewrite interp_aux_0, match_interp_at_nodollar by congruence.
    f_equal. now apply IH.
Qed.

Lemma env_set_reverse k v e : env_set false k v e = Ok (Some (aremove k e)).
Proof. reflexivity. Qed.

(* ------------------------------------------------------------ guarded references *)

Lemma expand_aux_skip e n x y : n = length x -> expand_aux e n (x ++ y) = expand_aux e 0 y.
Proof.
  revert n. induction x as [|c x IH]; intros n Hn; simpl in *; subst; [reflexivity|].
  now apply IH.
Qed.

Definition key_ok (key : str) : Prop := forall x, In x key -> x <> c_minus /\ x <> c_rbrace.

Lemma match_var_at_ref opt key b :
  key_ok key ->
  match_var_at (c_dollar :: (if opt : bool then [c_quest] else []) ++ c_lbrace :: key ++ c_rbrace :: b)
  = Some (opt, key, None, b).
Proof.
  intro Hk.
  assert (Hs : span (fun c => negb (ascii_eqb c c_minus || ascii_eqb c c_rbrace)) (key ++ c_rbrace :: b)
               = (key, c_rbrace :: b)).
  { apply span_stop.
    - intros x Hx. destruct (Hk x Hx) as [N1 N2]. rewrite negb_true_iff, orb_false_iff.
      split; apply ascii_eqb_neq; assumption.
    - rewrite ascii_eqb_refl. now rewrite orb_true_r. }
  destruct opt; cbn [app]; unfold match_var_at; rewrite ?ascii_eqb_refl; cbn [negb].
  - rewrite Hs. now rewrite ascii_eqb_refl.
  - replace (ascii_eqb c_lbrace c_quest) with false by reflexivity.
    rewrite ascii_eqb_refl. cbn [negb]. rewrite Hs. now rewrite ascii_eqb_refl.
Qed.

(* a defined reference is replaced by the value of its own variable and expansion goes on
   with the rest of the text *)
Lemma expand_reference e a opt key val b :
  mem_ascii c_dollar a = false -> key_ok key -> alookup key e = Some val ->
  expand_var e (a ++ c_dollar :: (if opt : bool then [c_quest] else []) ++ c_lbrace :: key ++ c_rbrace :: b)
  = seq_text (a ++ val) (expand_var e b).
Proof.
  intros Ha Hk Hl. unfold expand_var. induction a as [|c r IH].
  - cbn [app]. rewrite expand_aux_0, (match_var_at_ref opt key b Hk), Hl.
    set (m := (if opt : bool then [c_quest] else []) ++ c_lbrace :: key ++ [c_rbrace]).
    replace (length (c_dollar :: (if opt : bool then [c_quest] else []) ++ c_lbrace :: key ++ c_rbrace :: b)
             - length b - 1) with (length m).
    + replace ((if opt : bool then [c_quest] else []) ++ c_lbrace :: key ++ c_rbrace :: b) with (m ++ b).
      * now rewrite expand_aux_skip.
      * subst m. rewrite <- app_assoc. cbn [app]. now rewrite <- app_assoc.
    + subst m. cbn [length]. rewrite !app_length. cbn [length]. rewrite !app_length. cbn [length]. lia.
  - apply mem_ascii_cons_false in Ha. destruct Ha as [Hc Hr].
    cbn [app]. rewrite expand_aux_0, match_var_at_nodollar by congruence.
    rewrite IH by assumption. destruct (expand_aux e 0 b) as [[t|]|]; reflexivity.
Qed.

Lemma expand_guarded_undefined e a key b :
  mem_ascii c_dollar a = false -> key_ok key -> alookup key e = None ->
  expand_var e (a ++ c_dollar :: c_quest :: c_lbrace :: key ++ c_rbrace :: b) = Ok None.
Proof.
  intros Ha Hk Hl. unfold expand_var. induction a as [|c r IH].
  - cbn [app]. rewrite expand_aux_0.
    pose proof (match_var_at_ref true key b Hk) as M. cbn [app] in M. rewrite M. now rewrite Hl.
  - apply mem_ascii_cons_false in Ha. destruct Ha as [Hc Hr].
    cbn [app]. rewrite expand_aux_0, match_var_at_nodollar by congruence.
    now rewrite IH.
Qed.

(* ------------------------------------------------------------ sequences of actions *)

Lemma exec_pacts_inv (P : env -> Prop) fwd l :
  (forall a e e', In a l -> P e -> exec_pact fwd a e = Ok e' -> P e') ->
  forall e e', P e -> exec_pacts fwd l e = Ok e' -> P e'.
Proof.
  induction l as [|a l IH]; intros Hstep e e' HP H; simpl in H.
  - now injection H as <-.
  - destruct (exec_pact fwd a e) as [e1|] eqn:E1; simpl in H; [|discriminate].
    apply (IH (fun a0 x x' Hin => Hstep a0 x x' (or_intror Hin)) e1 e'); [|assumption].
    apply (Hstep a e e1); [now left|assumption|assumption].
Qed.
