(* Proofs about Model/PathAlgScript.v (C12): one action executed many times, environments that change *)
From Eupsv Require Import Base.Base Base.BaseLemmas Model.PathAlg Model.PathAlgScript Proofs.PathAlg.
From Coq Require Import Lia.

(* ------------------------------------------------------------ scripts *)

Lemma script_env_app acts pre post e :
  script_env acts (pre ++ post) e = script_env acts post (script_env acts pre e).
Proof. revert e. induction pre as [|s r IH]; intro e; [reflexivity|]. cbn [app script_env]. apply IH. Qed.

Lemma run_script_app acts pre post e :
  run_script acts (pre ++ post) e = run_script acts pre e ++ run_script acts post (script_env acts pre e).
Proof.
  revert e. induction pre as [|s r IH]; intro e; [reflexivity|].
  cbn [app run_script script_env]. now rewrite IH.
Qed.

Lemma run_script_length acts steps e : length (run_script acts steps e) = length steps.
Proof. revert e. induction steps as [|s r IH]; intro e; [reflexivity|]. cbn [run_script length]. now rewrite IH. Qed.

Lemma run_script_nth acts pre s post e :
  nth_error (run_script acts (pre ++ s :: post) e) (length pre)
  = Some (exec_sstep acts s (script_env acts pre e)).
Proof.
  rewrite run_script_app. rewrite nth_error_app2 by (rewrite run_script_length; lia).
  rewrite run_script_length, PeanoNat.Nat.sub_diag. reflexivity.
Qed.

Lemma script_env_inv (P : env -> Prop) acts steps :
  (forall s e, In s steps -> P e -> P (env_after acts s e)) ->
  forall e, P e -> P (script_env acts steps e).
Proof.
  induction steps as [|s r IH]; intros Hstep e HP; [exact HP|].
  cbn [script_env]. apply IH.
  - intros s0 e0 Hin. apply Hstep. now right.
  - apply Hstep; [now left|exact HP].
Qed.

(* ------------------------------------------------------------ references are read when the action runs *)

Lemma env_prepend_expanded ap fwd var v x d e :
  mem_ascii d v = false -> expand_var e v = Ok (Some x) -> wf_elem d x = true ->
  env_prepend ap fwd var v d e = env_prepend ap fwd var x d e.
Proof.
  intros Hdv Hx Hwf. pose proof (wf_elem_good d x Hwf) as [_ [Hdx Hnx]].
  unfold env_prepend.
  rewrite (strip_lead_none d v Hdv), (strip_trail_none d v Hdv).
  rewrite (strip_lead_none d x Hdx), (strip_trail_none d x Hdx).
  rewrite Hx, (expand_nodollar e x Hnx). now destruct fwd.
Qed.

Lemma env_prepend_ref_elems ap fwd var v x d e :
  wf_delim d = true -> mem_ascii d v = false -> expand_var e v = Ok (Some x) -> wf_elem d x = true ->
  no_dollar (oldv var e) = true ->
  exists e', env_prepend ap fwd var v d e = Ok (Some e') /\
    elems d (oldv var e') = result_list ap fwd d x (oldv var e) /\
    no_dollar (oldv var e') = true /\
    (forall k, k <> var -> alookup k e' = alookup k e).
Proof.
  intros Hd Hdv Hx Hwf Ho. rewrite (env_prepend_expanded ap fwd var v x d e Hdv Hx Hwf).
  now apply env_prepend_elems.
Qed.

Definition ref_text (opt : bool) (a key b : str) : str :=
  a ++ c_dollar :: (if opt then [c_quest] else []) ++ c_lbrace :: key ++ c_rbrace :: b.

Lemma expand_single_ref e a opt key val b :
  mem_ascii c_dollar a = false -> mem_ascii c_dollar b = false -> key_ok key -> alookup key e = Some val ->
  expand_var e (ref_text opt a key b) = Ok (Some (a ++ val ++ b)).
Proof.
  intros Ha Hb Hk Hl. unfold ref_text. rewrite (expand_reference e a opt key val b Ha Hk Hl).
  rewrite (expand_nodollar e b Hb). cbn [seq_text]. now rewrite <- app_assoc.
Qed.

(* the list an action leaves, by mode and end *)
Definition law_list (ap fwd : bool) (x : str) (old : list str) : list str :=
  if fwd then (if ap then remove_str x (uniq old) ++ [x] else x :: remove_str x (uniq old))
  else remove_str x (uniq old).

Lemma result_list_law ap fwd d x old : result_list ap fwd d x old = law_list ap fwd x (elems d old).
Proof.
  unfold law_list. destruct fwd; [destruct ap|].
  - apply result_append.
  - apply result_prepend.
  - apply result_reverse.
Qed.

Lemma NoDup_app_snoc {A} (l : list A) (x : A) : NoDup l -> ~ In x l -> NoDup (l ++ [x]).
Proof.
  induction 1 as [|y l Hy Hl IH]; intro N; cbn [app].
  - constructor; [intros []|constructor].
  - constructor.
    + intro H. apply in_app_or in H. destruct H as [H|[H|[]]]; [now apply Hy|]. subst. apply N. now left.
    + apply IH. intro H. apply N. now right.
Qed.

Lemma law_list_uniq ap fwd x old : uniq (law_list ap fwd x old) = law_list ap fwd x old.
Proof.
  assert (R : NoDup (remove_str x (uniq old))) by (apply NoDup_filter, uniq_NoDup).
  apply uniq_NoDup_id. unfold law_list. destruct fwd; [destruct ap|]; try exact R.
  - apply NoDup_app_snoc; [exact R|]. rewrite remove_str_In. tauto.
  - constructor; [rewrite remove_str_In; tauto|exact R].
Qed.

Lemma law_list_keeps ap x y old : x <> y -> In x (remove_str y (law_list ap true x old)).
Proof.
  intro N. rewrite remove_str_In. split; [|exact N].
  unfold law_list. destruct ap; [apply in_or_app; right|]; now left.
Qed.

(* one action: set up, the referenced variable changes, unsetup of the same action *)
Lemma setup_change_unsetup_script ap opt d var key a b val1 val2 acts i e :
  nth_error acts i = Some (PPrepend ap var (ref_text opt a key b) d) ->
  wf_delim d = true -> mem_ascii d (ref_text opt a key b) = false ->
  mem_ascii c_dollar a = false -> mem_ascii c_dollar b = false -> key_ok key -> key <> var ->
  alookup key e = Some val1 ->
  wf_elem d (a ++ val1 ++ b) = true -> wf_elem d (a ++ val2 ++ b) = true -> no_dollar (oldv var e) = true ->
  exists e1 e2,
    run_script acts [SExec i true; SPut key val2; SExec i false] e = [Ok e1; Ok (aset key val2 e1); Ok e2] /\
    elems d (oldv var e2)
      = remove_str (a ++ val2 ++ b) (law_list ap true (a ++ val1 ++ b) (elems d (oldv var e))) /\
    (forall k, k <> var -> k <> key -> alookup k e2 = alookup k e).
Proof.
  intros Hi Hd Hdv Ha Hb Hk Hkv Hl Hw1 Hw2 Ho.
  pose proof (expand_single_ref e a opt key val1 b Ha Hb Hk Hl) as X1.
  destruct (env_prepend_ref_elems ap true var _ _ d e Hd Hdv X1 Hw1 Ho) as [e1 [P1 [E1 [N1 F1]]]].
  set (e1' := aset key val2 e1).
  assert (Ov : oldv var e1' = oldv var e1).
  { unfold oldv, e1'. rewrite alookup_aset_other by congruence. reflexivity. }
  assert (L2 : alookup key e1' = Some val2) by apply alookup_aset_same.
  pose proof (expand_single_ref e1' a opt key val2 b Ha Hb Hk L2) as X2.
  assert (N1' : no_dollar (oldv var e1') = true) by now rewrite Ov.
  destruct (env_prepend_ref_elems ap false var _ _ d e1' Hd Hdv X2 Hw2 N1') as [e2 [P2 [E2 [_ F2]]]].
  exists e1, e2. split; [|split].
  - assert (S1 : exec_sstep acts (SExec i true) e = Ok e1).
    { cbn [exec_sstep]. rewrite Hi. unfold exec_pact. now rewrite P1. }
    assert (A1 : env_after acts (SExec i true) e = e1) by (unfold env_after; now rewrite S1).
    assert (S3 : exec_sstep acts (SExec i false) e1' = Ok e2).
    { cbn [exec_sstep]. rewrite Hi. unfold exec_pact. now rewrite P2. }
    cbn [run_script]. rewrite A1, S1.
    change (env_after acts (SPut key val2) e1) with e1'.
    change (exec_sstep acts (SPut key val2) e1) with (Ok e1' : res env).
    now rewrite S3.
  - rewrite E2, result_reverse, Ov, E1, result_list_law. now rewrite law_list_uniq.
  - intros k K1 K2. rewrite F2 by assumption. unfold e1'. rewrite alookup_aset_other by assumption.
    now apply F1.
Qed.
