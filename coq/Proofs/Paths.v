(* Relocation (C16): what Database.declare stores for a product and what
   Database.findProduct makes of it under any stack root.
   Part B (this half): resolvePaths on the stored forms.  Part A: canonicalizePaths,
   addFlavor and the trimDir loop on the declared forms. *)
From Eupsv Require Import Base.Base Base.BaseLemmas Model.Paths Model.Records
  Proofs.RecordsLib Proofs.PathsLib.
From Coq Require Import Lia.

(* ------------------------------------------------------------ where the product directory is *)

Inductive dirk :=
| DIn (d : str)      (* inside the stack: root / d *)
| DOut (o : str)     (* at the absolute location o, outside the stack *)
| DNone.             (* no directory: the word none *)

Definition wf_dirk (dk : dirk) : bool :=
  match dk with DIn d => wf_rel d | DOut o => wf_abs o | DNone => true end.

(* as given to declare for a stack at root, as stored, and as expected back for a stack at root *)
Definition dir_given (root : str) (dk : dirk) : str :=
  match dk with DIn d => root ++ c_slash :: d | DOut o => o | DNone => s_none end.
Definition dir_stored (dk : dirk) : str :=
  match dk with DIn d => d | DOut o => o | DNone => s_none end.
Definition dir_at (root : str) (dk : dirk) : str := dir_given root dk.

Definition md0 (f root : str) : mdata :=
  [(M_FLAVOR, Some f); (M_PROD_ROOT, Some root); (M_UPS_DB, Some (db_of root))].

Lemma wf_abs_join root d : wf_abs root = true -> wf_rel d = true -> wf_abs (root ++ c_slash :: d) = true.
Proof.
  intros HR Hd. apply wf_abs_parts in HR. destruct HR as [R1 [R2 R3]].
  apply wf_rel_parts in Hd. destruct Hd as [D1 [D2 [D3 [D4 D5]]]].
  unfold wf_abs, plain. rewrite isabs_app by assumption.
  change (root ++ c_slash :: d) with (root ++ [c_slash] ++ d). rewrite app_assoc.
  rewrite ends_slash_app by (destruct d; [discriminate|congruence]). rewrite D3.
  rewrite has_dollar_app, has_dollar_app, R3, D4. reflexivity.
Qed.

(* the directory found under root is either a well-formed absolute path or the word none *)
Lemma dir_at_cases root dk : wf_abs root = true -> wf_dirk dk = true ->
  wf_abs (dir_at root dk) = true \/ dir_at root dk = s_none.
Proof.
  intros HR Hd. destruct dk as [d|o|]; cbn in *; [left; now apply wf_abs_join|now left|now right].
Qed.

Lemma res_dir_dk root f dk : wf_abs root = true -> wf_dirk dk = true ->
  exists md1, res_dir (Some root) (md0 f root) (Some (dir_stored dk)) = (Some (dir_at root dk), md1).
Proof.
  intros HR Hd. destruct dk as [d|o|]; cbn [dir_stored dir_at dir_given wf_dirk] in *.
  - pose proof (wf_abs_join _ _ HR Hd) as HJ. apply wf_abs_parts in HJ. destruct HJ as [_ [_ J3]].
    pose proof (wf_abs_nonempty _ HR) as NR.
    apply wf_abs_parts in HR. destruct HR as [R1 [R2 R3]].
    apply wf_rel_parts in Hd. destruct Hd as [D1 [D2 [D3 [D4 D5]]]].
    unfold res_dir. rewrite D5, D2. cbn [negb andb].
    rewrite starts_macro_plain, isabs_not_none_like by assumption. cbn [negb andb].
    rewrite path_join_rel by assumption. rewrite resolve_val_plain by assumption. eauto.
  - apply wf_abs_parts in Hd. destruct Hd as [O1 _].
    unfold res_dir. rewrite O1, andb_false_r. eauto.
  - unfold res_dir. change (is_real (Some s_none)) with false. cbn [andb]. eauto.
Qed.

Lemma res_last_dir_plain md x : has_dollar x = false -> res_last_dir md (Some x) = (Some x, md).
Proof. intro H. unfold res_last_dir. now rewrite H, andb_false_r. Qed.

Lemma dir_at_plain root dk : wf_abs root = true -> wf_dirk dk = true -> has_dollar (dir_at root dk) = false.
Proof.
  intros HR Hd. destruct (dir_at_cases root dk HR Hd) as [H| ->]; [|reflexivity].
  apply wf_abs_parts in H. tauto.
Qed.

(* ------------------------------------------------------------ the ups directory *)

(* ups dir stored as the word ups *)
Definition ups_at (D : str) : str := if str_eqb D s_none then s_ups else D ++ c_slash :: s_ups.

Lemma res_ups_ups D md :
  (wf_abs D = true \/ D = s_none) ->
  exists md2, res_ups (Some D) md (Some s_ups) = (Some (ups_at D), md2).
Proof.
  intros [H| ->].
  - pose proof (wf_abs_nonempty _ H) as ND. apply wf_abs_parts in H. destruct H as [H1 [H2 H3]].
    unfold res_ups. change (is_real (Some s_ups) && negb (isabs s_ups)) with true. cbv iota.
    change (starts_macro s_ups) with false. rewrite isabs_not_none_like by assumption. cbn [negb andb].
    rewrite path_join_rel by (assumption || reflexivity).
    rewrite resolve_val_plain.
    2:{ rewrite has_dollar_app, H3. reflexivity. }
    unfold ups_at. destruct (str_eqb_spec D s_none) as [->|_]; [discriminate|]. eauto.
  - unfold res_ups. change (is_real (Some s_ups) && negb (isabs s_ups)) with true. cbv iota.
    change (negb (starts_macro s_ups) && negb (none_like (Some s_none))) with false. cbv iota.
    rewrite resolve_val_plain by reflexivity. unfold ups_at. eauto.
Qed.

Lemma ups_at_real D : is_real (Some (ups_at D)) = true.
Proof.
  unfold ups_at. destruct (str_eqb D s_none); [reflexivity|].
  unfold is_real. rewrite !negb_true_iff, !orb_false_iff. repeat split; apply str_eqb_neq; intro E.
  - assert (L : length (D ++ c_slash :: s_ups) = length s_none) by now rewrite E.
    rewrite app_length in L. cbn in L. lia.
  - assert (L : last_opt (D ++ c_slash :: s_ups) = last_opt (lit "???")) by now rewrite E.
    rewrite last_opt_app_r in L by discriminate. discriminate.
  - assert (L : last_opt (D ++ c_slash :: s_ups) = last_opt (lit "(none)")) by now rewrite E.
    rewrite last_opt_app_r in L by discriminate. discriminate.
Qed.

(* ups dir stored as UPS_DB / e / ups: resolved against the database of the root *)
Lemma resolve_val_upsdb f root e md :
  wf_abs root = true -> has_dollar e = false ->
  (md = md0 f root \/ exists D, isabs D = true /\ md = md0 f root ++ [(M_PROD_DIR, Some D)]) ->
  resolve_val md None (ups_in_db e) = db_of root ++ c_slash :: e ++ c_slash :: s_ups.
Proof.
  intros HR He Hmd.
  assert (HP : has_dollar (c_slash :: e ++ c_slash :: s_ups) = false).
  { change (c_slash :: e ++ c_slash :: s_ups) with ([c_slash] ++ e ++ c_slash :: s_ups).
    rewrite !has_dollar_app, He. reflexivity. }
  assert (Hdb : isabs (db_of root) = true) by now apply db_of_abs.
  destruct (isabs_cons _ Hdb) as [dbr Edb].
  assert (S1 : forall x, apply_macro M_FLAVOR x (ups_in_db e) = ups_in_db e).
  { intro x. unfold ups_in_db. cbn [apply_macro]. now apply sub_all_flavor_upsdb. }
  assert (Core : fold_left (fun v (en : macro * val) =>
                     let (m, data) := en in
                     match data with Some (c :: r) => apply_macro m (c :: r) v | _ => v end)
                   (md0 f root) (ups_in_db e) = db_of root ++ c_slash :: e ++ c_slash :: s_ups).
  { unfold md0. cbn [fold_left].
    assert (E1 : match f with [] => ups_in_db e | c :: r => apply_macro M_FLAVOR (c :: r) (ups_in_db e) end
                 = ups_in_db e) by (destruct f; [reflexivity|apply S1]).
    replace (match Some f with Some (c :: r) => apply_macro M_FLAVOR (c :: r) (ups_in_db e) | _ => ups_in_db e end)
      with (ups_in_db e) by (destruct f; [reflexivity|now rewrite S1]).
    destruct (isabs_cons root) as [rr Er]; [apply wf_abs_parts in HR; tauto|].
    rewrite Er at 1. cbn [apply_macro].
    unfold ups_in_db at 1. rewrite sub_prefix_other_upsdb by discriminate.
    rewrite Edb at 1. cbn [apply_macro]. rewrite <- Edb. apply sub_prefix_upsdb. }
  unfold resolve_val. change (ups_in_db e) with (c_dollar :: lit "UPS_DB" ++ c_slash :: e ++ c_slash :: s_ups) at 1.
  cbv iota. change (c_dollar :: lit "UPS_DB" ++ c_slash :: e ++ c_slash :: s_ups) with (ups_in_db e).
  destruct Hmd as [-> | [D [HD ->]]].
  - exact Core.
  - rewrite fold_left_app. cbn [fold_left]. change (fold_left _ (md0 f root) (ups_in_db e)) with
      (fold_left (fun v (en : macro * val) =>
                     let (m, data) := en in
                     match data with Some (c :: r) => apply_macro m (c :: r) v | _ => v end)
                   (md0 f root) (ups_in_db e)).
    rewrite Core. destruct (isabs_cons D HD) as [dr ->]. cbn [apply_macro].
    apply sub_prefix_abs. now apply isabs_app.
Qed.
