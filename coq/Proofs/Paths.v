(* Relocation (C16): what Database.declare stores for a product and what
   Database.findProduct makes of it under any stack root.
   Part B (this half): resolvePaths on the stored forms.  Part A: canonicalizePaths,
   addFlavor and the trimDir loop on the declared forms. *)
From Eupsv Require Import Base.Base Base.BaseLemmas Model.Paths Model.Records
  Proofs.RecordsLib Proofs.PathsLib.
From Coq Require Import Lia.

(* ------------------------------------------------------------ where the product directory is *)

Inductive dirk :=
| DIn (d : str)      (* inside the stack: root / d *)
| DOut (o : str)     (* at the absolute location o, outside the stack *)
| DNone.             (* no directory: the word none *)

Definition wf_dirk (dk : dirk) : bool :=
  match dk with DIn d => wf_rel d | DOut o => wf_abs o | DNone => true end.

(* as given to declare for a stack at root, as stored, and as expected back for a stack at root *)
Definition dir_given (root : str) (dk : dirk) : str :=
  match dk with DIn d => root ++ c_slash :: d | DOut o => o | DNone => s_none end.
Definition dir_stored (dk : dirk) : str :=
  match dk with DIn d => d | DOut o => o | DNone => s_none end.
Definition dir_at (root : str) (dk : dirk) : str := dir_given root dk.

Definition md0 (f root : str) : mdata :=
  [(M_FLAVOR, Some f); (M_PROD_ROOT, Some root); (M_UPS_DB, Some (db_of root))].

Lemma wf_abs_join root d : wf_abs root = true -> wf_rel d = true -> wf_abs (root ++ c_slash :: d) = true.
Proof.
  intros HR Hd. apply wf_abs_parts in HR. destruct HR as [R1 [R2 R3]].
  apply wf_rel_parts in Hd. destruct Hd as [D1 [D2 [D3 [D4 D5]]]].
  unfold wf_abs, plain. rewrite isabs_app by assumption.
  change (root ++ c_slash :: d) with (root ++ [c_slash] ++ d). rewrite app_assoc.
  rewrite ends_slash_app by (destruct d; [discriminate|congruence]). rewrite D3.
  rewrite has_dollar_app, has_dollar_app, R3, D4. reflexivity.
Qed.

(* the directory found under root is either a well-formed absolute path or the word none *)
Lemma dir_at_cases root dk : wf_abs root = true -> wf_dirk dk = true ->
  wf_abs (dir_at root dk) = true \/ dir_at root dk = s_none.
Proof.
  intros HR Hd. destruct dk as [d|o|]; cbn in *; [left; now apply wf_abs_join|now left|now right].
Qed.

Definition md_shape (f root : str) (D : str) (md : mdata) : Prop :=
  md = md0 f root \/ md = md0 f root ++ [(M_PROD_DIR, Some D)].

Lemma res_dir_dk root f dk : wf_abs root = true -> wf_dirk dk = true ->
  exists md1, res_dir (Some root) (md0 f root) (Some (dir_stored dk)) = (Some (dir_at root dk), md1)
              /\ md_shape f root (dir_at root dk) md1.
Proof.
  intros HR Hd. destruct dk as [d|o|]; cbn [dir_stored dir_at dir_given wf_dirk] in *.
  - pose proof (wf_abs_join _ _ HR Hd) as HJ. apply wf_abs_parts in HJ. destruct HJ as [_ [_ J3]].
    pose proof (wf_abs_nonempty _ HR) as NR.
    apply wf_abs_parts in HR. destruct HR as [R1 [R2 R3]].
    apply wf_rel_parts in Hd. destruct Hd as [D1 [D2 [D3 [D4 D5]]]].
    unfold res_dir. rewrite D5, D2. cbn [negb andb].
    rewrite starts_macro_plain, isabs_not_none_like by assumption. cbn [negb andb].
    rewrite path_join_rel by assumption. rewrite resolve_val_plain by assumption.
    eexists. split; [reflexivity|]. right. reflexivity.
  - apply wf_abs_parts in Hd. destruct Hd as [O1 _].
    unfold res_dir. rewrite O1, andb_false_r. eexists. split; [reflexivity|]. now left.
  - unfold res_dir. change (is_real (Some s_none)) with false. cbn [andb].
    eexists. split; [reflexivity|]. now left.
Qed.

Lemma res_last_dir_plain md x : has_dollar x = false -> res_last_dir md (Some x) = (Some x, md).
Proof. intro H. unfold res_last_dir. now rewrite H, andb_false_r. Qed.

Lemma dir_at_plain root dk : wf_abs root = true -> wf_dirk dk = true -> has_dollar (dir_at root dk) = false.
Proof.
  intros HR Hd. destruct (dir_at_cases root dk HR Hd) as [H| ->]; [|reflexivity].
  apply wf_abs_parts in H. tauto.
Qed.

(* ------------------------------------------------------------ the ups directory *)

(* ups dir stored as the word ups *)
Definition ups_at (D : str) : str := if str_eqb D s_none then s_ups else D ++ c_slash :: s_ups.

Lemma res_ups_ups D md :
  (wf_abs D = true \/ D = s_none) ->
  exists md2, res_ups (Some D) md (Some s_ups) = (Some (ups_at D), md2).
Proof.
  intros [H| ->].
  - pose proof (wf_abs_nonempty _ H) as ND. apply wf_abs_parts in H. destruct H as [H1 [H2 H3]].
    unfold res_ups. change (is_real (Some s_ups) && negb (isabs s_ups)) with true. cbv iota.
    change (starts_macro s_ups) with false. rewrite isabs_not_none_like by assumption. cbn [negb andb].
    rewrite path_join_rel by (assumption || reflexivity).
    rewrite resolve_val_plain.
    2:{ rewrite has_dollar_app, H3. reflexivity. }
    unfold ups_at. destruct (str_eqb_spec D s_none) as [->|_]; [discriminate|]. eauto.
  - unfold res_ups. change (is_real (Some s_ups) && negb (isabs s_ups)) with true. cbv iota.
    change (negb (starts_macro s_ups) && negb (none_like (Some s_none))) with false. cbv iota.
    rewrite resolve_val_plain by reflexivity. unfold ups_at. eauto.
Qed.

Lemma ups_at_real D : is_real (Some (ups_at D)) = true.
Proof.
  unfold ups_at. destruct (str_eqb D s_none); [reflexivity|].
  unfold is_real. rewrite !negb_true_iff, !orb_false_iff. repeat split; apply str_eqb_neq; intro E.
  - assert (L : last_opt (D ++ c_slash :: s_ups) = last_opt s_none) by now rewrite E.
    rewrite last_opt_app_r in L by discriminate. discriminate.
  - assert (L : last_opt (D ++ c_slash :: s_ups) = last_opt (lit "???")) by now rewrite E.
    rewrite last_opt_app_r in L by discriminate. discriminate.
  - assert (L : last_opt (D ++ c_slash :: s_ups) = last_opt (lit "(none)")) by now rewrite E.
    rewrite last_opt_app_r in L by discriminate. discriminate.
Qed.

(* the fold inside Product._resolve *)
Definition rv_step (v : str) (en : macro * val) : str :=
  let (m, data) := en in
  match data with Some (c :: r) => apply_macro m (c :: r) v | _ => v end.
Definition rv_fold (md : mdata) (x : str) : str := fold_left rv_step md x.

Lemma resolve_val_fold md x : x <> [] -> resolve_val md None x = rv_fold md x.
Proof. intro N. unfold resolve_val. destruct x; [congruence|reflexivity]. Qed.

Lemma rv_fold_cons_some m s md x : s <> [] ->
  rv_fold ((m, Some s) :: md) x = rv_fold md (apply_macro m s x).
Proof. intro N. destruct s; [congruence|reflexivity]. Qed.

Lemma rv_fold_cons_empty m md x : rv_fold ((m, Some []) :: md) x = rv_fold md x.
Proof. reflexivity. Qed.

Lemma rv_fold_app a b x : rv_fold (a ++ b) x = rv_fold b (rv_fold a x).
Proof. apply fold_left_app. Qed.

(* ups dir stored as UPS_DB / e / ups: resolved against the database of the root *)
Lemma resolve_val_upsdb f root e md :
  wf_abs root = true -> has_dollar e = false ->
  (md = md0 f root \/ exists D, isabs D = true /\ md = md0 f root ++ [(M_PROD_DIR, Some D)]) ->
  resolve_val md None (ups_in_db e) = db_of root ++ c_slash :: e ++ c_slash :: s_ups.
Proof.
  intros HR He Hmd.
  assert (HP : has_dollar (c_slash :: e ++ c_slash :: s_ups) = false).
  { change (c_slash :: e ++ c_slash :: s_ups) with ([c_slash] ++ e ++ c_slash :: s_ups).
    rewrite !has_dollar_app, He. reflexivity. }
  assert (Hdb : isabs (db_of root) = true) by now apply db_of_abs.
  assert (Hroot : isabs root = true) by (apply wf_abs_parts in HR; tauto).
  assert (Core : rv_fold (md0 f root) (ups_in_db e) = db_of root ++ c_slash :: e ++ c_slash :: s_ups).
  { unfold md0.
    assert (E1 : rv_fold [(M_FLAVOR, Some f)] (ups_in_db e) = ups_in_db e).
    { destruct f as [|c r]; [reflexivity|]. unfold rv_fold, rv_step. cbn [fold_left apply_macro].
      unfold ups_in_db. now apply sub_all_flavor_upsdb. }
    change [(M_FLAVOR, Some f); (M_PROD_ROOT, Some root); (M_UPS_DB, Some (db_of root))]
      with ([(M_FLAVOR, Some f)] ++ [(M_PROD_ROOT, Some root); (M_UPS_DB, Some (db_of root))]).
    rewrite rv_fold_app, E1.
    rewrite rv_fold_cons_some by (destruct root; [discriminate|congruence]).
    cbn [apply_macro]. unfold ups_in_db at 1. rewrite sub_prefix_other_upsdb by discriminate.
    rewrite rv_fold_cons_some by (unfold db_of; destruct root; discriminate).
    cbn [apply_macro]. rewrite sub_prefix_upsdb. reflexivity. }
  rewrite resolve_val_fold by discriminate.
  destruct Hmd as [-> | [D [HD ->]]]; [exact Core|].
  rewrite rv_fold_app, Core.
  rewrite rv_fold_cons_some by (destruct D; [discriminate|congruence]).
  cbn [apply_macro rv_fold fold_left]. apply sub_prefix_abs. now apply isabs_app.
Qed.

Lemma res_ups_interned f root e D md1 dir1 :
  wf_abs root = true -> has_dollar e = false -> md_shape f root D md1 ->
  (wf_abs D = true \/ D = s_none) ->
  exists md2, res_ups dir1 md1 (Some (ups_in_db e))
              = (Some (db_of root ++ c_slash :: e ++ c_slash :: s_ups), md2).
Proof.
  intros HR He Hmd HD. unfold res_ups.
  change (is_real (Some (ups_in_db e)) && negb (isabs (ups_in_db e))) with true. cbv iota.
  change (starts_macro (ups_in_db e)) with true. cbn [negb andb].
  destruct Hmd as [-> | ->].
  - rewrite (resolve_val_upsdb f root e) by auto. eauto.
  - destruct HD as [HD | ->].
    + rewrite (resolve_val_upsdb f root e); [eauto|assumption|assumption|].
      right. exists D. split; [apply wf_abs_parts in HD; tauto|reflexivity].
    + (* the directory is the word none: the extra entry is not an absolute path, but a
         prefix macro still cannot match a text that starts with a slash *)
      rewrite resolve_val_fold by discriminate. rewrite rv_fold_app.
      pose proof (resolve_val_upsdb f root e (md0 f root) HR He (or_introl eq_refl)) as C.
      rewrite resolve_val_fold in C by discriminate. rewrite C.
      rewrite rv_fold_cons_some by discriminate. cbn [apply_macro rv_fold fold_left].
      rewrite sub_prefix_abs; [eauto|]. apply isabs_app. now apply db_of_abs.
Qed.

Lemma res_ups_none dir1 md1 : res_ups dir1 md1 (Some s_none) = (Some s_none, md1).
Proof. reflexivity. Qed.

(* ------------------------------------------------------------ the table file *)

Lemma res_table_none ex root dir1 ups1 md2 :
  res_table ex root dir1 ups1 md2 (Some s_none) = (Some s_none, ups1).
Proof. reflexivity. Qed.

Lemma res_table_abs ex root dir1 ups1 md2 t : isabs t = true ->
  res_table ex root dir1 ups1 md2 (Some t) = (Some t, ups1).
Proof. intro H. unfold res_table. now rewrite H, andb_false_r. Qed.

(* a relative table file under a real ups dir U: U/t if that exists, else root/t if that
   exists, else U/t *)
Definition table_choice (ex : str -> bool) (root U t : str) : str :=
  let nt := U ++ c_slash :: t in
  if ex nt then nt else if ex (root ++ c_slash :: t) then root ++ c_slash :: t else nt.

Lemma res_table_rel ex root dir1 U md2 t :
  wf_abs root = true -> wf_rel t = true ->
  is_real (Some U) = true -> U <> [] -> ends_slash U = false -> has_dollar U = false ->
  res_table ex (Some root) dir1 (Some U) md2 (Some t) = (Some (table_choice ex root U t), Some U).
Proof.
  intros HR Ht HU NU EU DU.
  pose proof (wf_abs_nonempty _ HR) as NR.
  apply wf_abs_parts in HR. destruct HR as [R1 [R2 R3]].
  apply wf_rel_parts in Ht. destruct Ht as [T1 [T2 [T3 [T4 T5]]]].
  unfold res_table. rewrite T5, T2. cbn [negb andb].
  rewrite starts_macro_plain by assumption. cbn [negb]. rewrite HU.
  rewrite path_join_rel by assumption.
  destruct (isabs_cons root R1) as [rr Er].
  assert (J : path_join root t = root ++ c_slash :: t) by now apply path_join_rel.
  unfold table_choice.
  destruct (ex (U ++ c_slash :: t)) eqn:E1.
  - rewrite resolve_val_plain; [reflexivity|]. rewrite has_dollar_app, DU. cbn. exact T4.
  - rewrite Er at 1. rewrite <- Er. rewrite J.
    destruct (ex (root ++ c_slash :: t)) eqn:E2.
    + rewrite resolve_val_plain; [reflexivity|]. rewrite has_dollar_app, R3. cbn. exact T4.
    + rewrite resolve_val_plain; [reflexivity|]. rewrite has_dollar_app, DU. cbn. exact T4.
Qed.

Lemma res_last_table_plain md t : has_dollar t = false -> res_last_table md (Some t) = Some t.
Proof. intro H. unfold res_last_table. now rewrite H, andb_false_r. Qed.

Lemma ups_at_props D : (wf_abs D = true \/ D = s_none) ->
  ups_at D <> [] /\ ends_slash (ups_at D) = false /\ has_dollar (ups_at D) = false.
Proof.
  intros [H | ->]; [|repeat split; discriminate].
  unfold ups_at. destruct (str_eqb D s_none); [repeat split; discriminate|].
  apply wf_abs_parts in H. destruct H as [_ [_ H3]]. repeat split.
  - destruct D; discriminate.
  - change (D ++ c_slash :: s_ups) with (D ++ (c_slash :: s_ups)). now rewrite ends_slash_app.
  - rewrite has_dollar_app, H3. reflexivity.
Qed.

(* ------------------------------------------------------------ resolvePaths on the four stored shapes *)

Lemma table_choice_plain ex root U t :
  has_dollar root = false -> has_dollar U = false -> has_dollar t = false ->
  has_dollar (table_choice ex root U t) = false.
Proof.
  intros H1 H2 H3. unfold table_choice.
  destruct (ex _); [|destruct (ex _)]; rewrite has_dollar_app; cbn; try rewrite H1; try rewrite H2; exact H3.
Qed.

Definition prod_of (n v f : str) (d t db u : val) : product :=
  {| p_name := n; p_version := v; p_flavor := f; p_dir := d; p_table := t; p_db := db; p_ups := u |}.

(* ups, relative table: the table of the ups directory, or one named relative to the stack *)
Lemma resolve_S1 ex n v f root dk t :
  wf_abs root = true -> wf_dirk dk = true -> wf_rel t = true ->
  resolve_paths ex (prod_of n v f (Some (dir_stored dk)) (Some t) (Some (db_of root)) (Some s_ups))
  = prod_of n v f (Some (dir_at root dk))
            (Some (table_choice ex root (ups_at (dir_at root dk)) t))
            (Some (db_of root)) (Some (ups_at (dir_at root dk))).
Proof.
  intros HR Hd Ht. unfold resolve_paths, prod_of. rewrite stack_root_db by assumption.
  cbn [p_dir p_ups p_table p_name p_flavor p_db p_version].
  change (md_init _ (Some root)) with (md0 f root).
  destruct (res_dir_dk root f dk HR Hd) as [md1 [E1 S]]. rewrite E1. cbn [fst snd].
  pose proof (dir_at_cases root dk HR Hd) as HC.
  destruct (res_ups_ups (dir_at root dk) md1 HC) as [md2 E2]. rewrite E2. cbn [fst snd res_table0].
  destruct (ups_at_props _ HC) as [U1 [U2 U3]].
  rewrite res_table_rel by (auto using ups_at_real). cbn [fst snd].
  rewrite res_last_dir_plain by now apply dir_at_plain. cbn [fst snd].
  rewrite res_last_table_plain; [reflexivity|].
  apply table_choice_plain; try assumption.
  - apply wf_abs_parts in HR. tauto.
  - apply wf_rel_parts in Ht. tauto.
Qed.

(* ups, absolute table: kept *)
Lemma resolve_S2 ex n v f root dk T :
  wf_abs root = true -> wf_dirk dk = true -> wf_abs T = true ->
  resolve_paths ex (prod_of n v f (Some (dir_stored dk)) (Some T) (Some (db_of root)) (Some s_ups))
  = prod_of n v f (Some (dir_at root dk)) (Some T) (Some (db_of root))
            (Some (ups_at (dir_at root dk))).
Proof.
  intros HR Hd HT. unfold resolve_paths, prod_of. rewrite stack_root_db by assumption.
  cbn [p_dir p_ups p_table p_name p_flavor p_db p_version].
  change (md_init _ (Some root)) with (md0 f root).
  destruct (res_dir_dk root f dk HR Hd) as [md1 [E1 S]]. rewrite E1. cbn [fst snd].
  pose proof (dir_at_cases root dk HR Hd) as HC.
  destruct (res_ups_ups (dir_at root dk) md1 HC) as [md2 E2]. rewrite E2. cbn [fst snd res_table0].
  apply wf_abs_parts in HT. destruct HT as [T1 [T2 T3]].
  rewrite res_table_abs by assumption. cbn [fst snd].
  rewrite res_last_dir_plain by now apply dir_at_plain. cbn [fst snd].
  now rewrite res_last_table_plain.
Qed.

(* table held in the database: UPS_DB / e / ups, relative table *)
Definition ups_db_at (root e : str) : str := db_of root ++ c_slash :: e ++ c_slash :: s_ups.

Lemma ups_db_at_props root e : wf_abs root = true -> has_dollar e = false ->
  isabs (ups_db_at root e) = true /\ ups_db_at root e <> [] /\
  ends_slash (ups_db_at root e) = false /\ has_dollar (ups_db_at root e) = false.
Proof.
  intros HR He. pose proof (db_of_abs root HR) as A.
  apply wf_abs_parts in HR. destruct HR as [R1 [R2 R3]]. unfold ups_db_at. repeat split.
  - now apply isabs_app.
  - destruct (db_of root); discriminate.
  - change (db_of root ++ c_slash :: e ++ c_slash :: s_ups)
      with (db_of root ++ (c_slash :: e) ++ (c_slash :: s_ups)).
    rewrite !app_assoc. now rewrite ends_slash_app.
  - unfold db_of. rewrite !has_dollar_app, R3. cbn. rewrite has_dollar_app, He. reflexivity.
Qed.

Lemma resolve_S3 ex n v f root dk e t :
  wf_abs root = true -> wf_dirk dk = true -> has_dollar e = false -> wf_rel t = true ->
  resolve_paths ex (prod_of n v f (Some (dir_stored dk)) (Some t) (Some (db_of root)) (Some (ups_in_db e)))
  = prod_of n v f (Some (dir_at root dk))
            (Some (table_choice ex root (ups_db_at root e) t))
            (Some (db_of root)) (Some (ups_db_at root e)).
Proof.
  intros HR Hd He Ht. unfold resolve_paths, prod_of. rewrite stack_root_db by assumption.
  cbn [p_dir p_ups p_table p_name p_flavor p_db p_version].
  change (md_init _ (Some root)) with (md0 f root).
  destruct (res_dir_dk root f dk HR Hd) as [md1 [E1 S]]. rewrite E1. cbn [fst snd].
  pose proof (dir_at_cases root dk HR Hd) as HC.
  destruct (res_ups_interned f root e (dir_at root dk) md1 (Some (dir_at root dk)) HR He S HC) as [md2 E2].
  rewrite E2. cbn [fst snd res_table0]. fold (ups_db_at root e).
  destruct (ups_db_at_props root e HR He) as [U0 [U1 [U2 U3]]].
  rewrite res_table_rel by (auto using isabs_real). cbn [fst snd].
  rewrite res_last_dir_plain by now apply dir_at_plain. cbn [fst snd].
  rewrite res_last_table_plain; [reflexivity|].
  apply table_choice_plain; try assumption.
  - apply wf_abs_parts in HR. tauto.
  - apply wf_rel_parts in Ht. tauto.
Qed.

(* no table file *)
Lemma resolve_S4 ex n v f root dk :
  wf_abs root = true -> wf_dirk dk = true ->
  resolve_paths ex (prod_of n v f (Some (dir_stored dk)) (Some s_none) (Some (db_of root)) (Some s_none))
  = prod_of n v f (Some (dir_at root dk)) (Some s_none) (Some (db_of root)) (Some s_none).
Proof.
  intros HR Hd. unfold resolve_paths, prod_of. rewrite stack_root_db by assumption.
  cbn [p_dir p_ups p_table p_name p_flavor p_db p_version].
  change (md_init _ (Some root)) with (md0 f root).
  destruct (res_dir_dk root f dk HR Hd) as [md1 [E1 S]]. rewrite E1. cbn [fst snd].
  rewrite res_ups_none. cbn [fst snd res_table0]. rewrite res_table_none. cbn [fst snd].
  rewrite res_last_dir_plain by now apply dir_at_plain. reflexivity.
Qed.

(* ------------------------------------------------------------ makeProduct on a block *)

Lemma mk_product_id ex n v f d t db u :
  truthy d = true -> truthy t = true -> mk_product ex n v f d t db u = prod_of n v f d t db u.
Proof. intros Hd Ht. unfold mk_product, prod_of. now rewrite Hd, Ht. Qed.

Lemma make_product_block ex r f i root :
  wf_abs root = true -> alookup f (vf_info r) = Some i ->
  make_product ex r f (Some root) (Some (db_of root))
  = Some (resolve_paths ex
            (mk_product ex (val_str (vf_name r)) (val_str (vf_version r)) f
               (info_get i k_productDir) (info_get i k_table_file) (Some (db_of root))
               (info_get i k_ups_dir))).
Proof.
  intros HR E. unfold make_product. rewrite E.
  assert (T : truthy (Some (db_of root)) = true) by (unfold db_of; destruct root; reflexivity).
  rewrite T, andb_false_r. reflexivity.
Qed.
