(* Lemmas about the os.path functions and the macro substitution of Model/Paths.v (C16) *)
From Eupsv Require Import Base.Base Base.BaseLemmas Model.Paths Model.Records Proofs.RecordsLib.
From Coq Require Import Lia.

(* ------------------------------------------------------------ shapes of paths *)

Definition plain (s : str) : bool := negb (has_dollar s).

(* an absolute, normalised directory name without macro characters: the stack root,
   an outside location *)
Definition wf_abs (s : str) : bool := isabs s && negb (ends_slash s) && plain s.

(* a relative, normalised path without macro characters that is not a placeholder *)
Definition wf_rel (s : str) : bool :=
  nonempty s && negb (isabs s) && negb (ends_slash s) && plain s && is_real (Some s).

Lemma wf_abs_parts s : wf_abs s = true ->
  isabs s = true /\ ends_slash s = false /\ has_dollar s = false.
Proof. unfold wf_abs, plain. rewrite !andb_true_iff, !negb_true_iff. tauto. Qed.

Lemma wf_rel_parts s : wf_rel s = true ->
  nonempty s = true /\ isabs s = false /\ ends_slash s = false /\ has_dollar s = false /\
  is_real (Some s) = true.
Proof. unfold wf_rel, plain. rewrite !andb_true_iff, !negb_true_iff. tauto. Qed.

Lemma isabs_cons s : isabs s = true -> exists r, s = c_slash :: r.
Proof.
  destruct s as [|c r]; [discriminate|]. cbn. intro H. apply ascii_eqb_eq in H. subst. eauto.
Qed.

Lemma isabs_app a b : isabs a = true -> isabs (a ++ b) = true.
Proof. intro H. destruct (isabs_cons a H) as [r ->]. reflexivity. Qed.

Lemma isabs_real s : isabs s = true -> is_real (Some s) = true.
Proof. intro H. destruct (isabs_cons s H) as [r ->]. reflexivity. Qed.

Lemma isabs_truthy s : isabs s = true -> truthy (Some s) = true.
Proof. intro H. destruct (isabs_cons s H) as [r ->]. reflexivity. Qed.

Lemma nonempty_truthy s : nonempty s = true -> truthy (Some s) = true.
Proof. destruct s; [discriminate|reflexivity]. Qed.

Lemma isabs_not_none_like s : isabs s = true -> none_like (Some s) = false.
Proof. intro H. destruct (isabs_cons s H) as [r ->]. reflexivity. Qed.

Lemma has_dollar_app a b : has_dollar (a ++ b) = has_dollar a || has_dollar b.
Proof. apply mem_ascii_app. Qed.

Lemma ends_slash_app a b : b <> [] -> ends_slash (a ++ b) = ends_slash b.
Proof. intro N. unfold ends_slash. now rewrite last_opt_app_r. Qed.

Lemma starts_macro_plain s : has_dollar s = false -> starts_macro s = false.
Proof.
  destruct s as [|c r]; [reflexivity|]. unfold has_dollar. rewrite mem_ascii_cons.
  intro H. apply orb_false_iff in H. destruct H as [H _].
  unfold starts_macro. cbn [lit String.list_ascii_of_string starts_with].
  change "$"%char with c_dollar. now rewrite H.
Qed.

Lemma starts_macro_abs s : isabs s = true -> starts_macro s = false.
Proof. intro H. destruct (isabs_cons s H) as [r ->]. reflexivity. Qed.

(* ------------------------------------------------------------ join, dirname, basename *)

Lemma path_join_rel a b :
  a <> [] -> ends_slash a = false -> isabs b = false -> path_join a b = a ++ c_slash :: b.
Proof.
  intros Na Ha Hb. unfold path_join. rewrite Hb, Ha. destruct a; [congruence|reflexivity].
Qed.

Lemma path_join_abs a b : isabs b = true -> path_join a b = b.
Proof. intro H. unfold path_join. now rewrite H. Qed.

Lemma path_join_nil a : a <> [] -> ends_slash a = false -> path_join a [] = a ++ [c_slash].
Proof. intros. now apply path_join_rel. Qed.

Lemma rstrip_slash_id s : ends_slash s = false -> rstrip_slash s = s.
Proof.
  induction s as [|c r IH]; [reflexivity|]. intro H. cbn [rstrip_slash].
  destruct r as [|d r'].
  - unfold ends_slash in H. cbn in H. cbn. now rewrite H.
  - assert (E : ends_slash (d :: r') = false).
    { unfold ends_slash in *. cbn [last_opt] in *. exact H. }
    rewrite (IH E). reflexivity.
Qed.

Lemma all_slash_false s : s <> [] -> ends_slash s = false -> all_slash s = false.
Proof.
  induction s as [|c r IH]; [congruence|]. intros _ H. cbn [all_slash forallb].
  destruct r as [|d r'].
  - unfold ends_slash in H. cbn in H. now rewrite H.
  - assert (E : ends_slash (d :: r') = false).
    { unfold ends_slash in *. cbn [last_opt] in *. exact H. }
    unfold all_slash in IH. rewrite IH by (congruence || assumption). apply andb_false_r.
Qed.

Lemma split_last_slash_none t : mem_ascii c_slash t = false -> split_last_slash t = None.
Proof.
  induction t as [|c r IH]; [reflexivity|]. rewrite mem_ascii_cons. intro H.
  apply orb_false_iff in H. destruct H as [H1 H2]. cbn. rewrite (IH H2).
  now rewrite ascii_eqb_sym, H1.
Qed.

Lemma split_last_slash_app a t :
  mem_ascii c_slash t = false -> split_last_slash (a ++ c_slash :: t) = Some (a, t).
Proof.
  intro H. induction a as [|c a IH]; cbn [app split_last_slash].
  - rewrite (split_last_slash_none t H), ascii_eqb_refl. reflexivity.
  - now rewrite IH.
Qed.

Lemma dirname_app a t :
  a <> [] -> ends_slash a = false -> mem_ascii c_slash t = false -> dirname (a ++ c_slash :: t) = a.
Proof.
  intros Na Ha Ht. unfold dirname. rewrite split_last_slash_app by assumption.
  rewrite all_slash_false by assumption. now apply rstrip_slash_id.
Qed.

Lemma basename_app a t : mem_ascii c_slash t = false -> basename (a ++ c_slash :: t) = t.
Proof. intro Ht. unfold basename. now rewrite split_last_slash_app. Qed.

Lemma dirname_rel_none t : mem_ascii c_slash t = false -> dirname t = [].
Proof. intro H. unfold dirname. now rewrite split_last_slash_none. Qed.

Lemma basename_rel_none t : mem_ascii c_slash t = false -> basename t = t.
Proof. intro H. unfold basename. now rewrite split_last_slash_none. Qed.

(* ------------------------------------------------------------ the database directory and the stack root *)

Definition db_of (root : str) : str := root ++ c_slash :: s_ups_db.

Lemma wf_abs_nonempty s : wf_abs s = true -> s <> [].
Proof. intro H. apply wf_abs_parts in H. destruct H as [H _]. destruct s; [discriminate|congruence]. Qed.

Lemma stack_root_db n v f d t u root :
  wf_abs root = true ->
  stack_root {| p_name := n; p_version := v; p_flavor := f; p_dir := d; p_table := t;
                p_db := Some (db_of root); p_ups := u |} = Some root.
Proof.
  intro H. assert (N := wf_abs_nonempty _ H). apply wf_abs_parts in H. destruct H as [_ [H2 _]].
  unfold stack_root, db_of. cbn [p_db].
  rewrite basename_app by reflexivity. change (str_eqb s_ups_db s_ups_db) with true. cbv iota.
  now rewrite dirname_app.
Qed.

Lemma db_of_abs root : wf_abs root = true -> isabs (db_of root) = true.
Proof. intro H. apply wf_abs_parts in H. apply isabs_app. tauto. Qed.

(* ------------------------------------------------------------ macros leave plain text alone *)

Lemma macro_text_dollar m : exists r, macro_text m = c_dollar :: r.
Proof. destruct m; eexists; reflexivity. Qed.

Lemma macro_at_not_dollar m c r : ascii_eqb c_dollar c = false -> macro_at (macro_text m) (c :: r) = false.
Proof.
  intro H. destruct (macro_text_dollar m) as [x ->]. unfold macro_at. cbn [starts_with]. now rewrite H.
Qed.

Lemma sub_all_plain m repl x : has_dollar x = false -> sub_all (macro_text m) repl 0 x = x.
Proof.
  induction x as [|c r IH]; [reflexivity|]. unfold has_dollar. rewrite mem_ascii_cons.
  intro H. apply orb_false_iff in H. destruct H as [H1 H2].
  cbn [sub_all]. rewrite macro_at_not_dollar by assumption. now rewrite IH.
Qed.

Lemma sub_prefix_no_dollar m repl x :
  match x with c :: _ => ascii_eqb c_dollar c = false | [] => True end ->
  sub_prefix (macro_text m) repl x = x.
Proof.
  intro H. unfold sub_prefix. destruct x as [|c r].
  - destruct (macro_text_dollar m) as [y ->]. reflexivity.
  - now rewrite macro_at_not_dollar.
Qed.

Lemma apply_macro_plain m repl x : has_dollar x = false -> apply_macro m repl x = x.
Proof.
  intro H. destruct m; cbn [apply_macro]; try (now apply sub_all_plain);
    apply sub_prefix_no_dollar; destruct x as [|c r]; auto;
    unfold has_dollar in H; rewrite mem_ascii_cons in H; apply orb_false_iff in H; tauto.
Qed.

Lemma resolve_val_plain md skip x : has_dollar x = false -> resolve_val md skip x = x.
Proof.
  intro H. unfold resolve_val. destruct x as [|c r]; [reflexivity|].
  set (y := c :: r) in *. clearbody y.
  induction md as [|[m data] md IH]; [reflexivity|]. cbn [fold_left].
  destruct (match skip with Some s => macro_eqb s m | None => false end); [exact IH|].
  destruct data as [[|a b]|]; try exact IH. now rewrite apply_macro_plain.
Qed.

(* prefix macros do nothing to an absolute path *)
Lemma sub_prefix_abs m repl x : isabs x = true -> sub_prefix (macro_text m) repl x = x.
Proof. intro H. destruct (isabs_cons x H) as [r ->]. now apply sub_prefix_no_dollar. Qed.

(* ------------------------------------------------------------ the UPS_DB macro at the head of an ups dir *)

(* the stored ups dir of a table file held in the database: UPS_DB / e / ups *)
Definition ups_in_db (e : str) : str := s_UPS_DB ++ c_slash :: e ++ c_slash :: s_ups.

Lemma sub_all_flavor_upsdb repl rest :
  has_dollar rest = false ->
  sub_all (macro_text M_FLAVOR) repl 0 (s_UPS_DB ++ rest) = s_UPS_DB ++ rest.
Proof.
  intro H. change (s_UPS_DB ++ rest) with (c_dollar :: lit "UPS_DB" ++ rest).
  cbn [sub_all]. change (macro_at (macro_text M_FLAVOR) (c_dollar :: lit "UPS_DB" ++ rest)) with false.
  cbv iota. f_equal. apply sub_all_plain. unfold has_dollar in *. rewrite mem_ascii_app, H. reflexivity.
Qed.

Lemma sub_prefix_upsdb db rest :
  sub_prefix (macro_text M_UPS_DB) db (s_UPS_DB ++ c_slash :: rest) = db ++ c_slash :: rest.
Proof. reflexivity. Qed.

Lemma sub_prefix_other_upsdb m repl rest :
  m <> M_UPS_DB -> m <> M_FLAVOR -> sub_prefix (macro_text m) repl (s_UPS_DB ++ rest) = s_UPS_DB ++ rest.
Proof. intros N1 N2. destruct m; try congruence; reflexivity. Qed.
