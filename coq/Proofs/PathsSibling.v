(* Lemmas about Model/Paths.v: a directory BESIDE the stack whose name begins with the stack's
   name (stack2, stack-extras next to stack) is not inside the stack; VersionFile.write leaves a
   value that resolves there as it is (absolute). *)
From Coq Require Import List Bool Ascii.
Import ListNotations.
From Eupsv Require Import Base.Base Base.BaseLemmas Model.Paths Proofs.PathsLib.

Lemma starts_with_app_same a b x : starts_with (a ++ b) (a ++ x) = starts_with b x.
Proof. induction a as [|c a IH]; simpl; [reflexivity|]. now rewrite ascii_eqb_refl. Qed.

Lemma app_cons_neq_self (a : str) c s : a ++ c :: s <> a.
Proof.
  intro H. apply (f_equal (@length ascii)) in H. rewrite app_length in H. simpl in H.
  clear -H. induction (length a); simpl in H; [discriminate|]. injection H as H. auto.
Qed.

(* utils.isSubpath: root followed by anything that does not begin with a slash is not below root *)
Lemma subpath_abs_sibling root c s :
  root <> [] -> ends_slash root = false -> ascii_eqb c_slash c = false ->
  subpath_abs (root ++ c :: s) root = false.
Proof.
  intros Hn He Hc. unfold subpath_abs.
  rewrite (path_join_nil root Hn He), starts_with_app_same. cbn [starts_with]. rewrite Hc.
  rewrite orb_false_r. apply str_eqb_neq. apply app_cons_neq_self.
Qed.

(* ... while root itself and everything below a slash is *)
Lemma subpath_abs_below root s :
  root <> [] -> ends_slash root = false -> subpath_abs (root ++ c_slash :: s) root = true.
Proof.
  intros Hn He. unfold subpath_abs. rewrite (path_join_nil root Hn He).
  replace (root ++ c_slash :: s) with ((root ++ [c_slash]) ++ s) by (now rewrite <- app_assoc).
  rewrite starts_with_refl. apply orb_true_r.
Qed.

(* the trimDir loop of VersionFile.write: a value whose resolved name is the resolved trimDir
   followed by something that does not begin with a slash is left as it is, whatever links lead
   to either of them and whatever exists *)
Lemma trim_key_sibling fixed pe ex tc tr k (info : amap val) value c s :
  alookup k info = Some (Some value) ->
  let t := realpath (pe_links pe) (abs_from (pe_cwd pe) (tc :: tr)) in
  t <> [] -> ends_slash t = false -> ascii_eqb c_slash c = false ->
  realpath (pe_links pe) (abs_from (pe_cwd pe) value) = t ++ c :: s ->
  trim_key fixed pe ex (Some (tc :: tr)) k info = Ok info.
Proof.
  intros Hk t Hn He Hc Hr. unfold trim_key. rewrite Hk.
  destruct (fixed && negb (isabs value)); [reflexivity|].
  destruct (negb (ex (abs_from (pe_cwd pe) value))); [reflexivity|].
  fold t. rewrite Hr, (subpath_abs_sibling t c s Hn He Hc). reflexivity.
Qed.
