(* Level B of the record codec (C16): reading what the writers print.
   vf_read_lines: reading the text of a well-formed version record gives its normal form;
   cf_read_lines: the same for chain records. *)
From Eupsv Require Import Base.Base Base.BaseLemmas Model.Paths Model.Records Proofs.RecordsLib.
From Coq Require Import Lia.

(* ------------------------------------------------------------ what write prints for one block *)

(* (FIELD, key, value) for every line of a block, in file order *)
Definition printed_of (i : info) (fk : str * str) : list (str * str * str) :=
  let (field, k) := fk in
  match alookup k i with
  | None => []
  | Some v =>
      if truthy v then [(field, k, val_str v)]
      else if str_eqb k k_productDir || str_eqb k k_table_file then [(field, k, s_none)] else []
  end.

Definition printed (i : info) : list (str * str * str) := flat_map (printed_of i) vf_fields.

Definition base_info (i : info) : info :=
  map (fun t : str * str * str => (snd (fst t), Some (snd t))) (printed i).

(* the block as it is read back: printed fields in file order, then the defaults that
   End: / Group: fills in *)
Definition norm_info (i : info) : info := close_block (base_info i).

Definition norm (r : vfile) : vfile :=
  {| vf_name := vf_name r; vf_version := vf_version r;
     vf_info := map (fun fi : str * info => (fst fi, norm_info (snd fi))) (vf_info r) |}.

Lemma flat_map_pointwise {A B C} (F : A -> list C) (P : A -> list B) (g : B -> C) L :
  (forall x, F x = map g (P x)) -> flat_map F L = map g (flat_map P L).
Proof.
  intro H. induction L as [|x L IH]; [reflexivity|]. cbn. now rewrite map_app, H, IH.
Qed.

Lemma field_lines_printed i :
  field_lines i = map (fun t : str * str * str => kv_line (fst (fst t)) (snd t)) (printed i).
Proof.
  unfold field_lines, printed. apply flat_map_pointwise. intros [field k]. unfold printed_of.
  destruct (alookup k i) as [v|]; [|reflexivity].
  destruct v as [[|c s]|]; cbn [truthy val_str]; try reflexivity;
    destruct (str_eqb k k_productDir || str_eqb k k_table_file); reflexivity.
Qed.

Lemma printed_in_fields i F k s : In (F, k, s) (printed i) -> In (F, k) vf_fields.
Proof.
  unfold printed. rewrite in_flat_map. intros [[F' k'] [H1 H2]]. unfold printed_of in H2.
  destruct (alookup k' i) as [v|]; [|destruct H2].
  destruct (truthy v).
  - destruct H2 as [[= <- <- <-]|[]]. assumption.
  - destruct (str_eqb k' k_productDir || str_eqb k' k_table_file); [|destruct H2].
    destruct H2 as [[= <- <- <-]|[]]. assumption.
Qed.

(* ------------------------------------------------------------ the seven fields *)

Definition key_map (key : str) : str :=
  if str_eqb key (lit "prod_dir") then k_productDir else key.

Definition special_keys : list str :=
  [lit "file"; lit "product"; k_version; lit "flavor"; lit "qualifiers"].

Definition field_ok (fk : str * str) : bool :=
  word (fst fk) && str_eqb (key_map (lower_str (fst fk))) (snd fk) && negb (mem_str (snd fk) special_keys).

Lemma vf_fields_ok : forallb field_ok vf_fields = true.
Proof. vm_compute. reflexivity. Qed.

Lemma field_ok_of F k : In (F, k) vf_fields -> field_ok (F, k) = true.
Proof. intro H. exact (proj1 (forallb_forall _ _) vf_fields_ok _ H). Qed.

Lemma vf_fields_keys_nodup : NoDup (map snd vf_fields).
Proof.
  unfold vf_fields. cbn [map snd].
  repeat (constructor; [cbn; intro H; repeat (destruct H as [H|H]; [vm_compute in H; discriminate H|]); exact H|]).
  constructor.
Qed.

Lemma printed_keys_sub i L :
  forall k, In k (map (fun t : str * str * str => snd (fst t)) (flat_map (printed_of i) L)) ->
            In k (map snd L).
Proof.
  induction L as [|[F k'] L IH]; intros k H; [destruct H|]. cbn [flat_map] in H.
  rewrite map_app, in_app_iff in H. destruct H as [H|H].
  - left. unfold printed_of in H. destruct (alookup k' i) as [v|]; [|destruct H].
    destruct (truthy v); [destruct H as [<-|[]]; reflexivity|].
    destruct (str_eqb k' k_productDir || str_eqb k' k_table_file); [|destruct H].
    destruct H as [<-|[]]; reflexivity.
  - right. now apply IH.
Qed.

Lemma printed_keys_nodup_gen i L :
  NoDup (map snd L) ->
  NoDup (map (fun t : str * str * str => snd (fst t)) (flat_map (printed_of i) L)).
Proof.
  induction L as [|[F k'] L IH]; intro N; [constructor|]. cbn [flat_map map snd] in *.
  inversion N as [|? ? N1 N2]; subst. rewrite map_app.
  assert (Hsub := printed_keys_sub i L).
  unfold printed_of at 1. destruct (alookup k' i) as [v|]; [|now apply IH].
  destruct (truthy v).
  - cbn. constructor; [|now apply IH]. intro H. apply N1. now apply Hsub.
  - destruct (str_eqb k' k_productDir || str_eqb k' k_table_file); [|now apply IH].
    cbn. constructor; [|now apply IH]. intro H. apply N1. now apply Hsub.
Qed.

Lemma printed_keys_nodup i : NoDup (map (fun t : str * str * str => snd (fst t)) (printed i)).
Proof. apply printed_keys_nodup_gen, vf_fields_keys_nodup. Qed.

Lemma akeys_base_info i : akeys (base_info i) = map (fun t : str * str * str => snd (fst t)) (printed i).
Proof. unfold base_info, akeys. rewrite map_map. reflexivity. Qed.

(* setting the printed fields one after the other builds exactly base_info *)
Lemma fold_aset_fresh (l : list (str * str * str)) (acc : info) :
  NoDup (map (fun t : str * str * str => snd (fst t)) l) ->
  (forall k, In k (map (fun t : str * str * str => snd (fst t)) l) -> ~ In k (akeys acc)) ->
  fold_left (fun a (t : str * str * str) => aset (snd (fst t)) (Some (snd t)) a) l acc
  = acc ++ map (fun t : str * str * str => (snd (fst t), Some (snd t))) l.
Proof.
  revert acc. induction l as [|[[F k] s] l IH]; intros acc N D; [now rewrite app_nil_r|].
  cbn [fold_left map fst snd] in *. inversion N as [|? ? N1 N2]; subst.
  rewrite aset_fresh by (apply D; now left).
  rewrite IH; [now rewrite <- app_assoc| assumption |].
  intros k' Hk'. rewrite akeys_app, in_app_iff. cbn. intros [H|[H|[]]].
  - exact (D k' (or_intror Hk') H).
  - subst. contradiction.
Qed.

(* ------------------------------------------------------------ well-formed records *)

Definition wf_info (i : info) : bool :=
  forallb (fun t : str * str * str => wf_value (snd t)) (printed i).

Definition wf_flavor (f : str) : bool := wf_value f && negb (mem_ascii c_colon f).

Fixpoint nodupb (l : list str) : bool :=
  match l with
  | [] => true
  | x :: r => negb (mem_str x r) && nodupb r
  end.

Lemma nodupb_NoDup l : nodupb l = true -> NoDup l.
Proof.
  induction l as [|x l IH]; [constructor|]. cbn. intro H. apply andb_true_iff in H.
  destruct H as [H1 H2]. apply negb_true_iff in H1. constructor; [now apply mem_str_not_In|auto].
Qed.

Definition wf_val (v : val) : bool := match v with Some s => wf_value s | None => false end.

Definition wf_vfile (r : vfile) : bool :=
  wf_val (vf_name r) && wf_val (vf_version r) &&
  forallb wf_flavor (akeys (vf_info r)) && forallb wf_info (map snd (vf_info r)) &&
  nodupb (akeys (vf_info r)).

(* ------------------------------------------------------------ one step of the reader *)

Lemma mem_special_false k : mem_str k special_keys = false ->
  str_eqb k (lit "file") = false /\ str_eqb k (lit "product") = false /\
  str_eqb k k_version = false /\ str_eqb k (lit "flavor") = false /\
  str_eqb k (lit "qualifiers") = false.
Proof.
  unfold special_keys. cbn [mem_str]. intro H.
  repeat match type of H with
         | (if ?b then true else _) = false => destruct b eqn:?; [discriminate|]
         end. auto.
Qed.

Lemma vf_step_field n v f D p F k s :
  field_ok (F, k) = true -> wf_value s = true -> ~ In f (akeys D) ->
  vf_step {| rs_name := n; rs_version := v; rs_flavor := Some f; rs_info := D ++ [(f, p)] |}
          (CKV (lower_str F) s)
  = Ok {| rs_name := n; rs_version := v; rs_flavor := Some f;
          rs_info := D ++ [(f, aset k (Some s) p)] |}.
Proof.
  intros Hok Hs Hf. unfold field_ok in Hok. cbn [fst snd] in Hok.
  apply andb_true_iff in Hok. destruct Hok as [Hok H3]. apply andb_true_iff in Hok.
  destruct Hok as [_ H2]. apply negb_true_iff in H3. apply str_eqb_eq in H2.
  apply mem_special_false in H3. destruct H3 as [E1 [E2 [E3 [E4 E5]]]].
  apply wf_value_parts in Hs. destruct Hs as [_ [_ [Hq _]]].
  unfold vf_step. fold (key_map (lower_str F)). rewrite H2, E1, E2, E3, E4, E5.
  rewrite unquote2_id by assumption. cbn [rs_flavor rs_info rs_name rs_version].
  rewrite amem_alookup, alookup_last by assumption. now rewrite aupd_last.
Qed.

Definition cl_field (t : str * str * str) : cline := CKV (lower_str (fst (fst t))) (snd t).

Lemma vf_steps_fields n v f D (l : list (str * str * str)) p :
  (forall F k s, In (F, k, s) l -> field_ok (F, k) = true /\ wf_value s = true) ->
  ~ In f (akeys D) ->
  vf_steps {| rs_name := n; rs_version := v; rs_flavor := Some f; rs_info := D ++ [(f, p)] |}
           (map cl_field l)
  = Ok {| rs_name := n; rs_version := v; rs_flavor := Some f;
          rs_info := D ++ [(f, fold_left (fun a (t : str * str * str) =>
                                            aset (snd (fst t)) (Some (snd t)) a) l p)] |}.
Proof.
  revert p. induction l as [|[[F k] s] l IH]; intros p H Hf; [reflexivity|].
  cbn [map vf_steps]. unfold cl_field at 1. cbn [fst snd].
  destruct (H F k s (or_introl eq_refl)) as [H1 H2].
  rewrite (vf_step_field n v f D p F k s) by assumption. cbn [bind fold_left fst snd].
  apply IH; [|assumption]. intros F' k' s' Hin. apply H. now right.
Qed.

Lemma vf_steps_app st a b :
  vf_steps st (a ++ b) = bind (vf_steps st a) (fun st' => vf_steps st' b).
Proof.
  revert st. induction a as [|c a IH]; intro st; [reflexivity|]. cbn [app vf_steps].
  destruct (vf_step st c); [|reflexivity]. cbn [bind]. apply IH.
Qed.

(* ------------------------------------------------------------ classified text of a record *)

Definition cl_block (fi : str * info) : list cline :=
  [CBlank; CGroupEnd; CKV (lit "flavor") (fst fi); CKV (lit "qualifiers") [c_dquote; c_dquote]]
  ++ map cl_field (printed (snd fi)).

Lemma classify_blank : vf_classify [] = CBlank.
Proof. reflexivity. Qed.
Lemma classify_group : vf_classify (lit "Group:") = CGroupEnd.
Proof. reflexivity. Qed.
Lemma classify_end : vf_classify (lit "End:") = CGroupEnd.
Proof. reflexivity. Qed.
Lemma classify_stars : vf_classify s_stars = CBlank.
Proof. reflexivity. Qed.
Lemma classify_file : vf_classify (lit "FILE = version") = CKV (lit "file") (lit "version").
Proof. reflexivity. Qed.

Lemma classify_qualifiers :
  vf_classify (lit "   QUALIFIERS = " ++ c_dquote :: [] ++ [c_dquote])
  = CKV (lit "qualifiers") [c_dquote; c_dquote].
Proof. reflexivity. Qed.

Lemma classify_kv_line F s : word F = true -> wf_value s = true ->
  vf_classify (kv_line F s) = CKV (lower_str F) s.
Proof.
  intros HF Hs. apply wf_value_parts in Hs. destruct Hs as [H1 [H2 [_ H4]]].
  unfold kv_line. apply (vf_classify_kv (lit "   ")); auto.
Qed.

Lemma classify_head (F : str) s : word F = true -> wf_value s = true ->
  vf_classify (F ++ lit " = " ++ s) = CKV (lower_str F) s.
Proof.
  intros HF Hs. apply wf_value_parts in Hs. destruct Hs as [H1 [H2 [_ H4]]].
  apply (vf_classify_kv []); auto.
Qed.

Lemma flavor_qualifier_plain f : wf_flavor f = true -> flavor_qualifier f = Some (f, []).
Proof.
  unfold wf_flavor. intro H. apply andb_true_iff in H. destruct H as [H1 H2].
  apply negb_true_iff in H2. apply wf_value_nonempty in H1. destruct H1 as [c [r ->]].
  unfold flavor_qualifier.
  assert (E : forall x, mem_ascii c_colon x = false -> split_colon x = (x, None)).
  { induction x as [|a x IH]; [reflexivity|]. rewrite mem_ascii_cons. intro H.
    apply orb_false_iff in H. destruct H as [Ha Hx]. cbn. rewrite ascii_eqb_sym, Ha.
    now rewrite IH. }
  now rewrite E.
Qed.

Lemma map_classify_fields i :
  wf_info i = true ->
  map vf_classify (field_lines i) = map cl_field (printed i).
Proof.
  intro H. rewrite field_lines_printed, map_map. apply map_ext_in. intros [[F k] s] Hin.
  cbn [fst snd]. unfold cl_field. cbn [fst snd].
  apply classify_kv_line.
  - apply printed_in_fields in Hin. apply field_ok_of in Hin. unfold field_ok in Hin.
    cbn [fst] in Hin. apply andb_true_iff in Hin. destruct Hin as [Hin _].
    apply andb_true_iff in Hin. tauto.
  - unfold wf_info in H. exact (proj1 (forallb_forall _ _) H _ Hin).
Qed.

Lemma vf_blocks_classified m :
  forallb wf_flavor (akeys m) = true -> forallb wf_info (map snd m) = true ->
  exists bl, vf_blocks m = Ok bl /\ map vf_classify bl = flat_map cl_block m.
Proof.
  induction m as [|[f i] m IH]; intros Hf Hi; [now exists []|].
  cbn [akeys map forallb fst snd] in *. apply andb_true_iff in Hf, Hi.
  destruct Hf as [Hf1 Hf2]. destruct Hi as [Hi1 Hi2].
  destruct (IH Hf2 Hi2) as [bl [E1 E2]].
  cbn [vf_blocks]. rewrite flavor_qualifier_plain, E1 by assumption. cbn [bind].
  eexists. split; [reflexivity|].
  rewrite !map_app, E2, map_classify_fields by assumption. cbn [flat_map cl_block fst snd].
  unfold block_head. cbn [map].
  rewrite classify_blank, classify_group, classify_qualifiers.
  rewrite classify_kv_line; [reflexivity|reflexivity|].
  unfold wf_flavor in Hf1. apply andb_true_iff in Hf1. tauto.
Qed.

(* ------------------------------------------------------------ reading the blocks *)

Definition close_last (last : amap info) : amap info :=
  map (fun fi : str * info => (fst fi, close_block (snd fi))) last.

Definition last_flavor (fl : option str) (last : amap info) : Prop :=
  match last with
  | [] => fl = None
  | [(g, _)] => fl = Some g /\ g <> []
  | _ => False
  end.

Lemma vf_step_group_end n v fl D last :
  last_flavor fl last -> (forall g, In g (akeys last) -> ~ In g (akeys D)) ->
  vf_step {| rs_name := n; rs_version := v; rs_flavor := fl; rs_info := D ++ last |} CGroupEnd
  = Ok {| rs_name := n; rs_version := v; rs_flavor := fl; rs_info := D ++ close_last last |}.
Proof.
  intros HL HD. destruct last as [|[g pg] [|]]; cbn in HL; try contradiction.
  - subst. reflexivity.
  - destruct HL as [-> Ng]. destruct g as [|c g]; [congruence|].
    cbn [vf_step rs_flavor rs_info rs_name rs_version close_last map fst snd].
    rewrite aupd_last; [reflexivity|]. apply HD. now left.
Qed.

Lemma vf_step_blank st : vf_step st CBlank = Ok st.
Proof. reflexivity. Qed.

Lemma vf_steps_block n v fl D last f i :
  last_flavor fl last -> (forall g, In g (akeys last) -> ~ In g (akeys D)) ->
  wf_flavor f = true -> wf_info i = true ->
  ~ In f (akeys D) -> ~ In f (akeys last) ->
  vf_steps {| rs_name := n; rs_version := v; rs_flavor := fl; rs_info := D ++ last |}
           (cl_block (f, i))
  = Ok {| rs_name := n; rs_version := v; rs_flavor := Some f;
          rs_info := (D ++ close_last last) ++ [(f, base_info i)] |}.
Proof.
  intros HL HD Hf Hi Nf1 Nf2. unfold cl_block. cbn [fst snd app vf_steps].
  rewrite vf_step_blank. cbn [bind]. rewrite vf_step_group_end by assumption. cbn [bind].
  assert (Hv : wf_value f = true) by (unfold wf_flavor in Hf; apply andb_true_iff in Hf; tauto).
  destruct (wf_value_parts f Hv) as [_ [_ [Hq _]]].
  assert (Nf : ~ In f (akeys (D ++ close_last last))).
  { rewrite akeys_app, in_app_iff. intros [H|H]; [tauto|]. apply Nf2.
    unfold close_last, akeys in *. rewrite map_map in H. exact H. }
  (* FLAVOR line *)
  unfold vf_step at 1. cbn [rs_name rs_version rs_flavor rs_info].
  change (str_eqb (lit "flavor") (lit "prod_dir")) with false. cbv iota.
  change (str_eqb (lit "flavor") (lit "file")) with false.
  change (str_eqb (lit "flavor") (lit "product")) with false.
  change (str_eqb (lit "flavor") k_version) with false.
  change (str_eqb (lit "flavor") (lit "flavor")) with true. cbv iota.
  rewrite unquote1_id by assumption.
  rewrite amem_alookup. rewrite (proj2 (alookup_None_notin f _) Nf). cbn [bind].
  (* QUALIFIERS line *)
  unfold vf_step at 1. cbn [rs_name rs_version rs_flavor rs_info].
  change (str_eqb (lit "qualifiers") (lit "prod_dir")) with false. cbv iota.
  change (str_eqb (lit "qualifiers") (lit "file")) with false.
  change (str_eqb (lit "qualifiers") (lit "product")) with false.
  change (str_eqb (lit "qualifiers") k_version) with false.
  change (str_eqb (lit "qualifiers") (lit "flavor")) with false.
  change (str_eqb (lit "qualifiers") (lit "qualifiers")) with true. cbv iota.
  change (unquote2 [c_dquote; c_dquote]) with (@nil ascii). cbn [bind].
  (* the fields *)
  rewrite vf_steps_fields; [|intros F k s Hin; split|assumption].
  - rewrite fold_aset_fresh; [reflexivity|apply printed_keys_nodup|intros k _ []].
  - apply field_ok_of. eapply printed_in_fields; eassumption.
  - unfold wf_info in Hi. exact (proj1 (forallb_forall _ _) Hi _ Hin).
Qed.

Lemma akeys_close_last last : akeys (close_last last) = akeys last.
Proof. unfold close_last, akeys. rewrite map_map. reflexivity. Qed.

Lemma vf_steps_blocks n v m : forall fl D last,
  last_flavor fl last -> (forall g, In g (akeys last) -> ~ In g (akeys D)) ->
  forallb wf_flavor (akeys m) = true -> forallb wf_info (map snd m) = true ->
  NoDup (akeys m) ->
  (forall g, In g (akeys m) -> ~ In g (akeys D) /\ ~ In g (akeys last)) ->
  exists fl',
  vf_steps {| rs_name := n; rs_version := v; rs_flavor := fl; rs_info := D ++ last |}
           (flat_map cl_block m ++ [CGroupEnd])
  = Ok {| rs_name := n; rs_version := v; rs_flavor := fl';
          rs_info := D ++ close_last last ++
                     map (fun fi : str * info => (fst fi, norm_info (snd fi))) m |}.
Proof.
  induction m as [|[f i] m IH]; intros fl D last HL HD Hf Hi ND Hfresh.
  - exists fl. cbn [flat_map app vf_steps]. rewrite vf_step_group_end by assumption.
    cbn [bind map]. now rewrite app_nil_r.
  - cbn [akeys map forallb fst snd] in *. apply andb_true_iff in Hf, Hi.
    destruct Hf as [Hf1 Hf2]. destruct Hi as [Hi1 Hi2]. inversion ND as [|? ? N1 N2]; subst.
    destruct (Hfresh f (or_introl eq_refl)) as [Fr1 Fr2].
    cbn [flat_map]. rewrite <- app_assoc, vf_steps_app.
    rewrite vf_steps_block by assumption. cbn [bind].
    assert (Hv : wf_value f = true) by (unfold wf_flavor in Hf1; apply andb_true_iff in Hf1; tauto).
    destruct (wf_value_nonempty f Hv) as [c [r Ef]].
    destruct (IH (Some f) (D ++ close_last last) [(f, base_info i)]) as [fl' E]; try assumption.
    + cbn. split; [reflexivity|]. rewrite Ef. discriminate.
    + intros g [<-|[]]. rewrite akeys_app, in_app_iff, akeys_close_last. tauto.
    + intros g Hg. destruct (Hfresh g (or_intror Hg)) as [G1 G2]. split.
      * rewrite akeys_app, in_app_iff, akeys_close_last. tauto.
      * cbn. intros [<-|[]]. contradiction.
    + exists fl'. rewrite E. cbn [close_last map fst snd]. unfold norm_info.
      now rewrite <- !app_assoc.
Qed.

(* ------------------------------------------------------------ the whole version file *)

Lemma vf_step_file st : vf_step st (CKV (lit "file") (lit "version")) = Ok st.
Proof. reflexivity. Qed.

Lemma vf_step_product st n : no_quote_ends n = true ->
  vf_step st (CKV (lit "product") n)
  = Ok {| rs_name := if truthy (rs_name st) then rs_name st else Some n;
          rs_version := rs_version st; rs_flavor := rs_flavor st; rs_info := rs_info st |}.
Proof.
  intro H. unfold vf_step.
  change (str_eqb (lit "product") (lit "prod_dir")) with false. cbv iota.
  change (str_eqb (lit "product") (lit "file")) with false.
  change (str_eqb (lit "product") (lit "product")) with true. cbv iota.
  now rewrite unquote1_id.
Qed.

Lemma vf_step_version st v : no_quote_ends v = true ->
  vf_step st (CKV (lit "version") v)
  = Ok {| rs_name := rs_name st;
          rs_version := if truthy (rs_version st) then rs_version st else Some v;
          rs_flavor := rs_flavor st; rs_info := rs_info st |}.
Proof.
  intro H. unfold vf_step.
  change (str_eqb (lit "version") (lit "prod_dir")) with false. cbv iota.
  change (str_eqb (lit "version") (lit "file")) with false.
  change (str_eqb (lit "version") (lit "product")) with false.
  change (str_eqb (lit "version") k_version) with true. cbv iota.
  now rewrite unquote1_id.
Qed.

Lemma vf_read_lines r :
  wf_vfile r = true -> vf_info r <> [] ->
  exists lines, vf_lines r = Ok lines /\
    forall n0 v0, (n0 = None \/ n0 = vf_name r) -> (v0 = None \/ v0 = vf_version r) ->
      vf_read n0 v0 lines = Ok (norm r).
Proof.
  unfold wf_vfile. intros H Hne. repeat (apply andb_true_iff in H; destruct H as [H ?]).
  rename H into Hn, H0 into Hnd, H1 into Hi, H2 into Hf, H3 into Hv.
  destruct (vf_name r) as [n|] eqn:En; [|discriminate].
  destruct (vf_version r) as [v|] eqn:Ev; [|discriminate]. cbn [wf_val] in Hn, Hv.
  destruct (vf_blocks_classified (vf_info r) Hf Hi) as [bl [E1 E2]].
  unfold vf_lines. destruct (vf_info r) as [|b m] eqn:Em; [congruence|]. rewrite <- Em in *.
  rewrite E1. cbn [bind]. eexists. split; [reflexivity|].
  intros n0 v0 Hn0 Hv0. unfold vf_read. rewrite En, Ev. cbn [show_val].
  rewrite !map_app, E2. cbn [map app].
  rewrite classify_file, classify_stars, classify_end.
  change (lit "PRODUCT = " ++ n) with (lit "PRODUCT" ++ lit " = " ++ n).
  change (lit "VERSION = " ++ v) with (lit "VERSION" ++ lit " = " ++ v).
  rewrite (classify_head (lit "PRODUCT") n), (classify_head (lit "VERSION") v) by (reflexivity || assumption).
  change (lower_str (lit "PRODUCT")) with (lit "product").
  change (lower_str (lit "VERSION")) with (lit "version").
  destruct (wf_value_parts n Hn) as [_ [_ [Hqn _]]]. destruct (wf_value_parts v Hv) as [_ [_ [Hqv _]]].
  cbn [vf_steps]. rewrite vf_step_file. cbn [bind].
  rewrite vf_step_product by assumption. cbn [bind].
  rewrite vf_step_version by assumption. cbn [bind rs_name rs_version rs_flavor rs_info].
  rewrite vf_step_blank. cbn [bind].
  destruct (vf_steps_blocks
              (if truthy n0 then n0 else Some n) (if truthy v0 then v0 else Some v)
              (vf_info r) None [] []) as [fl' E]; try assumption.
  - reflexivity.
  - intros g [].
  - now apply nodupb_NoDup.
  - intros g _. split; intros [].
  - cbn [app] in E. rewrite E. cbn [bind close_last map app]. unfold norm. rewrite En, Ev.
    f_equal. f_equal.
    + destruct Hn0 as [-> | ->]; [reflexivity|].
      apply wf_value_nonempty in Hn. destruct Hn as [c [x ->]]. reflexivity.
    + destruct Hv0 as [-> | ->]; [reflexivity|].
      apply wf_value_nonempty in Hv. destruct Hv as [c [x ->]]. reflexivity.
Qed.

(* ============================================================ chain files *)

Definition cprinted_of (i : cinfo) (fk : str * str) : list (str * str * str) :=
  let (field, k) := fk in
  match alookup k i with
  | Some (c :: v) => [(field, k, c :: v)]
  | _ => []
  end.

Definition cprinted (i : cinfo) : list (str * str * str) := flat_map (cprinted_of i) cf_fields.

Definition cversion (i : cinfo) : str := match alookup k_version i with Some v => v | None => [] end.

(* a chain block as it is read back: the version first, then the non-empty fields in file order *)
Definition cnorm_info (i : cinfo) : cinfo :=
  (k_version, cversion i) :: map (fun t : str * str * str => (snd (fst t), snd t)) (cprinted i).

Definition cnorm (c : cfile) : cfile :=
  {| cf_name := cf_name c; cf_tag := cf_tag c;
     cf_info := map (fun fi : str * cinfo => (fst fi, cnorm_info (snd fi))) (cf_info c) |}.

Definition wf_cinfo (i : cinfo) : bool :=
  match alookup k_version i with Some v => wf_value v | None => false end &&
  forallb (fun t : str * str * str => wf_value (snd t)) (cprinted i).

Definition wf_cfile (c : cfile) : bool :=
  wf_val (cf_name c) && wf_val (cf_tag c) &&
  forallb wf_flavor (akeys (cf_info c)) && forallb wf_cinfo (map snd (cf_info c)) &&
  nodupb (akeys (cf_info c)).

Lemma cfield_lines_printed i :
  cfield_lines i = map (fun t : str * str * str => kv_line (fst (fst t)) (snd t)) (cprinted i).
Proof.
  unfold cfield_lines, cprinted. apply flat_map_pointwise. intros [field k]. unfold cprinted_of.
  destruct (alookup k i) as [[|c v]|]; reflexivity.
Qed.

Lemma cprinted_in_fields i F k s : In (F, k, s) (cprinted i) -> In (F, k) cf_fields.
Proof.
  unfold cprinted. rewrite in_flat_map. intros [[F' k'] [H1 H2]]. unfold cprinted_of in H2.
  destruct (alookup k' i) as [[|c v]|]; try destruct H2 as [[= <- <- <-]|[]]; try destruct H2.
  assumption.
Qed.

Definition cspecial_keys : list str :=
  [lit "file"; lit "product"; lit "chain"; lit "flavor"; lit "qualifiers"].

Definition cfield_ok (fk : str * str) : bool :=
  word (fst fk) && str_eqb (lower_str (fst fk)) (snd fk) && negb (mem_str (snd fk) cspecial_keys)
  && negb (str_eqb (snd fk) k_version).

Lemma cf_fields_ok : forallb cfield_ok cf_fields = true.
Proof. vm_compute. reflexivity. Qed.

Lemma cfield_ok_of F k : In (F, k) cf_fields -> cfield_ok (F, k) = true.
Proof. intro H. exact (proj1 (forallb_forall _ _) cf_fields_ok _ H). Qed.

Lemma cf_fields_keys_nodup : NoDup (map snd cf_fields).
Proof.
  unfold cf_fields. cbn [map snd].
  repeat (constructor; [cbn; intro H; repeat (destruct H as [H|H]; [vm_compute in H; discriminate H|]); exact H|]).
  constructor.
Qed.

Lemma cprinted_keys_sub i L :
  forall k, In k (map (fun t : str * str * str => snd (fst t)) (flat_map (cprinted_of i) L)) ->
            In k (map snd L).
Proof.
  induction L as [|[F k'] L IH]; intros k H; [destruct H|]. cbn [flat_map] in H.
  rewrite map_app, in_app_iff in H. destruct H as [H|H].
  - left. unfold cprinted_of in H. destruct (alookup k' i) as [[|c v]|]; try destruct H as [<-|[]]; try destruct H.
    reflexivity.
  - right. now apply IH.
Qed.

Lemma cprinted_keys_nodup_gen i L :
  NoDup (map snd L) ->
  NoDup (map (fun t : str * str * str => snd (fst t)) (flat_map (cprinted_of i) L)).
Proof.
  induction L as [|[F k'] L IH]; intro N; [constructor|]. cbn [flat_map map snd] in *.
  inversion N as [|? ? N1 N2]; subst. rewrite map_app.
  assert (Hsub := cprinted_keys_sub i L).
  unfold cprinted_of at 1. destruct (alookup k' i) as [[|c v]|]; try now apply IH.
  cbn. constructor; [|now apply IH]. intro H. apply N1. now apply Hsub.
Qed.

Lemma cfold_aset_fresh (l : list (str * str * str)) (acc : cinfo) :
  NoDup (map (fun t : str * str * str => snd (fst t)) l) ->
  (forall k, In k (map (fun t : str * str * str => snd (fst t)) l) -> ~ In k (akeys acc)) ->
  fold_left (fun a (t : str * str * str) => aset (snd (fst t)) (snd t) a) l acc
  = acc ++ map (fun t : str * str * str => (snd (fst t), snd t)) l.
Proof.
  revert acc. induction l as [|[[F k] s] l IH]; intros acc N D; [now rewrite app_nil_r|].
  cbn [fold_left map fst snd] in *. inversion N as [|? ? N1 N2]; subst.
  rewrite aset_fresh by (apply D; now left).
  rewrite IH; [now rewrite <- app_assoc| assumption |].
  intros k' Hk'. rewrite akeys_app, in_app_iff. cbn. intros [H|[H|[]]].
  - exact (D k' (or_intror Hk') H).
  - subst. contradiction.
Qed.

Lemma mem_cspecial_false k : mem_str k cspecial_keys = false ->
  str_eqb k (lit "file") = false /\ str_eqb k (lit "product") = false /\
  str_eqb k (lit "chain") = false /\ str_eqb k (lit "flavor") = false /\
  str_eqb k (lit "qualifiers") = false.
Proof.
  unfold cspecial_keys. cbn [mem_str]. intro H.
  repeat match type of H with
         | (if ?b then true else _) = false => destruct b eqn:?; [discriminate|]
         end. auto.
Qed.

Lemma cf_step_plain n t f D p k s :
  mem_str k cspecial_keys = false -> no_quote_ends s = true -> ~ In f (akeys D) ->
  cf_step {| cs_name := n; cs_tag := t; cs_flavor := Some f; cs_info := D ++ [(f, p)] |} (CKV k s)
  = Ok {| cs_name := n; cs_tag := t; cs_flavor := Some f; cs_info := D ++ [(f, aset k s p)] |}.
Proof.
  intros H3 Hq Hf. apply mem_cspecial_false in H3. destruct H3 as [E1 [E2 [E3 [E4 E5]]]].
  unfold cf_step. rewrite E1, E2, E3, E4, E5, strip_quotes_id by assumption.
  cbn [cs_flavor cs_info cs_name cs_tag].
  rewrite amem_alookup, alookup_last by assumption. now rewrite aupd_last.
Qed.

Lemma cf_steps_fields n t f D (l : list (str * str * str)) p :
  (forall F k s, In (F, k, s) l -> cfield_ok (F, k) = true /\ wf_value s = true) ->
  ~ In f (akeys D) ->
  cf_steps {| cs_name := n; cs_tag := t; cs_flavor := Some f; cs_info := D ++ [(f, p)] |}
           (map cl_field l)
  = Ok {| cs_name := n; cs_tag := t; cs_flavor := Some f;
          cs_info := D ++ [(f, fold_left (fun a (x : str * str * str) => aset (snd (fst x)) (snd x) a) l p)] |}.
Proof.
  revert p. induction l as [|[[F k] s] l IH]; intros p H Hf; [reflexivity|].
  cbn [map cf_steps]. unfold cl_field at 1. cbn [fst snd].
  destruct (H F k s (or_introl eq_refl)) as [H1 H2].
  unfold cfield_ok in H1. cbn [fst snd] in H1.
  apply andb_true_iff in H1. destruct H1 as [H1 _].
  apply andb_true_iff in H1. destruct H1 as [H1 H3].
  apply andb_true_iff in H1. destruct H1 as [_ H0].
  apply str_eqb_eq in H0. apply negb_true_iff in H3. rewrite H0.
  destruct (wf_value_parts s H2) as [_ [_ [Hq _]]].
  rewrite (cf_step_plain n t f D p k s) by assumption. cbn [bind fold_left fst snd].
  apply IH; [|assumption]. intros F' k' s' Hin. apply H. now right.
Qed.

Lemma cf_steps_app st a b :
  cf_steps st (a ++ b) = bind (cf_steps st a) (fun st' => cf_steps st' b).
Proof.
  revert st. induction a as [|c a IH]; intro st; [reflexivity|]. cbn [app cf_steps].
  destruct (cf_step st c); [|reflexivity]. cbn [bind]. apply IH.
Qed.

Definition ccl_block (fi : str * cinfo) : list cline :=
  [CBlank; CBlank; CKV (lit "flavor") (fst fi); CKV k_version (cversion (snd fi));
   CKV (lit "qualifiers") [c_dquote; c_dquote]]
  ++ map cl_field (cprinted (snd fi)) ++ [CBlank].

Lemma cclassify_kv_line F s : word F = true -> wf_value s = true ->
  cf_classify (kv_line F s) = CKV (lower_str F) s.
Proof.
  intros HF Hs. apply wf_value_parts in Hs. destruct Hs as [H1 _].
  unfold kv_line. apply (cf_classify_kv (lit "   ")); auto.
Qed.

Lemma cclassify_head (F : str) s : word F = true -> wf_value s = true ->
  cf_classify (F ++ lit " = " ++ s) = CKV (lower_str F) s.
Proof.
  intros HF Hs. apply wf_value_parts in Hs. destruct Hs as [H1 _].
  apply (cf_classify_kv []); auto.
Qed.

Lemma cmap_classify_fields i :
  forallb (fun t : str * str * str => wf_value (snd t)) (cprinted i) = true ->
  map cf_classify (cfield_lines i) = map cl_field (cprinted i).
Proof.
  intro H. rewrite cfield_lines_printed, map_map. apply map_ext_in. intros [[F k] s] Hin.
  cbn [fst snd]. unfold cl_field. cbn [fst snd].
  apply cclassify_kv_line.
  - apply cprinted_in_fields in Hin. apply cfield_ok_of in Hin. unfold cfield_ok in Hin.
    cbn [fst] in Hin. apply andb_true_iff in Hin. destruct Hin as [Hin _].
    apply andb_true_iff in Hin. destruct Hin as [Hin _].
    apply andb_true_iff in Hin. tauto.
  - exact (proj1 (forallb_forall _ _) H _ Hin).
Qed.

Lemma cf_blocks_classified m :
  forallb wf_flavor (akeys m) = true -> forallb wf_cinfo (map snd m) = true ->
  exists bl, cf_blocks m = Ok bl /\ map cf_classify bl = flat_map ccl_block m.
Proof.
  induction m as [|[f i] m IH]; intros Hf Hi; [now exists []|].
  cbn [akeys map forallb fst snd] in *. apply andb_true_iff in Hf, Hi.
  destruct Hf as [Hf1 Hf2]. destruct Hi as [Hi1 Hi2].
  destruct (IH Hf2 Hi2) as [bl [E1 E2]].
  unfold wf_cinfo in Hi1. apply andb_true_iff in Hi1. destruct Hi1 as [Hv Hp].
  cbn [cf_blocks]. rewrite flavor_qualifier_plain by assumption.
  destruct (alookup k_version i) as [ver|] eqn:Ever; [|discriminate Hv].
  rewrite E1. cbn [bind]. eexists. split; [reflexivity|].
  cbn [flat_map]. unfold ccl_block at 1. cbn [fst snd].
  rewrite !map_app, E2, cmap_classify_fields by assumption.
  cbn [map app]. unfold cversion. rewrite Ever.
  change (cf_classify []) with CBlank.
  change (cf_classify (lit "#Group:")) with CBlank.
  change (cf_classify (lit "#End:")) with CBlank.
  change (cf_classify (lit "   QUALIFIERS = " ++ c_dquote :: [] ++ [c_dquote]))
    with (CKV (lit "qualifiers") [c_dquote; c_dquote]).
  rewrite !cclassify_kv_line; try reflexivity; try assumption.
  - now rewrite <- app_assoc.
  - unfold wf_flavor in Hf1. apply andb_true_iff in Hf1. tauto.
Qed.

Lemma bind_ok_eq {A B} (x : res A) (a : A) (k : A -> res B) r :
  x = Ok a -> k a = r -> bind x k = r.
Proof. intros -> <-. reflexivity. Qed.

Lemma cf_step_blank st : cf_step st CBlank = Ok st.
Proof. reflexivity. Qed.

Lemma cf_steps_block n t fl D f i :
  wf_flavor f = true -> wf_cinfo i = true -> ~ In f (akeys D) ->
  cf_steps {| cs_name := n; cs_tag := t; cs_flavor := fl; cs_info := D |} (ccl_block (f, i))
  = Ok {| cs_name := n; cs_tag := t; cs_flavor := Some f; cs_info := D ++ [(f, cnorm_info i)] |}.
Proof.
  intros Hf Hi Nf. unfold ccl_block. cbn [fst snd app cf_steps].
  rewrite cf_step_blank. cbn [bind]. rewrite cf_step_blank. cbn [bind].
  assert (Hv : wf_value f = true) by (unfold wf_flavor in Hf; apply andb_true_iff in Hf; tauto).
  destruct (wf_value_parts f Hv) as [_ [_ [Hq _]]].
  unfold wf_cinfo in Hi. apply andb_true_iff in Hi. destruct Hi as [Hver Hp].
  (* FLAVOR *)
  unfold cf_step at 1. cbn [cs_name cs_tag cs_flavor cs_info].
  change (str_eqb (lit "flavor") (lit "file")) with false.
  change (str_eqb (lit "flavor") (lit "product")) with false.
  change (str_eqb (lit "flavor") (lit "chain")) with false.
  change (str_eqb (lit "flavor") (lit "flavor")) with true. cbv iota.
  rewrite strip_quotes_id, aset_fresh by assumption. cbn [bind].
  (* VERSION *)
  unfold cversion. destruct (alookup k_version i) as [ver|] eqn:Ever; [|discriminate].
  destruct (wf_value_parts ver Hver) as [_ [_ [Hqv _]]].
  eapply bind_ok_eq; [apply (cf_step_plain n t f D [] k_version ver); (reflexivity || assumption)|].
  cbv beta.
  (* QUALIFIERS *)
  unfold cf_step at 1. cbn [cs_name cs_tag cs_flavor cs_info].
  change (str_eqb (lit "qualifiers") (lit "file")) with false.
  change (str_eqb (lit "qualifiers") (lit "product")) with false.
  change (str_eqb (lit "qualifiers") (lit "chain")) with false.
  change (str_eqb (lit "qualifiers") (lit "flavor")) with false.
  change (str_eqb (lit "qualifiers") (lit "qualifiers")) with true. cbv iota.
  change (strip_quotes [c_dquote; c_dquote]) with (@nil ascii). cbn [bind].
  (* fields *)
  rewrite cf_steps_app, cf_steps_fields; [|intros F k s Hin; split|assumption].
  - cbn [bind cf_steps]. rewrite cf_step_blank. cbn [bind aset].
    rewrite cfold_aset_fresh.
    + unfold cnorm_info, cversion. now rewrite Ever.
    + apply cprinted_keys_nodup_gen, cf_fields_keys_nodup.
    + intros k Hk. cbn. intros [E|[]]. subst k.
      apply cprinted_keys_sub in Hk. revert Hk. vm_compute. intuition discriminate.
  - apply cfield_ok_of. eapply cprinted_in_fields; eassumption.
  - exact (proj1 (forallb_forall _ _) Hp _ Hin).
Qed.

Lemma cf_steps_blocks n t m : forall fl D,
  forallb wf_flavor (akeys m) = true -> forallb wf_cinfo (map snd m) = true ->
  NoDup (akeys m) -> (forall g, In g (akeys m) -> ~ In g (akeys D)) ->
  exists fl',
  cf_steps {| cs_name := n; cs_tag := t; cs_flavor := fl; cs_info := D |} (flat_map ccl_block m)
  = Ok {| cs_name := n; cs_tag := t; cs_flavor := fl';
          cs_info := D ++ map (fun fi : str * cinfo => (fst fi, cnorm_info (snd fi))) m |}.
Proof.
  induction m as [|[f i] m IH]; intros fl D Hf Hi ND Hfresh.
  - exists fl. cbn. now rewrite app_nil_r.
  - cbn [akeys map forallb fst snd] in *. apply andb_true_iff in Hf, Hi.
    destruct Hf as [Hf1 Hf2]. destruct Hi as [Hi1 Hi2]. inversion ND as [|? ? N1 N2]; subst.
    cbn [flat_map]. rewrite cf_steps_app, cf_steps_block; try assumption.
    2:{ apply Hfresh. now left. }
    cbn [bind]. destruct (IH (Some f) (D ++ [(f, cnorm_info i)])) as [fl' E]; try assumption.
    + intros g Hg. rewrite akeys_app, in_app_iff. cbn. intros [H|[H|[]]].
      * exact (Hfresh g (or_intror Hg) H).
      * subst. contradiction.
    + exists fl'. rewrite E. now rewrite <- app_assoc.
Qed.

Lemma cf_step_file st : cf_step st (CKV (lit "file") (lit "version")) = Ok st.
Proof. reflexivity. Qed.

Lemma cf_step_product st n : no_quote_ends n = true ->
  cf_step st (CKV (lit "product") n)
  = Ok {| cs_name := if truthy (cs_name st) then cs_name st else Some n;
          cs_tag := cs_tag st; cs_flavor := cs_flavor st; cs_info := cs_info st |}.
Proof.
  intro H. unfold cf_step.
  change (str_eqb (lit "product") (lit "file")) with false.
  change (str_eqb (lit "product") (lit "product")) with true. cbv iota.
  now rewrite strip_quotes_id.
Qed.

Lemma cf_step_chain st t : no_quote_ends t = true ->
  cf_step st (CKV (lit "chain") t)
  = Ok {| cs_name := cs_name st; cs_tag := if truthy (cs_tag st) then cs_tag st else Some t;
          cs_flavor := cs_flavor st; cs_info := cs_info st |}.
Proof.
  intro H. unfold cf_step.
  change (str_eqb (lit "chain") (lit "file")) with false.
  change (str_eqb (lit "chain") (lit "product")) with false.
  change (str_eqb (lit "chain") (lit "chain")) with true. cbv iota.
  now rewrite strip_quotes_id.
Qed.

Lemma cf_read_lines c :
  wf_cfile c = true -> cf_info c <> [] ->
  exists lines, cf_lines c = Ok lines /\
    forall n0 t0, (n0 = None \/ n0 = cf_name c) -> (t0 = None \/ t0 = cf_tag c) ->
      cf_read n0 t0 lines = Ok (cnorm c).
Proof.
  unfold wf_cfile. intros H Hne. repeat (apply andb_true_iff in H; destruct H as [H ?]).
  rename H into Hn, H0 into Hnd, H1 into Hi, H2 into Hf, H3 into Ht.
  destruct (cf_name c) as [n|] eqn:En; [|discriminate].
  destruct (cf_tag c) as [t|] eqn:Et; [|discriminate]. cbn [wf_val] in Hn, Ht.
  destruct (cf_blocks_classified (cf_info c) Hf Hi) as [bl [E1 E2]].
  unfold cf_lines. destruct (cf_info c) as [|b m] eqn:Em; [congruence|]. rewrite <- Em in *.
  rewrite E1. cbn [bind]. eexists. split; [reflexivity|].
  intros n0 t0 Hn0 Ht0. unfold cf_read. rewrite En, Et. cbn [show_val].
  rewrite !map_app, E2. cbn [map app].
  change (cf_classify (lit "FILE = version")) with (CKV (lit "file") (lit "version")).
  change (cf_classify s_stars) with CBlank.
  change (lit "PRODUCT = " ++ n) with (lit "PRODUCT" ++ lit " = " ++ n).
  change (lit "CHAIN = " ++ t) with (lit "CHAIN" ++ lit " = " ++ t).
  rewrite (cclassify_head (lit "PRODUCT") n), (cclassify_head (lit "CHAIN") t) by (reflexivity || assumption).
  change (lower_str (lit "PRODUCT")) with (lit "product").
  change (lower_str (lit "CHAIN")) with (lit "chain").
  destruct (wf_value_parts n Hn) as [_ [_ [Hqn _]]]. destruct (wf_value_parts t Ht) as [_ [_ [Hqt _]]].
  cbn [cf_steps]. rewrite cf_step_file. cbn [bind].
  rewrite cf_step_product by assumption. cbn [bind].
  rewrite cf_step_chain by assumption. cbn [bind cs_name cs_tag cs_flavor cs_info].
  rewrite cf_step_blank. cbn [bind].
  destruct (cf_steps_blocks
              (if truthy n0 then n0 else Some n) (if truthy t0 then t0 else Some t)
              (cf_info c) None []) as [fl' E]; try assumption.
  - now apply nodupb_NoDup.
  - intros g _ [].
  - rewrite E. cbn [bind app]. unfold cnorm. rewrite En, Et. f_equal. f_equal.
    + destruct Hn0 as [-> | ->]; [reflexivity|].
      apply wf_value_nonempty in Hn. destruct Hn as [x [y ->]]. reflexivity.
    + destruct Ht0 as [-> | ->]; [reflexivity|].
      apply wf_value_nonempty in Ht. destruct Ht as [x [y ->]]. reflexivity.
Qed.

(* ============================================================ reading twice: norm_info is stable *)

Lemma alookup_map_snd {V W} (h : V -> W) f (m : amap V) :
  alookup f (map (fun fi : str * V => (fst fi, h (snd fi))) m) = option_map h (alookup f m).
Proof.
  induction m as [|[k v] m IH]; [reflexivity|]. cbn. destruct (str_eqb f k); [reflexivity|apply IH].
Qed.

(* what is printed, and therefore read back, for key k *)
Definition printed_val (i : info) (k : str) : option val :=
  match alookup k i with
  | None => None
  | Some v =>
      if truthy v then Some (Some (val_str v))
      else if str_eqb k k_productDir || str_eqb k k_table_file then Some (Some s_none) else None
  end.

Lemma alookup_printed_gen i L k :
  NoDup (map snd L) ->
  alookup k (map (fun t : str * str * str => (snd (fst t), Some (snd t))) (flat_map (printed_of i) L))
  = if mem_str k (map snd L) then printed_val i k else None.
Proof.
  induction L as [|[F k'] L IH]; intro N; [reflexivity|]. cbn [flat_map map snd mem_str] in *.
  inversion N as [|? ? N1 N2]; subst. rewrite map_app. specialize (IH N2).
  destruct (str_eqb_spec k k') as [->|NE].
  - assert (Hm : mem_str k' (map snd L) = false) by now apply mem_str_not_In.
    rewrite Hm in IH. unfold printed_of, printed_val.
    destruct (alookup k' i) as [v|]; [|exact IH].
    destruct (truthy v).
    + cbn. now rewrite str_eqb_refl.
    + destruct (str_eqb k' k_productDir || str_eqb k' k_table_file); [|exact IH].
      cbn. now rewrite str_eqb_refl.
  - rewrite <- IH. unfold printed_of.
    destruct (alookup k' i) as [v|]; [|reflexivity].
    apply str_eqb_neq in NE.
    destruct (truthy v); [cbn; now rewrite NE|].
    destruct (str_eqb k' k_productDir || str_eqb k' k_table_file); [cbn; now rewrite NE|reflexivity].
Qed.

Definition field_keys : list str := map snd vf_fields.

Lemma alookup_base i k :
  alookup k (base_info i) = if mem_str k field_keys then printed_val i k else None.
Proof. apply alookup_printed_gen, vf_fields_keys_nodup. Qed.

Lemma key_neq_dt : k_productDir <> k_table_file. Proof. discriminate. Qed.
Lemma key_neq_du : k_productDir <> k_ups_dir. Proof. discriminate. Qed.
Lemma key_neq_tu : k_table_file <> k_ups_dir. Proof. discriminate. Qed.

Definition table_of (b : info) : val :=
  match alookup k_table_file b with Some x => x | None => Some s_none end.

Lemma close_block_lookup b k :
  alookup k (close_block b) =
  if str_eqb k k_productDir then Some (match alookup k_productDir b with Some x => x | None => None end)
  else if str_eqb k k_table_file then Some (table_of b)
  else if str_eqb k k_ups_dir then
    match alookup k_ups_dir b with
    | Some x => Some x
    | None => if is_real (table_of b) then Some (Some s_none) else None
    end
  else alookup k b.
Proof.
  unfold close_block, table_of.
  set (i1 := if amem k_productDir b then b else aset k_productDir None b).
  set (i2 := if amem k_table_file i1 then i1 else aset k_table_file (Some s_none) i1).
  assert (L1 : forall q, alookup q i1 =
              if str_eqb q k_productDir
              then Some (match alookup k_productDir b with Some x => x | None => None end)
              else alookup q b).
  { intro q. unfold i1. rewrite amem_alookup.
    destruct (str_eqb_spec q k_productDir) as [->|NE].
    - destruct (alookup k_productDir b) eqn:E; [exact E|]. apply alookup_aset_same.
    - destruct (alookup k_productDir b); [reflexivity|]. now apply alookup_aset_other. }
  assert (L2 : forall q, alookup q i2 =
              if str_eqb q k_productDir
              then Some (match alookup k_productDir b with Some x => x | None => None end)
              else if str_eqb q k_table_file
              then Some (match alookup k_table_file b with Some x => x | None => Some s_none end)
              else alookup q b).
  { intro q. unfold i2. rewrite amem_alookup. rewrite (L1 k_table_file).
    change (str_eqb k_table_file k_productDir) with false. cbv iota.
    destruct (str_eqb_spec q k_table_file) as [->|NE].
    - change (str_eqb k_table_file k_productDir) with false. cbv iota.
      destruct (alookup k_table_file b) eqn:E.
      + rewrite L1. change (str_eqb k_table_file k_productDir) with false. cbv iota. exact E.
      + apply alookup_aset_same.
    - destruct (alookup k_table_file b) eqn:E.
      + apply L1.
      + rewrite alookup_aset_other by assumption. apply L1. }
  rewrite amem_alookup. rewrite (L2 k_ups_dir), (L2 k_table_file).
  change (str_eqb k_ups_dir k_productDir) with false.
  change (str_eqb k_ups_dir k_table_file) with false.
  change (str_eqb k_table_file k_productDir) with false.
  change (str_eqb k_table_file k_table_file) with true. cbv iota.
  destruct (str_eqb_spec k k_productDir) as [->|N1].
  { destruct (alookup k_ups_dir b); cbn [negb andb].
    - rewrite L2. reflexivity.
    - destruct (is_real _); [rewrite alookup_aset_other by discriminate|]; rewrite L2; reflexivity. }
  destruct (str_eqb_spec k k_table_file) as [->|N2].
  { destruct (alookup k_ups_dir b); cbn [negb andb].
    - rewrite L2. reflexivity.
    - destruct (is_real _); [rewrite alookup_aset_other by discriminate|]; rewrite L2; reflexivity. }
  destruct (str_eqb_spec k k_ups_dir) as [->|N3].
  { destruct (alookup k_ups_dir b) eqn:E; cbn [negb andb].
    - rewrite L2. change (str_eqb k_ups_dir k_productDir) with false.
      change (str_eqb k_ups_dir k_table_file) with false. cbv iota. exact E.
    - destruct (is_real _); [apply alookup_aset_same|].
      rewrite L2. change (str_eqb k_ups_dir k_productDir) with false.
      change (str_eqb k_ups_dir k_table_file) with false. cbv iota. exact E. }
  apply str_eqb_neq in N1, N2.
  destruct (alookup k_ups_dir b); cbn [negb andb].
  - rewrite L2, N1, N2. reflexivity.
  - destruct (is_real _); [rewrite alookup_aset_other by assumption|]; rewrite L2, N1, N2; reflexivity.
Qed.

(* a value as printed is never empty, so printing it again changes nothing *)
Lemma printed_val_solid i k x : printed_val i k = Some x -> truthy x = true /\ x = Some (val_str x).
Proof.
  unfold printed_val. destruct (alookup k i) as [v|]; [|discriminate].
  destruct v as [[|c s]|]; cbn [truthy val_str].
  - destruct (str_eqb k k_productDir || str_eqb k k_table_file); [|discriminate].
    intros [= <-]. split; reflexivity.
  - intros [= <-]. split; reflexivity.
  - destruct (str_eqb k k_productDir || str_eqb k k_table_file); [|discriminate].
    intros [= <-]. split; reflexivity.
Qed.

Lemma alookup_norm_info i k :
  alookup k (norm_info i) =
  if str_eqb k k_productDir
  then Some (match printed_val i k_productDir with Some x => x | None => None end)
  else if str_eqb k k_table_file
  then Some (match printed_val i k_table_file with Some x => x | None => Some s_none end)
  else if str_eqb k k_ups_dir then
    match printed_val i k_ups_dir with
    | Some x => Some x
    | None => if is_real (match printed_val i k_table_file with Some x => x | None => Some s_none end)
              then Some (Some s_none) else None
    end
  else if mem_str k field_keys then printed_val i k else None.
Proof.
  unfold norm_info. rewrite close_block_lookup. unfold table_of. rewrite !alookup_base.
  change (mem_str k_productDir field_keys) with true.
  change (mem_str k_table_file field_keys) with true.
  change (mem_str k_ups_dir field_keys) with true. cbv iota. reflexivity.
Qed.

Lemma printed_val_norm_table i :
  printed_val (norm_info i) k_table_file
  = Some (match printed_val i k_table_file with Some x => x | None => Some s_none end).
Proof.
  unfold printed_val at 1. rewrite alookup_norm_info.
  change (str_eqb k_table_file k_productDir) with false.
  change (str_eqb k_table_file k_table_file) with true. cbv iota.
  destruct (printed_val i k_table_file) as [x|] eqn:E; [|reflexivity].
  destruct (printed_val_solid _ _ _ E) as [H1 H2]. now rewrite H1, <- H2.
Qed.

(* every key but an absent product directory reads back the same the second time *)
Lemma norm_info_twice_other i k :
  k <> k_productDir -> alookup k (norm_info (norm_info i)) = alookup k (norm_info i).
Proof.
  intro N. rewrite (alookup_norm_info (norm_info i) k). apply str_eqb_neq in N. rewrite N.
  rewrite printed_val_norm_table.
  destruct (str_eqb_spec k k_table_file) as [->|N2].
  { rewrite alookup_norm_info. reflexivity. }
  destruct (str_eqb_spec k k_ups_dir) as [->|N3].
  { unfold printed_val at 1. rewrite !(alookup_norm_info i k_ups_dir).
    change (str_eqb k_ups_dir k_productDir) with false.
    change (str_eqb k_ups_dir k_table_file) with false.
    change (str_eqb k_ups_dir k_ups_dir) with true. cbv iota.
    destruct (printed_val i k_ups_dir) as [x|] eqn:E.
    - destruct (printed_val_solid _ _ _ E) as [H1 H2]. now rewrite H1, <- H2.
    - destruct (is_real _); reflexivity. }
  rewrite (alookup_norm_info i k). apply str_eqb_neq in N2, N3. rewrite N, N2, N3.
  destruct (mem_str k field_keys) eqn:M; [|reflexivity].
  unfold printed_val at 1. rewrite alookup_norm_info, N, N2, N3, M.
  destruct (printed_val i k) as [x|] eqn:E; [|reflexivity].
  destruct (printed_val_solid _ _ _ E) as [H1 H2]. now rewrite H1, <- H2.
Qed.

Lemma printed_val_dir_present i :
  amem k_productDir i = true -> exists x, printed_val i k_productDir = Some x.
Proof.
  rewrite amem_alookup. unfold printed_val. destruct (alookup k_productDir i) as [v|]; [|discriminate].
  intros _. destruct (truthy v); [eauto|].
  change (str_eqb k_productDir k_productDir) with true. cbn [orb]. eauto.
Qed.

Lemma norm_info_twice_dir i :
  amem k_productDir i = true ->
  alookup k_productDir (norm_info (norm_info i)) = alookup k_productDir (norm_info i).
Proof.
  intro H. destruct (printed_val_dir_present i H) as [x E].
  rewrite (alookup_norm_info (norm_info i)). change (str_eqb k_productDir k_productDir) with true.
  cbv iota. unfold printed_val at 1. rewrite !(alookup_norm_info i k_productDir).
  change (str_eqb k_productDir k_productDir) with true. cbv iota. rewrite E.
  destruct (printed_val_solid _ _ _ E) as [H1 H2]. now rewrite H1, <- H2.
Qed.

Lemma norm_info_twice i k :
  amem k_productDir i = true -> alookup k (norm_info (norm_info i)) = alookup k (norm_info i).
Proof.
  intro H. destruct (str_eq_dec k k_productDir) as [->|N].
  - now apply norm_info_twice_dir.
  - now apply norm_info_twice_other.
Qed.

(* an absent product directory is read as None and printed as the word none: neither is a
   real file name *)
Lemma norm_info_twice_dir_absent i :
  amem k_productDir i = false ->
  alookup k_productDir (norm_info i) = Some None /\
  alookup k_productDir (norm_info (norm_info i)) = Some (Some s_none).
Proof.
  rewrite amem_alookup. intro H.
  assert (E : printed_val i k_productDir = None).
  { unfold printed_val. destruct (alookup k_productDir i); [discriminate|reflexivity]. }
  split.
  - rewrite alookup_norm_info. change (str_eqb k_productDir k_productDir) with true. cbv iota.
    now rewrite E.
  - rewrite (alookup_norm_info (norm_info i)). change (str_eqb k_productDir k_productDir) with true.
    cbv iota. unfold printed_val at 1. rewrite (alookup_norm_info i k_productDir).
    change (str_eqb k_productDir k_productDir) with true. cbv iota. rewrite E. reflexivity.
Qed.

(* ------------------------------------------------------------ trimming leaves blocks without existing paths alone *)

(* the repaired loop looks only at absolute values, so the hypothesis is about those alone:
   whatever relative names exist in the current directory is irrelevant *)
Lemma abs_from_abs cwd s : isabs s = true -> abs_from cwd s = s.
Proof. intro H. unfold abs_from. now rewrite H. Qed.

Lemma trim_keys_noex pe ex td keys (i : info) :
  (forall k s, alookup k i = Some (Some s) -> isabs s = true -> ex s = false) ->
  trim_keys true pe ex td keys i = Ok i.
Proof.
  intro H. induction keys as [|k ks IH]; [reflexivity|]. cbn [trim_keys]. unfold trim_key.
  destruct (alookup k i) as [[s|]|] eqn:E; cbn [bind]; try exact IH.
  destruct (isabs s) eqn:A; cbn [andb negb bind]; [|exact IH].
  rewrite (abs_from_abs _ _ A), (H k s E A). cbn [negb bind]. exact IH.
Qed.

Lemma trim_info_noex pe ex td (i : info) :
  (forall k s, alookup k i = Some (Some s) -> isabs s = true -> ex s = false) ->
  trim_info pe ex td i = Ok i.
Proof. intro H. unfold trim_info, trim_info_gen. now apply trim_keys_noex. Qed.

Lemma trim_all_lookup pe ex td (m m' : amap info) f i i' :
  trim_all true pe ex td m = Ok m' -> alookup f m = Some i -> trim_info pe ex td i = Ok i' ->
  alookup f m' = Some i'.
Proof.
  revert m'. induction m as [|[g j] m IH]; intros m' H L T; [discriminate|].
  cbn [trim_all] in H. destruct (trim_info_gen true pe ex td j) as [j'|] eqn:Ej; [|discriminate].
  cbn [bind] in H. destruct (trim_all true pe ex td m) as [r|] eqn:Er; [|discriminate].
  cbn [bind] in H. injection H as <-. cbn [alookup] in *.
  destruct (str_eqb f g).
  - injection L as ->. unfold trim_info in T. rewrite T in Ej. now injection Ej as ->.
  - now apply IH.
Qed.

Lemma trim_all_keys pe ex td (m m' : amap info) : trim_all true pe ex td m = Ok m' -> akeys m' = akeys m.
Proof.
  revert m'. induction m as [|[g j] m IH]; intros m' H; [now injection H as <-|].
  cbn [trim_all] in H. destruct (trim_info_gen true pe ex td j) as [j'|]; [|discriminate].
  cbn [bind] in H. destruct (trim_all true pe ex td m) as [r|] eqn:Er; [|discriminate].
  cbn [bind] in H. injection H as <-. cbn. f_equal. now apply IH.
Qed.

(* ------------------------------------------------------------ rewriting one flavor *)

Lemma add_flavor_other who now g d t u r f :
  f <> g -> alookup f (vf_info (add_flavor who now g d t u r)) = alookup f (vf_info r).
Proof.
  intro N. unfold add_flavor. cbn [vf_info]. now apply alookup_aset_other.
Qed.

Lemma add_flavor_names who now g d t u r :
  vf_name (add_flavor who now g d t u r) = vf_name r /\
  vf_version (add_flavor who now g d t u r) = vf_version r.
Proof.
  unfold add_flavor. split; reflexivity.
Qed.

Lemma add_flavor_nonempty who now g d t u r : vf_info (add_flavor who now g d t u r) <> [].
Proof.
  unfold add_flavor. cbn [vf_info]. destruct (vf_info r) as [|[? ?] ?]; cbn [aset]; [discriminate|].
  match goal with |- context [str_eqb ?a ?b] => destruct (str_eqb a b) end; discriminate.
Qed.
