(* Lemmas about Model/RecordsDirs.v: the tag assignment kept outside the product's own database *)
From Coq Require Import List Bool.
Import ListNotations.
From Eupsv Require Import Base.Base Base.BaseLemmas Model.Paths Model.Records Model.RecordsExt
  Model.RecordsDirs Proofs.RecordsLib Proofs.Records Proofs.RecordsFlavors.

Lemma tag_target_cases own ut ud wr d :
  tag_target own ut ud wr = Ok d ->
  (wr = Some d /\ d <> []) \/
  ((wr = None \/ wr = Some []) /\ ut = true /\ ud = Some d /\ d <> []) \/
  ((wr = None \/ wr = Some []) /\ ut = false /\ d = own).
Proof.
  unfold tag_target. intro H.
  destruct wr as [[|c r]|].
  - destruct ut.
    + destruct ud as [[|c r]|]; try discriminate. inversion H; subst.
      right; left. repeat split; auto. discriminate.
    + inversion H; subst. right; right. auto.
  - inversion H; subst. left. split; [reflexivity|discriminate].
  - destruct ut.
    + destruct ud as [[|c r]|]; try discriminate. inversion H; subst.
      right; left. repeat split; auto. discriminate.
    + inversion H; subst. right; right. auto.
Qed.

(* assignTag into directory d, whatever d is: the chain file of d afterwards reads back the version
   for the requested declared flavors and, for every other flavor, what the chain file OF d said
   before; the chain files of the other directories are not touched *)
Lemma db_assign_tag_in_text who now name tag v req vls r own ut ud wr d cs c :
  vf_read None None vls = Ok r ->
  let declared := akeys (vf_info r) in
  tag_target own ut ud wr = Ok d ->
  (alookup d cs = None /\ c = {| cf_name := Some name; cf_tag := Some tag; cf_info := [] |}) \/
  (exists ls, alookup d cs = Some ls /\ cf_read (Some name) (Some tag) ls = Ok c) ->
  assign_flavors req declared <> [] ->
  wf_cfile (cf_set_versions who now v (assign_flavors req declared) c) = true ->
  exists cs' lines c2,
    db_assign_tag_in who now name tag v req (Some vls) own ut ud wr cs = Ok cs' /\
    alookup d cs' = Some lines /\
    (forall d', d' <> d -> alookup d' cs' = alookup d' cs) /\
    cf_read None None lines = Ok c2 /\
    (forall f, In f (requested req declared) -> In f declared -> cf_get_version f c2 = Some v) /\
    (forall f, ~ (In f (requested req declared) /\ In f declared) ->
               cf_get_version f c2 = cf_get_version f c).
Proof.
  intros Er declared Ht Hc Hne Hwf.
  destruct (db_assign_tag_text who now name tag v req vls r (alookup d cs) c Er Hc Hne Hwf)
    as [lines [c2 [E [R [HI HO]]]]].
  exists (aset d lines cs), lines, c2.
  split; [|split; [|split; [|split; [exact R|split; [exact HI|exact HO]]]]].
  - unfold db_assign_tag_in. rewrite Ht. cbn [bind]. unfold db_assign_tag_at. rewrite E. reflexivity.
  - apply alookup_aset_same.
  - intros d' N. now apply alookup_aset_other.
Qed.
