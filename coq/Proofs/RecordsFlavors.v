(* Chain records over several flavors and several look-ups in one process (C16):
   lemmas about Model/RecordsExt.v. *)
From Eupsv Require Import Base.Base Base.BaseLemmas Model.Paths Model.Records Model.RecordsExt
  Proofs.RecordsLib Proofs.Records.
From Coq Require Import Lia.

(* ------------------------------------------------------------ setVersion for one flavor *)

Lemma cf_get_set_same who now v g c : cf_get_version g (cf_set_version who now v g c) = Some v.
Proof.
  unfold cf_get_version, cf_set_version. cbn [cf_info]. rewrite alookup_aset_same.
  destruct (alookup g (cf_info c)) as [old|].
  - apply alookup_aset_same.
  - reflexivity.
Qed.

Lemma cf_get_set_other who now v g f c :
  f <> g -> cf_get_version f (cf_set_version who now v g c) = cf_get_version f c.
Proof.
  intro N. unfold cf_get_version, cf_set_version. cbn [cf_info]. now rewrite alookup_aset_other.
Qed.

Lemma cf_get_remove_same g c : cf_get_version g (cf_remove_version g c) = None.
Proof.
  unfold cf_get_version, cf_remove_version. cbn [cf_info].
  induction (cf_info c) as [|[k i] m IH]; [reflexivity|]. cbn [aremove].
  destruct (str_eqb g k) eqn:E; [exact IH|]. cbn [alookup]. now rewrite E.
Qed.

Lemma cf_get_remove_other g f c :
  f <> g -> cf_get_version f (cf_remove_version g c) = cf_get_version f c.
Proof.
  intro N. unfold cf_get_version, cf_remove_version. cbn [cf_info]. now rewrite alookup_aremove_other.
Qed.

(* ------------------------------------------------------------ setVersion over a list *)

Lemma cf_set_versions_names who now v fls c :
  cf_name (cf_set_versions who now v fls c) = cf_name c /\
  cf_tag (cf_set_versions who now v fls c) = cf_tag c.
Proof.
  revert c. induction fls as [|g r IH]; intro c; [split; reflexivity|].
  cbn [cf_set_versions]. destruct (IH (cf_set_version who now v g c)) as [A B].
  rewrite A, B. split; reflexivity.
Qed.

Lemma cf_set_versions_other who now v fls f c :
  ~ In f fls -> cf_get_version f (cf_set_versions who now v fls c) = cf_get_version f c.
Proof.
  revert c. induction fls as [|g r IH]; intros c N; [reflexivity|].
  cbn [cf_set_versions]. rewrite IH by (intro H; apply N; now right).
  apply cf_get_set_other. intros ->. apply N. now left.
Qed.

Lemma cf_set_versions_in who now v fls f c :
  In f fls -> cf_get_version f (cf_set_versions who now v fls c) = Some v.
Proof.
  revert c. induction fls as [|g r IH]; intros c H; [destruct H|].
  cbn [cf_set_versions].
  destruct (mem_str f r) eqn:M.
  - apply IH. now apply mem_str_In.
  - apply mem_str_not_In in M. rewrite cf_set_versions_other by assumption.
    destruct H as [->|H]; [apply cf_get_set_same|contradiction].
Qed.

Lemma cf_remove_versions_in fls f c :
  In f fls -> cf_get_version f (cf_remove_versions fls c) = None.
Proof.
  revert c. induction fls as [|g r IH]; intros c H; [destruct H|].
  cbn [cf_remove_versions].
  destruct (mem_str f r) eqn:M.
  - apply IH. now apply mem_str_In.
  - apply mem_str_not_In in M.
    assert (O : forall c', cf_get_version f (cf_remove_versions r c') = cf_get_version f c').
    { clear -M. induction r as [|h r IH]; intro c'; [reflexivity|]. cbn [cf_remove_versions].
      rewrite IH by (intro H; apply M; now right). apply cf_get_remove_other.
      intros ->. apply M. now left. }
    rewrite O. destruct H as [->|H]; [apply cf_get_remove_same|contradiction].
Qed.

Lemma cf_remove_versions_other fls f c :
  ~ In f fls -> cf_get_version f (cf_remove_versions fls c) = cf_get_version f c.
Proof.
  revert c. induction fls as [|g r IH]; intros c N; [reflexivity|].
  cbn [cf_remove_versions]. rewrite IH by (intro H; apply N; now right).
  apply cf_get_remove_other. intros ->. apply N. now left.
Qed.

(* the tagged version of every flavor survives the round trip through the text *)
Lemma cf_get_version_cnorm_ext c f :
  wf_cfile c = true -> cf_get_version f (cnorm c) = cf_get_version f c.
Proof.
  intro H. unfold wf_cfile in H. repeat (apply andb_true_iff in H; destruct H as [H ?]).
  unfold cf_get_version, cnorm. cbn [cf_info]. rewrite alookup_map_snd.
  destruct (alookup f (cf_info c)) as [i|] eqn:E; [|reflexivity]. cbn [option_map].
  assert (W : wf_cinfo i = true).
  { assert (HI : In i (map snd (cf_info c))).
    { clear -E. induction (cf_info c) as [|[k v] m IH]; [discriminate|]. cbn in *.
      destruct (str_eqb f k); [injection E as ->; now left|right; auto]. }
    match goal with Hi : forallb wf_cinfo _ = true |- _ => exact (proj1 (forallb_forall _ _) Hi _ HI) end. }
  unfold wf_cinfo in W. apply andb_true_iff in W. destruct W as [W _].
  unfold cnorm_info, cversion. cbn [alookup]. change (str_eqb k_version k_version) with true.
  cbv iota. destruct (alookup k_version i); [reflexivity|discriminate].
Qed.

(* write after setVersion over a list, then read: every flavor of the list reads back the
   version, every other flavor what it had *)
Lemma cf_set_versions_text who now v fls c :
  fls <> [] ->
  let x := cf_set_versions who now v fls c in
  wf_cfile x = true ->
  exists lines c2,
    cf_lines x = Ok lines /\
    cf_read (cf_name c) (cf_tag c) lines = Ok c2 /\ cf_read None None lines = Ok c2 /\
    (forall f, In f fls -> cf_get_version f c2 = Some v) /\
    (forall f, ~ In f fls -> cf_get_version f c2 = cf_get_version f c).
Proof.
  intros Hne x Hwf.
  assert (Nx : cf_info x <> []).
  { destruct fls as [|g r]; [congruence|].
    pose proof (cf_set_versions_in who now v (g :: r) g c (or_introl eq_refl)) as G.
    fold x in G. unfold cf_get_version in G. intro Z. rewrite Z in G. discriminate. }
  destruct (cf_read_lines x Hwf Nx) as [lines [E R]].
  destruct (cf_set_versions_names who now v fls c) as [Nn Nt]. fold x in Nn, Nt.
  exists lines, (cnorm x). split; [exact E|]. split; [|split; [|split]].
  - apply R; right; congruence.
  - apply R; now left.
  - intros f Hf. rewrite cf_get_version_cnorm_ext by assumption. now apply cf_set_versions_in.
  - intros f Hf. rewrite cf_get_version_cnorm_ext by assumption. now apply cf_set_versions_other.
Qed.

(* ------------------------------------------------------------ the flavors assignTag keeps *)

Lemma mem_str_app x a b : mem_str x (a ++ b) = mem_str x a || mem_str x b.
Proof.
  induction a as [|y a IH]; [reflexivity|]. cbn [app mem_str]. destruct (str_eqb x y); [reflexivity|exact IH].
Qed.

Lemma NoDup_snoc {A} (l : list A) (x : A) : NoDup l -> ~ In x l -> NoDup (l ++ [x]).
Proof.
  induction l as [|y l IH]; intros ND N; cbn [app].
  - constructor; [intros []|constructor].
  - inversion ND as [|? ? Hy Hl]; subst. constructor.
    + rewrite in_app_iff. intros [H|[<-|[]]]; [contradiction|]. apply N. now left.
    + apply IH; [assumption|]. intro H. apply N. now right.
Qed.

(* [rest] is what is still to be visited, [kept] what has been appended so far *)
Lemma reduce_loop_spec declared rest : forall kept,
  (forall x, In x kept -> ~ In x rest) ->
  forall f, In f (reduce_loop (length rest) (rest ++ kept) declared) <->
            In f kept \/ (In f rest /\ In f declared).
Proof.
  induction rest as [|g rest IH]; intros kept Inv f.
  - cbn [length reduce_loop app]. split; [now left|]. intros [H|[[] _]]. exact H.
  - cbn [length app reduce_loop].
    assert (Gk : mem_str g kept = false).
    { apply mem_str_not_In. intro H. apply (Inv g H). now left. }
    rewrite mem_str_app, Gk, Bool.orb_false_r.
    destruct (mem_str g declared) eqn:D; cbn [andb].
    + destruct (mem_str g rest) eqn:M; cbn [negb].
      * rewrite IH by (intros x Hx Hr; apply (Inv x Hx); now right).
        apply mem_str_In in M. apply mem_str_In in D. cbn [In].
        intuition (subst; auto).
      * apply mem_str_not_In in M. rewrite <- app_assoc.
        rewrite IH.
        -- apply mem_str_In in D. rewrite in_app_iff. cbn [In].
           intuition (subst; auto).
        -- intros x Hx Hr. apply in_app_iff in Hx. destruct Hx as [Hx|[<-|[]]].
           ++ apply (Inv x Hx). now right.
           ++ contradiction.
    + rewrite IH by (intros x Hx Hr; apply (Inv x Hx); now right).
      apply mem_str_not_In in D. cbn [In].
      intuition (subst; auto; contradiction).
Qed.

Lemma reduce_loop_nodup declared rest : forall kept,
  (forall x, In x kept -> ~ In x rest) -> NoDup kept ->
  NoDup (reduce_loop (length rest) (rest ++ kept) declared).
Proof.
  induction rest as [|g rest IH]; intros kept Inv ND.
  - exact ND.
  - cbn [length app reduce_loop].
    assert (Gk : mem_str g kept = false).
    { apply mem_str_not_In. intro H. apply (Inv g H). now left. }
    rewrite mem_str_app, Gk, Bool.orb_false_r.
    destruct (mem_str g declared && negb (mem_str g rest)) eqn:C.
    + apply andb_true_iff in C. destruct C as [_ M]. apply Bool.negb_true_iff in M.
      apply mem_str_not_In in M. rewrite <- app_assoc. apply IH.
      * intros x Hx Hr. apply in_app_iff in Hx. destruct Hx as [Hx|[<-|[]]].
        -- apply (Inv x Hx). now right.
        -- contradiction.
      * apply NoDup_snoc; [exact ND|]. intro H. apply (Inv g H). now left.
    + apply IH; [|exact ND]. intros x Hx Hr. apply (Inv x Hx). now right.
Qed.

(* which list assignTag starts from *)
Definition requested (req : option (list str)) (declared : list str) : list str :=
  match req with
  | None | Some [] => declared
  | Some l => l
  end.

Lemma assign_flavors_spec req declared f :
  In f (assign_flavors req declared) <-> In f (requested req declared) /\ In f declared.
Proof.
  unfold assign_flavors. fold (requested req declared).
  pose proof (reduce_loop_spec declared (requested req declared) [] (fun x H => match H with end) f) as S.
  rewrite app_nil_r in S. rewrite S. split; [intros [[]|H]; exact H|now right].
Qed.

Lemma assign_flavors_nodup req declared : NoDup (assign_flavors req declared).
Proof.
  unfold assign_flavors. fold (requested req declared).
  pose proof (reduce_loop_nodup declared (requested req declared) [] (fun x H => match H with end)
                                (NoDup_nil _)) as S.
  now rewrite app_nil_r in S.
Qed.

(* ------------------------------------------------------------ look-ups in one process *)

Lemma db_find_seq_nth ex root d qs k :
  nth_error (db_find_seq ex root d qs) k = option_map (db_find1 ex root d) (nth_error qs k).
Proof.
  unfold db_find_seq. revert k. induction qs as [|q r IH]; intros [|k]; try reflexivity. cbn. apply IH.
Qed.

(* ------------------------------------------------------------ Database.assignTag on the texts *)

Lemma db_assign_tag_text who now name tag v req vls r cls c :
  vf_read None None vls = Ok r ->
  let declared := akeys (vf_info r) in
  (cls = None /\ c = {| cf_name := Some name; cf_tag := Some tag; cf_info := [] |}) \/
  (exists ls, cls = Some ls /\ cf_read (Some name) (Some tag) ls = Ok c) ->
  assign_flavors req declared <> [] ->
  wf_cfile (cf_set_versions who now v (assign_flavors req declared) c) = true ->
  exists lines c2,
    db_assign_tag who now name tag v req (Some vls) cls = Ok lines /\
    cf_read None None lines = Ok c2 /\
    (forall f, In f (requested req declared) -> In f declared -> cf_get_version f c2 = Some v) /\
    (forall f, ~ (In f (requested req declared) /\ In f declared) ->
               cf_get_version f c2 = cf_get_version f c).
Proof.
  intros Er declared Hc Hne Hwf.
  destruct (cf_set_versions_text who now v (assign_flavors req declared) c Hne Hwf)
    as [lines [c2 [E [_ [R [HI HO]]]]]].
  exists lines, c2. split; [|split; [exact R|split]].
  - unfold db_assign_tag. rewrite Er. cbn [bind]. fold declared.
    destruct (assign_flavors req declared) as [|f0 fr] eqn:EF0; [congruence|].
    assert (H0 : In f0 declared).
    { apply (assign_flavors_spec req declared f0). rewrite EF0. now left. }
    rewrite <- EF0 in *. clear EF0.
    destruct declared as [|d0 dr] eqn:ED; [destruct H0|].
    rewrite <- ED in *.
    destruct (assign_flavors req declared) as [|f1 fr1] eqn:EF; [congruence|].
    destruct Hc as [[-> ->]|[ls [-> Ec]]]; [|rewrite Ec]; cbn [bind]; exact E.
  - intros f H1 H2. apply HI. apply assign_flavors_spec. now split.
  - intros f N. apply HO. intro H. apply N. now apply assign_flavors_spec.
Qed.
