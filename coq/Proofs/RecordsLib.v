(* String and association-list lemmas used by Proofs/Records.v and Proofs/Paths.v (C16);
   level A of the record codec: what the readers' line classifiers make of a printed line. *)
From Eupsv Require Import Base.Base Base.BaseLemmas Model.Paths Model.Records.
From Coq Require Import Lia.

(* ------------------------------------------------------------ lists and prefixes *)

Lemma starts_with_nil x : starts_with [] x = true.
Proof. now destruct x. Qed.

Lemma starts_with_app p x y : starts_with (p ++ x) (p ++ y) = starts_with x y.
Proof. induction p as [|c p IH]; [reflexivity|]. cbn. now rewrite ascii_eqb_refl. Qed.

Lemma starts_with_app_l p x : starts_with p (p ++ x) = true.
Proof. apply starts_with_refl. Qed.

Lemma starts_with_self p : starts_with p p = true.
Proof. rewrite <- (app_nil_r p) at 2. apply starts_with_refl. Qed.

Lemma starts_with_head_neq c p d x : c <> d -> starts_with (c :: p) (d :: x) = false.
Proof. intro N. cbn. apply ascii_eqb_neq in N. now rewrite N. Qed.

Lemma starts_with_true_app p x : starts_with p x = true -> exists r, x = p ++ r.
Proof.
  revert x. induction p as [|c p IH]; intros x H; [now exists x|].
  destruct x as [|d x]; [discriminate|]. cbn in H.
  destruct (ascii_eqb_spec c d) as [->|]; [|discriminate].
  destruct (IH _ H) as [r ->]. now exists r.
Qed.

Lemma skipn_app_len {A} (a b : list A) : skipn (length a) (a ++ b) = b.
Proof. induction a; [reflexivity|]. cbn. assumption. Qed.

Lemma skipn_S_app_len {A} (a : list A) (c : A) b : skipn (S (length a)) (a ++ c :: b) = b.
Proof. induction a; [reflexivity|]. cbn [length app]. now rewrite skipn_cons. Qed.

Lemma after_app a c b : after (length a) (a ++ c :: b) = b.
Proof. unfold after. apply skipn_S_app_len. Qed.

Lemma last_opt_app {A} (l : list A) (c : A) : last_opt (l ++ [c]) = Some c.
Proof.
  induction l as [|x l IH]; [reflexivity|]. cbn [app].
  destruct (l ++ [c]) eqn:E; [now destruct l|]. cbn. now rewrite <- IH.
Qed.

Lemma last_opt_Some {A} (l : list A) (c : A) : last_opt l = Some c -> exists l', l = l' ++ [c].
Proof.
  destruct l as [|x l] using rev_ind; [discriminate|].
  rewrite last_opt_app. intros [= ->]. now exists l.
Qed.

Lemma last_opt_app_r {A} (a l : list A) : l <> [] -> last_opt (a ++ l) = last_opt l.
Proof.
  intro N. destruct (exists_last N) as [l' [c ->]].
  now rewrite app_assoc, !last_opt_app.
Qed.

Lemma mem_ascii_cons c x l : mem_ascii c (x :: l) = ascii_eqb c x || mem_ascii c l.
Proof. cbn. now destruct (ascii_eqb c x). Qed.

(* ------------------------------------------------------------ association lists *)

Lemma amem_alookup {V} k (m : amap V) : amem k m = match alookup k m with Some _ => true | None => false end.
Proof. reflexivity. Qed.

Lemma alookup_app_notin {V} k (a b : amap V) : ~ In k (akeys a) -> alookup k (a ++ b) = alookup k b.
Proof.
  induction a as [|[k' v] a IH]; intro N; [reflexivity|]. cbn in *.
  destruct (str_eqb_spec k k') as [->|]; [tauto|]. apply IH. tauto.
Qed.

Lemma alookup_app_in {V} k (a b : amap V) : In k (akeys a) -> alookup k (a ++ b) = alookup k a.
Proof.
  induction a as [|[k' v] a IH]; intro N; [destruct N|]. cbn in *.
  destruct (str_eqb_spec k k') as [->|NE]; [reflexivity|]. apply IH.
  destruct N as [E|I]; [exfalso; apply NE; now symmetry|exact I].
Qed.

Lemma alookup_None_notin {V} k (m : amap V) : alookup k m = None <-> ~ In k (akeys m).
Proof.
  induction m as [|[k' v] m IH]; cbn; [tauto|].
  destruct (str_eqb_spec k k') as [->|N].
  - split; [discriminate|]. intro H. exfalso. apply H. now left.
  - rewrite IH. split.
    + intros H [E|I]; [apply N; now symmetry|tauto].
    + intros H I. apply H. now right.
Qed.

Lemma aset_fresh {V} k (v : V) m : ~ In k (akeys m) -> aset k v m = m ++ [(k, v)].
Proof.
  induction m as [|[k' v'] m IH]; intro N; [reflexivity|]. cbn in *.
  destruct (str_eqb_spec k k') as [->|]; [tauto|]. rewrite IH; tauto.
Qed.

Lemma aupd_last {V} f (g : V -> V) (d : amap V) (v : V) :
  ~ In f (akeys d) -> aupd f g (d ++ [(f, v)]) = d ++ [(f, g v)].
Proof.
  induction d as [|[k' v'] d IH]; intro N; cbn in *.
  - now rewrite str_eqb_refl.
  - destruct (str_eqb_spec f k') as [->|]; [tauto|]. rewrite IH; tauto.
Qed.

Lemma aupd_notin {V} f (g : V -> V) (d : amap V) : ~ In f (akeys d) -> aupd f g d = d.
Proof.
  induction d as [|[k' v'] d IH]; intro N; cbn in *; [reflexivity|].
  destruct (str_eqb_spec f k') as [->|]; [tauto|]. rewrite IH; tauto.
Qed.

Lemma akeys_app {V} (a b : amap V) : akeys (a ++ b) = akeys a ++ akeys b.
Proof. apply map_app. Qed.

Lemma alookup_last {V} f (d : amap V) v : ~ In f (akeys d) -> alookup f (d ++ [(f, v)]) = Some v.
Proof. intro N. rewrite alookup_app_notin by assumption. cbn. now rewrite str_eqb_refl. Qed.

(* ------------------------------------------------------------ white space *)

Lemma is_word_not_space c : is_word c = true -> py_space c = false.
Proof. destruct c as [[] [] [] [] [] [] [] []]; vm_compute; intro; congruence. Qed.

Lemma is_word_not_hash c : is_word c = true -> ascii_eqb c_hash c = false.
Proof. destruct c as [[] [] [] [] [] [] [] []]; vm_compute; intro; congruence. Qed.

Lemma lstrip_keep c r : py_space c = false -> lstrip (c :: r) = c :: r.
Proof. intro H. cbn [lstrip]. now rewrite H. Qed.

Lemma lstrip_spaces pre x : forallb py_space pre = true -> lstrip (pre ++ x) = lstrip x.
Proof.
  induction pre as [|c pre IH]; intro H; [reflexivity|]. cbn [forallb app lstrip] in *.
  apply andb_true_iff in H. destruct H as [-> H]. auto.
Qed.

Definition first_ok (v : str) : bool := match v with c :: _ => negb (py_space c) | [] => false end.
Definition last_ok (v : str) : bool :=
  match last_opt v with Some c => negb (py_space c) | None => false end.

Lemma lstrip_first_ok v : first_ok v = true -> lstrip v = v.
Proof.
  destruct v as [|c r]; [discriminate|]. cbn [first_ok lstrip]. intro H.
  apply negb_true_iff in H. now rewrite H.
Qed.

Lemma rstrip_last_ok a v : last_ok v = true -> rstrip (a ++ v) = a ++ v.
Proof.
  unfold last_ok. destruct (last_opt v) as [c|] eqn:E; [|discriminate]. intro H.
  apply last_opt_Some in E. destruct E as [v' ->].
  unfold rstrip. rewrite app_assoc, rev_app_distr. cbn [rev app lstrip].
  apply negb_true_iff in H. rewrite H. cbn [rev]. now rewrite rev_involutive.
Qed.

Lemma last_ok_app a v : v <> [] -> last_ok (a ++ v) = last_ok v.
Proof. intro N. unfold last_ok. now rewrite last_opt_app_r. Qed.

Lemma cut_comment_id x : mem_ascii c_hash x = false -> cut_comment x = x.
Proof.
  induction x as [|c x IH]; [reflexivity|]. rewrite mem_ascii_cons.
  intro H. apply orb_false_iff in H. destruct H as [H1 H2]. cbn.
  rewrite ascii_eqb_sym, H1. now rewrite IH.
Qed.

Lemma word_no_hash w : forallb is_word w = true -> mem_ascii c_hash w = false.
Proof.
  induction w as [|c w IH]; [reflexivity|]. cbn [forallb]. intro H.
  apply andb_true_iff in H. destruct H as [H1 H2]. rewrite mem_ascii_cons.
  now rewrite is_word_not_hash, IH.
Qed.

(* ------------------------------------------------------------ the key = value pattern *)

Lemma span_word_app w rest :
  forallb is_word w = true ->
  match rest with c :: _ => is_word c = false | [] => True end ->
  span_word (w ++ rest) = (w, rest).
Proof.
  induction w as [|c w IH]; cbn [forallb app]; intros H R.
  - destruct rest as [|c r]; [reflexivity|]. cbn. now rewrite R.
  - apply andb_true_iff in H. destruct H as [H1 H2]. cbn. now rewrite H1, IH.
Qed.

Definition s_eq : str := lit " = ".

Lemma lstrip_sp x : lstrip (" "%char :: x) = lstrip x.
Proof. reflexivity. Qed.
Lemma lstrip_eq x : lstrip ("="%char :: x) = "="%char :: x.
Proof. reflexivity. Qed.

Lemma key_value_kv w v :
  forallb is_word w = true -> w <> [] -> (v = [] \/ first_ok v = true) ->
  key_value (w ++ s_eq ++ v) = Some (w, v).
Proof.
  intros Hw Nw Hv. unfold key_value. rewrite span_word_app; [|assumption|reflexivity].
  destruct w as [|c w]; [congruence|].
  change (s_eq ++ v) with (" "%char :: "="%char :: " "%char :: v).
  rewrite lstrip_sp, lstrip_eq. change (ascii_eqb "="%char c_equal) with true. cbv iota.
  rewrite lstrip_sp. destruct Hv as [->|Hv]; [reflexivity|]. now rewrite lstrip_first_ok.
Qed.

(* a key that cannot be taken for End or Group: its first letter is neither E nor G *)
Definition safe_head (w : str) : bool :=
  match w with
  | c :: _ => negb (ascii_eqb c "E"%char) && negb (ascii_eqb c "G"%char)
  | [] => false
  end.

Lemma is_group_end_safe w x : safe_head w = true -> is_group_end (w ++ x) = false.
Proof.
  destruct w as [|c w]; [discriminate|]. cbn [safe_head]. intro H.
  apply andb_true_iff in H. destruct H as [H1 H2]. apply negb_true_iff in H1, H2.
  unfold is_group_end. cbn [app lit String.list_ascii_of_string starts_with].
  rewrite (ascii_eqb_sym "E"%char), H1, (ascii_eqb_sym "G"%char), H2. reflexivity.
Qed.

Definition word (w : str) : bool := forallb is_word w && safe_head w.

Lemma vf_classify_kv pre w v :
  forallb py_space pre = true -> word w = true ->
  first_ok v = true -> last_ok v = true -> mem_ascii c_hash v = false ->
  vf_classify (pre ++ w ++ s_eq ++ v) = CKV (lower_str w) v.
Proof.
  intros Hp Hw Hf Hl Hh. unfold word in Hw. apply andb_true_iff in Hw. destruct Hw as [Hw Hs].
  assert (Nw : w <> []) by (destruct w; [discriminate|congruence]).
  assert (Nv : v <> []) by (destruct v; [discriminate|congruence]).
  unfold vf_classify, strip.
  rewrite lstrip_spaces by assumption.
  rewrite lstrip_first_ok.
  2:{ destruct w as [|c w]; [congruence|]. cbn in *. apply andb_true_iff in Hw.
      destruct Hw as [Hc _]. now rewrite (is_word_not_space c Hc). }
  rewrite app_assoc, rstrip_last_ok by assumption. rewrite <- app_assoc.
  rewrite cut_comment_id.
  2:{ rewrite !mem_ascii_app, word_no_hash by assumption. now rewrite Hh. }
  destruct (w ++ s_eq ++ v) eqn:E; [destruct w; [congruence|discriminate]|]. rewrite <- E.
  rewrite is_group_end_safe by assumption.
  rewrite key_value_kv; auto.
Qed.

Lemma cf_classify_kv pre w v :
  forallb py_space pre = true -> word w = true -> first_ok v = true ->
  cf_classify (pre ++ w ++ s_eq ++ v) = CKV (lower_str w) v.
Proof.
  intros Hp Hw Hf. unfold word in Hw. apply andb_true_iff in Hw. destruct Hw as [Hw Hs].
  assert (Nw : w <> []) by (destruct w; [discriminate|congruence]).
  unfold cf_classify. rewrite lstrip_spaces by assumption.
  rewrite lstrip_first_ok.
  2:{ destruct w as [|c w]; [congruence|]. cbn in *. apply andb_true_iff in Hw.
      destruct Hw as [Hc _]. now rewrite (is_word_not_space c Hc). }
  destruct w as [|c w]; [congruence|]. cbn [app].
  assert (Hc : ascii_eqb c c_hash = false).
  { cbn in Hw. apply andb_true_iff in Hw. destruct Hw as [Hc _].
    rewrite ascii_eqb_sym. now apply is_word_not_hash. }
  rewrite Hc. change (c :: w ++ s_eq ++ v) with ((c :: w) ++ s_eq ++ v).
  rewrite key_value_kv; auto.
Qed.

(* ------------------------------------------------------------ quotes *)

Definition no_quote_ends (v : str) : bool :=
  match v with c :: _ => negb (ascii_eqb c c_dquote) | [] => true end &&
  match last_opt v with Some c => negb (ascii_eqb c c_dquote) | None => true end.

Lemma strip_last_quote_id v :
  match last_opt v with Some c => negb (ascii_eqb c c_dquote) | None => true end = true ->
  strip_last_quote v = v.
Proof.
  destruct (last_opt v) as [c|] eqn:E.
  - apply last_opt_Some in E. destruct E as [v' ->]. intro H. apply negb_true_iff in H.
    unfold strip_last_quote. rewrite rev_app_distr. cbn. now rewrite H.
  - destruct v as [|x v]; [reflexivity|]. exfalso. clear -E.
    assert (N : x :: v <> []) by congruence. destruct (exists_last N) as [l [c H]].
    rewrite H, last_opt_app in E. discriminate.
Qed.

Lemma unquote1_id v : no_quote_ends v = true -> unquote1 v = v.
Proof.
  unfold no_quote_ends. intro H. apply andb_true_iff in H. destruct H as [H1 H2].
  destruct v as [|c r]; [reflexivity|]. apply negb_true_iff in H1.
  unfold unquote1. rewrite H1. now apply strip_last_quote_id.
Qed.

Lemma unquote2_id v : no_quote_ends v = true -> unquote2 v = v.
Proof.
  unfold no_quote_ends. intro H. apply andb_true_iff in H. destruct H as [H1 _].
  destruct v as [|c r]; [reflexivity|]. apply negb_true_iff in H1.
  unfold unquote2. now rewrite H1.
Qed.

Lemma lstrip_quotes_id v :
  match v with c :: _ => negb (ascii_eqb c c_dquote) | [] => true end = true -> lstrip_quotes v = v.
Proof. destruct v as [|c r]; [reflexivity|]. intro H. apply negb_true_iff in H. cbn. now rewrite H. Qed.

Lemma strip_quotes_id v : no_quote_ends v = true -> strip_quotes v = v.
Proof.
  unfold no_quote_ends. intro H. apply andb_true_iff in H. destruct H as [H1 H2].
  unfold strip_quotes. rewrite (lstrip_quotes_id v H1).
  destruct (last_opt v) as [c|] eqn:E.
  - apply last_opt_Some in E. destruct E as [v' ->]. rewrite rev_app_distr. cbn.
    apply negb_true_iff in H2. rewrite H2. cbn. now rewrite rev_involutive.
  - destruct v as [|x v]; [reflexivity|]. exfalso. clear -E.
    assert (N : x :: v <> []) by congruence. destruct (exists_last N) as [l [c H]].
    rewrite H, last_opt_app in E. discriminate.
Qed.

(* ------------------------------------------------------------ the alphabet of record values *)

Definition c_nl : ascii := ascii_of_nat 10.
Definition c_cr : ascii := ascii_of_nat 13.

(* a value that survives print and read: not empty, no hash, no line break, neither
   blank nor a double quote at either end *)
Definition wf_value (v : str) : bool :=
  first_ok v && last_ok v && no_quote_ends v &&
  negb (mem_ascii c_hash v) && negb (mem_ascii c_nl v) && negb (mem_ascii c_cr v).

Lemma wf_value_parts v : wf_value v = true ->
  first_ok v = true /\ last_ok v = true /\ no_quote_ends v = true /\ mem_ascii c_hash v = false.
Proof.
  unfold wf_value. rewrite !andb_true_iff, !negb_true_iff. tauto.
Qed.

Lemma wf_value_nonempty v : wf_value v = true -> exists c r, v = c :: r.
Proof.
  intro H. apply wf_value_parts in H. destruct H as [H _]. destruct v as [|c r]; [discriminate|eauto].
Qed.

Lemma wf_value_none : wf_value s_none = true.
Proof. reflexivity. Qed.
