(* Deciding the hypotheses of the C14 theorems on a concrete world and state (used by the Examples). *)
From Eupsv Require Import Base.Base Base.BaseLemmas Model.Graph Model.Db Model.Remove
     Proofs.GraphLib Proofs.GraphWalk Proofs.GraphListing Proofs.GraphOrder
     Proofs.DbLib Proofs.Db Proofs.DbInv Proofs.RemoveLib Proofs.RemoveDestroy Proofs.RemoveCollect Proofs.RemoveMain.

Lemma wf_world_by_computation w : wf_world_b w = true -> wf_world w.
Proof.
  intros H3 n v es e T Ie. apply table_of_In in T. unfold wf_world_b in H3. rewrite forallb_forall in H3.
  specialize (H3 _ T). simpl in H3. rewrite forallb_forall in H3. specialize (H3 e Ie). split.
  - intros r Er. rewrite Er in H3. exact H3.
  - intros v' Er Ev. rewrite Er, Ev in H3. apply negb_true_iff, H3.
Qed.

Definition default_undeclared_b (w : world) (c : rconf) : bool :=
  forallb (fun it : (str * str) * list edge => negb (str_eqb (fst (fst it)) (rc_default c))) w.

Lemma default_undeclared_by_computation w c : default_undeclared_b w c = true -> default_undeclared w c.
Proof.
  intros H v. unfold declared. destruct (table_of w (rc_default c) v) as [es|] eqn:T; [|reflexivity].
  apply table_of_In in T. unfold default_undeclared_b in H. rewrite forallb_forall in H. specialize (H _ T).
  cbn in H. rewrite str_eqb_refl in H. discriminate.
Qed.

Definition coherent_b (w : world) (c : rconf) (a : adb) : bool :=
  forallb (fun it : (str * str) * list edge =>
             is_some (find_exact a (apath a) (fst (fst it)) (snd (fst it)) (rc_flavor c))) w.

Lemma coherent_by_computation w c a : coherent_b w c a = true -> coherent w c a.
Proof.
  intros H n v D. unfold declared in D. destruct (table_of w n v) as [es|] eqn:T; [|discriminate].
  apply table_of_In in T. unfold coherent_b in H. rewrite forallb_forall in H. specialize (H _ T). cbn in H.
  apply is_some_true, H.
Qed.

Definition wf_dirs_b (a : adb) : bool :=
  forallb (fun e1 : dkey * vrec => forallb (fun e2 : dkey * vrec =>
    dkey_eqb (fst e1) (fst e2) || placeholder (fst (snd e1)) || placeholder (fst (snd e2))
    || negb (under (fst (snd e1)) (fst (snd e2)))) (adecls a)) (adecls a).

Lemma wf_dirs_by_computation a : wf_dirs_b a = true -> wf_dirs a.
Proof.
  intros H s1 n1 v1 f1 r1 s2 n2 v2 f2 r2 E1 E2 N P1 P2.
  apply (glookup_In dkey_eqb dkey_eqb_eq) in E1, E2. unfold wf_dirs_b in H. rewrite forallb_forall in H.
  specialize (H _ E1). rewrite forallb_forall in H. specialize (H _ E2). cbn [fst snd] in H.
  rewrite P1, P2, (geqb_neq dkey_eqb dkey_eqb_eq _ _ N) in H. cbn in H. apply negb_true_iff, H.
Qed.

Definition dirs_present_b (a : adb) (fs : list str) : bool :=
  forallb (fun e : dkey * vrec => placeholder (fst (snd e)) || mem_str (fst (snd e)) fs) (adecls a).

Lemma dirs_present_by_computation w c st n v recursive :
  dirs_present_b (rdb st) (rfs st) = true -> dirs_present w c st n v recursive.
Proof.
  intros H q dir _ P Ph. unfold product_dir in P. destruct (nver q) as [vq|]; [|discriminate].
  destruct (find_exact (rdb st) (apath (rdb st)) (nname q) vq (rc_flavor c)) as [[s r]|] eqn:F; [|discriminate].
  inversion P. subst dir. apply find_exact_some in F as [_ F]. apply (glookup_In dkey_eqb dkey_eqb_eq) in F.
  unfold dirs_present_b in H. rewrite forallb_forall in H. specialize (H _ F). cbn [fst snd] in H.
  rewrite Ph in H. cbn in H. apply mem_str_In, H.
Qed.
