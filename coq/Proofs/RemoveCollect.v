(* The collection phase of Eups.remove with both fixes ([collect true true]): what it returns is
   exactly the product asked for plus (recursive) everything declared that its tables reach, every
   collected product has passed the in-use check, and the fuel |world| + 2 is enough. *)
From Coq Require Import Lia.
From Eupsv Require Import Base.Base Base.BaseLemmas Model.Graph Model.Db Model.Remove
     Proofs.GraphLib Proofs.GraphWalk Proofs.GraphListing Proofs.GraphOrder Proofs.RemoveLib.

(* a declared product as a node *)
Definition dnode (w : world) (d : node) : Prop := is_declared w d = true /\ nreal d = true.

Lemma dnode_shape w d : dnode w d -> exists n v, d = (n, Some v, true) /\ declared w n v = true.
Proof.
  destruct d as [[n ov] r]. unfold dnode, is_declared, nreal, nver, nname. cbn.
  intros [H ->]. destruct ov as [v|]; [|discriminate]. eauto.
Qed.

Lemma dnode_intro w n v : declared w n v = true -> dnode w (n, Some v, true).
Proof. intro H. split; [exact H|reflexivity]. Qed.

Lemma lookup_dnode w d : dnode w d -> lookup w (nname d) (nver d) = Some d.
Proof.
  intro H. destruct (dnode_shape _ _ H) as [n [v [-> D]]]. unfold lookup, nname, nver. cbn. rewrite D. reflexivity.
Qed.

Lemma lookup_some w n ov p : lookup w n ov = Some p -> dnode w p /\ nname p = n /\ nver p = ov.
Proof.
  unfold lookup. destruct ov as [v|]; [|discriminate]. destruct (declared w n v) eqn:D; [|discriminate].
  intro H. inversion H. subst. split; [apply dnode_intro, D|]. split; reflexivity.
Qed.

Lemma dnode_in_world w d : dnode w d -> In d (world_nodes w).
Proof.
  intro H. destruct (dnode_shape _ _ H) as [n [v [-> D]]]. unfold declared in D.
  destruct (table_of w n v) as [es|] eqn:T; [|discriminate]. apply table_of_In in T.
  unfold world_nodes. apply in_map_iff. exists ((n, v), es). auto.
Qed.

Lemma node_table_dnode w p es : node_table w p = Some es -> dnode w p.
Proof.
  destruct p as [[n ov] r]. unfold node_table, dnode, is_declared, declared, nreal, nver, nname. cbn.
  destruct r; [|discriminate]. destruct ov as [v|]; [|discriminate]. intros ->. auto.
Qed.

(* one line of the table of p denotes the declared product d *)
Definition dep (w : world) (p d : node) : Prop := In d (kept_deps true w p).

Lemma dep_step w p d : dep w p d <-> step w p d /\ is_declared w d = true.
Proof.
  unfold dep, kept_deps, step. destruct (node_table w p) as [es|] eqn:T.
  - rewrite filter_In, in_map_iff. split.
    + intros [[e [E I]] D]. split; [|exact D]. exists es, e. auto.
    + intros [[es' [e [T' [I E]]]] D]. inversion T'. subst. split; [|exact D]. exists e. auto.
  - cbn. split; [tauto|]. intros [[es' [e [T' _]]] _]. discriminate.
Qed.

Lemma dep_dnode w p d : wf_world w -> dep w p d -> dnode w d.
Proof.
  intros Hwf H. apply dep_step in H as [[es [e [T [I ->]]]] D]. split; [exact D|].
  pose proof (node_table_dnode _ _ _ T) as Hp. destruct (dnode_shape _ _ Hp) as [n [v [-> _]]].
  unfold node_table, nreal, nver, nname in T. cbn in T.
  destruct (Hwf n v es e T I) as [_ H2]. unfold own_target in *. destruct (eres e) as [r|] eqn:R; [reflexivity|].
  unfold is_declared, nver, nname in D. cbn in D. destruct (evers e) as [v'|] eqn:V; [|discriminate].
  rewrite (H2 v' eq_refl eq_refl) in D. discriminate.
Qed.

(* the product itself or something its tables reach through declared products *)
Inductive dpath (w : world) : node -> node -> Prop :=
| dp_refl p : dpath w p p
| dp_step p q x : dep w p q -> dpath w q x -> dpath w p x.

Lemma dpath_trans w p q x : dpath w p q -> dpath w q x -> dpath w p x.
Proof. induction 1; [auto|]. intro H'. eapply dp_step; eauto. Qed.

Lemma dpath_dnode w p x : wf_world w -> dnode w p -> dpath w p x -> dnode w x.
Proof. intros Hwf Hp H. induction H; [exact Hp|]. apply IHdpath. eapply dep_dnode; eauto. Qed.

Lemma dpath_reach w p x :
  dpath w p x <-> x = p \/ (reach_plus w p x /\ is_declared w x = true).
Proof.
  split.
  - induction 1 as [p|p q x D _ IH]; [left; reflexivity|]. right.
    apply dep_step in D as [S Dq]. apply step_is_stepP in S.
    destruct IH as [->|[R Dx]].
    + split; [apply rp_one, S|exact Dq].
    + split; [eapply rp_more; eauto|exact Dx].
  - intros [->|[R D]]; [apply dp_refl|]. unfold reach_plus in R.
    induction R as [p q S|p q r S R IH].
    + eapply dp_step; [|apply dp_refl]. apply dep_step. split; [apply step_is_stepP, S|exact D].
    + eapply dp_step; [|apply IH, D]. apply dep_step. split; [apply step_is_stepP, S|].
      assert (T : exists es, node_table w q = Some es).
      { inversion R as [? ? [es [e [T _]]]|? ? ? [es [e [T _]]] _]; subst; eauto. }
      destruct T as [es T]. apply (node_table_dnode _ _ _ T).
Qed.

(* ---------------------------------------------------------------- the shape of the recursion *)

Section Collect.
  Variables (chk : bool) (w : world) (idx : list ((str * str) * list entry)) (c : rconf) (top : option (str * str)).
  Hypothesis Hwf : wf_world w.
  Hypothesis Hdef : forall v, declared w (rc_default c) v = false.

  Notation C := (collect true true chk w idx c top).
  Notation L := (collect_loop true chk idx c top).
  Notation chk1 := (check_one chk idx c top).

  Lemma collect_S f seen n ov r :
    C (S f) seen n ov r =
    if str_eqb n (rc_default c) then Ok ([], seen)
    else match lookup w n ov with
         | None => Err NotFound
         | Some p => L (C f) r n (p :: (if r then kept_deps true w p else [])) (p :: seen)
         end.
  Proof. reflexivity. Qed.

  Lemma dnode_not_default d : dnode w d -> nname d <> rc_default c.
  Proof.
    intros H E. destruct (dnode_shape _ _ H) as [n [v [-> D]]]. unfold nname in E. cbn in E. subst.
    rewrite Hdef in D. discriminate.
  Qed.

  Section Ind.
    Variables (Pc : list node -> str -> option str -> bool -> list node -> list node -> Prop)
              (Pl : node -> bool -> list node -> list node -> list node -> list node -> Prop).
    Hypothesis Hdflt : forall seen n ov r, n = rc_default c -> Pc seen n ov r [] seen.
    Hypothesis Hcall : forall seen n ov r p l s', n <> rc_default c -> lookup w n ov = Some p ->
        Pl p r (p :: (if r then kept_deps true w p else [])) (p :: seen) l s' -> Pc seen n ov r l s'.
    Hypothesis Hnil : forall p r seen, Pl p r [] seen [] seen.
    Hypothesis Hcons : forall (p : node) (r : bool) (d : node) (ds seen l1 s1 l2 s2 : list node),
        chk1 d = Ok tt ->
        (if r then (exists f, C f seen (nname d) (nver d) (negb (mem_node d seen)) = Ok (l1, s1)) /\
                   Pc seen (nname d) (nver d) (negb (mem_node d seen)) l1 s1
         else l1 = [] /\ s1 = seen) ->
        Pl p r ds s1 l2 s2 -> Pl p r (d :: ds) seen (l1 ++ d :: l2) s2.

    Lemma collect_ind : forall fuel seen n ov r l s', C fuel seen n ov r = Ok (l, s') -> Pc seen n ov r l s'.
    Proof using Hdflt Hcall Hnil Hcons.
      induction fuel as [|f IH]; intros seen n ov r l s' H; [discriminate|].
      rewrite collect_S in H. destruct (str_eqb_spec n (rc_default c)) as [E|N].
      - inversion H. subst l s'. apply Hdflt. exact E.
      - destruct (lookup w n ov) as [p|] eqn:Lk; [|discriminate].
        apply (Hcall seen n ov r p l s' N Lk).
        assert (Loop : forall ds seen0 l0 s0, L (C f) r n ds seen0 = Ok (l0, s0) -> Pl p r ds seen0 l0 s0).
        { clear H. induction ds as [|d ds IHds]; intros seen0 l0 s0 H.
          - cbn in H. inversion H. apply Hnil.
          - cbn [collect_loop] in H. destruct (chk1 d) as [[]|e] eqn:K; [|discriminate].
            destruct r.
            + unfold follow in H.
              destruct (C f seen0 (nname d) (nver d) (negb (mem_node d seen0))) as [[l1 s1]|e] eqn:Sub; [|discriminate].
              destruct (L (C f) true n ds s1) as [[l2 s2]|e] eqn:Tl; [|discriminate].
              inversion H. subst l0 s0. apply (Hcons p true d ds seen0 l1 s1 l2 s2 K).
              * split; [exists f; exact Sub|apply IH, Sub].
              * apply IHds, Tl.
            + destruct (L (C f) false n ds seen0) as [[l2 s2]|e] eqn:Tl; [|discriminate].
              inversion H. subst l0 s0. apply (Hcons p false d ds seen0 [] seen0 l2 s2 K); [auto|].
              apply IHds, Tl. }
        apply Loop, H.
    Qed.
  End Ind.

  (* ---------------------------------------------------------------- seen only grows; what is new is listed *)

  Definition PcA (seen : list node) (n : str) (ov : option str) (r : bool) (l s' : list node) : Prop :=
    incl seen s' /\ (forall x, In x s' -> In x seen \/ In x l) /\
    (n <> rc_default c -> forall p, lookup w n ov = Some p -> In p l /\ In p s').
  Definition PlA (p : node) (r : bool) (ds seen l s' : list node) : Prop :=
    incl seen s' /\ (forall x, In x s' -> In x seen \/ In x l) /\ (forall d, In d ds -> In d l).

  Lemma collect_A fuel seen n ov r l s' : C fuel seen n ov r = Ok (l, s') -> PcA seen n ov r l s'.
  Proof using.
    apply (collect_ind PcA PlA).
    - intros sn n0 ov0 r0 E. split; [apply incl_refl|]. split; [auto|]. intros N. contradiction.
    - intros sn n0 ov0 r0 p l0 s0 N Lk [H1 [H2 H3]]. split; [|split].
      + intros x I. apply H1. right. exact I.
      + intros x I. destruct (H2 x I) as [[<-|J]|J]; auto. right. apply H3. left. reflexivity.
      + intros _ p' Lk'. rewrite Lk in Lk'. inversion Lk'. subst p'. split; [apply H3; left; reflexivity|apply H1; left; reflexivity].
    - intros p r0 sn. split; [apply incl_refl|]. split; [auto|]. intros d [].
    - intros p r0 d ds sn l1 s1 l2 s2 _ Hsub [H1 [H2 H3]].
      assert (Hs : incl sn s1 /\ (forall x, In x s1 -> In x sn \/ In x l1)).
      { destruct r0; [destruct Hsub as [_ [A [B _]]]; auto|]. destruct Hsub as [-> ->]. split; [apply incl_refl|auto]. }
      destruct Hs as [A B]. split; [|split].
      + eapply incl_tran; eauto.
      + intros x I. destruct (H2 x I) as [J|J].
        * destruct (B x J) as [J'|J']; [left; exact J'|right; apply in_or_app; left; exact J'].
        * right. apply in_or_app. right. right. exact J.
      + intros d' [<-|I]; apply in_or_app; right; [left; reflexivity|right; apply H3, I].
  Qed.

  (* ---------------------------------------------------------------- everything listed is reached *)

  Definition PcB (seen : list node) (n : str) (ov : option str) (r : bool) (l s' : list node) : Prop :=
    forall p, lookup w n ov = Some p -> forall x, In x l -> if r then dpath w p x else x = p.
  Definition PlB (p : node) (r : bool) (ds seen l s' : list node) : Prop :=
    dnode w p -> (forall d, In d ds -> d = p \/ (r = true /\ dep w p d)) ->
    forall x, In x l -> if r then dpath w p x else x = p.

  Lemma collect_B fuel seen n ov r l s' : C fuel seen n ov r = Ok (l, s') -> PcB seen n ov r l s'.
  Proof using Hwf.
    apply (collect_ind PcB PlB).
    - intros sn n0 ov0 r0 _ p _ x [].
    - intros sn n0 ov0 r0 p l0 s0 _ Lk H p' Lk' x I. rewrite Lk in Lk'. inversion Lk'. subst p'.
      apply (H (proj1 (lookup_some _ _ _ _ Lk))); [|exact I].
      intros d [<-|J]; [left; reflexivity|]. destruct r0; [right; split; [reflexivity|exact J]|destruct J].
    - intros p r0 sn _ _ x [].
    - intros p r0 d ds sn l1 s1 l2 s2 _ Hsub Htl Hp Hds x I.
      apply in_app_or in I as [I|[<-|I]].
      + destruct r0; [|destruct Hsub as [-> _]; destruct I].
        destruct Hsub as [_ Hc].
        assert (Hd : dnode w d /\ dpath w p d).
        { destruct (Hds d (or_introl eq_refl)) as [->|[_ D]]; [split; [exact Hp|apply dp_refl]|].
          split; [eapply dep_dnode; eauto|eapply dp_step; [exact D|apply dp_refl]]. }
        destruct Hd as [Hd Hpd]. specialize (Hc d (lookup_dnode _ _ Hd) x I).
        destruct (negb (mem_node d sn)); [eapply dpath_trans; eauto|subst; exact Hpd].
      + destruct (Hds d (or_introl eq_refl)) as [->|[-> D]].
        * destruct r0; [apply dp_refl|reflexivity].
        * eapply dp_step; [exact D|apply dp_refl].
      + apply (Htl Hp); [|exact I]. intros d' J. apply Hds. right. exact J.
  Qed.

  (* ---------------------------------------------------------------- everything reached is listed *)

  (* every product of S whose dependencies are not still being collected (G) has them all in S *)
  Definition closedx (S G : list node) : Prop :=
    forall x, In x S -> ~ In x G -> forall y, dep w x y -> In y S.

  Definition PcC (seen : list node) (n : str) (ov : option str) (r : bool) (l s' : list node) : Prop :=
    forall G p, lookup w n ov = Some p -> (r = false -> In p seen) -> closedx seen G -> closedx s' G.
  Definition PlC (p : node) (r : bool) (ds seen l s' : list node) : Prop :=
    forall G, dnode w p -> (forall d, In d ds -> d = p \/ (r = true /\ dep w p d)) -> In p seen ->
    closedx seen (p :: G) ->
    incl seen s' /\ closedx s' (p :: G) /\ (r = true -> forall d, In d ds -> In d s').

  Lemma collect_C fuel seen n ov r l s' : C fuel seen n ov r = Ok (l, s') -> PcC seen n ov r l s'.
  Proof using Hwf Hdef.
    apply (collect_ind PcC PlC).
    - intros sn n0 ov0 r0 E G p Lk. exfalso. apply lookup_some in Lk as [Hp [Hn _]].
      apply (dnode_not_default p Hp). congruence.
    - intros sn n0 ov0 r0 p l0 s0 _ Lk H G p' Lk' Hr Hcl. rewrite Lk in Lk'. inversion Lk'. subst p'.
      pose proof (proj1 (lookup_some _ _ _ _ Lk)) as Hp.
      destruct (H G Hp) as [Hinc [Hcl' Hall]].
      + intros d [<-|J]; [left; reflexivity|]. destruct r0; [right; split; [reflexivity|exact J]|destruct J].
      + left. reflexivity.
      + intros x [<-|I] Nx y D; [exfalso; apply Nx; left; reflexivity|].
        right. apply (Hcl x I); [|exact D]. intro J. apply Nx. right. exact J.
      + intros x I Nx y D. destruct (node_eq_dec x p) as [->|Np].
        * destruct r0.
          -- apply (Hall eq_refl). right. exact D.
          -- apply Hinc. right. apply (Hcl p (Hr eq_refl) Nx y D).
        * apply (Hcl' x I); [|exact D]. intros [E|J]; [congruence|contradiction].
    - intros p r0 sn G _ _ _ Hcl. split; [apply incl_refl|]. split; [exact Hcl|]. intros _ d [].
    - intros p r0 d ds sn l1 s1 l2 s2 _ Hsub Htl G Hp Hds Ip Hcl.
      assert (Hd : dnode w d).
      { destruct (Hds d (or_introl eq_refl)) as [->|[_ D]]; [exact Hp|eapply dep_dnode; eauto]. }
      assert (Hs : incl sn s1 /\ closedx s1 (p :: G) /\ (r0 = true -> In d s1)).
      { destruct r0.
        - destruct Hsub as [[f Eq] Hc]. destruct (collect_A _ _ _ _ _ _ _ Eq) as [A [_ A3]].
          split; [exact A|]. split.
          + apply (Hc (p :: G) d (lookup_dnode _ _ Hd)); [|exact Hcl].
            intro E. apply negb_false_iff, mem_node_In in E. exact E.
          + intros _. apply (A3 (dnode_not_default d Hd) d (lookup_dnode _ _ Hd)).
        - destruct Hsub as [_ ->]. split; [apply incl_refl|]. split; [exact Hcl|discriminate]. }
      destruct Hs as [A [Hcl1 Hd1]].
      destruct (Htl G Hp) as [B [Hcl2 Hall]]; [intros d' J; apply Hds; right; exact J|apply A, Ip|exact Hcl1|].
      split; [eapply incl_tran; eauto|]. split; [exact Hcl2|].
      intros Er d' [<-|J]; [apply B, Hd1, Er|apply (Hall Er d' J)].
  Qed.

  (* ---------------------------------------------------------------- everything listed was checked *)

  Definition PcD (seen : list node) (n : str) (ov : option str) (r : bool) (l s' : list node) : Prop :=
    forall x, In x l -> chk1 x = Ok tt.
  Definition PlD (p : node) (r : bool) (ds seen l s' : list node) : Prop := forall x, In x l -> chk1 x = Ok tt.

  Lemma collect_D fuel seen n ov r l s' : C fuel seen n ov r = Ok (l, s') -> PcD seen n ov r l s'.
  Proof using.
    apply (collect_ind PcD PlD).
    - intros sn n0 ov0 r0 _ x [].
    - intros sn n0 ov0 r0 p l0 s0 _ _ H. exact H.
    - intros p r0 sn x [].
    - intros p r0 d ds sn l1 s1 l2 s2 K Hsub Htl x I. apply in_app_or in I as [I|[<-|I]]; [|exact K|apply Htl, I].
      destruct r0; [apply (proj2 Hsub), I|]. destruct Hsub as [-> _]. destruct I.
  Qed.

  (* ---------------------------------------------------------------- the list, exactly *)

  Theorem collect_exact fuel n v r l s' :
    C fuel [] n (Some v) r = Ok (l, s') -> declared w n v = true ->
    forall x, In x l <-> x = (n, Some v, true) \/ (r = true /\ dpath w (n, Some v, true) x).
  Proof using Hwf Hdef.
    intros H D x. set (p := (n, Some v, true)).
    assert (Hp : dnode w p) by (apply dnode_intro, D).
    assert (Lk : lookup w n (Some v) = Some p) by (unfold lookup; rewrite D; reflexivity).
    assert (Nd : n <> rc_default c) by (apply (dnode_not_default p Hp)).
    destruct (collect_A _ _ _ _ _ _ _ H) as [_ [A2 A3]]. destruct (A3 Nd p Lk) as [Ipl Ips].
    split.
    - intro I. pose proof (collect_B _ _ _ _ _ _ _ H p Lk x I) as B. destruct r; [|left; exact B].
      destruct (node_eq_dec x p) as [->|N]; [left; reflexivity|right; auto].
    - intros [->|[-> P]]; [exact Ipl|].
      assert (Cl : closedx s' []).
      { apply (collect_C _ _ _ _ _ _ _ H [] p Lk); [discriminate|]. intros y []. }
      assert (Is : In x s').
      { clear -P Ips Cl. induction P as [q|q q' x' Dq _ IH]; [exact Ips|]. apply IH. apply (Cl q Ips); auto. }
      destruct (A2 x Is) as [[]|I]. exact I.
  Qed.

  Lemma collect_listed_dnode fuel n v r l s' x :
    C fuel [] n (Some v) r = Ok (l, s') -> declared w n v = true -> In x l -> dnode w x.
  Proof using Hwf Hdef.
    intros H D I. apply (collect_exact _ _ _ _ _ _ H D) in I.
    destruct I as [->|[_ P]]; [apply dnode_intro, D|]. eapply dpath_dnode; eauto. apply dnode_intro, D.
  Qed.

  (* ---------------------------------------------------------------- fuel *)

  Definition unseen (seen : list node) : nat :=
    length (filter (fun x => negb (mem_node x seen)) (world_nodes w)).

  Lemma unseen_mono s s' : incl s s' -> unseen s' <= unseen s.
  Proof. intro H. apply filter_length_le. intro x. rewrite !negb_true_iff, !mem_node_not_In. auto. Qed.

  Lemma unseen_cons p s : In p (world_nodes w) -> ~ In p s -> unseen (p :: s) < unseen s.
  Proof.
    intros I N. unfold unseen. apply filter_length_lt with (x := p); auto.
    - intro y. rewrite !negb_true_iff, !mem_node_not_In. cbn. tauto.
    - rewrite negb_false_iff, mem_node_In. left. reflexivity.
    - rewrite negb_true_iff, mem_node_not_In. exact N.
  Qed.

  Lemma unseen_nil : unseen [] <= length w.
  Proof. unfold unseen, world_nodes. rewrite <- (map_length (fun it => (fst (fst it), Some (snd (fst it)), true)) w). apply filter_length_le_all. Qed.

  (* the call returns, or the in-use check (on, without force) has refused *)
  Definition good {A} (x : res A) : Prop :=
    (exists a, x = Ok a) \/ (x = Err Refused /\ chk = true /\ rc_force c = false).

  Lemma check_one_good d : good (chk1 d).
  Proof.
    unfold good, check_one. destruct chk; [|left; eauto].
    destruct (users_total_ok idx (nname d) (nver d)) as [us [E _]]. rewrite E.
    destruct (existsb (fun u => negb (is_top top (cuser u))) us); cbn; [|left; eauto].
    destruct (rc_force c); cbn; [left; eauto|right; auto].
  Qed.

  Lemma collect_total : forall fuel seen n v r,
    declared w n v = true -> (r = true -> ~ In (n, Some v, true) seen) ->
    (if r then unseen seen + 2 <= fuel else 1 <= fuel) ->
    good (C fuel seen n (Some v) r).
  Proof.
    induction fuel as [|f IH]; intros seen n v r D Hns Hf; [destruct r; lia|].
    set (p := (n, Some v, true)). assert (Hp : dnode w p) by (apply dnode_intro, D).
    rewrite collect_S. destruct (str_eqb_spec n (rc_default c)) as [E|_]; [left; eauto|].
    unfold lookup. rewrite D. fold p.
    assert (Loop : forall ds seen0, incl (p :: seen) seen0 ->
              (forall d, In d ds -> dnode w d) -> (r = false -> True) ->
              good (L (C f) r n ds seen0)).
    { induction ds as [|d ds IHds]; intros seen0 Hinc Hds _; [left; cbn; eauto|].
      cbn [collect_loop]. destruct (check_one_good d) as [[[] K]|[K R]]; rewrite K; [|right; auto].
      assert (Hd : dnode w d) by (apply Hds; left; reflexivity).
      destruct r.
      - unfold follow. destruct (dnode_shape _ _ Hd) as [nd [vd [Ed Dd]]].
        assert (G : good (C f seen0 (nname d) (nver d) (negb (mem_node d seen0)))).
        { subst d. unfold nname, nver. cbn [fst snd]. apply IH; [exact Dd| |].
          - intros E. apply negb_true_iff, mem_node_not_In in E. exact E.
          - assert (unseen seen0 + 1 <= unseen seen).
            { pose proof (Nat.le_lt_trans _ _ _ (unseen_mono _ _ Hinc) (unseen_cons p seen (dnode_in_world _ _ Hp) (Hns eq_refl))). lia. }
            destruct (negb (mem_node (nd, Some vd, true) seen0)); lia. }
        destruct G as [[[l1 s1] Eq]|[Eq R]]; rewrite Eq; [|right; auto].
        destruct (collect_A _ _ _ _ _ _ _ Eq) as [A _].
        destruct (IHds s1) as [[[l2 s2] Eq2]|[Eq2 R]]; [eapply incl_tran; eauto|intros d' J; apply Hds; right; exact J|auto| |].
        + rewrite Eq2. left. eauto.
        + rewrite Eq2. right. auto.
      - destruct (IHds seen0) as [[[l2 s2] Eq2]|[Eq2 R]]; [exact Hinc|intros d' J; apply Hds; right; exact J|auto| |].
        + rewrite Eq2. left. eauto.
        + rewrite Eq2. right. auto. }
    apply Loop; [apply incl_refl| |auto].
    intros d [<-|J]; [exact Hp|]. destruct r; [eapply dep_dnode; eauto|destruct J].
  Qed.
End Collect.
