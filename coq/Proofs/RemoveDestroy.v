(* The destruction phase of Eups.remove ([destroy]): what it does to declarations, tags and paths,
   for every outcome (frame) and for the completed run (exactness), and when it completes. *)
From Coq Require Import Lia.
From Eupsv Require Import Base.Base Base.BaseLemmas Model.Graph Model.Db Model.Remove
     Proofs.GraphLib Proofs.DbLib Proofs.Db Proofs.DbInv Proofs.RemoveLib.

Definition real_node (p : node) : Prop := exists n v, p = (n, Some v, true).
Definition all_real (ps : list node) : Prop := forall p, In p ps -> real_node p.

Lemma all_real_tail p ps : all_real (p :: ps) -> all_real ps.
Proof. intros H q I. apply H. right. exact I. Qed.

(* the declaration (s, n, v, f') is one that the run over ps removes *)
Definition gone (c : rconf) (a : adb) (ps : list node) (s n v f' : str) : Prop :=
  f' = rc_flavor c /\ In (n, Some v, true) ps /\ home c a n v = Some s.

Lemma gone_after c a s1 n1 v1 ps s n v f' :
  ~ In (n1, Some v1, true) ps ->
  gone c (aapply (ADelDecl s1 n1 v1 (rc_flavor c)) a) ps s n v f' ->
  gone c a ((n1, Some v1, true) :: ps) s n v f'.
Proof.
  intros Hn [Hf [Hi Hh]]. assert (N : (n, v) <> (n1, v1)).
  { intro E. inversion E. subst. contradiction. }
  rewrite (home_after_other _ _ _ _ _ _ _ N) in Hh. split; [exact Hf|]. split; [right; exact Hi|exact Hh].
Qed.

Lemma gone_before c a s1 n1 v1 ps s n v f' :
  (n, v) <> (n1, v1) ->
  gone c a ((n1, Some v1, true) :: ps) s n v f' ->
  gone c (aapply (ADelDecl s1 n1 v1 (rc_flavor c)) a) ps s n v f'.
Proof.
  intros N [Hf [Hi Hh]]. split; [exact Hf|]. split.
  - destruct Hi as [E|Hi]; [inversion E; subst; contradiction|exact Hi].
  - rewrite (home_after_other _ _ _ _ _ _ _ N). exact Hh.
Qed.

(* ---------------------------------------------------------------- one product *)

Lemma destroy_inv keep c a0 n v ps removed st r st' :
  destroy keep c a0 ((n, Some v, true) :: ps) removed st = (r, st') ->
  (find_exact (rdb st) (apath (rdb st)) n v (rc_flavor c) = None /\ r = Err NotFound /\ st' = st) \/
  (exists s rr, find_exact (rdb st) (apath (rdb st)) n v (rc_flavor c) = Some (s, rr) /\
     let a' := aapply (ADelDecl s n v (rc_flavor c)) (rdb st) in
     ((exists e, dir_step keep c a0 a' (n, Some v, true) removed (rfs st) = Err e /\ r = Err e /\ st' = mkR a' (rfs st)) \/
      (exists removed' fs', dir_step keep c a0 a' (n, Some v, true) removed (rfs st) = Ok (removed', fs') /\
                            destroy keep c a0 ps removed' (mkR a' fs') = (r, st')))).
Proof.
  cbn [destroy]. unfold nname, nver. cbn [fst snd]. rewrite undeclare_some.
  destruct (find_exact (rdb st) (apath (rdb st)) n v (rc_flavor c)) as [[s rr]|] eqn:F.
  - intro H. right. exists s, rr. split; [reflexivity|]. cbv zeta.
    destruct (dir_step keep c a0 (aapply (ADelDecl s n v (rc_flavor c)) (rdb st)) (n, Some v, true) removed (rfs st)) as [[removed' fs']|e] eqn:D.
    + right. exists removed', fs'. split; [reflexivity|exact H].
    + left. exists e. inversion H. auto.
  - intro H. left. inversion H. auto.
Qed.

Lemma dir_step_cases keep c a0 a1 p removed fs removed' fs' :
  dir_step keep c a0 a1 p removed fs = Ok (removed', fs') ->
  (removed' = removed /\ fs' = fs /\
     (In (product_dir c a0 p) removed \/
      (keep = true /\ exists dir, product_dir c a0 p = Some dir /\ placeholder dir = false /\ in_use c a1 dir = true))) \/
  (removed' = product_dir c a0 p :: removed /\ fs' = fs /\
     (product_dir c a0 p = None \/ exists dir, product_dir c a0 p = Some dir /\ placeholder dir = true)) \/
  (exists dir, product_dir c a0 p = Some dir /\ placeholder dir = false /\ In dir fs /\
               ~ In (Some dir) removed /\ removed' = Some dir :: removed /\ fs' = rmtree dir fs).
Proof.
  unfold dir_step. destruct (mem_odir (product_dir c a0 p) removed) eqn:M.
  - intro H. inversion H. subst. left. apply mem_odir_In in M. auto.
  - apply mem_odir_not_In in M. destruct (product_dir c a0 p) as [dir|] eqn:P.
    + destruct (placeholder dir) eqn:Ph.
      * intro H. inversion H. subst. right. left. split; [reflexivity|]. split; [reflexivity|]. right. eauto.
      * destruct (keep && in_use c a1 dir) eqn:KU.
        { intro H. inversion H. subst. apply andb_true_iff in KU as [K1 K2]. left. split; [reflexivity|]. split; [reflexivity|].
          right. split; [exact K1|]. exists dir. auto. }
        destruct (mem_str dir fs) eqn:I; [|discriminate]. intro H. inversion H. subst.
        right. right. exists dir. apply mem_str_In in I. auto 10.
    + intro H. inversion H. subst. right. left. auto.
Qed.

Lemma dir_step_fs_sub keep c a0 a1 p removed fs removed' fs' x :
  dir_step keep c a0 a1 p removed fs = Ok (removed', fs') -> In x fs' -> In x fs.
Proof.
  intro H. destruct (dir_step_cases _ _ _ _ _ _ _ _ _ H) as [[_ [-> _]]|[[_ [-> _]]|[dir [_ [_ [_ [_ [_ ->]]]]]]]]; auto.
  intro I. apply rmtree_In in I. tauto.
Qed.

Lemma dir_step_fs_keep keep c a0 a1 p removed fs removed' fs' x :
  dir_step keep c a0 a1 p removed fs = Ok (removed', fs') -> In x fs ->
  (forall dir, product_dir c a0 p = Some dir -> placeholder dir = false -> under dir x = false) -> In x fs'.
Proof.
  intros H I K. destruct (dir_step_cases _ _ _ _ _ _ _ _ _ H) as [[_ [-> _]]|[[_ [-> _]]|[dir [P [Ph [_ [_ [_ ->]]]]]]]]; auto.
  apply rmtree_In. split; [exact I|]. apply (K dir P Ph).
Qed.

Lemma dir_step_removed_mono keep c a0 a1 p removed fs removed' fs' d :
  dir_step keep c a0 a1 p removed fs = Ok (removed', fs') -> In d removed -> In d removed'.
Proof.
  intros H I. destruct (dir_step_cases _ _ _ _ _ _ _ _ _ H) as [[-> _]|[[-> _]|[dir [_ [_ [_ [_ [-> _]]]]]]]]; auto; right; exact I.
Qed.

(* what has been noted as removed really is not there any more *)
Definition fs_inv (removed : list (option str)) (fs : list str) : Prop :=
  forall d, In (Some d) removed -> placeholder d = false -> forall x, under d x = true -> ~ In x fs.

Lemma dir_step_inv keep c a0 a1 p removed fs removed' fs' :
  fs_inv removed fs -> dir_step keep c a0 a1 p removed fs = Ok (removed', fs') ->
  fs_inv removed' fs' /\
  (keep = false -> forall dir, product_dir c a0 p = Some dir -> placeholder dir = false ->
               forall x, under dir x = true -> ~ In x fs').
Proof.
  intros Inv H. destruct (dir_step_cases _ _ _ _ _ _ _ _ _ H) as [[-> [-> I]]|[[-> [-> K]]|[dir [P [Ph [I [N [-> ->]]]]]]]].
  - split; [exact Inv|]. intros Hk dir P Ph x U. destruct I as [I|[K _]]; [|congruence]. rewrite P in I. apply (Inv dir I Ph x U).
  - split.
    + intros d [E|I] Ph x U; [|apply (Inv d I Ph x U)].
      destruct K as [K|[dir [K1 K2]]]; [rewrite K in E; discriminate|].
      rewrite K1 in E. inversion E. subst. congruence.
    + intros _ dir P Ph. destruct K as [K|[dir' [K1 K2]]]; [rewrite K in P; discriminate|].
      rewrite K1 in P. inversion P. subst. congruence.
  - split.
    + intros d [E|I'] Ph' x U J; apply rmtree_In in J as [J1 J2].
      * inversion E. subst. congruence.
      * apply (Inv d I' Ph' x U J1).
    + intros _ dir' P' _ x U J. rewrite P in P'. inversion P'. subst. apply rmtree_In in J as [_ J]. congruence.
Qed.

Lemma dir_step_total keep c a0 a1 p removed fs :
  (forall dir, product_dir c a0 p = Some dir -> placeholder dir = false -> In (Some dir) removed \/ In dir fs) ->
  exists removed' fs', dir_step keep c a0 a1 p removed fs = Ok (removed', fs').
Proof.
  intro H. unfold dir_step. destruct (mem_odir (product_dir c a0 p) removed) eqn:M; [eauto|].
  destruct (product_dir c a0 p) as [dir|] eqn:P; [|eauto].
  destruct (placeholder dir) eqn:Ph; [eauto|].
  destruct (keep && in_use c a1 dir); [eauto|].
  destruct (H dir eq_refl Ph) as [I|I].
  - apply mem_odir_not_In in M. contradiction.
  - apply mem_str_In in I. rewrite I. eauto.
Qed.

(* ---------------------------------------------------------------- declarations *)

(* whatever the outcome, a declaration that is not one of those being removed is as before *)
Lemma destroy_decl_frame keep c a0 : forall ps removed st r st',
  destroy keep c a0 ps removed st = (r, st') -> NoDup ps -> all_real ps ->
  forall s n v f', ~ gone c (rdb st) ps s n v f' -> a_decl (rdb st') s n v f' = a_decl (rdb st) s n v f'.
Proof.
  induction ps as [|p ps IH]; intros removed st r st' H ND AR s n v f' NG.
  - cbn in H. inversion H. reflexivity.
  - destruct (AR p (or_introl eq_refl)) as [n1 [v1 ->]]. inversion ND as [|? ? Hnotin ND']. subst.
    destruct (destroy_inv _ _ _ _ _ _ _ _ _ _ H) as [[_ [_ ->]]|[s1 [rr [F [[e [_ [_ ->]]]|[removed' [fs' [_ Hrec]]]]]]]]; [reflexivity| |].
    + cbn [rdb]. rewrite a_decl_aapply.
      destruct (dkey_eqb (s, n, v, f') (s1, n1, v1, rc_flavor c)) eqn:E; [|rewrite andb_false_r; reflexivity].
      apply dkey_eqb_eq in E. inversion E. subst. exfalso. apply NG. split; [reflexivity|]. split; [left; reflexivity|].
      unfold home. rewrite F. reflexivity.
    + rewrite (IH _ _ _ _ Hrec ND' (all_real_tail _ _ AR) s n v f').
      * cbn [rdb]. rewrite a_decl_aapply.
        destruct (dkey_eqb (s, n, v, f') (s1, n1, v1, rc_flavor c)) eqn:E; [|rewrite andb_false_r; reflexivity].
        apply dkey_eqb_eq in E. inversion E. subst. exfalso. apply NG. split; [reflexivity|]. split; [left; reflexivity|].
        unfold home. rewrite F. reflexivity.
      * cbn [rdb]. intro G. apply NG. apply (gone_after _ _ _ _ _ _ _ _ _ _ Hnotin G).
Qed.

Lemma home_gives_decl c a n v s : home c a n v = Some s -> is_some (a_decl a s n v (rc_flavor c)) = true.
Proof. intro H. apply is_some_true. apply (home_some _ _ _ _ _ H). Qed.

Lemma find_home c a n v s rr : find_exact a (apath a) n v (rc_flavor c) = Some (s, rr) -> home c a n v = Some s.
Proof. intro F. unfold home. rewrite F. reflexivity. Qed.

(* when the run completes, every declaration it was to remove is gone *)
Lemma destroy_decl_gone keep c a0 : forall ps removed st st',
  destroy keep c a0 ps removed st = (Ok tt, st') -> NoDup ps -> all_real ps ->
  forall s n v f', gone c (rdb st) ps s n v f' -> a_decl (rdb st') s n v f' = None.
Proof.
  induction ps as [|p ps IH]; intros removed st st' H ND AR s n v f' G.
  - destruct G as [_ [[] _]].
  - destruct (AR p (or_introl eq_refl)) as [n1 [v1 ->]]. inversion ND as [|? ? Hnotin ND']. subst.
    destruct (destroy_inv _ _ _ _ _ _ _ _ _ _ H) as [[_ [E _]]|[s1 [rr [F [[e [_ [E _]]]|[removed' [fs' [_ Hrec]]]]]]]];
      [discriminate|discriminate|].
    destruct (pair_eq_dec n v n1 v1) as [E|N].
    + inversion E. subst n1 v1. destruct G as [Hf [_ Hh]]. rewrite (find_home _ _ _ _ _ _ F) in Hh. inversion Hh. subst s1 f'.
      rewrite (destroy_decl_frame _ _ _ _ _ _ _ _ Hrec ND' (all_real_tail _ _ AR)).
      * cbn [rdb]. rewrite a_decl_aapply, dkey_eqb_refl, andb_true_r.
        rewrite (home_gives_decl _ _ _ _ _ (find_home _ _ _ _ _ _ F)). reflexivity.
      * intros [_ [I _]]. contradiction.
    + apply (IH _ _ _ Hrec ND' (all_real_tail _ _ AR)). cbn [rdb]. apply gone_before; assumption.
Qed.

(* ---------------------------------------------------------------- tags *)

Lemma tag_points_true a s1 n1 f v1 s n t f' :
  tag_points a s1 n1 f v1 (s, n, t, f') = true <-> s = s1 /\ n = n1 /\ f' = f /\ a_tag a s n t f' = Some v1.
Proof.
  unfold tag_points. rewrite !andb_true_iff, !str_eqb_eq, opt_str_eqb_true. tauto.
Qed.

(* whatever the outcome, a tag assignment whose version is not being removed is as before;
   in particular no assignment appears *)
Lemma destroy_tag_frame keep c a0 : forall ps removed st r st',
  destroy keep c a0 ps removed st = (r, st') -> NoDup ps -> all_real ps ->
  forall s n t f', (forall v, a_tag (rdb st) s n t f' = Some v -> ~ gone c (rdb st) ps s n v f') ->
  a_tag (rdb st') s n t f' = a_tag (rdb st) s n t f'.
Proof.
  induction ps as [|p ps IH]; intros removed st r st' H ND AR s n t f' NG.
  - cbn in H. inversion H. reflexivity.
  - destruct (AR p (or_introl eq_refl)) as [n1 [v1 ->]]. inversion ND as [|? ? Hnotin ND']. subst.
    assert (Step : forall s1 rr, find_exact (rdb st) (apath (rdb st)) n1 v1 (rc_flavor c) = Some (s1, rr) ->
              a_tag (aapply (ADelDecl s1 n1 v1 (rc_flavor c)) (rdb st)) s n t f' = a_tag (rdb st) s n t f').
    { intros s1 rr F. rewrite a_tag_aapply.
      destruct (tag_points (rdb st) s1 n1 (rc_flavor c) v1 (s, n, t, f')) eqn:E; [|rewrite andb_false_r; reflexivity].
      apply tag_points_true in E as [-> [-> [-> E]]]. exfalso. apply (NG v1 E).
      split; [reflexivity|]. split; [left; reflexivity|]. apply (find_home _ _ _ _ _ _ F). }
    destruct (destroy_inv _ _ _ _ _ _ _ _ _ _ H) as [[_ [_ ->]]|[s1 [rr [F [[e [_ [_ ->]]]|[removed' [fs' [_ Hrec]]]]]]]]; [reflexivity| |].
    + cbn [rdb]. apply (Step s1 rr F).
    + rewrite (IH _ _ _ _ Hrec ND' (all_real_tail _ _ AR) s n t f').
      * cbn [rdb]. apply (Step s1 rr F).
      * cbn [rdb]. rewrite (Step s1 rr F). intros v E G. apply (NG v E). apply (gone_after _ _ _ _ _ _ _ _ _ _ Hnotin G).
Qed.

(* when the run completes, the tags that named a removed declaration are gone *)
Lemma destroy_tag_gone keep c a0 : forall ps removed st st',
  destroy keep c a0 ps removed st = (Ok tt, st') -> NoDup ps -> all_real ps ->
  forall s n t f' v, a_tag (rdb st) s n t f' = Some v -> gone c (rdb st) ps s n v f' ->
  a_tag (rdb st') s n t f' = None.
Proof.
  induction ps as [|p ps IH]; intros removed st st' H ND AR s n t f' v E G.
  - destruct G as [_ [[] _]].
  - destruct (AR p (or_introl eq_refl)) as [n1 [v1 ->]]. inversion ND as [|? ? Hnotin ND']. subst.
    destruct (destroy_inv _ _ _ _ _ _ _ _ _ _ H) as [[_ [E' _]]|[s1 [rr [F [[e [_ [E' _]]]|[removed' [fs' [_ Hrec]]]]]]]];
      [discriminate|discriminate|].
    set (a1 := aapply (ADelDecl s1 n1 v1 (rc_flavor c)) (rdb st)) in *.
    destruct (a_tag a1 s n t f') as [v'|] eqn:E1.
    + (* the assignment survived this step: it is the same and still doomed *)
      assert (E1' : a_tag a1 s n t f' = a_tag (rdb st) s n t f').
      { unfold a1. rewrite a_tag_aapply. unfold a1 in E1. rewrite a_tag_aapply in E1.
        destruct (is_some (a_decl (rdb st) s1 n1 v1 (rc_flavor c)) && tag_points (rdb st) s1 n1 (rc_flavor c) v1 (s, n, t, f'));
          [discriminate|reflexivity]. }
      assert (N : (n, v) <> (n1, v1)).
      { intro Q. inversion Q. subst n1 v1. unfold a1 in E1. rewrite a_tag_aapply in E1.
        destruct G as [Hf [_ Hh]]. rewrite (find_home _ _ _ _ _ _ F) in Hh. inversion Hh. subst s1 f'.
        rewrite (home_gives_decl _ _ _ _ _ (find_home _ _ _ _ _ _ F)) in E1. cbn [andb] in E1.
        rewrite (proj2 (tag_points_true _ _ _ _ _ _ _ _ _) (conj eq_refl (conj eq_refl (conj eq_refl E)))) in E1.
        discriminate. }
      apply (IH _ _ _ Hrec ND' (all_real_tail _ _ AR) s n t f' v).
      * cbn [rdb]. fold a1. rewrite E1'. exact E.
      * cbn [rdb]. apply gone_before; assumption.
    + rewrite (destroy_tag_frame _ _ _ _ _ _ _ _ Hrec ND' (all_real_tail _ _ AR) s n t f'); cbn [rdb]; fold a1; [exact E1|].
      intros v0 E0. rewrite E1 in E0. discriminate.
Qed.

(* ---------------------------------------------------------------- paths *)

Lemma destroy_fs_sub keep c a0 : forall ps removed st r st',
  destroy keep c a0 ps removed st = (r, st') -> all_real ps -> forall x, In x (rfs st') -> In x (rfs st).
Proof.
  induction ps as [|p ps IH]; intros removed st r st' H AR x I.
  - cbn in H. inversion H. subst. exact I.
  - destruct (AR p (or_introl eq_refl)) as [n1 [v1 ->]].
    destruct (destroy_inv _ _ _ _ _ _ _ _ _ _ H) as [[_ [_ ->]]|[s1 [rr [F [[e [_ [_ ->]]]|[removed' [fs' [D Hrec]]]]]]]]; [exact I|exact I|].
    apply (dir_step_fs_sub _ _ _ _ _ _ _ _ _ _ D). apply (IH _ _ _ _ Hrec (all_real_tail _ _ AR) x I).
Qed.

(* whatever the outcome, a path that lies in none of the directories of the products being removed stays *)
Lemma destroy_fs_keep keep c a0 : forall ps removed st r st',
  destroy keep c a0 ps removed st = (r, st') -> all_real ps ->
  forall x, In x (rfs st) ->
  (forall p dir, In p ps -> product_dir c a0 p = Some dir -> placeholder dir = false -> under dir x = false) ->
  In x (rfs st').
Proof.
  induction ps as [|p ps IH]; intros removed st r st' H AR x I K.
  - cbn in H. inversion H. subst. exact I.
  - destruct (AR p (or_introl eq_refl)) as [n1 [v1 ->]].
    destruct (destroy_inv _ _ _ _ _ _ _ _ _ _ H) as [[_ [_ ->]]|[s1 [rr [F [[e [_ [_ ->]]]|[removed' [fs' [D Hrec]]]]]]]]; [exact I|exact I|].
    apply (IH _ _ _ _ Hrec (all_real_tail _ _ AR) x).
    + cbn [rfs]. apply (dir_step_fs_keep _ _ _ _ _ _ _ _ _ _ D I). intros dir P Ph. apply (K _ dir (or_introl eq_refl) P Ph).
    + intros p dir Ip. apply K. right. exact Ip.
Qed.

(* when the run completes, nothing is left in the directories of the removed products *)
Lemma destroy_fs_gone c a0 : forall ps removed st st',
  destroy false c a0 ps removed st = (Ok tt, st') -> all_real ps -> fs_inv removed (rfs st) ->
  forall p dir x, In p ps -> product_dir c a0 p = Some dir -> placeholder dir = false -> under dir x = true ->
  ~ In x (rfs st').
Proof.
  induction ps as [|p ps IH]; intros removed st st' H AR Inv q dir x Iq P Ph U.
  - destruct Iq.
  - destruct (AR p (or_introl eq_refl)) as [n1 [v1 ->]].
    destruct (destroy_inv _ _ _ _ _ _ _ _ _ _ H) as [[_ [E' _]]|[s1 [rr [F [[e [_ [E' _]]]|[removed' [fs' [D Hrec]]]]]]]];
      [discriminate|discriminate|].
    destruct (dir_step_inv _ _ _ _ _ _ _ _ _ Inv D) as [Inv' Hd].
    destruct Iq as [<-|Iq].
    + intro J. apply (destroy_fs_sub _ _ _ _ _ _ _ _ Hrec (all_real_tail _ _ AR)) in J. cbn [rfs] in J.
      apply (Hd eq_refl dir P Ph x U J).
    + apply (IH _ _ _ Hrec (all_real_tail _ _ AR) Inv' q dir x Iq P Ph U).
Qed.

(* ---------------------------------------------------------------- completion *)

(* the run completes when every product is (still) declared and every real directory is there,
   the directories of the products being removed not lying strictly inside one another *)
Lemma destroy_total keep c a0 : forall ps removed st,
  NoDup ps -> all_real ps ->
  (forall n v, In (n, Some v, true) ps -> find_exact (rdb st) (apath (rdb st)) n v (rc_flavor c) <> None) ->
  (forall p dir, In p ps -> product_dir c a0 p = Some dir -> placeholder dir = false ->
                 In (Some dir) removed \/ In dir (rfs st)) ->
  (forall p q dp dq, In p ps -> In q ps -> product_dir c a0 p = Some dp -> product_dir c a0 q = Some dq ->
                     placeholder dp = false -> placeholder dq = false -> under dp dq = true -> dp = dq) ->
  exists st', destroy keep c a0 ps removed st = (Ok tt, st').
Proof.
  induction ps as [|p ps IH]; intros removed st ND AR Hd Hdir Hnest.
  - exists st. reflexivity.
  - destruct (AR p (or_introl eq_refl)) as [n1 [v1 ->]]. inversion ND as [|? ? Hnotin ND']. subst.
    cbn [destroy]. unfold nname, nver. cbn [fst snd]. rewrite undeclare_some.
    destruct (find_exact (rdb st) (apath (rdb st)) n1 v1 (rc_flavor c)) as [[s1 rr]|] eqn:F;
      [|exfalso; apply (Hd n1 v1 (or_introl eq_refl) F)].
    destruct (dir_step_total keep c a0 (aapply (ADelDecl s1 n1 v1 (rc_flavor c)) (rdb st)) (n1, Some v1, true) removed (rfs st)) as [removed' [fs' D]].
    { intros dir P Ph. apply (Hdir _ dir (or_introl eq_refl) P Ph). }
    rewrite D. apply IH; [exact ND'|apply (all_real_tail _ _ AR)| | |].
    + intros n v I. cbn [rdb]. rewrite apath_aapply.
      rewrite (find_exact_agree (rdb st)); [apply Hd; right; exact I|].
      intros s _. rewrite a_decl_aapply.
      assert (N : (n, v) <> (n1, v1)) by (intro E; inversion E; subst; contradiction).
      rewrite (dkey_neq_nv _ _ _ _ _ _ _ _ N), andb_false_r. reflexivity.
    + intros q dq Iq Pq Phq. cbn [rfs].
      destruct (Hdir q dq (or_intror Iq) Pq Phq) as [I|I].
      * left. apply (dir_step_removed_mono _ _ _ _ _ _ _ _ _ _ D I).
      * destruct (dir_step_cases _ _ _ _ _ _ _ _ _ D) as [[-> [-> _]]|[[-> [-> _]]|[dir [P [Ph [_ [_ [-> ->]]]]]]]]; auto.
        destruct (under dir dq) eqn:U.
        -- left. left. f_equal. apply (Hnest (n1, Some v1, true) q dir dq); auto. left. reflexivity. right. exact Iq.
        -- right. apply rmtree_In. auto.
    + intros p q dp dq Ip Iq. apply Hnest; right; assumption.
Qed.

(* ---------------------------------------------------------------- directories that are still lived in *)

Lemma in_use_true c a dir :
  in_use c a dir = true <->
  exists s n v f r, In s (apath a) /\ In f (fallbacks (rc_flavor c)) /\ a_decl a s n v f = Some r /\
                    placeholder (fst r) = false /\ under dir (fst r) = true.
Proof.
  unfold in_use. rewrite existsb_exists. split.
  - intros [[[[[s n] v] f] r0] [I H]]. cbn [fst] in H. apply andb_true_iff in H as [H H3]. apply andb_true_iff in H as [H1 H2].
    destruct (a_decl a s n v f) as [r|] eqn:E; [|discriminate]. apply andb_true_iff in H3 as [H3 H4].
    apply negb_true_iff in H3. apply mem_str_In in H1, H2. exists s, n, v, f, r. auto.
  - intros [s [n [v [f [r [Is [If [E [Ph U]]]]]]]]]. exists ((s, n, v, f), r). split.
    + unfold a_decl in E. apply (glookup_In dkey_eqb dkey_eqb_eq) in E. exact E.
    + cbn [fst]. rewrite E, Ph, U. rewrite (proj2 (mem_str_In _ _) Is), (proj2 (mem_str_In _ _) If). reflexivity.
Qed.

Lemma dir_step_in_use c a0 a1 p removed fs removed' fs' dir :
  dir_step true c a0 a1 p removed fs = Ok (removed', fs') ->
  product_dir c a0 p = Some dir -> placeholder dir = false -> in_use c a1 dir = true -> fs' = fs.
Proof.
  unfold dir_step. intros H P Ph U. rewrite P in H. destruct (mem_odir (Some dir) removed); [inversion H; reflexivity|].
  rewrite Ph, U in H. cbn [andb] in H. inversion H. reflexivity.
Qed.

(* a declaration that is there, that Eups._findDeclarations sees, and that is not one of those being removed,
   protects its directory and every directory that holds it *)
Definition protects (c : rconf) (a : adb) (ps : list node) (dir : str) : Prop :=
  exists s n v f r, In s (apath a) /\ In f (fallbacks (rc_flavor c)) /\ a_decl a s n v f = Some r /\
                    placeholder (fst r) = false /\ under dir (fst r) = true /\ ~ gone c a ps s n v f.

(* with the fix: a path stays when every directory of a removed product that holds it is protected *)
Lemma destroy_fs_protected c a0 : forall ps removed st r st',
  destroy true c a0 ps removed st = (r, st') -> NoDup ps -> all_real ps ->
  forall x, In x (rfs st) ->
  (forall p dir, In p ps -> product_dir c a0 p = Some dir -> placeholder dir = false -> under dir x = true ->
                 protects c (rdb st) ps dir) ->
  In x (rfs st').
Proof.
  induction ps as [|p ps IH]; intros removed st r st' H ND AR x I K.
  - cbn in H. inversion H. subst. exact I.
  - destruct (AR p (or_introl eq_refl)) as [n1 [v1 ->]]. inversion ND as [|? ? Hnotin ND']. subst.
    destruct (destroy_inv _ _ _ _ _ _ _ _ _ _ H) as [[_ [_ ->]]|[s1 [rr [F [[e [_ [_ ->]]]|[removed' [fs' [D Hrec]]]]]]]]; [exact I|exact I|].
    set (a' := aapply (ADelDecl s1 n1 v1 (rc_flavor c)) (rdb st)) in *.
    (* what protects a directory before the step protects it afterwards *)
    assert (Keep : forall dir, protects c (rdb st) ((n1, Some v1, true) :: ps) dir -> protects c a' ps dir).
    { intros dir [s [n [v [f [r0 [Is [If [E [Ph [U NG]]]]]]]]]]. exists s, n, v, f, r0.
      split; [unfold a'; rewrite apath_aapply; exact Is|]. split; [exact If|]. split.
      - unfold a'. rewrite a_decl_aapply.
        destruct (dkey_eqb (s, n, v, f) (s1, n1, v1, rc_flavor c)) eqn:Ek; [|rewrite andb_false_r; exact E].
        apply dkey_eqb_eq in Ek. inversion Ek. subst. exfalso. apply NG. split; [reflexivity|]. split; [left; reflexivity|].
        apply (find_home _ _ _ _ _ _ F).
      - split; [exact Ph|]. split; [exact U|]. intro G. apply NG. apply (gone_after _ _ _ _ _ _ _ _ _ _ Hnotin G). }
    apply (IH _ _ _ _ Hrec ND' (all_real_tail _ _ AR) x).
    + cbn [rfs].
      destruct (product_dir c a0 (n1, Some v1, true)) as [dir|] eqn:P.
      * destruct (placeholder dir) eqn:Ph.
        -- apply (dir_step_fs_keep _ _ _ _ _ _ _ _ _ _ D I). intros dir' P' Ph'. rewrite P in P'. inversion P'. subst. congruence.
        -- destruct (under dir x) eqn:U.
           ++ assert (Pr : protects c a' ps dir) by (apply Keep, (K _ dir (or_introl eq_refl) P Ph U)).
              destruct Pr as [s [n [v [f [r0 [Is [If [E [Ph0 [U0 _]]]]]]]]]].
              assert (IU : in_use c a' dir = true) by (apply in_use_true; exists s, n, v, f, r0; auto).
              rewrite (dir_step_in_use _ _ _ _ _ _ _ _ _ D P Ph IU). exact I.
           ++ apply (dir_step_fs_keep _ _ _ _ _ _ _ _ _ _ D I). intros dir' P' _. rewrite P in P'. inversion P'. subst. exact U.
      * apply (dir_step_fs_keep _ _ _ _ _ _ _ _ _ _ D I). intros dir' P'. rewrite P in P'. discriminate.
    + intros q dir Iq Pq Phq Uq. cbn [rdb]. apply Keep. apply (K q dir (or_intror Iq) Pq Phq Uq).
Qed.
