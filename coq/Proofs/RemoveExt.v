(* The whole eups remove command ([remove_x], [eups_remove] of Model/RemoveExt.v): the questions select a
   sub-list of the removal list, the destruction of Model/Remove.v runs on that sub-list, and the
   theorems of Proofs/RemoveMain.v are lifted to two worlds (what _remove walks, what Eups.uses reads),
   any product set aside by the in-use check, and any answers. *)
From Coq Require Import Lia.
From Eupsv Require Import Base.Base Base.BaseLemmas Model.Graph Model.Db Model.Remove Model.RemoveExt
     Proofs.GraphLib Proofs.GraphWalk Proofs.GraphListing Proofs.GraphOrder
     Proofs.DbLib Proofs.Db Proofs.DbInv Proofs.RemoveLib Proofs.RemoveDestroy Proofs.RemoveCollect Proofs.RemoveMain.

(* ---------------------------------------------------------------- questions *)

Lemma destroy_i_false keep c a0 : forall ps d ans removed st,
  destroy_i keep c a0 false ps d ans removed st = destroy keep c a0 ps removed st.
Proof.
  induction ps as [|p ps IH]; intros d ans removed st; [reflexivity|]. cbn [destroy_i destroy].
  destruct (undeclare c (rdb st) (nname p) (nver p)) as [a'|e]; [|reflexivity].
  destruct (dir_step keep c a0 a' p removed (rfs st)) as [[removed' fs']|e]; [|reflexivity]. apply IH.
Qed.

(* how the questioning ends, on top of what the destruction of the selected products returned *)
Definition finish (e : ending) (r : res unit * rstate) : res unit * rstate :=
  match r with
  | (Ok _, s) => (match e with Eof => Err Undefined | _ => Ok tt end, s)
  | (Err x, s) => (Err x, s)
  end.

(* asking while destroying = destroying what the answers select *)
Lemma destroy_i_select keep c a0 i : forall ps d ans removed st,
  destroy_i keep c a0 i ps d ans removed st =
  finish (snd (select i ps d ans)) (destroy keep c a0 (fst (select i ps d ans)) removed st).
Proof.
  induction ps as [|p ps IH]; intros d ans removed st; [reflexivity|].
  cbn [destroy_i select].
  destruct (if i then prompt d ans else (VYes, d, ans)) as [[vd d'] ans'].
  destruct vd.
  - destruct (select i ps d' ans') as [l e] eqn:S. cbn [fst snd destroy].
    destruct (undeclare c (rdb st) (nname p) (nver p)) as [a'|x]; [|reflexivity].
    destruct (dir_step keep c a0 a' p removed (rfs st)) as [[removed' fs']|x]; [|reflexivity].
    rewrite IH, S. reflexivity.
  - apply IH.
  - reflexivity.
  - reflexivity.
Qed.

Lemma select_incl i : forall ps d ans x, In x (fst (select i ps d ans)) -> In x ps.
Proof.
  induction ps as [|p ps IH]; intros d ans x; [intros []|]. cbn [select].
  destruct (if i then prompt d ans else (VYes, d, ans)) as [[vd d'] ans'].
  destruct vd; cbn [fst]; try (intros []).
  - destruct (select i ps d' ans') as [l e] eqn:S. cbn [fst]. intros [<-|I]; [left; reflexivity|].
    right. apply (IH d' ans'). rewrite S. exact I.
  - intro I. right. apply (IH d' ans' x I).
Qed.

Lemma select_NoDup i : forall ps d ans, NoDup ps -> NoDup (fst (select i ps d ans)).
Proof.
  induction ps as [|p ps IH]; intros d ans ND; [constructor|]. cbn [select]. inversion ND as [|? ? Hn ND']. subst.
  destruct (if i then prompt d ans else (VYes, d, ans)) as [[vd d'] ans'].
  destruct vd; cbn [fst]; try constructor.
  - destruct (select i ps d' ans') as [l e] eqn:S. cbn [fst]. constructor.
    + intro I. apply Hn. apply (select_incl i ps d' ans'). rewrite S. exact I.
    + specialize (IH d' ans' ND'). rewrite S in IH. exact IH.
  - apply IH, ND'.
Qed.

Lemma select_all i : forall ps d ans, i = false -> select i ps d ans = (ps, Done).
Proof.
  intros ps d ans ->. revert d ans. induction ps as [|p ps IH]; intros d ans; [reflexivity|].
  cbn [select]. rewrite IH. reflexivity.
Qed.

(* a product about which nothing was asked, or the answer was n, or the questioning had ended, is not
   selected; every selected one is on the list: stated as inclusion above.  After ! everything left is
   selected: *)
Lemma select_after_all : forall ps ans, select true ps ans_all ans = (ps, Done).
Proof.
  induction ps as [|p ps IH]; intros ans; [reflexivity|]. cbn [select]. unfold prompt.
  replace (str_eqb ans_all ans_all) with true by reflexivity. rewrite IH. reflexivity.
Qed.

(* ---------------------------------------------------------------- the collection, any product set aside *)

Section AnyTop.
  Variables (chk : bool) (w : world) (idx : list ((str * str) * list entry)) (c : rconf) (top : option (str * str)).

  Lemma listed_iff_asked_g fuel n v recursive l s' :
    wf_world w -> default_undeclared w c -> declared w n v = true ->
    collect true true chk w idx c top fuel [] n (Some v) recursive = Ok (l, s') ->
    forall q, In q (uniq_nodes l) <-> asked w n v recursive q.
  Proof.
    intros Hwf Hdef D H q. rewrite uniq_nodes_In, (asked_dpath _ _ _ _ _ Hwf D).
    apply (collect_exact chk w idx c top Hwf Hdef _ _ _ _ _ _ H D).
  Qed.

  Lemma listed_real_g fuel n v recursive l s' :
    wf_world w -> default_undeclared w c -> declared w n v = true ->
    collect true true chk w idx c top fuel [] n (Some v) recursive = Ok (l, s') ->
    all_real (uniq_nodes l) /\ forall q, In q (uniq_nodes l) -> dnode w q.
  Proof.
    intros Hwf Hdef D H.
    assert (K : forall q, In q (uniq_nodes l) -> dnode w q).
    { intros q I. apply (proj1 (uniq_nodes_In _ _)) in I. apply (collect_listed_dnode chk w idx c top Hwf Hdef _ _ _ _ _ _ _ H D I). }
    split; [|exact K]. intros q I. destruct (dnode_shape _ _ (K q I)) as [n' [v' [-> _]]]. exists n', v'. reflexivity.
  Qed.
End AnyTop.

(* ---------------------------------------------------------------- the two phases of remove_x *)

Definition the_top (xall : bool) (c : rconf) (st : rstate) (k : rcall) : option (str * str) :=
  top_of xall c (rdb st) (k_name k) (k_version k) (k_check k).

Lemma remove_x_inv xall keep fuel ww wu c st k answers res st' :
  remove_x xall keep fuel ww wu c st k answers = (res, st') ->
  exists idx, (if k_check k then uses_index fuel wu = Ok idx \/ (exists e, uses_index fuel wu = Err e /\ res = Err e /\ st' = st)
               else idx = []) /\
    ((exists e, res = Err e /\ st' = st /\
        (collect true true (k_check k) ww idx c (the_top xall c st k) fuel [] (k_name k) (Some (k_version k)) (k_recursive k) = Err e \/
         (k_check k = true /\ uses_index fuel wu = Err e))) \/
     (exists l s', collect true true (k_check k) ww idx c (the_top xall c st k) fuel [] (k_name k) (Some (k_version k)) (k_recursive k) = Ok (l, s') /\
                   destroy_i keep c (rdb st) (k_interactive k) (uniq_nodes l) ans_y answers [] st = (res, st'))).
Proof.
  unfold remove_x, the_top. destruct (k_check k).
  - destruct (uses_index fuel wu) as [idx|e] eqn:U.
    + intro H. exists idx. split; [left; reflexivity|].
      match type of H with context [match ?X with Ok _ => _ | Err _ => _ end] => destruct X as [[l s']|e] eqn:K end.
      * right. exists l, s'. auto.
      * left. exists e. inversion H. auto.
    + intro H. exists []. inversion H. subst. split; [right; exists e; auto|]. left. exists e. auto.
  - intro H. exists []. split; [reflexivity|].
    match type of H with context [match ?X with Ok _ => _ | Err _ => _ end] => destruct X as [[l s']|e] eqn:K end.
    + right. exists l, s'. auto.
    + left. exists e. inversion H. auto.
Qed.

(* the heart: either nothing was touched, or the destruction of Model/Remove.v ran on what the answers
   selected from a duplicate-free list of exactly the asked products *)
Lemma remove_x_core xall keep fuel ww wu c st k answers res st' :
  wf_world ww -> default_undeclared ww c -> declared ww (k_name k) (k_version k) = true ->
  remove_x xall keep fuel ww wu c st k answers = (res, st') ->
  (exists e, res = Err e /\ st' = st) \/
  exists order, NoDup order /\ all_real order /\
    (forall q, In q order <-> asked ww (k_name k) (k_version k) (k_recursive k) q) /\
    (forall q, In q order -> dnode ww q) /\
    exists r0, destroy keep c (rdb st) (fst (select (k_interactive k) order ans_y answers)) [] st = (r0, st') /\
               res = match r0 with
                     | Ok _ => match snd (select (k_interactive k) order ans_y answers) with Eof => Err Undefined | _ => Ok tt end
                     | Err x => Err x
                     end.
Proof.
  intros Hwf Hdef D H.
  destruct (remove_x_inv _ _ _ _ _ _ _ _ _ _ _ H) as [idx [_ [[e [E1 [E2 _]]]|[l [s' [K Hd]]]]]]; [left; eauto|].
  right. exists (uniq_nodes l).
  destruct (listed_real_g _ _ _ _ _ _ _ _ _ _ _ Hwf Hdef D K) as [AR DN].
  split; [apply uniq_nodes_NoDup|]. split; [exact AR|].
  split; [apply (listed_iff_asked_g _ _ _ _ _ _ _ _ _ _ _ Hwf Hdef D K)|]. split; [exact DN|].
  rewrite destroy_i_select in Hd.
  destruct (destroy keep c (rdb st) (fst (select (k_interactive k) (uniq_nodes l) ans_y answers)) [] st) as [r0 s0] eqn:Ed.
  exists r0. unfold finish in Hd. destruct r0 as [u|x]; inversion Hd; subst; auto.
Qed.

Lemma all_real_incl (l l' : list node) : (forall x, In x l -> In x l') -> all_real l' -> all_real l.
Proof. intros H A p I. apply A, H, I. Qed.

(* ---------------------------------------------------------------- frame, for every outcome and all answers *)

Theorem remove_x_frame xall keep fuel ww wu c st k answers res st' :
  wf_world ww -> default_undeclared ww c -> declared ww (k_name k) (k_version k) = true ->
  remove_x xall keep fuel ww wu c st k answers = (res, st') ->
  (forall s n' v' f', ~ doomed ww c (rdb st) (k_name k) (k_version k) (k_recursive k) s n' v' f' ->
     a_decl (rdb st') s n' v' f' = a_decl (rdb st) s n' v' f') /\
  (forall s n' t f', (forall v', a_tag (rdb st) s n' t f' = Some v' ->
                                 ~ doomed ww c (rdb st) (k_name k) (k_version k) (k_recursive k) s n' v' f') ->
     a_tag (rdb st') s n' t f' = a_tag (rdb st) s n' t f') /\
  (forall x, In x (rfs st') -> In x (rfs st)) /\
  (forall x, In x (rfs st) ->
     (forall q dir, asked ww (k_name k) (k_version k) (k_recursive k) q -> product_dir c (rdb st) q = Some dir ->
                    placeholder dir = false -> under dir x = false) ->
     In x (rfs st')).
Proof.
  intros Hwf Hdef D H.
  destruct (remove_x_core _ _ _ _ _ _ _ _ _ _ _ Hwf Hdef D H) as [[e [_ ->]]|[order [ND [AR [LA [_ [r0 [Hd _]]]]]]]].
  - repeat split; auto.
  - set (sel := fst (select (k_interactive k) order ans_y answers)) in *.
    assert (Inc : forall x, In x sel -> In x order) by (intros x; apply select_incl).
    assert (NDs : NoDup sel) by (apply select_NoDup, ND).
    assert (ARs : all_real sel) by (apply (all_real_incl _ _ Inc AR)).
    assert (G : forall s n' v' f', gone c (rdb st) sel s n' v' f' ->
                  doomed ww c (rdb st) (k_name k) (k_version k) (k_recursive k) s n' v' f').
    { intros s n' v' f' [Hf [I Hh]]. split; [exact Hf|]. split; [apply LA, Inc, I|exact Hh]. }
    split; [|split; [|split]].
    + intros s n' v' f' N. apply (destroy_decl_frame _ _ _ _ _ _ _ _ Hd NDs ARs). intro X. apply N, G, X.
    + intros s n' t f' N. apply (destroy_tag_frame _ _ _ _ _ _ _ _ Hd NDs ARs). intros v' E X. apply (N v' E), G, X.
    + apply (destroy_fs_sub _ _ _ _ _ _ _ _ Hd ARs).
    + intros x I N. apply (destroy_fs_keep _ _ _ _ _ _ _ _ Hd ARs x I).
      intros p dir Ip. apply N. apply LA, Inc, Ip.
Qed.

Theorem remove_x_frame_dirs xall keep fuel ww wu c st k answers res st' s0 m u f0 rs :
  wf_world ww -> default_undeclared ww c -> declared ww (k_name k) (k_version k) = true -> wf_dirs (rdb st) ->
  remove_x xall keep fuel ww wu c st k answers = (res, st') ->
  a_decl (rdb st) s0 m u f0 = Some rs -> placeholder (fst rs) = false ->
  ~ doomed ww c (rdb st) (k_name k) (k_version k) (k_recursive k) s0 m u f0 ->
  forall x, under (fst rs) x = true -> (In x (rfs st') <-> In x (rfs st)).
Proof.
  intros Hwf Hdef D Hd H Es Ps Ns x Ux.
  destruct (remove_x_frame _ _ _ _ _ _ _ _ _ _ _ Hwf Hdef D H) as [_ [_ [F1 F2]]].
  split; [apply F1|]. intro I. apply (F2 x I). intros q dir Aq Pq Pd.
  apply (survivor_dir_apart ww c (rdb st) (k_name k) (k_version k) (k_recursive k) s0 m u f0 rs q dir x); assumption.
Qed.

(* ---------------------------------------------------------------- a completed run: exactly what the answers selected *)

Theorem remove_x_exact xall keep fuel ww wu c st k answers st' :
  wf_world ww -> default_undeclared ww c -> declared ww (k_name k) (k_version k) = true ->
  remove_x xall keep fuel ww wu c st k answers = (Ok tt, st') ->
  exists order, NoDup order /\
    (forall q, In q order <-> asked ww (k_name k) (k_version k) (k_recursive k) q) /\
    let sel := fst (select (k_interactive k) order ans_y answers) in
    (forall s n' v' f', gone c (rdb st) sel s n' v' f' -> a_decl (rdb st') s n' v' f' = None) /\
    (forall s n' v' f', ~ gone c (rdb st) sel s n' v' f' -> a_decl (rdb st') s n' v' f' = a_decl (rdb st) s n' v' f') /\
    (forall s n' t f' v', a_tag (rdb st) s n' t f' = Some v' -> gone c (rdb st) sel s n' v' f' ->
       a_tag (rdb st') s n' t f' = None) /\
    (forall s n' t f', (forall v', a_tag (rdb st) s n' t f' = Some v' -> ~ gone c (rdb st) sel s n' v' f') ->
       a_tag (rdb st') s n' t f' = a_tag (rdb st) s n' t f') /\
    (keep = false \/ wf_dirs (rdb st) ->
     forall x, In x (rfs st') <->
       In x (rfs st) /\
       ~ exists q dir, In q sel /\ product_dir c (rdb st) q = Some dir /\ placeholder dir = false /\ under dir x = true).
Proof.
  intros Hwf Hdef D H.
  destruct (remove_x_core _ _ _ _ _ _ _ _ _ _ _ Hwf Hdef D H) as [[e [E _]]|[order [ND [AR [LA [_ [r0 [Hd Er]]]]]]]]; [discriminate|].
  exists order. split; [exact ND|]. split; [exact LA|]. cbv zeta.
  set (sel := fst (select (k_interactive k) order ans_y answers)) in *.
  assert (Inc : forall x, In x sel -> In x order) by (intros x; apply select_incl).
  assert (NDs : NoDup sel) by (apply select_NoDup, ND).
  assert (ARs : all_real sel) by (apply (all_real_incl _ _ Inc AR)).
  destruct r0 as [[]|x]; [|discriminate].
  split; [|split; [|split; [|split]]].
  - apply (destroy_decl_gone _ _ _ _ _ _ _ Hd NDs ARs).
  - apply (destroy_decl_frame _ _ _ _ _ _ _ _ Hd NDs ARs).
  - intros s n' t f' v' E G. apply (destroy_tag_gone _ _ _ _ _ _ _ Hd NDs ARs s n' t f' v' E G).
  - apply (destroy_tag_frame _ _ _ _ _ _ _ _ Hd NDs ARs).
  - intros Hk x.
    assert (Hd0 : destroy false c (rdb st) sel [] st = (Ok tt, st')).
    { destruct keep; [|exact Hd]. destruct Hk as [Hk|Hk]; [discriminate|].
      rewrite <- (destroy_keep_irrelevant c (rdb st) Hk sel [] st NDs ARs); auto. }
    split.
    + intro I. split; [apply (destroy_fs_sub _ _ _ _ _ _ _ _ Hd ARs), I|]. intros [q [dir [Iq [Pq [Pd U]]]]].
      apply (destroy_fs_gone _ _ _ _ _ _ Hd0 ARs) with (p := q) (dir := dir) (x := x); auto.
      intros d [].
    + intros [I N]. apply (destroy_fs_keep _ _ _ _ _ _ _ _ Hd ARs x I). intros q dir Iq Pq Pd.
      destruct (under dir x) eqn:U; [|reflexivity]. exfalso. apply N. exists q, dir. auto.
Qed.

(* without questions everything asked is selected: the statement of removes_exactly over the extended state *)
Theorem remove_x_exact_plain xall keep fuel ww wu c st k answers st' :
  wf_world ww -> default_undeclared ww c -> declared ww (k_name k) (k_version k) = true ->
  k_interactive k = false ->
  remove_x xall keep fuel ww wu c st k answers = (Ok tt, st') ->
  let n := k_name k in let v := k_version k in let recursive := k_recursive k in
  (forall s n' v' f', doomed ww c (rdb st) n v recursive s n' v' f' -> a_decl (rdb st') s n' v' f' = None) /\
  (forall s n' v' f', ~ doomed ww c (rdb st) n v recursive s n' v' f' ->
     a_decl (rdb st') s n' v' f' = a_decl (rdb st) s n' v' f') /\
  (forall s n' t f' v', a_tag (rdb st) s n' t f' = Some v' -> doomed ww c (rdb st) n v recursive s n' v' f' ->
     a_tag (rdb st') s n' t f' = None) /\
  (forall s n' t f', (forall v', a_tag (rdb st) s n' t f' = Some v' -> ~ doomed ww c (rdb st) n v recursive s n' v' f') ->
     a_tag (rdb st') s n' t f' = a_tag (rdb st) s n' t f') /\
  (keep = false \/ wf_dirs (rdb st) ->
   forall x, In x (rfs st') <->
     In x (rfs st) /\
     ~ exists q dir, asked ww n v recursive q /\ product_dir c (rdb st) q = Some dir /\ placeholder dir = false /\
                     under dir x = true).
Proof.
  intros Hwf Hdef D Hi H. cbv zeta.
  destruct (remove_x_exact _ _ _ _ _ _ _ _ _ _ Hwf Hdef D H) as [order [_ [LA X]]]. cbv zeta in X.
  rewrite (select_all _ order ans_y answers Hi) in X. cbn [fst] in X.
  destruct X as [X1 [X2 [X3 [X4 X5]]]].
  assert (G : forall s n' v' f', gone c (rdb st) order s n' v' f' <->
                doomed ww c (rdb st) (k_name k) (k_version k) (k_recursive k) s n' v' f').
  { intros s n' v' f'. unfold gone, doomed. rewrite LA. tauto. }
  split; [|split; [|split; [|split]]].
  - intros s n' v' f' Hg. apply X1, G, Hg.
  - intros s n' v' f' Hn. apply X2. rewrite G. exact Hn.
  - intros s n' t f' v' E Hg. apply (X3 s n' t f' v' E). apply G, Hg.
  - intros s n' t f' Hn. apply X4. intros v' E. rewrite G. apply (Hn v' E).
  - intros Hk x. rewrite (X5 Hk). split; intros [I N]; (split; [exact I|]); intros [q [dir [Aq R]]]; apply N; exists q, dir;
      (split; [apply LA, Aq|exact R]).
Qed.

(* ---------------------------------------------------------------- refusals *)

Theorem remove_x_refusal_keeps_state xall keep fuel ww wu c st k answers st' :
  wf_world ww -> default_undeclared ww c -> declared ww (k_name k) (k_version k) = true ->
  remove_x xall keep fuel ww wu c st k answers = (Err Refused, st') -> st' = st.
Proof.
  intros Hwf Hdef D H.
  destruct (remove_x_core _ _ _ _ _ _ _ _ _ _ _ Hwf Hdef D H) as [[e [_ E]]|[order [ND [AR [LA [_ [r0 [Hd Er]]]]]]]]; [exact E|].
  exfalso. set (sel := fst (select (k_interactive k) order ans_y answers)) in *.
  assert (ARs : all_real sel) by (apply (all_real_incl _ order); [intros x; apply select_incl|exact AR]).
  destruct r0 as [[]|x].
  - destruct (snd (select (k_interactive k) order ans_y answers)); discriminate.
  - inversion Er. subst x. destruct (destroy_err _ _ _ _ _ _ _ _ Hd ARs); discriminate.
Qed.

(* two different members make a list longer than one *)
Lemma two_members {A} (l : list A) x y : In x l -> In y l -> x <> y -> 1 < length l.
Proof.
  destruct l as [|a [|b r]]; cbn; intros Ix Iy N; [contradiction| |lia].
  destruct Ix as [<-|[]]. destruct Iy as [<-|[]]. contradiction.
Qed.

Lemma decl_places_In c a n v s f :
  In (s, f) (decl_places c a n v) <-> In s (apath a) /\ In f (fallbacks (rc_flavor c)) /\ a_decl a s n v f <> None.
Proof.
  unfold decl_places. rewrite filter_In, in_prod_iff. cbn [fst snd]. rewrite is_some_true. tauto.
Qed.

(* With the in-use check, without force, with the fix: a product that would be deleted (d) is reached through
   the table files from a declaration (stack s, flavor f of un uv) that would remain - in whatever stack, for the
   running flavor or a fall-back flavor, and be it a second declaration of the very product named on the command
   line: the command is refused and nothing changes. *)
Theorem remove_x_refuses_when_needed keep fuel ww wu c st k answers idx d un uv s f :
  wf_world ww -> default_undeclared ww c -> declared ww (k_name k) (k_version k) = true ->
  coherent ww c (rdb st) ->
  length ww + 2 <= fuel -> length wu < fuel ->
  uses_index fuel wu = Ok idx -> rc_force c = false -> k_check k = true ->
  asked ww (k_name k) (k_version k) (k_recursive k) d ->
  In (un, uv) (map fst wu) -> reach_plus wu (pnode (un, uv)) d -> d <> pnode (un, uv) ->
  In (s, f) (decl_places c (rdb st) un uv) ->
  ~ doomed ww c (rdb st) (k_name k) (k_version k) (k_recursive k) s un uv f ->
  remove_x true keep fuel ww wu c st k answers = (Err Refused, st).
Proof.
  intros Hwf Hdef D Hco Hf Hfu Hu Hforce Hchk Ad Iu R Nd Ipl Ns.
  unfold remove_x. rewrite Hchk, Hu.
  set (top := top_of true c (rdb st) (k_name k) (k_version k) true).
  assert (Etop : top = top_of true c (rdb st) (k_name k) (k_version k) true) by reflexivity.
  assert (G : good true c (collect true true true ww idx c top fuel [] (k_name k) (Some (k_version k)) (k_recursive k))).
  { apply (collect_total true ww idx c top Hwf fuel [] (k_name k) (k_version k) (k_recursive k) D).
    - intros _ [].
    - destruct (k_recursive k); [|lia]. apply Nat.le_trans with (length ww + 2); [apply Nat.add_le_mono_r, unseen_nil|exact Hf]. }
  destruct (collect true true true ww idx c top fuel [] (k_name k) (Some (k_version k)) (k_recursive k)) as [[l s']|e] eqn:K.
  - exfalso.
    assert (Il : In d l).
    { apply (proj1 (uniq_nodes_In _ _)). apply (listed_iff_asked_g _ _ _ _ _ _ _ _ _ _ _ Hwf Hdef D K). exact Ad. }
    pose proof (collect_D _ _ _ _ _ _ _ _ _ _ _ _ K d Il) as Hc.
    destruct (users_total_ok idx (nname d) (nver d)) as [us [Eus _]].
    assert (Iu' : In (un, uv) (map cuser us)).
    { apply (uses_inverse_reach fuel wu idx (nname d) (nver d) us (un, uv)); [exact Hfu|exact Hu|exact Eus|].
      split; [exact Iu|]. exists d. split; [exact Nd|]. split; [exact R|].
      unfold matches. split; [reflexivity|]. destruct (nver d); reflexivity. }
    pose proof (check_passed_no_outside_user true idx c top d us eq_refl Hforce Hc Eus (un, uv) Iu') as E.
    (* the user is the product set aside: then it is declared once, at its home, which is doomed *)
    rewrite Etop in E. unfold top_of in E. cbn [andb] in E.
    destruct (Nat.ltb 1 (length (decl_places c (rdb st) (k_name k) (k_version k)))) eqn:L; [discriminate|].
    inversion E. subst un uv. apply Nat.ltb_ge in L.
    destruct (find_exact (rdb st) (apath (rdb st)) (k_name k) (k_version k) (rc_flavor c)) as [[s0 r0]|] eqn:F;
      [|exact (Hco _ _ D F)].
    destruct (find_exact_some _ _ _ _ _ _ _ F) as [Is0 Es0].
    assert (I0 : In (s0, rc_flavor c) (decl_places c (rdb st) (k_name k) (k_version k))).
    { apply decl_places_In. split; [exact Is0|]. split; [left; reflexivity|]. rewrite Es0. discriminate. }
    assert (Ne : (s, f) <> (s0, rc_flavor c)).
    { intro X. inversion X. subst. apply Ns. split; [reflexivity|]. split; [left; reflexivity|].
      unfold home. rewrite F. reflexivity. }
    pose proof (two_members _ _ _ Ipl I0 Ne). lia.
  - destruct G as [[a Eq]|[Eq _]]; [discriminate Eq|]. inversion Eq. reflexivity.
Qed.

(* ---------------------------------------------------------------- the extension is conservative *)

(* one declaration of the product named, no questions, one world: the command of Model/Remove.v *)
Theorem remove_x_is_remove_fixed xall keep fuel w c st n v recursive chk answers :
  (xall = true -> chk = true -> length (decl_places c (rdb st) n v) <= 1) ->
  remove_x xall keep fuel w w c st (mkCall n v recursive chk false) answers = remove true true keep fuel w c st n v recursive chk.
Proof.
  intro H. unfold remove_x, remove. cbn [k_name k_version k_recursive k_check k_interactive].
  assert (T : top_of xall c (rdb st) n v chk = Some (n, v)).
  { unfold top_of. destruct xall, chk; cbn [andb]; try reflexivity.
    specialize (H eq_refl eq_refl). apply Nat.ltb_ge in H. rewrite H. reflexivity. }
  rewrite T. destruct (if chk then uses_index fuel w else Ok []) as [idx|e]; [|reflexivity].
  destruct (collect true true chk w idx c (Some (n, v)) fuel [] n (Some v) recursive) as [[l s']|e]; [|reflexivity].
  apply destroy_i_false.
Qed.

(* ---------------------------------------------------------------- the front end *)

Theorem front_end_exact xall keep fuel ww wu flavor dp st o p v rest answers :
  eups_remove xall keep fuel ww wu flavor dp st o (p :: v :: rest) answers =
  Some (remove_x xall keep fuel ww wu (mkRC flavor dp (ro_force o)) st
          (mkCall p v (ro_recursive o) (negb (ro_nocheck o))
                  (match ro_interactive o with Some b => b | None => false end)) answers).
Proof. reflexivity. Qed.

Theorem front_end_usage xall keep fuel ww wu flavor dp st o args answers :
  length args < 2 -> eups_remove xall keep fuel ww wu flavor dp st o args answers = None.
Proof. destruct args as [|p [|v r]]; cbn [length]; intro H; [reflexivity|reflexivity|lia]. Qed.

(* ---------------------------------------------------------------- with the fix: the directory of a declaration that stays *)

(* no hypothesis about nesting: a path of the installation directory of a declaration that stays (one that
   Eups._findDeclarations sees: a stack of the path, the running flavor or a fall-back flavor) is touched only if it
   lies in the own directory of an asked product that does not hold the survivor's directory - that is, in a
   directory that was asked to be deleted and sits strictly inside the survivor's *)
Theorem remove_x_frame_dirs_kept xall fuel ww wu c st k answers res st' s0 m u f0 rs :
  wf_world ww -> default_undeclared ww c -> declared ww (k_name k) (k_version k) = true ->
  remove_x xall true fuel ww wu c st k answers = (res, st') ->
  a_decl (rdb st) s0 m u f0 = Some rs -> In s0 (apath (rdb st)) -> In f0 (fallbacks (rc_flavor c)) ->
  placeholder (fst rs) = false ->
  ~ doomed ww c (rdb st) (k_name k) (k_version k) (k_recursive k) s0 m u f0 ->
  forall x,
    (forall q dir, asked ww (k_name k) (k_version k) (k_recursive k) q -> product_dir c (rdb st) q = Some dir ->
                   placeholder dir = false -> under dir x = true -> under dir (fst rs) = true) ->
    (In x (rfs st') <-> In x (rfs st)).
Proof.
  intros Hwf Hdef D H Es Is If Ps Ns x Hx.
  destruct (remove_x_core _ _ _ _ _ _ _ _ _ _ _ Hwf Hdef D H) as [[e [_ ->]]|[order [ND [AR [LA [_ [r0 [Hd _]]]]]]]]; [tauto|].
  set (sel := fst (select (k_interactive k) order ans_y answers)) in *.
  assert (Inc : forall y, In y sel -> In y order) by (intros y; apply select_incl).
  assert (NDs : NoDup sel) by (apply select_NoDup, ND).
  assert (ARs : all_real sel) by (apply (all_real_incl _ _ Inc AR)).
  split; [apply (destroy_fs_sub _ _ _ _ _ _ _ _ Hd ARs)|].
  intro I. apply (destroy_fs_protected _ _ _ _ _ _ _ Hd NDs ARs x I).
  intros p dir Ip Pp Php Up. exists s0, m, u, f0, rs.
  split; [exact Is|]. split; [exact If|]. split; [exact Es|]. split; [exact Ps|].
  split; [apply (Hx p dir); auto; apply LA, Inc, Ip|].
  intros [Hf [Ig Hh]]. apply Ns. split; [exact Hf|]. split; [apply LA, Inc, Ig|exact Hh].
Qed.

(* in particular: when no asked product is installed strictly inside it, the whole directory is as before *)
Corollary remove_x_survivor_dir_whole xall fuel ww wu c st k answers res st' s0 m u f0 rs :
  wf_world ww -> default_undeclared ww c -> declared ww (k_name k) (k_version k) = true ->
  remove_x xall true fuel ww wu c st k answers = (res, st') ->
  a_decl (rdb st) s0 m u f0 = Some rs -> In s0 (apath (rdb st)) -> In f0 (fallbacks (rc_flavor c)) ->
  placeholder (fst rs) = false ->
  ~ doomed ww c (rdb st) (k_name k) (k_version k) (k_recursive k) s0 m u f0 ->
  (forall q dir, asked ww (k_name k) (k_version k) (k_recursive k) q -> product_dir c (rdb st) q = Some dir ->
                 placeholder dir = false -> under (fst rs) dir = true -> under dir (fst rs) = true) ->
  forall x, under (fst rs) x = true -> (In x (rfs st') <-> In x (rfs st)).
Proof.
  intros Hwf Hdef D H Es Is If Ps Ns Hn x Ux.
  apply (remove_x_frame_dirs_kept xall fuel ww wu c st k answers res st' s0 m u f0 rs); auto.
  intros q dir Aq Pq Pd Ud. destruct (under_comparable _ _ _ Ud Ux) as [K|K]; [exact K|].
  apply (Hn q dir Aq Pq Pd K).
Qed.
