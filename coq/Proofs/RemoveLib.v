(* Library lemmas for Model/Remove.v: path prefixes, rmtree, the undeclare transition on lookups. *)
From Coq Require Import Lia.
From Eupsv Require Import Base.Base Base.BaseLemmas Model.Graph Model.Db Model.Remove
     Proofs.GraphLib Proofs.DbLib Proofs.Db Proofs.DbInv.

(* ---------------------------------------------------------------- prefixes *)

Lemma starts_with_comparable a : forall b x,
  starts_with a x = true -> starts_with b x = true -> starts_with a b = true \/ starts_with b a = true.
Proof.
  induction a as [|c a IH]; intros b x Ha Hb; [left; reflexivity|].
  destruct b as [|d b]; [right; reflexivity|].
  destruct x as [|y x]; [discriminate|]. cbn in Ha, Hb |- *.
  destruct (ascii_eqb c y) eqn:E1; [|discriminate]. destruct (ascii_eqb d y) eqn:E2; [|discriminate].
  apply ascii_eqb_eq in E1, E2. subst. rewrite ascii_eqb_refl. apply (IH b x); assumption.
Qed.

Lemma starts_with_snoc c a : forall b,
  starts_with (a ++ [c]) (b ++ [c]) = true -> a = b \/ starts_with (a ++ [c]) b = true.
Proof.
  induction a as [|y a IH]; intros b H.
  - destruct b as [|x b]; [left; reflexivity|]. right. cbn in H |- *.
    destruct (ascii_eqb c x); [reflexivity|discriminate].
  - destruct b as [|x b]; cbn in H.
    + destruct (ascii_eqb y c); [|discriminate]. destruct a; discriminate.
    + cbn. destruct (ascii_eqb y x) eqn:E; [|discriminate]. apply ascii_eqb_eq in E. subst.
      destruct (IH b H) as [->|K]; [left; reflexivity|right; exact K].
Qed.

Lemma starts_with_trans a : forall b x, starts_with a b = true -> starts_with b x = true -> starts_with a x = true.
Proof.
  induction a as [|c a IH]; intros b x H1 H2; [reflexivity|].
  destruct b as [|d b]; [discriminate|]. destruct x as [|y x]; [discriminate|]. cbn in *.
  destruct (ascii_eqb c d) eqn:E1; [|discriminate]. destruct (ascii_eqb d y) eqn:E2; [|discriminate].
  apply ascii_eqb_eq in E1, E2. subst. rewrite ascii_eqb_refl. apply (IH b x); assumption.
Qed.

Lemma under_refl d : under d d = true.
Proof. unfold under. rewrite str_eqb_refl. reflexivity. Qed.

Lemma under_cases d p : under d p = true <-> p = d \/ starts_with (d ++ [slash]) p = true.
Proof. unfold under. rewrite orb_true_iff, str_eqb_eq. tauto. Qed.

(* two directories that hold a common path are nested one in the other *)
Lemma under_comparable d1 d2 p :
  under d1 p = true -> under d2 p = true -> under d1 d2 = true \/ under d2 d1 = true.
Proof.
  rewrite !under_cases. intros [->|H1] [E|H2].
  - subst. left. left. reflexivity.
  - right. right. exact H2.
  - subst. left. right. exact H1.
  - destruct (starts_with_comparable _ _ _ H1 H2) as [K|K].
    + destruct (starts_with_snoc _ _ _ K) as [->|K']; [left; left; reflexivity|]. left. right. exact K'.
    + destruct (starts_with_snoc _ _ _ K) as [->|K']; [left; left; reflexivity|]. right. right. exact K'.
Qed.

Lemma rmtree_In d fs x : In x (rmtree d fs) <-> In x fs /\ under d x = false.
Proof. unfold rmtree. rewrite filter_In, negb_true_iff. tauto. Qed.

(* ---------------------------------------------------------------- option directories *)

Lemma odir_eqb_eq a b : odir_eqb a b = true <-> a = b.
Proof.
  destruct a, b; cbn; try (split; congruence). rewrite str_eqb_eq. split; congruence.
Qed.

Lemma mem_odir_In d l : mem_odir d l = true <-> In d l.
Proof.
  unfold mem_odir. rewrite existsb_exists. split.
  - intros [x [I E]]. apply odir_eqb_eq in E. subst. exact I.
  - intro I. exists d. split; [exact I|]. apply odir_eqb_eq. reflexivity.
Qed.

Lemma mem_odir_not_In d l : mem_odir d l = false <-> ~ In d l.
Proof. rewrite <- mem_odir_In. destruct (mem_odir d l); split; congruence. Qed.

(* ---------------------------------------------------------------- the database side *)

Lemma find_exact_agree a a' roots n v f :
  (forall s, In s roots -> a_decl a' s n v f = a_decl a s n v f) ->
  find_exact a' roots n v f = find_exact a roots n v f.
Proof.
  induction roots as [|s0 rs IH]; intro H; cbn; [reflexivity|].
  rewrite (H s0 (or_introl eq_refl)). destruct (a_decl a s0 n v f); [reflexivity|].
  apply IH. intros s I. apply H. right. exact I.
Qed.

(* Eups.undeclare of an explicit version: the first stack on the path that declares it *)
Lemma undeclare_some c a n v :
  undeclare c a n (Some v) =
  match find_exact a (apath a) n v (rc_flavor c) with
  | Some (s, _) => Ok (aapply (ADelDecl s n v (rc_flavor c)) a)
  | None => Err NotFound
  end.
Proof.
  unfold undeclare, astep_gen. cbn [decide]. unfold undeclare_acts, undeclare_target.
  cbn [o_stack o_flavor o_noaction roots_of].
  destruct (find_exact a (apath a) n v (rc_flavor c)) as [[s r]|]; reflexivity.
Qed.

Lemma dkey_neq_nv s n v f s' n' v' f' : (n, v) <> (n', v') -> dkey_eqb (s, n, v, f) (s', n', v', f') = false.
Proof.
  intro N. apply (geqb_neq dkey_eqb dkey_eqb_eq). intro E. inversion E. subst. apply N. reflexivity.
Qed.

(* the stack whose declaration of (n, v) Eups.undeclare removes *)
Definition home (c : rconf) (a : adb) (n v : str) : option str :=
  match find_exact a (apath a) n v (rc_flavor c) with Some (s, _) => Some s | None => None end.

Lemma home_after_other c a s1 n1 v1 n v :
  (n, v) <> (n1, v1) -> home c (aapply (ADelDecl s1 n1 v1 (rc_flavor c)) a) n v = home c a n v.
Proof.
  intro N. unfold home. rewrite apath_aapply.
  rewrite (find_exact_agree a (aapply (ADelDecl s1 n1 v1 (rc_flavor c)) a)); [reflexivity|].
  intros s _. rewrite a_decl_aapply, (dkey_neq_nv _ _ _ _ _ _ _ _ N), andb_false_r. reflexivity.
Qed.

Lemma home_some c a n v s : home c a n v = Some s -> a_decl a s n v (rc_flavor c) <> None.
Proof.
  unfold home. destruct (find_exact a (apath a) n v (rc_flavor c)) as [[s' r]|] eqn:E; [|discriminate].
  intro H. inversion H. subst. apply find_exact_some in E as [_ E]. congruence.
Qed.

Lemma pair_eq_dec (n v n1 v1 : str) : {(n, v) = (n1, v1)} + {(n, v) <> (n1, v1)}.
Proof.
  destruct (str_eq_dec n n1) as [->|N]; [|right; intro E; inversion E; contradiction].
  destruct (str_eq_dec v v1) as [->|N]; [left; reflexivity|right; intro E; inversion E; contradiction].
Qed.
