(* Eups.remove with both fixes ([remove_fixed]): the property theorems of C14, assembled from the
   collection (Proofs/RemoveCollect.v) and the destruction (Proofs/RemoveDestroy.v). *)
From Coq Require Import Lia.
From Eupsv Require Import Base.Base Base.BaseLemmas Model.Graph Model.Db Model.Remove
     Proofs.GraphLib Proofs.GraphWalk Proofs.GraphListing Proofs.GraphOrder
     Proofs.DbLib Proofs.Db Proofs.DbInv Proofs.RemoveLib Proofs.RemoveDestroy Proofs.RemoveCollect.

(* what the command is asked to remove: the product named and, with recursive, every declared product
   that its table files reach (reach_plus of C13: one or more table lines, through declared products) *)
Definition asked (w : world) (n v : str) (recursive : bool) (q : node) : Prop :=
  q = (n, Some v, true) \/
  (recursive = true /\ reach_plus w (n, Some v, true) q /\ dnode w q).

(* the declaration (stack s, product n', version v', flavor f') is the one the command removes for an
   asked product: the first stack on the path that declares it, the flavor of the Eups instance *)
Definition doomed (w : world) (c : rconf) (a : adb) (n v : str) (recursive : bool) (s n' v' f' : str) : Prop :=
  f' = rc_flavor c /\ asked w n v recursive (n', Some v', true) /\ home c a n' v' = Some s.

Definition default_undeclared (w : world) (c : rconf) : Prop := forall v, declared w (rc_default c) v = false.

(* the world describes the database: what it calls declared can be found *)
Definition coherent (w : world) (c : rconf) (a : adb) : Prop :=
  forall n v, declared w n v = true -> find_exact a (apath a) n v (rc_flavor c) <> None.

(* installation directories of different declarations are pairwise non-nested (in particular different) *)
Definition wf_dirs (a : adb) : Prop :=
  forall s1 n1 v1 f1 r1 s2 n2 v2 f2 r2,
    a_decl a s1 n1 v1 f1 = Some r1 -> a_decl a s2 n2 v2 f2 = Some r2 ->
    (s1, n1, v1, f1) <> (s2, n2, v2, f2) ->
    placeholder (fst r1) = false -> placeholder (fst r2) = false ->
    under (fst r1) (fst r2) = false.

(* the first stack that declares a version is the same in a database and in one that holds it *)
Lemma find_exact_sub a a0 n v f : forall roots s1 rr s0 r0,
  (forall s r, a_decl a s n v f = Some r -> a_decl a0 s n v f = Some r) ->
  find_exact a roots n v f = Some (s1, rr) -> find_exact a0 roots n v f = Some (s0, r0) ->
  a_decl a s0 n v f <> None -> s1 = s0.
Proof.
  induction roots as [|s roots IH]; intros s1 rr s0 r0 Hs F F0 N; cbn in F, F0; [discriminate|].
  destruct (a_decl a s n v f) as [x|] eqn:E.
  - rewrite (Hs s x E) in F0. inversion F. inversion F0. subst. reflexivity.
  - destruct (a_decl a0 s n v f) as [y|] eqn:E0.
    + inversion F0. subst. contradiction.
    + apply (IH _ _ _ _ Hs F F0 N).
Qed.

(* with pairwise non-nested installation directories no directory of a removed product is lived in by anybody else:
   the fix C14-remove-keeps-shared-directory changes nothing *)
Lemma destroy_keep_irrelevant c a0 : wf_dirs a0 -> forall ps removed st,
  NoDup ps -> all_real ps ->
  (forall s n v f r, a_decl (rdb st) s n v f = Some r -> a_decl a0 s n v f = Some r) ->
  apath (rdb st) = apath a0 ->
  destroy true c a0 ps removed st = destroy false c a0 ps removed st.
Proof.
  intro Hd. induction ps as [|p ps IH]; intros removed st ND AR Hsub Hp; [reflexivity|].
  destruct (AR p (or_introl eq_refl)) as [n1 [v1 ->]]. inversion ND as [|? ? Hnotin ND']. subst.
  cbn [destroy]. unfold nname, nver. cbn [fst snd]. rewrite undeclare_some.
  destruct (find_exact (rdb st) (apath (rdb st)) n1 v1 (rc_flavor c)) as [[s1 rr]|] eqn:F; [|reflexivity].
  set (a' := aapply (ADelDecl s1 n1 v1 (rc_flavor c)) (rdb st)).
  destruct (find_exact_some _ _ _ _ _ _ _ F) as [_ E1].
  assert (Hds : dir_step true c a0 a' (n1, Some v1, true) removed (rfs st) =
                dir_step false c a0 a' (n1, Some v1, true) removed (rfs st)).
  { unfold dir_step. destruct (mem_odir (product_dir c a0 (n1, Some v1, true)) removed); [reflexivity|].
    destruct (product_dir c a0 (n1, Some v1, true)) as [dir|] eqn:P; [|reflexivity].
    destruct (placeholder dir) eqn:Ph; [reflexivity|]. cbn [andb].
    destruct (in_use c a' dir) eqn:U; [exfalso|reflexivity].
    apply in_use_true in U as [s [n [v [f [r [Is [If [E [Phr Ud]]]]]]]]].
    unfold a' in E. rewrite a_decl_aapply in E. rewrite E1 in E. cbn [is_some andb] in E.
    destruct (dkey_eqb (s, n, v, f) (s1, n1, v1, rc_flavor c)) eqn:Ek; [discriminate|].
    unfold product_dir, nver, nname in P. cbn [fst snd] in P.
    destruct (find_exact a0 (apath a0) n1 v1 (rc_flavor c)) as [[s0 r0]|] eqn:F0; [|discriminate].
    inversion P. subst dir. destruct (find_exact_some _ _ _ _ _ _ _ F0) as [_ E0].
    destruct (dkey_eqb (s, n, v, f) (s0, n1, v1, rc_flavor c)) eqn:Ek0.
    - apply dkey_eqb_eq in Ek0. inversion Ek0. subst.
      assert (s1 = s0).
      { rewrite Hp in F. apply (find_exact_sub (rdb st) a0 n1 v1 (rc_flavor c) (apath a0) s1 rr s0 r0);
          [intros s2 r2; apply Hsub|exact F|exact F0|rewrite E; discriminate]. }
      subst s1. rewrite dkey_eqb_refl in Ek. discriminate.
    - assert (Nk : (s0, n1, v1, rc_flavor c) <> (s, n, v, f)).
      { intro X. rewrite X, dkey_eqb_refl in Ek0. discriminate. }
      rewrite (Hd _ _ _ _ _ _ _ _ _ _ E0 (Hsub _ _ _ _ _ E) Nk Ph Phr) in Ud. discriminate. }
  rewrite Hds. destruct (dir_step false c a0 a' (n1, Some v1, true) removed (rfs st)) as [[removed' fs']|e]; [|reflexivity].
  apply IH; [exact ND'|apply (all_real_tail _ _ AR)| |].
  - cbn [rdb]. intros s n v f r E. apply Hsub. fold a' in E. unfold a' in E. rewrite a_decl_aapply in E.
    destruct (is_some (a_decl (rdb st) s1 n1 v1 (rc_flavor c)) && dkey_eqb (s, n, v, f) (s1, n1, v1, rc_flavor c)); [discriminate|exact E].
  - cbn [rdb]. unfold a'. rewrite apath_aapply. exact Hp.
Qed.

(* the real directories of the asked products exist *)
Definition dirs_present (w : world) (c : rconf) (st : rstate) (n v : str) (recursive : bool) : Prop :=
  forall q dir, asked w n v recursive q -> product_dir c (rdb st) q = Some dir -> placeholder dir = false ->
                In dir (rfs st).

Lemma asked_dpath w n v recursive q :
  wf_world w -> declared w n v = true ->
  (asked w n v recursive q <->
   q = (n, Some v, true) \/ (recursive = true /\ dpath w (n, Some v, true) q)).
Proof.
  intros Hwf D. unfold asked. split.
  - intros [E|[R [H [Dq _]]]]; [left; exact E|right; split; [exact R|]]. apply dpath_reach. right. auto.
  - intros [E|[R P]]; [left; exact E|]. pose proof (dpath_dnode _ _ _ Hwf (dnode_intro _ _ _ D) P) as Dq.
    apply dpath_reach in P as [E|[H _]]; [left; exact E|right; auto].
Qed.

Lemma asked_shape w n v recursive q : asked w n v recursive q -> exists n' v', q = (n', Some v', true).
Proof.
  intros [->|[_ [_ Dq]]]; [eauto|]. destruct (dnode_shape _ _ Dq) as [n' [v' [-> _]]]. eauto.
Qed.

(* ---------------------------------------------------------------- the two phases *)

Lemma remove_inv keep fuel w c st n v recursive chk res st' :
  remove true true keep fuel w c st n v recursive chk = (res, st') ->
  exists idx, (if chk then uses_index fuel w = Ok idx \/ (exists e, uses_index fuel w = Err e /\ res = Err e /\ st' = st)
               else idx = []) /\
    ((exists e, res = Err e /\ st' = st /\
        (collect true true chk w idx c (Some (n, v)) fuel [] n (Some v) recursive = Err e \/
         (chk = true /\ uses_index fuel w = Err e))) \/
     (exists l s', collect true true chk w idx c (Some (n, v)) fuel [] n (Some v) recursive = Ok (l, s') /\
                   destroy keep c (rdb st) (uniq_nodes l) [] st = (res, st'))).
Proof.
  unfold remove. destruct chk.
  - destruct (uses_index fuel w) as [idx|e] eqn:U.
    + intro H. exists idx. split; [left; reflexivity|].
      destruct (collect true true true w idx c (Some (n, v)) fuel [] n (Some v) recursive) as [[l s']|e] eqn:K.
      * right. exists l, s'. auto.
      * left. exists e. inversion H. auto.
    + intro H. exists []. inversion H. subst. split; [right; exists e; auto|]. left. exists e. auto.
  - intro H. exists []. split; [reflexivity|].
    destruct (collect true true false w [] c (Some (n, v)) fuel [] n (Some v) recursive) as [[l s']|e] eqn:K.
    + right. exists l, s'. auto.
    + left. exists e. inversion H. auto.
Qed.

Lemma listed_iff_asked chk w idx c fuel n v recursive l s' :
  wf_world w -> default_undeclared w c -> declared w n v = true ->
  collect true true chk w idx c (Some (n, v)) fuel [] n (Some v) recursive = Ok (l, s') ->
  forall q, In q (uniq_nodes l) <-> asked w n v recursive q.
Proof.
  intros Hwf Hdef D H q. rewrite uniq_nodes_In, (asked_dpath _ _ _ _ _ Hwf D).
  apply (collect_exact chk w idx c (Some (n, v)) Hwf Hdef _ _ _ _ _ _ H D).
Qed.

Lemma listed_real chk w idx c fuel n v recursive l s' :
  wf_world w -> default_undeclared w c -> declared w n v = true ->
  collect true true chk w idx c (Some (n, v)) fuel [] n (Some v) recursive = Ok (l, s') ->
  all_real (uniq_nodes l) /\ forall q, In q (uniq_nodes l) -> dnode w q.
Proof.
  intros Hwf Hdef D H.
  assert (K : forall q, In q (uniq_nodes l) -> dnode w q).
  { intros q I. apply (proj1 (uniq_nodes_In _ _)) in I. apply (collect_listed_dnode chk w idx c (Some (n, v)) Hwf Hdef _ _ _ _ _ _ _ H D I). }
  split; [|exact K]. intros q I. destruct (dnode_shape _ _ (K q I)) as [n' [v' [-> _]]]. exists n', v'. reflexivity.
Qed.

Lemma gone_iff_doomed chk w idx c fuel st n v recursive l s' :
  wf_world w -> default_undeclared w c -> declared w n v = true ->
  collect true true chk w idx c (Some (n, v)) fuel [] n (Some v) recursive = Ok (l, s') ->
  forall s n' v' f', gone c (rdb st) (uniq_nodes l) s n' v' f' <-> doomed w c (rdb st) n v recursive s n' v' f'.
Proof.
  intros Hwf Hdef D H s n' v' f'. unfold gone, doomed.
  rewrite (listed_iff_asked _ _ _ _ _ _ _ _ _ _ Hwf Hdef D H). tauto.
Qed.

(* ---------------------------------------------------------------- frame, for every outcome *)

Theorem remove_frame keep fuel w c st n v recursive chk res st' :
  wf_world w -> default_undeclared w c -> declared w n v = true ->
  remove true true keep fuel w c st n v recursive chk = (res, st') ->
  (forall s n' v' f', ~ doomed w c (rdb st) n v recursive s n' v' f' ->
     a_decl (rdb st') s n' v' f' = a_decl (rdb st) s n' v' f') /\
  (forall s n' t f', (forall v', a_tag (rdb st) s n' t f' = Some v' -> ~ doomed w c (rdb st) n v recursive s n' v' f') ->
     a_tag (rdb st') s n' t f' = a_tag (rdb st) s n' t f') /\
  (forall x, In x (rfs st') -> In x (rfs st)) /\
  (forall x, In x (rfs st) ->
     (forall q dir, asked w n v recursive q -> product_dir c (rdb st) q = Some dir -> placeholder dir = false ->
                    under dir x = false) ->
     In x (rfs st')).
Proof.
  intros Hwf Hdef D H.
  destruct (remove_inv _ _ _ _ _ _ _ _ _ _ _ H) as [idx [_ [[e [_ [-> _]]]|[l [s' [K Hd]]]]]].
  - repeat split; auto.
  - destruct (listed_real _ _ _ _ _ _ _ _ _ _ Hwf Hdef D K) as [AR _].
    pose proof (uniq_nodes_NoDup l) as ND.
    pose proof (gone_iff_doomed _ _ _ _ _ st _ _ _ _ _ Hwf Hdef D K) as G.
    split; [|split; [|split]].
    + intros s n' v' f' N. apply (destroy_decl_frame _ _ _ _ _ _ _ _ Hd ND AR). rewrite G. exact N.
    + intros s n' t f' N. apply (destroy_tag_frame _ _ _ _ _ _ _ _ Hd ND AR). intros v' E. rewrite G. apply (N v' E).
    + apply (destroy_fs_sub _ _ _ _ _ _ _ _ Hd AR).
    + intros x I N. apply (destroy_fs_keep _ _ _ _ _ _ _ _ Hd AR x I).
      intros p dir Ip. apply N. apply (listed_iff_asked _ _ _ _ _ _ _ _ _ _ Hwf Hdef D K). exact Ip.
Qed.

(* a surviving declaration's directory does not meet a removed one when directories are non-nested *)
Lemma survivor_dir_apart w c a n v recursive s0 m u f0 rs q dir x :
  wf_dirs a -> a_decl a s0 m u f0 = Some rs -> placeholder (fst rs) = false ->
  ~ doomed w c a n v recursive s0 m u f0 ->
  asked w n v recursive q -> product_dir c a q = Some dir -> placeholder dir = false ->
  under (fst rs) x = true -> under dir x = false.
Proof.
  intros Hd Es Ps Ns Aq Pq Pd Ux.
  destruct (asked_shape _ _ _ _ _ Aq) as [qn [qv ->]].
  unfold product_dir, nver, nname in Pq. cbn [fst snd] in Pq.
  destruct (find_exact a (apath a) qn qv (rc_flavor c)) as [[s1 r1]|] eqn:F; [|discriminate].
  inversion Pq. subst dir. pose proof (proj2 (find_exact_some _ _ _ _ _ _ _ F)) as E1.
  destruct (under (fst r1) x) eqn:U; [|reflexivity]. exfalso.
  assert (Nk : (s1, qn, qv, rc_flavor c) <> (s0, m, u, f0)).
  { intro E. inversion E. subst. apply Ns. split; [reflexivity|]. split; [exact Aq|].
    unfold home. rewrite F. reflexivity. }
  destruct (under_comparable _ _ _ U Ux) as [K|K].
  - rewrite (Hd _ _ _ _ _ _ _ _ _ _ E1 Es Nk Pd Ps) in K. discriminate.
  - assert (Nk' : (s0, m, u, f0) <> (s1, qn, qv, rc_flavor c)) by congruence.
    rewrite (Hd _ _ _ _ _ _ _ _ _ _ Es E1 Nk' Ps Pd) in K. discriminate.
Qed.

(* with non-nested installation directories every path of a surviving declaration's directory stays *)
Theorem remove_frame_dirs keep fuel w c st n v recursive chk res st' s0 m u f0 rs :
  wf_world w -> default_undeclared w c -> declared w n v = true -> wf_dirs (rdb st) ->
  remove true true keep fuel w c st n v recursive chk = (res, st') ->
  a_decl (rdb st) s0 m u f0 = Some rs -> placeholder (fst rs) = false ->
  ~ doomed w c (rdb st) n v recursive s0 m u f0 ->
  forall x, under (fst rs) x = true -> (In x (rfs st') <-> In x (rfs st)).
Proof.
  intros Hwf Hdef D Hd H Es Ps Ns x Ux.
  destruct (remove_frame _ _ _ _ _ _ _ _ _ _ _ Hwf Hdef D H) as [_ [_ [F1 F2]]].
  split; [apply F1|]. intro I. apply (F2 x I). intros q dir Aq Pq Pd.
  apply (survivor_dir_apart w c (rdb st) n v recursive s0 m u f0 rs q dir x); assumption.
Qed.

(* ---------------------------------------------------------------- a completed run removes exactly what was asked *)

Theorem remove_exact keep fuel w c st n v recursive chk st' :
  wf_world w -> default_undeclared w c -> declared w n v = true ->
  remove true true keep fuel w c st n v recursive chk = (Ok tt, st') ->
  (forall s n' v' f', doomed w c (rdb st) n v recursive s n' v' f' -> a_decl (rdb st') s n' v' f' = None) /\
  (forall s n' v' f', ~ doomed w c (rdb st) n v recursive s n' v' f' ->
     a_decl (rdb st') s n' v' f' = a_decl (rdb st) s n' v' f') /\
  (forall s n' t f' v', a_tag (rdb st) s n' t f' = Some v' -> doomed w c (rdb st) n v recursive s n' v' f' ->
     a_tag (rdb st') s n' t f' = None) /\
  (forall s n' t f', (forall v', a_tag (rdb st) s n' t f' = Some v' -> ~ doomed w c (rdb st) n v recursive s n' v' f') ->
     a_tag (rdb st') s n' t f' = a_tag (rdb st) s n' t f') /\
  (keep = false \/ wf_dirs (rdb st) ->
   forall x, In x (rfs st') <->
     In x (rfs st) /\
     ~ exists q dir, asked w n v recursive q /\ product_dir c (rdb st) q = Some dir /\ placeholder dir = false /\
                     under dir x = true).
Proof.
  intros Hwf Hdef D H.
  destruct (remove_frame _ _ _ _ _ _ _ _ _ _ _ Hwf Hdef D H) as [F1 [F2 [F3 F4]]].
  destruct (remove_inv _ _ _ _ _ _ _ _ _ _ _ H) as [idx [_ [[e [E _]]|[l [s' [K Hd]]]]]]; [discriminate|].
  destruct (listed_real _ _ _ _ _ _ _ _ _ _ Hwf Hdef D K) as [AR _].
  pose proof (uniq_nodes_NoDup l) as ND.
  pose proof (gone_iff_doomed _ _ _ _ _ st _ _ _ _ _ Hwf Hdef D K) as G.
  pose proof (listed_iff_asked _ _ _ _ _ _ _ _ _ _ Hwf Hdef D K) as LA.
  split; [|split; [exact F1|split; [|split; [exact F2|]]]].
  - intros s n' v' f' Hg. apply (destroy_decl_gone _ _ _ _ _ _ _ Hd ND AR). apply G, Hg.
  - intros s n' t f' v' E Hg. apply (destroy_tag_gone _ _ _ _ _ _ _ Hd ND AR s n' t f' v' E). apply G, Hg.
  - intros Hk x.
    assert (Hd0 : destroy false c (rdb st) (uniq_nodes l) [] st = (Ok tt, st')).
    { destruct keep; [|exact Hd]. destruct Hk as [Hk|Hk]; [discriminate|].
      rewrite <- (destroy_keep_irrelevant c (rdb st) Hk (uniq_nodes l) [] st ND AR); auto. }
    split.
    + intro I. split; [apply F3, I|]. intros [q [dir [Aq [Pq [Pd U]]]]].
      apply (destroy_fs_gone _ _ _ _ _ _ Hd0 AR) with (p := q) (dir := dir) (x := x); auto.
      * intros d [].
      * apply LA, Aq.
    + intros [I N]. apply (F4 x I). intros q dir Aq Pq Pd.
      destruct (under dir x) eqn:U; [|reflexivity]. exfalso. apply N. exists q, dir. auto.
Qed.

(* ---------------------------------------------------------------- refusals and errors *)

Lemma dir_step_err keep c a0 a1 p removed fs e : dir_step keep c a0 a1 p removed fs = Err e -> e = Crash.
Proof.
  unfold dir_step. destruct (mem_odir (product_dir c a0 p) removed); [discriminate|].
  destruct (product_dir c a0 p) as [dir|]; [|discriminate].
  destruct (placeholder dir); [discriminate|]. destruct (keep && in_use c a1 dir); [discriminate|].
  destruct (mem_str dir fs); [discriminate|]. intro H. inversion H. reflexivity.
Qed.

Lemma destroy_err keep c a0 : forall ps removed st e st',
  destroy keep c a0 ps removed st = (Err e, st') -> all_real ps -> e = NotFound \/ e = Crash.
Proof.
  induction ps as [|p ps IH]; intros removed st e st' H AR; [discriminate|].
  destruct (AR p (or_introl eq_refl)) as [n1 [v1 ->]].
  destruct (destroy_inv _ _ _ _ _ _ _ _ _ _ H) as [[_ [E _]]|[s1 [rr [_ [[e' [D [E _]]]|[removed' [fs' [_ Hrec]]]]]]]].
  - inversion E. auto.
  - inversion E. subst. right. apply (dir_step_err _ _ _ _ _ _ _ _ D).
  - apply (IH _ _ _ _ Hrec (all_real_tail _ _ AR)).
Qed.

(* the in-use refusal is raised during the collection: nothing has been touched *)
Theorem refusal_keeps_state keep fuel w c st n v recursive chk st' :
  wf_world w -> default_undeclared w c -> declared w n v = true ->
  remove true true keep fuel w c st n v recursive chk = (Err Refused, st') -> st' = st.
Proof.
  intros Hwf Hdef D H.
  destruct (remove_inv _ _ _ _ _ _ _ _ _ _ _ H) as [idx [_ [[e [_ [E _]]]|[l [s' [K Hd]]]]]]; [exact E|].
  destruct (listed_real _ _ _ _ _ _ _ _ _ _ Hwf Hdef D K) as [AR _].
  destruct (destroy_err _ _ _ _ _ _ _ _ Hd AR); discriminate.
Qed.

Lemma asked_product_dir_nested w c a n v recursive p q dp dq :
  wf_dirs a -> asked w n v recursive p -> asked w n v recursive q ->
  product_dir c a p = Some dp -> product_dir c a q = Some dq ->
  placeholder dp = false -> placeholder dq = false -> under dp dq = true -> dp = dq.
Proof.
  intros Hd Ap Aq Pp Pq Php Phq U.
  destruct (asked_shape _ _ _ _ _ Ap) as [pn [pv ->]]. destruct (asked_shape _ _ _ _ _ Aq) as [qn [qv ->]].
  unfold product_dir, nver, nname in Pp, Pq. cbn [fst snd] in Pp, Pq.
  destruct (find_exact a (apath a) pn pv (rc_flavor c)) as [[s1 r1]|] eqn:F1; [|discriminate].
  destruct (find_exact a (apath a) qn qv (rc_flavor c)) as [[s2 r2]|] eqn:F2; [|discriminate].
  inversion Pp. inversion Pq. subst dp dq.
  pose proof (proj2 (find_exact_some _ _ _ _ _ _ _ F1)) as E1. pose proof (proj2 (find_exact_some _ _ _ _ _ _ _ F2)) as E2.
  destruct (pair_eq_dec pn pv qn qv) as [E|N].
  - inversion E. subst. rewrite F1 in F2. inversion F2. reflexivity.
  - assert (Nk : (s1, pn, pv, rc_flavor c) <> (s2, qn, qv, rc_flavor c)) by (intro E; inversion E; subst; apply N; reflexivity).
    rewrite (Hd _ _ _ _ _ _ _ _ _ _ E1 E2 Nk Php Phq) in U. discriminate.
Qed.

(* when the world describes the database and the directories are there and non-nested, the
   destruction cannot fail: every error is raised before the first write *)
Theorem error_keeps_state keep fuel w c st n v recursive chk e st' :
  wf_world w -> default_undeclared w c -> declared w n v = true ->
  coherent w c (rdb st) -> wf_dirs (rdb st) -> dirs_present w c st n v recursive ->
  remove true true keep fuel w c st n v recursive chk = (Err e, st') -> st' = st.
Proof.
  intros Hwf Hdef D Hco Hd Hp H.
  destruct (remove_inv _ _ _ _ _ _ _ _ _ _ _ H) as [idx [_ [[e' [_ [E _]]]|[l [s' [K Hdes]]]]]]; [exact E|].
  destruct (listed_real _ _ _ _ _ _ _ _ _ _ Hwf Hdef D K) as [AR DN].
  pose proof (listed_iff_asked _ _ _ _ _ _ _ _ _ _ Hwf Hdef D K) as LA.
  destruct (destroy_total keep c (rdb st) (uniq_nodes l) [] st (uniq_nodes_NoDup l) AR) as [st'' E].
  - intros n' v' I. apply Hco. destruct (dnode_shape _ _ (DN _ I)) as [n2 [v2 [E2 D2]]]. inversion E2. subst. exact D2.
  - intros p dir I P Ph. right. apply (Hp p dir); auto. apply LA, I.
  - intros p q dp dq Ip Iq. apply (asked_product_dir_nested w c (rdb st) n v recursive p q dp dq Hd); apply LA; assumption.
  - rewrite E in Hdes. discriminate.
Qed.

(* a refusal needs the in-use check and no force *)
Theorem refusal_only_with_check keep fuel w c st n v recursive chk st' :
  wf_world w -> default_undeclared w c -> declared w n v = true -> length w + 2 <= fuel ->
  (chk = true -> exists idx, uses_index fuel w = Ok idx) ->
  remove true true keep fuel w c st n v recursive chk = (Err Refused, st') -> chk = true /\ rc_force c = false.
Proof.
  intros Hwf Hdef D Hf Hu H.
  destruct (remove_inv _ _ _ _ _ _ _ _ _ _ _ H) as [idx [Hi [[e [E [_ [K|[Ec Eu]]]]]|[l [s' [K Hd]]]]]].
  - inversion E. subst e.
    destruct (collect_total chk w idx c (Some (n, v)) Hwf fuel [] n v recursive D) as [[a Eq]|[_ R]]; [intros _ []| | |exact R].
    + destruct recursive; [|lia]. apply Nat.le_trans with (length w + 2); [apply Nat.add_le_mono_r, unseen_nil|exact Hf].
    + pose proof (eq_trans (eq_sym Eq) K) as X. discriminate X.
  - destruct (Hu Ec) as [idx' Eu']. rewrite Eu' in Eu. discriminate.
  - destruct (listed_real _ _ _ _ _ _ _ _ _ _ Hwf Hdef D K) as [AR _].
    destruct (destroy_err _ _ _ _ _ _ _ _ Hd AR); discriminate.
Qed.

(* ---------------------------------------------------------------- needed products are not removed *)

Lemma check_passed_no_outside_user chk idx c top d us :
  chk = true -> rc_force c = false -> check_one chk idx c top d = Ok tt ->
  users idx (nname d) (nver d) = Ok us -> forall u, In u (map cuser us) -> top = Some u.
Proof.
  intros -> Hf H Hu u I. unfold check_one in H. rewrite Hu, Hf in H. cbn [negb] in H. rewrite andb_true_r in H.
  destruct (existsb (fun u0 => negb (is_top top (cuser u0))) us) eqn:E; [discriminate|].
  apply in_map_iff in I as [x [<- Ix]].
  pose proof (proj1 (existsb_false_forall _ _) E x Ix) as K. apply negb_false_iff in K. unfold is_top in K.
  destruct top as [t|]; [|discriminate]. apply user_eqb_eq in K. rewrite K. reflexivity.
Qed.

(* with the in-use check and without force: if a product that would be deleted (d) is reached through the
   table files from a declared product that would remain (u), the command is refused and nothing changes *)
Theorem remove_refuses_when_needed keep fuel w c st n v recursive idx d u :
  wf_world w -> default_undeclared w c -> declared w n v = true -> length w + 2 <= fuel ->
  uses_index fuel w = Ok idx -> rc_force c = false ->
  asked w n v recursive d ->
  In u (map fst w) -> ~ asked w n v recursive (pnode u) -> reach_plus w (pnode u) d ->
  remove true true keep fuel w c st n v recursive true = (Err Refused, st).
Proof.
  intros Hwf Hdef D Hf Hu Hforce Ad Iu Nu R.
  assert (G : good true c (collect true true true w idx c (Some (n, v)) fuel [] n (Some v) recursive)).
  { apply (collect_total true w idx c (Some (n, v)) Hwf fuel [] n v recursive D).
    - intros _ [].
    - destruct recursive; [|lia]. apply Nat.le_trans with (length w + 2); [apply Nat.add_le_mono_r, unseen_nil|exact Hf]. }
  unfold remove. rewrite Hu.
  match goal with |- context [match ?X with Ok _ => _ | Err _ => _ end] => destruct X as [[l s']|e] eqn:K end.
  - exfalso.
    assert (Il : In d l).
    { apply (proj1 (uniq_nodes_In _ _)). apply (listed_iff_asked _ _ _ _ _ _ _ _ _ _ Hwf Hdef D K). exact Ad. }
    pose proof (collect_D _ _ _ _ _ _ _ _ _ _ _ _ K d Il) as Hc.
    destruct (users_total_ok idx (nname d) (nver d)) as [us [Eus _]].
    assert (Iu' : In u (map cuser us)).
    { apply (uses_inverse_reach fuel w idx (nname d) (nver d) us u); [lia|exact Hu|exact Eus|].
      split; [exact Iu|]. exists d. split; [intro E; apply Nu; rewrite <- E; exact Ad|]. split; [exact R|].
      unfold matches. split; [reflexivity|]. destruct (nver d); reflexivity. }
    pose proof (check_passed_no_outside_user true idx c (Some (n, v)) d us eq_refl Hforce Hc Eus u Iu') as E.
    apply Nu. inversion E. subst u. left. reflexivity.
  - destruct G as [[a Eq]|[Eq _]]; [discriminate Eq|]. inversion Eq. reflexivity.
Qed.

(* ---------------------------------------------------------------- the command completes *)

(* without the in-use check, or with force, on any graph (cycles, shared dependencies, several
   versions of a product, unresolved dependencies): the command ends normally *)
Theorem remove_completes keep fuel w c st n v recursive chk :
  wf_world w -> default_undeclared w c -> declared w n v = true -> length w + 2 <= fuel ->
  (chk = true -> exists idx, uses_index fuel w = Ok idx) ->
  chk = false \/ rc_force c = true ->
  coherent w c (rdb st) -> wf_dirs (rdb st) -> dirs_present w c st n v recursive ->
  exists st', remove true true keep fuel w c st n v recursive chk = (Ok tt, st').
Proof.
  intros Hwf Hdef D Hf Hu Hmode Hco Hd Hp.
  destruct (remove true true keep fuel w c st n v recursive chk) as [[[]|e] st'] eqn:H; [eauto|]. exfalso.
  pose proof (error_keeps_state _ _ _ _ _ _ _ _ _ _ _ Hwf Hdef D Hco Hd Hp H) as ->.
  destruct (remove_inv _ _ _ _ _ _ _ _ _ _ _ H) as [idx [Hi [[e' [E [_ [K|[Ec Eu]]]]]|[l [s' [K Hdes]]]]]].
  - destruct (collect_total chk w idx c (Some (n, v)) Hwf fuel [] n v recursive D) as [[a Eq]|[_ [R1 R2]]].
    + intros _ [].
    + destruct recursive; [|lia]. apply Nat.le_trans with (length w + 2); [apply Nat.add_le_mono_r, unseen_nil|exact Hf].
    + pose proof (eq_trans (eq_sym Eq) K) as X. discriminate X.
    + destruct Hmode; congruence.
  - destruct (Hu Ec) as [idx' Eu']. rewrite Eu' in Eu. discriminate.
  - destruct (listed_real _ _ _ _ _ _ _ _ _ _ Hwf Hdef D K) as [AR DN].
    pose proof (listed_iff_asked _ _ _ _ _ _ _ _ _ _ Hwf Hdef D K) as LA.
    destruct (destroy_total keep c (rdb st) (uniq_nodes l) [] st (uniq_nodes_NoDup l) AR) as [st'' E].
    + intros n' v' I. apply Hco. destruct (dnode_shape _ _ (DN _ I)) as [n2 [v2 [E2 D2]]]. inversion E2. subst. exact D2.
    + intros p dir I P Ph. right. apply (Hp p dir); auto. apply LA, I.
    + intros p q dp dq Ip Iq. apply (asked_product_dir_nested w c (rdb st) n v recursive p q dp dq Hd); apply LA; assumption.
    + rewrite E in Hdes. discriminate.
Qed.
