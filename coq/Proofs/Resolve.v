(* C03 - the model of Model/Resolve.v refines the designation rule of Model/ResolveSpec.v *)
From Eupsv Require Import Base.Base Base.BaseLemmas Model.Resolve Model.ResolveSpec Proofs.ResolveLib.
From Coq Require Import Lia.

(* ---------------------------------------------------------------- plain look-ups *)

Lemma find_version_spec db n v f : find_version db n v f = version_designates db n v f.
Proof.
  unfold version_designates. induction db as [|s db IH]; simpl; [reflexivity|].
  destruct (declared s n v f); auto.
Qed.

Lemma find_chain_tagged_spec db n t f : find_chain_tagged db n t f = tag_designates db n t f.
Proof.
  unfold tag_designates. induction db as [|s db IH]; simpl; [reflexivity|].
  destruct (chain_version s n f t); [destruct (declared s n _ f)|]; auto.
Qed.

Lemma version_designates_version db n v f p : version_designates db n v f = Some p -> fd_version p = v.
Proof.
  unfold version_designates. induction db as [|s db IH]; simpl; [discriminate|].
  destruct (declared s n v f); [intro H; injection H as <-; reflexivity|exact IH].
Qed.

Lemma version_designates_none db n v f :
  (forall s, In s db -> declared s n v f = false) -> version_designates db n v f = None.
Proof.
  intro H. unfold version_designates. apply first_some_none. intros s Hs. now rewrite (H s Hs).
Qed.

(* ---------------------------------------------------------------- names and candidates *)

Lemma versions_of_In l n f v : In v (versions_of l n f) -> In (n, v, f) l.
Proof.
  induction l as [|[[n' v'] f'] l IH]; simpl; [tauto|].
  destruct (str_eqb n n') eqn:En, (str_eqb f f') eqn:Ef; simpl; auto.
  intros [<-|H]; auto. apply str_eqb_eq in En, Ef. subst. now left.
Qed.

Lemma versions_in_names db s n f v : In s db -> In v (versions_in s n f) -> In v (names_of db n).
Proof.
  intros Hs Hv. unfold names_of. apply in_flat_map. exists s. split; [assumption|].
  apply in_flat_map. exists (n, v, f). split; [now apply versions_of_In|].
  rewrite str_eqb_refl. now left.
Qed.

Definition cands_stack (s : stackv) (n f : str) : list found :=
  map (fun v => found_in s n v f) (versions_in s n f).

Lemma candidates_cons s db n f : candidates (s :: db) n f = cands_stack s n f ++ candidates db n f.
Proof. reflexivity. Qed.

Lemma candidates_names db n f q : In q (candidates db n f) -> In (fd_version q) (names_of db n).
Proof.
  unfold candidates. intro H. apply in_flat_map in H. destruct H as [s [Hs Hq]].
  apply in_map_iff in Hq. destruct Hq as [v [<- Hv]]. simpl. eapply versions_in_names; eauto.
Qed.

Lemma candidates_flavor db n f q : In q (candidates db n f) -> fd_flavor q = f /\ fd_name q = n.
Proof.
  unfold candidates. intro H. apply in_flat_map in H. destruct H as [s [Hs Hq]].
  apply in_map_iff in Hq. destruct Hq as [v [<- Hv]]. simpl. auto.
Qed.

Lemma names_of_cons s db n v : In v (names_of db n) -> In v (names_of (s :: db) n).
Proof. unfold names_of. simpl. intro H. apply in_or_app. now right. Qed.

Lemma find_verb_map s n f vs v :
  find (verb v) (map (fun w => found_in s n w f) vs) = if mem_str v vs then Some (found_in s n v f) else None.
Proof.
  induction vs as [|w vs IH]; simpl; [reflexivity|].
  unfold verb at 1. simpl. rewrite (str_eqb_sym v w).
  destruct (str_eqb w v) eqn:E; [apply str_eqb_eq in E; now subst|exact IH].
Qed.

(* ---------------------------------------------------------------- latest = highest of all candidates *)

Section Latest.
  Variable vcmp : str -> str -> comparison.
  Variable U : list str.
  Hypothesis HT : total_order_on vcmp U.
  Variables n f : str.

  Lemma find_latest_from_best db : forall A out,
    (forall s, In s db -> forall v, In v (versions_in s n f) -> In v U) ->
    vers_in_U U A ->
    match out with None => A = [] | Some o => is_best vcmp A o end ->
    match find_latest_from vcmp out db n f with
    | None => A ++ candidates db n f = []
    | Some r => is_best vcmp (A ++ candidates db n f) r
    end.
  Proof.
    induction db as [|s db IH]; intros A out HS HA HO.
    - simpl. rewrite app_nil_r. destruct out; assumption.
    - assert (HS' : forall s0, In s0 db -> forall v, In v (versions_in s0 n f) -> In v U)
        by (intros s0 H0; apply HS; now right).
      assert (Hs : forall v, In v (versions_in s n f) -> In v U) by (apply HS; now left).
      simpl find_latest_from. unfold stack_latest.
      pose proof (last_max_spec vcmp U HT (versions_in s n f) Hs) as LM.
      rewrite candidates_cons. unfold cands_stack.
      destruct (last_max vcmp (versions_in s n f)) as [v|].
      + destruct LM as [Iv Mv].
        set (B := map (fun w => found_in s n w f) (versions_in s n f)).
        assert (HB : vers_in_U U B).
        { intros q Hq. apply in_map_iff in Hq. destruct Hq as [w [<- Hw]]. simpl. auto. }
        assert (HAB : vers_in_U U (A ++ B)).
        { intros q Hq. apply in_app_or in Hq. destruct Hq; auto. }
        assert (Fl : find (verb v) B = Some (found_in s n v f)).
        { unfold B. rewrite find_verb_map. apply mem_str_In in Iv. now rewrite Iv. }
        assert (Il : In (found_in s n v f) B) by (apply in_map_iff; eauto).
        assert (Ml : forall q, In q B -> le vcmp (fd_version q) v).
        { intros q Hq. apply in_map_iff in Hq. destruct Hq as [w [<- Hw]]. simpl. auto. }
        rewrite app_assoc.
        destruct out as [o|].
        * destruct HO as [Io [Mo Fo]].
          assert (HoU : In (fd_version o) U) by auto.
          assert (KEEP : vcmp v (fd_version o) <> Gt -> is_best vcmp (A ++ B) o).
          { intro NG. split; [apply in_or_app; now left|]. split.
            - intros q Hq. apply in_app_or in Hq. destruct Hq as [Hq|Hq]; [now apply Mo|].
              apply (le_trans vcmp U HT) with v.
              + now apply HB.
              + now apply Hs.
              + exact HoU.
              + now apply Ml.
              + exact NG.
            - rewrite find_app, Fo. reflexivity. }
          destruct (vcmp (fd_version (found_in s n v f)) (fd_version o)) eqn:E; simpl in E.
          -- apply IH; auto. apply KEEP. rewrite E. discriminate.
          -- apply IH; auto. apply KEEP. rewrite E. discriminate.
          -- apply IH; auto. split; [apply in_or_app; now right|]. split.
             ++ simpl. intros q Hq. apply in_app_or in Hq. destruct Hq as [Hq|Hq]; [|now apply Ml].
                apply (le_trans vcmp U HT) with (fd_version o).
                ** now apply HA.
                ** exact HoU.
                ** now apply Hs.
                ** now apply Mo.
                ** apply (gt_le vcmp U HT); [exact HoU|now apply Hs|exact E].
             ++ simpl. rewrite find_app.
                assert (N : find (verb v) A = None).
                { apply find_none_iff. intros q Hq. unfold verb.
                  destruct (str_eqb (fd_version q) v) eqn:Eq; [|reflexivity].
                  apply str_eqb_eq in Eq. exfalso. apply (Mo q Hq). now rewrite Eq. }
                now rewrite N.
        * subst A. simpl. apply IH; auto.
          split; [assumption|]. split; [exact Ml|exact Fl].
      + assert (E : versions_in s n f = []) by exact LM. rewrite E. simpl.
        apply IH; auto.
  Qed.
End Latest.

Lemma find_latest_spec vcmp db n f :
  total_order_on vcmp (names_of db n) ->
  find_latest vcmp db n f = highest vcmp (candidates db n f).
Proof.
  intro HT. unfold find_latest.
  pose proof (find_latest_from_best vcmp (names_of db n) HT n f db [] None) as H.
  simpl in H.
  assert (H1 : forall s, In s db -> forall v, In v (versions_in s n f) -> In v (names_of db n))
    by (intros; eapply versions_in_names; eauto).
  specialize (H H1 (fun q (Hq : In q []) => match Hq with end) eq_refl).
  destruct (find_latest_from vcmp None db n f) as [r|].
  - symmetry. apply (best_is_highest vcmp (names_of db n) HT); [|assumption].
    intros q Hq. now apply candidates_names in Hq.
  - rewrite H. reflexivity.
Qed.

(* ---------------------------------------------------------------- expressions *)

Section Expr.
  Variable vcmp : str -> str -> comparison.
  Variable vmatch : str -> str -> bool.
  Variables n x f : str.

  Definition matching_stack (s : stackv) : list found :=
    map (fun w => found_in s n w f) (filter (fun v => vmatch v x) (versions_in s n f)).
  Definition matching (db : dbv) : list found := flat_map matching_stack db.

  Lemma filter_candidates db :
    filter (fun p => vmatch (fd_version p) x) (candidates db n f) = matching db.
  Proof.
    induction db as [|s db IH]; [reflexivity|].
    rewrite candidates_cons, filter_app, IH. simpl. f_equal.
    unfold cands_stack, matching_stack. induction (versions_in s n f) as [|w l IHl]; simpl; [reflexivity|].
    destruct (vmatch w x); simpl; now rewrite IHl.
  Qed.

  Lemma add_new_find s vs : forall out v,
    find (verb v) (add_new s n f vs out) =
    match find (verb v) out with
    | Some r => Some r
    | None => find (verb v) (map (fun w => found_in s n w f) vs)
    end.
  Proof.
    induction vs as [|w vs IH]; intros out v; simpl.
    - destruct (find (verb v) out); reflexivity.
    - destruct (existsb (fun p => str_eqb (fd_version p) w) out) eqn:E.
      + rewrite IH. destruct (find (verb v) out) eqn:Fo; [reflexivity|].
        unfold verb at 2. simpl. destruct (str_eqb w v) eqn:Ewv; [|reflexivity].
        apply str_eqb_eq in Ewv. subst w. exfalso.
        change (fun p => str_eqb (fd_version p) v) with (verb v) in E.
        rewrite existsb_find, Fo in E. discriminate.
      + rewrite IH, find_app. destruct (find (verb v) out); [reflexivity|]. simpl.
        destruct (verb v (found_in s n w f)); reflexivity.
  Qed.

  Lemma add_new_In s vs : forall out p,
    In p (add_new s n f vs out) -> In p out \/ In p (map (fun w => found_in s n w f) vs).
  Proof.
    induction vs as [|w vs IH]; intros out p; simpl; [auto|].
    destruct (existsb _ out); intro H; apply IH in H.
    - destruct H; auto.
    - destruct H as [H|H]; auto. apply in_app_or in H. destruct H as [H|[<-|[]]]; auto.
  Qed.

  Lemma fbe_find db : forall out v,
    find (verb v) (find_by_expr_from vmatch out db n x f) =
    match find (verb v) out with Some r => Some r | None => find (verb v) (matching db) end.
  Proof.
    induction db as [|s db IH]; intros out v; simpl.
    - destruct (find (verb v) out); reflexivity.
    - rewrite IH, add_new_find, find_app. unfold matching_stack.
      destruct (find (verb v) out); [reflexivity|].
      destruct (find (verb v) (map _ _)); reflexivity.
  Qed.

  Lemma fbe_In db : forall out p,
    In p (find_by_expr_from vmatch out db n x f) -> In p out \/ In p (matching db).
  Proof.
    induction db as [|s db IH]; intros out p; simpl; [auto|].
    intro H. apply IH in H. destruct H as [H|H].
    - apply add_new_In in H. destruct H; [now left|right]. apply in_or_app. now left.
    - right. apply in_or_app. now right.
  Qed.
End Expr.

Lemma expr_spec vcmp vmatch db n x f :
  total_order_on vcmp (names_of db n) ->
  select_latest vcmp (find_by_expr vmatch db n x f) = expr_designates vcmp vmatch db n x f.
Proof.
  intro HT. unfold expr_designates. rewrite filter_candidates.
  set (L := matching vmatch n x f db). unfold find_by_expr.
  set (D := find_by_expr_from vmatch [] db n x f).
  assert (HF : forall v, find (verb v) D = find (verb v) L)
    by (intro v; unfold D; rewrite fbe_find; reflexivity).
  assert (HI : forall p, In p D -> In p L).
  { intros p Hp. unfold D in Hp. apply fbe_In in Hp. destruct Hp as [[]|Hp]. exact Hp. }
  assert (HLU : vers_in_U (names_of db n) L).
  { intros q Hq. unfold L in Hq. rewrite <- filter_candidates in Hq. apply filter_In in Hq.
    now apply candidates_names with f. }
  assert (HDU : forall q, In q (map fd_version D) -> In q (names_of db n)).
  { intros q Hq. apply in_map_iff in Hq. destruct Hq as [p [<- Hp]]. auto. }
  unfold select_latest.
  pose proof (last_max_spec vcmp (names_of db n) HT (map fd_version D) HDU) as LM.
  destruct (last_max vcmp (map fd_version D)) as [v|].
  - destruct LM as [Iv Mv].
    destruct (find (fun p => str_eqb (fd_version p) v) D) as [r|] eqn:Fr.
    + symmetry. apply (best_is_highest vcmp (names_of db n) HT); [assumption|].
      change (fun p => str_eqb (fd_version p) v) with (verb v) in Fr.
      pose proof (find_some _ _ Fr) as [IrD Vr]. unfold verb in Vr. apply str_eqb_eq in Vr.
      split; [auto|]. split.
      * intros q Hq. rewrite Vr. apply Mv.
        destruct (find (verb (fd_version q)) D) as [d|] eqn:Fd.
        -- pose proof (find_some _ _ Fd) as [IdD Vd]. unfold verb in Vd. apply str_eqb_eq in Vd.
           rewrite <- Vd. now apply in_map.
        -- rewrite HF in Fd. rewrite find_none_iff in Fd. specialize (Fd q Hq).
           rewrite verb_refl in Fd. discriminate.
      * rewrite Vr, <- HF. exact Fr.
    + exfalso. apply in_map_iff in Iv. destruct Iv as [p [Ep Hp]].
      rewrite find_none_iff in Fr. specialize (Fr p Hp). simpl in Fr. rewrite Ep, str_eqb_refl in Fr.
      discriminate.
  - destruct L as [|q L'] eqn:EL; [reflexivity|]. exfalso.
    assert (ED : D = []) by (destruct D; [reflexivity|discriminate]).
    specialize (HF (fd_version q)). rewrite ED in HF. simpl in HF.
    rewrite verb_refl in HF. discriminate.
Qed.

(* ---------------------------------------------------------------- well-formed databases *)

Lemma chain_lookup_tag l n f t v : chain_lookup l n f t = Some v -> existsb (chain_tag_is t) l = true.
Proof.
  induction l as [|[[[n' f'] t'] v'] l IH]; simpl; [discriminate|].
  destruct (str_eqb n n' && str_eqb f f' && str_eqb t t') eqn:E.
  - intros _. apply andb_true_iff in E. destruct E as [_ E]. rewrite E. reflexivity.
  - intro H. rewrite (IH H). apply orb_true_r.
Qed.

Lemma no_chain_no_tagged db n t f :
  forallb (fun s => negb (existsb (chain_tag_is t) (st_chain s))) db = true ->
  find_chain_tagged db n t f = None.
Proof.
  induction db as [|s db IH]; simpl; [reflexivity|]. intro H. apply andb_true_iff in H. destruct H as [Hk Hdb].
  apply negb_true_iff in Hk.
  unfold chain_version. destruct (chain_lookup (st_chain s) n f t) eqn:E.
  - apply chain_lookup_tag in E. congruence.
  - now apply IH.
Qed.

Lemma wf_no_keep db n f : wf_db db = true -> find_chain_tagged db n (lit "keep") f = None.
Proof.
  intro H. apply no_chain_no_tagged. unfold wf_db in H. rewrite forallb_forall in *.
  intros s Hs. specialize (H s Hs). unfold wf_stack in H. apply andb_true_iff in H. now destruct H.
Qed.

Lemma wf_no_expr_version db n v f : wf_db db = true -> is_expr v = true -> find_version db n v f = None.
Proof.
  intros Hwf Hv. induction db as [|s db IH]; simpl; [reflexivity|].
  simpl in Hwf. apply andb_true_iff in Hwf. destruct Hwf as [Hs Hdb].
  destruct (declared s n v f) eqn:D; [|now apply IH]. exfalso.
  unfold declared in D. apply existsb_exists in D. destruct D as [[[n' v'] f'] [Hin Hd]].
  unfold decl_is in Hd. apply andb_true_iff in Hd. destruct Hd as [Hd _]. apply andb_true_iff in Hd.
  destruct Hd as [_ Hd]. apply str_eqb_eq in Hd. subst v'.
  unfold wf_stack in Hs. apply andb_true_iff in Hs. destruct Hs as [Hs _].
  rewrite forallb_forall in Hs. specialize (Hs _ Hin). simpl in Hs. rewrite Hv in Hs. discriminate.
Qed.

(* ---------------------------------------------------------------- one entry: step = clause *)

Definition step_outcome (s : step) : outcome :=
  match s with
  | Continue => Next
  | Stop (Some (p, _)) => Yield p
  | Stop None => Fail
  end.

Section Walk.
  Variable vcmp : str -> str -> comparison.
  Variable vmatch : str -> str -> bool.
  Variable c : config.
  Variable db : dbv.
  Variable rq : request.
  Variable f : str.
  Variable depth : nat.
  Hypothesis WF : wf_db db = true.
  Hypothesis HT : total_order_on vcmp (names_of db (rq_name rq)).

  Local Notation n := (rq_name rq).
  Local Notation vr := (classify rq).

  Lemma find_tagged_spec t :
    find_tagged vcmp db n t f =
    if str_eqb t (lit "latest") then highest vcmp (candidates db n f)
    else if str_eqb t (lit "setup") then None else tag_designates db n t f.
  Proof.
    unfold find_tagged. destruct (str_eqb t (lit "latest")); [now apply find_latest_spec|].
    destruct (str_eqb t (lit "setup")); [reflexivity|apply find_chain_tagged_spec].
  Qed.

  Lemma tag_step_outcome e t :
    step_outcome (tag_step vcmp db n f e t) = of_option (find_tagged vcmp db n t f).
  Proof. unfold tag_step. destruct (find_tagged vcmp db n t f); reflexivity. Qed.

  Lemma explicit_step_outcome v later :
    step_outcome (explicit_step db n v f depth later) = or_fail (version_designates db n v f) later.
  Proof.
    unfold explicit_step. rewrite find_version_spec.
    destruct (version_designates db n v f); simpl; [reflexivity|].
    destruct (existsb is_version_like later); reflexivity.
  Qed.

  Lemma explicit_step_expr v later :
    is_expr v = true -> step_outcome (explicit_step db n v f depth later) = or_fail None later.
  Proof.
    intro H. unfold explicit_step. rewrite (wf_no_expr_version db n v f WF H). simpl.
    destruct (existsb is_version_like later); reflexivity.
  Qed.

  Lemma version_step_clause e later :
    is_version_like e = true ->
    step_outcome (version_step vcmp vmatch db rq f depth e later) = clause vcmp vmatch c db n vr f e later.
  Proof.
    intro He. unfold version_step, classify.
    destruct (rq_version rq) as [[|ch v]|]; simpl.
    - destruct e; try discriminate; reflexivity.
    - set (V := ch :: v) in *. destruct (is_expr V) eqn:EX.
      + destruct e; try discriminate; simpl.
        * destruct (mem_entry EVersionExpr later); reflexivity.
        * destruct (mem_entry EVersionExpr later); reflexivity.
        * rewrite EX. rewrite expr_spec by exact HT.
          destruct (expr_designates vcmp vmatch db n V f); [reflexivity|].
          now apply explicit_step_expr.
      + destruct e; try discriminate; simpl.
        * apply explicit_step_outcome.
        * apply explicit_step_outcome.
        * destruct (rq_expr rq) as [[|c' x']|]; simpl; try apply explicit_step_outcome.
          set (X := c' :: x') in *. destruct (is_expr X) eqn:EX2.
          -- rewrite expr_spec by exact HT.
             destruct (expr_designates vcmp vmatch db n X f); [reflexivity|].
             apply explicit_step_outcome.
          -- apply explicit_step_outcome.
    - destruct e; try discriminate; reflexivity.
  Qed.

  Lemma step_clause e later :
    step_outcome (vro_step vcmp vmatch c db None rq f depth e later) = clause vcmp vmatch c db n vr f e later.
  Proof.
    destruct e; try (apply version_step_clause; reflexivity); try reflexivity.
    - (* keep *)
      unfold vro_step. cbn [clause]. destruct (0 <? depth); [reflexivity|].
      destruct (recognized c (lit "keep")); [|reflexivity].
      rewrite tag_step_outcome. unfold find_tagged.
      change (str_eqb (lit "keep") (lit "latest")) with false.
      change (str_eqb (lit "keep") (lit "setup")) with false. cbv iota.
      rewrite (wf_no_keep db n f WF). reflexivity.
    - (* tag *)
      unfold vro_step. cbn [clause]. destruct (recognized c t); [|reflexivity].
      rewrite tag_step_outcome, find_tagged_spec.
      destruct (str_eqb t (lit "latest")); [reflexivity|].
      destruct (str_eqb t (lit "setup")); reflexivity.
  Qed.

  Lemma loop_designates vro :
    option_map (fun x => fst (fst x)) (vro_loop vcmp vmatch c db None rq f depth vro) =
    designates_in vcmp vmatch c db n vr f vro.
  Proof.
    induction vro as [|e later IH]; simpl; [reflexivity|].
    pose proof (step_clause e later) as H.
    destruct (vro_step vcmp vmatch c db None rq f depth e later) as [|[[p r]|]]; simpl in H; rewrite <- H.
    - exact IH.
    - reflexivity.
    - reflexivity.
  Qed.

  Lemma find_from_vro_fresh vro :
    find_from_vro vcmp vmatch c db None f depth vro rq =
    match vro_loop vcmp vmatch c db None rq f depth vro with
    | Some (p, r, _) => Some (p, r)
    | None => None
    end.
  Proof. unfold find_from_vro. destruct (vro_loop _ _ _ _ _ _ _ _ _) as [[[p r] e0]|]; reflexivity. Qed.

  Lemma walk_designates vro :
    option_map fst (find_from_vro vcmp vmatch c db None f depth vro rq) =
    designates_in vcmp vmatch c db n vr f vro.
  Proof.
    rewrite find_from_vro_fresh, <- loop_designates.
    destruct (vro_loop _ _ _ _ _ _ _ _ _) as [[[p r] e0]|]; reflexivity.
  Qed.

  (* ---------------------------------------------------------------- the acceptance loop *)

  Fixpoint all_next (pre tail : list entry) : Prop :=
    match pre with
    | [] => True
    | e :: pre' => clause vcmp vmatch c db n vr f e (pre' ++ tail) = Next /\ all_next pre' tail
    end.

  Lemma loop_split vro p r e0 :
    vro_loop vcmp vmatch c db None rq f depth vro = Some (p, r, e0) ->
    exists pre later, vro = pre ++ e0 :: later /\ all_next pre (e0 :: later) /\
                      vro_step vcmp vmatch c db None rq f depth e0 later = Stop (Some (p, r)).
  Proof.
    induction vro as [|e l IH]; simpl; [discriminate|].
    pose proof (step_clause e l) as HC.
    destruct (vro_step vcmp vmatch c db None rq f depth e l) as [|[[p' r']|]] eqn:ES; intro H.
    - destruct (IH H) as [pre [later [E [AN ST]]]]. exists (e :: pre), later. subst l.
      split; [reflexivity|]. split; [|exact ST]. split; [|exact AN]. now rewrite <- HC.
    - injection H as -> -> ->. exists [], l. repeat split. exact ES.
    - discriminate.
  Qed.

  Lemma in_none_top_none vro :
    designates_in vcmp vmatch c db n vr f vro = None ->
    designates_top vcmp vmatch c db n vr f depth vro = None.
  Proof.
    induction vro as [|e l IH]; simpl; [reflexivity|].
    destruct (clause vcmp vmatch c db n vr f e l); [discriminate|reflexivity|exact IH].
  Qed.

  Lemma top_split pre e0 later :
    all_next pre (e0 :: later) ->
    designates_top vcmp vmatch c db n vr f depth (pre ++ e0 :: later) =
    match clause vcmp vmatch c db n vr f e0 later with
    | Yield p => if acceptable vr depth p then Some p
                 else designates_top vcmp vmatch c db n vr f depth later
    | Fail => None
    | Next => designates_top vcmp vmatch c db n vr f depth later
    end.
  Proof.
    induction pre as [|e pre IH]; simpl; [reflexivity|].
    intros [H AN]. rewrite H. now apply IH.
  Qed.

  Lemma in_split_yield pre e0 later p :
    all_next pre (e0 :: later) -> clause vcmp vmatch c db n vr f e0 later = Yield p ->
    designates_in vcmp vmatch c db n vr f (pre ++ e0 :: later) = Some p.
  Proof.
    induction pre as [|e pre IH]; simpl.
    - intros _ H. now rewrite H.
    - intros [H AN] HY. rewrite H. now apply IH.
  Qed.

  Lemma acceptable_model p :
    acceptable vr depth p =
    negb (match truthy (rq_version rq) with
          | Some v => (depth =? 0) && negb (is_expr v) && negb (str_eqb (fd_version p) v)
          | None => false
          end).
  Proof.
    unfold classify. destruct (rq_version rq) as [[|ch v]|]; simpl; try reflexivity.
    destruct (is_expr (ch :: v)); simpl.
    - now rewrite andb_false_r.
    - rewrite andb_true_r. destruct (depth =? 0); simpl; [|reflexivity].
      now rewrite negb_involutive.
  Qed.

  (* a product that a top-level request refuses was produced by an entry whose verdict does not
     depend on what follows it, and the reason names that entry *)
  Lemma yield_stable e0 later p :
    clause vcmp vmatch c db n vr f e0 later = Yield p -> acceptable vr depth p = false ->
    forall later', clause vcmp vmatch c db n vr f e0 later' = Yield p.
  Proof.
    intros HY HA later'. unfold acceptable in HA.
    destruct vr as [|v ox|x] eqn:EV; try discriminate.
    apply orb_false_iff in HA. destruct HA as [_ HA].
    assert (NV : fd_version p <> v) by (intro; subst; now rewrite str_eqb_refl in HA).
    assert (OF : forall l, or_fail (version_designates db n v f) l = Yield p -> False).
    { intros l H. unfold or_fail in H. destruct (version_designates db n v f) as [q|] eqn:EQ.
      - injection H as ->. apply version_designates_version in EQ. contradiction.
      - destruct (existsb is_version_like l); discriminate. }
    destruct e0; simpl in *; try discriminate; try exact HY.
    - exfalso. eapply OF; eauto.
    - exfalso. eapply OF; eauto.
    - destruct (match ox with Some x => expr_designates vcmp vmatch db n x f | None => None end); [exact HY|].
      exfalso. eapply OF; eauto.
  Qed.

  Lemma not_in_pre pre e0 later p :
    all_next pre (e0 :: later) ->
    (forall later', clause vcmp vmatch c db n vr f e0 later' = Yield p) -> ~ In e0 pre.
  Proof.
    induction pre as [|e pre IH]; simpl; [tauto|].
    intros [H AN] HY [->|Hin].
    - rewrite HY in H. discriminate.
    - now apply (IH AN HY).
  Qed.

  Lemma stop_reason e later p r :
    vro_step vcmp vmatch c db None rq f depth e later = Stop (Some (p, r)) ->
    fst r = e \/ (exists v, truthy (rq_version rq) = Some v /\ is_expr v = false /\ fd_version p = v).
  Proof.
    assert (TS : forall t, tag_step vcmp db (rq_name rq) f e t = Stop (Some (p, r)) -> fst r = e).
    { intros t H. unfold tag_step in H. destruct (find_tagged vcmp db (rq_name rq) t f); [|discriminate].
      injection H as _ <-. reflexivity. }
    assert (XS : forall v l, is_expr v = false -> truthy (rq_version rq) = Some v ->
                 explicit_step db (rq_name rq) v f depth l = Stop (Some (p, r)) ->
                 exists v0, truthy (rq_version rq) = Some v0 /\ is_expr v0 = false /\ fd_version p = v0).
    { intros v l NE TV H. unfold explicit_step in H. rewrite find_version_spec in H.
      destruct (version_designates db (rq_name rq) v f) as [q|] eqn:EQ.
      - injection H as -> _. apply version_designates_version in EQ. eauto.
      - destruct (existsb is_version_like l); discriminate. }
    assert (XE : forall v l, is_expr v = true ->
                 explicit_step db (rq_name rq) v f depth l = Stop (Some (p, r)) -> False).
    { intros v l IE H. unfold explicit_step in H. rewrite (wf_no_expr_version db _ v f WF IE) in H.
      destruct (existsb is_version_like l); discriminate. }
    assert (VS : is_version_like e = true ->
                 version_step vcmp vmatch db rq f depth e later = Stop (Some (p, r)) ->
                 fst r = e \/ (exists v, truthy (rq_version rq) = Some v /\ is_expr v = false /\ fd_version p = v)).
    { intros He H. unfold version_step in H.
      destruct (truthy (rq_version rq)) as [v|] eqn:TV; [|discriminate].
      destruct (is_expr v) eqn:IE.
      - destruct (entry_eqb e EVersionExpr) eqn:EE; simpl in H.
        + apply entry_eqb_eq in EE. subst e. rewrite IE in H.
          destruct (select_latest vcmp (find_by_expr vmatch db (rq_name rq) v f)).
          * injection H as _ <-. now left.
          * exfalso. eapply XE; eauto.
        + destruct (mem_entry EVersionExpr later); discriminate.
      - simpl in H. destruct (entry_eqb e EVersionExpr) eqn:EE.
        + apply entry_eqb_eq in EE. subst e.
          destruct (truthy (rq_expr rq)) as [x|]; [|right; eapply XS; eauto].
          destruct (is_expr x); [|right; eapply XS; eauto].
          destruct (select_latest vcmp (find_by_expr vmatch db (rq_name rq) x f)).
          * injection H as _ <-. now left.
          * right. eapply XS; eauto.
        + right. eapply XS; eauto. }
    destruct e; unfold vro_step; cbv beta iota; intro H; try discriminate; try (apply VS; [reflexivity|exact H]).
    - destruct (0 <? depth); [discriminate|]. destruct (recognized c (lit "keep")); [|discriminate].
      left. eapply TS; eauto.
    - destruct (recognized c t); [|discriminate]. left. eapply TS; eauto.
  Qed.

  Lemma accept_top keep : forall fuel vro,
    length vro < fuel ->
    exists r, accept_loop vcmp vmatch fuel c db keep None f depth vro rq = Ok r /\
              option_map fst r = designates_top vcmp vmatch c db n vr f depth vro.
  Proof.
    induction fuel as [|k IH]; intros vro Hlen; [lia|].
    destruct vro as [|e l]; [exists None; split; reflexivity|].
    set (vro := e :: l) in *.
    assert (UNF : accept_loop vcmp vmatch (S k) c db keep None f depth vro rq =
      match find_from_vro vcmp vmatch c db None f depth vro rq with
      | Some (p, r) =>
          match truthy (rq_version rq) with
          | Some v =>
              if (depth =? 0) && negb (is_expr v) && negb (str_eqb (fd_version p) v) then
                match index_of (fst r) vro with
                | None => Err Crash
                | Some i => accept_loop vcmp vmatch k c db keep None f depth (skipn (S i) vro) rq
                end
              else Ok (Some (p, Some r))
          | None => Ok (Some (p, Some r))
          end
      | None => Ok None
      end).
    { unfold vro. cbn [accept_loop].
      destruct (find_from_vro vcmp vmatch c db None f depth (e :: l) rq) as [[p [tag x]]|]; reflexivity. }
    rewrite UNF. rewrite find_from_vro_fresh.
    destruct (vro_loop vcmp vmatch c db None rq f depth vro) as [[[p r] e0]|] eqn:EL.
    - destruct (loop_split vro p r e0 EL) as [pre [later [EV [AN ST]]]].
      pose proof (step_clause e0 later) as HC. rewrite ST in HC. simpl in HC. symmetry in HC.
      assert (TOP : designates_top vcmp vmatch c db n vr f depth vro =
                    match clause vcmp vmatch c db n vr f e0 later with
                    | Yield p0 => if acceptable vr depth p0 then Some p0
                                  else designates_top vcmp vmatch c db n vr f depth later
                    | Fail => None
                    | Next => designates_top vcmp vmatch c db n vr f depth later
                    end) by (rewrite EV; apply top_split; exact AN).
      rewrite TOP, HC.
      pose proof (acceptable_model p) as AM.
      destruct (acceptable vr depth p) eqn:AC.
      + exists (Some (p, Some r)). split; [|reflexivity].
        destruct (truthy (rq_version rq)) as [v|]; [|reflexivity].
        symmetry in AM. apply negb_true_iff in AM. now rewrite AM.
      + destruct (truthy (rq_version rq)) as [v|] eqn:TV; [|discriminate].
        symmetry in AM. apply negb_false_iff in AM. rewrite AM.
        assert (ER : fst r = e0).
        { destruct (stop_reason e0 later p r ST) as [H|[v0 [H1 [H2 H3]]]]; [exact H|].
          exfalso. rewrite TV in H1. injection H1 as <-.
          apply andb_true_iff in AM. destruct AM as [_ AM]. apply negb_true_iff in AM.
          rewrite H3, str_eqb_refl in AM. discriminate. }
        rewrite ER.
        pose proof (yield_stable e0 later p HC AC) as YS.
        pose proof (not_in_pre pre e0 later p AN YS) as NI.
        rewrite EV. rewrite (index_of_first e0 pre later NI), skipn_after.
        apply IH. rewrite EV in Hlen. rewrite app_length in Hlen. simpl in Hlen. lia.
    - exists None. split; [reflexivity|]. symmetry. apply in_none_top_none.
      rewrite <- loop_designates, EL. reflexivity.
  Qed.
End Walk.

Lemma resolve_designates vcmp vmatch c db keep flavors depth vro rq :
  wf_db db = true -> total_order_on vcmp (names_of db (rq_name rq)) ->
  exists r, resolve_request vcmp vmatch c db keep None flavors depth vro rq = Ok r /\
            option_map fst r = designates vcmp vmatch c db flavors depth vro rq.
Proof.
  intros WF HT. unfold resolve_request, designates.
  induction flavors as [|f fs IH]; cbn [flavor_loop first_some].
  - exists None. split; reflexivity.
  - destruct (accept_top vcmp vmatch c db rq f depth WF HT keep (S (length vro)) vro (Nat.lt_succ_diag_r _))
      as [r [E1 E2]].
    rewrite E1. destruct r as [x|].
    + exists (Some x). split; [reflexivity|]. simpl in E2. now rewrite <- E2.
    + simpl in E2. rewrite <- E2. exact IH.
Qed.

(* ---------------------------------------------------------------- decidable total order *)

Lemma cmp_eqb_eq a b : cmp_eqb a b = true <-> a = b.
Proof. destruct a, b; simpl; split; congruence. Qed.

Lemma total_orderb_sound vcmp l : total_orderb vcmp l = true -> total_order_on vcmp l.
Proof.
  unfold total_orderb. intro H. apply andb_true_iff in H. destruct H as [H H3].
  apply andb_true_iff in H. destruct H as [H1 H2].
  rewrite forallb_forall in H1, H2, H3. repeat split.
  - intros x Hx. apply cmp_eqb_eq. now apply H1.
  - intros x y Hx Hy E. specialize (H2 x Hx). rewrite forallb_forall in H2. specialize (H2 y Hy).
    apply andb_true_iff in H2. destruct H2 as [H2 _]. rewrite E in H2. now apply str_eqb_eq.
  - intros x y Hx Hy. specialize (H2 x Hx). rewrite forallb_forall in H2. specialize (H2 y Hy).
    apply andb_true_iff in H2. destruct H2 as [_ H2]. now apply cmp_eqb_eq.
  - intros x y z Hx Hy Hz A B. specialize (H3 x Hx). rewrite forallb_forall in H3. specialize (H3 y Hy).
    rewrite forallb_forall in H3. specialize (H3 z Hz).
    destruct (vcmp x y); try congruence; destruct (vcmp y z); try congruence;
      destruct (vcmp x z); simpl in H3; congruence.
Qed.

(* ---------------------------------------------------------------- entries after the last version entry *)

Lemma no_vl_no_expr l : existsb is_version_like l = false -> mem_entry EVersionExpr l = false.
Proof.
  induction l as [|e l IH]; simpl; [reflexivity|]. intro H. apply orb_false_iff in H. destruct H as [He Hl].
  destruct e; simpl in *; try discriminate; auto.
Qed.

Section Cut.
  Variable vcmp : str -> str -> comparison.
  Variable vmatch : str -> str -> bool.
  Variable c : config.
  Variable db : dbv.
  Variable prev : option (found * option reason).
  Variable rq : request.
  Variable f : str.
  Variable depth : nat.

  Lemma vro_step_cut e l1 l2 :
    existsb is_version_like l1 = existsb is_version_like l2 ->
    mem_entry EVersionExpr l1 = mem_entry EVersionExpr l2 ->
    vro_step vcmp vmatch c db prev rq f depth e l1 = vro_step vcmp vmatch c db prev rq f depth e l2.
  Proof.
    intros H1 H2. unfold vro_step, version_step, explicit_step. rewrite H1, H2. reflexivity.
  Qed.

  Lemma last_vl_stops e later v :
    truthy (rq_version rq) = Some v -> is_version_like e = true ->
    existsb is_version_like later = false ->
    vro_step vcmp vmatch c db prev rq f depth e later <> Continue.
  Proof.
    intros TV He NV.
    assert (X : forall w, explicit_step db (rq_name rq) w f depth later <> Continue).
    { intro w. unfold explicit_step. destruct (find_version db (rq_name rq) w f); [discriminate|].
      rewrite NV. discriminate. }
    assert (VS : version_step vcmp vmatch db rq f depth e later <> Continue).
    { unfold version_step. rewrite TV. rewrite (no_vl_no_expr later NV).
      destruct (is_expr v && negb (entry_eqb e EVersionExpr)); [discriminate|].
      destruct (if entry_eqb e EVersionExpr then if is_expr v then Some v else truthy (rq_expr rq) else None)
        as [x|]; [|apply X].
      destruct (is_expr x); [|apply X].
      destruct (select_latest vcmp (find_by_expr vmatch db (rq_name rq) x f)); [discriminate|apply X]. }
    destruct e; try discriminate; exact VS.
  Qed.

  Lemma loop_cut pre e post v :
    truthy (rq_version rq) = Some v -> is_version_like e = true ->
    existsb is_version_like post = false ->
    vro_loop vcmp vmatch c db prev rq f depth (pre ++ e :: post) =
    vro_loop vcmp vmatch c db prev rq f depth (pre ++ [e]).
  Proof.
    intros TV He NV. induction pre as [|e' pre IH]; cbn [app vro_loop].
    - rewrite (vro_step_cut e post []); [|simpl; exact NV|simpl; now apply no_vl_no_expr].
      pose proof (last_vl_stops e [] v TV He eq_refl) as NC.
      destruct (vro_step vcmp vmatch c db prev rq f depth e []) as [|[[p r]|]]; [contradiction|reflexivity|reflexivity].
    - rewrite (vro_step_cut e' (pre ++ e :: post) (pre ++ [e])).
      + destruct (vro_step vcmp vmatch c db prev rq f depth e' (pre ++ [e])) as [|[[p r]|]]; auto.
      + rewrite !existsb_app. simpl. rewrite He. now rewrite !orb_true_r.
      + rewrite !mem_entry_app. simpl. rewrite (no_vl_no_expr post NV).
        destruct (entry_eqb EVersionExpr e); reflexivity.
  Qed.
End Cut.

Lemma find_from_vro_none_prev vcmp vmatch c db f depth vro rq :
  find_from_vro vcmp vmatch c db None f depth vro rq =
  match vro_loop vcmp vmatch c db None rq f depth vro with
  | Some (p, r, _) => Some (p, r)
  | None => None
  end.
Proof. unfold find_from_vro. destruct (vro_loop _ _ _ _ _ _ _ _ _) as [[[p r] e0]|]; reflexivity. Qed.

Lemma walk_cut vcmp vmatch c db f depth pre e post rq :
  truthy (rq_version rq) <> None -> is_version_like e = true -> existsb is_version_like post = false ->
  find_from_vro vcmp vmatch c db None f depth (pre ++ e :: post) rq =
  find_from_vro vcmp vmatch c db None f depth (pre ++ [e]) rq.
Proof.
  intros TV He NV. destruct (truthy (rq_version rq)) as [v|] eqn:E; [|contradiction].
  rewrite !find_from_vro_none_prev. now rewrite (loop_cut vcmp vmatch c db None rq f depth pre e post v).
Qed.

(* ---------------------------------------------------------------- inert prefixes *)

Lemma inert_step vcmp vmatch c db rq f depth e later :
  wf_db db = true -> is_inert e = true ->
  vro_step vcmp vmatch c db None rq f depth e later = Continue.
Proof.
  intros WF He. destruct e; try discriminate; try reflexivity.
  unfold vro_step. destruct (0 <? depth); [reflexivity|].
  destruct (recognized c (lit "keep")); [|reflexivity].
  unfold tag_step, find_tagged.
  change (str_eqb (lit "keep") (lit "latest")) with false.
  change (str_eqb (lit "keep") (lit "setup")) with false. cbv iota.
  now rewrite (wf_no_keep db (rq_name rq) f WF).
Qed.

Lemma inert_loop vcmp vmatch c db rq f depth pre l :
  wf_db db = true -> forallb is_inert pre = true ->
  vro_loop vcmp vmatch c db None rq f depth (pre ++ l) = vro_loop vcmp vmatch c db None rq f depth l.
Proof.
  intros WF. induction pre as [|e pre IH]; cbn [app vro_loop forallb]; [reflexivity|].
  intro H. apply andb_true_iff in H. destruct H as [He Hp].
  rewrite (inert_step vcmp vmatch c db rq f depth e _ WF He). now apply IH.
Qed.

(* entries that a request naming no version passes over *)
Definition skipped_when_bare (e : entry) : bool := is_inert e || is_version_like e.

Lemma bare_loop vcmp vmatch c db rq f depth pre l :
  wf_db db = true -> truthy (rq_version rq) = None -> forallb skipped_when_bare pre = true ->
  vro_loop vcmp vmatch c db None rq f depth (pre ++ l) = vro_loop vcmp vmatch c db None rq f depth l.
Proof.
  intros WF TV. induction pre as [|e pre IH]; cbn [app vro_loop forallb]; [reflexivity|].
  intro H. apply andb_true_iff in H. destruct H as [He Hp].
  assert (S : vro_step vcmp vmatch c db None rq f depth e (pre ++ l) = Continue).
  { unfold skipped_when_bare in He. apply orb_true_iff in He. destruct He as [He|He].
    - now apply inert_step.
    - destruct e; try discriminate; unfold vro_step, version_step; now rewrite TV. }
  rewrite S. now apply IH.
Qed.

Lemma tag_hit vcmp vmatch c db rq f depth t rest p :
  recognized c t = true -> str_eqb t (lit "latest") = false -> str_eqb t (lit "setup") = false ->
  tag_designates db (rq_name rq) t f = Some p ->
  vro_loop vcmp vmatch c db None rq f depth (ETag t :: rest) = Some (p, (ETag t, None), ETag t).
Proof.
  intros R L S T. cbn [vro_loop]. unfold vro_step. rewrite R. unfold tag_step, find_tagged.
  rewrite L, S, find_chain_tagged_spec, T. reflexivity.
Qed.

(* ---------------------------------------------------------------- first stack wins *)

Lemma find_version_first db1 s db2 n v f :
  (forall s', In s' db1 -> declared s' n v f = false) -> declared s n v f = true ->
  find_version (db1 ++ s :: db2) n v f = Some (found_in s n v f).
Proof.
  intros H1 H2. rewrite find_version_spec. unfold version_designates. rewrite first_some_app.
  rewrite first_some_none; [simpl; now rewrite H2|]. intros a Ha. now rewrite (H1 a Ha).
Qed.

Lemma find_tagged_first vcmp db1 s db2 n t v f :
  str_eqb t (lit "latest") = false -> str_eqb t (lit "setup") = false ->
  (forall s' v', In s' db1 -> chain_version s' n f t = Some v' -> declared s' n v' f = false) ->
  chain_version s n f t = Some v -> declared s n v f = true ->
  find_tagged vcmp (db1 ++ s :: db2) n t f = Some (found_in s n v f).
Proof.
  intros L S H1 H2 H3. unfold find_tagged. rewrite L, S, find_chain_tagged_spec.
  unfold tag_designates. rewrite first_some_app. rewrite first_some_none.
  - simpl. now rewrite H2, H3.
  - intros a Ha. destruct (chain_version a n f t) as [v'|] eqn:E; [|reflexivity].
    now rewrite (H1 a v' Ha E).
Qed.

(* ---------------------------------------------------------------- results carry the flavor asked for *)

Lemma fold_higher_in vcmp r : forall b, In (fold_left (higher vcmp) r b) (b :: r).
Proof.
  induction r as [|y r IH]; intro b; simpl; [now left|].
  specialize (IH (higher vcmp b y)). destruct IH as [E|H].
  - rewrite <- E. unfold higher. destruct (vcmp _ _); auto.
  - auto.
Qed.

Lemma highest_in vcmp l p : highest vcmp l = Some p -> In p l.
Proof. destruct l as [|a l]; simpl; [discriminate|]. intro H. injection H as <-. apply fold_higher_in. Qed.

Lemma first_some_in {A B} (g : A -> option B) l b : first_some g l = Some b -> exists a, In a l /\ g a = Some b.
Proof.
  induction l as [|a l IH]; simpl; [discriminate|]. destruct (g a) eqn:E.
  - intro H. injection H as <-. exists a. auto.
  - intro H. destruct (IH H) as [a' [Ha Hg]]. exists a'. auto.
Qed.

Lemma clause_flavor vcmp vmatch c db n vr f e later p :
  clause vcmp vmatch c db n vr f e later = Yield p -> fd_flavor p = f /\ fd_name p = n.
Proof.
  assert (HC : forall l, highest vcmp (filter l (candidates db n f)) = Some p -> fd_flavor p = f /\ fd_name p = n).
  { intros l H. apply highest_in in H. apply filter_In in H. destruct H as [H _]. eapply candidates_flavor; eauto. }
  assert (HC0 : highest vcmp (candidates db n f) = Some p -> fd_flavor p = f /\ fd_name p = n).
  { intro H. apply highest_in in H. eapply candidates_flavor; eauto. }
  assert (HV : forall v l, or_fail (version_designates db n v f) l = Yield p -> fd_flavor p = f /\ fd_name p = n).
  { intros v l H. unfold or_fail in H. destruct (version_designates db n v f) as [q|] eqn:E.
    - injection H as ->. unfold version_designates in E. apply first_some_in in E. destruct E as [s [_ E]].
      destruct (declared s n v f); [|discriminate]. injection E as <-. simpl. auto.
    - destruct (existsb is_version_like l); discriminate. }
  assert (HT : forall t, tag_designates db n t f = Some p -> fd_flavor p = f /\ fd_name p = n).
  { intros t E. unfold tag_designates in E. apply first_some_in in E. destruct E as [s [_ E]].
    destruct (chain_version s n f t) as [v|]; [|discriminate].
    destruct (declared s n v f); [|discriminate]. injection E as <-. simpl. auto. }
  assert (HO : forall o, of_option o = Yield p -> o = Some p).
  { intros [q|] H; simpl in H; [now injection H as ->|discriminate]. }
  destruct e; cbn [clause]; try discriminate.
  - destruct vr as [|v ox|x]; try discriminate.
    + apply HV.
    + destruct (mem_entry EVersionExpr later); discriminate.
  - destruct vr as [|v ox|x]; try discriminate.
    + apply HV.
    + destruct (mem_entry EVersionExpr later); discriminate.
  - destruct vr as [|v ox|x]; try discriminate.
    + destruct ox as [x|].
      * unfold expr_designates. destruct (highest vcmp (filter _ (candidates db n f))) as [q|] eqn:E.
        -- intro H. injection H as ->. eapply HC; eauto.
        -- apply HV.
      * apply HV.
    + unfold or_fail, expr_designates. destruct (highest vcmp (filter _ (candidates db n f))) as [q|] eqn:E.
      * intro H. injection H as ->. eapply HC; eauto.
      * destruct (existsb is_version_like later); discriminate.
  - destruct (recognized c t); [|discriminate].
    destruct (str_eqb t (lit "latest")); [intro H; apply HO in H; auto|].
    destruct (str_eqb t (lit "setup")); [discriminate|]. intro H. apply HO in H. eauto.
Qed.

Lemma designates_top_flavor vcmp vmatch c db n vr f depth vro p :
  designates_top vcmp vmatch c db n vr f depth vro = Some p -> fd_flavor p = f /\ fd_name p = n.
Proof.
  induction vro as [|e l IH]; simpl; [discriminate|].
  destruct (clause vcmp vmatch c db n vr f e l) as [q| |] eqn:E; [|discriminate|exact IH].
  destruct (acceptable vr depth q); [|exact IH]. intro H. injection H as ->. eapply clause_flavor; eauto.
Qed.

(* ---------------------------------------------------------------- explicit top-level versions *)

Lemma accept_loop_version vcmp vmatch c db keep prev f rq v : forall fuel vro p r,
  truthy (rq_version rq) = Some v -> is_expr v = false ->
  accept_loop vcmp vmatch fuel c db keep prev f 0 vro rq = Ok (Some (p, r)) -> fd_version p = v.
Proof.
  induction fuel as [|k IH]; intros vro0 p r TV NE; [discriminate|].
  cbn [accept_loop]. destruct vro0 as [|e l]; [discriminate|].
  set (cand := match find_from_vro vcmp vmatch c db prev f 0 (e :: l) rq with
               | Some (p0, r0) => Some (p0, Some r0)
               | None => match prev with
                         | Some (op, _) => if keep || opt_str_eqb (fd_version op) (rq_version rq)
                                           then Some (op, None) else None
                         | None => None
                         end
               end).
  destruct cand as [[p0 r0]|]; [|discriminate].
  rewrite TV, NE. cbn [Nat.eqb negb andb].
  destruct (str_eqb (fd_version p0) v) eqn:EV; cbn [negb].
  - intro H. injection H as <- _. now apply str_eqb_eq.
  - destruct r0 as [[tag x]|]; [|discriminate].
    destruct (index_of tag (e :: l)); [|discriminate]. apply IH; assumption.
Qed.

Lemma resolve_version vcmp vmatch c db keep prev flavors vro rq v p r :
  truthy (rq_version rq) = Some v -> is_expr v = false ->
  resolve_request vcmp vmatch c db keep prev flavors 0 vro rq = Ok (Some (p, r)) -> fd_version p = v.
Proof.
  intros TV NE. unfold resolve_request. induction flavors as [|f fs IH]; cbn [flavor_loop]; [discriminate|].
  destruct (accept_loop vcmp vmatch (S (length vro)) c db keep prev f 0 vro rq) as [[[p0 r0]|]|] eqn:E.
  - intro H. injection H as -> ->. eapply accept_loop_version; eauto.
  - exact IH.
  - discriminate.
Qed.

(* ---------------------------------------------------------------- shapes of the default VRO *)

Lemma accept_none vcmp vmatch c db keep f depth vro rq k :
  find_from_vro vcmp vmatch c db None f depth vro rq = None ->
  accept_loop vcmp vmatch (S k) c db keep None f depth vro rq = Ok None.
Proof. intro H. cbn [accept_loop]. destruct vro; [reflexivity|]. now rewrite H. Qed.

Lemma accept_deep vcmp vmatch c db keep prev f d vro rq k p r :
  find_from_vro vcmp vmatch c db prev f (S d) vro rq = Some (p, r) ->
  accept_loop vcmp vmatch (S k) c db keep prev f (S d) vro rq = Ok (Some (p, Some r)).
Proof.
  intro H. cbn [accept_loop]. destruct vro as [|e l].
  - unfold find_from_vro in H. simpl in H. discriminate.
  - rewrite H. destruct (truthy (rq_version rq)); reflexivity.
Qed.

Lemma undeclared_fails_walk vcmp vmatch c db f depth pre post rq v :
  wf_db db = true -> forallb is_inert pre = true ->
  truthy (rq_version rq) = Some v -> is_expr v = false -> truthy (rq_expr rq) = None ->
  (forall s, In s db -> declared s (rq_name rq) v f = false) ->
  existsb is_version_like post = false ->
  find_from_vro vcmp vmatch c db None f depth (pre ++ EVersion :: EVersionExpr :: post) rq = None.
Proof.
  intros WF IN TV NE TX ND NV.
  replace (pre ++ EVersion :: EVersionExpr :: post) with ((pre ++ [EVersion]) ++ EVersionExpr :: post)
    by (rewrite <- app_assoc; reflexivity).
  rewrite walk_cut; [|rewrite TV; discriminate|reflexivity|exact NV].
  rewrite <- app_assoc. cbn [app]. rewrite find_from_vro_none_prev, inert_loop by assumption.
  assert (FV : find_version db (rq_name rq) v f = None)
    by (rewrite find_version_spec; now apply version_designates_none).
  cbn [vro_loop]. unfold vro_step, version_step, explicit_step. rewrite TV, NE, TX, FV. reflexivity.
Qed.

Lemma undeclared_fails_resolve vcmp vmatch c db keep flavors depth pre post rq v :
  wf_db db = true -> forallb is_inert pre = true ->
  truthy (rq_version rq) = Some v -> is_expr v = false -> truthy (rq_expr rq) = None ->
  (forall f s, In f flavors -> In s db -> declared s (rq_name rq) v f = false) ->
  existsb is_version_like post = false ->
  resolve_request vcmp vmatch c db keep None flavors depth (pre ++ EVersion :: EVersionExpr :: post) rq = Ok None.
Proof.
  intros WF IN TV NE TX ND NV. unfold resolve_request.
  induction flavors as [|f fs IH]; cbn [flavor_loop]; [reflexivity|].
  rewrite accept_none.
  - apply IH. intros f0 s Hf. apply ND. now right.
  - eapply undeclared_fails_walk; eauto. intros s Hs. apply ND; [now left|assumption].
Qed.

Lemma pretag_walk vcmp vmatch c db f depth pre t rest rq p :
  wf_db db = true -> forallb is_inert pre = true ->
  recognized c t = true -> str_eqb t (lit "latest") = false -> str_eqb t (lit "setup") = false ->
  tag_designates db (rq_name rq) t f = Some p ->
  find_from_vro vcmp vmatch c db None f depth (pre ++ ETag t :: rest) rq = Some (p, (ETag t, None)).
Proof.
  intros WF IN R L S T. rewrite find_from_vro_none_prev, inert_loop by assumption.
  now rewrite (tag_hit vcmp vmatch c db rq f depth t rest p R L S T).
Qed.

Lemma pretag_resolve vcmp vmatch c db keep f fs d pre t rest rq p :
  wf_db db = true -> forallb is_inert pre = true ->
  recognized c t = true -> str_eqb t (lit "latest") = false -> str_eqb t (lit "setup") = false ->
  tag_designates db (rq_name rq) t f = Some p ->
  resolve_request vcmp vmatch c db keep None (f :: fs) (S d) (pre ++ ETag t :: rest) rq =
  Ok (Some (p, Some (ETag t, None))).
Proof.
  intros WF IN R L S T. unfold resolve_request. cbn [flavor_loop].
  rewrite (accept_deep vcmp vmatch c db keep None f d _ rq _ p (ETag t, None)); [reflexivity|].
  now apply pretag_walk.
Qed.

Lemma posttag_walk vcmp vmatch c db f depth pre t rest rq p :
  wf_db db = true -> truthy (rq_version rq) = None -> forallb skipped_when_bare pre = true ->
  recognized c t = true -> str_eqb t (lit "latest") = false -> str_eqb t (lit "setup") = false ->
  tag_designates db (rq_name rq) t f = Some p ->
  find_from_vro vcmp vmatch c db None f depth (pre ++ ETag t :: rest) rq = Some (p, (ETag t, None)).
Proof.
  intros WF TV SK R L S T. rewrite find_from_vro_none_prev, bare_loop by assumption.
  now rewrite (tag_hit vcmp vmatch c db rq f depth t rest p R L S T).
Qed.

(* ---------------------------------------------------------------- the rank rule *)

Lemma index_of_some_mem e l i : index_of e l = Some i -> mem_entry e l = true.
Proof.
  revert i. induction l as [|x l IH]; simpl; intros i H; [discriminate|].
  destruct (entry_eqb e x); [reflexivity|]. destruct (index_of e l) as [j|]; [|discriminate]. eauto.
Qed.

Lemma index_of_none_mem e l : index_of e l = None -> mem_entry e l = false.
Proof.
  induction l as [|x l IH]; simpl; [reflexivity|].
  destruct (entry_eqb e x); [discriminate|]. destruct (index_of e l); [discriminate|]. auto.
Qed.

Lemma rank_rule vcmp vmatch c db op otag ox f depth vro rq p r e0 :
  vro_loop vcmp vmatch c db (Some (op, Some (otag, ox))) rq f depth vro = Some (p, r, e0) ->
  find_from_vro vcmp vmatch c db (Some (op, Some (otag, ox))) f depth vro rq =
  match index_of otag vro, index_of e0 vro with
  | Some i, Some j => if i <? j then Some (op, (otag, ox)) else Some (p, r)
  | _, _ => Some (p, r)
  end.
Proof.
  intro H. unfold find_from_vro. rewrite H.
  destruct (index_of otag vro) as [i|] eqn:Ei.
  - rewrite (index_of_some_mem _ _ _ Ei). destruct (index_of e0 vro) as [j|]; simpl; reflexivity.
  - rewrite (index_of_none_mem _ _ Ei). reflexivity.
Qed.

(* ---------------------------------------------------------------- highest *)

Lemma expr_highest_lemma vcmp vmatch db n x f p :
  total_order_on vcmp (names_of db n) ->
  select_latest vcmp (find_by_expr vmatch db n x f) = Some p ->
  In p (candidates db n f) /\ vmatch (fd_version p) x = true /\
  (forall q, In q (candidates db n f) -> vmatch (fd_version q) x = true ->
             vcmp (fd_version q) (fd_version p) <> Gt) /\
  find (fun q => str_eqb (fd_version q) (fd_version p))
       (filter (fun q => vmatch (fd_version q) x) (candidates db n f)) = Some p.
Proof.
  intros HT H. rewrite expr_spec in H by assumption. unfold expr_designates in H.
  apply (highest_best vcmp (names_of db n) HT) in H.
  - destruct H as [I [M F]]. apply filter_In in I. destruct I as [I1 I2].
    split; [assumption|]. split; [assumption|]. split; [|exact F].
    intros q Hq Mq. apply M. apply filter_In. auto.
  - intros q Hq. apply filter_In in Hq. destruct Hq as [Hq _]. now apply candidates_names in Hq.
Qed.

Lemma latest_highest_lemma vcmp db n f p :
  total_order_on vcmp (names_of db n) ->
  find_latest vcmp db n f = Some p ->
  In p (candidates db n f) /\
  (forall q, In q (candidates db n f) -> vcmp (fd_version q) (fd_version p) <> Gt) /\
  find (fun q => str_eqb (fd_version q) (fd_version p)) (candidates db n f) = Some p.
Proof.
  intros HT H. rewrite find_latest_spec in H by assumption.
  apply (highest_best vcmp (names_of db n) HT) in H; [exact H|].
  intros q Hq. now apply candidates_names in Hq.
Qed.
