(* C03, extension - lemmas about Model/ResolveExt.v: user tags as chain entries (flatten), the extended walk and the
   extended designation rule, tag files, LOCAL: versions, the explicit VRO. *)
From Coq Require Import Lia.
From Eupsv Require Import Base.Base Base.BaseLemmas Model.Resolve Model.ResolveSpec Model.ResolveExt
     Proofs.ResolveLib Proofs.Resolve.

(* ---------------------------------------------------------------- chain look-ups *)

Lemma chain_lookup_app l1 l2 n f t :
  chain_lookup (l1 ++ l2) n f t =
  match chain_lookup l1 n f t with Some v => Some v | None => chain_lookup l2 n f t end.
Proof.
  induction l1 as [|[[[n' f'] t'] v'] r IH]; simpl; [reflexivity|].
  destruct (str_eqb n n' && str_eqb f f' && str_eqb t t'); [reflexivity|exact IH].
Qed.

Lemma chain_lookup_has_file l n f t v : chain_lookup l n f t = Some v -> has_chain_file l n t = true.
Proof.
  unfold has_chain_file. induction l as [|[[[n' f'] t'] v'] r IH]; simpl; [discriminate|].
  destruct (str_eqb n n') eqn:En; simpl.
  - destruct (str_eqb f f') eqn:Ef; simpl.
    + destruct (str_eqb t t') eqn:Et; simpl; [reflexivity|exact IH].
    + destruct (str_eqb t t'); simpl; [reflexivity|exact IH].
  - exact IH.
Qed.

Lemma chain_lookup_no_file l n f t : has_chain_file l n t = false -> chain_lookup l n f t = None.
Proof.
  intro H. destruct (chain_lookup l n f t) eqn:E; [|reflexivity].
  apply chain_lookup_has_file in E. rewrite E in H. discriminate.
Qed.

Lemma chain_lookup_filter_reach c own l n f t :
  chain_lookup (filter (reachable_user c own) l) n f t =
  if is_user_tag c t && negb (has_chain_file own n t) then chain_lookup l n f t else None.
Proof.
  induction l as [|[[[n' f'] t'] v'] r IH]; simpl.
  - destruct (is_user_tag c t && negb (has_chain_file own n t)); reflexivity.
  - destruct (str_eqb n n' && str_eqb f f' && str_eqb t t') eqn:M.
    + apply andb_true_iff in M. destruct M as [M Et]. apply andb_true_iff in M. destruct M as [En Ef].
      apply str_eqb_eq in En, Ef, Et. subst n' f' t'.
      destruct (is_user_tag c t && negb (has_chain_file own n t)) eqn:R; simpl.
      * now rewrite !str_eqb_refl.
      * rewrite IH. reflexivity.
    + destruct (is_user_tag c t' && negb (has_chain_file own n' t')); simpl; [rewrite M|]; exact IH.
Qed.

Lemma flat_chain_version c sx n f t :
  chain_version (flat_stack c sx) n f t = chain_version_x c sx n f t.
Proof.
  unfold chain_version, chain_version_x, flat_stack. cbn [st_chain]. rewrite chain_lookup_app, chain_lookup_filter_reach.
  destruct (has_chain_file (st_chain (sx_base sx)) n t) eqn:H.
  - rewrite andb_false_r. unfold chain_version. destruct (chain_lookup (st_chain (sx_base sx)) n f t); reflexivity.
  - rewrite (chain_lookup_no_file _ _ _ _ H), andb_true_r. reflexivity.
Qed.

Lemma find_chain_tagged_flat c d n t f :
  find_chain_tagged (flatten c d) n t f = find_chain_tagged_x c d n t f.
Proof.
  induction d as [|sx r IH]; simpl; [reflexivity|].
  rewrite flat_chain_version. destruct (chain_version_x c sx n f t) as [v|]; [|exact IH].
  change (declared (flat_stack c sx) n v f) with (declared (sx_base sx) n v f).
  destruct (declared (sx_base sx) n v f); [reflexivity|exact IH].
Qed.

Lemma find_version_flat c d n v f : find_version (flatten c d) n v f = find_version (base_db d) n v f.
Proof.
  induction d as [|sx r IH]; simpl; [reflexivity|].
  change (declared (flat_stack c sx) n v f) with (declared (sx_base sx) n v f).
  destruct (declared (sx_base sx) n v f); [reflexivity|exact IH].
Qed.

Lemma find_latest_flat vcmp c d n f : find_latest vcmp (flatten c d) n f = find_latest vcmp (base_db d) n f.
Proof.
  unfold find_latest. generalize (@None found). induction d as [|sx r IH]; intro out; simpl; [reflexivity|].
  change (stack_latest vcmp (flat_stack c sx) n f) with (stack_latest vcmp (sx_base sx) n f).
  destruct (stack_latest vcmp (sx_base sx) n f) as [l|]; [|apply IH].
  destruct out as [o|]; [|apply IH]. destruct (vcmp (fd_version l) (fd_version o)); apply IH.
Qed.

Lemma add_new_flat c sx n f vs : forall out,
  add_new (flat_stack c sx) n f vs out = add_new (sx_base sx) n f vs out.
Proof.
  induction vs as [|v r IH]; intro out; simpl; [reflexivity|].
  destruct (existsb (fun p => str_eqb (fd_version p) v) out); apply IH.
Qed.

Lemma find_by_expr_flat vmatch c d n x f :
  find_by_expr vmatch (flatten c d) n x f = find_by_expr vmatch (base_db d) n x f.
Proof.
  unfold find_by_expr. generalize (@nil found). induction d as [|sx r IH]; intro out; simpl; [reflexivity|].
  rewrite add_new_flat. apply IH.
Qed.

Lemma names_of_flat c d n : names_of (flatten c d) n = names_of (base_db d) n.
Proof. induction d as [|sx r IH]; simpl; [reflexivity|]. now rewrite IH. Qed.

Lemma candidates_flat c d n f : candidates (flatten c d) n f = candidates (base_db d) n f.
Proof. induction d as [|sx r IH]; simpl; [reflexivity|]. now rewrite IH. Qed.

Lemma find_tagged_flat vcmp c d n t f : find_tagged vcmp (flatten c d) n t f = find_tagged_x vcmp c d n t f.
Proof.
  unfold find_tagged, find_tagged_x. destruct (str_eqb t (lit "latest")); [apply find_latest_flat|].
  destruct (str_eqb t (lit "setup")); [reflexivity|apply find_chain_tagged_flat].
Qed.

(* ---------------------------------------------------------------- the user tag entry *)

Lemma find_chain_tagged_x_spec c d n t f : find_chain_tagged_x c d n t f = tag_designates_x c d n t f.
Proof.
  unfold tag_designates_x. induction d as [|sx r IH]; simpl; [reflexivity|].
  destruct (chain_version_x c sx n f t) as [v|]; [|exact IH].
  destruct (declared (sx_base sx) n v f); [reflexivity|exact IH].
Qed.

Lemma tag_designates_flat c d n t f : tag_designates (flatten c d) n t f = tag_designates_x c d n t f.
Proof. now rewrite <- find_chain_tagged_spec, find_chain_tagged_flat, find_chain_tagged_x_spec. Qed.

Lemma find_chain_tagged_x_first c d1 sx d2 n t v f :
  (forall s' v', In s' d1 -> chain_version_x c s' n f t = Some v' -> declared (sx_base s') n v' f = false) ->
  chain_version_x c sx n f t = Some v -> declared (sx_base sx) n v f = true ->
  find_chain_tagged_x c (d1 ++ sx :: d2) n t f = Some (found_in (sx_base sx) n v f).
Proof.
  intros H1 H2 H3. induction d1 as [|s r IH]; simpl.
  - now rewrite H2, H3.
  - destruct (chain_version_x c s n f t) as [v'|] eqn:E.
    + rewrite (H1 s v' (or_introl eq_refl) E). apply IH. intros s' v0 Hin. apply H1. now right.
    + apply IH. intros s' v0 Hin. apply H1. now right.
Qed.

(* a user tag whose chain file is not in the stack itself: the user's directory decides *)
Lemma chain_version_x_user c sx n f t :
  is_user_tag c t = true -> has_chain_file (st_chain (sx_base sx)) n t = false ->
  chain_version_x c sx n f t = chain_lookup (sx_user sx) n f t.
Proof. intros U H. unfold chain_version_x. now rewrite H, U. Qed.

(* a tag that is not a user tag never reads the user's directory *)
Lemma chain_version_x_global c sx n f t :
  is_user_tag c t = false -> chain_version_x c sx n f t = chain_version (sx_base sx) n f t.
Proof.
  intro U. unfold chain_version_x. rewrite U.
  destruct (has_chain_file (st_chain (sx_base sx)) n t) eqn:H; [reflexivity|].
  unfold chain_version. now rewrite (chain_lookup_no_file _ _ _ _ H).
Qed.

(* ---------------------------------------------------------------- well-formedness *)

Lemma existsb_tag_filter t p l :
  existsb (chain_tag_is t) l = false -> existsb (chain_tag_is t) (filter p l) = false.
Proof.
  induction l as [|x r IH]; simpl; [reflexivity|]. intro H. apply orb_false_iff in H. destruct H as [H1 H2].
  destruct (p x); simpl; [rewrite H1|]; now apply IH.
Qed.

Lemma wf_flat_stack c sx :
  wf_stack (sx_base sx) = true -> existsb (chain_tag_is (lit "keep")) (sx_user sx) = false ->
  wf_stack (flat_stack c sx) = true.
Proof.
  unfold wf_stack. intros H U. apply andb_true_iff in H. destruct H as [Hd Hk].
  cbn [flat_stack st_decl st_chain]. rewrite Hd. cbn [andb]. rewrite existsb_app.
  apply negb_true_iff in Hk. rewrite Hk. cbn [orb]. apply negb_true_iff. now apply existsb_tag_filter.
Qed.

Lemma wf_flatten c d : wf_dbx d = true -> wf_db (flatten c d) = true.
Proof.
  unfold wf_dbx, wf_db. intro H. apply andb_true_iff in H. destruct H as [H1 H2].
  induction d as [|sx r IH]; [reflexivity|].
  cbn [base_db flatten map forallb] in *.
  apply andb_true_iff in H1. destruct H1 as [Hs H1]. apply andb_true_iff in H2. destruct H2 as [Hu H2].
  apply negb_true_iff in Hu. rewrite (wf_flat_stack c sx Hs Hu). cbn [andb]. now apply IH.
Qed.

Lemma wf_dbx_base d : wf_dbx d = true -> wf_db (base_db d) = true.
Proof. unfold wf_dbx. intro H. apply andb_true_iff in H. tauto. Qed.

Lemma wf_no_keep_x c d n f : wf_dbx d = true -> find_chain_tagged_x c d n (lit "keep") f = None.
Proof. intro WF. rewrite <- find_chain_tagged_flat. apply wf_no_keep. now apply wf_flatten. Qed.

(* ---------------------------------------------------------------- one entry: step = clause *)

Definition step_outcome_x (s : res step) : res outcome := res_map step_outcome s.

Section WalkX.
  Variable vcmp : str -> str -> comparison.
  Variable vmatch : str -> str -> bool.
  Variable c : config.
  Variable w : world.
  Variable rq : request.
  Variable f : str.
  Variable depth : nat.
  Hypothesis WF : wf_dbx (w_db w) = true.
  Hypothesis HT : total_order_on vcmp (names_of (base_db (w_db w)) (rq_name rq)).
  Hypothesis NOKEEP : is_file (w_files w) (lit "keep") = false.
  (* the text of a relational request does not start with LOCAL: *)
  Hypothesis NOLOCALEXPR : forall v, truthy (rq_version rq) = Some v -> is_expr v = true -> is_local v = false.

  Local Notation n := (rq_name rq).
  Local Notation vr := (classify rq).
  Local Notation db := (base_db (w_db w)).

  Lemma find_tagged_x_spec t :
    find_tagged_x vcmp c (w_db w) n t f =
    if str_eqb t (lit "latest") then highest vcmp (candidates db n f)
    else if str_eqb t (lit "setup") then None else tag_designates_x c (w_db w) n t f.
  Proof.
    unfold find_tagged_x. destruct (str_eqb t (lit "latest")); [now apply find_latest_spec|].
    destruct (str_eqb t (lit "setup")); [reflexivity|apply find_chain_tagged_x_spec].
  Qed.

  Lemma file_step_clause e lines :
    step_outcome_x (file_step w n f e lines) = file_clause w n f lines.
  Proof.
    unfold file_step, file_clause. destruct (tf_lookup lines n) as [[v|]|k]; try reflexivity.
    destruct (is_expr v); [reflexivity|]. rewrite find_version_spec.
    destruct (version_designates db n v f); [reflexivity|]. destruct (is_local v); reflexivity.
  Qed.

  Lemma word_step_clause e word known :
    step_outcome_x (word_step vcmp c w n f e word known) = word_clause vcmp c w n f word known.
  Proof.
    unfold word_step, word_clause. destruct (alookup word (w_files w)) as [lines|]; [apply file_step_clause|].
    destruct known; [|reflexivity]. unfold step_outcome_x, res_map, tag_step_x. rewrite find_tagged_x_spec.
    destruct (str_eqb word (lit "latest")).
    - destruct (highest vcmp (candidates db n f)); reflexivity.
    - destruct (str_eqb word (lit "setup")); [reflexivity|].
      destruct (tag_designates_x c (w_db w) n word f); reflexivity.
  Qed.

  Lemma explicit_step_x_outcome v later :
    step_outcome (explicit_step_x w n v f depth later) = or_fail (named_designates_x w n v f) later.
  Proof.
    unfold explicit_step_x, named_designates_x. rewrite find_version_spec.
    destruct (version_designates db n v f); simpl; [reflexivity|].
    destruct (is_local v && mem_str (local_dir v) (w_dirs w)); simpl; [reflexivity|].
    destruct (existsb is_version_like later); reflexivity.
  Qed.

  Lemma explicit_step_x_expr v later :
    is_expr v = true -> is_local v = false ->
    step_outcome (explicit_step_x w n v f depth later) = or_fail None later.
  Proof.
    intros H L. unfold explicit_step_x. rewrite (wf_no_expr_version db n v f (wf_dbx_base _ WF) H), L. simpl.
    destruct (existsb is_version_like later); reflexivity.
  Qed.

  Lemma version_step_x_clause e later :
    is_version_like e = true ->
    Ok (step_outcome (version_step_x vcmp vmatch w rq f depth e later)) = clause_x vcmp vmatch c w n vr f e later.
  Proof.
    intro He. unfold version_step_x, classify. pose proof NOLOCALEXPR as NL.
    destruct (rq_version rq) as [[|ch v]|]; simpl.
    - destruct e; try discriminate; reflexivity.
    - set (V := ch :: v) in *. destruct (is_expr V) eqn:EX.
      + assert (LV : is_local V = false) by (apply NL; [reflexivity|exact EX]).
        destruct e; try discriminate; simpl.
        * destruct (mem_entry EVersionExpr later); reflexivity.
        * destruct (mem_entry EVersionExpr later); reflexivity.
        * rewrite EX. rewrite expr_spec by exact HT.
          destruct (expr_designates vcmp vmatch db n V f); [reflexivity|].
          f_equal. now apply explicit_step_x_expr.
      + destruct e; try discriminate; simpl.
        * f_equal. apply explicit_step_x_outcome.
        * f_equal. apply explicit_step_x_outcome.
        * destruct (rq_expr rq) as [[|c' x']|]; simpl; try (f_equal; apply explicit_step_x_outcome).
          set (X := c' :: x') in *. destruct (is_expr X) eqn:EX2.
          -- rewrite expr_spec by exact HT.
             destruct (expr_designates vcmp vmatch db n X f); [reflexivity|].
             f_equal. apply explicit_step_x_outcome.
          -- f_equal. apply explicit_step_x_outcome.
    - destruct e; try discriminate; reflexivity.
  Qed.

  Lemma step_clause_x e later :
    step_outcome_x (vro_step_x vcmp vmatch c w None rq f depth e later) = clause_x vcmp vmatch c w n vr f e later.
  Proof.
    destruct e; try (unfold vro_step_x, step_outcome_x, res_map; apply version_step_x_clause; reflexivity);
      try reflexivity.
    - (* keep *)
      unfold vro_step_x. cbn [clause_x]. destruct (0 <? depth); [reflexivity|].
      rewrite word_step_clause. unfold word_clause.
      unfold is_file, amem in NOKEEP. destruct (alookup (lit "keep") (w_files w)); [discriminate|].
      destruct (recognized c (lit "keep")); [|reflexivity].
      change (str_eqb (lit "keep") (lit "latest")) with false.
      change (str_eqb (lit "keep") (lit "setup")) with false. cbv iota.
      now rewrite <- find_chain_tagged_x_spec, (wf_no_keep_x c (w_db w) n f WF).
    - (* type:s *) unfold vro_step_x. cbn [clause_x]. apply word_step_clause.
    - (* tag or file *) unfold vro_step_x. cbn [clause_x]. apply word_step_clause.
  Qed.

  Lemma loop_designates_x vro :
    res_map (option_map (fun x => fst (fst x))) (vro_loop_x vcmp vmatch c w None rq f depth vro) =
    designates_in_x vcmp vmatch c w n vr f vro.
  Proof.
    induction vro as [|e later IH]; simpl; [reflexivity|].
    pose proof (step_clause_x e later) as H.
    destruct (vro_step_x vcmp vmatch c w None rq f depth e later) as [[|[[p r]|]]|k]; simpl in H; rewrite <- H.
    - exact IH.
    - reflexivity.
    - reflexivity.
    - reflexivity.
  Qed.

  Lemma walk_x_designates vro :
    res_map (option_map fst) (find_from_vro_x vcmp vmatch c w None f depth vro rq) =
    designates_in_x vcmp vmatch c w n vr f vro.
  Proof.
    rewrite <- loop_designates_x. unfold find_from_vro_x.
    destruct (vro_loop_x vcmp vmatch c w None rq f depth vro) as [[[[p r] e0]|]|k]; reflexivity.
  Qed.
End WalkX.

(* ---------------------------------------------------------------- a world of stacks only: the walk of Model/Resolve.v *)

Section Plain.
  Variable vcmp : str -> str -> comparison.
  Variable vmatch : str -> str -> bool.
  Variable c : config.
  Variable d : dbx.

  Lemma explicit_step_plain n v f depth later :
    explicit_step_x (plain_world d) n v f depth later = explicit_step (flatten c d) n v f depth later.
  Proof.
    unfold explicit_step_x, explicit_step. cbn [plain_world w_db w_dirs mem_str].
    rewrite find_version_flat, andb_false_r. reflexivity.
  Qed.

  Lemma version_step_plain rq f depth e later :
    version_step_x vcmp vmatch (plain_world d) rq f depth e later =
    version_step vcmp vmatch (flatten c d) rq f depth e later.
  Proof.
    unfold version_step_x, version_step. cbv zeta.
    destruct (truthy (rq_version rq)) as [v|]; [|reflexivity].
    destruct (is_expr v && negb (entry_eqb e EVersionExpr)); [reflexivity|].
    destruct (if entry_eqb e EVersionExpr then if is_expr v then Some v else truthy (rq_expr rq) else None) as [x|];
      [|apply explicit_step_plain].
    destruct (is_expr x); [|apply explicit_step_plain].
    cbn [plain_world w_db]. rewrite find_by_expr_flat.
    destruct (select_latest vcmp (find_by_expr vmatch (base_db d) (rq_name rq) x f)); [reflexivity|].
    apply explicit_step_plain.
  Qed.

  Lemma word_step_plain n f e word known :
    word_step vcmp c (plain_world d) n f e word known =
    Ok (if known then tag_step vcmp (flatten c d) n f e word else Continue).
  Proof.
    unfold word_step. cbn [plain_world w_files alookup w_db]. destruct known; [|reflexivity].
    unfold tag_step_x, tag_step. now rewrite find_tagged_flat.
  Qed.

  Lemma vro_step_plain prev rq f depth e later :
    vro_step_x vcmp vmatch c (plain_world d) prev rq f depth e later =
    Ok (vro_step vcmp vmatch c (flatten c d) prev rq f depth e later).
  Proof.
    destruct e; unfold vro_step_x, vro_step; try reflexivity; try (now rewrite version_step_plain).
    - destruct (0 <? depth); [reflexivity|]. rewrite word_step_plain. reflexivity.
    - now rewrite word_step_plain.
  Qed.

  Lemma vro_loop_plain prev rq f depth vro :
    vro_loop_x vcmp vmatch c (plain_world d) prev rq f depth vro =
    Ok (vro_loop vcmp vmatch c (flatten c d) prev rq f depth vro).
  Proof.
    induction vro as [|e later IH]; simpl; [reflexivity|]. rewrite vro_step_plain.
    destruct (vro_step vcmp vmatch c (flatten c d) prev rq f depth e later) as [|[[p r]|]]; [exact IH|reflexivity|reflexivity].
  Qed.

  Lemma find_from_vro_plain prev f depth vro rq :
    find_from_vro_x vcmp vmatch c (plain_world d) prev f depth vro rq =
    Ok (find_from_vro vcmp vmatch c (flatten c d) prev f depth vro rq).
  Proof.
    unfold find_from_vro_x, find_from_vro. rewrite vro_loop_plain.
    destruct (vro_loop vcmp vmatch c (flatten c d) prev rq f depth vro) as [[[p r] e0]|]; [|reflexivity].
    destruct prev as [[op [[otag ox]|]]|]; try reflexivity.
    destruct (mem_entry otag vro && gt_index (index_of e0 vro) (index_of otag vro)); reflexivity.
  Qed.

  Lemma accept_loop_plain keep prev f depth rq : forall fuel vro,
    accept_loop_g (fun l => find_from_vro_x vcmp vmatch c (plain_world d) prev f depth l rq) fuel keep prev depth vro rq =
    accept_loop vcmp vmatch fuel c (flatten c d) keep prev f depth vro rq.
  Proof.
    induction fuel as [|k IH]; intro vro; [reflexivity|].
    destruct vro as [|e l]; [reflexivity|]. cbn [accept_loop_g accept_loop]. rewrite find_from_vro_plain.
    destruct (find_from_vro vcmp vmatch c (flatten c d) prev f depth (e :: l) rq) as [[p r]|].
    - destruct (truthy (rq_version rq)) as [v|]; [|reflexivity].
      destruct ((depth =? 0) && negb (is_expr v) && negb (str_eqb (fd_version p) v)); [|reflexivity].
      destruct r as [tag x]. destruct (index_of tag (e :: l)); [apply IH|reflexivity].
    - destruct prev as [[op r0]|]; [|reflexivity].
      destruct (keep || opt_str_eqb (fd_version op) (rq_version rq)); [|reflexivity].
      destruct (truthy (rq_version rq)) as [v|]; [|reflexivity].
      destruct ((depth =? 0) && negb (is_expr v) && negb (str_eqb (fd_version op) v)); reflexivity.
  Qed.

  Lemma resolve_plain keep prev flavors depth vro rq :
    resolve_request_x vcmp vmatch c (plain_world d) keep prev flavors depth vro rq =
    resolve_request vcmp vmatch c (flatten c d) keep prev flavors depth vro rq.
  Proof.
    unfold resolve_request_x, resolve_request. induction flavors as [|f fs IH]; [reflexivity|].
    cbn [flavor_loop_x flavor_loop]. rewrite accept_loop_plain.
    destruct (accept_loop vcmp vmatch (S (length vro)) c (flatten c d) keep prev f depth vro rq) as [[x|]|k];
      [reflexivity|exact IH|reflexivity].
  Qed.
End Plain.

(* ---------------------------------------------------------------- inert entries in the extended walk *)

(* entries that are passed over whatever the world holds: not a word that could name a file *)
Definition is_inert_x (e : entry) : bool :=
  match e with ECommandLine | EPath | EWarn _ => true | _ => false end.

Lemma inert_loop_x vcmp vmatch c w rq f depth pre l :
  forallb is_inert_x pre = true ->
  vro_loop_x vcmp vmatch c w None rq f depth (pre ++ l) = vro_loop_x vcmp vmatch c w None rq f depth l.
Proof.
  induction pre as [|e pre IH]; simpl; [reflexivity|]. intro H. apply andb_true_iff in H. destruct H as [He H].
  destruct e; try discriminate; simpl; now apply IH.
Qed.

(* a tag file in front of the version entries *)
Lemma tagfile_hit vcmp vmatch c w rq f depth pre t lines v rest p :
  forallb is_inert_x pre = true ->
  alookup t (w_files w) = Some lines -> tf_lookup lines (rq_name rq) = Ok (Some v) -> is_expr v = false ->
  version_designates (base_db (w_db w)) (rq_name rq) v f = Some p ->
  find_from_vro_x vcmp vmatch c w None f depth (pre ++ ETag t :: rest) rq = Ok (Some (p, (ETag t, None))).
Proof.
  intros HI HF HL HE HV. unfold find_from_vro_x. rewrite inert_loop_x by exact HI.
  cbn [vro_loop_x vro_step_x]. unfold word_step. rewrite HF. unfold file_step. rewrite HL, HE, find_version_spec, HV.
  reflexivity.
Qed.

Lemma tagfile_miss_raises vcmp vmatch c w rq f depth pre t lines v rest :
  forallb is_inert_x pre = true ->
  alookup t (w_files w) = Some lines -> tf_lookup lines (rq_name rq) = Ok (Some v) -> is_expr v = false ->
  is_local v = false -> version_designates (base_db (w_db w)) (rq_name rq) v f = None ->
  find_from_vro_x vcmp vmatch c w None f depth (pre ++ ETag t :: rest) rq = Err Crash.
Proof.
  intros HI HF HL HE HLo HV. unfold find_from_vro_x. rewrite inert_loop_x by exact HI.
  cbn [vro_loop_x vro_step_x]. unfold word_step. rewrite HF. unfold file_step. rewrite HL, HE, find_version_spec, HV, HLo.
  reflexivity.
Qed.

Lemma tagfile_silent_passes vcmp vmatch c w rq f depth t lines rest :
  alookup t (w_files w) = Some lines -> tf_lookup lines (rq_name rq) = Ok None ->
  vro_loop_x vcmp vmatch c w None rq f depth (ETag t :: rest) = vro_loop_x vcmp vmatch c w None rq f depth rest.
Proof.
  intros HF HL. cbn [vro_loop_x vro_step_x]. unfold word_step. rewrite HF. unfold file_step. rewrite HL. reflexivity.
Qed.

(* ---------------------------------------------------------------- LOCAL: versions *)

Lemma local_version_walk vcmp vmatch c w rq f d pre v post :
  forallb is_inert_x pre = true ->
  truthy (rq_version rq) = Some v -> is_expr v = false -> is_local v = true ->
  mem_str (local_dir v) (w_dirs w) = true ->
  version_designates (base_db (w_db w)) (rq_name rq) v f = None ->
  find_from_vro_x vcmp vmatch c w None f (S d) (pre ++ EVersion :: post) rq =
  Ok (Some (local_found (rq_name rq) v, (ETag (lit "path from version"), Some v))).
Proof.
  intros HI TV HE HL HD HV. unfold find_from_vro_x. rewrite inert_loop_x by exact HI.
  cbn [vro_loop_x vro_step_x]. unfold version_step_x. rewrite TV, HE. cbn [andb entry_eqb].
  unfold explicit_step_x. rewrite find_version_spec, HV, HL, HD. reflexivity.
Qed.

Lemma local_missing_fails vcmp vmatch c w rq f depth pre v post :
  forallb is_inert_x pre = true ->
  truthy (rq_version rq) = Some v -> is_expr v = false ->
  mem_str (local_dir v) (w_dirs w) = false ->
  version_designates (base_db (w_db w)) (rq_name rq) v f = None ->
  existsb is_version_like post = false ->
  find_from_vro_x vcmp vmatch c w None f depth (pre ++ EVersion :: post) rq = Ok None.
Proof.
  intros HI TV HE HD HV HP. unfold find_from_vro_x. rewrite inert_loop_x by exact HI.
  cbn [vro_loop_x vro_step_x]. unfold version_step_x. rewrite TV, HE. cbn [andb entry_eqb].
  unfold explicit_step_x. rewrite find_version_spec, HV, HD, andb_false_r, HP. reflexivity.
Qed.

(* ---------------------------------------------------------------- selectVRO *)

Lemma select_vro_x_refuses_tags c files o w0 ws t ts :
  o_tags o = t :: ts -> select_vro_x c files o (Some (w0 :: ws)) = Err Crash.
Proof. intro H. unfold select_vro_x. now rewrite H. Qed.

(* the words of --vro, every one of them a registered word as a whole (so no type:x, no warn:n, no file), without
   repetition: the VRO is those words, keep in front of them when asked for *)
Lemma somes_map_some {A} (l : list A) : somes (map Some l) = l.
Proof. induction l; simpl; congruence. Qed.

Lemma kindly_set_x_all_ok c files l old :
  l <> [] -> forallb (fun e => match kindly_word c files e with Some e' => entry_eqb e' e | None => false end) l = true ->
  kindly_set_x c files l old = l.
Proof.
  intros NE H. unfold kindly_set_x.
  assert (E : map (kindly_word c files) l = map Some l).
  { induction l as [|e r IH]; [reflexivity|]. simpl in H. apply andb_true_iff in H. destruct H as [H1 H2].
    simpl. destruct (kindly_word c files e) as [e'|]; [|discriminate]. apply entry_eqb_eq in H1. subst e'.
    f_equal. destruct r; [reflexivity|]. apply IH; [discriminate|exact H2]. }
  rewrite E.
  assert (A : forallb (fun k : option entry => match k with Some _ => true | None => false end) (map Some l) = true)
    by (clear; induction l; simpl; auto).
  rewrite A, somes_map_some. destruct l; [contradiction|reflexivity].
Qed.

(* makeVroExact, repaired: what was named with -t is never moved *)
Lemma exact_split_x_keeps c cmd : forall l kept moved b kept' moved' b',
  exact_split_x c cmd l kept moved b = (kept', moved', b') ->
  (forall v, In v moved -> mem_str (entry_str v) cmd = false /\ mem_str (entry_base v) cmd = false) ->
  (forall v, In v moved' -> mem_str (entry_str v) cmd = false /\ mem_str (entry_base v) cmd = false) /\
  kept' = kept ++ filter (fun v => (mem_str (entry_base v) cmd || mem_str (entry_str v) cmd) ||
                                   negb (negb (recognized c (entry_base v)) || global_or_user c (entry_base v))) l.
Proof.
  induction l as [|v r IH]; intros kept moved b kept' moved' b' H HM; simpl in H.
  - injection H as <- <- <-. split; [exact HM|]. simpl. now rewrite app_nil_r.
  - simpl. destruct (mem_str (entry_base v) cmd || mem_str (entry_str v) cmd) eqn:C; simpl in H |- *.
    + apply IH in H; [|exact HM]. destruct H as [H1 H2]. split; [exact H1|]. rewrite H2, <- app_assoc. reflexivity.
    + destruct (negb (recognized c (entry_base v)) || global_or_user c (entry_base v)) eqn:M; simpl in H |- *.
      * apply IH in H.
        -- exact H.
        -- intros v0 Hin. apply orb_false_iff in C. destruct C as [C1 C2].
           destruct (mem_entry v moved) eqn:ME; [now apply HM|].
           apply in_app_or in Hin. destruct Hin as [Hin|[<-|[]]]; [now apply HM|]. split; assumption.
      * apply IH in H; [|exact HM]. destruct H as [H1 H2]. split; [exact H1|]. rewrite H2, <- app_assoc. reflexivity.
Qed.

Lemma where_after_none p : forall l i acc, existsb p l = false -> where_after p l i acc = acc.
Proof.
  induction l as [|e r IH]; intros i acc H; simpl in *; [reflexivity|].
  apply orb_false_iff in H. destruct H as [H1 H2]. rewrite H1. now apply IH.
Qed.

Lemma select_vro_x_posttag_crash c files o w0 ws :
  o_tags o = [] -> o_posttags o <> [] ->
  existsb is_version_like (map parse_entry (w0 :: ws)) = false ->
  select_vro_x c files o (Some (w0 :: ws)) = Err Crash.
Proof.
  intros HT HP HV. unfold select_vro_x. rewrite HT.
  destruct (o_posttags o) as [|p ps]; [contradiction|]. cbn [map].
  rewrite where_after_none; [reflexivity|].
  destruct (o_keep o); [|exact HV]. cbn [existsb is_version_like orb]. exact HV.
Qed.

Lemma make_exact_x_keeps c cmd l v :
  In v (make_exact_x c cmd l) -> (mem_str (entry_str v) cmd = true \/ mem_str (entry_base v) cmd = true) ->
  forall kept moved b, exact_split_x c cmd l [] [] false = (kept, moved, b) -> In v kept \/ v = EWarn 1.
Proof.
  intros Hin Hc kept moved b E. pose proof (exact_split_x_keeps c cmd l [] [] false kept moved b E) as K.
  destruct K as [K1 _]; [intros ? []|].
  unfold make_exact_x in Hin. rewrite E in Hin.
  assert (NM : ~ In v moved).
  { intro Hm. destruct (K1 v Hm) as [A B]. destruct Hc as [Hc|Hc]; congruence. }
  destruct moved as [|m ms]; [now left|].
  apply in_app_or in Hin. destruct Hin as [Hin|Hin]; [|contradiction].
  destruct (b && negb (existsb warn_lead01 kept)); [|now left].
  apply in_app_or in Hin. destruct Hin as [Hin|[<-|[]]]; [now left|now right].
Qed.
