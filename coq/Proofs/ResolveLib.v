(* C03 - helper lemmas: entries, first_some, maxima of candidate lists under a total order *)
From Eupsv Require Import Base.Base Base.BaseLemmas Model.Resolve Model.ResolveSpec.
From Coq Require Import Lia.

(* ---------------------------------------------------------------- entries *)

Lemma entry_eqb_eq a b : entry_eqb a b = true <-> a = b.
Proof.
  destruct a, b; simpl; split; intro H; try reflexivity; try discriminate;
    try (apply str_eqb_eq in H; now subst);
    try (injection H as ->; apply str_eqb_refl).
  - apply Nat.eqb_eq in H. now subst.
  - injection H as ->. apply Nat.eqb_refl.
Qed.

Lemma entry_eqb_refl a : entry_eqb a a = true.
Proof. now apply entry_eqb_eq. Qed.

Lemma entry_eqb_neq a b : entry_eqb a b = false <-> a <> b.
Proof.
  split.
  - intros H ->. now rewrite entry_eqb_refl in H.
  - intro H. destruct (entry_eqb a b) eqn:E; [|reflexivity]. apply entry_eqb_eq in E. contradiction.
Qed.

Lemma mem_entry_In e l : mem_entry e l = true <-> In e l.
Proof.
  induction l as [|x l IH]; simpl; [split; [discriminate|tauto]|].
  destruct (entry_eqb e x) eqn:E.
  - apply entry_eqb_eq in E. subst. split; auto.
  - apply entry_eqb_neq in E. rewrite IH. split; [auto|]. intros [H|H]; [congruence|assumption].
Qed.

Lemma mem_entry_false e l : mem_entry e l = false <-> ~ In e l.
Proof. rewrite <- mem_entry_In. destruct (mem_entry e l); split; congruence. Qed.

Lemma mem_entry_app e a b : mem_entry e (a ++ b) = mem_entry e a || mem_entry e b.
Proof. induction a as [|x a IH]; simpl; [reflexivity|]. destruct (entry_eqb e x); auto. Qed.

Lemma index_of_first e pre later :
  ~ In e pre -> index_of e (pre ++ e :: later) = Some (length pre).
Proof.
  induction pre as [|x pre IH]; simpl; intro H.
  - now rewrite entry_eqb_refl.
  - destruct (entry_eqb e x) eqn:E.
    + apply entry_eqb_eq in E. subst. tauto.
    + rewrite IH by tauto. reflexivity.
Qed.

Lemma skipn_after pre (e : entry) later : skipn (S (length pre)) (pre ++ e :: later) = later.
Proof. induction pre as [|x pre IH]; simpl; [reflexivity|exact IH]. Qed.

Lemma existsb_app_vl a b :
  existsb is_version_like (a ++ b) = existsb is_version_like a || existsb is_version_like b.
Proof. apply existsb_app. Qed.

(* ---------------------------------------------------------------- first_some *)

Lemma first_some_app {A B} (g : A -> option B) l1 l2 :
  first_some g (l1 ++ l2) = match first_some g l1 with Some b => Some b | None => first_some g l2 end.
Proof. induction l1 as [|a l1 IH]; simpl; [reflexivity|]. destruct (g a); auto. Qed.

Lemma first_some_none {A B} (g : A -> option B) l :
  (forall a, In a l -> g a = None) -> first_some g l = None.
Proof.
  induction l as [|a l IH]; simpl; intro H; [reflexivity|].
  rewrite (H a) by auto. apply IH. auto.
Qed.

(* ---------------------------------------------------------------- find on found lists *)

Definition verb (v : str) (p : found) : bool := str_eqb (fd_version p) v.

Lemma find_app {A} (p : A -> bool) l1 l2 :
  find p (l1 ++ l2) = match find p l1 with Some x => Some x | None => find p l2 end.
Proof. induction l1 as [|a l1 IH]; simpl; [reflexivity|]. destruct (p a); auto. Qed.

Lemma find_none_iff {A} (p : A -> bool) l : find p l = None <-> forall x, In x l -> p x = false.
Proof.
  induction l as [|a l IH]; simpl.
  - split; [tauto|reflexivity].
  - destruct (p a) eqn:E.
    + split; [discriminate|]. intro H. rewrite (H a) in E by auto. discriminate.
    + rewrite IH. split; [intros H x [<-|Hx]; auto | auto].
Qed.

Lemma existsb_find {A} (p : A -> bool) l : existsb p l = match find p l with Some _ => true | None => false end.
Proof. induction l as [|a l IH]; simpl; [reflexivity|]. destruct (p a); auto. Qed.

(* ---------------------------------------------------------------- maxima under a total order *)

Section Order.
  Variable vcmp : str -> str -> comparison.
  Variable U : list str.
  Hypothesis HT : total_order_on vcmp U.

  Definition le (x y : str) : Prop := vcmp x y <> Gt.

  Lemma le_refl x : In x U -> le x x.
  Proof. intro H. unfold le. destruct HT as [R _]. rewrite R by assumption. discriminate. Qed.

  Lemma le_trans x y z : In x U -> In y U -> In z U -> le x y -> le y z -> le x z.
  Proof. destruct HT as [_ [_ [_ T]]]. apply T. Qed.

  Lemma gt_le x y : In x U -> In y U -> vcmp y x = Gt -> le x y.
  Proof.
    intros Hx Hy H. unfold le. destruct HT as [_ [_ [S _]]].
    rewrite (S y x Hy Hx), H. simpl. discriminate.
  Qed.

  Lemma notlt_le x y : In x U -> In y U -> vcmp y x <> Lt -> le x y.
  Proof.
    intros Hx Hy H. unfold le. destruct HT as [_ [_ [S _]]].
    rewrite (S y x Hy Hx). destruct (vcmp y x); simpl; congruence.
  Qed.

  Lemma le_antisym x y : In x U -> In y U -> le x y -> le y x -> x = y.
  Proof.
    intros Hx Hy H1 H2. destruct HT as [_ [E [S _]]]. apply E; try assumption.
    unfold le in *. rewrite (S x y Hx Hy) in H2. destruct (vcmp x y); simpl in *; congruence.
  Qed.

  Definition vers_in_U (l : list found) : Prop := forall q, In q l -> In (fd_version q) U.

  (* p is the first of the greatest elements of l *)
  Definition is_best (l : list found) (p : found) : Prop :=
    In p l /\ (forall q, In q l -> le (fd_version q) (fd_version p)) /\ find (verb (fd_version p)) l = Some p.

  Lemma is_best_unique l p q : vers_in_U l -> is_best l p -> is_best l q -> p = q.
  Proof.
    intros HU [Ip [Mp Fp]] [Iq [Mq Fq]].
    assert (E : fd_version p = fd_version q).
    { apply le_antisym; auto. }
    rewrite E in Fp. rewrite Fp in Fq. now injection Fq.
  Qed.

  Lemma verb_refl p : verb (fd_version p) p = true.
  Proof. unfold verb. apply str_eqb_refl. Qed.

  Lemma is_best_single p : In (fd_version p) U -> is_best [p] p.
  Proof.
    intro H. split; [now left|]. split.
    - intros q [<-|[]]. now apply le_refl.
    - simpl. now rewrite verb_refl.
  Qed.

  Lemma is_best_step A b y :
    vers_in_U (A ++ [y]) -> is_best A b -> is_best (A ++ [y]) (higher vcmp b y).
  Proof.
    intros HU [Ib [Mb Fb]].
    assert (HUA : forall q, In q A -> In (fd_version q) U) by (intros q Hq; apply HU, in_or_app; now left).
    assert (HUy : In (fd_version y) U) by (apply HU, in_or_app; right; now left).
    unfold higher. destruct (vcmp (fd_version y) (fd_version b)) eqn:E.
    - split; [apply in_or_app; now left|]. split.
      + intros q Hq. apply in_app_or in Hq. destruct Hq as [Hq|[<-|[]]]; [now apply Mb|].
        unfold le. rewrite E. discriminate.
      + rewrite find_app, Fb. reflexivity.
    - split; [apply in_or_app; now left|]. split.
      + intros q Hq. apply in_app_or in Hq. destruct Hq as [Hq|[<-|[]]]; [now apply Mb|].
        unfold le. rewrite E. discriminate.
      + rewrite find_app, Fb. reflexivity.
    - split; [apply in_or_app; right; now left|]. split.
      + intros q Hq. apply in_app_or in Hq. destruct Hq as [Hq|[<-|[]]].
        * apply le_trans with (fd_version b); auto. apply gt_le; auto.
        * now apply le_refl.
      + rewrite find_app.
        assert (N : find (verb (fd_version y)) A = None).
        { apply find_none_iff. intros q Hq. unfold verb.
          destruct (str_eqb (fd_version q) (fd_version y)) eqn:Eq; [|reflexivity].
          apply str_eqb_eq in Eq. exfalso. apply (Mb q Hq). now rewrite Eq. }
        rewrite N. simpl. now rewrite verb_refl.
  Qed.

  Lemma fold_higher_best r : forall A b,
    vers_in_U (A ++ r) -> is_best A b -> is_best (A ++ r) (fold_left (higher vcmp) r b).
  Proof.
    induction r as [|y r IH]; intros A b HU HB; simpl.
    - now rewrite app_nil_r.
    - replace (A ++ y :: r) with ((A ++ [y]) ++ r) by (rewrite <- app_assoc; reflexivity).
      apply IH.
      + rewrite <- app_assoc. exact HU.
      + apply is_best_step; [|assumption].
        intros q Hq. apply HU. apply in_app_or in Hq. apply in_or_app.
        destruct Hq as [Hq|[<-|[]]]; [now left|right; now left].
  Qed.

  Lemma highest_best l p : vers_in_U l -> highest vcmp l = Some p -> is_best l p.
  Proof.
    destruct l as [|a l]; simpl; [discriminate|]. intros HU H. injection H as <-.
    change (a :: l) with ([a] ++ l). apply fold_higher_best; [exact HU|].
    apply is_best_single. apply HU. now left.
  Qed.

  Lemma highest_none l : highest vcmp l = None <-> l = [].
  Proof. destruct l; simpl; split; congruence. Qed.

  (* whatever satisfies is_best is what highest returns *)
  Lemma best_is_highest l p : vers_in_U l -> is_best l p -> highest vcmp l = Some p.
  Proof.
    intros HU HB. destruct (highest vcmp l) as [q|] eqn:E.
    - f_equal. apply (is_best_unique l); auto. now apply highest_best.
    - apply highest_none in E. subst. destruct HB as [[] _].
  Qed.

  (* python sort then last element: a greatest element, present in the list *)
  Lemma last_max_fold r : forall b,
    In b U -> (forall q, In q r -> In q U) ->
    let m := fold_left (fun best y => match vcmp y best with Lt => best | _ => y end) r b in
    (m = b \/ In m r) /\ le b m /\ (forall q, In q r -> le q m).
  Proof.
    induction r as [|y r IH]; intros b Hb Hr; simpl.
    - split; [now left|]. split; [now apply le_refl|tauto].
    - assert (Hy : In y U) by (apply Hr; now left).
      assert (Hr' : forall q, In q r -> In q U) by (intros q Hq; apply Hr; now right).
      destruct (vcmp y b) eqn:E.
      + destruct (IH y Hy Hr') as [M [L A]]. cbv zeta in *.
        set (m := fold_left _ r y) in *.
        assert (Hm : In m U) by (destruct M as [->|M]; auto).
        split; [destruct M as [->|M]; right; [now left|now right]|]. split.
        * apply le_trans with y; auto. apply notlt_le; auto. rewrite E. discriminate.
        * intros q [<-|Hq]; auto.
      + destruct (IH b Hb Hr') as [M [L A]]. cbv zeta in *.
        set (m := fold_left _ r b) in *.
        assert (Hm : In m U) by (destruct M as [->|M]; auto).
        split; [destruct M as [->|M]; [now left|right; now right]|]. split; [assumption|].
        intros q [<-|Hq]; auto.
        apply le_trans with b; auto. unfold le. rewrite E. discriminate.
      + destruct (IH y Hy Hr') as [M [L A]]. cbv zeta in *.
        set (m := fold_left _ r y) in *.
        assert (Hm : In m U) by (destruct M as [->|M]; auto).
        split; [destruct M as [->|M]; right; [now left|now right]|]. split.
        * apply le_trans with y; auto. apply notlt_le; auto. rewrite E. discriminate.
        * intros q [<-|Hq]; auto.
  Qed.

  Lemma last_max_spec l :
    (forall q, In q l -> In q U) ->
    match last_max vcmp l with
    | None => l = []
    | Some v => In v l /\ forall q, In q l -> le q v
    end.
  Proof.
    destruct l as [|a l]; simpl; [reflexivity|]. intro H.
    destruct (last_max_fold l a) as [M [L A]]; [apply H; now left|intros q Hq; apply H; now right|].
    cbv zeta in *. split; [destruct M as [->|M]; [now left|now right]|].
    intros q [<-|Hq]; auto.
  Qed.
End Order.
