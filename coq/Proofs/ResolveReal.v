(* C03 with the comparator of C10 (Model/ResolveReal.v).

   1. What the look-ups do under a comparator that is only a total PRE-order (distinct names may compare
      equal): find_latest = latest_tie, select_latest o find_by_expr = expr_tie.  No antisymmetry is used.
   2. The comparator of C10 on conventional names: a total preorder always, a total order exactly when no two
      names spell the same key - from the theorems of Props/C10.v (cmp_is_key_order, key_order_is_total_order,
      conv_trans, match_relop, match_other_prefix, match_alternatives).
   3. Hence the hypotheses total_order_on of Props/C03.v and of the composed-model theorems of Props/C01.v,
      C02.v are discharged for the real comparator.

   Observed on the real code (harness/c03.py, family versions): Database.findProducts returns the version files
   of one product sorted as strings, and a cache that is built from the database inherits that order; a cache
   that is written through by Eups.declare keeps the order of declaration instead.  The listing order is an
   input of the model (st_decl); it matters only for names that compare equal. *)
From Eupsv Require Import Base.Base Base.BaseLemmas Model.VersionCompare Model.VersionKey Model.PathAlg Model.Setup
     Model.Resolve Model.ResolveSpec Model.SetupFull Model.ResolveReal Proofs.ResolveLib Proofs.Resolve.
From Eupsv Require Props.C10.
From Coq Require Import Lia.

(* ---------------------------------------------------------------- total preorders *)

Lemma total_order_is_preorder vcmp l : total_order_on vcmp l -> total_preorder_on vcmp l.
Proof. intros [R [_ [S T]]]. repeat split; assumption. Qed.

Lemma total_preorder_sub vcmp l l' :
  (forall x, In x l' -> In x l) -> total_preorder_on vcmp l -> total_preorder_on vcmp l'.
Proof.
  intros H [R [S T]]. split; [|split].
  - intros x Hx. apply R. auto.
  - intros x y Hx Hy. apply S; auto.
  - intros x y z Hx Hy Hz. apply T; auto.
Qed.

Section Pre.
  Variable vcmp : str -> str -> comparison.
  Variable U : list str.
  Hypothesis HP : total_preorder_on vcmp U.

  Local Notation le := (ResolveLib.le vcmp).

  Lemma ple_refl x : In x U -> le x x.
  Proof. intro H. unfold ResolveLib.le. destruct HP as [R _]. rewrite R by assumption. discriminate. Qed.

  Lemma ple_trans x y z : In x U -> In y U -> In z U -> le x y -> le y z -> le x z.
  Proof. destruct HP as [_ [_ T]]. apply T. Qed.

  Lemma pflip x y : In x U -> In y U -> vcmp y x = CompOpp (vcmp x y).
  Proof. destruct HP as [_ [S _]]. apply S. Qed.

  Lemma pnotlt_le x y : In x U -> In y U -> vcmp y x <> Lt -> le x y.
  Proof.
    intros Hx Hy H. unfold ResolveLib.le. rewrite (pflip y x Hy Hx). destruct (vcmp y x); simpl; congruence.
  Qed.

  Lemma plt_gt x y : In x U -> In y U -> vcmp x y = Lt -> vcmp y x = Gt.
  Proof. intros Hx Hy H. now rewrite (pflip x y Hx Hy), H. Qed.

  Lemma pgt_lt x y : In x U -> In y U -> vcmp x y = Gt -> vcmp y x = Lt.
  Proof. intros Hx Hy H. now rewrite (pflip x y Hx Hy), H. Qed.

  (* w is above y and x is not above y: w is above x *)
  Lemma pgt_le_gt w x y : In w U -> In x U -> In y U -> vcmp w y = Gt -> le x y -> vcmp w x = Gt.
  Proof.
    intros Hw Hx Hy G L. destruct (vcmp w x) eqn:E; [exfalso|exfalso|reflexivity].
    - apply (ple_trans w x y Hw Hx Hy); [unfold ResolveLib.le; rewrite E; discriminate|exact L|exact G].
    - apply (ple_trans w x y Hw Hx Hy); [unfold ResolveLib.le; rewrite E; discriminate|exact L|exact G].
  Qed.

  (* x is below y and y is not above z: x is below z *)
  Lemma plt_le_lt x y z : In x U -> In y U -> In z U -> vcmp x y = Lt -> le y z -> vcmp x z = Lt.
  Proof.
    intros Hx Hy Hz L1 L2.
    assert (G : vcmp z x = Gt).
    { destruct (vcmp z x) eqn:E; [exfalso|exfalso|reflexivity].
      - assert (A : le y x) by (apply (ple_trans y z x); auto; unfold ResolveLib.le; rewrite E; discriminate).
        apply A. now apply plt_gt.
      - assert (A : le y x) by (apply (ple_trans y z x); auto; unfold ResolveLib.le; rewrite E; discriminate).
        apply A. now apply plt_gt. }
    now apply pgt_lt.
  Qed.

  (* ------------------------------------------------------------ is_max *)

  Lemma is_max_true l v : is_max vcmp l v = true <-> forall w, In w l -> le w v.
  Proof.
    unfold is_max. rewrite forallb_forall. split; intros H w Hw; specialize (H w Hw).
    - unfold ResolveLib.le. destruct (vcmp w v); congruence.
    - unfold ResolveLib.le in H. destruct (vcmp w v); congruence.
  Qed.

  Lemma is_max_false l v : is_max vcmp l v = false <-> exists w, In w l /\ vcmp w v = Gt.
  Proof.
    split.
    - intro H. unfold is_max in H. destruct (forallb _ l) eqn:E; [discriminate|].
      clear H. induction l as [|a l IH]; simpl in E; [discriminate|].
      destruct (vcmp a v) eqn:Ea.
      + destruct (IH E) as [w [Hw G]]. exists w. split; [now right|exact G].
      + destruct (IH E) as [w [Hw G]]. exists w. split; [now right|exact G].
      + exists a. split; [now left|exact Ea].
    - intros [w [Hw G]]. destruct (is_max vcmp l v) eqn:E; [|reflexivity].
      rewrite is_max_true in E. exfalso. now apply (E w Hw).
  Qed.

  (* ------------------------------------------------------------ python: sort, take the last *)

  Lemma last_max_fold_split r : forall b,
    In b U -> (forall q, In q r -> In q U) ->
    let m := fold_left (fun best y => match vcmp y best with Lt => best | _ => y end) r b in
    exists pre post, b :: r = pre ++ m :: post /\
                     (forall q, In q pre -> le q m) /\ (forall q, In q post -> vcmp q m = Lt).
  Proof.
    induction r as [|y r IH]; intros b Hb Hr; cbv zeta; simpl.
    - exists [], []. repeat split; simpl; tauto.
    - assert (Hy : In y U) by (apply Hr; now left).
      assert (Hr' : forall q, In q r -> In q U) by (intros q Hq; apply Hr; now right).
      destruct (vcmp y b) eqn:E.
      + destruct (IH y Hy Hr') as [pre [post [S [A B]]]]. cbv zeta in *.
        set (m := fold_left _ r y) in *.
        assert (Hm : In m U).
        { assert (I : In m (y :: r)) by (rewrite S; apply in_or_app; right; now left).
          destruct I as [<-|I]; auto. }
        exists (b :: pre), post. split; [simpl; now rewrite S|]. split; [|exact B].
        intros q [Eq|Hq]; [subst q|now apply A].
        apply (ple_trans b y m); auto.
        * apply pnotlt_le; auto. rewrite E. discriminate.
        * destruct pre as [|a pre']; simpl in S.
          -- injection S as S1 S2. rewrite <- S1. now apply ple_refl.
          -- injection S as S1 S2. subst a. apply A. now left.
      + destruct (IH b Hb Hr') as [pre [post [S [A B]]]]. cbv zeta in *.
        set (m := fold_left _ r b) in *.
        assert (Hm : In m U).
        { assert (I : In m (b :: r)) by (rewrite S; apply in_or_app; right; now left).
          destruct I as [<-|I]; auto. }
        destruct pre as [|a pre']; simpl in S.
        * injection S as S1 S2. exists [], (y :: post). split; [simpl; now rewrite <- S1, S2|].
          split; [simpl; tauto|]. intros q [Eq|Hq]; [subst q; now rewrite <- S1|now apply B].
        * injection S as S1 S2. subst a. exists (b :: y :: pre'), post.
          split; [simpl; now rewrite S2|].
          split; [|exact B].
          assert (Lb : le b m) by (apply A; now left).
          intros q [Eq|[Eq|Hq]]; [subst q; exact Lb| |apply A; now right].
          subst q. apply (ple_trans y b m); auto. unfold ResolveLib.le. rewrite E. discriminate.
      + destruct (IH y Hy Hr') as [pre [post [S [A B]]]]. cbv zeta in *.
        set (m := fold_left _ r y) in *.
        assert (Hm : In m U).
        { assert (I : In m (y :: r)) by (rewrite S; apply in_or_app; right; now left).
          destruct I as [<-|I]; auto. }
        exists (b :: pre), post. split; [simpl; now rewrite S|]. split; [|exact B].
        intros q [Eq|Hq]; [subst q|now apply A].
        apply (ple_trans b y m); auto.
        * apply pnotlt_le; auto. rewrite E. discriminate.
        * destruct pre as [|a pre']; simpl in S.
          -- injection S as S1 S2. rewrite <- S1. now apply ple_refl.
          -- injection S as S1 S2. subst a. apply A. now left.
  Qed.
End Pre.

(* ---------------------------------------------------------------- generic list facts *)

Lemma find_rev_split {A} (P : A -> bool) pre v post :
  P v = true -> (forall q, In q post -> P q = false) -> find P (rev (pre ++ v :: post)) = Some v.
Proof.
  intros Hv Hp. rewrite rev_app_distr. simpl. rewrite <- app_assoc, find_app.
  assert (N : find P (rev post) = None).
  { apply find_none_iff. intros x Hx. apply Hp. now apply in_rev. }
  rewrite N. simpl. now rewrite Hv.
Qed.

Lemma find_rev_none {A} (P : A -> bool) l : (forall q, In q l -> P q = false) -> find P (rev l) = None.
Proof. intro H. apply find_none_iff. intros x Hx. apply H. now apply in_rev. Qed.

Lemma find_ext_in {A} (P Q : A -> bool) l : (forall x, In x l -> P x = Q x) -> find P l = find Q l.
Proof.
  induction l as [|a l IH]; intro H; simpl; [reflexivity|].
  rewrite (H a) by now left. destruct (Q a); [reflexivity|]. apply IH. intros x Hx. apply H. now right.
Qed.

Lemma first_some_ext_in {A B} (g h : A -> option B) l :
  (forall a, In a l -> g a = h a) -> first_some g l = first_some h l.
Proof.
  induction l as [|a l IH]; intro H; simpl; [reflexivity|].
  rewrite (H a) by now left. destruct (h a); [reflexivity|]. apply IH. intros x Hx. apply H. now right.
Qed.

Lemma is_max_app vcmp a b v : is_max vcmp (a ++ b) v = is_max vcmp a v && is_max vcmp b v.
Proof. unfold is_max. apply forallb_app. Qed.

(* ---------------------------------------------------------------- last_max is the last greatest element *)

Section Tie.
  Variable vcmp : str -> str -> comparison.
  Variable U : list str.
  Hypothesis HP : total_preorder_on vcmp U.

  Local Notation le := (ResolveLib.le vcmp).

  Lemma last_max_split l v :
    (forall q, In q l -> In q U) -> last_max vcmp l = Some v ->
    exists pre post, l = pre ++ v :: post /\
                     (forall q, In q pre -> le q v) /\ (forall q, In q post -> vcmp q v = Lt).
  Proof.
    destruct l as [|a l]; simpl; [discriminate|]. intros H E. injection E as <-.
    apply (last_max_fold_split vcmp U HP l a); [apply H; now left|intros q Hq; apply H; now right].
  Qed.

  Lemma last_max_nil l : last_max vcmp l = None -> l = [].
  Proof. destruct l; [reflexivity|discriminate]. Qed.

  Lemma split_is_max pre v post :
    (forall q, In q (pre ++ v :: post) -> In q U) ->
    (forall q, In q pre -> le q v) -> (forall q, In q post -> vcmp q v = Lt) ->
    forall w, In w (pre ++ v :: post) -> le w v.
  Proof.
    intros HU A B w Hw. apply in_app_or in Hw. destruct Hw as [Hw|[<-|Hw]].
    - now apply A.
    - apply (ple_refl vcmp U HP). apply HU. apply in_or_app. right. now left.
    - unfold ResolveLib.le. rewrite (B w Hw). discriminate.
  Qed.

  Lemma last_max_greatest l : (forall q, In q l -> In q U) -> last_max vcmp l = last_greatest vcmp l l.
  Proof.
    intro HU. unfold last_greatest. destruct (last_max vcmp l) as [v|] eqn:E.
    - destruct (last_max_split l v HU E) as [pre [post [S [A B]]]]. symmetry.
      rewrite S at 2. apply find_rev_split.
      + apply (is_max_true vcmp). rewrite S. apply split_is_max; auto. now rewrite <- S.
      + intros q Hq. apply (is_max_false vcmp). exists v. split.
        * rewrite S. apply in_or_app. right. now left.
        * apply (plt_gt vcmp U HP); [apply HU; rewrite S; apply in_or_app; right; now right
                                   |apply HU; rewrite S; apply in_or_app; right; now left|now apply B].
    - apply last_max_nil in E. subst. reflexivity.
  Qed.
End Tie.

(* ---------------------------------------------------------------- expressions *)

Lemma existsb_version_mem out v :
  existsb (fun p => str_eqb (fd_version p) v) out = mem_str v (map fd_version out).
Proof.
  induction out as [|a out IH]; simpl; [reflexivity|].
  rewrite (str_eqb_sym (fd_version a) v), IH. destruct (str_eqb v (fd_version a)); reflexivity.
Qed.

Lemma add_new_versions s n f vs : forall out a,
  map fd_version out = uniq a -> map fd_version (add_new s n f vs out) = uniq (a ++ vs).
Proof.
  induction vs as [|v vs IH]; intros out a H; simpl.
  - now rewrite app_nil_r.
  - rewrite existsb_version_mem, H.
    replace (a ++ v :: vs) with ((a ++ [v]) ++ vs) by (rewrite <- app_assoc; reflexivity).
    destruct (mem_str v (uniq a)) eqn:M.
    + apply mem_str_In in M. rewrite uniq_In in M. apply IH. now rewrite uniq_app_present.
    + apply mem_str_not_In in M. rewrite uniq_In in M. apply IH.
      rewrite map_app, H. simpl. now rewrite uniq_app_fresh.
Qed.

Lemma matching_stack_versions vmatch n x f s :
  map fd_version (matching_stack vmatch n x f s) = filter (fun v => vmatch v x) (versions_in s n f).
Proof. unfold matching_stack. rewrite map_map. simpl. apply map_id. Qed.

Lemma fbe_versions vmatch n x f db : forall out a,
  map fd_version out = uniq a ->
  map fd_version (find_by_expr_from vmatch out db n x f) = uniq (a ++ map fd_version (matching vmatch n x f db)).
Proof.
  induction db as [|s db IH]; intros out a H; simpl.
  - now rewrite app_nil_r.
  - rewrite (IH _ (a ++ filter (fun v => vmatch v x) (versions_in s n f))) by now apply add_new_versions.
    now rewrite map_app, matching_stack_versions, app_assoc.
Qed.

Lemma expr_tie_spec vcmp vmatch db n x f :
  total_preorder_on vcmp (names_of db n) ->
  select_latest vcmp (find_by_expr vmatch db n x f) = expr_tie vcmp vmatch db n x f.
Proof.
  intro HP. unfold expr_tie. rewrite filter_candidates.
  set (L := matching vmatch n x f db). unfold find_by_expr.
  set (D := find_by_expr_from vmatch [] db n x f).
  assert (HF : forall v, find (verb v) D = find (verb v) L)
    by (intro v; unfold D; rewrite fbe_find; reflexivity).
  assert (HV : map fd_version D = uniq (map fd_version L))
    by (unfold D; now rewrite (fbe_versions vmatch n x f db [] [])).
  assert (HU : forall q, In q (uniq (map fd_version L)) -> In q (names_of db n)).
  { intros q Hq. rewrite uniq_In in Hq. apply in_map_iff in Hq. destruct Hq as [p [<- Hp]].
    unfold L in Hp. rewrite <- filter_candidates in Hp. apply filter_In in Hp.
    now apply candidates_names with f. }
  unfold select_latest. rewrite HV, (last_max_greatest vcmp (names_of db n) HP _ HU).
  destruct (last_greatest vcmp _ _) as [v|]; [|reflexivity]. exact (HF v).
Qed.

(* ---------------------------------------------------------------- latest *)

Section LatestTie.
  Variable vcmp : str -> str -> comparison.
  Variable U : list str.
  Hypothesis HP : total_preorder_on vcmp U.
  Variables n f : str.

  Local Notation le := (ResolveLib.le vcmp).

  Definition cnames (db : dbv) : list str := map fd_version (candidates db n f).
  Definition tie_pick (G : list str) (s : stackv) : option found :=
    match last_greatest vcmp G (versions_in s n f) with
    | Some v => Some (found_in s n v f)
    | None => None
    end.

  Lemma tie_pick_nil G s : versions_in s n f = [] -> tie_pick G s = None.
  Proof. intro E. unfold tie_pick, last_greatest. now rewrite E. Qed.

  Lemma cnames_cons s db : cnames (s :: db) = versions_in s n f ++ cnames db.
  Proof.
    unfold cnames. rewrite candidates_cons, map_app. f_equal. unfold cands_stack. rewrite map_map. simpl.
    apply map_id.
  Qed.

  Lemma cnames_in db s v : In s db -> In v (versions_in s n f) -> In v (cnames db).
  Proof.
    induction db as [|s0 db IH]; [intros []|]. rewrite cnames_cons. intros [->|Hs] Hv; apply in_or_app; auto.
  Qed.

  Lemma is_max_sub G G' x : (forall w, In w G' -> In w G) -> is_max vcmp G' x = false -> is_max vcmp G x = false.
  Proof.
    intros S H. apply (is_max_false vcmp) in H. destruct H as [w [Hw E]]. apply (is_max_false vcmp). eauto.
  Qed.

  (* the picks inside the remaining stacks do not change when the reference list changes between two lists
     with the same greatest elements *)
  Lemma tie_pick_ext G G' db :
    (forall x, In x (cnames db) -> is_max vcmp G x = is_max vcmp G' x) ->
    first_some (tie_pick G) db = first_some (tie_pick G') db.
  Proof.
    intro H. apply first_some_ext_in. intros s Hs. unfold tie_pick, last_greatest.
    rewrite (find_ext_in (is_max vcmp G) (is_max vcmp G') (rev (versions_in s n f))); [reflexivity|].
    intros x Hx. apply H. apply cnames_in with s; [assumption|]. now apply in_rev.
  Qed.

  (* a stack whose last greatest name vl beats everything seen so far (the names X) *)
  Lemma new_leader s db X vl pre post :
    (forall w, In w (X ++ versions_in s n f ++ cnames db) -> In w U) ->
    versions_in s n f = pre ++ vl :: post ->
    (forall q, In q pre -> le q vl) -> (forall q, In q post -> vcmp q vl = Lt) ->
    (forall w, In w X -> le w vl) ->
    first_some (tie_pick (X ++ versions_in s n f ++ cnames db)) (s :: db) =
    if is_max vcmp (cnames db) vl then Some (found_in s n vl f)
    else first_some (tie_pick (vl :: cnames db)) db.
  Proof.
    intros HU S A B HX. set (V := versions_in s n f) in *. set (N := cnames db) in *. set (G := X ++ V ++ N).
    assert (HvU : In vl U) by (apply HU; apply in_or_app; right; apply in_or_app; left; rewrite S;
                               apply in_or_app; right; now left).
    assert (HVU : forall w, In w V -> In w U) by (intros w Hw; apply HU; apply in_or_app; right; apply in_or_app; now left).
    assert (HNU : forall w, In w N -> In w U) by (intros w Hw; apply HU; apply in_or_app; right; apply in_or_app; now right).
    assert (HXU : forall w, In w X -> In w U) by (intros w Hw; apply HU; apply in_or_app; now left).
    assert (LV : forall w, In w V -> le w vl).
    { rewrite S. apply (split_is_max vcmp U HP); auto. rewrite <- S. exact HVU. }
    simpl first_some. destruct (is_max vcmp N vl) eqn:M.
    - (* vl is a greatest name of everything: the stack s answers, with vl *)
      assert (P : tie_pick G s = Some (found_in s n vl f)).
      { unfold tie_pick, last_greatest. fold V. rewrite S. rewrite find_rev_split; [reflexivity| |].
        - apply (is_max_true vcmp). intros w Hw. unfold G in Hw. apply in_app_or in Hw. destruct Hw as [Hw|Hw]; [now apply HX|].
          apply in_app_or in Hw. destruct Hw as [Hw|Hw]; [now apply LV|].
          rewrite (is_max_true vcmp) in M. now apply M.
        - intros q Hq. apply (is_max_false vcmp). exists vl. split.
          + unfold G. apply in_or_app. right. apply in_or_app. left. rewrite S. apply in_or_app. right. now left.
          + apply (plt_gt vcmp U HP); auto. apply HVU. rewrite S. apply in_or_app. right. now right. }
      now rewrite P.
    - (* a later stack holds something greater than vl: no name of s is greatest *)
      pose proof M as M'. apply (is_max_false vcmp) in M'. destruct M' as [z [Hz Ez]].
      assert (P : tie_pick G s = None).
      { unfold tie_pick, last_greatest. fold V. rewrite find_rev_none; [reflexivity|].
        intros w Hw. apply (is_max_false vcmp). exists z. split.
        - unfold G. apply in_or_app. right. apply in_or_app. now right.
        - apply (pgt_le_gt vcmp U HP z w vl); auto. }
      rewrite P. apply tie_pick_ext. intros x Hx. fold N in Hx.
      destruct (is_max vcmp (vl :: N) x) eqn:Q.
      + apply (is_max_true vcmp). rewrite (is_max_true vcmp) in Q. intros w Hw.
        assert (Lx : le vl x) by (apply Q; now left).
        unfold G in Hw. apply in_app_or in Hw. destruct Hw as [Hw|Hw].
        * apply (ple_trans vcmp U HP w vl x); auto.
        * apply in_app_or in Hw. destruct Hw as [Hw|Hw].
          -- apply (ple_trans vcmp U HP w vl x); auto.
          -- apply Q. now right.
      + apply (is_max_sub G (vl :: N)); [|exact Q]. intros w [<-|Hw]; unfold G; apply in_or_app; right; apply in_or_app.
        * left. rewrite S. apply in_or_app. right. now left.
        * now right.
  Qed.

  Lemma find_latest_from_tie db : forall out,
    (forall s, In s db -> forall v, In v (versions_in s n f) -> In v U) ->
    match out with Some o => In (fd_version o) U | None => True end ->
    find_latest_from vcmp out db n f =
    match out with
    | Some o => if is_max vcmp (cnames db) (fd_version o) then Some o
                else first_some (tie_pick (fd_version o :: cnames db)) db
    | None => first_some (tie_pick (cnames db)) db
    end.
  Proof.
    induction db as [|s db IH]; intros out HS HO.
    - simpl. destruct out; reflexivity.
    - assert (HS' : forall s0, In s0 db -> forall v, In v (versions_in s0 n f) -> In v U)
        by (intros s0 H0; apply HS; now right).
      assert (Hs : forall v, In v (versions_in s n f) -> In v U) by (apply HS; now left).
      assert (HN : forall w, In w (cnames db) -> In w U).
      { intros w Hw. unfold cnames in Hw. apply in_map_iff in Hw. destruct Hw as [p [<- Hp]].
        unfold candidates in Hp. apply in_flat_map in Hp. destruct Hp as [s0 [H0 Hp]].
        apply in_map_iff in Hp. destruct Hp as [v [<- Hv]]. simpl. now apply (HS' s0). }
      simpl find_latest_from. unfold stack_latest. rewrite cnames_cons.
      destruct (last_max vcmp (versions_in s n f)) as [vl|] eqn:LM.
      + destruct (last_max_split vcmp U HP _ vl Hs LM) as [pre [post [S [A B]]]].
        assert (HvU : In vl U) by (apply Hs; rewrite S; apply in_or_app; right; now left).
        assert (LV : forall w, In w (versions_in s n f) -> le w vl).
        { rewrite S. apply (split_is_max vcmp U HP); auto. rewrite <- S. exact Hs. }
        destruct out as [o|].
        * cbn [fd_version found_in].
          destruct (vcmp vl (fd_version o)) eqn:E.
          -- (* not greater: the earlier choice stands *)
             rewrite (IH (Some o) HS' HO).
             assert (LO : le vl (fd_version o)) by (unfold ResolveLib.le; rewrite E; discriminate).
             assert (MV : is_max vcmp (versions_in s n f) (fd_version o) = true).
             { apply (is_max_true vcmp). intros w Hw. apply (ple_trans vcmp U HP w vl (fd_version o)); auto. }
             rewrite is_max_app, MV. simpl.
             destruct (is_max vcmp (cnames db) (fd_version o)) eqn:M; [reflexivity|].
             pose proof M as M'. apply (is_max_false vcmp) in M'. destruct M' as [z [Hz Ez]].
             simpl first_some.
             assert (P : tie_pick (fd_version o :: versions_in s n f ++ cnames db) s = None).
             { unfold tie_pick, last_greatest. rewrite find_rev_none; [reflexivity|].
               intros w Hw. apply (is_max_false vcmp). exists z. split; [right; apply in_or_app; now right|].
               apply (pgt_le_gt vcmp U HP z w (fd_version o)); auto.
               apply (ple_trans vcmp U HP w vl (fd_version o)); auto. }
             rewrite P. apply tie_pick_ext. intros x Hx.
             destruct (is_max vcmp (fd_version o :: cnames db) x) eqn:Q; symmetry.
             ++ apply (is_max_true vcmp). rewrite (is_max_true vcmp) in Q. intros w [<-|Hw]; [apply Q; now left|].
                apply in_app_or in Hw. destruct Hw as [Hw|Hw]; [|apply Q; now right].
                apply (ple_trans vcmp U HP w (fd_version o) x); auto.
                ** apply (ple_trans vcmp U HP w vl (fd_version o)); auto.
                ** apply Q. now left.
             ++ apply (is_max_sub _ (fd_version o :: cnames db)); [|exact Q].
                intros w [<-|Hw]; [now left|right; apply in_or_app; now right].
          -- rewrite (IH (Some o) HS' HO).
             assert (LO : le vl (fd_version o)) by (unfold ResolveLib.le; rewrite E; discriminate).
             assert (MV : is_max vcmp (versions_in s n f) (fd_version o) = true).
             { apply (is_max_true vcmp). intros w Hw. apply (ple_trans vcmp U HP w vl (fd_version o)); auto. }
             rewrite is_max_app, MV. simpl.
             destruct (is_max vcmp (cnames db) (fd_version o)) eqn:M; [reflexivity|].
             pose proof M as M'. apply (is_max_false vcmp) in M'. destruct M' as [z [Hz Ez]].
             simpl first_some.
             assert (P : tie_pick (fd_version o :: versions_in s n f ++ cnames db) s = None).
             { unfold tie_pick, last_greatest. rewrite find_rev_none; [reflexivity|].
               intros w Hw. apply (is_max_false vcmp). exists z. split; [right; apply in_or_app; now right|].
               apply (pgt_le_gt vcmp U HP z w (fd_version o)); auto.
               apply (ple_trans vcmp U HP w vl (fd_version o)); auto. }
             rewrite P. apply tie_pick_ext. intros x Hx.
             destruct (is_max vcmp (fd_version o :: cnames db) x) eqn:Q; symmetry.
             ++ apply (is_max_true vcmp). rewrite (is_max_true vcmp) in Q. intros w [<-|Hw]; [apply Q; now left|].
                apply in_app_or in Hw. destruct Hw as [Hw|Hw]; [|apply Q; now right].
                apply (ple_trans vcmp U HP w (fd_version o) x); auto.
                ** apply (ple_trans vcmp U HP w vl (fd_version o)); auto.
                ** apply Q. now left.
             ++ apply (is_max_sub _ (fd_version o :: cnames db)); [|exact Q].
                intros w [<-|Hw]; [now left|right; apply in_or_app; now right].
          -- (* strictly greater: the stack s takes over *)
             rewrite (IH (Some (found_in s n vl f)) HS' HvU). cbn [fd_version found_in].
             assert (MO : is_max vcmp (versions_in s n f ++ cnames db) (fd_version o) = false).
             { apply (is_max_false vcmp). exists vl. split; [|exact E]. apply in_or_app. left. rewrite S.
               apply in_or_app. right. now left. }
             rewrite MO. symmetry.
             apply (new_leader s db [fd_version o] vl pre post); auto.
             ++ intros w Hw. simpl in Hw. destruct Hw as [<-|Hw]; [exact HO|]. apply in_app_or in Hw. destruct Hw as [Hw|Hw]; [now apply Hs|now apply HN].
             ++ intros w [<-|[]]. unfold ResolveLib.le. rewrite (pgt_lt vcmp U HP vl (fd_version o)); auto. discriminate.
        * rewrite (IH (Some (found_in s n vl f)) HS' HvU). cbn [fd_version found_in]. symmetry.
          apply (new_leader s db [] vl pre post); auto.
          -- simpl. intros w Hw. apply in_app_or in Hw. destruct Hw as [Hw|Hw]; [now apply Hs|now apply HN].
          -- intros w [].
      + apply last_max_nil in LM. rewrite LM. simpl app. rewrite (IH out HS' HO).
        destruct out as [o|].
        * destruct (is_max vcmp (cnames db) (fd_version o)); [reflexivity|].
          simpl first_some. now rewrite (tie_pick_nil _ s LM).
        * simpl first_some. now rewrite (tie_pick_nil _ s LM).
  Qed.
End LatestTie.

Lemma latest_tie_spec vcmp db n f :
  total_preorder_on vcmp (names_of db n) ->
  find_latest vcmp db n f = latest_tie vcmp db n f.
Proof.
  intro HP. unfold find_latest, latest_tie.
  rewrite (find_latest_from_tie vcmp (names_of db n) HP n f db None); [reflexivity| |exact I].
  intros s Hs v Hv. eapply versions_in_names; eauto.
Qed.

(* ---------------------------------------------------------------- consequences for a total preorder *)

Lemma expr_highest_pre vcmp vmatch db n x f p :
  total_preorder_on vcmp (names_of db n) ->
  select_latest vcmp (find_by_expr vmatch db n x f) = Some p ->
  In p (candidates db n f) /\ vmatch (fd_version p) x = true /\
  (forall q, In q (candidates db n f) -> vmatch (fd_version q) x = true ->
             vcmp (fd_version q) (fd_version p) <> Gt) /\
  find (fun q => str_eqb (fd_version q) (fd_version p))
       (filter (fun q => vmatch (fd_version q) x) (candidates db n f)) = Some p.
Proof.
  intros HP H. rewrite (expr_tie_spec vcmp vmatch db n x f HP) in H. unfold expr_tie in H.
  set (m := filter (fun p => vmatch (fd_version p) x) (candidates db n f)) in *.
  destruct (last_greatest vcmp (uniq (map fd_version m)) (uniq (map fd_version m))) as [v|] eqn:LG; [|discriminate].
  unfold last_greatest in LG. apply find_some in LG. destruct LG as [_ MX].
  pose proof (find_some _ _ H) as [Ip Vp]. apply str_eqb_eq in Vp.
  pose proof Ip as Ip'. unfold m in Ip'. apply filter_In in Ip'. destruct Ip' as [Ic Mp].
  split; [exact Ic|]. split; [exact Mp|]. split.
  - intros q Hq Mq. rewrite Vp.
    assert (PU : forall w, In w (uniq (map fd_version m)) -> ResolveLib.le vcmp w v).
    { apply (is_max_true vcmp). exact MX. }
    apply PU. rewrite uniq_In. apply in_map. unfold m. apply filter_In. now split.
  - rewrite Vp. exact H.
Qed.

Lemma first_some_split {A B} (g : A -> option B) l b :
  first_some g l = Some b ->
  exists l1 a l2, l = l1 ++ a :: l2 /\ g a = Some b /\ forall a', In a' l1 -> g a' = None.
Proof.
  induction l as [|a l IH]; simpl; [discriminate|].
  destruct (g a) as [b'|] eqn:E.
  - intro H. injection H as <-. exists [], a, l. repeat split; [exact E|intros a' []].
  - intro H. destruct (IH H) as [l1 [a0 [l2 [S [G N]]]]]. exists (a :: l1), a0, l2.
    split; [simpl; now rewrite S|]. split; [exact G|]. intros a' [<-|Ha]; auto.
Qed.

Lemma candidates_app db1 db2 n f : candidates (db1 ++ db2) n f = candidates db1 n f ++ candidates db2 n f.
Proof. unfold candidates. apply flat_map_app. Qed.

Lemma latest_highest_pre vcmp db n f p :
  total_preorder_on vcmp (names_of db n) ->
  find_latest vcmp db n f = Some p ->
  In p (candidates db n f) /\
  (forall q, In q (candidates db n f) -> vcmp (fd_version q) (fd_version p) <> Gt) /\
  find (fun q => str_eqb (fd_version q) (fd_version p)) (candidates db n f) = Some p.
Proof.
  intros HP H. rewrite (latest_tie_spec vcmp db n f HP) in H. unfold latest_tie in H.
  set (all := map fd_version (candidates db n f)) in *.
  apply first_some_split in H. destruct H as [db1 [s [db2 [S [G N]]]]].
  destruct (last_greatest vcmp all (versions_in s n f)) as [v|] eqn:LG; [|discriminate]. injection G as <-.
  unfold last_greatest in LG. apply find_some in LG. destruct LG as [Iv MX]. apply in_rev in Iv.
  assert (Is : In (found_in s n v f) (cands_stack s n f)) by (unfold cands_stack; apply in_map_iff; eauto).
  assert (Ic : In (found_in s n v f) (candidates db n f)).
  { rewrite S, candidates_app, candidates_cons. apply in_or_app. right. apply in_or_app. now left. }
  split; [exact Ic|]. split.
  - intros q Hq. simpl. rewrite (is_max_true vcmp) in MX. apply MX. unfold all. now apply in_map.
  - simpl. change (fun q => str_eqb (fd_version q) v) with (verb v).
    rewrite S, candidates_app, candidates_cons, !find_app.
    assert (N1 : find (verb v) (candidates db1 n f) = None).
    { apply find_none_iff. intros q Hq. unfold verb. destruct (str_eqb (fd_version q) v) eqn:E; [|reflexivity]. exfalso.
      apply str_eqb_eq in E. unfold candidates in Hq. apply in_flat_map in Hq. destruct Hq as [s' [Hs' Hq]].
      apply in_map_iff in Hq. destruct Hq as [w [<- Hw]]. simpl in E. subst w.
      specialize (N s' Hs'). cbv beta in N.
      destruct (last_greatest vcmp all (versions_in s' n f)) eqn:LG'; [discriminate|].
      unfold last_greatest in LG'. rewrite find_none_iff in LG'. rewrite (LG' v) in MX; [discriminate|].
      now apply -> in_rev. }
    rewrite N1. unfold cands_stack. rewrite find_verb_map. apply mem_str_In in Iv. now rewrite Iv.
Qed.

(* ---------------------------------------------------------------- the comparator of C10 on conventional names *)

Lemma vcmp_real_key a b : conv a = true -> conv b = true -> vcmp_real a b = key_compare (key a) (key b).
Proof. intros A B. unfold vcmp_real. now rewrite (C10.cmp_is_key_order a b A B). Qed.

Lemma conv_names_forall l : conv_names l = true <-> forall x, In x l -> conv x = true.
Proof. unfold conv_names. apply forallb_forall. Qed.

Lemma conv_names_accepted l : conv_names l = true -> forallb accepts l = true.
Proof.
  rewrite conv_names_forall, forallb_forall. intros H x Hx. apply C10.conv_is_accepted. auto.
Qed.

Lemma real_preorder l : conv_names l = true -> total_preorder_on vcmp_real l.
Proof.
  intro C. rewrite conv_names_forall in C. destruct C10.key_order_is_total_order as [R [E [S T]]].
  split; [|split].
  - intros x Hx. rewrite vcmp_real_key by auto. apply R.
  - intros x y Hx Hy. rewrite !vcmp_real_key by auto. apply S.
  - intros x y z Hx Hy Hz. rewrite !vcmp_real_key by auto.
    destruct (C10.conv_trans x y z (C x Hx) (C y Hy) (C z Hz)) as [_ [T2 _]].
    rewrite (C10.cmp_is_key_order x y), (C10.cmp_is_key_order y z), (C10.cmp_is_key_order x z) in T2 by auto.
    intros H1 H2 H3. apply T2; congruence.
Qed.

Lemma vcmp_real_eq_key a b : conv a = true -> conv b = true -> (vcmp_real a b = Eq <-> key a = key b).
Proof.
  intros A B. rewrite vcmp_real_key by assumption. destruct C10.key_order_is_total_order as [R [E _]].
  split; [apply E|intros ->; apply R].
Qed.

Lemma key_injectiveb_spec l :
  key_injectiveb l = true <->
  forall x y, In x l -> In y l -> key_compare (key x) (key y) = Eq -> x = y.
Proof.
  unfold key_injectiveb. rewrite forallb_forall. split.
  - intros H x y Hx Hy E. specialize (H x Hx). rewrite forallb_forall in H. specialize (H y Hy).
    rewrite E in H. now apply str_eqb_eq.
  - intros H x Hx. apply forallb_forall. intros y Hy.
    destruct (key_compare (key x) (key y)) eqn:E; [|reflexivity|reflexivity].
    apply str_eqb_eq. now apply H.
Qed.

Lemma real_total_order l : real_names_ok l = true -> total_order_on vcmp_real l.
Proof.
  unfold real_names_ok. intro H. apply andb_true_iff in H. destruct H as [C J].
  destruct (real_preorder l C) as [R [S T]]. rewrite key_injectiveb_spec in J. rewrite conv_names_forall in C.
  split; [exact R|]. split; [|split; [exact S|exact T]].
  intros x y Hx Hy E. apply J; auto. now rewrite <- vcmp_real_key by auto.
Qed.

(* and conversely: on conventional names the hypothesis of Props/C03.v says exactly that no two declared
   names spell the same key *)
Lemma real_total_order_inv l : conv_names l = true -> total_order_on vcmp_real l -> real_names_ok l = true.
Proof.
  intros C [_ [E _]]. unfold real_names_ok. rewrite C. simpl. apply key_injectiveb_spec.
  rewrite conv_names_forall in C. intros x y Hx Hy K. apply E; auto. now rewrite vcmp_real_key by auto.
Qed.

(* ---------------------------------------------------------------- the matcher of C10 *)

Lemma vmatch_real_relop v op w :
  conv v = true -> conv w = true ->
  vmatch_real v (relop_text op ++ " "%char :: w) =
  str_eqb (prefix_of w) (prefix_of v) && rel op (key_compare (key v) (key w)).
Proof.
  intros Cv Cw. unfold vmatch_real. destruct (str_eqb_spec (prefix_of w) (prefix_of v)) as [P|P].
  - now rewrite (C10.match_relop v op w Cv Cw P).
  - now rewrite (C10.match_other_prefix v op w Cv Cw P).
Qed.

Lemma vmatch_real_alternatives v a l :
  conv v = true -> Forall (VersionCompareMatch.alt_conv v) (a :: l) ->
  vmatch_real v (print_expr (a :: l)) = existsb (alt_holds v) (a :: l).
Proof. intros Cv H. unfold vmatch_real. now rewrite (C10.match_alternatives v a l Cv H). Qed.

Lemma relop_expr_defined op w vs :
  conv_names vs = true -> conv w = true -> expr_defined (relop_text op ++ " "%char :: w) vs = true.
Proof.
  intros C Cw. rewrite conv_names_forall in C. unfold expr_defined. apply forallb_forall. intros v Hv.
  destruct (str_eqb_spec (prefix_of w) (prefix_of v)) as [P|P].
  - now rewrite (C10.match_relop v op w (C v Hv) Cw P).
  - now rewrite (C10.match_other_prefix v op w (C v Hv) Cw P).
Qed.

(* ---------------------------------------------------------------- inside the domain the checked resolver is the resolver *)

Lemma resolve_real_in_domain c db keep prev flavors depth vro rq :
  real_domain db rq = true ->
  resolve_real c db keep prev flavors depth vro rq =
  resolve_request vcmp_real vmatch_real c db keep prev flavors depth vro rq.
Proof. intro H. unfold resolve_real. now rewrite H. Qed.

Lemma walk_real_in_domain c db prev f depth vro rq :
  real_domain db rq = true ->
  walk_real c db prev f depth vro rq = Ok (find_from_vro vcmp_real vmatch_real c db prev f depth vro rq).
Proof. intro H. unfold walk_real. now rewrite H. Qed.

(* ---------------------------------------------------------------- worlds of the composed model *)

Lemma names_of_db_of_name cfg fw n v : In v (names_of (db_of cfg fw) n) -> In n (map p_name (fw_products fw)).
Proof.
  unfold names_of, db_of. simpl. rewrite app_nil_r. intro H. apply in_flat_map in H. destruct H as [[[n' v'] f'] [Hd Hv]].
  apply in_map_iff in Hd. destruct Hd as [p [Ep Hp]]. unfold decl_of in Ep. injection Ep as <- <- <-.
  destruct (str_eqb n (p_name p)) eqn:E; [|contradiction]. apply str_eqb_eq in E. subst n. now apply in_map.
Qed.

Lemma fw_real_ok_all cfg fw : fw_real_ok cfg fw = true -> forall n, real_names_ok (names_of (db_of cfg fw) n) = true.
Proof.
  intros H n. unfold fw_real_ok in H. rewrite forallb_forall in H.
  destruct (mem_str n (map p_name (fw_products fw))) eqn:M.
  - apply H. now apply mem_str_In.
  - apply mem_str_not_In in M. destruct (names_of (db_of cfg fw) n) as [|v r] eqn:E; [reflexivity|]. exfalso.
    apply M. apply (names_of_db_of_name cfg fw n v). rewrite E. now left.
Qed.

Lemma fw_real_ok_total cfg fw :
  fw_real_ok cfg fw = true -> forall n, total_order_on vcmp_real (names_of (db_of cfg fw) n).
Proof. intros H n. apply real_total_order. now apply fw_real_ok_all. Qed.

(* ---------------------------------------------------------------- the expression entry, read in the key order *)

Lemma expr_highest_real_lemma db n op w f p :
  conv_names (names_of db n) = true -> conv w = true ->
  select_latest vcmp_real (find_by_expr vmatch_real db n (relop_text op ++ " "%char :: w) f) = Some p ->
  In p (candidates db n f) /\
  prefix_of (fd_version p) = prefix_of w /\ rel op (key_compare (key (fd_version p)) (key w)) = true /\
  (forall q, In q (candidates db n f) -> prefix_of (fd_version q) = prefix_of w ->
             rel op (key_compare (key (fd_version q)) (key w)) = true ->
             key_compare (key (fd_version q)) (key (fd_version p)) <> Gt).
Proof.
  intros C Cw H. pose proof C as C'. rewrite conv_names_forall in C'.
  destruct (expr_highest_pre vcmp_real vmatch_real db n _ f p (real_preorder _ C) H) as [Ip [Mp [Mx _]]].
  assert (Cp : conv (fd_version p) = true) by (apply C'; now apply candidates_names with f).
  rewrite (vmatch_real_relop _ op w Cp Cw) in Mp. apply andb_true_iff in Mp. destruct Mp as [Pp Rp].
  apply str_eqb_eq in Pp. split; [exact Ip|]. split; [now symmetry|]. split; [exact Rp|].
  intros q Hq Pq Rq.
  assert (Cq : conv (fd_version q) = true) by (apply C'; now apply candidates_names with f).
  rewrite <- (vcmp_real_key _ _ Cq Cp). apply Mx; [exact Hq|].
  rewrite (vmatch_real_relop _ op w Cq Cw), Rq, Pq, str_eqb_refl. reflexivity.
Qed.

Lemma latest_highest_real_lemma db n f p :
  conv_names (names_of db n) = true ->
  find_latest vcmp_real db n f = Some p ->
  In p (candidates db n f) /\
  (forall q, In q (candidates db n f) -> key_compare (key (fd_version q)) (key (fd_version p)) <> Gt) /\
  find (fun q => str_eqb (fd_version q) (fd_version p)) (candidates db n f) = Some p.
Proof.
  intros C H. pose proof C as C'. rewrite conv_names_forall in C'.
  destruct (latest_highest_pre vcmp_real db n f p (real_preorder _ C) H) as [Ip [Mx F]].
  split; [exact Ip|]. split; [|exact F]. intros q Hq.
  rewrite <- vcmp_real_key; [now apply Mx| |]; apply C'; now apply candidates_names with f.
Qed.
