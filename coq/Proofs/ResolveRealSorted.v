(* One stack with listings sorted as strings (what Database.findProducts returns): the resolver with the comparator of
   C10 is the resolver with vcmp_sorted - the order of C10 refined by the string order among spellings of one key -
   and vcmp_sorted is a total order on conventional names.  So the theorems that ask for a total order (Props/C03.v
   walk_is_designation, Props/C01.v closure_exact, Props/C02.v unsetup_inverts_setup) hold for the composed model on
   every world with conventional version names, names that spell one key included, with the designation rule read in
   that refined order (of 1.0 and 1_0 the latter is the higher). *)
From Eupsv Require Import Base.Base Base.BaseLemmas Model.VersionCompare Model.VersionKey Model.PathAlg Model.Setup
     Model.Resolve Model.ResolveSpec Model.SetupFull Model.ResolveReal Proofs.ResolveLib Proofs.Resolve
     Proofs.VersionCompareLib Proofs.VersionCompareKey Proofs.ResolveReal.
From Coq Require Import Lia.

(* ---------------------------------------------------------------- vcmp_sorted is a total order on conventional names *)

Definition ks_compare (x y : vkey * str) : comparison :=
  then_cmp (key_compare (fst x) (fst y)) (str_compare (snd x) (snd y)).

Lemma ord_ok_ks : ord_ok ks_compare.
Proof. apply (ord_ok_pair key_compare str_compare ord_ok_key ord_ok_str). Qed.

Lemma vcmp_sorted_ks a b : conv a = true -> conv b = true -> vcmp_sorted a b = ks_compare (key a, a) (key b, b).
Proof.
  intros A B. unfold vcmp_sorted, ks_compare. rewrite (vcmp_real_key a b A B). cbn [fst snd].
  destruct (key_compare (key a) (key b)); reflexivity.
Qed.

Lemma sorted_total_order l : conv_names l = true -> total_order_on vcmp_sorted l.
Proof.
  intro C. rewrite conv_names_forall in C. pose proof ord_ok_ks as O.
  split; [|split; [|split]].
  - intros x Hx. rewrite vcmp_sorted_ks by auto. apply (ok_refl _ O).
  - intros x y Hx Hy E. rewrite vcmp_sorted_ks in E by auto. apply (ok_eq _ O) in E. now injection E.
  - intros x y Hx Hy. rewrite !vcmp_sorted_ks by auto. apply (ok_anti _ O).
  - intros x y z Hx Hy Hz. rewrite !vcmp_sorted_ks by auto. apply (ok_le_trans _ O).
Qed.

Lemma vcmp_sorted_refines a b : vcmp_real a b <> Eq -> vcmp_sorted a b = vcmp_real a b.
Proof. unfold vcmp_sorted. destruct (vcmp_real a b); congruence. Qed.

(* ---------------------------------------------------------------- strictly increasing lists of strings *)

Fixpoint ssorted (l : list str) : Prop :=
  match l with
  | [] => True
  | a :: r => (forall b, In b r -> str_compare a b = Lt) /\ ssorted r
  end.

Lemma str_sorted_ssorted l : str_sorted l = true -> ssorted l.
Proof.
  induction l as [|a r IH]; [intros _; exact I|].
  destruct r as [|b r']; [intros _; split; [intros b []|exact I]|].
  intro H. cbn [str_sorted] in H. apply andb_true_iff in H. destruct H as [H1 H2].
  destruct (str_compare a b) eqn:E; try discriminate.
  specialize (IH H2). split; [|exact IH].
  intros x [<-|Hx]; [exact E|]. destruct IH as [IHb _].
  apply (ok_trans _ ord_ok_str a b x E). now apply IHb.
Qed.

Lemma ssorted_filter (p : str -> bool) l : ssorted l -> ssorted (filter p l).
Proof.
  induction l as [|a r IH]; [intros _; exact I|]. intros [Ha Hr]. simpl. destruct (p a).
  - split; [|now apply IH]. intros b Hb. apply filter_In in Hb. now apply Ha.
  - now apply IH.
Qed.

Lemma ssorted_NoDup l : ssorted l -> NoDup l.
Proof.
  induction l as [|a r IH]; [constructor|]. intros [Ha Hr]. constructor; [|now apply IH].
  intro Hin. specialize (Ha a Hin). rewrite (ok_refl _ ord_ok_str) in Ha. discriminate.
Qed.

Lemma ssorted_split pre v post : ssorted (pre ++ v :: post) -> forall q, In q pre -> str_compare q v = Lt.
Proof.
  induction pre as [|a pre IH]; [intros _ q []|]. simpl. intros [Ha Hr] q [<-|Hq].
  - apply Ha. apply in_or_app. right. now left.
  - now apply IH.
Qed.

(* ---------------------------------------------------------------- the last greatest of a sorted list *)

Lemma last_max_sorted l :
  conv_names l = true -> ssorted l -> last_max vcmp_real l = last_max vcmp_sorted l.
Proof.
  intros C S. pose proof (real_preorder l C) as HP.
  pose proof (total_order_is_preorder _ _ (sorted_total_order l C)) as HS.
  rewrite (last_max_greatest vcmp_sorted l HS l (fun q H => H)).
  destruct (last_max vcmp_real l) as [v|] eqn:E.
  - destruct (last_max_split vcmp_real l HP l v (fun q H => H) E) as [pre [post [Sp [A B]]]].
    unfold last_greatest. symmetry. rewrite Sp at 2.
    assert (Iv : In v l) by (rewrite Sp; apply in_or_app; right; now left).
    apply find_rev_split.
    + apply (is_max_true vcmp_sorted). intros w Hw. rewrite Sp in Hw. apply in_app_or in Hw.
      unfold ResolveLib.le. destruct Hw as [Hw|[<-|Hw]].
      * unfold vcmp_sorted. specialize (A w Hw). unfold ResolveLib.le in A.
        destruct (vcmp_real w v) eqn:Ew; try congruence; try discriminate.
        rewrite Sp in S. rewrite (ssorted_split pre v post S w Hw). discriminate.
      * destruct (sorted_total_order l C) as [R _]. rewrite (R v Iv). discriminate.
      * rewrite vcmp_sorted_refines; rewrite (B w Hw); discriminate.
    + intros q Hq. apply (is_max_false vcmp_sorted). exists v. split; [exact Iv|].
      assert (Iq : In q l) by (rewrite Sp; apply in_or_app; right; now right).
      assert (G : vcmp_real v q = Gt) by (apply (plt_gt vcmp_real l HP); auto).
      rewrite vcmp_sorted_refines; rewrite G; [reflexivity|discriminate].
  - apply last_max_nil in E. subst. reflexivity.
Qed.

(* ---------------------------------------------------------------- the two look-ups over one stack *)

Lemma db_sorted_listing db s n f : db_sorted db = true -> In s db -> ssorted (versions_in s n f).
Proof.
  intros H Hs. unfold db_sorted in H. rewrite forallb_forall in H. specialize (H s Hs). rewrite forallb_forall in H.
  destruct (versions_in s n f) as [|v r] eqn:E; [exact I|]. rewrite <- E.
  assert (Hv : In v (versions_in s n f)) by (rewrite E; now left).
  apply versions_of_In in Hv. specialize (H _ Hv). cbn in H. now apply str_sorted_ssorted.
Qed.

Lemma conv_names_sub l l' : (forall x, In x l' -> In x l) -> conv_names l = true -> conv_names l' = true.
Proof. rewrite !conv_names_forall. auto. Qed.

Section OneStack.
  Variable s : stackv.
  Hypothesis HS : db_sorted [s] = true.
  Variable n : str.
  Hypothesis HC : conv_names (names_of [s] n) = true.

  Lemma listing_conv f : conv_names (versions_in s n f) = true.
  Proof. apply (conv_names_sub (names_of [s] n)); [|exact HC]. intros x Hx. apply (versions_in_names [s] s n f); [now left|exact Hx]. Qed.

  Lemma find_latest_one_stack f : find_latest vcmp_real [s] n f = find_latest vcmp_sorted [s] n f.
  Proof.
    unfold find_latest. cbn [find_latest_from]. unfold stack_latest.
    rewrite (last_max_sorted _ (listing_conv f) (db_sorted_listing [s] s n f HS (or_introl eq_refl))).
    reflexivity.
  Qed.

  Lemma expr_one_stack vmatch x f :
    select_latest vcmp_real (find_by_expr vmatch [s] n x f) = select_latest vcmp_sorted (find_by_expr vmatch [s] n x f).
  Proof.
    unfold select_latest, find_by_expr. cbn [find_by_expr_from].
    set (V := filter (fun v => vmatch v x) (versions_in s n f)).
    assert (SV : ssorted V) by (apply ssorted_filter, (db_sorted_listing [s] s n f HS (or_introl eq_refl))).
    assert (E : map fd_version (add_new s n f V []) = V).
    { rewrite (add_new_versions s n f V [] []) by reflexivity. simpl. apply uniq_NoDup_id. now apply ssorted_NoDup. }
    rewrite E.
    assert (CV : conv_names V = true).
    { apply (conv_names_sub (versions_in s n f)); [|apply listing_conv]. intros y Hy. unfold V in Hy. apply filter_In in Hy. tauto. }
    now rewrite (last_max_sorted V CV SV).
  Qed.
End OneStack.

(* ---------------------------------------------------------------- the resolver reads the comparator through the two look-ups only *)

Section Congruence.
  Variables v1 v2 : str -> str -> comparison.
  Variables m1 m2 : str -> str -> bool.
  Variable db : dbv.
  Hypothesis HL : forall n f, find_latest v1 db n f = find_latest v2 db n f.
  Hypothesis HE : forall n x f, select_latest v1 (find_by_expr m1 db n x f) = select_latest v2 (find_by_expr m2 db n x f).

  Lemma find_tagged_congr n t f : find_tagged v1 db n t f = find_tagged v2 db n t f.
  Proof. unfold find_tagged. now rewrite HL. Qed.

  Lemma tag_step_congr n f e t : tag_step v1 db n f e t = tag_step v2 db n f e t.
  Proof. unfold tag_step. now rewrite find_tagged_congr. Qed.

  Lemma version_step_congr rq f depth e later :
    version_step v1 m1 db rq f depth e later = version_step v2 m2 db rq f depth e later.
  Proof.
    unfold version_step. destruct (truthy (rq_version rq)) as [v|]; [|reflexivity].
    destruct (is_expr v && negb (entry_eqb e EVersionExpr)); [reflexivity|]. cbv zeta.
    destruct (if entry_eqb e EVersionExpr then if is_expr v then Some v else truthy (rq_expr rq) else None) as [x|];
      [|reflexivity].
    destruct (is_expr x); [|reflexivity]. now rewrite HE.
  Qed.

  Lemma vro_step_congr c prev rq f depth e later :
    vro_step v1 m1 c db prev rq f depth e later = vro_step v2 m2 c db prev rq f depth e later.
  Proof.
    unfold vro_step. destruct e; try reflexivity; rewrite ?tag_step_congr, ?version_step_congr; reflexivity.
  Qed.

  Lemma vro_loop_congr c prev rq f depth l :
    vro_loop v1 m1 c db prev rq f depth l = vro_loop v2 m2 c db prev rq f depth l.
  Proof. induction l as [|e later IH]; simpl; [reflexivity|]. now rewrite vro_step_congr, IH. Qed.

  Lemma find_from_vro_congr c prev f depth vro rq :
    find_from_vro v1 m1 c db prev f depth vro rq = find_from_vro v2 m2 c db prev f depth vro rq.
  Proof. unfold find_from_vro. now rewrite vro_loop_congr. Qed.

  Lemma accept_loop_congr c keep prev f depth rq : forall fuel vro,
    accept_loop v1 m1 fuel c db keep prev f depth vro rq = accept_loop v2 m2 fuel c db keep prev f depth vro rq.
  Proof.
    induction fuel as [|k IH]; intro vro; simpl; [reflexivity|].
    destruct vro as [|e l]; [reflexivity|]. rewrite find_from_vro_congr.
    destruct (find_from_vro v2 m2 c db prev f depth (e :: l) rq) as [[p r]|].
    - destruct (truthy (rq_version rq)); [|reflexivity].
      destruct ((depth =? 0) && negb (is_expr s) && negb (str_eqb (fd_version p) s)); [|reflexivity].
      destruct r as [tag ox]. destruct (index_of tag (e :: l)); [apply IH|reflexivity].
    - destruct prev as [[op oo]|]; [|reflexivity].
      destruct (keep || opt_str_eqb (fd_version op) (rq_version rq)); [|reflexivity].
      destruct (truthy (rq_version rq)); reflexivity.
  Qed.

  Lemma resolve_request_congr c keep prev flavors depth vro rq :
    resolve_request v1 m1 c db keep prev flavors depth vro rq = resolve_request v2 m2 c db keep prev flavors depth vro rq.
  Proof.
    unfold resolve_request. induction flavors as [|f fs IH]; cbn [flavor_loop]; [reflexivity|].
    rewrite accept_loop_congr. destruct (accept_loop v2 m2 _ c db keep prev f depth vro rq) as [[x|]|]; auto.
  Qed.
End Congruence.

(* ---------------------------------------------------------------- the composed model reads the comparator through resolve_request only *)

Section FullExt.
  Variables v1 v2 : str -> str -> comparison.
  Variables m1 m2 : str -> str -> bool.
  Variable fw : fworld.
  Variable cfg : Setup.config.
  Variable rc : Resolve.config.
  Variable flavors : list str.
  Hypothesis HR : forall keep prev fl depth vro rq,
    resolve_request v1 m1 rc (db_of cfg fw) keep prev fl depth vro rq =
    resolve_request v2 m2 rc (db_of cfg fw) keep prev fl depth vro rq.

  Lemma run_actions_full_ext (r1 r2 : full_fn) :
    (forall st al vro name li fwd depth just, r1 st al vro name li fwd depth just = r2 st al vro name li fwd depth just) ->
    forall fwd depth just vro acts infos st al,
      run_actions_full cfg r1 fwd depth just vro acts infos st al = run_actions_full cfg r2 fwd depth just vro acts infos st al.
  Proof.
    intros H fwd depth just vro acts. induction acts as [|a acts IH]; intros infos st al; [reflexivity|].
    cbn [run_actions_full]. destruct a; try (destruct (exec_simple fwd _ st); [apply IH|reflexivity]).
    destruct (cut_off cfg just (S depth)); [apply IH|]. rewrite H.
    destruct (r2 st al (child_vro vro) name (hd no_info infos) fwd (S depth) just0) as [[|] st' al' tr|st' al' tr|tr|tr];
      try reflexivity; try (destruct (fwd && negb optional); [reflexivity|]); now rewrite IH.
  Qed.

  Lemma setup_full_step_ext (r1 r2 : full_fn) :
    (forall st al vro name li fwd depth just, r1 st al vro name li fwd depth just = r2 st al vro name li fwd depth just) ->
    forall st al vro name li fwd depth just,
      setup_full_step v1 m1 fw cfg rc flavors r1 st al vro name li fwd depth just =
      setup_full_step v2 m2 fw cfg rc flavors r2 st al vro name li fwd depth just.
  Proof.
    intros H st al vro name li fwd depth just. unfold setup_full_step. destruct fwd.
    - rewrite HR. destruct (resolve_request v2 m2 rc _ _ _ _ _ _ _) as [[[fd why]|]|]; try reflexivity.
      destruct (find_pv (fw_products fw) name (fd_version fd)) as [p|]; [|reflexivity].
      destruct (same_product p _ && negb (depth =? 0)); [reflexivity|].
      destruct (find_setup_product (fw_products fw) (s_env st) name).
      + rewrite H. destruct (r2 st _ vro name no_info false depth _) as [ok st1 al2 tr0|st1 al2 tr0|tr0|tr0]; try reflexivity.
        now rewrite (run_actions_full_ext r1 r2 H).
      + now rewrite (run_actions_full_ext r1 r2 H).
    - destruct (find_setup_product (fw_products fw) (s_env st) name); [|reflexivity].
      apply (run_actions_full_ext r1 r2 H).
  Qed.

  Lemma setup_full_ext fuel : forall st al vro name li fwd depth just,
    setup_full v1 m1 fw cfg rc flavors fuel st al vro name li fwd depth just =
    setup_full v2 m2 fw cfg rc flavors fuel st al vro name li fwd depth just.
  Proof.
    induction fuel as [|k IH]; [reflexivity|]. intros. cbn [setup_full]. now apply setup_full_step_ext.
  Qed.

  Lemma request_full_ext fuel st name version fwd just :
    request_full v1 m1 fw cfg rc flavors fuel st name version fwd just =
    request_full v2 m2 fw cfg rc flavors fuel st name version fwd just.
  Proof. unfold request_full. destruct (select_vro rc _); [|reflexivity]. now rewrite setup_full_ext. Qed.
End FullExt.

(* ---------------------------------------------------------------- worlds of the composed model *)

Lemma fw_conv_names cfg fw n : fw_conv fw = true -> conv_names (names_of (db_of cfg fw) n) = true.
Proof.
  unfold fw_conv. intro H. rewrite conv_names_forall. rewrite forallb_forall in H. intros v Hv. apply H.
  unfold names_of, db_of in Hv. simpl in Hv. rewrite app_nil_r in Hv. apply in_flat_map in Hv.
  destruct Hv as [[[n' v'] f'] [Hd Hv]]. apply in_map_iff in Hd. destruct Hd as [p [Ep Hp]].
  unfold decl_of in Ep. injection Ep as <- <- <-. destruct (str_eqb n (p_name p)); [|contradiction].
  destruct Hv as [<-|[]]. now apply in_map.
Qed.

Lemma resolve_real_is_sorted cfg fw rc :
  fw_conv fw = true -> db_sorted (db_of cfg fw) = true ->
  forall keep prev fl depth vro rq,
    resolve_request vcmp_real vmatch_real rc (db_of cfg fw) keep prev fl depth vro rq =
    resolve_request vcmp_sorted vmatch_real rc (db_of cfg fw) keep prev fl depth vro rq.
Proof.
  intros C S keep prev fl depth vro rq. apply resolve_request_congr.
  - intros n f. apply find_latest_one_stack; [exact S|now apply fw_conv_names].
  - intros n x f. apply expr_one_stack; [exact S|now apply fw_conv_names].
Qed.

Lemma setup_full_real_is_sorted cfg fw rc flavors fuel st al vro name li fwd depth just :
  fw_conv fw = true -> db_sorted (db_of cfg fw) = true ->
  setup_full_real fw cfg rc flavors fuel st al vro name li fwd depth just =
  setup_full vcmp_sorted vmatch_real fw cfg rc flavors fuel st al vro name li fwd depth just.
Proof. intros C S. apply setup_full_ext. now apply resolve_real_is_sorted. Qed.

Lemma request_full_real_is_sorted cfg fw rc flavors fuel st name version fwd just :
  fw_conv fw = true -> db_sorted (db_of cfg fw) = true ->
  request_full_real fw cfg rc flavors fuel st name version fwd just =
  request_full vcmp_sorted vmatch_real fw cfg rc flavors fuel st name version fwd just.
Proof. intros C S. apply request_full_ext. now apply resolve_real_is_sorted. Qed.

Lemma fw_conv_total_sorted cfg fw :
  fw_conv fw = true -> forall n, total_order_on vcmp_sorted (names_of (db_of cfg fw) n).
Proof. intros C n. apply sorted_total_order. now apply fw_conv_names. Qed.
