(* C03 - histories: lemmas about the changes of the database view (Model/ResolveSeq.v) *)
From Coq Require Import List Bool Arith.
Import ListNotations.
From Eupsv Require Import Base.Base Base.BaseLemmas Model.Resolve Model.ResolveSpec Model.ResolveSeq
     Proofs.ResolveLib Proofs.Resolve.

(* ------------------------------------------------------------------ one stack *)

Lemma chain_key_is_refl n f t v : chain_key_is n f t (n, f, t, v) = true.
Proof. unfold chain_key_is. now rewrite !str_eqb_refl. Qed.

Lemma chain_lookup_filter_same l n f t :
  chain_lookup (filter (fun x => negb (chain_key_is n f t x)) l) n f t = None.
Proof.
  induction l as [|[[[n' f'] t'] v'] r IH]; [reflexivity|].
  cbn [filter]. unfold chain_key_is at 1.
  destruct (str_eqb n n' && str_eqb f f' && str_eqb t t') eqn:K; cbn [negb].
  - exact IH.
  - cbn [chain_lookup]. rewrite K. exact IH.
Qed.

Lemma chain_lookup_filter_other l n f t n2 f2 t2 :
  (str_eqb n2 n && str_eqb f2 f && str_eqb t2 t) = false ->
  chain_lookup (filter (fun x => negb (chain_key_is n f t x)) l) n2 f2 t2 = chain_lookup l n2 f2 t2.
Proof.
  intros NE. induction l as [|[[[n' f'] t'] v'] r IH]; [reflexivity|].
  cbn [filter]. unfold chain_key_is at 1.
  destruct (str_eqb n n' && str_eqb f f' && str_eqb t t') eqn:K; cbn [negb].
  - cbn [chain_lookup].
    destruct (str_eqb n2 n' && str_eqb f2 f' && str_eqb t2 t') eqn:K2; [|exact IH].
    exfalso.
    apply andb_true_iff in K as [K Kt]. apply andb_true_iff in K as [Kn Kf].
    apply andb_true_iff in K2 as [K2 K2t]. apply andb_true_iff in K2 as [K2n K2f].
    apply str_eqb_eq in Kn, Kf, Kt, K2n, K2f, K2t. subst.
    now rewrite !str_eqb_refl in NE.
  - cbn [chain_lookup]. now rewrite IH.
Qed.

Lemma set_chain_version s n f t v : chain_version (set_chain s n f t v) n f t = Some v.
Proof. unfold chain_version, set_chain. cbn [st_chain chain_lookup]. now rewrite !str_eqb_refl. Qed.

Lemma set_chain_version_other s n f t v n2 f2 t2 :
  (str_eqb n2 n && str_eqb f2 f && str_eqb t2 t) = false ->
  chain_version (set_chain s n f t v) n2 f2 t2 = chain_version s n2 f2 t2.
Proof.
  intros NE. unfold chain_version, set_chain. cbn [st_chain chain_lookup]. rewrite NE.
  now apply chain_lookup_filter_other.
Qed.

Lemma set_chain_declared s n f t v n2 v2 f2 : declared (set_chain s n f t v) n2 v2 f2 = declared s n2 v2 f2.
Proof. reflexivity. Qed.

Lemma set_chain_id s n f t v : st_id (set_chain s n f t v) = st_id s.
Proof. reflexivity. Qed.

Lemma drop_chain_version s n f t : chain_version (drop_chain s n f t) n f t = None.
Proof. unfold chain_version, drop_chain. cbn [st_chain]. apply chain_lookup_filter_same. Qed.

Lemma drop_chain_version_other s n f t n2 f2 t2 :
  (str_eqb n2 n && str_eqb f2 f && str_eqb t2 t) = false ->
  chain_version (drop_chain s n f t) n2 f2 t2 = chain_version s n2 f2 t2.
Proof. intros NE. unfold chain_version, drop_chain. cbn [st_chain]. now apply chain_lookup_filter_other. Qed.

Lemma drop_chain_declared s n f t n2 v2 f2 : declared (drop_chain s n f t) n2 v2 f2 = declared s n2 v2 f2.
Proof. reflexivity. Qed.

Lemma undeclare_in_declared s n v f : declared (undeclare_in s n v f) n v f = false.
Proof.
  unfold declared, undeclare_in. cbn [st_decl].
  induction (st_decl s) as [|d r IH]; [reflexivity|].
  cbn [filter]. destruct (decl_is n v f d) eqn:D; cbn [negb]; [exact IH|].
  cbn [existsb]. now rewrite D, IH.
Qed.

Lemma undeclare_in_declared_other s n v f n2 v2 f2 :
  (str_eqb n n2 && str_eqb v v2 && str_eqb f f2) = false ->
  declared (undeclare_in s n v f) n2 v2 f2 = declared s n2 v2 f2.
Proof.
  intros NE. unfold declared, undeclare_in. cbn [st_decl].
  induction (st_decl s) as [|[[n' v'] f'] r IH]; [reflexivity|].
  cbn [filter existsb]. destruct (decl_is n v f (n', v', f')) eqn:D; cbn [negb].
  - rewrite IH. destruct (decl_is n2 v2 f2 (n', v', f')) eqn:D2; [|reflexivity].
    exfalso. unfold decl_is in D, D2.
    apply andb_true_iff in D as [D Df]. apply andb_true_iff in D as [Dn Dv].
    apply andb_true_iff in D2 as [D2 D2f]. apply andb_true_iff in D2 as [D2n D2v].
    apply str_eqb_eq in Dn, Dv, Df, D2n, D2v, D2f. subst.
    now rewrite !str_eqb_refl in NE.
  - cbn [existsb]. now rewrite IH.
Qed.

(* ------------------------------------------------------------------ update_first *)

Lemma update_first_split p g db1 s db2 :
  (forall s', In s' db1 -> p s' = false) -> p s = true ->
  update_first p g (db1 ++ s :: db2) = Some (db1 ++ g s :: db2).
Proof.
  intros H1 Hs. induction db1 as [|a r IH]; cbn [app update_first].
  - now rewrite Hs.
  - rewrite (H1 a (or_introl eq_refl)), IH; [reflexivity|].
    intros s' I. apply H1. now right.
Qed.

Lemma update_first_none p g db : (forall s, In s db -> p s = false) -> update_first p g db = None.
Proof.
  induction db as [|a r IH]; intros H; [reflexivity|].
  cbn [update_first]. rewrite (H a (or_introl eq_refl)), IH; [reflexivity|].
  intros s I. apply H. now right.
Qed.

(* ------------------------------------------------------------------ look-ups over stacks that do not matter *)

Lemma find_chain_tagged_skip db1 db2 n t f :
  (forall s, In s db1 -> carries s n f t = false) ->
  find_chain_tagged (db1 ++ db2) n t f = find_chain_tagged db2 n t f.
Proof.
  intros H. induction db1 as [|a r IH]; [reflexivity|].
  cbn [app find_chain_tagged].
  pose proof (H a (or_introl eq_refl)) as Ha. unfold carries in Ha.
  destruct (chain_version a n f t) as [v|].
  - rewrite Ha. apply IH. intros s I. apply H. now right.
  - apply IH. intros s I. apply H. now right.
Qed.

Lemma find_version_skip db1 db2 n v f :
  (forall s, In s db1 -> declared s n v f = false) ->
  find_version (db1 ++ db2) n v f = find_version db2 n v f.
Proof.
  intros H. induction db1 as [|a r IH]; [reflexivity|].
  cbn [app find_version]. rewrite (H a (or_introl eq_refl)). apply IH. intros s I. apply H. now right.
Qed.

(* ------------------------------------------------------------------ what each change does to the look-ups *)

(* assignTag without a stack: the tag lands in the first stack declaring the version; when no earlier stack
   carries the tag, that stack is now the first that has it - whatever the later stacks carry *)
Lemma assign_first_stack flavors db1 s db2 t n v :
  let f := hd_flavor flavors in
  (forall s', In s' db1 -> declared s' n v f = false) -> declared s n v f = true ->
  (forall s', In s' db1 -> carries s' n f t = false) ->
  apply_mut flavors (db1 ++ s :: db2) (MAssign t n v None) = db1 ++ set_chain s n f t v :: db2 /\
  find_chain_tagged (apply_mut flavors (db1 ++ s :: db2) (MAssign t n v None)) n t f = Some (found_in s n v f).
Proof.
  intros f H1 Hs HC.
  assert (E : apply_mut flavors (db1 ++ s :: db2) (MAssign t n v None) = db1 ++ set_chain s n f t v :: db2).
  { unfold apply_mut. fold f.
    rewrite (update_first_split _ _ db1 s db2); [reflexivity| |].
    - intros s' I. cbn [in_stack andb]. now apply H1.
    - cbn [in_stack andb]. exact Hs. }
  split; [exact E|]. rewrite E.
  rewrite find_chain_tagged_skip by exact HC.
  cbn [find_chain_tagged]. rewrite set_chain_version, set_chain_declared, Hs. reflexivity.
Qed.

(* unassignTag without version and stack: the first stack that carries the tag loses it; the next one shows *)
Lemma unassign_first_carrier flavors db1 s db2 t n :
  let f := hd_flavor flavors in
  (forall s', In s' db1 -> carries s' n f t = false) -> carries s n f t = true ->
  apply_mut flavors (db1 ++ s :: db2) (MUnassign t n None None) = db1 ++ drop_chain s n f t :: db2 /\
  find_chain_tagged (apply_mut flavors (db1 ++ s :: db2) (MUnassign t n None None)) n t f =
  find_chain_tagged db2 n t f.
Proof.
  intros f HC Hs.
  assert (E : apply_mut flavors (db1 ++ s :: db2) (MUnassign t n None None) = db1 ++ drop_chain s n f t :: db2).
  { unfold apply_mut. fold f.
    now rewrite (update_first_split _ _ db1 s db2). }
  split; [exact E|]. rewrite E.
  rewrite find_chain_tagged_skip by exact HC.
  cbn [find_chain_tagged]. now rewrite drop_chain_version.
Qed.

(* undeclare without a stack: the first stack declaring the version loses it; a later declaration shows *)
Lemma undeclare_first_stack flavors db1 s db2 n v :
  let f := hd_flavor flavors in
  (forall s', In s' db1 -> declared s' n v f = false) -> declared s n v f = true ->
  find_version (apply_mut flavors (db1 ++ s :: db2) (MUndeclare n v None)) n v f = find_version db2 n v f.
Proof.
  intros f H1 Hs.
  unfold apply_mut. fold f.
  rewrite (update_first_split _ _ db1 s db2).
  - cbn [or_unchanged]. rewrite find_version_skip by exact H1.
    cbn [find_version]. now rewrite undeclare_in_declared.
  - intros s' I. cbn [in_stack andb]. now apply H1.
  - cbn [in_stack andb]. exact Hs.
Qed.

Lemma add_decl_declared s n v f : declared (add_decl s n v f) n v f = true.
Proof.
  unfold add_decl. destruct (declared s n v f) eqn:D; [exact D|].
  unfold declared. cbn [st_decl]. rewrite existsb_app. cbn [existsb]. unfold decl_is.
  rewrite !str_eqb_refl. cbn. now rewrite orb_true_r.
Qed.

Lemma add_decl_id s n v f : st_id (add_decl s n v f) = st_id s.
Proof. unfold add_decl. now destruct (declared s n v f). Qed.

(* declare with a tag: the tag names the declared version in the stack of the declaration, and no other stack
   carries it any more: the declared version is the one the tag designates *)
Lemma declare_moves_tag flavors db i n v t :
  let f := hd_flavor flavors in
  (exists s, In s db /\ st_id s = i) ->
  (forall s1 s2, In s1 db -> In s2 db -> st_id s1 = i -> st_id s2 = i -> s1 = s2) ->
  exists s, In s db /\ st_id s = i /\
  find_chain_tagged (apply_mut flavors db (MDeclare n v i (Some t))) n t f = Some (found_in s n v f).
Proof.
  intros f [s [Is Ei]] U.
  exists s. split; [exact Is|]. split; [exact Ei|].
  unfold apply_mut. fold f.
  assert (X : existsb (fun s0 => str_eqb (st_id s0) i) db = true).
  { apply existsb_exists. exists s. split; [exact Is|]. apply str_eqb_eq. exact Ei. }
  rewrite X. clear X.
  induction db as [|a r IH]; [destruct Is|].
  cbn [map find_chain_tagged].
  destruct (str_eqb (st_id a) i) eqn:A.
  - apply str_eqb_eq in A.
    assert (a = s) by (apply U; [now left|exact Is|exact A|exact Ei]). subst a.
    rewrite set_chain_version, set_chain_declared, add_decl_declared.
    unfold found_in. now rewrite set_chain_id, add_decl_id.
  - destruct Is as [->|Is]; [apply str_eqb_neq in A; now elim A|].
    assert (N : find_chain_tagged
                  (map (fun s0 => if str_eqb (st_id s0) i then set_chain (add_decl s0 n v f) n f t v
                                  else if carries s0 n f t then drop_chain s0 n f t else s0) r) n t f =
                Some (found_in s n v f)).
    { apply IH; [exact Is|]. intros s1 s2 I1 I2. apply U; now right. }
    destruct (carries a n f t) eqn:C.
    + rewrite drop_chain_version. exact N.
    + unfold carries in C. destruct (chain_version a n f t) as [v'|]; [rewrite C|]; exact N.
Qed.

(* ------------------------------------------------------------------ well-formedness is kept *)

Definition wf_mut (m : mut) : bool :=
  match m with
  | MAssign t _ _ _ => negb (str_eqb (lit "keep") t)
  | MUnassign _ _ _ _ => true
  | MDeclare _ v _ ot => negb (is_expr v) && match ot with Some t => negb (str_eqb (lit "keep") t) | None => true end
  | MUndeclare _ _ _ => true
  end.

Lemma wf_stack_drop_chain s n f t : wf_stack s = true -> wf_stack (drop_chain s n f t) = true.
Proof.
  unfold wf_stack, drop_chain. cbn [st_decl st_chain]. intros H.
  apply andb_true_iff in H as [H1 H2]. rewrite H1. cbn [andb].
  apply negb_true_iff in H2. apply negb_true_iff.
  apply not_true_is_false. intros E. apply existsb_exists in E as [x [Ix Ex]].
  apply filter_In in Ix as [Ix _].
  assert (existsb (chain_tag_is (lit "keep")) (st_chain s) = true) by (apply existsb_exists; eauto).
  congruence.
Qed.

Lemma wf_stack_set_chain s n f t v :
  str_eqb (lit "keep") t = false -> wf_stack s = true -> wf_stack (set_chain s n f t v) = true.
Proof.
  intros K H. pose proof (wf_stack_drop_chain s n f t H) as D.
  unfold wf_stack, set_chain, drop_chain in *. cbn [st_decl st_chain] in *.
  apply andb_true_iff in D as [D1 D2]. rewrite D1. cbn [andb existsb chain_tag_is].
  rewrite K. cbn [orb]. exact D2.
Qed.

Lemma wf_stack_add_decl s n v f : is_expr v = false -> wf_stack s = true -> wf_stack (add_decl s n v f) = true.
Proof.
  intros E H. unfold add_decl. destruct (declared s n v f); [exact H|].
  unfold wf_stack in *. cbn [st_decl st_chain].
  apply andb_true_iff in H as [H1 H2]. rewrite H2, forallb_app, H1. cbn [forallb]. now rewrite E.
Qed.

Lemma wf_stack_undeclare_in s n v f : wf_stack s = true -> wf_stack (undeclare_in s n v f) = true.
Proof.
  unfold wf_stack, undeclare_in. cbn [st_decl st_chain]. intros H.
  apply andb_true_iff in H as [H1 H2]. apply andb_true_iff. split.
  - apply forallb_forall. intros d Id. apply filter_In in Id as [Id _].
    now apply (proj1 (forallb_forall _ _) H1).
  - apply negb_true_iff in H2. apply negb_true_iff.
    apply not_true_is_false. intros E. apply existsb_exists in E as [x [Ix Ex]].
    apply filter_In in Ix as [Ix _].
    assert (existsb (chain_tag_is (lit "keep")) (st_chain s) = true) by (apply existsb_exists; eauto).
    congruence.
Qed.

Lemma wf_update_first p g db d :
  (forall s, wf_stack s = true -> wf_stack (g s) = true) ->
  wf_db db = true -> update_first p g db = Some d -> wf_db d = true.
Proof.
  intros G. revert d. induction db as [|a r IH]; intros d W E; [discriminate|].
  cbn [update_first] in E. unfold wf_db in *. cbn [forallb] in W. apply andb_true_iff in W as [Wa Wr].
  destruct (p a).
  - inversion E; subst. cbn [forallb]. now rewrite (G a Wa), Wr.
  - destruct (update_first p g r) as [r'|] eqn:R; [|discriminate]. inversion E; subst.
    cbn [forallb]. now rewrite Wa, (IH r' Wr eq_refl).
Qed.

Lemma wf_or_unchanged p g db :
  (forall s, wf_stack s = true -> wf_stack (g s) = true) ->
  wf_db db = true -> wf_db (or_unchanged db (update_first p g db)) = true.
Proof.
  intros G W. destruct (update_first p g db) as [d|] eqn:E; cbn [or_unchanged]; [|exact W].
  now apply (wf_update_first p g db d).
Qed.

Lemma wf_map g db :
  (forall s, wf_stack s = true -> wf_stack (g s) = true) -> wf_db db = true -> wf_db (map g db) = true.
Proof.
  intros G W. unfold wf_db in *. rewrite forallb_forall in *. intros x Ix.
  apply in_map_iff in Ix as [s [<- Is]]. apply G. now apply W.
Qed.

Lemma wf_apply_mut flavors db m : wf_mut m = true -> wf_db db = true -> wf_db (apply_mut flavors db m) = true.
Proof.
  intros M W. destruct m as [t n v st|t n [v|] [i|]|n v i ot|n v st]; cbn [apply_mut].
  - cbn [wf_mut] in M. apply negb_true_iff in M.
    apply wf_or_unchanged; [|exact W]. intros s. now apply wf_stack_set_chain.
  - apply wf_or_unchanged; [|exact W]. intros s Ws.
    destruct (opt_is v _); [now apply wf_stack_drop_chain|exact Ws].
  - apply wf_or_unchanged; [|exact W]. intros s Ws.
    destruct (opt_is v _); [now apply wf_stack_drop_chain|exact Ws].
  - apply wf_or_unchanged; [|exact W]. intros s. apply wf_stack_drop_chain.
  - apply wf_or_unchanged; [|exact W]. intros s. apply wf_stack_drop_chain.
  - cbn [wf_mut] in M. apply andb_true_iff in M as [Mv Mt]. apply negb_true_iff in Mv.
    destruct (existsb _ db); [|exact W].
    set (f := hd_flavor flavors).
    assert (K : forall t, str_eqb (lit "keep") t = false -> wf_db
       (map (fun s => if str_eqb (st_id s) i then set_chain (add_decl s n v f) n f t v
                      else if carries s n f t then drop_chain s n f t else s) db) = true).
    { intros t Kt. apply wf_map; [|exact W]. intros s Ws.
      destruct (str_eqb (st_id s) i).
      - apply wf_stack_set_chain; [exact Kt|]. now apply wf_stack_add_decl.
      - destruct (carries s n f t); [now apply wf_stack_drop_chain|exact Ws]. }
    destruct ot as [t|].
    + apply K. now apply negb_true_iff in Mt.
    + destruct (unknown_product flavors db n).
      * apply K. reflexivity.
      * apply wf_map; [|exact W]. intros s Ws.
        destruct (str_eqb (st_id s) i); [now apply wf_stack_add_decl|exact Ws].
  - apply wf_or_unchanged; [|exact W]. intros s. apply wf_stack_undeclare_in.
Qed.

Lemma wf_view_after flavors ms : forall db,
  forallb wf_mut ms = true -> wf_db db = true -> wf_db (view_after flavors db ms) = true.
Proof.
  unfold view_after. induction ms as [|m r IH]; intros db M W; [exact W|].
  cbn [forallb] in M. apply andb_true_iff in M as [Mm Mr]. cbn [fold_left].
  apply IH; [exact Mr|]. now apply wf_apply_mut.
Qed.

(* ------------------------------------------------------------------ histories *)

Lemma run_history_app vcmp vmatch c flavors vro h1 : forall db h2,
  run_history vcmp vmatch c flavors vro db (h1 ++ h2) =
  run_history vcmp vmatch c flavors vro db h1 ++
  run_history vcmp vmatch c flavors vro (view_after flavors db (changes_of h1)) h2.
Proof.
  induction h1 as [|[q|m] r IH]; intros db h2; cbn [app run_history changes_of].
  - reflexivity.
  - now rewrite IH.
  - rewrite IH. reflexivity.
Qed.

(* the answer given after a history is the answer of the resolver on the view the history leads to *)
Lemma history_last_answer vcmp vmatch c flavors vro db h q :
  run_history vcmp vmatch c flavors vro db (h ++ [Ask q]) =
  run_history vcmp vmatch c flavors vro db h ++
  [answer_on vcmp vmatch c flavors vro (view_after flavors db (changes_of h)) q].
Proof. now rewrite run_history_app. Qed.

(* ------------------------------------------------------------------ sessions of several instances *)

Lemma session_is_own_history vcmp vmatch c insts db k i : forall h,
  nth_error insts k = Some i ->
  answers_to k (run_session vcmp vmatch c insts db h) =
  run_history vcmp vmatch c (i_flavors i) (i_vro i) db (map Ask (asks_of k h)).
Proof.
  intros h Hk. induction h as [|[j|j q] r IH]; cbn [run_session asks_of]; [reflexivity|exact IH|].
  destruct (Nat.eqb j k) eqn:E.
  - apply Nat.eqb_eq in E. subst j. rewrite Hk. unfold answers_to in *. cbn [filter fst].
    rewrite Nat.eqb_refl. cbn [map snd run_history]. now rewrite IH.
  - destruct (nth_error insts j) as [i'|]; [|exact IH].
    unfold answers_to in *. cbn [filter fst]. rewrite E. exact IH.
Qed.

Lemma run_session_app vcmp vmatch c insts db h1 h2 :
  run_session vcmp vmatch c insts db (h1 ++ h2) =
  run_session vcmp vmatch c insts db h1 ++ run_session vcmp vmatch c insts db h2.
Proof.
  induction h1 as [|[j|j q] r IH]; cbn [app run_session]; [reflexivity|exact IH|].
  destruct (nth_error insts j); [cbn [app]; now rewrite IH|exact IH].
Qed.

Lemma first_some_in {A B} (g : A -> option B) l b :
  first_some g l = Some b -> exists a, In a l /\ g a = Some b.
Proof.
  induction l as [|a r IH]; cbn; [discriminate|].
  destruct (g a) eqn:E.
  - intro H. injection H as ->. exists a. auto.
  - intro H. destruct (IH H) as [x [I G]]. exists x. auto.
Qed.
