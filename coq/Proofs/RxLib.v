(* C11 - lemmas about the regular-expression building blocks of Model/Rx.v. *)
From Coq Require Import Lia.
From Eupsv Require Import Base.Base Base.BaseLemmas Model.Rx.

(* ---------------------------------------------------------------- span, drop_while *)

Lemma span_app p a x rest :
  forallb p a = true -> p x = false -> span p (a ++ x :: rest) = (a, x :: rest).
Proof.
  induction a as [|c a IH]; cbn [app span forallb]; intros Ha Hx.
  - now rewrite Hx.
  - apply andb_true_iff in Ha. destruct Ha as [Hc Ha]. now rewrite Hc, (IH Ha Hx).
Qed.

Lemma span_all p a : forallb p a = true -> span p a = (a, []).
Proof.
  induction a as [|c a IH]; cbn [span forallb]; intros Ha; [reflexivity|].
  apply andb_true_iff in Ha. destruct Ha as [Hc Ha]. now rewrite Hc, (IH Ha).
Qed.

Lemma drop_while_app p a rest : forallb p a = true -> drop_while p (a ++ rest) = drop_while p rest.
Proof.
  induction a as [|c a IH]; cbn [app drop_while forallb]; intros Ha; [reflexivity|].
  apply andb_true_iff in Ha. destruct Ha as [Hc Ha]. now rewrite Hc, (IH Ha).
Qed.

Lemma drop_while_stop p x rest : p x = false -> drop_while p (x :: rest) = x :: rest.
Proof. intros H. cbn. now rewrite H. Qed.

Lemma drop_while_all p a : forallb p a = true -> drop_while p a = [].
Proof. intros H. rewrite <- (app_nil_r a), drop_while_app; auto. Qed.

Lemma drop_ws_app a rest : all_ws a = true -> drop_ws (a ++ rest) = drop_ws rest.
Proof. apply drop_while_app. Qed.

(* ---------------------------------------------------------------- scan *)

Lemma scan_skip m a rest : scan m (length a) (a ++ rest) = scan m 0 rest.
Proof. induction a as [|c a IH]; [reflexivity|]. cbn [length app scan]. exact IH. Qed.

Lemma scan_match m c a rest out :
  m (c :: a ++ rest) = Some (out, length a) -> scan m 0 (c :: a ++ rest) = out ++ scan m 0 rest.
Proof. intros H. cbn [scan]. rewrite H. now rewrite scan_skip. Qed.

(* characters at which the pattern cannot start are copied *)
Lemma scan_copy m a rest :
  Forall (fun c => forall r, m (c :: r) = None) a -> scan m 0 (a ++ rest) = a ++ scan m 0 rest.
Proof.
  induction 1 as [|c a Hc _ IH]; [reflexivity|]. cbn [app scan]. now rewrite Hc, IH.
Qed.

Lemma scan_copy_all m a :
  Forall (fun c => forall r, m (c :: r) = None) a -> scan m 0 a = a.
Proof. intros H. rewrite <- (app_nil_r a) at 1. rewrite scan_copy; auto. cbn. now rewrite app_nil_r. Qed.

(* no suffix matches: the text is unchanged *)
Lemma scan_id m s : (forall a b, s = a ++ b -> m b = None) -> scan m 0 s = s.
Proof.
  induction s as [|c r IH]; intros H; [reflexivity|]. cbn [scan].
  rewrite (H [] (c :: r) eq_refl). f_equal. apply IH. intros a b E. apply (H (c :: a) b). now rewrite E.
Qed.

(* ---------------------------------------------------------------- split_last *)

Lemma split_last_none c s : mem_ascii c s = false -> split_last c s = None.
Proof.
  induction s as [|x r IH]; [reflexivity|]. cbn [mem_ascii split_last].
  rewrite ascii_eqb_sym. destruct (ascii_eqb x c); [discriminate|]. intros H. now rewrite (IH H).
Qed.

Lemma split_last_app c a b : mem_ascii c b = false -> split_last c (a ++ c :: b) = Some (a, b).
Proof.
  intros Hb. induction a as [|x a IH]; cbn [app split_last].
  - rewrite (split_last_none c b Hb), ascii_eqb_refl. reflexivity.
  - now rewrite IH.
Qed.

(* ---------------------------------------------------------------- prefixes *)

Lemma ci_prefix_app p s rest : lower_str s = p -> ci_prefix p (s ++ rest) = Some rest.
Proof.
  revert p. induction s as [|c s IH]; intros p <-; [reflexivity|].
  cbn [lower_str map app ci_prefix]. rewrite ascii_eqb_refl. now apply IH.
Qed.

Lemma cs_prefix_app p rest : cs_prefix p (p ++ rest) = Some rest.
Proof. induction p as [|c p IH]; [reflexivity|]. cbn [app cs_prefix]. now rewrite ascii_eqb_refl. Qed.

(* a prefix test that already fails inside a known (lower-cased) head *)
Fixpoint mismatch (k l : str) : bool :=
  match k, l with
  | a :: k', b :: l' => if ascii_eqb a b then mismatch k' l' else true
  | _, _ => false
  end.

Lemma ci_prefix_mismatch k s rest : mismatch k (lower_str s) = true -> ci_prefix k (s ++ rest) = None.
Proof.
  revert k. induction s as [|c s IH]; intros k; destruct k as [|a k]; cbn [lower_str map mismatch]; try discriminate.
  cbn [app ci_prefix]. destruct (ascii_eqb a (lower_ascii c)); [apply IH|reflexivity].
Qed.

(* ---------------------------------------------------------------- all_ws, strip *)

Lemma all_ws_app a b : all_ws (a ++ b) = all_ws a && all_ws b.
Proof. apply forallb_app. Qed.

Lemma forallb_Forall {A} (p : A -> bool) l : forallb p l = true <-> Forall (fun x => p x = true) l.
Proof.
  split.
  - induction l; cbn; intros H; constructor; apply andb_true_iff in H; tauto.
  - induction 1; cbn; [reflexivity|]. apply andb_true_iff. tauto.
Qed.

Lemma forallb_impl {A} (p q : A -> bool) l :
  (forall x, p x = true -> q x = true) -> forallb p l = true -> forallb q l = true.
Proof.
  intros H. induction l; cbn; [auto|]. rewrite !andb_true_iff. intros [H1 H2]. auto.
Qed.

Lemma strip_dq_id s : (match s with c :: _ => ascii_eqb c c_dq | [] => false end) = false -> strip_dq s = s.
Proof. destruct s as [|c r]; [reflexivity|]. cbn [strip_dq]. now intros ->. Qed.

Lemma strip_dq_quoted a : strip_dq (c_dq :: a ++ [c_dq]) = a.
Proof.
  cbn [strip_dq]. rewrite ascii_eqb_refl, rev_app_distr. cbn [rev app].
  rewrite ascii_eqb_refl. apply rev_involutive.
Qed.

Lemma map_char_id a b s : mem_ascii a s = false -> map_char a b s = s.
Proof.
  induction s as [|c r IH]; [reflexivity|]. cbn [mem_ascii map_char map].
  destruct (ascii_eqb a c) eqn:E; [discriminate|]. intros H.
  rewrite ascii_eqb_sym, E. f_equal. apply IH, H.
Qed.
