(* C02 - the shell that sources the command lists of setup X and of unsetup X holds, variable for variable, the
   environment the unsetup process computed (Model/SetupCmds.v); from Props/C05.v api_session_chained *)
From Eupsv Require Import Base.Base Base.BaseLemmas Model.PathAlg Proofs.PathAlg Model.Setup Model.SetupCmds.
From Eupsv Require Model.Shell Model.ShellSession Proofs.ShellSession.

Lemma shell_follows_commands e0 st1 st2 :
  cmds_in_claim e0 st1 st2 = true ->
  exists sh, shell_after e0 st1 st2 = Ok sh /\ forall k, alookup k sh = alookup k (s_env st2).
Proof.
  unfold cmds_in_claim. intros H. apply andb_true_iff in H. destruct H as [Hc Hk].
  destruct (Proofs.ShellSession.api_session_chained_lemma (setup_calls st1 st2) e0 e0 Hc Hk (fun k => eq_refl))
    as [steps [sh [Hs [Hch Heq]]]].
  exists sh. split.
  - unfold shell_after, command_texts. rewrite Hs. cbn [bind]. exact Hch.
  - intros k. rewrite (Heq k). reflexivity.
Qed.

Lemma oldv_equiv var (a b : amap str) : (forall k, alookup k a = alookup k b) -> oldv var a = oldv var b.
Proof. intros H. unfold oldv. now rewrite H. Qed.
