(* A concrete world on which the hypotheses of the setup theorems (C01, C02, C04) hold, used by the
   Examples at the end of Props/C01.v, C02.v, C04.v.

   Four declared product names and one undeclared dependency target:
     base 1.0, base 2.0   PATH (prepend, colon), TEXINPUTS (append, semicolon), envSet BASE_HOME, alias basever
     liba 1.0             setupRequired(base); PATH; envSet LIBA_OPTS
     libb 1.0             setupRequired(base); TEXINPUTS
     app  1.0             setupRequired(liba) setupRequired(libb) setupOptional(ghost); PATH; alias app
   The decision stream of ex_ds resolves base to 1.0 below liba and to 2.0 below libb (a diamond with
   conflicting versions): the traversal sets base 1.0 up, then replaces it by base 2.0. *)
From Eupsv Require Import Base.Base Model.PathAlg Model.Setup.

Definition c_colon : ascii := ":"%char.
Definition c_semi : ascii := ";"%char.

Definition ex_base (v : string) : product :=
  {| p_name := lit "base"; p_version := lit v; p_dir := lit "/s/base/" ++ lit v;
     p_actions := [APath false (lit "PATH") (lit "/s/base/" ++ lit v ++ lit "/bin") c_colon;
                   APath true (lit "TEXINPUTS") (lit "/s/base/" ++ lit v ++ lit "/tex") c_semi;
                   ASet (lit "BASE_HOME") (lit "/s/base/" ++ lit v);
                   AAlias (lit "basever") (lit "echo " ++ lit v)] |}.
Arguments ex_base v%string.

Definition ex_world : world :=
  [ ex_base "1.0"; ex_base "2.0";
    {| p_name := lit "liba"; p_version := lit "1.0"; p_dir := lit "/s/liba/1.0";
       p_actions := [ASetup false (lit "base") false;
                     APath false (lit "PATH") (lit "/s/liba/1.0/bin") c_colon;
                     ASet (lit "LIBA_OPTS") (lit "-O2")] |};
    {| p_name := lit "libb"; p_version := lit "1.0"; p_dir := lit "/s/libb/1.0";
       p_actions := [ASetup false (lit "base") false;
                     APath true (lit "TEXINPUTS") (lit "/s/libb/1.0/tex") c_semi;
                     ANone] |};
    {| p_name := lit "app"; p_version := lit "1.0"; p_dir := lit "/s/app/1.0";
       p_actions := [ASetup false (lit "liba") false;
                     ASetup false (lit "libb") false;
                     ASetup true (lit "ghost") false;
                     APath false (lit "PATH") (lit "/s/app/1.0/bin") c_colon;
                     AAlias (lit "app") (lit "app --run")] |} ].

(* dependencies first; the undeclared target of the optional line is a name the world knows *)
Definition ex_order : list str := [lit "ghost"; lit "base"; lit "liba"; lit "libb"; lit "app"].

Definition ex_cfg : config :=
  {| c_flavor := lit "Linux64"; c_root := lit "/s"; c_max_depth := None; c_keep := false; c_flavors := [] |}.

Definition ex_st0 : state := {| s_env := []; s_aliases := [] |}.

(* setup app: app 1.0, liba 1.0, base 1.0 (below liba), libb 1.0, base 2.0 (below libb), ghost not found *)
Definition ex_ds : list decision :=
  [Some (lit "1.0"); Some (lit "1.0"); Some (lit "1.0"); Some (lit "1.0"); Some (lit "2.0"); None].

(* the state after setup app: base is at 2.0 and nothing of base 1.0 is left *)
Definition ex_final : state :=
  {| s_env := [ (lit "APP_DIR", lit "/s/app/1.0");
                (lit "SETUP_APP", lit "app 1.0 -f Linux64 -Z /s");
                (lit "LIBA_DIR", lit "/s/liba/1.0");
                (lit "SETUP_LIBA", lit "liba 1.0 -f Linux64 -Z /s");
                (lit "PATH", lit "/s/app/1.0/bin:/s/base/2.0/bin:/s/liba/1.0/bin");
                (lit "TEXINPUTS", lit "/s/base/2.0/tex;/s/libb/1.0/tex");
                (lit "LIBA_OPTS", lit "-O2");
                (lit "LIBB_DIR", lit "/s/libb/1.0");
                (lit "SETUP_LIBB", lit "libb 1.0 -f Linux64 -Z /s");
                (lit "BASE_DIR", lit "/s/base/2.0");
                (lit "SETUP_BASE", lit "base 2.0 -f Linux64 -Z /s");
                (lit "BASE_HOME", lit "/s/base/2.0") ];
     s_aliases := [ (lit "basever", lit "echo 2.0"); (lit "app", lit "app --run") ] |}.

(* the state after unsetup app from ex_final: the path variables are left empty, nothing else remains *)
Definition ex_after : state :=
  {| s_env := [ (lit "PATH", []); (lit "TEXINPUTS", []) ]; s_aliases := [] |}.

(* libb set up from the empty environment (base resolved to 1.0) ... *)
Definition ex_libb : state :=
  {| s_env := [ (lit "LIBB_DIR", lit "/s/libb/1.0");
                (lit "SETUP_LIBB", lit "libb 1.0 -f Linux64 -Z /s");
                (lit "BASE_DIR", lit "/s/base/1.0");
                (lit "SETUP_BASE", lit "base 1.0 -f Linux64 -Z /s");
                (lit "PATH", lit "/s/base/1.0/bin");
                (lit "TEXINPUTS", lit "/s/base/1.0/tex;/s/libb/1.0/tex");
                (lit "BASE_HOME", lit "/s/base/1.0") ];
     s_aliases := [ (lit "basever", lit "echo 1.0") ] |}.

(* ... and then liba with --just: base stays as it is *)
Definition ex_liba_just : state :=
  {| s_env := [ (lit "LIBB_DIR", lit "/s/libb/1.0");
                (lit "SETUP_LIBB", lit "libb 1.0 -f Linux64 -Z /s");
                (lit "BASE_DIR", lit "/s/base/1.0");
                (lit "SETUP_BASE", lit "base 1.0 -f Linux64 -Z /s");
                (lit "PATH", lit "/s/liba/1.0/bin:/s/base/1.0/bin");
                (lit "TEXINPUTS", lit "/s/base/1.0/tex;/s/libb/1.0/tex");
                (lit "BASE_HOME", lit "/s/base/1.0");
                (lit "LIBA_DIR", lit "/s/liba/1.0");
                (lit "SETUP_LIBA", lit "liba 1.0 -f Linux64 -Z /s");
                (lit "LIBA_OPTS", lit "-O2") ];
     s_aliases := [ (lit "basever", lit "echo 1.0") ] |}.
