(* The frame theorem of Proofs/SetupFrame.v with a reachability relation that reads the -j flag of the table lines
   (C04): a line  setupRequired(foo -j)  reaches foo and nothing below foo - when the owner of the line is set up,
   and equally when it is unset up or replaced by another version (Action.processArgs hands noRecursion to
   Eups.setup in both directions).  The dependencies of foo that the owner does not list itself are therefore
   outside the reach of a request for the owner: bystanders. *)
From Eupsv Require Import Base.Base Base.BaseLemmas Model.PathAlg Proofs.PathAlg Model.Setup Proofs.SetupFrame.
From Coq Require Import Lia.

Section FrameJ.
Variable w : world.
Variable cfg : config.
Variable dl : str -> ascii.

Notation has_name := (has_name w).
Notation nodollar_paths := (nodollar_paths w).
Notation env_frame := (env_frame w dl).
Notation alias_frame := (alias_frame w).
Notation levels := (levels cfg).
Notation depth_ok := (depth_ok cfg).
Notation good := (good w dl).

(* n has a line for m, with (j = true) or without -j *)
Definition dep_edge_j (n m : str) (j : bool) : Prop :=
  exists p opt, has_name n p /\ In (ASetup opt m j) (p_actions p).

(* reachable within a budget of levels; below a -j line the budget is 0 *)
Inductive touches_j : option nat -> str -> str -> Prop :=
| tj_self b n : touches_j b n n
| tj_dep b n m j k : positive b -> dep_edge_j n m j ->
                     touches_j (if j then Some 0 else dec b) m k -> touches_j b n k.

Lemma touches_j_mono a n k : touches_j a n k -> forall b, ble a b -> touches_j b n k.
Proof.
  induction 1 as [a n|a n m j k Hp He Ht IH]; intros b Hb; [constructor|].
  apply (tj_dep b n m j k); [now apply (ble_positive a)|assumption|].
  apply IH. destruct j; [apply ble_refl|now apply ble_dec].
Qed.

(* the finer relation is included in the one of Proofs/SetupFrame.v *)
Lemma touches_j_touches b n k : touches_j b n k -> touches w b n k.
Proof.
  induction 1 as [b n|b n m j k Hp [p [o [Hn Hin]]] Ht IH]; [constructor|].
  apply (t_dep w b n m k Hp).
  - exists p, o, j. split; assumption.
  - destruct j; [|assumption]. apply (touches_mono w (Some 0)); [assumption|].
    destruct b as [x|]; simpl; [lia|exact I].
Qed.

(* below a -j line: the product itself *)
Lemma touches_j_zero n k : touches_j (Some 0) n k -> k = n.
Proof. inversion 1; subst; [reflexivity|]. simpl in *. lia. Qed.

Definition fn_ok_j (rec : setup_fn) : Prop :=
  forall st ds name fwd depth just, nodollar_paths (s_env st) -> depth_ok depth ->
    good (touches_j (levels depth just) name) st (rec st ds name fwd depth just).

Lemma run_actions_ok_j (H : WF w dl) (rec : setup_fn) name p fwd depth just :
  fn_ok_j rec -> has_name name p -> depth_ok depth ->
  forall acts, (forall a, In a acts -> In a (p_actions p)) ->
  forall st ds, nodollar_paths (s_env st) ->
    good (touches_j (levels depth just) name) st (run_actions cfg rec fwd depth just acts st ds).
Proof.
  intros Hrec Hp Hdepth. set (N := touches_j (levels depth just) name).
  assert (HNself : N name) by constructor.
  induction acts as [|a acts IH]; intros Hsub st ds Hnd.
  - cbn [run_actions SetupFrame.good]. split; [apply env_frame_refl|split; [assumption|apply alias_frame_refl]].
  - assert (Hsub' : forall a0, In a0 acts -> In a0 (p_actions p)) by (intros; apply Hsub; now right).
    assert (Ha : In a (p_actions p)) by (apply Hsub; now left).
    cbn [run_actions].
    destruct a as [o m j|ap var v d|k v|k|k v|].
    + destruct (cut_off cfg just (S depth)) eqn:Hc; [now apply IH|].
      destruct (cut_off_false_levels cfg depth just j Hdepth Hc) as [Hpos [Hble Hd']].
      assert (Hsubset : forall k, touches_j (levels (S depth) j) m k -> N k).
      { intros k Hk. apply (tj_dep (levels depth just) name m j k Hpos).
        - exists p, o. split; assumption.
        - destruct j.
          + unfold SetupFrame.levels in Hk. cbn in Hk. exact Hk.
          + now apply (touches_j_mono (levels (S depth) false)). }
      pose proof (Hrec st ds m fwd (S depth) j Hnd Hd') as Hchild.
      apply (good_mono w dl _ N st _ Hsubset) in Hchild.
      destruct (rec st ds m fwd (S depth) j) as [ok st' ds'|st' ds'| |]; cbn [SetupFrame.good] in Hchild; auto.
      * destruct Hchild as [E [D A]]. destruct ok.
        -- apply (good_trans w dl N st st'); auto.
        -- destruct (fwd && negb o); [cbn [SetupFrame.good]; apply alias_frame_refl|]. now apply IH.
      * destruct (fwd && negb o); [cbn [SetupFrame.good]; apply alias_frame_refl|]. now apply IH.
    + destruct (exec_simple_ok w dl H N name p fwd (APath ap var v d) st HNself Hp Ha) as [st' [E1 [E2 [E3 E4]]]];
        [discriminate|assumption|]. rewrite E1. apply (good_trans w dl N st st'); auto.
    + destruct (exec_simple_ok w dl H N name p fwd (ASet k v) st HNself Hp Ha) as [st' [E1 [E2 [E3 E4]]]];
        [discriminate|assumption|]. rewrite E1. apply (good_trans w dl N st st'); auto.
    + destruct (exec_simple_ok w dl H N name p fwd (AUnset k) st HNself Hp Ha) as [st' [E1 [E2 [E3 E4]]]];
        [discriminate|assumption|]. rewrite E1. apply (good_trans w dl N st st'); auto.
    + destruct (exec_simple_ok w dl H N name p fwd (AAlias k v) st HNself Hp Ha) as [st' [E1 [E2 [E3 E4]]]];
        [discriminate|assumption|]. rewrite E1. apply (good_trans w dl N st st'); auto.
    + destruct (exec_simple_ok w dl H N name p fwd ANone st HNself Hp Ha) as [st' [E1 [E2 [E3 E4]]]];
        [discriminate|assumption|]. rewrite E1. apply (good_trans w dl N st st'); auto.
Qed.

Lemma setup_step_ok_j (H : WF w dl) (rec : setup_fn) : fn_ok_j rec -> fn_ok_j (setup_step w cfg rec).
Proof.
  intros Hrec st ds name fwd depth just Hnd Hdepth. set (N := touches_j (levels depth just) name).
  assert (HNself : N name) by constructor.
  unfold setup_step. destruct fwd.
  - destruct ds as [|[v|] ds1]; cbn [SetupFrame.good]; auto.
    + destruct (find_pv w name v) as [p|] eqn:Hf; cbn [SetupFrame.good]; auto.
      destruct (find_pv_spec w name v p Hf) as [Hp _].
      destruct (same_product p (find_setup_product w (s_env st) name) && negb (depth =? 0)).
      * cbn [SetupFrame.good]. split; [apply env_frame_refl|split; [assumption|apply alias_frame_refl]].
      * assert (H0 : good N st (match find_setup_product w (s_env st) name with
                                | Some _ => rec st ds1 name false depth (just || c_keep cfg)
                                | None => RDone true st ds1 end)).
        { destruct (find_setup_product w (s_env st) name).
          - apply (good_mono w dl (touches_j (levels depth (just || c_keep cfg)) name) N).
            + intros n Hn. apply (touches_j_mono _ _ _ Hn). apply levels_just_le.
            + now apply Hrec.
          - cbn [SetupFrame.good]. split; [apply env_frame_refl|split; [assumption|apply alias_frame_refl]]. }
        destruct (match find_setup_product w (s_env st) name with
                  | Some _ => rec st ds1 name false depth (just || c_keep cfg)
                  | None => RDone true st ds1 end) as [ok st1 ds2|st1 ds2| |]; cbn [SetupFrame.good] in H0; auto.
        destruct H0 as [E [D A]].
        destruct (set_product_vars_ok w cfg dl H N name p st1 HNself D) as [E2 [D2 A2]].
        apply (good_trans w dl N st (set_product_vars cfg st1 name p)).
        -- now apply (env_frame_trans w dl N _ (s_env st1)).
        -- now rewrite A2.
        -- apply (run_actions_ok_j H rec name p true depth just Hrec Hp Hdepth); auto.
    + cbn [SetupFrame.good]. split; [apply env_frame_refl|split; [assumption|apply alias_frame_refl]].
  - destruct (find_setup_product w (s_env st) name) as [sp|] eqn:Hs.
    + pose proof (find_setup_product_spec w _ _ _ Hs) as Hp.
      destruct (unset_product_vars_ok w dl H N name st HNself Hnd) as [E2 [D2 A2]].
      apply (good_trans w dl N st (unset_product_vars st name)); auto.
      * rewrite A2. apply alias_frame_refl.
      * apply (run_actions_ok_j H rec name sp false depth just Hrec Hp Hdepth); auto.
    + cbn [SetupFrame.good]. split; [apply env_frame_refl|split; [assumption|apply alias_frame_refl]].
Qed.

Theorem setup_frame_j (H : WF w dl) fuel : fn_ok_j (setup w cfg fuel).
Proof.
  induction fuel as [|fuel IH].
  - intros st ds name fwd depth just _ _. exact I.
  - cbn [setup]. now apply setup_step_ok_j.
Qed.

End FrameJ.
