(* C01, the closure clause, on the composed model Model/SetupFull.v:

     when no product is requested in two different versions along the traversal, nothing of the closure is
     set up beforehand, and the request succeeds, the products set up are exactly the dependency closure
     (required dependencies, plus optional ones that resolve), each at the version the VRO designates.

   Conflict-freedom is the existence of ONE assignment D : name -> version (or nothing) such that the
   top-level request designates D top and every dependency line of the table of a product at its
   assigned version designates, for the product it names, what D assigns to that product (designates
   is the designation rule of Model/ResolveSpec.v, for a product not chosen before).  The closure is
   defined from D and the tables alone:
     sets_up n        n is assigned a version whose table has only required lines naming products that
                      set up (an optional line may name one that does not)
     reach_ok top k   k is reached from top through lines (required or optional) naming products that
                      set up, always in the table of the assigned version.
   Restrictions of the statement: no -j on a dependency line, no --just, no --max-depth, no keep in the VRO. *)
From Eupsv Require Import Base.Base Base.BaseLemmas Model.PathAlg Proofs.PathAlg Model.Setup Proofs.SetupFrame
     Proofs.SetupInv Model.Resolve Model.ResolveSpec Proofs.ResolveLib Proofs.Resolve Model.SetupFull
     Proofs.SetupFull Proofs.SetupFullKeep Proofs.SetupFullResolve Proofs.SetupOwn.
From Coq Require Import Lia.

Lemma touches_none_trans w a b c : touches w None a b -> touches w None b c -> touches w None a c.
Proof.
  intro T. remember (@None nat) as bud eqn:Eb. induction T as [b0 n0|b0 n0 m0 k0 Hpos He Ht IH]; intro Hc; [assumption|].
  subst b0. apply (t_dep w None n0 m0 c I He). now apply IH.
Qed.

Section Closure.
Variable vcmp : str -> str -> comparison.
Variable vmatch : str -> str -> bool.
Variable fw : fworld.
Variable cfg : Setup.config.
Variable rc : Resolve.config.
Variable flavors : list str.
Variable dl : str -> ascii.
Variable rank : str -> nat.
Variable vro : list entry.
Variable top : str.
Variable D : str -> option str.
Variable Z : str -> Prop.               (* the aliases whose accounting is followed (C02); none for C01 *)

Notation w := (fw_products fw).
Notation full := (setup_full vcmp vmatch fw cfg rc flavors).
Notation step_full := (setup_full_step vcmp vmatch fw cfg rc flavors).
Notation run_full := (run_actions_full cfg).
Notation db := (db_of cfg fw).
Notation recorded := (recorded fw).
Notation retains := (retains fw).

(* the version designated for a request of product x with the line information li, below the top level *)
Definition desig (depth : nat) (x : str) (li : lineinfo) : option str :=
  option_map fd_version (designates vcmp vmatch rc db flavors depth vro (mkRequest x (li_version li) (li_expr li))).

(* every dependency line of a table: no -j, and it designates what D assigns *)
Fixpoint lines_ok (acts : list action) (infos : list lineinfo) : Prop :=
  match acts with
  | [] => True
  | a :: r =>
      match a with
      | ASetup _ x j => j = false /\ desig 1 x (hd no_info infos) = D x
      | _ => True
      end /\ lines_ok r (tl infos)
  end.

Definition reachN (n : str) : Prop := touches w None top n.

Inductive sets_up : str -> Prop :=
| su_intro n v p : D n = Some v -> find_pv w n v = Some p ->
                   (forall x j, In (ASetup false x j) (p_actions p) -> sets_up x) -> sets_up n.

Inductive reach_ok : str -> str -> Prop :=
| ro_self m : reach_ok m m
| ro_dep m v p o x j k : D m = Some v -> find_pv w m v = Some p -> In (ASetup o x j) (p_actions p) ->
                         sets_up x -> reach_ok x k -> reach_ok m k.

Hypothesis H : WF2 w dl rank.
Hypothesis Hdepth : c_max_depth cfg = None.
Hypothesis Hwfdb : wf_db db = true.
Hypothesis Hto : forall n, total_order_on vcmp (names_of db n).
Hypothesis Hnokeep : mem_entry EKeep vro = false.
Hypothesis Hlines : forall n v p, reachN n -> D n = Some v -> find_pv w n v = Some p ->
                                  lines_ok (p_actions p) (lines_of fw p).

Lemma child_vro_same : child_vro vro = vro.
Proof. unfold child_vro. now rewrite Hnokeep. Qed.

Lemma cut_off_never depth : cut_off cfg false depth = false.
Proof. unfold cut_off. now rewrite Hdepth. Qed.

Lemma reachN_step m p o x j : reachN m -> has_name w m p -> In (ASetup o x j) (p_actions p) -> reachN x.
Proof.
  intros R Hp Ha. unfold reachN in *.
  apply (touches_none_trans w top m x R). apply (t_dep w None m x x I); [|constructor]. now exists p, o, j.
Qed.

(* ---------------------------------------------------------------- the invariant *)

Definition W1 (e : amap str) : Prop := forall n q, reachN n -> recorded e n q -> D n = Some (p_version q).
Definition closed_at (e : amap str) (q : product) : Prop :=
  forall o x j, In (ASetup o x j) (p_actions q) -> sets_up x -> exists q', recorded e x q'.
Definition W2 (open : str -> Prop) (e : amap str) : Prop :=
  forall n q, reachN n -> recorded e n q -> ~ open n -> sets_up n /\ closed_at e q.
Definition al_ok (al : already) : Prop :=
  forall n fd r, reachN n -> alookup n al = Some (fd, r) -> D n = Some (fd_version fd).

(* the aliases of Z that tables of reachable products define are defined only while such a product is recorded *)
Definition AJ (st : state) : Prop := alias_acc w reachN Z (fun _ => False) st.

Lemma AJ_env st st' : s_aliases st' = s_aliases st -> retains (s_env st) (s_env st') -> AJ st -> AJ st'.
Proof.
  intros EA Ret A k v Zk E O. rewrite EA in E. destruct (A k v Zk E O) as [[]|[n [q [v' [Rn [Rq Hin]]]]]].
  right. exists n, q, v'. split; [assumption|]. split; [now apply Ret|assumption].
Qed.

Definition call_post (open : str -> Prop) (st : state) (m : str) (r : fresult) : Prop :=
  match r with
  | FDone true st' al' _ =>
      AJ st' /\
      sets_up m /\ W1 (s_env st') /\ W2 open (s_env st') /\ al_ok al' /\ retains (s_env st) (s_env st') /\
      (exists q, recorded (s_env st') m q) /\ nodollar_paths w (s_env st') /\
      (forall k q, recorded (s_env st') k q -> recorded (s_env st) k q \/ reach_ok m k)
  | FDone false _ al' _ => ~ sets_up m /\ al_ok al'
  | FRaise _ al' _ => ~ sets_up m /\ al_ok al'
  | _ => True
  end.

Lemma call_post_trace open st m pre r : call_post open st m r -> call_post open st m (with_trace pre r).
Proof. destruct r as [[|] st' al' tr|st' al' tr|tr|tr]; exact (fun x => x). Qed.

Definition clos_fn (frec : full_fn) : Prop :=
  forall (open : str -> Prop) st al m li d,
    reachN m -> (forall n, open n -> rank m < rank n) -> nodollar_paths w (s_env st) ->
    W1 (s_env st) -> W2 open (s_env st) -> al_ok al -> desig 1 m li = D m -> AJ st ->
    call_post open st m (frec st al vro m li true (S d) false).

(* ---------------------------------------------------------------- the resolver gives the assigned version *)

Lemma resolve_D keep al m li d :
  reachN m -> al_ok al -> desig 1 m li = D m ->
  match resolve_request vcmp vmatch rc db keep (alookup m al) flavors (S d) vro
                        (mkRequest m (li_version li) (li_expr li)) with
  | Ok None => D m = None
  | Ok (Some (fd, _)) => D m = Some (fd_version fd)
  | Err _ => False
  end.
Proof.
  intros R A HD. unfold desig in HD. set (rq := mkRequest m (li_version li) (li_expr li)) in *.
  rewrite <- (designates_deep vcmp vmatch rc db flavors d vro rq) in HD.
  destruct (alookup m al) as [[op r]|] eqn:E.
  - pose proof (A m op r R E) as Dm. rewrite Dm in HD.
    destruct (designates vcmp vmatch rc db flavors (S d) vro rq) as [pD|] eqn:ED; [|discriminate].
    cbn [option_map] in HD. injection HD as HV.
    destruct (resolve_prev_version vcmp vmatch rc db keep op r flavors d vro rq pD Hwfdb (Hto _) ED (eq_sym HV))
      as [p' [r' [E1 E2]]].
    rewrite E1. rewrite Dm. now rewrite E2, HV.
  - destruct (resolve_designates vcmp vmatch rc db keep flavors (S d) vro rq Hwfdb (Hto _)) as [x [E1 E2]].
    rewrite E1. rewrite <- E2 in HD. destruct x as [[fd why]|]; cbn [option_map fst] in HD; now rewrite <- HD.
Qed.

(* ---------------------------------------------------------------- setting the variables of a fresh product *)

Lemma start_state (open : str -> Prop) st al m p fd why :
  reachN m -> find_pv w m (p_version p) = Some p -> D m = Some (p_version p) -> fd_version fd = p_version p ->
  find_setup_product w (s_env st) m = None ->
  nodollar_paths w (s_env st) -> W1 (s_env st) -> W2 open (s_env st) -> al_ok al ->
  let st1 := set_product_vars cfg st m p in
  W1 (s_env st1) /\ W2 (fun n => open n \/ n = m) (s_env st1) /\ al_ok (aset m (fd, why) al) /\
  retains (s_env st) (s_env st1) /\ recorded (s_env st1) m p /\ nodollar_paths w (s_env st1) /\
  (forall k q, recorded (s_env st1) k q -> k = m \/ recorded (s_env st) k q).
Proof.
  intros R F Dm V Hs Hnd HW1 HW2 HA st1.
  destruct (find_pv_spec w m _ p F) as [Hp _]. pose proof (known_has_name w m p Hp) as Km.
  assert (Self : recorded (s_env st1) m p) by exact (set_vars_self fw cfg dl rank H st m p F).
  assert (Other : forall n, n <> m -> known w n ->
                  find_setup_product w (s_env st1) n = find_setup_product w (s_env st) n).
  { intros n N Kn. exact (set_vars_other fw cfg dl rank H st m p n Kn Km N). }
  assert (Ret : retains (s_env st) (s_env st1)).
  { intros n q Rn. unfold SetupFullKeep.recorded. destruct (str_eq_dec n m) as [->|N].
    - unfold SetupFullKeep.recorded in Rn. rewrite Hs in Rn. discriminate.
    - rewrite (Other n N (recorded_known fw _ n q Rn)). exact Rn. }
  assert (Back : forall k q, recorded (s_env st1) k q -> k = m \/ recorded (s_env st) k q).
  { intros k q Rk. destruct (str_eq_dec k m) as [->|N]; [now left|right].
    unfold SetupFullKeep.recorded in *. now rewrite <- (Other k N (recorded_known fw _ k q Rk)). }
  split; [|split; [|split; [|split; [|split; [|split]]]]]; try assumption.
  - intros n q Rn Rec. destruct (Back n q Rec) as [->|Rec'].
    + unfold SetupFullKeep.recorded in Rec, Self. rewrite Self in Rec. injection Rec as <-. exact Dm.
    + now apply (HW1 n q).
  - intros n q Rn Rec Hopen.
    assert (N : n <> m) by (intro; apply Hopen; now right).
    destruct (Back n q Rec) as [->|Rec']; [contradiction|].
    destruct (HW2 n q Rn Rec' (fun O => Hopen (or_introl O))) as [S C]. split; [assumption|].
    intros o x j Ha Sx. destruct (C o x j Ha Sx) as [q' Rq']. exists q'. now apply Ret.
  - intros n fd0 r Rn E. destruct (str_eq_dec n m) as [->|N].
    + rewrite alookup_aset_same in E. injection E as <- _. now rewrite V.
    + rewrite alookup_aset_other in E by assumption. now apply (HA n fd0 r).
  - exact (proj1 (proj2 (set_product_vars_ok w cfg dl (wf_base w dl rank H) (eq m) m p st eq_refl Hnd))).
Qed.

(* ---------------------------------------------------------------- the table of a product *)

Definition run_post (open : str -> Prop) (m : str) (acts : list action) (st : state) (r : fresult) : Prop :=
  match r with
  | FDone true st' al' _ =>
      AJ st' /\
      W1 (s_env st') /\ W2 (fun n => open n \/ n = m) (s_env st') /\ al_ok al' /\
      retains (s_env st) (s_env st') /\ nodollar_paths w (s_env st') /\
      (forall o x j, In (ASetup o x j) acts ->
         (o = false -> sets_up x) /\ (sets_up x -> exists q, recorded (s_env st') x q)) /\
      (forall k q, recorded (s_env st') k q ->
         recorded (s_env st) k q \/ exists o x j, In (ASetup o x j) acts /\ sets_up x /\ reach_ok x k)
  | FDone false _ al' _ => (exists x j, In (ASetup false x j) acts /\ ~ sets_up x) /\ al_ok al'
  | FRaise _ al' _ => (exists x j, In (ASetup false x j) acts /\ ~ sets_up x) /\ al_ok al'
  | _ => True
  end.

Lemma run_post_trace open m acts st pre r : run_post open m acts st r -> run_post open m acts st (with_trace pre r).
Proof. destruct r as [[|] st' al' tr|st' al' tr|tr|tr]; exact (fun x => x). Qed.

(* one more action in front, whose effect on the records is known *)
Lemma run_post_cons (open : str -> Prop) m a acts st st1 r :
  retains (s_env st) (s_env st1) ->
  (forall k q, recorded (s_env st1) k q ->
     recorded (s_env st) k q \/ exists o x j, a = ASetup o x j /\ sets_up x /\ reach_ok x k) ->
  (forall o x j, a = ASetup o x j ->
     (o = false -> sets_up x) /\ (sets_up x -> exists q, recorded (s_env st1) x q)) ->
  run_post open m acts st1 r -> run_post open m (a :: acts) st r.
Proof.
  intros Ret New Line. destruct r as [[|] st' al' tr|st' al' tr|tr|tr]; cbn [run_post]; auto.
  - intros [A0 [A [B [C [R' [Dn [L N]]]]]]]. split; [assumption|]. split; [assumption|]. split; [assumption|]. split; [assumption|].
    split; [exact (retains_trans fw _ _ _ Ret R')|]. split; [assumption|]. split.
    + intros o x j [->|Hin]; [|exact (L o x j Hin)]. destruct (Line o x j eq_refl) as [L1 L2]. split; [assumption|].
      intro Sx. destruct (L2 Sx) as [q Rq]. exists q. now apply R'.
    + intros k q Rk. destruct (N k q Rk) as [Rk1|[o [x [j [Hin [Sx Ro]]]]]].
      * destruct (New k q Rk1) as [Rk0|[o [x [j [-> [Sx Ro]]]]]]; [now left|right].
        exists o, x, j. split; [now left|split; assumption].
      * right. exists o, x, j. split; [now right|split; assumption].
  - intros [[x [j [Hin Nx]]] A]. split; [|assumption]. exists x, j. split; [now right|assumption].
  - intros [[x [j [Hin Nx]]] A]. split; [|assumption]. exists x, j. split; [now right|assumption].
Qed.

Lemma run_clos frec (open : str -> Prop) m p depth :
  clos_fn frec -> has_name w m p -> reachN m -> (forall n, open n -> rank m < rank n) ->
  forall acts infos, (forall a, In a acts -> In a (p_actions p)) -> lines_ok acts infos ->
  forall st al, nodollar_paths w (s_env st) -> W1 (s_env st) -> W2 (fun n => open n \/ n = m) (s_env st) ->
                al_ok al -> recorded (s_env st) m p -> AJ st ->
    run_post open m acts st (run_full frec true depth false vro acts infos st al).
Proof.
  intros HC Hp Rm Hrank. induction acts as [|a acts IH]; intros infos Hsub HL st al Hnd HW1 HW2 HA Hrec HAJ.
  - cbn [run_actions_full run_post]. split; [assumption|]. split; [assumption|]. split; [assumption|]. split; [assumption|].
    split; [intros n q R; exact R|]. split; [assumption|]. split; [intros o x j []|]. intros k q R. now left.
  - assert (Hsub' : forall a0, In a0 acts -> In a0 (p_actions p)) by (intros; apply Hsub; now right).
    assert (Ha : In a (p_actions p)) by (apply Hsub; now left).
    destruct HL as [HLa HL']. cbn [run_actions_full].
    (* the actions that are not dependencies *)
    assert (Simple : (forall o x j, a <> ASetup o x j) ->
              run_post open m (a :: acts) st
                match exec_simple true a st with
                | Ok st' => run_full frec true depth false vro acts (tl infos) st' al
                | Err _ => FRaise st al []
                end).
    { intro Hns.
      destruct (simple_rel w cfg dl rank H (eq m) m p true a st eq_refl Hp Ha Hns Hnd) as [st1 [E [_ [Dn [Res Al]]]]].
      rewrite E.
      assert (F : forall n, find_setup_product w (s_env st1) n = find_setup_product w (s_env st) n).
      { intro n. apply (find_same_setup_var fw). apply Res. exists n. tauto. }
      assert (Same : forall n q, recorded (s_env st1) n q <-> recorded (s_env st) n q).
      { intros n q. unfold SetupFullKeep.recorded. now rewrite F. }
      apply (run_post_cons open m a acts st st1).
      - intros n q R. now apply Same.
      - intros k q R. left. now apply Same.
      - intros o x j Eq. exfalso. exact (Hns o x j Eq).
      - apply IH; auto.
        + intros n q Rn Rec. apply (HW1 n q Rn). now apply Same.
        + intros n q Rn Rec Ho. apply Same in Rec. destruct (HW2 n q Rn Rec Ho) as [S C]. split; [assumption|].
          intros o x j Hin Sx. destruct (C o x j Hin Sx) as [q' Rq']. exists q'. now apply Same.
        + now apply Same.
        + (* the aliases: a new one is accounted for by m itself, which is recorded *)
          destruct Al as [[_ EA]|[k [v [-> [EE EA]]]]].
          * apply (AJ_env st st1 EA); [intros n q R; now apply Same|assumption].
          * intros k' v' Zk' E' O'. rewrite EA in E'. destruct (str_eq_dec k' k) as [->|Nk].
            -- right. exists m, p, v. split; [assumption|]. split; [now apply Same|assumption].
            -- rewrite alookup_aset_other in E' by assumption.
               destruct (HAJ k' v' Zk' E' O') as [[]|[n [q [v0 [Rn [Rq Hin]]]]]].
               right. exists n, q, v0. split; [assumption|]. split; [now apply Same|assumption]. }
    destruct a as [o x j|ap var v d0|k v|k|k v|]; try (apply Simple; discriminate).
    destruct HLa as [-> HDx]. rewrite cut_off_never, child_vro_same.
    assert (Rx : reachN x) by exact (reachN_step m p o x false Rm Hp Ha).
    assert (Hrank' : forall n, (open n \/ n = m) -> rank x < rank n).
    { assert (E : rank x < rank m) by (apply (wf_rank w dl rank H m x); now exists p, o, false).
      intros n [O| ->]; [pose proof (Hrank n O); lia|assumption]. }
    pose proof (HC (fun n => open n \/ n = m) st al x (hd no_info infos) depth Rx Hrank' Hnd HW1 HW2 HA HDx HAJ) as C.
    (* the dependency failed: the environment is restored, the dictionary is not *)
    assert (failed_child : forall o x al' tr, ~ sets_up x -> al_ok al' ->
              run_post open m (ASetup o x false :: acts) st
                (if true && negb o then FRaise st al' tr
                 else with_trace tr (run_full frec true depth false vro acts (tl infos) st al'))).
    { intros o0 x0 al' tr Nx A3. destruct o0; cbn [negb andb].
      - apply run_post_trace.
        apply (run_post_cons open m (ASetup true x0 false) acts st st).
        + intros n q R. exact R.
        + intros k q R. now left.
        + intros o1 x1 j1 Eq. injection Eq as <- <- _. split; [discriminate|]. intro Sx. contradiction.
        + apply IH; auto.
      - cbn [run_post]. split; [|assumption]. exists x0, false. split; [now left|assumption]. }
    destruct (frec st al vro x (hd no_info infos) true (S depth) false) as [[|] st' al' tr|st' al' tr|tr|tr];
      cbn [call_post] in C; try exact I.
    + destruct C as [A0 [Sx [A1 [A2 [A3 [Ret [[qx Rqx] [Dn New]]]]]]]]. apply run_post_trace.
      apply (run_post_cons open m (ASetup o x false) acts st st').
      * exact Ret.
      * intros k q Rk. destruct (New k q Rk) as [R0|Ro]; [now left|right]. exists o, x, false. auto.
      * intros o0 x0 j0 Eq. injection Eq as <- <- _. split; [auto|]. intros _. now exists qx.
      * apply IH; auto.
    + destruct C as [Nx A3]. apply (failed_child o x al' tr Nx A3).
    + destruct C as [Nx A3]. apply (failed_child o x al' tr Nx A3).
Qed.

(* from the table to the product: m was not recorded, its variables were set, its table was processed *)
Lemma finish_product (open : str -> Prop) st st1 m p r :
  (forall n, open n -> rank m < rank n) -> reachN m ->
  find_pv w m (p_version p) = Some p -> D m = Some (p_version p) ->
  retains (s_env st) (s_env st1) -> recorded (s_env st1) m p ->
  (forall k q, recorded (s_env st1) k q -> k = m \/ recorded (s_env st) k q) ->
  run_post open m (p_actions p) st1 r -> call_post open st m r.
Proof.
  intros Hrank Rm F Dm Ret Self Back. destruct r as [[|] st' al' tr|st' al' tr|tr|tr]; cbn [run_post call_post]; auto.
  - intros [A0 [A1 [A2 [A3 [Ret' [Dn [L N]]]]]]].
    assert (Sm : sets_up m).
    { apply (su_intro m (p_version p) p Dm F). intros x j Hin. exact (proj1 (L false x j Hin) eq_refl). }
    assert (Self' : recorded (s_env st') m p) by now apply Ret'.
    split; [assumption|]. split; [assumption|]. split; [assumption|]. split; [|split; [assumption|split; [|split; [|split]]]].
    + intros n q Rn Rec Ho. destruct (str_eq_dec n m) as [->|Nm].
      * unfold SetupFullKeep.recorded in Rec, Self'. rewrite Self' in Rec. injection Rec as <-.
        split; [assumption|]. intros o x j Hin Sx. exact (proj2 (L o x j Hin) Sx).
      * apply (A2 n q Rn Rec). intros [O|E]; [now apply Ho|contradiction].
    + exact (retains_trans fw _ _ _ Ret Ret').
    + now exists p.
    + assumption.
    + intros k q Rk. destruct (N k q Rk) as [R1|[o [x [j [Hin [Sx Ro]]]]]].
      * destruct (Back k q R1) as [->|R0]; [right; constructor|now left].
      * right. exact (ro_dep m (p_version p) p o x j k Dm F Hin Sx Ro).
  - intros [[x [j [Hin Nx]]] A]. split; [|assumption]. intro Sm. inversion Sm as [n v p' Dv Fv Hall]; subst n.
    rewrite Dm in Dv. injection Dv as <-. rewrite F in Fv. injection Fv as <-. exact (Nx (Hall x j Hin)).
  - intros [[x [j [Hin Nx]]] A]. split; [|assumption]. intro Sm. inversion Sm as [n v p' Dv Fv Hall]; subst n.
    rewrite Dm in Dv. injection Dv as <-. rewrite F in Fv. injection Fv as <-. exact (Nx (Hall x j Hin)).
Qed.

Lemma clos_step frec : clos_fn frec -> clos_fn (step_full frec).
Proof.
  intros HC open st al m li d Rm Hrank Hnd HW1 HW2 HA HD HAJ. unfold setup_full_step.
  pose proof (resolve_D (c_keep cfg) al m li d Rm HA HD) as RD.
  destruct (resolve_request vcmp vmatch rc db (c_keep cfg) (alookup m al) flavors (S d) vro
                            (mkRequest m (li_version li) (li_expr li))) as [[[fd why]|]|e]; [| |contradiction].
  2:{ cbn [call_post]. split; [|assumption]. intro Sm. inversion Sm as [n v p Dv _ _]; subst n. congruence. }
  cbn [Nat.eqb negb].
  destruct (find_pv w m (fd_version fd)) as [p|] eqn:F; [|exact I]. rewrite andb_true_r.
  destruct (find_pv_spec w m _ p F) as [Hp Hv]. rewrite <- Hv in F, RD.
  destruct (find_setup_product w (s_env st) m) as [q|] eqn:Hs.
  - (* already set up, at the assigned version: nothing happens *)
    pose proof (HW1 m q Rm Hs) as Dq. rewrite RD in Dq. injection Dq as Vq.
    pose proof (recorded_find_pv fw _ m q Hs) as Fq. rewrite <- Vq, F in Fq. injection Fq as ->.
    rewrite (same_product_self fw dl rank H q (proj1 Hp)). cbn [call_post].
    assert (Hno : ~ open m) by (intro O; pose proof (Hrank m O); lia).
    destruct (HW2 m q Rm Hs Hno) as [Sm _].
    split; [assumption|]. split; [assumption|]. split; [assumption|]. split; [assumption|]. split; [assumption|].
    split; [intros n q0 R; exact R|]. split; [now exists q|]. split; [assumption|]. intros k q0 R. now left.
  - cbn [same_product]. cbv iota beta. apply call_post_trace.
    destruct (start_state open st al m p fd why Rm F RD (eq_sym Hv) Hs Hnd HW1 HW2 HA)
      as [B1 [B2 [B3 [Ret [Self [Dn Back]]]]]].
    apply (finish_product open st (set_product_vars cfg st m p) m p); auto.
    apply (run_clos frec open m p (S d) HC Hp Rm Hrank (p_actions p) (lines_of fw p) (fun a Ha => Ha)); auto.
    + exact (Hlines m (p_version p) p Rm RD F).
    + exact (AJ_env st (set_product_vars cfg st m p) eq_refl Ret HAJ).
Qed.

Lemma clos_full fuel : clos_fn (full fuel).
Proof.
  induction fuel as [|fuel IH].
  - intros open st al m li d _ _ _ _ _ _ _ _. exact I.
  - cbn [setup_full]. now apply clos_step.
Qed.

(* ---------------------------------------------------------------- the top level *)

Lemma rebuild_lookup_inv names e n x :
  alookup n (rebuild_from w cfg names e) = Some x -> find_setup_product w e n <> None.
Proof.
  induction names as [|n0 names IH]; cbn [rebuild_from alookup]; [discriminate|].
  destruct (find_setup_product w e n0) as [q0|] eqn:E0; [|exact IH]. cbn [alookup].
  destruct (str_eqb_spec n n0) as [->|N]; [|exact IH]. intros _. rewrite E0. discriminate.
Qed.

Theorem closure_lemma fuel st li st' al' tr :
  nodollar_paths w (s_env st) ->
  (forall n, reachN n -> find_setup_product w (s_env st) n = None) ->
  desig 0 top li = D top -> AJ st ->
  full fuel st [] vro top li true 0 false = FDone true st' al' tr ->
  (forall k, reach_ok top k ->
     exists v q, D k = Some v /\ find_pv w k v = Some q /\ find_setup_product w (s_env st') k = Some q) /\
  (forall k q, reachN k -> find_setup_product w (s_env st') k = Some q -> reach_ok top k /\ D k = Some (p_version q)) /\
  (forall k, known w k -> ~ reachN k ->
     find_setup_product w (s_env st') k = find_setup_product w (s_env st) k) /\
  AJ st'.
Proof.
  intros Hnd Hfresh HD HAJ E.
  assert (Rtop : reachN top) by constructor.
  (* names outside the reach: the frame theorem *)
  assert (Outside : forall k, known w k -> ~ reachN k ->
            find_setup_product w (s_env st') k = find_setup_product w (s_env st) k).
  { intros k Kk Nk.
    assert (Hd : depth_ok cfg 0) by (unfold depth_ok; now rewrite Hdepth).
    pose proof (setup_full_frame_lemma vcmp vmatch fw cfg rc flavors dl fuel st [] vro top li true 0 false
                  (wf_base w dl rank H) Hnd Hd) as G.
    rewrite E in G. cbn [erase good] in G. destruct G as [Fr _].
    assert (L : levels cfg 0 false = None) by (unfold levels; now rewrite Hdepth). rewrite L in Fr.
    apply (frame_find w dl rank H _ (s_env st) (s_env st') k Fr); [| |assumption].
    - intros n Rn ->. now apply Nk.
    - intros n Rn. apply (touches_known w None top n); [|assumption].
      destruct fuel as [|fuel']; [discriminate|]. cbn [setup_full] in E.
      destruct (step_success_resolved vcmp vmatch fw cfg rc flavors _ _ _ _ _ _ _ _ _ _ _ E) as [fd [why R]].
      unfold setup_full_step in E. rewrite R in E.
      destruct (find_pv w top (fd_version fd)) as [p|] eqn:F; [|discriminate].
      exact (known_has_name w top p (proj1 (find_pv_spec w top _ p F))). }
  destruct fuel as [|fuel]; [discriminate|]. cbn [setup_full] in E. unfold setup_full_step in E.
  cbn [alookup] in E.
  set (rq := mkRequest top (li_version li) (li_expr li)) in *.
  destruct (resolve_designates vcmp vmatch rc db (c_keep cfg) flavors 0 vro rq Hwfdb (Hto _)) as [x [E1 E2]].
  rewrite E1 in E. unfold desig in HD. fold rq in HD. rewrite <- E2 in HD.
  destruct x as [[fd why]|]; [|discriminate]. cbn [option_map fst] in HD.
  cbn [Nat.eqb negb] in E.
  destruct (find_pv w top (fd_version fd)) as [p|] eqn:F; [|discriminate]. rewrite andb_false_r in E.
  destruct (find_pv_spec w top _ p F) as [Hp Hv]. rewrite <- Hv in F, HD. symmetry in HD.
  rewrite (Hfresh top Rtop) in E.
  set (al1 := aset top (fd, why) (rebuild w cfg (s_env st))) in E.
  assert (A1 : al_ok al1).
  { intros n fd0 r Rn En. unfold al1 in En. destruct (str_eq_dec n top) as [->|N].
    - rewrite alookup_aset_same in En. injection En as <- _. now rewrite <- Hv.
    - rewrite alookup_aset_other in En by assumption. exfalso.
      exact (rebuild_lookup_inv _ _ _ _ En (Hfresh n Rn)). }
  assert (V1 : W1 (s_env st)).
  { intros n q Rn Rec. unfold SetupFullKeep.recorded in Rec. rewrite (Hfresh n Rn) in Rec. discriminate. }
  assert (V2 : W2 (fun _ => False) (s_env st)).
  { intros n q Rn Rec. unfold SetupFullKeep.recorded in Rec. rewrite (Hfresh n Rn) in Rec. discriminate. }
  destruct (start_state (fun _ => False) st (rebuild w cfg (s_env st)) top p fd why Rtop F HD (eq_sym Hv)
              (Hfresh top Rtop) Hnd V1 V2)
    as [B1 [B2 [_ [Ret [Self [Dn Back]]]]]].
  { intros n fd0 r Rn En. exfalso. exact (rebuild_lookup_inv _ _ _ _ En (Hfresh n Rn)). }
  pose proof (run_clos (full fuel) (fun _ => False) top p 0 (clos_full fuel) Hp Rtop (fun n (O : False) => match O with end)
                (p_actions p) (lines_of fw p) (fun a Ha => Ha) (Hlines top (p_version p) p Rtop HD F)
                (set_product_vars cfg st top p) (aset top (fd, why) al1) Dn B1 B2) as RP.
  assert (A2 : al_ok (aset top (fd, why) al1)).
  { intros n fd0 r Rn En. destruct (str_eq_dec n top) as [->|N].
    - rewrite alookup_aset_same in En. injection En as <- _. now rewrite <- Hv.
    - rewrite alookup_aset_other in En by assumption. now apply (A1 n fd0 r). }
  specialize (RP A2 Self (AJ_env st (set_product_vars cfg st top p) eq_refl Ret HAJ)).
  pose proof (finish_product (fun _ => False) st (set_product_vars cfg st top p) top p _
                (fun n (O : False) => match O with end) Rtop F HD Ret Self Back RP) as CP.
  cbv iota beta in E.
  destruct (run_full (full fuel) true 0 false vro (p_actions p) (lines_of fw p) (set_product_vars cfg st top p)
                     (aset top (fd, why) al1)) as [okr str alr trr|str alr trr|trr|trr];
    cbn [with_trace] in E; try discriminate.
  injection E as -> -> _ _. cbn [call_post] in CP.
  destruct CP as [CA [Stop [C1 [C2 [_ [_ [[qt Rt] [_ New]]]]]]]].
  split; [|split; [|split; [exact Outside|exact CA]]].
  - (* every member of the closure is recorded at its assigned version *)
    assert (G : forall m k, reach_ok m k -> reachN m -> (exists q, recorded (s_env st') m q) ->
                reachN k /\ exists q, recorded (s_env st') k q).
    { induction 1 as [m|m v pm o x j k Dm Fm Hin Sx Ro IH]; intros Rm [qm Rqm]; [split; [assumption|now exists qm]|].
      pose proof (C1 m qm Rm Rqm) as Dq. rewrite Dm in Dq. injection Dq as ->.
      pose proof (recorded_find_pv fw _ m qm Rqm) as Fq. rewrite Fm in Fq. injection Fq as ->.
      destruct (C2 m qm Rm Rqm (fun O => O)) as [_ Cl].
      apply IH; [|exact (Cl o x j Hin Sx)].
      exact (reachN_step m qm o x j Rm (proj1 (find_pv_spec w m _ qm Fm)) Hin). }
    intros k Rk. destruct (G top k Rk Rtop (ex_intro _ qt Rt)) as [Rnk [q Rq]].
    exists (p_version q), q. split; [exact (C1 k q Rnk Rq)|]. split; [exact (recorded_find_pv fw _ k q Rq)|exact Rq].
  - intros k q Rnk Rq. split; [|exact (C1 k q Rnk Rq)].
    destruct (New k q Rq) as [R0|Ro]; [|assumption].
    unfold SetupFullKeep.recorded in R0. rewrite (Hfresh k Rnk) in R0. discriminate.
Qed.

End Closure.

(* ---------------------------------------------------------------- packaging *)

(* no product is requested in two different versions along the traversal: one assignment D explains the
   top-level request and every dependency line (none of them with -j) of every table the traversal can read *)
Definition conflict_free vcmp vmatch fw cfg rc flavors vro top li (D : str -> option str) : Prop :=
  desig vcmp vmatch fw cfg rc flavors vro 0 top li = D top /\
  forall n v p, reachN fw top n -> D n = Some v -> find_pv (fw_products fw) n v = Some p ->
                lines_ok vcmp vmatch fw cfg rc flavors vro D (p_actions p) (lines_of fw p).

(* the comparator is a total order on the version names of every product when it is one on all of them *)
Definition all_versions (db : dbv) : list str :=
  flat_map (fun s => map (fun d => snd (fst d)) (st_decl s)) db.

Lemma names_of_all db n v : In v (names_of db n) -> In v (all_versions db).
Proof.
  unfold names_of, all_versions. rewrite !in_flat_map. intros [s [Hs Hv]]. exists s. split; [assumption|].
  apply in_flat_map in Hv. destruct Hv as [[[n' v'] f'] [Hd Hv]]. apply in_map_iff. exists (n', v', f').
  destruct (str_eqb n n'); [|contradiction]. destruct Hv as [<-|[]]. split; [reflexivity|assumption].
Qed.

Lemma total_order_all vcmp db : total_order_on vcmp (all_versions db) -> forall n, total_order_on vcmp (names_of db n).
Proof.
  intros [A [B [C0 D0]]] n. pose proof (names_of_all db n) as S.
  split; [|split; [|split]]; intros; [apply A|apply B|apply C0|apply (D0 x y z)]; auto.
Qed.
