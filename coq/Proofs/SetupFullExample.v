(* The world of Proofs/SetupExample.v as a world of the composed model (Model/SetupFull.v): the request
   information of every table line and the chain files.
     liba 1.0   setupRequired(base 1.0)
     libb 1.0   setupRequired(base 2.0)        (a bare setupRequired(base) would keep base 1.0: the earlier
                                               choice was made through the entry version, which ranks before current)
     app  1.0   setupRequired(liba) setupRequired(libb) setupOptional(ghost)
   so that  setup app  from the empty environment takes, by itself, exactly the decisions ex_ds of
   Proofs/SetupExample.v (base 1.0 below liba, replaced by base 2.0 below libb, ghost not found). *)
From Eupsv Require Import Base.Base Model.PathAlg Model.Setup Model.Resolve Model.SetupFull Proofs.SetupExample
     Generated.Config.

Definition li_v (v : string) : lineinfo := {| li_version := Some (lit v); li_expr := None |}.
Arguments li_v v%string.

Definition ex_fw : fworld :=
  {| fw_products := ex_world;
     fw_lines := [ (lit "liba", lit "1.0", [li_v "1.0"; no_info; no_info]);
                   (lit "libb", lit "1.0", [li_v "2.0"; no_info; no_info]);
                   (lit "app", lit "1.0", [no_info; no_info; no_info; no_info; no_info]) ];
     fw_tags := [ (lit "base", lit "current", lit "2.0"); (lit "liba", lit "current", lit "1.0");
                  (lit "libb", lit "current", lit "1.0"); (lit "app", lit "current", lit "1.0") ] |}.

Definition ex_flavors : list str := [lit "Linux64"; lit "generic"].

Definition ex_cfg_keep : Setup.config :=
  {| c_flavor := lit "Linux64"; c_root := lit "/s"; c_max_depth := None; c_keep := true |}.

(* the VRO of a plain request and of a request with --keep, as selectVRO makes them from the shipped
   configuration (Generated/Config.v) *)
Definition ex_vro : list entry :=
  [EType (lit "exact"); ECommandLine; EVersion; EVersionExpr; ETag (lit "current")].

Example ex_vro_plain v : select_vro default_config (request_opts ex_cfg v) = Ok ex_vro.
Proof. destruct v; reflexivity. Qed.

Example ex_vro_keep v : select_vro default_config (request_opts ex_cfg_keep v) = Ok (EKeep :: ex_vro).
Proof. destruct v; reflexivity. Qed.
