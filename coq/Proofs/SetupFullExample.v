(* The world of Proofs/SetupExample.v as a world of the composed model (Model/SetupFull.v): the request
   information of every table line and the chain files.
     liba 1.0   setupRequired(base 1.0)
     libb 1.0   setupRequired(base 2.0)        (a bare setupRequired(base) would keep base 1.0: the earlier
                                               choice was made through the entry version, which ranks before current)
     app  1.0   setupRequired(liba) setupRequired(libb) setupOptional(ghost)
   so that  setup app  from the empty environment takes, by itself, exactly the decisions ex_ds of
   Proofs/SetupExample.v (base 1.0 below liba, replaced by base 2.0 below libb, ghost not found). *)
From Eupsv Require Import Base.Base Model.PathAlg Model.Setup Model.Resolve Model.SetupFull Proofs.SetupExample
     Generated.Config.

Definition li_v (v : string) : lineinfo := {| li_version := Some (lit v); li_expr := None |}.
Arguments li_v v%string.

Definition ex_fw : fworld :=
  {| fw_products := ex_world;
     fw_lines := [ (lit "liba", lit "1.0", [li_v "1.0"; no_info; no_info]);
                   (lit "libb", lit "1.0", [li_v "2.0"; no_info; no_info]);
                   (lit "app", lit "1.0", [no_info; no_info; no_info; no_info; no_info]) ];
     fw_tags := [ (lit "base", lit "current", lit "2.0"); (lit "liba", lit "current", lit "1.0");
                  (lit "libb", lit "current", lit "1.0"); (lit "app", lit "current", lit "1.0") ] |}.

Definition ex_flavors : list str := [lit "Linux64"; lit "generic"].

Definition ex_cfg_keep : Setup.config :=
  {| c_flavor := lit "Linux64"; c_root := lit "/s"; c_max_depth := None; c_keep := true; c_flavors := [] |}.

(* the VRO of a plain request and of a request with --keep, as selectVRO makes them from the shipped
   configuration (Generated/Config.v) *)
Definition ex_vro : list entry :=
  [EType (lit "exact"); ECommandLine; EVersion; EVersionExpr; ETag (lit "current")].

Example ex_vro_plain v : select_vro default_config (request_opts ex_cfg v) = Ok ex_vro.
Proof. destruct v; reflexivity. Qed.

Example ex_vro_keep v : select_vro default_config (request_opts ex_cfg_keep v) = Ok (EKeep :: ex_vro).
Proof. destruct v; reflexivity. Qed.

(* the assignment that explains  setup libb  on ex_fw: libb 1.0, base 2.0 *)
Definition ex_D (n : str) : option str :=
  if str_eqb n (lit "libb") then Some (lit "1.0")
  else if str_eqb n (lit "base") then Some (lit "2.0") else None.

(* A world with a version conflict in which a REQUIRED product ends up not set up (why the closure clause
   of C01 is conditional):
     c 1.0            -
     b 1.0            setupRequired(c)
     b 2.0            -
     a 1.0            setupRequired(b 1.0)
     d 1.0            setupRequired(b 2.0)
     t 1.0            setupRequired(c) setupRequired(a) setupRequired(d)
   setup t: c, a, b 1.0 (c is already set up), d, then b 2.0 replaces b 1.0 - and the unsetup of b 1.0 unsets
   its dependency c, which t requires directly. *)
Definition cx_prod (n v : string) (acts : list action) : product :=
  {| p_name := lit n; p_version := lit v; p_dir := lit "/s/" ++ lit n ++ lit "/" ++ lit v;
     p_actions := acts ++ [APath false (lit "PATH") (lit "/s/" ++ lit n ++ lit "/" ++ lit v ++ lit "/bin") c_colon] |}.
Arguments cx_prod (n v)%string acts.

Definition cx_world : world :=
  [ cx_prod "c" "1.0" [];
    cx_prod "b" "1.0" [ASetup false (lit "c") false];
    cx_prod "b" "2.0" [];
    cx_prod "a" "1.0" [ASetup false (lit "b") false];
    cx_prod "d" "1.0" [ASetup false (lit "b") false];
    cx_prod "t" "1.0" [ASetup false (lit "c") false; ASetup false (lit "a") false; ASetup false (lit "d") false] ].

Definition cx_fw : fworld :=
  {| fw_products := cx_world;
     fw_lines := [ (lit "a", lit "1.0", [li_v "1.0"]); (lit "d", lit "1.0", [li_v "2.0"]) ];
     fw_tags := [ (lit "c", lit "current", lit "1.0"); (lit "b", lit "current", lit "2.0");
                  (lit "a", lit "current", lit "1.0"); (lit "d", lit "current", lit "1.0");
                  (lit "t", lit "current", lit "1.0") ] |}.

Definition cx_order : list str := [lit "c"; lit "b"; lit "a"; lit "d"; lit "t"].

(* D36 (fixed): an optional dependency that defines an alias and then fails.
     x 1.0   addAlias(run_x, echo x)  envPrepend(PATH, /s/x/1.0/bin)  setupRequired(missing)
     t 1.0   setupOptional(x)  envPrepend(PATH, /s/t/1.0/bin) *)
Definition ax_world : world :=
  [ {| p_name := lit "x"; p_version := lit "1.0"; p_dir := lit "/s/x/1.0";
       p_actions := [AAlias (lit "run_x") (lit "echo x"); APath false (lit "PATH") (lit "/s/x/1.0/bin") c_colon;
                     ASetup false (lit "missing") false] |};
    {| p_name := lit "t"; p_version := lit "1.0"; p_dir := lit "/s/t/1.0";
       p_actions := [ASetup true (lit "x") false; APath false (lit "PATH") (lit "/s/t/1.0/bin") c_colon] |} ].
Definition ax_order : list str := [lit "missing"; lit "x"; lit "t"].
(* t 1.0, x 1.0, missing not found *)
Definition ax_ds : list decision := [Some (lit "1.0"); Some (lit "1.0"); None].
