(* C04, --keep, end to end on the composed model Model/SetupFull.v: with keep at the head of the VRO (and
   Eups.keep set, as the command line option does both), every product other than the requested one that
   the environment records before the request is recorded with the same version after it.

   Shape of the argument.  At the top level alreadySetupProducts is rebuilt from the environment, so it
   is in sync with it: every recorded product has an entry with the recorded version.  Below the top
   level the entry keep of the VRO returns the entry of the requested product whenever there is one
   (hypothesis keep_first, discharged in Props/C04.v by keep_retains_partial_resolver), so
     - a product that is recorded is decided at its recorded version and the call returns without
       touching anything (the setup half, cf. keep_retains_partial_setup);
     - the version stored in an entry never changes (so restoring the environment after a failed
       dependency keeps the dictionary in sync with the restored environment);
     - no unsetup ever happens below the top level.
   At the top level the replaced version of the requested product is unset without its dependencies
   (the fix 6851e7d: noRecursion or keep), which touches only its own variables. *)
From Eupsv Require Import Base.Base Base.BaseLemmas Model.PathAlg Proofs.PathAlg Model.Setup Proofs.SetupFrame
     Proofs.SetupInv Model.Resolve Model.ResolveSpec Proofs.ResolveLib Proofs.Resolve Model.SetupFull
     Proofs.SetupFull.
From Coq Require Import Lia.

Section Keep.
Variable vcmp : str -> str -> comparison.
Variable vmatch : str -> str -> bool.
Variable fw : fworld.
Variable cfg : Setup.config.
Variable rc : Resolve.config.
Variable flavors : list str.
Variable dl : str -> ascii.
Variable rank : str -> nat.

Notation w := (fw_products fw).
Notation full := (setup_full vcmp vmatch fw cfg rc flavors).
Notation step_full := (setup_full_step vcmp vmatch fw cfg rc flavors).
Notation run_full := (run_actions_full cfg).
Notation db := (db_of cfg fw).

Hypothesis H : WF2 w dl rank.
Hypothesis Hkeep : c_keep cfg = true.
Hypothesis Hflavors : flavors <> [].
(* the resolver half: keep_retains_partial_resolver of Props/C04.v *)
Hypothesis keep_first : forall op ox f d rest rq,
  find_from_vro vcmp vmatch rc db (Some (op, ox)) f (S d) (EKeep :: rest) rq = Some (op, (EKeep, None)).

Definition recorded (e : amap str) (n : str) (q : product) : Prop := find_setup_product w e n = Some q.
Definition retains (e e' : amap str) : Prop := forall n q, recorded e n q -> recorded e' n q.
Definition insync (e : amap str) (al : already) : Prop :=
  forall n q, recorded e n q -> exists fd r, alookup n al = Some (fd, r) /\ fd_version fd = p_version q.
Definition stable (al al' : already) : Prop :=
  forall n fd r, alookup n al = Some (fd, r) -> exists r', alookup n al' = Some (fd, r').

Lemma retains_refl e : retains e e.
Proof. intros n q R. exact R. Qed.
Lemma retains_trans e1 e2 e3 : retains e1 e2 -> retains e2 e3 -> retains e1 e3.
Proof. intros A B n q R. apply B. now apply A. Qed.
Lemma stable_refl al : stable al al.
Proof. intros n fd r E. now exists r. Qed.
Lemma stable_trans a1 a2 a3 : stable a1 a2 -> stable a2 a3 -> stable a1 a3.
Proof. intros A B n fd r E. destruct (A n fd r E) as [r' E']. exact (B n fd r' E'). Qed.
Lemma insync_stable e al al' : insync e al -> stable al al' -> insync e al'.
Proof.
  intros I S n q R. destruct (I n q R) as [fd [r [E V]]]. destruct (S n fd r E) as [r' E']. now exists fd, r'.
Qed.

Lemma stable_aset al m fd why :
  (forall op ox, alookup m al = Some (op, ox) -> op = fd) -> stable al (aset m (fd, why) al).
Proof.
  intros Hm n fd0 r E. destruct (str_eq_dec n m) as [->|N].
  - exists why. rewrite alookup_aset_same. now rewrite (Hm fd0 r E).
  - exists r. now rewrite alookup_aset_other.
Qed.

(* ---------------------------------------------------------------- the resolver under keep *)

Lemma resolve_keep op ox d rest rq :
  resolve_request vcmp vmatch rc db (c_keep cfg) (Some (op, ox)) flavors (S d) (EKeep :: rest) rq =
  Ok (Some (op, Some (EKeep, None))).
Proof.
  unfold resolve_request. destruct flavors as [|f fs]; [contradiction|]. cbn [flavor_loop].
  now rewrite (accept_deep vcmp vmatch rc db (c_keep cfg) (Some (op, ox)) f d (EKeep :: rest) rq
                 (length (EKeep :: rest)) op (EKeep, None) (keep_first op ox f d rest rq)).
Qed.

Lemma child_vro_keep rest : child_vro (EKeep :: rest) = EKeep :: EKeep :: rest.
Proof. reflexivity. Qed.

(* ---------------------------------------------------------------- records and the reserved variables *)

Lemma recorded_known e n q : recorded e n q -> known w n.
Proof. intro R. apply (known_has_name w n q). exact (find_setup_product_spec w e n q R). Qed.

Lemma recorded_find_pv e n q : recorded e n q -> find_pv w n (p_version q) = Some q.
Proof.
  unfold recorded, find_setup_product. destruct (alookup (setup_var n) e) as [s|]; [|discriminate].
  destruct (recorded_version s) as [v|]; [|discriminate]. intro F.
  destruct (find_pv_spec w n v q F) as [_ <-]. exact F.
Qed.

Lemma find_same_setup_var e e' n :
  alookup (setup_var n) e' = alookup (setup_var n) e -> find_setup_product w e' n = find_setup_product w e n.
Proof. intro E. unfold find_setup_product. now rewrite E. Qed.

Lemma apart_reserved n m : known w n -> known w m -> n <> m ->
  setup_var n <> setup_var m /\ setup_var n <> dir_var m /\ setup_var n <> extra_var m.
Proof.
  intros Kn Km Hne.
  assert (O : own_var w n (setup_var n)) by (unfold own_var; tauto).
  pose proof (wf_var_apart w dl rank H n m (setup_var n) Kn Km Hne O) as A. unfold own_var in A.
  repeat split; intro E; apply A; tauto.
Qed.

Lemma set_vars_other st m p n : known w n -> known w m -> n <> m ->
  find_setup_product w (s_env (set_product_vars cfg st m p)) n = find_setup_product w (s_env st) n.
Proof.
  intros Kn Km Hne. destruct (apart_reserved n m Kn Km Hne) as [A [B _]].
  apply find_same_setup_var. unfold set_product_vars, set_env. cbn [s_env].
  rewrite alookup_aset_other by assumption. now rewrite alookup_aset_other.
Qed.

Lemma unset_vars_other st m n : known w n -> known w m -> n <> m ->
  find_setup_product w (s_env (unset_product_vars st m)) n = find_setup_product w (s_env st) n.
Proof.
  intros Kn Km Hne. destruct (apart_reserved n m Kn Km Hne) as [A [B C]].
  apply find_same_setup_var. unfold unset_product_vars, unset_env. cbn [s_env].
  rewrite alookup_aremove_other by assumption. rewrite alookup_aremove_other by assumption.
  now rewrite alookup_aremove_other.
Qed.

Lemma set_vars_self st m p : find_pv w m (p_version p) = Some p ->
  find_setup_product w (s_env (set_product_vars cfg st m p)) m = Some p.
Proof.
  intro F. destruct (find_pv_spec w m _ p F) as [[Hin Hn] _].
  destruct (wf_words w dl rank H p Hin) as [Wn [Wv Wf]]. rewrite Hn in Wn.
  unfold find_setup_product, set_product_vars, set_env. cbn [s_env]. rewrite alookup_aset_same.
  now rewrite (recorded_setup_string cfg m (p_version p) Wn Wv Wf).
Qed.

(* the non-dependency actions of a table leave every reserved variable alone *)
Lemma simple_reserved name p fwd a st st' :
  has_name w name p -> In a (p_actions p) -> (forall o m j, a <> ASetup o m j) ->
  nodollar_paths w (s_env st) -> exec_simple fwd a st = Ok st' ->
  (forall k, reserved k -> alookup k (s_env st') = alookup k (s_env st)) /\ nodollar_paths w (s_env st').
Proof.
  intros Hp Ha Hns Hnd. destruct a as [o m j|ap var v d|k v|k|k v|]; cbn [exec_simple].
  - exfalso. now apply (Hns o m j).
  - destruct (path_step_facts w dl rank H name p ap fwd var v d (s_env st) Hp Ha Hnd) as [e' [E1 [_ [E3 [E4 _]]]]].
    rewrite E1. intro X. injection X as <-. cbn [with_env s_env]. split; [|assumption].
    intros k Hk. apply E4. apply (reserved_neq_path w dl rank H var k); [|assumption].
    exists p, ap, v, d. split; [apply Hp|assumption].
  - destruct (set_step_facts w dl rank H name p fwd k v (s_env st) Hp Ha Hnd) as [E1 [_ E3]].
    rewrite E1. intro X. injection X as <-. cbn [with_env s_env]. split; [|assumption].
    intros r Hr.
    assert (N : r <> k).
    { apply (reserved_neq_set w dl rank H k r); [|assumption]. exists p, v. split; [apply Hp|assumption]. }
    destruct fwd; [now apply alookup_aset_other|now apply alookup_aremove_other].
  - exfalso. exact (wf_nounset (wf_base w dl rank H) p k (proj1 Hp) Ha).
  - intro X. injection X as <-. cbn [s_env]. split; [reflexivity|assumption].
  - intro X. injection X as <-. split; [reflexivity|assumption].
Qed.

Lemma simple_records name p fwd a st st' :
  has_name w name p -> In a (p_actions p) -> (forall o m j, a <> ASetup o m j) ->
  nodollar_paths w (s_env st) -> exec_simple fwd a st = Ok st' ->
  (forall n, find_setup_product w (s_env st') n = find_setup_product w (s_env st) n) /\
  nodollar_paths w (s_env st').
Proof.
  intros Hp Ha Hns Hnd E. destruct (simple_reserved name p fwd a st st' Hp Ha Hns Hnd E) as [R D].
  split; [|assumption]. intro n. apply find_same_setup_var. apply R. exists n. tauto.
Qed.

(* ---------------------------------------------------------------- what a nested call guarantees *)

Definition keep_post (st : state) (al : already) (r : fresult) : Prop :=
  match r with
  | FDone true st' al' _ => retains (s_env st) (s_env st') /\ insync (s_env st') al' /\ stable al al' /\
                            nodollar_paths w (s_env st')
  | FDone false _ al' _ => stable al al'
  | FRaise _ al' _ => stable al al'
  | _ => True
  end.

Lemma keep_post_trace st al pre r : keep_post st al r -> keep_post st al (with_trace pre r).
Proof. destruct r as [[|] st' al' tr|st' al' tr|tr|tr]; exact (fun x => x). Qed.

Lemma keep_post_step st al st1 al1 r :
  retains (s_env st) (s_env st1) -> stable al al1 -> keep_post st1 al1 r -> keep_post st al r.
Proof.
  intros R S. destruct r as [[|] st' al' tr|st' al' tr|tr|tr]; cbn [keep_post]; auto.
  - intros [R' [I' [S' D']]]. split; [exact (retains_trans _ _ _ R R')|].
    split; [assumption|]. split; [exact (stable_trans _ _ _ S S')|assumption].
  - intro S'. exact (stable_trans _ _ _ S S').
  - intro S'. exact (stable_trans _ _ _ S S').
Qed.

Definition keep_fn (frec : full_fn) : Prop :=
  forall st al rest m li d jst,
    nodollar_paths w (s_env st) -> insync (s_env st) al ->
    keep_post st al (frec st al (EKeep :: rest) m li true (S d) jst).

Lemma run_keep frec name p depth just rest :
  keep_fn frec -> has_name w name p ->
  forall acts, (forall a, In a acts -> In a (p_actions p)) ->
  forall infos st al, nodollar_paths w (s_env st) -> insync (s_env st) al ->
    keep_post st al (run_full frec true depth just (EKeep :: rest) acts infos st al).
Proof.
  intros HK Hp. induction acts as [|a acts IH]; intros Hsub infos st al Hnd HI.
  - cbn [run_actions_full keep_post]. split; [apply retains_refl|]. split; [assumption|].
    split; [apply stable_refl|assumption].
  - assert (Hsub' : forall a0, In a0 acts -> In a0 (p_actions p)) by (intros; apply Hsub; now right).
    assert (Ha : In a (p_actions p)) by (apply Hsub; now left).
    cbn [run_actions_full].
    destruct a as [o m j|ap var v d|k v|k|k v|].
    + destruct (cut_off cfg just (S depth)); [now apply IH|]. rewrite child_vro_keep.
      pose proof (HK st al (EKeep :: rest) m (hd no_info infos) depth j Hnd HI) as C.
      destruct (frec st al (EKeep :: EKeep :: rest) m (hd no_info infos) true (S depth) j)
        as [[|] st' al' tr|st' al' tr|tr|tr]; cbn [keep_post] in C; try exact I.
      * destruct C as [R [I' [S D]]]. apply keep_post_trace.
        apply (keep_post_step st al st' al'); auto.
      * destruct (true && negb o); [exact C|]. apply keep_post_trace.
        apply (keep_post_step st al st al'); auto.
        -- apply retains_refl.
        -- apply IH; auto. exact (insync_stable _ _ _ HI C).
      * destruct (true && negb o); [exact C|]. apply keep_post_trace.
        apply (keep_post_step st al st al'); auto.
        -- apply retains_refl.
        -- apply IH; auto. exact (insync_stable _ _ _ HI C).
    + destruct (exec_simple true (APath ap var v d) st) as [st'|] eqn:E; [|apply stable_refl].
      destruct (simple_records name p true _ st st' Hp Ha ltac:(discriminate) Hnd E) as [F D].
      apply (keep_post_step st al st' al); [intros n q R; unfold recorded; now rewrite F|apply stable_refl|].
      apply IH; auto. intros n q R. apply HI. unfold recorded in *. now rewrite <- F.
    + destruct (exec_simple true (ASet k v) st) as [st'|] eqn:E; [|apply stable_refl].
      destruct (simple_records name p true _ st st' Hp Ha ltac:(discriminate) Hnd E) as [F D].
      apply (keep_post_step st al st' al); [intros n q R; unfold recorded; now rewrite F|apply stable_refl|].
      apply IH; auto. intros n q R. apply HI. unfold recorded in *. now rewrite <- F.
    + destruct (exec_simple true (AUnset k) st) as [st'|] eqn:E; [|apply stable_refl].
      destruct (simple_records name p true _ st st' Hp Ha ltac:(discriminate) Hnd E) as [F D].
      apply (keep_post_step st al st' al); [intros n q R; unfold recorded; now rewrite F|apply stable_refl|].
      apply IH; auto. intros n q R. apply HI. unfold recorded in *. now rewrite <- F.
    + destruct (exec_simple true (AAlias k v) st) as [st'|] eqn:E; [|apply stable_refl].
      destruct (simple_records name p true _ st st' Hp Ha ltac:(discriminate) Hnd E) as [F D].
      apply (keep_post_step st al st' al); [intros n q R; unfold recorded; now rewrite F|apply stable_refl|].
      apply IH; auto. intros n q R. apply HI. unfold recorded in *. now rewrite <- F.
    + destruct (exec_simple true ANone st) as [st'|] eqn:E; [|apply stable_refl].
      destruct (simple_records name p true _ st st' Hp Ha ltac:(discriminate) Hnd E) as [F D].
      apply (keep_post_step st al st' al); [intros n q R; unfold recorded; now rewrite F|apply stable_refl|].
      apply IH; auto. intros n q R. apply HI. unfold recorded in *. now rewrite <- F.
Qed.

(* the state in which the table of a product that was not recorded starts to be processed *)
Lemma fresh_product_start st al m p fd why :
  find_pv w m (p_version p) = Some p -> fd_version fd = p_version p ->
  find_setup_product w (s_env st) m = None ->
  nodollar_paths w (s_env st) -> insync (s_env st) al ->
  retains (s_env st) (s_env (set_product_vars cfg st m p)) /\
  insync (s_env (set_product_vars cfg st m p)) (aset m (fd, why) al) /\
  nodollar_paths w (s_env (set_product_vars cfg st m p)).
Proof.
  intros F V Hs Hnd HI.
  destruct (find_pv_spec w m _ p F) as [Hp _]. pose proof (known_has_name w m p Hp) as Km.
  split; [|split].
  - intros n q R. unfold recorded. destruct (str_eq_dec n m) as [->|N].
    + unfold recorded in R. rewrite Hs in R. discriminate.
    + rewrite (set_vars_other st m p n (recorded_known _ n q R) Km N). exact R.
  - intros n q R. destruct (str_eq_dec n m) as [->|N].
    + unfold recorded in R. rewrite (set_vars_self st m p F) in R. injection R as <-.
      exists fd, why. split; [apply alookup_aset_same|assumption].
    + assert (Kn : known w n) by exact (recorded_known _ n q R).
      unfold recorded in R. rewrite (set_vars_other st m p n Kn Km N) in R.
      destruct (HI n q R) as [fd0 [r [E0 V0]]]. exists fd0, r. split; [|assumption].
      now rewrite alookup_aset_other.
  - exact (proj1 (proj2 (set_product_vars_ok w cfg dl (wf_base w dl rank H) (eq m) m p st eq_refl Hnd))).
Qed.

Lemma same_product_self q : In q w -> same_product q (Some q) = true.
Proof.
  intro Hin. destruct (wf_words w dl rank H q Hin) as [_ [[Wv _] _]].
  unfold same_product. rewrite str_eqb_refl. destruct (p_version q); [contradiction|reflexivity].
Qed.

Lemma keep_step frec : keep_fn frec -> keep_fn (step_full frec).
Proof.
  intros HK st al rest m li d jst Hnd HI. unfold setup_full_step.
  set (rq := mkRequest m (li_version li) (li_expr li)).
  (* what the resolver returns is in line with the dictionary *)
  assert (HR : match resolve_request vcmp vmatch rc db (c_keep cfg) (alookup m al) flavors (S d) (EKeep :: rest) rq with
               | Ok (Some (fd, why)) => forall op ox, alookup m al = Some (op, ox) -> op = fd
               | _ => True
               end).
  { destruct (alookup m al) as [[op ox]|] eqn:E.
    - rewrite (resolve_keep op ox d rest rq). intros op' ox' X. now injection X as -> _.
    - destruct (resolve_request vcmp vmatch rc db (c_keep cfg) None flavors (S d) (EKeep :: rest) rq) as [[[fd why]|]|];
        auto. intros op ox X. discriminate. }
  destruct (resolve_request vcmp vmatch rc db (c_keep cfg) (alookup m al) flavors (S d) (EKeep :: rest) rq)
    as [[[fd why]|]|e]; try (cbn [keep_post]; apply stable_refl).
  cbn [Nat.eqb negb].
  destruct (find_pv w m (fd_version fd)) as [p|] eqn:F; [|exact I]. rewrite andb_true_r.
  destruct (find_pv_spec w m _ p F) as [Hp Hv].
  destruct (find_setup_product w (s_env st) m) as [q|] eqn:Hs.
  - (* recorded: decided at the recorded version, nothing is touched *)
    destruct (HI m q Hs) as [fd0 [r [E0 V0]]]. rewrite (HR fd0 r E0) in V0.
    pose proof (recorded_find_pv _ m q Hs) as Fq. rewrite <- V0, F in Fq. injection Fq as ->.
    rewrite (same_product_self q (proj1 Hp)). cbn [keep_post].
    split; [apply retains_refl|]. split; [assumption|]. split; [apply stable_refl|assumption].
  - cbn [same_product]. cbv iota beta. apply keep_post_trace.
    rewrite <- Hv in F.
    destruct (fresh_product_start st al m p fd why F (eq_sym Hv) Hs Hnd HI) as [R0 [I0 D0]].
    apply (keep_post_step st al (set_product_vars cfg st m p) (aset m (fd, why) al)); auto.
    + now apply stable_aset.
    + apply (run_keep frec m p (S d) jst rest HK Hp (p_actions p) (fun a Ha => Ha)); assumption.
Qed.

Lemma keep_full fuel : keep_fn (full fuel).
Proof.
  induction fuel as [|fuel IH].
  - intros st al rest m li d jst _ _. exact I.
  - cbn [setup_full]. now apply keep_step.
Qed.

(* ---------------------------------------------------------------- the top level *)

Lemma with_trace_done pre r ok st al tr :
  with_trace pre r = FDone ok st al tr -> exists tr', r = FDone ok st al tr'.
Proof. destruct r; cbn [with_trace]; try discriminate. intro E. injection E as <- <- <- _. eauto. Qed.

(* the loop over a table ends in success or raises *)
Lemma run_full_ok frec fwd depth just vro acts :
  forall infos st al ok st' al' tr,
    run_full frec fwd depth just vro acts infos st al = FDone ok st' al' tr -> ok = true.
Proof.
  induction acts as [|a acts IH]; intros infos st al ok st' al' tr; cbn [run_actions_full].
  - intro E. now injection E as <- _ _ _.
  - destruct a as [o m j|ap var v d|k v|k|k v|];
      try (destruct (exec_simple fwd _ st); [apply IH|discriminate]).
    destruct (cut_off cfg just (S depth)); [apply IH|].
    destruct (frec st al (child_vro vro) m (hd no_info infos) fwd (S depth) j) as [[|] st1 al1 tr1|st1 al1 tr1|tr1|tr1];
      try discriminate.
    + intro E. destruct (with_trace_done _ _ _ _ _ _ E) as [tr' E']. exact (IH _ _ _ _ _ _ _ E').
    + destruct (fwd && negb o); [discriminate|].
      intro E. destruct (with_trace_done _ _ _ _ _ _ E) as [tr' E']. exact (IH _ _ _ _ _ _ _ E').
    + destruct (fwd && negb o); [discriminate|].
      intro E. destruct (with_trace_done _ _ _ _ _ _ E) as [tr' E']. exact (IH _ _ _ _ _ _ _ E').
Qed.

(* unsetup of the requested product without its dependencies: only its own variables are touched *)
Lemma run_just frec name p depth vro :
  has_name w name p ->
  forall acts, (forall a, In a acts -> In a (p_actions p)) ->
  forall infos st al, nodollar_paths w (s_env st) ->
    match run_full frec false depth true vro acts infos st al with
    | FDone _ st' al' _ => al' = al /\ nodollar_paths w (s_env st') /\
                           forall n, find_setup_product w (s_env st') n = find_setup_product w (s_env st) n
    | _ => True
    end.
Proof.
  intro Hp. induction acts as [|a acts IH]; intros Hsub infos st al Hnd.
  - cbn [run_actions_full]. auto.
  - assert (Hsub' : forall a0, In a0 acts -> In a0 (p_actions p)) by (intros; apply Hsub; now right).
    assert (Ha : In a (p_actions p)) by (apply Hsub; now left).
    cbn [run_actions_full].
    assert (S0 : forall a, a = a -> (forall o m j, a <> ASetup o m j) -> In a (p_actions p) ->
                 match match exec_simple false a st with
                       | Ok st' => run_full frec false depth true vro acts (tl infos) st' al
                       | Err _ => FRaise st al []
                       end with
                 | FDone _ st' al' _ => al' = al /\ nodollar_paths w (s_env st') /\
                     forall n, find_setup_product w (s_env st') n = find_setup_product w (s_env st) n
                 | _ => True
                 end).
    { intros a0 _ Hns Ha0. destruct (exec_simple false a0 st) as [st1|] eqn:E; [|exact I].
      destruct (simple_records name p false a0 st st1 Hp Ha0 Hns Hnd E) as [F D].
      pose proof (IH Hsub' (tl infos) st1 al D) as R.
      destruct (run_full frec false depth true vro acts (tl infos) st1 al) as [ok st' al' tr|st' al' tr|tr|tr]; auto.
      destruct R as [A [D' F']]. split; [assumption|]. split; [assumption|].
      intro n. now rewrite F', F. }
    destruct a as [o m j|ap var v d|k v|k|k v|].
    + unfold cut_off. cbn [orb]. now apply IH.
    + apply (S0 _ eq_refl); [discriminate|assumption].
    + apply (S0 _ eq_refl); [discriminate|assumption].
    + apply (S0 _ eq_refl); [discriminate|assumption].
    + apply (S0 _ eq_refl); [discriminate|assumption].
    + apply (S0 _ eq_refl); [discriminate|assumption].
Qed.

Lemma rebuild_lookup names e n q :
  In n names -> find_setup_product w e n = Some q ->
  alookup n (rebuild_from w cfg names e) = Some (found_of cfg q, None).
Proof.
  intros Hin F. induction names as [|n0 names IH]; [contradiction|]. cbn [rebuild_from].
  destruct (str_eq_dec n0 n) as [->|N].
  - rewrite F. cbn [alookup]. now rewrite str_eqb_refl.
  - assert (Hin' : In n names) by (destruct Hin; [contradiction|assumption]).
    assert (X : str_eqb n n0 = false) by (apply str_eqb_neq; congruence).
    destruct (find_setup_product w e n0); [cbn [alookup]; rewrite X|]; now apply IH.
Qed.

Lemma rebuild_insync e : insync e (rebuild w cfg e).
Proof.
  intros n q R. exists (found_of cfg q), None. split; [|reflexivity].
  apply rebuild_lookup; [|exact R]. apply uniq_In. apply in_map_iff.
  destruct (find_setup_product_spec w e n q R) as [Hin Hn]. now exists q.
Qed.

Theorem keep_retains_lemma fuel st al0 rest name li just ok st' al' tr :
  nodollar_paths w (s_env st) ->
  full fuel st al0 (EKeep :: rest) name li true 0 just = FDone ok st' al' tr ->
  forall n q, n <> name -> recorded (s_env st) n q -> recorded (s_env st') n q.
Proof.
  intros Hnd E n q Hne R0.
  destruct fuel as [|fuel]; [discriminate|]. cbn [setup_full] in E. unfold setup_full_step in E.
  destruct (resolve_request vcmp vmatch rc db (c_keep cfg) (alookup name al0) flavors 0 (EKeep :: rest)
                            (mkRequest name (li_version li) (li_expr li))) as [[[fd why]|]|e];
    try (injection E as _ <- _ _; exact R0).
  cbn [Nat.eqb negb] in E.
  set (al1 := aset name (fd, why) (rebuild w cfg (s_env st))) in E.
  destruct (find_pv w name (fd_version fd)) as [p|] eqn:F; [|discriminate]. rewrite andb_false_r in E.
  destruct (find_pv_spec w name _ p F) as [Hp Hv]. pose proof (known_has_name w name p Hp) as Kname.
  pose proof (recorded_known _ n q R0) as Kn.
  (* the state after the replaced version (if any) has been unset *)
  assert (U : match (match find_setup_product w (s_env st) name with
                     | Some _ => full fuel st al1 (EKeep :: rest) name no_info false 0 (just || c_keep cfg)
                     | None => FDone true st al1 []
                     end) with
              | FDone _ st1 al2 _ => al2 = al1 /\ nodollar_paths w (s_env st1) /\
                                     find_setup_product w (s_env st1) name = None /\
                                     forall n0, n0 <> name -> known w n0 ->
                                       find_setup_product w (s_env st1) n0 = find_setup_product w (s_env st) n0
              | _ => True
              end).
  { destruct (find_setup_product w (s_env st) name) as [sp|] eqn:Hs; [|auto].
    rewrite Hkeep, orb_true_r. destruct fuel as [|fuel']; [exact I|]. cbn [setup_full]. unfold setup_full_step.
    rewrite Hs. pose proof (find_setup_product_spec w _ _ _ Hs) as Hsp.
    destruct (unset_product_vars_ok w dl (wf_base w dl rank H) (eq name) name st eq_refl Hnd) as [_ [D1 _]].
    pose proof (run_just (full fuel') name sp 0 (EKeep :: rest) Hsp (p_actions sp) (fun a Ha => Ha)
                  (lines_of fw sp) (unset_product_vars st name) al1 D1) as RJ.
    destruct (run_full (full fuel') false 0 true (EKeep :: rest) (p_actions sp) (lines_of fw sp)
                       (unset_product_vars st name) al1) as [ok1 st1 al2 tr1|st1 al2 tr1|tr1|tr1]; auto.
    destruct RJ as [A [D F1]]. split; [assumption|]. split; [assumption|]. split.
    - rewrite F1. apply find_none_when_unset. unfold unset_product_vars, unset_env. cbn [s_env].
      rewrite alookup_aremove_other by apply setup_extra_differ. apply alookup_aremove_same.
    - intros n0 N0 K0. rewrite F1. now apply unset_vars_other. }
  destruct (match find_setup_product w (s_env st) name with
            | Some _ => full fuel st al1 (EKeep :: rest) name no_info false 0 (just || c_keep cfg)
            | None => FDone true st al1 []
            end) as [ok1 st1 al2 tr0|st1 al2 tr0|tr0|tr0]; try discriminate.
  destruct U as [-> [D1 [N1 O1]]].
  assert (I1 : insync (s_env st1) al1).
  { intros n0 q0 R. destruct (str_eq_dec n0 name) as [->|N0].
    - unfold recorded in R. rewrite N1 in R. discriminate.
    - unfold recorded in R. rewrite (O1 n0 N0 (recorded_known _ n0 q0 R)) in R.
      destruct (rebuild_insync (s_env st) n0 q0 R) as [fd0 [r [E0 V0]]]. exists fd0, r.
      split; [|assumption]. unfold al1. now rewrite alookup_aset_other. }
  rewrite <- Hv in F.
  destruct (fresh_product_start st1 al1 name p fd why F (eq_sym Hv) N1 D1 I1) as [Ra [Ia Da]].
  pose proof (run_keep (full fuel) name p 0 just rest (keep_full fuel) Hp (p_actions p) (fun a Ha => Ha)
                (lines_of fw p) (set_product_vars cfg st1 name p) (aset name (fd, why) al1) Da Ia) as K.
  destruct (run_full (full fuel) true 0 just (EKeep :: rest) (p_actions p) (lines_of fw p)
                     (set_product_vars cfg st1 name p) (aset name (fd, why) al1))
    as [okr str alr trr|str alr trr|trr|trr] eqn:ER; cbn [with_trace] in E; try discriminate.
  injection E as <- <- _ _. rewrite (run_full_ok _ _ _ _ _ _ _ _ _ _ _ _ _ ER) in K. cbn [keep_post] in K.
  destruct K as [Rk _]. apply Rk. apply Ra. unfold recorded. rewrite (O1 n Hne Kn). exact R0.
Qed.

End Keep.
