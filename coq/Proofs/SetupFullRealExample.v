(* A world of the composed model (Model/SetupFull.v) whose version names need the comparator of C10
   (Model/ResolveReal.v); used by the Examples at the end of Props/C01.v, C02.v, C04.v.

     base 1.9, 1.10-rc1, 1.10, 1.10+1     the tables of ex_base (Proofs/SetupExample.v); current = 1.9
     libb 1.0.1                           setupRequired(base < 1.10); TEXINPUTS

   The line of libb designates base 1.10-rc1: 1.9 < 1.10-rc1 < 1.10 < 1.10+1 in the order of C10 (components are
   numbers, a pre-release precedes, a post-release follows).  The dotted-numeric comparator of Model/Resolve.v
   reads 1.10-rc1 as 1.101 and answers 1.9. *)
From Eupsv Require Import Base.Base Model.PathAlg Model.Setup Model.Resolve Model.ResolveSpec Model.SetupFull
     Proofs.SetupExample Proofs.SetupFullExample Generated.Config.

Definition rvx_libb : product :=
  {| p_name := lit "libb"; p_version := lit "1.0.1"; p_dir := lit "/s/libb/1.0.1";
     p_actions := [ASetup false (lit "base") false;
                   APath true (lit "TEXINPUTS") (lit "/s/libb/1.0.1/tex") c_semi;
                   ANone] |}.

Definition rvx_world : world :=
  [ ex_base "1.10"; ex_base "1.10+1"; ex_base "1.10-rc1"; ex_base "1.9"; rvx_libb ].

Definition rvx_fw : fworld :=
  {| fw_products := rvx_world;
     fw_lines := [ (lit "libb", lit "1.0.1", [ {| li_version := Some (lit "< 1.10"); li_expr := None |}; no_info; no_info ]) ];
     fw_tags := [ (lit "base", lit "current", lit "1.9"); (lit "libb", lit "current", lit "1.0.1") ] |}.

Definition rvx_order : list str := [lit "base"; lit "libb"].

(* the assignment that explains  setup libb  on rvx_fw *)
Definition rvx_D (n : str) : option str :=
  if str_eqb n (lit "libb") then Some (lit "1.0.1")
  else if str_eqb n (lit "base") then Some (lit "1.10-rc1") else None.

(* libb 1.0.1 and base 1.10-rc1 set up from the empty environment *)
Definition rvx_libb_state : state :=
  {| s_env := [ (lit "LIBB_DIR", lit "/s/libb/1.0.1");
                (lit "SETUP_LIBB", lit "libb 1.0.1 -f Linux64 -Z /s");
                (lit "BASE_DIR", lit "/s/base/1.10-rc1");
                (lit "SETUP_BASE", lit "base 1.10-rc1 -f Linux64 -Z /s");
                (lit "PATH", lit "/s/base/1.10-rc1/bin");
                (lit "TEXINPUTS", lit "/s/base/1.10-rc1/tex;/s/libb/1.0.1/tex");
                (lit "BASE_HOME", lit "/s/base/1.10-rc1") ];
     s_aliases := [ (lit "basever", lit "echo 1.10-rc1") ] |}.

(* Two spellings of one key:
     base 0.9, 1.0, 1_0                   listed in the order of the strings (as Database.findProducts does)
     libb 1.0.1                           setupRequired(base == 1.0)
   The line of libb resolves to base 1_0: 1.0 and 1_0 compare equal, the later listed one is taken.  fw_real_ok is false
   of this world; it is inside fw_conv and db_sorted, and 1_0 is what the designation rule names when it is read in the
   order vcmp_sorted (the order of C10, then the order of the strings). *)
Definition rvt_world : world := [ ex_base "0.9"; ex_base "1.0"; ex_base "1_0"; rvx_libb ].

Definition rvt_fw : fworld :=
  {| fw_products := rvt_world;
     fw_lines := [ (lit "libb", lit "1.0.1", [ {| li_version := Some (lit "== 1.0"); li_expr := None |}; no_info; no_info ]) ];
     fw_tags := [ (lit "base", lit "current", lit "0.9"); (lit "libb", lit "current", lit "1.0.1") ] |}.

Definition rvt_D (n : str) : option str :=
  if str_eqb n (lit "libb") then Some (lit "1.0.1")
  else if str_eqb n (lit "base") then Some (lit "1_0") else None.
