(* The resolver of Model/Resolve.v below the top level when the product was chosen before (an entry in
   alreadySetupProducts): the product it returns is the earlier choice or the product the walk without
   an entry returns - so when both carry the same version, so does the result.  Used by the closure
   theorem of C01 (Proofs/SetupFullClosure.v). *)
From Eupsv Require Import Base.Base Base.BaseLemmas Model.Resolve Model.ResolveSpec Proofs.ResolveLib Proofs.Resolve.
From Coq Require Import Lia.

Section Prev.
Variable vcmp : str -> str -> comparison.
Variable vmatch : str -> str -> bool.
Variable c : config.
Variable db : dbv.

Lemma vro_step_prev op r rq f depth e later :
  vro_step vcmp vmatch c db (Some (op, r)) rq f depth e later = vro_step vcmp vmatch c db None rq f depth e later \/
  exists r', vro_step vcmp vmatch c db (Some (op, r)) rq f depth e later = Stop (Some (op, r')).
Proof.
  destruct e; cbn [vro_step]; try (left; reflexivity).
  - destruct (0 <? depth); [right; eauto|left; reflexivity].
  - destruct r as [[[| | | | | |s|k|t] x]|]; try (left; reflexivity). right. eauto.
Qed.

Lemma vro_loop_prev op r rq f depth l :
  match vro_loop vcmp vmatch c db (Some (op, r)) rq f depth l with
  | Some (p', r', e') => p' = op \/ vro_loop vcmp vmatch c db None rq f depth l = Some (p', r', e')
  | None => vro_loop vcmp vmatch c db None rq f depth l = None
  end.
Proof.
  induction l as [|e later IH]; cbn [vro_loop]; [reflexivity|].
  destruct (vro_step_prev op r rq f depth e later) as [E|[r' E]]; rewrite E.
  - destruct (vro_step vcmp vmatch c db None rq f depth e later) as [|[[p0 r0]|]]; [exact IH|now right|reflexivity].
  - now left.
Qed.

Lemma find_from_vro_prev op r f depth vro rq :
  match find_from_vro vcmp vmatch c db (Some (op, r)) f depth vro rq with
  | Some (p', _) => p' = op \/ option_map fst (find_from_vro vcmp vmatch c db None f depth vro rq) = Some p'
  | None => find_from_vro vcmp vmatch c db None f depth vro rq = None
  end.
Proof.
  pose proof (vro_loop_prev op r rq f depth vro) as L. unfold find_from_vro.
  destruct (vro_loop vcmp vmatch c db (Some (op, r)) rq f depth vro) as [[[p' r'] e']|].
  - assert (X : p' = op \/ option_map fst match vro_loop vcmp vmatch c db None rq f depth vro with
                                         | Some (p, r0, _) => Some (p, r0) | None => None end = Some p').
    { destruct L as [L|L]; [now left|right]. now rewrite L. }
    destruct r as [[otag ox]|]; [|exact X].
    destruct (mem_entry otag vro && gt_index (index_of e' vro) (index_of otag vro)); [now left|exact X].
  - now rewrite L.
Qed.

(* below the top level the acceptance loop makes one round and never raises *)
Lemma accept_prev_deep keep op r f d vro rq k :
  exists x, accept_loop vcmp vmatch (S k) c db keep (Some (op, r)) f (S d) vro rq = Ok x /\
    match x with
    | Some (p', _) => p' = op \/ option_map fst (find_from_vro vcmp vmatch c db None f (S d) vro rq) = Some p'
    | None => find_from_vro vcmp vmatch c db None f (S d) vro rq = None
    end.
Proof.
  cbn [accept_loop]. destruct vro as [|e l]; [exists None; split; reflexivity|].
  pose proof (find_from_vro_prev op r f (S d) (e :: l) rq) as F.
  destruct (find_from_vro vcmp vmatch c db (Some (op, r)) f (S d) (e :: l) rq) as [[p' r']|].
  - exists (Some (p', Some r')). split; [|exact F]. destruct (truthy (rq_version rq)); reflexivity.
  - destruct (keep || opt_str_eqb (fd_version op) (rq_version rq)).
    + exists (Some (op, None)). split; [|now left]. destruct (truthy (rq_version rq)); reflexivity.
    + exists None. split; [reflexivity|exact F].
Qed.

Lemma designates_top_deep n vr f d vro :
  designates_top vcmp vmatch c db n vr f (S d) vro = designates_in vcmp vmatch c db n vr f vro.
Proof.
  induction vro as [|e l IH]; cbn [designates_top designates_in]; [reflexivity|].
  destruct (clause vcmp vmatch c db n vr f e l); [|reflexivity|exact IH].
  destruct vr; reflexivity.
Qed.

Lemma designates_deep flavors d vro rq :
  designates vcmp vmatch c db flavors (S d) vro rq = designates vcmp vmatch c db flavors 1 vro rq.
Proof.
  unfold designates. induction flavors as [|f fs IH]; cbn [first_some]; [reflexivity|].
  rewrite !designates_top_deep. now rewrite IH.
Qed.

(* the earlier choice and the designated product carry the same version: so does whatever is returned *)
Lemma resolve_prev_version keep op r flavors d vro rq pD :
  wf_db db = true -> total_order_on vcmp (names_of db (rq_name rq)) ->
  designates vcmp vmatch c db flavors (S d) vro rq = Some pD -> fd_version op = fd_version pD ->
  exists p' r', resolve_request vcmp vmatch c db keep (Some (op, r)) flavors (S d) vro rq = Ok (Some (p', r')) /\
                fd_version p' = fd_version pD.
Proof.
  intros WF HT. unfold resolve_request, designates.
  induction flavors as [|f fs IH]; cbn [flavor_loop first_some]; [discriminate|]. intros HD HV.
  rewrite designates_top_deep in HD.
  destruct (accept_prev_deep keep op r f d vro rq (length vro)) as [x [E X]]. rewrite E.
  pose proof (walk_designates vcmp vmatch c db rq f (S d) WF HT vro) as WD.
  destruct x as [[p' r']|].
  - exists p', r'. split; [reflexivity|]. destruct X as [->|X]; [assumption|].
    rewrite X in WD. rewrite <- WD in HD. now injection HD as ->.
  - rewrite X in WD. cbn [option_map] in WD. rewrite <- WD in HD. now apply IH.
Qed.

End Prev.
