(* C02, the inverse clause, on the composed model Model/SetupFull.v: under the hypotheses of the closure
   theorem of C01 and from a state in which nothing that the reachable products own is set (fresh_for),
   setup top  followed by  unsetup top  restores every variable and every alias.

   Pieces: Proofs/SetupFullClosure.v says exactly which products the setup records (the closure, at the
   assigned versions; every recorded product other than top is named by a line of the table of a recorded
   one) and that every alias a reachable table defines is accounted for by a recorded product;
   Proofs/SetupUnwind.v says the unsetup then leaves no reachable product recorded and no such alias;
   the frame theorem (Proofs/SetupFrame.v) and the invariant (Proofs/SetupInv.v) give the path variables;
   Proofs/SetupOwn.v gives the variables the reachable products own. *)
From Eupsv Require Import Base.Base Base.BaseLemmas Model.PathAlg Proofs.PathAlg Model.Setup Proofs.SetupFrame
     Proofs.SetupInv Model.Resolve Model.ResolveSpec Model.SetupFull Proofs.SetupFull Proofs.SetupFullKeep
     Proofs.SetupFullClosure Proofs.SetupOwn Proofs.SetupUnwind.
From Coq Require Import Lia.

(* nothing that a product reachable from top owns is set, and no alias such a product defines exists *)
Definition fresh_for (fw : fworld) (top : str) (st : state) : Prop :=
  (forall n k, reachN fw top n -> own_var (fw_products fw) n k -> alookup k (s_env st) = None) /\
  (forall n k, reachN fw top n -> own_alias (fw_products fw) n k -> alookup k (s_aliases st) = None).

Lemma find_pv_some (l : world) p : In p l -> exists q, find_pv l (p_name p) (p_version p) = Some q.
Proof.
  induction l as [|p0 l IH]; [intros []|]. intros [->|Hin]; cbn [find_pv].
  - rewrite !str_eqb_refl. now exists p.
  - destruct (str_eqb (p_name p0) (p_name p) && str_eqb (p_version p0) (p_version p)); [now exists p0|now apply IH].
Qed.

Lemma find_pv_complete w dl rank p : WF2 w dl rank -> In p w -> find_pv w (p_name p) (p_version p) = Some p.
Proof.
  intros H Hin. destruct (find_pv_some w p Hin) as [q E]. rewrite E. f_equal.
  destruct (find_pv_in w _ _ q E) as [Hq [Hn Hv]]. now apply (wf_keys w dl rank H).
Qed.

Section Inverse.
Variable vcmp : str -> str -> comparison.
Variable vmatch : str -> str -> bool.
Variable fw : fworld.
Variable cfg : Setup.config.
Variable rc : Resolve.config.
Variable flavors : list str.
Variable dl : str -> ascii.
Variable rank : str -> nat.
Variable vro : list entry.
Variable top : str.
Variable D : str -> option str.

Notation w := (fw_products fw).
Notation full := (setup_full vcmp vmatch fw cfg rc flavors).
Notation reachN := (reachN fw top).
Notation reach_ok := (reach_ok fw D).

Hypothesis H : WF2 w dl rank.
Hypothesis Hdepth : c_max_depth cfg = None.
Hypothesis Hwfdb : wf_db (db_of cfg fw) = true.
Hypothesis Hto : forall n, total_order_on vcmp (names_of (db_of cfg fw) n).
Hypothesis Hnokeep : mem_entry EKeep vro = false.

Lemma lines_ok_nojust acts : forall infos o x j,
  lines_ok vcmp vmatch fw cfg rc flavors vro D acts infos -> In (ASetup o x j) acts -> j = false.
Proof.
  induction acts as [|a acts IH]; intros infos o x j L Hin; [contradiction|].
  destruct L as [La L']. destruct Hin as [->|Hin]; [now destruct La|exact (IH _ o x j L' Hin)].
Qed.

Lemma reach_ok_reach m k : reach_ok m k -> reachN m -> reachN k.
Proof.
  induction 1 as [m|m v p o x j k Dm Fm Hin Sx Ro IH]; intro Rm; [assumption|].
  apply IH. unfold SetupFullClosure.reachN in *. apply (touches_none_trans w top m x Rm).
  apply (t_dep w None m x x I); [|constructor]. exists p, o, j. split; [|assumption].
  exact (proj1 (find_pv_spec w m v p Fm)).
Qed.

(* the last line of a path of the closure *)
Lemma reach_ok_last m k : reach_ok m k ->
  k = m \/ exists n v p o j, reach_ok m n /\ D n = Some v /\ find_pv w n v = Some p /\ In (ASetup o k j) (p_actions p).
Proof.
  induction 1 as [m|m v p o x j k Dm Fm Hin Sx Ro IH]; [now left|]. right.
  destruct IH as [->|[n [v' [p' [o' [j' [Rn [Dn [Fn Hin']]]]]]]]].
  - exists m, v, p, o, j. split; [constructor|]. auto.
  - exists n, v', p', o', j'. split; [|auto]. exact (ro_dep fw D m v p o x j n Dm Fm Hin Sx Rn).
Qed.

Theorem inverse_lemma fuel fuel2 st li st1 al1 tr1 al vro2 li2 ok2 st2 al2 tr2 :
  conflict_free vcmp vmatch fw cfg rc flavors vro top li D ->
  nodollar_paths w (s_env st) -> Inv w (s_env st) -> fresh_for fw top st ->
  full fuel st [] vro top li true 0 false = FDone true st1 al1 tr1 ->
  full fuel2 st1 al vro2 top li2 false 0 false = FDone ok2 st2 al2 tr2 ->
  (forall n, reachN n -> find_setup_product w (s_env st2) n = None) /\
  (forall var, path_var w var ->
     uniq (elems (dl var) (oldv var (s_env st2))) = uniq (elems (dl var) (oldv var (s_env st)))) /\
  (forall k, ~ path_var w k -> alookup k (s_env st2) = alookup k (s_env st)) /\
  (forall k, alookup k (s_aliases st2) = alookup k (s_aliases st)).
Proof.
  intros [C0 CL] Hnd HI [FV FA] E1 E2.
  assert (Hd : depth_ok cfg 0) by (unfold depth_ok; now rewrite Hdepth).
  assert (Lv : levels cfg 0 false = None) by (unfold levels; now rewrite Hdepth).
  assert (Rtop : reachN top) by constructor.
  assert (Hfresh : forall n, reachN n -> find_setup_product w (s_env st) n = None).
  { intros n Rn. apply find_none_when_unset. apply (FV n _ Rn). unfold own_var. tauto. }
  assert (AJ0 : AJ fw top (fun _ => True) st).
  { intros k v _ Ek [n [Rn On]]. rewrite (FA n k Rn On) in Ek. discriminate. }
  destruct (closure_lemma vcmp vmatch fw cfg rc flavors dl rank vro top D (fun _ => True) H Hdepth Hwfdb Hto Hnokeep CL
              fuel st li st1 al1 tr1 Hnd Hfresh C0 AJ0 E1) as [C1 [C2 [_ AJ1]]].
  (* the states are consistent *)
  destruct (setup_full_inv_lemma vcmp vmatch fw cfg rc flavors dl rank fuel st [] vro top li true 0 false true st1 al1 tr1
              H Hnd Hd HI E1) as [I1 D1].
  destruct (setup_full_inv_lemma vcmp vmatch fw cfg rc flavors dl rank fuel2 st1 al vro2 top li2 false 0 false ok2 st2 al2 tr2
              H D1 Hd I1 E2) as [I2 D2].
  (* top is known, hence every reachable name *)
  destruct (C1 top (ro_self fw D top)) as [vt [qt [Dt [Ft Rt]]]].
  assert (Ktop : known w top) by exact (known_has_name w top qt (proj1 (find_pv_spec w top vt qt Ft))).
  assert (Kreach : forall n, reachN n -> known w n) by (intros n Rn; exact (touches_known w None top n Ktop Rn)).
  (* what the setup left: no -j in the tables of the recorded products, every recorded product has a recorded parent *)
  assert (HNJ : NJ w top (s_env st1)).
  { intros n q o x j Rn Rq Hin. destruct (C2 n q Rn Rq) as [_ Dn].
    exact (lines_ok_nojust _ _ o x j (CL n _ q Rn Dn (recorded_find_pv fw _ n q Rq)) Hin). }
  assert (HPJ : PJ w top (eq top) (s_env st1)).
  { intros k q Rk Rq. destruct (C2 k q Rk Rq) as [Ro _].
    destruct (reach_ok_last top k Ro) as [->|[n [v [p [o [j [Rn [Dn [Fn Hin]]]]]]]]]; [now left|right].
    destruct (C1 n Rn) as [v' [q' [Dn' [Fn' Rq']]]]. rewrite Dn in Dn'. injection Dn' as <-.
    rewrite Fn in Fn'. injection Fn' as <-.
    exists n, p, o, j. split; [exact (reach_ok_reach top n Rn Rtop)|]. split; assumption. }
  (* the unsetup, as a run of Model/Setup.v *)
  pose proof (full_done_setup vcmp vmatch fw cfg rc flavors fuel st [] vro top li true 0 false true st1 al1 tr1 E1) as S1.
  pose proof (full_done_setup vcmp vmatch fw cfg rc flavors fuel2 st1 al vro2 top li2 false 0 false ok2 st2 al2 tr2 E2) as S2.
  destruct (unwind_clears w cfg dl rank top (fun _ => True) H Hdepth fuel2 st1 tr2 ok2 st2 [] D1 HNJ HPJ AJ1 S2)
    as [Hafter [Agone _]].
  (* frames and ownership relations of both runs, composed *)
  pose proof (setup_frame w cfg dl (wf_base w dl rank H) fuel st tr1 top true 0 false Hnd Hd) as G1.
  pose proof (setup_frame w cfg dl (wf_base w dl rank H) fuel2 st1 tr2 top false 0 false D1 Hd) as G2.
  rewrite S1 in G1. rewrite S2 in G2. rewrite Lv in G1, G2. destruct G1 as [F1 _]. destruct G2 as [F2 _].
  pose proof (env_frame_trans w dl _ _ _ _ F1 F2) as [_ FP].
  pose proof (setup_own w cfg dl rank H fuel st tr1 top true 0 false Hnd Hd) as O1.
  pose proof (setup_own w cfg dl rank H fuel2 st1 tr2 top false 0 false D1 Hd) as O2.
  rewrite S1 in O1. rewrite S2 in O2. rewrite Lv in O1, O2.
  destruct (st_rel_trans w cfg _ _ _ _ O1 O2) as [[OC OS OR] OA].
  (* nothing of a reachable product is in the start state or in the final state *)
  assert (Habs : forall e, Inv w e -> (forall n, reachN n -> find_setup_product w e n = None) ->
                 forall n q, reachN n -> has_name w n q -> absent q e).
  { intros e HIe Hnone n q Rn Hq. pose proof (HIe n) as C. unfold SetupInv.clause in C. rewrite (Hnone n Rn) in C. now apply C. }
  split; [exact Hafter|]. split; [|split].
  - (* path variables: mask = the elements present before or after; those of reachable products are in neither *)
    intros var Hv.
    set (l0 := elems (dl var) (oldv var (s_env st))). set (l2 := elems (dl var) (oldv var (s_env st2))).
    set (keep := fun v => mem_str v l0 || mem_str v l2).
    assert (K0 : filter keep l0 = l0).
    { apply forallb_filter_id. apply forallb_forall. intros x Hx. unfold keep.
      apply orb_true_iff. left. now apply mem_str_In. }
    assert (K2 : filter keep l2 = l2).
    { apply forallb_filter_id. apply forallb_forall. intros x Hx. unfold keep.
      apply orb_true_iff. right. now apply mem_str_In. }
    rewrite <- K2, <- K0. apply FP; [assumption|].
    intros n v Rn [q [ap [d [Hq Ha]]]]. unfold keep. apply orb_false_iff.
    destruct (wf_path (wf_base w dl rank H) q ap var v d (proj1 Hq) Ha) as [_ [_ ->]].
    split; apply mem_str_not_In.
    + exact (proj1 (Habs (s_env st) HI Hfresh n q Rn Hq) ap var v (dl var) Ha).
    + exact (proj1 (Habs (s_env st2) I2 Hafter n q Rn Hq) ap var v (dl var) Ha).
  - (* the other variables *)
    intros k Hk. destruct (OC k Hk) as [E|[n [Rn On]]]; [assumption|].
    rewrite (FV n k Rn On). pose proof (Kreach n Rn) as Kn.
    destruct (OR n Kn) as [RX RM].
    assert (NotWritten : forall p, has_name w n p ->
              alookup (setup_var n) (s_env st2) = Some (setup_string cfg n (p_version p)) -> False).
    { intros p Hp Es. pose proof (Hafter n Rn) as Nn. unfold find_setup_product in Nn. rewrite Es in Nn.
      destruct (wf_words w dl rank H p (proj1 Hp)) as [Wn [Wv Wf]]. rewrite (proj2 Hp) in Wn.
      rewrite (recorded_setup_string cfg n (p_version p) Wn Wv Wf) in Nn.
      pose proof (find_pv_complete w dl rank p H (proj1 Hp)) as Fp. rewrite (proj2 Hp) in Fp.
      rewrite Fp in Nn. discriminate. }
    destruct On as [->|[->|[->|[p [v [Hp Ha]]]]]].
    + destruct RM as [[S _]|[[S _]|[p [Hp [S _]]]]].
      * rewrite S. apply (FV n _ Rn). unfold own_var. tauto.
      * exact S.
      * exfalso. exact (NotWritten p Hp S).
    + destruct RM as [[_ Dv]|[[_ Dv]|[p [Hp [S _]]]]].
      * rewrite Dv. apply (FV n _ Rn). unfold own_var. tauto.
      * exact Dv.
      * exfalso. exact (NotWritten p Hp S).
    + destruct RX as [X|X]; [|exact X]. rewrite X. apply (FV n _ Rn). unfold own_var. tauto.
    + assert (Hs : set_var w k) by (exists p, v; split; [apply Hp|assumption]).
      destruct (OS k Hs) as [E|[E|[p' [v' [Hin' [Ha' E]]]]]].
      * rewrite E. apply (FV n k Rn). right. right. right. now exists p, v.
      * exact E.
      * exfalso.
        assert (Hp' : has_name w (p_name p') p') by (split; [assumption|reflexivity]).
        assert (Same : p_name p' = n).
        { destruct (str_eq_dec (p_name p') n) as [Eq|Ne]; [assumption|]. exfalso.
          apply (wf_var_apart w dl rank H (p_name p') n k (known_has_name w _ p' Hp') Kn Ne).
          - exact (own_set w _ p' k v' Hp' Ha').
          - exact (own_set w n p k v Hp Ha). }
        rewrite Same in Hp'.
        exact (proj2 (Habs (s_env st2) I2 Hafter n p' Rn Hp') k v' Ha' E).
  - (* the aliases *)
    intro k. destruct (OA k) as [E|[n [Rn On]]]; [assumption|].
    rewrite (FA n k Rn On). destruct (alookup k (s_aliases st2)) as [v|] eqn:Ek; [|reflexivity].
    exfalso. apply (Agone k v I Ek). now exists n.
Qed.

End Inverse.
