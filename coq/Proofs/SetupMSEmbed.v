(* The one-stack world of Model/Setup.v as a special case of the world with several stacks (Model/SetupMS.v embed):
   every declaration in the stack c_root cfg under the flavor flavor_of cfg, every decision naming that stack.
   Proved here: the value written in SETUP_NAME is the same, the look-up by decision is the same, and findSetupProduct
   agrees on every value Eups.setup of the one-stack model writes.  The equality of whole runs is checked by
   execution - on the example world below, and by the correspondence check on every generated one-stack scenario
   (harness/setupsim.py: one-stack-request-through-the-multi-stack-model); it is not proved in general: the one-stack
   model does not read the stack a SETUP_ value records, so the two differ on an environment whose record names
   another root, and the run equality needs the invariant that no such record arises. *)
From Eupsv Require Import Base.Base Base.BaseLemmas Model.PathAlg Proofs.PathAlg Model.Setup Model.SetupMS
     Proofs.SetupMSFrame Proofs.SetupMSInv Proofs.SetupExample.

Lemma embed_setup_string cfg p : ms_setup_string (embed_product cfg p) = setup_string cfg (p_name p) (p_version p).
Proof. reflexivity. Qed.

Lemma embed_find cfg w name v :
  find_pvr (embed cfg w) name (mkVref v (c_root cfg)) = option_map (embed_product cfg) (find_pv w name v).
Proof.
  induction w as [|p w IH]; [reflexivity|]. cbn [embed map find_pvr find_pv]. unfold mp_is.
  cbn [embed_product mp_name mp_version mp_root vr_version vr_root]. rewrite str_eqb_refl, andb_true_r.
  destruct (str_eqb (p_name p) name && str_eqb (p_version p) v); [reflexivity|exact IH].
Qed.

(* on the value the one-stack Eups.setup writes for a declared product, the two findSetupProduct agree *)
Lemma embed_find_setup_product cfg w e p :
  word (p_name p) -> word (p_version p) -> p_version p <> lit "-f" ->
  word (flavor_of cfg (p_name p) (p_version p)) -> root_ok (c_root cfg) ->
  alookup (setup_var (p_name p)) e = Some (setup_string cfg (p_name p) (p_version p)) ->
  find_pv w (p_name p) (p_version p) = Some p ->
  mfind_setup_product (embed cfg w) (c_flavor cfg) e (p_name p) =
  option_map (embed_product cfg) (find_setup_product w e (p_name p)).
Proof.
  intros Wn Wv Wf Wfl Wr E Hf. unfold mfind_setup_product, find_setup_product. rewrite E.
  rewrite <- (embed_setup_string cfg p).
  rewrite (recorded_setup_string (embed_product cfg p) Wn Wv Wf Wfl Wr).
  rewrite (embed_setup_string cfg p).
  assert (R : recorded_version (setup_string cfg (p_name p) (p_version p)) = Some (p_version p)).
  { unfold recorded_version, setup_string.
    replace (p_name p ++ [c_space] ++ p_version p ++ lit " -f " ++ flavor_of cfg (p_name p) (p_version p) ++ lit " -Z " ++ encode_path (c_root cfg))
      with (p_name p ++ c_space :: (p_version p ++ c_space :: (lit "-f " ++ flavor_of cfg (p_name p) (p_version p) ++ lit " -Z " ++ encode_path (c_root cfg)))).
    - rewrite (words_head (p_name p) _ Wn), (words_head (p_version p) _ Wv).
      destruct (str_eqb_spec (p_version p) (lit "-f")); [contradiction|reflexivity].
    - change (lit " -f ") with (c_space :: lit "-f "). reflexivity. }
  rewrite R. cbn [embed_product mp_version mp_root]. rewrite embed_find, Hf. cbn [option_map embed_product mp_flavor].
  now rewrite str_eqb_refl.
Qed.

(* the example world of Proofs/SetupExample.v (diamond with conflicting versions): the same run in both models *)
Example embed_example_run :
  msetup (embed ex_cfg ex_world) ex_cfg 20 ex_st0 (map (embed_decision ex_cfg) ex_ds) (lit "app") true 0 false =
  embed_result ex_cfg (setup ex_world ex_cfg 20 ex_st0 ex_ds (lit "app") true 0 false) /\
  msetup (embed ex_cfg ex_world) ex_cfg 20 ex_final [] (lit "app") false 0 false =
  embed_result ex_cfg (setup ex_world ex_cfg 20 ex_final [] (lit "app") false 0 false).
Proof. split; vm_compute; reflexivity. Qed.
