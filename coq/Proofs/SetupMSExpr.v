(* Several stacks: a look-up by relational expression (setupRequired(lib >= 1.1), setup lib ">= 1.1") in the composed
   model Model/SetupMSFull.v sees the declarations of EVERY stack the command selected - the database view mdb_of has
   one stack view per selected stack - and C03's expr_highest says that the product chosen is the highest satisfying
   declaration over all of them (C01: each product at the version the resolution order designates). *)
From Eupsv Require Import Base.Base Base.BaseLemmas Model.PathAlg Model.Setup Model.SetupMS Model.Resolve Model.ResolveSpec Model.SetupFull Model.SetupMSFull Proofs.Resolve.
From Eupsv Require Props.C03.

Lemma versions_of_In l n v f : In (n, v, f) l -> In v (versions_of l n f).
Proof.
  induction l as [|[[n' v'] f'] l IH]; intros H; [destruct H|].
  cbn [versions_of]. destruct H as [H|H].
  - injection H as -> -> ->. rewrite !str_eqb_refl. now left.
  - destruct (str_eqb n n' && str_eqb f f'); [right|]; now apply IH.
Qed.

Lemma ms_candidate fw q :
  In q (mfw_products fw) -> In (mp_root q) (mfw_path fw) ->
  exists c, In c (candidates (mdb_of fw) (mp_name q) (mp_flavor q)) /\ fd_version c = mp_version q.
Proof.
  intros Hq Hr. exists (found_in (stack_view fw (mp_root q)) (mp_name q) (mp_version q) (mp_flavor q)).
  split; [|reflexivity]. unfold candidates, mdb_of. apply in_flat_map.
  exists (stack_view fw (mp_root q)). split; [now apply in_map|].
  apply (in_map (fun v => found_in (stack_view fw (mp_root q)) (mp_name q) v (mp_flavor q))).
  unfold versions_in, stack_view. cbn [st_decl]. apply versions_of_In.
  change (mp_name q, mp_version q, mp_flavor q) with (mdecl_of q). apply in_map.
  apply filter_In. split; [assumption|apply str_eqb_refl].
Qed.

Lemma ms_expression_newest_lemma vcmp vmatch fw n x f p :
  total_order_on vcmp (names_of (mdb_of fw) n) ->
  select_latest vcmp (find_by_expr vmatch (mdb_of fw) n x f) = Some p ->
  vmatch (fd_version p) x = true /\
  forall q, In q (mfw_products fw) -> In (mp_root q) (mfw_path fw) -> mp_name q = n -> mp_flavor q = f ->
            vmatch (mp_version q) x = true -> vcmp (mp_version q) (fd_version p) <> Gt.
Proof.
  intros Ht Hs. destruct (Props.C03.expr_highest vcmp vmatch (mdb_of fw) n x f p Ht Hs) as [_ [Hm [Hh _]]].
  split; [exact Hm|]. intros q Hq Hr Hn Hf Hv.
  destruct (ms_candidate fw q Hq Hr) as [c [Hc Hcv]]. rewrite Hn, Hf in Hc.
  rewrite <- Hcv. apply Hh; [assumption|]. now rewrite Hcv.
Qed.
