(* Frame theorem for Model/SetupMS.v, the setup model with several stacks (C04, and the backbone of C01; the
   script of Proofs/SetupFrame.v on the declarations that carry their stack): a call of setup changes
   only what is owned by the product names it can reach within its depth budget. *)
From Eupsv Require Import Base.Base Base.BaseLemmas Model.PathAlg Proofs.PathAlg Model.Setup Model.SetupMS.
From Coq Require Import Lia.

Section Frame.
Variable w : mworld.
Variable cfg : config.
Variable dl : str -> ascii.            (* the delimiter each path variable is used with *)

(* ---------------------------------------------------------------- ownership *)

Definition has_name (n : str) (p : mproduct) : Prop := In p w /\ mp_name p = n.

Definition own_var (n k : str) : Prop :=
  k = setup_var n \/ k = dir_var n \/ k = extra_var n \/
  exists p v, has_name n p /\ In (ASet k v) (mp_actions p).
Definition own_alias (n a : str) : Prop := exists p v, has_name n p /\ In (AAlias a v) (mp_actions p).
Definition own_elem (n var v : str) : Prop := exists p ap d, has_name n p /\ In (APath ap var v d) (mp_actions p).
Definition path_var (var : str) : Prop := exists p ap v d, In p w /\ In (APath ap var v d) (mp_actions p).
Definition set_var (k : str) : Prop := exists p v, In p w /\ In (ASet k v) (mp_actions p).
Definition reserved (k : str) : Prop := exists n, k = setup_var n \/ k = dir_var n \/ k = extra_var n.

Record WF : Prop := {
  wf_path : forall p ap var v d, In p w -> In (APath ap var v d) (mp_actions p) ->
            wf_delim d = true /\ wf_elem d v = true /\ d = dl var;
  wf_set : forall p k v, In p w -> In (ASet k v) (mp_actions p) -> v <> [] /\ mem_ascii c_dollar v = false;
  wf_nounset : forall p k, In p w -> ~ In (AUnset k) (mp_actions p);
  wf_path_not_set : forall var, path_var var -> ~ set_var var;
  wf_path_not_reserved : forall var, path_var var -> ~ reserved var;
  wf_set_not_reserved : forall k, set_var k -> ~ reserved k
}.

(* ---------------------------------------------------------------- reachability with a depth budget *)

Definition dep_edge (n m : str) : Prop :=
  exists p opt j, has_name n p /\ In (ASetup opt m j) (mp_actions p).

(* budget: None = unbounded, Some k = k more levels of dependencies *)
Definition dec (b : option nat) : option nat :=
  match b with None => None | Some k => Some (pred k) end.
Definition positive (b : option nat) : Prop :=
  match b with None => True | Some k => 0 < k end.
Definition ble (a b : option nat) : Prop :=
  match a, b with
  | _, None => True
  | None, Some _ => False
  | Some x, Some y => x <= y
  end.

Inductive touches : option nat -> str -> str -> Prop :=
| t_self b n : touches b n n
| t_dep b n m k : positive b -> dep_edge n m -> touches (dec b) m k -> touches b n k.

Lemma ble_refl b : ble b b.
Proof. destruct b; simpl; auto. Qed.

Lemma ble_dec a b : ble a b -> ble (dec a) (dec b).
Proof. destruct a, b; simpl; auto; lia. Qed.

Lemma ble_positive a b : ble a b -> positive a -> positive b.
Proof. destruct a, b; simpl; intros; auto; try lia; try contradiction. Qed.

Lemma touches_mono a n k : touches a n k -> forall b, ble a b -> touches b n k.
Proof.
  induction 1 as [a n|a n m k Hp He Ht IH]; intros b Hb; [constructor|].
  apply (t_dep b n m k); [now apply (ble_positive a)|assumption|]. apply IH. now apply ble_dec.
Qed.

Lemma touches_step b n m k : positive b -> dep_edge n m -> touches (dec b) m k -> touches b n k.
Proof. intros. now apply (t_dep b n m k). Qed.

(* the budget of a call at a given depth *)
Definition levels (depth : nat) (just : bool) : option nat :=
  if just then Some 0 else
  match c_max_depth cfg with
  | None => None
  | Some m => Some (m - depth)
  end.

Definition depth_ok (depth : nat) : Prop :=
  match c_max_depth cfg with None => True | Some m => depth <= m end.

Lemma levels_just_le depth just k : ble (levels depth (just || k)) (levels depth just).
Proof.
  unfold levels. destruct just; cbn [orb]; [apply ble_refl|].
  destruct k; [|apply ble_refl]. destruct (c_max_depth cfg); simpl; auto. lia.
Qed.

Lemma cut_off_false_levels depth just jst :
  depth_ok depth -> cut_off cfg just (S depth) = false ->
  positive (levels depth just) /\ ble (levels (S depth) jst) (dec (levels depth just)) /\ depth_ok (S depth).
Proof.
  unfold cut_off, levels, depth_ok. intros Hd Hc. apply orb_false_iff in Hc. destruct Hc as [Hj Hm].
  subst just. destruct (c_max_depth cfg) as [m|]; simpl.
  - apply Nat.eqb_neq in Hm. assert (depth < m) by lia. repeat split; try lia.
    destruct jst; simpl; lia.
  - repeat split; auto. destruct jst; simpl; auto.
Qed.

(* ---------------------------------------------------------------- the frame relation *)

Definition nodollar_paths (e : amap str) : Prop :=
  forall var, path_var var -> no_dollar (oldv var e) = true.

(* what a set N of mproduct names may change between two environments *)
Record env_frame (N : str -> Prop) (e e' : amap str) : Prop := {
  ef_vars : forall k, ~ path_var k -> (forall n, N n -> ~ own_var n k) -> alookup k e' = alookup k e;
  ef_paths : forall var (keep : str -> bool), path_var var ->
             (forall n v, N n -> own_elem n var v -> keep v = false) ->
             uniq (filter keep (elems (dl var) (oldv var e'))) = uniq (filter keep (elems (dl var) (oldv var e)))
}.

Definition alias_frame (N : str -> Prop) (a a' : amap str) : Prop :=
  forall k, (forall n, N n -> ~ own_alias n k) -> alookup k a' = alookup k a.

Lemma env_frame_refl N e : env_frame N e e.
Proof. split; reflexivity. Qed.

Lemma env_frame_trans N e1 e2 e3 : env_frame N e1 e2 -> env_frame N e2 e3 -> env_frame N e1 e3.
Proof.
  intros [V1 P1] [V2 P2]. split.
  - intros k Hk Hn. rewrite V2, V1; auto.
  - intros var keep Hv Hn. rewrite (P2 var keep Hv Hn). now apply P1.
Qed.

Lemma env_frame_mono (N M : str -> Prop) e e' :
  (forall n, N n -> M n) -> env_frame N e e' -> env_frame M e e'.
Proof.
  intros H [V P]. split.
  - intros k Hk Hn. apply V; auto.
  - intros var keep Hv Hn. apply P; auto. intros n v Hin. apply Hn. auto.
Qed.

Lemma alias_frame_refl N a : alias_frame N a a.
Proof. intros k _. reflexivity. Qed.

Lemma alias_frame_trans N a1 a2 a3 : alias_frame N a1 a2 -> alias_frame N a2 a3 -> alias_frame N a1 a3.
Proof. intros H1 H2 k Hk. rewrite H2, H1; auto. Qed.

Lemma alias_frame_mono (N M : str -> Prop) a a' :
  (forall n, N n -> M n) -> alias_frame N a a' -> alias_frame M a a'.
Proof. intros H F k Hk. apply F. auto. Qed.

(* ---------------------------------------------------------------- single steps *)

Lemma oldv_other k var x e : k <> var -> oldv var (aset k x e) = oldv var e.
Proof. intro N. unfold oldv. rewrite alookup_aset_other; auto. Qed.

Lemma oldv_other_remove k var e : k <> var -> oldv var (aremove k e) = oldv var e.
Proof. intro N. unfold oldv. rewrite alookup_aremove_other; auto. Qed.

(* setting or unsetting a non-path variable owned by n *)
Lemma frame_set_owned (N : str -> Prop) n k x e :
  N n -> own_var n k -> ~ path_var k -> env_frame N e (aset k x e).
Proof.
  intros Hn Ho Hp. split.
  - intros k' Hk' Hno. apply alookup_aset_other. intros ->. now apply (Hno n).
  - intros var keep Hv _. rewrite oldv_other; [reflexivity|]. intros ->. contradiction.
Qed.

Lemma frame_unset_owned (N : str -> Prop) n k e :
  N n -> own_var n k -> ~ path_var k -> env_frame N e (aremove k e).
Proof.
  intros Hn Ho Hp. split.
  - intros k' Hk' Hno. apply alookup_aremove_other. intros ->. now apply (Hno n).
  - intros var keep Hv _. rewrite oldv_other_remove; [reflexivity|]. intros ->. contradiction.
Qed.

Lemma nodollar_set e k x : nodollar_paths e -> ~ path_var k -> nodollar_paths (aset k x e).
Proof. intros H Hk var Hv. rewrite oldv_other; [now apply H|]. intros ->. contradiction. Qed.

Lemma nodollar_unset e k : nodollar_paths e -> ~ path_var k -> nodollar_paths (aremove k e).
Proof. intros H Hk var Hv. rewrite oldv_other_remove; [now apply H|]. intros ->. contradiction. Qed.

Lemma reserved_not_path (H : WF) k : reserved k -> ~ path_var k.
Proof. intros Hr Hp. now apply (wf_path_not_reserved H k). Qed.

Lemma filter_absorb_remove (keep : str -> bool) v l :
  keep v = false -> filter keep l = filter keep (remove_str v l).
Proof. intro H. symmetry. now apply filter_remove_str_absorb. Qed.

(* a path action of a product of name n *)
Lemma frame_path_step (H : WF) (N : str -> Prop) n p ap fwd var v d e :
  N n -> has_name n p -> In (APath ap var v d) (mp_actions p) -> nodollar_paths e ->
  exists e', env_prepend ap fwd var v d e = Ok (Some e') /\ env_frame N e e' /\ nodollar_paths e'.
Proof.
  intros Hn [Hin Hnm] Ha Hnd.
  destruct (wf_path H p ap var v d Hin Ha) as [Hd [Hv Hdl]].
  assert (Hpv : path_var var) by (exists p, ap, v, d; auto).
  destruct (env_prepend_elems ap fwd var v d e Hd Hv (Hnd var Hpv)) as [e' [H1 [H2 [H3 H4]]]].
  exists e'. split; [assumption|]. split; [split|].
  - intros k Hk _. apply H4. intros ->. contradiction.
  - intros var' keep Hv' Hkeep. destruct (str_eq_dec var' var) as [->|Nv].
    + rewrite <- Hdl. rewrite H2.
      assert (Kv : keep v = false) by (apply (Hkeep n v Hn); exists p, ap, d; split; [split|]; auto).
      rewrite (filter_absorb_remove keep v (result_list ap fwd d v (oldv var e)) Kv).
      rewrite result_others. rewrite <- (filter_absorb_remove keep v _ Kv).
      rewrite <- uniq_filter. now rewrite uniq_idem.
    + unfold oldv. rewrite H4 by assumption. reflexivity.
  - intros var' Hv'. destruct (str_eq_dec var' var) as [->|Nv]; [assumption|].
    unfold oldv. rewrite H4 by assumption. now apply Hnd.
Qed.

(* an envSet action of a product of name n *)
Lemma frame_set_step (H : WF) (N : str -> Prop) n p fwd k v e :
  N n -> has_name n p -> In (ASet k v) (mp_actions p) -> nodollar_paths e ->
  exists e', env_set fwd k v e = Ok (Some e') /\ env_frame N e e' /\ nodollar_paths e'.
Proof.
  intros Hn [Hin Hnm] Ha Hnd.
  destruct (wf_set H p k v Hin Ha) as [Hne Hdol].
  assert (Hsv : set_var k) by (exists p, v; auto).
  assert (Hnp : ~ path_var k) by (intro Hp; now apply (wf_path_not_set H k Hp)).
  assert (Hown : own_var n k) by (right; right; right; exists p, v; split; [split|]; auto).
  destruct fwd.
  - exists (aset k v e). split.
    + rewrite (env_set_expanded k v v e (expand_nodollar e v Hdol) Hne).
      now rewrite (interp_nodollar e v Hdol).
    + split; [now apply (frame_set_owned N n)|now apply nodollar_set].
  - exists (aremove k e). split; [reflexivity|].
    split; [now apply (frame_unset_owned N n)|now apply nodollar_unset].
Qed.


(* ---------------------------------------------------------------- the induction over setup *)

Definition good (N : str -> Prop) (st : state) (r : mresult) : Prop :=
  match r with
  | MDone _ st' _ => env_frame N (s_env st) (s_env st') /\ nodollar_paths (s_env st') /\
                     alias_frame N (s_aliases st) (s_aliases st')
  | MRaise st' _ => alias_frame N (s_aliases st) (s_aliases st')
  | _ => True
  end.

Definition fn_ok (rec : msetup_fn) : Prop :=
  forall st ds name fwd depth just, nodollar_paths (s_env st) -> depth_ok depth ->
    good (touches (levels depth just) name) st (rec st ds name fwd depth just).

Lemma good_mono (N M : str -> Prop) st r : (forall n, N n -> M n) -> good N st r -> good M st r.
Proof.
  intros HNM. destruct r as [ok st' ds'|st' ds'| |]; simpl; auto.
  - intros [E [D A]]. split; [now apply (env_frame_mono N M)|split; [assumption|now apply (alias_frame_mono N M)]].
  - now apply (alias_frame_mono N M).
Qed.

Lemma good_trans N st st1 r :
  env_frame N (s_env st) (s_env st1) -> alias_frame N (s_aliases st) (s_aliases st1) ->
  good N st1 r -> good N st r.
Proof.
  intros E A. destruct r as [ok st' ds'|st' ds'| |]; simpl; auto.
  - intros [E' [D' A']]. split; [now apply (env_frame_trans N _ (s_env st1))|].
    split; [assumption|now apply (alias_frame_trans N _ (s_aliases st1))].
  - intro A'. now apply (alias_frame_trans N _ (s_aliases st1)).
Qed.

Lemma find_pvr_in (l : mworld) name v p :
  find_pvr l name v = Some p -> In p l /\ mp_name p = name /\ mp_version p = vr_version v /\ mp_root p = vr_root v.
Proof.
  induction l as [|q l IH]; simpl; [discriminate|].
  unfold mp_is at 1. destruct (str_eqb (mp_name q) name && str_eqb (mp_version q) (vr_version v) && str_eqb (mp_root q) (vr_root v)) eqn:E.
  - intro Hq. injection Hq as <-. apply andb_true_iff in E. destruct E as [E E3]. apply andb_true_iff in E. destruct E as [E1 E2].
    apply str_eqb_eq in E1. apply str_eqb_eq in E2. apply str_eqb_eq in E3. split; [now left|repeat split; assumption].
  - intro Hq. destruct (IH Hq) as [Hin Hr]. split; [now right|assumption].
Qed.

Lemma find_pvr_spec name v p :
  find_pvr w name v = Some p -> has_name name p /\ mp_version p = vr_version v /\ mp_root p = vr_root v.
Proof. intro Hq. destruct (find_pvr_in w name v p Hq) as [Hin [Hn Hv]]. split; [split|]; assumption. Qed.

Lemma mfind_setup_product_spec e name p : mfind_setup_product w (c_flavor cfg) e name = Some p -> has_name name p.
Proof.
  unfold mfind_setup_product. destruct (alookup (setup_var name) e); [|discriminate].
  destruct (recorded_fields s) as [[[v f] [root|]]|]; try discriminate.
  destruct (find_pvr w name (mkVref v root)) as [q|] eqn:Hq; [|discriminate].
  destruct (str_eqb (mp_flavor q) _); [|discriminate]. intro E. injection E as <-.
  now destruct (find_pvr_spec _ _ _ Hq).
Qed.

Lemma exec_simple_ok (H : WF) (N : str -> Prop) n p fwd a st :
  N n -> has_name n p -> In a (mp_actions p) -> (forall o m j, a <> ASetup o m j) ->
  nodollar_paths (s_env st) ->
  exists st', exec_simple fwd a st = Ok st' /\ env_frame N (s_env st) (s_env st') /\
              nodollar_paths (s_env st') /\ alias_frame N (s_aliases st) (s_aliases st').
Proof.
  intros Hn Hp Ha Hns Hnd. destruct a as [o m j|ap var v d|k v|k|k v|]; cbn [exec_simple].
  - exfalso. now apply (Hns o m j).
  - destruct (frame_path_step H N n p ap fwd var v d (s_env st) Hn Hp Ha Hnd) as [e' [H1 [H2 H3]]].
    rewrite H1. eexists. split; [reflexivity|]. cbn [with_env s_env s_aliases].
    split; [assumption|split; [assumption|apply alias_frame_refl]].
  - destruct (frame_set_step H N n p fwd k v (s_env st) Hn Hp Ha Hnd) as [e' [H1 [H2 H3]]].
    rewrite H1. eexists. split; [reflexivity|]. cbn [with_env s_env s_aliases].
    split; [assumption|split; [assumption|apply alias_frame_refl]].
  - exfalso. destruct Hp as [Hin _]. now apply (wf_nounset H p k Hin).
  - eexists. split; [reflexivity|]. cbn [s_env s_aliases]. split; [apply env_frame_refl|split; [assumption|]].
    intros a Hno. assert (a <> k).
    { intros ->. apply (Hno n Hn). exists p, v. split; assumption. }
    destruct fwd; [now apply alookup_aset_other|now apply alookup_aremove_other].
  - eexists. split; [reflexivity|]. split; [apply env_frame_refl|split; [assumption|apply alias_frame_refl]].
Qed.

Lemma run_actions_ok (H : WF) (rec : msetup_fn) name p fwd depth just :
  fn_ok rec -> has_name name p -> depth_ok depth ->
  forall acts, (forall a, In a acts -> In a (mp_actions p)) ->
  forall st ds, nodollar_paths (s_env st) ->
    good (touches (levels depth just) name) st (mrun_actions cfg rec fwd depth just acts st ds).
Proof.
  intros Hrec Hp Hdepth. set (N := touches (levels depth just) name).
  assert (HNself : N name) by constructor.
  induction acts as [|a acts IH]; intros Hsub st ds Hnd.
  - cbn [mrun_actions good]. split; [apply env_frame_refl|split; [assumption|apply alias_frame_refl]].
  - assert (Hsub' : forall a0, In a0 acts -> In a0 (mp_actions p)) by (intros; apply Hsub; now right).
    assert (Ha : In a (mp_actions p)) by (apply Hsub; now left).
    cbn [mrun_actions].
    destruct a as [o m j|ap var v d|k v|k|k v|].
    + (* a dependency *)
      destruct (cut_off cfg just (S depth)) eqn:Hc; [now apply IH|].
      destruct (cut_off_false_levels depth just j Hdepth Hc) as [Hpos [Hble Hd']].
      assert (Hsubset : forall k, touches (levels (S depth) j) m k -> N k).
      { intros k Hk. apply (touches_step (levels depth just) name m k Hpos).
        - exists p, o, j. split; assumption.
        - now apply (touches_mono (levels (S depth) j)). }
      pose proof (Hrec st ds m fwd (S depth) j Hnd Hd') as Hchild.
      apply (good_mono _ N st _ Hsubset) in Hchild.
      destruct (rec st ds m fwd (S depth) j) as [ok st' ds'|st' ds'| |]; cbn [good] in Hchild; auto.
      * destruct Hchild as [E [D A]]. destruct ok.
        -- apply (good_trans N st st'); auto.
        -- destruct (fwd && negb o); [cbn [good]; apply alias_frame_refl|]. now apply IH.
      * destruct (fwd && negb o); [cbn [good]; apply alias_frame_refl|]. now apply IH.
    + destruct (exec_simple_ok H N name p fwd (APath ap var v d) st HNself Hp Ha) as [st' [E1 [E2 [E3 E4]]]];
        [discriminate|assumption|]. rewrite E1. apply (good_trans N st st'); auto.
    + destruct (exec_simple_ok H N name p fwd (ASet k v) st HNself Hp Ha) as [st' [E1 [E2 [E3 E4]]]];
        [discriminate|assumption|]. rewrite E1. apply (good_trans N st st'); auto.
    + destruct (exec_simple_ok H N name p fwd (AUnset k) st HNself Hp Ha) as [st' [E1 [E2 [E3 E4]]]];
        [discriminate|assumption|]. rewrite E1. apply (good_trans N st st'); auto.
    + destruct (exec_simple_ok H N name p fwd (AAlias k v) st HNself Hp Ha) as [st' [E1 [E2 [E3 E4]]]];
        [discriminate|assumption|]. rewrite E1. apply (good_trans N st st'); auto.
    + destruct (exec_simple_ok H N name p fwd ANone st HNself Hp Ha) as [st' [E1 [E2 [E3 E4]]]];
        [discriminate|assumption|]. rewrite E1. apply (good_trans N st st'); auto.
Qed.

Lemma own_reserved name : own_var name (setup_var name) /\ own_var name (dir_var name) /\ own_var name (extra_var name).
Proof. unfold own_var. tauto. Qed.

Lemma reserved_vars name : reserved (setup_var name) /\ reserved (dir_var name) /\ reserved (extra_var name).
Proof. unfold reserved. repeat split; exists name; tauto. Qed.

Lemma set_product_vars_ok (H : WF) (N : str -> Prop) name p st :
  N name -> nodollar_paths (s_env st) ->
  env_frame N (s_env st) (s_env (mset_product_vars st name p)) /\
  nodollar_paths (s_env (mset_product_vars st name p)) /\
  s_aliases (mset_product_vars st name p) = s_aliases st.
Proof.
  intros Hn Hnd. destruct (own_reserved name) as [O1 [O2 _]]. destruct (reserved_vars name) as [R1 [R2 _]].
  unfold set_product_vars, set_env. cbn [s_env s_aliases]. split; [|split; [|reflexivity]].
  - apply (env_frame_trans N _ (aset (dir_var name) (mp_dir p) (s_env st))).
    + apply (frame_set_owned N name); auto. now apply (reserved_not_path H).
    + apply (frame_set_owned N name); auto. now apply (reserved_not_path H).
  - apply nodollar_set; [apply nodollar_set; auto|]; now apply (reserved_not_path H).
Qed.

Lemma unset_product_vars_ok (H : WF) (N : str -> Prop) name st :
  N name -> nodollar_paths (s_env st) ->
  env_frame N (s_env st) (s_env (unset_product_vars st name)) /\
  nodollar_paths (s_env (unset_product_vars st name)) /\
  s_aliases (unset_product_vars st name) = s_aliases st.
Proof.
  intros Hn Hnd. destruct (own_reserved name) as [O1 [O2 O3]]. destruct (reserved_vars name) as [R1 [R2 R3]].
  unfold unset_product_vars, unset_env. cbn [s_env s_aliases]. split; [|split; [|reflexivity]].
  - apply (env_frame_trans N _ (aremove (setup_var name) (aremove (dir_var name) (s_env st)))).
    + apply (env_frame_trans N _ (aremove (dir_var name) (s_env st))).
      * apply (frame_unset_owned N name); auto. now apply (reserved_not_path H).
      * apply (frame_unset_owned N name); auto. now apply (reserved_not_path H).
    + apply (frame_unset_owned N name); auto. now apply (reserved_not_path H).
  - repeat apply nodollar_unset; auto; now apply (reserved_not_path H).
Qed.

Lemma setup_step_ok (H : WF) (rec : msetup_fn) : fn_ok rec -> fn_ok (msetup_step w cfg rec).
Proof.
  intros Hrec st ds name fwd depth just Hnd Hdepth. set (N := touches (levels depth just) name).
  assert (HNself : N name) by constructor.
  unfold msetup_step. destruct fwd.
  - destruct ds as [|[v|] ds1]; cbn [good]; auto.
    + destruct (find_pvr w name v) as [p|] eqn:Hf; cbn [good]; auto.
      destruct (find_pvr_spec name v p Hf) as [Hp _].
      destruct (msame_product p (mfind_setup_product w (c_flavor cfg) (s_env st) name) && negb (depth =? 0)).
      * cbn [good]. split; [apply env_frame_refl|split; [assumption|apply alias_frame_refl]].
      * assert (H0 : good N st (match mfind_setup_product w (c_flavor cfg) (s_env st) name with
                                | Some _ => rec st ds1 name false depth (just || c_keep cfg)
                                | None => MDone true st ds1 end)).
        { destruct (mfind_setup_product w (c_flavor cfg) (s_env st) name).
          - apply (good_mono (touches (levels depth (just || c_keep cfg)) name) N).
            + intros n Hn. apply (touches_mono _ _ _ Hn). apply levels_just_le.
            + now apply Hrec.
          - cbn [good]. split; [apply env_frame_refl|split; [assumption|apply alias_frame_refl]]. }
        destruct (match mfind_setup_product w (c_flavor cfg) (s_env st) name with
                  | Some _ => rec st ds1 name false depth (just || c_keep cfg)
                  | None => MDone true st ds1 end) as [ok st1 ds2|st1 ds2| |]; cbn [good] in H0; auto.
        destruct H0 as [E [D A]].
        destruct (set_product_vars_ok H N name p st1 HNself D) as [E2 [D2 A2]].
        apply (good_trans N st (mset_product_vars st1 name p)).
        -- now apply (env_frame_trans N _ (s_env st1)).
        -- now rewrite A2.
        -- apply (run_actions_ok H rec name p true depth just Hrec Hp Hdepth); auto.
    + cbn [good]. split; [apply env_frame_refl|split; [assumption|apply alias_frame_refl]].
  - destruct (mfind_setup_product w (c_flavor cfg) (s_env st) name) as [sp|] eqn:Hs.
    + pose proof (mfind_setup_product_spec _ _ _ Hs) as Hp.
      destruct (unset_product_vars_ok H N name st HNself Hnd) as [E2 [D2 A2]].
      apply (good_trans N st (unset_product_vars st name)); auto.
      * rewrite A2. apply alias_frame_refl.
      * apply (run_actions_ok H rec name sp false depth just Hrec Hp Hdepth); auto.
    + cbn [good]. split; [apply env_frame_refl|split; [assumption|apply alias_frame_refl]].
Qed.

Theorem setup_frame (H : WF) fuel : fn_ok (msetup w cfg fuel).
Proof.
  induction fuel as [|fuel IH].
  - intros st ds name fwd depth just _ _. exact I.
  - cbn [msetup]. now apply setup_step_ok.
Qed.

End Frame.
