(* Several stacks (the script of Proofs/SetupFull.v on Model/SetupMSFull.v): the composed model (setup + resolver)
   is Model/SetupMS.v run on the decisions it takes;
   consequences for the frame theorem and the invariant; --keep; explicit versions. *)
From Eupsv Require Import Base.Base Base.BaseLemmas Model.PathAlg Proofs.PathAlg Model.Setup Model.SetupMS Proofs.SetupMSFrame
     Proofs.SetupMSInv Model.Resolve Model.ResolveSpec Proofs.ResolveLib Proofs.Resolve Model.SetupFull Model.SetupMSFull.
From Coq Require Import Lia.

Lemma trace_with_trace pre r : mtrace_of (mwith_trace pre r) = pre ++ mtrace_of r.
Proof. destruct r; reflexivity. Qed.

Lemma erase_with_trace rest pre r : merase rest (mwith_trace pre r) = merase rest r.
Proof. destruct r; reflexivity. Qed.

Section Agree.
Variable vcmp : str -> str -> comparison.
Variable vmatch : str -> str -> bool.
Variable fw : mfworld.
Variable cfg : Setup.config.
Variable rc : Resolve.config.
Variable flavors : list str.

Notation w := (mfw_products fw).
Notation run_full := (mrun_actions_full cfg).
Notation step_full := (msetup_full_step vcmp vmatch fw cfg rc flavors).

(* [frec] run without decisions does what [rec] does on the decisions [frec] takes, whatever follows them *)
Definition agrees (frec : mfull_fn) (rec : msetup_fn) : Prop :=
  forall st al vro name li fwd depth just rest,
    rec st (mtrace_of (frec st al vro name li fwd depth just) ++ rest) name fwd depth just =
    merase rest (frec st al vro name li fwd depth just).

Lemma run_actions_agree frec rec fwd depth just vro :
  agrees frec rec ->
  forall acts infos st al rest,
    mrun_actions cfg rec fwd depth just acts st
                (mtrace_of (run_full frec fwd depth just vro acts infos st al) ++ rest) =
    merase rest (run_full frec fwd depth just vro acts infos st al).
Proof.
  intro HA. induction acts as [|a acts IH]; intros infos st al rest; [reflexivity|].
  cbn [mrun_actions mrun_actions_full].
  destruct a as [o m j|ap var v d|k v|k|k v|];
    try (cbn [exec_simple]; match goal with |- context [match ?X with Ok _ => _ | Err _ => _ end] => destruct X end;
         [apply IH|reflexivity]).
  - destruct (cut_off cfg just (S depth)); [apply IH|].
    pose proof (HA st al (child_vro vro) m (hd no_info infos) fwd (S depth) j) as HC.
    destruct (frec st al (child_vro vro) m (hd no_info infos) fwd (S depth) j) as [ok st' al' tr|st' al' tr|tr|tr];
      cbn [mtrace_of merase] in HC.
    + destruct ok.
      * rewrite trace_with_trace, erase_with_trace, <- app_assoc, HC. apply IH.
      * destruct (fwd && negb o).
        -- cbn [mtrace_of merase]. now rewrite HC.
        -- rewrite trace_with_trace, erase_with_trace, <- app_assoc, HC. apply IH.
    + destruct (fwd && negb o).
      * cbn [mtrace_of merase]. now rewrite HC.
      * rewrite trace_with_trace, erase_with_trace, <- app_assoc, HC. apply IH.
    + cbn [mtrace_of merase]. now rewrite HC.
    + cbn [mtrace_of merase]. now rewrite HC.
  - cbn [exec_simple]. apply IH.
  - cbn [exec_simple]. apply IH.
Qed.

Lemma setup_step_agree frec rec : agrees frec rec -> agrees (step_full frec) (msetup_step w cfg rec).
Proof.
  intros HA st al vro name li fwd depth just rest. unfold msetup_full_step, msetup_step. destruct fwd.
  - destruct (resolve_request vcmp vmatch rc (mdb_of fw) (c_keep cfg) (alookup name al) flavors depth vro
                              (mkRequest name (li_version li) (li_expr li))) as [[[fd why]|]|e]; try reflexivity.
    set (al1 := if depth =? 0 then aset name (fd, why) (mrebuild w (c_flavor cfg) (s_env st)) else al).
    destruct (find_pvr w name (vref_of fd)) as [p|] eqn:Hf.
    2:{ cbn [mtrace_of app merase]. now rewrite Hf. }
    destruct (msame_product p (mfind_setup_product w (c_flavor cfg) (s_env st) name) && negb (depth =? 0)) eqn:Hs.
    { cbn [mtrace_of app merase]. now rewrite Hf, Hs. }
    destruct (mfind_setup_product w (c_flavor cfg) (s_env st) name) as [sp|] eqn:Hsp.
    + pose proof (HA st al1 vro name no_info false depth (just || c_keep cfg)) as H0.
      destruct (frec st al1 vro name no_info false depth (just || c_keep cfg)) as [ok st1 al2 tr0|st1 al2 tr0|tr0|tr0];
        cbn [mtrace_of merase] in H0.
      * rewrite trace_with_trace, erase_with_trace. cbn [app]. rewrite Hf, Hs. rewrite <- app_assoc, H0.
        apply run_actions_agree. exact HA.
      * cbn [mwith_trace mtrace_of app merase]. now rewrite Hf, Hs, H0.
      * cbn [mwith_trace mtrace_of app merase]. now rewrite Hf, Hs, H0.
      * cbn [mwith_trace mtrace_of app merase]. now rewrite Hf, Hs, H0.
    + rewrite trace_with_trace, erase_with_trace. cbn [app]. rewrite Hf, Hs.
      apply run_actions_agree. exact HA.
  - destruct (mfind_setup_product w (c_flavor cfg) (s_env st) name) as [sp|]; [|reflexivity].
    apply run_actions_agree. exact HA.
Qed.

Theorem setup_full_agrees fuel : agrees (msetup_full vcmp vmatch fw cfg rc flavors fuel) (msetup w cfg fuel).
Proof.
  induction fuel as [|fuel IH].
  - intros st al vro name li fwd depth just rest. reflexivity.
  - cbn [msetup_full setup]. now apply setup_step_agree.
Qed.

End Agree.

(* ---------------------------------------------------------------- consequences *)

Section Consequences.
Variable vcmp : str -> str -> comparison.
Variable vmatch : str -> str -> bool.
Variable fw : mfworld.
Variable cfg : Setup.config.
Variable rc : Resolve.config.
Variable flavors : list str.

Notation w := (mfw_products fw).
Notation full := (msetup_full vcmp vmatch fw cfg rc flavors).
Notation step_full := (msetup_full_step vcmp vmatch fw cfg rc flavors).

(* every run of the composed model is the run of Model/Setup.v on the decisions it took *)
Theorem setup_full_is_setup_lemma fuel st al vro name li fwd depth just :
  msetup w cfg fuel st (mtrace_of (full fuel st al vro name li fwd depth just)) name fwd depth just =
  merase [] (full fuel st al vro name li fwd depth just).
Proof.
  pose proof (setup_full_agrees vcmp vmatch fw cfg rc flavors fuel st al vro name li fwd depth just []) as H.
  now rewrite app_nil_r in H.
Qed.

Lemma full_done_setup fuel st al vro name li fwd depth just ok st' al' tr :
  full fuel st al vro name li fwd depth just = MFDone ok st' al' tr ->
  msetup w cfg fuel st tr name fwd depth just = MDone ok st' [].
Proof.
  intro E. pose proof (setup_full_is_setup_lemma fuel st al vro name li fwd depth just) as H.
  now rewrite E in H.
Qed.

(* the frame theorem for the composed model *)
Lemma setup_full_frame_lemma dl fuel st al vro name li fwd depth just :
  WF w dl -> nodollar_paths w (s_env st) -> depth_ok cfg depth ->
  good w dl (touches w (levels cfg depth just) name) st (merase [] (full fuel st al vro name li fwd depth just)).
Proof.
  intros H Hnd Hd. rewrite <- setup_full_is_setup_lemma. now apply (setup_frame w cfg dl H fuel).
Qed.

(* the invariant for the composed model *)
Lemma setup_full_inv_lemma dl rank fuel st al vro name li fwd depth just ok st' al' tr :
  WF2 w dl rank -> nodollar_paths w (s_env st) -> depth_ok cfg depth -> Inv w cfg (s_env st) ->
  full fuel st al vro name li fwd depth just = MFDone ok st' al' tr ->
  Inv w cfg (s_env st') /\ nodollar_paths w (s_env st').
Proof.
  intros H Hnd Hd HI E.
  exact (setup_preserves_Inv w cfg dl rank H fuel st tr name fwd depth just ok st' [] Hnd Hd HI
           (full_done_setup _ _ _ _ _ _ _ _ _ _ _ _ _ E)).
Qed.

(* the first mdecision of a forward call is the version the resolver returned *)
Lemma step_trace_head frec st al vro name li depth just fd why :
  resolve_request vcmp vmatch rc (mdb_of fw) (c_keep cfg) (alookup name al) flavors depth vro
                  (mkRequest name (li_version li) (li_expr li)) = Ok (Some (fd, why)) ->
  exists tr, mtrace_of (step_full frec st al vro name li true depth just) = Some (vref_of fd) :: tr.
Proof.
  intro E. unfold msetup_full_step. rewrite E.
  destruct (find_pvr w name (vref_of fd)) as [p|]; [|now exists []].
  destruct (msame_product p (mfind_setup_product w (c_flavor cfg) (s_env st) name) && negb (depth =? 0)); [now exists []|].
  destruct (mfind_setup_product w (c_flavor cfg) (s_env st) name).
  - match goal with |- context [match ?X with MFDone _ _ _ _ => _ | _ => _ end] => destruct X end;
      rewrite trace_with_trace; cbn [app]; eauto.
  - rewrite trace_with_trace; cbn [app]; eauto.
Qed.

Lemma step_success_resolved frec st al vro name li depth just st' al' tr :
  step_full frec st al vro name li true depth just = MFDone true st' al' tr ->
  exists fd why,
    resolve_request vcmp vmatch rc (mdb_of fw) (c_keep cfg) (alookup name al) flavors depth vro
                    (mkRequest name (li_version li) (li_expr li)) = Ok (Some (fd, why)).
Proof.
  unfold msetup_full_step.
  destruct (resolve_request vcmp vmatch rc (mdb_of fw) (c_keep cfg) (alookup name al) flavors depth vro
                            (mkRequest name (li_version li) (li_expr li))) as [[[fd why]|]|e]; try discriminate.
  intros _. now exists fd, why.
Qed.

(* C01: a top-level request that names an explicit version sets that version up or fails; and
   setup_records_the_stack_found: what SETUP_NAME records afterwards is the product the resolver returned -
   its version and ITS STACK *)
Lemma top_level_records_decision dl rank fuel st al vro name li just st' al' tr :
  WF2 w dl rank -> nodollar_paths w (s_env st) -> Inv w cfg (s_env st) ->
  full fuel st al vro name li true 0 just = MFDone true st' al' tr ->
  exists fd why p,
    resolve_request vcmp vmatch rc (mdb_of fw) (c_keep cfg) (alookup name al) flavors 0 vro
                    (mkRequest name (li_version li) (li_expr li)) = Ok (Some (fd, why)) /\
    find_pvr w name (vref_of fd) = Some p /\ mp_version p = fd_version fd /\ mp_root p = fd_stack fd /\
    mfind_setup_product w (c_flavor cfg) (s_env st') name = Some p /\
    alookup (setup_var name) (s_env st') = Some (ms_setup_string p).
Proof.
  intros H Hnd HI E.
  destruct fuel as [|fuel]; [discriminate|]. cbn [msetup_full] in E.
  destruct (step_success_resolved _ _ _ _ _ _ _ _ _ _ _ E) as [fd [why R]].
  destruct (step_trace_head (full fuel) st al vro name _ 0 just fd why R) as [tr0 T].
  rewrite E in T. cbn [mtrace_of] in T. subst tr.
  pose proof (full_done_setup (S fuel) st al vro name _ true 0 just true st' al' _ E) as S0.
  assert (Hd : depth_ok cfg 0) by (unfold depth_ok; destruct (c_max_depth cfg); lia).
  pose proof (setup_inv w cfg dl rank H (S fuel) st (Some (vref_of fd) :: tr0) name true 0 just Hnd Hd (fun n _ => HI n)) as I0.
  unfold mdecision, str in *. rewrite S0 in I0. destruct I0 as [_ [_ T0]].
  destruct (T0 eq_refl eq_refl (vref_of fd) tr0 eq_refl) as [p [Hf [[Hs Hr]|[Hz _]]]]; [|now elim Hz].
  exists fd, why, p. destruct (find_pvr_spec w name _ p Hf) as [_ [Hv Hroot]].
  repeat split; assumption.
Qed.

Lemma explicit_version_lemma dl rank fuel st al vro name v x just st' al' tr :
  WF2 w dl rank -> nodollar_paths w (s_env st) -> Inv w cfg (s_env st) ->
  v <> [] -> is_expr v = false ->
  full fuel st al vro name {| li_version := Some v; li_expr := x |} true 0 just = MFDone true st' al' tr ->
  exists p, mp_version p = v /\ mfind_setup_product w (c_flavor cfg) (s_env st') name = Some p.
Proof.
  intros H Hnd HI Hne Hx E.
  destruct (top_level_records_decision dl rank fuel st al vro name _ just st' al' tr H Hnd HI E)
    as [fd [why [p [R [Hf [Hv [Hr [Hs _]]]]]]]].
  cbn [li_version li_expr] in R.
  assert (V : fd_version fd = v).
  { apply (resolve_version vcmp vmatch rc (mdb_of fw) (c_keep cfg) (alookup name al) flavors vro
             (mkRequest name (Some v) x) v fd why); auto.
    cbn [rq_version truthy]. destruct v; [contradiction|reflexivity]. }
  exists p. split; [congruence|assumption].
Qed.

End Consequences.
