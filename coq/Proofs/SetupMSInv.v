(* The consistency invariant of the environment is preserved by setup and unsetup (C01, C02).
   Built on the frame theorem of Proofs/SetupMSFrame.v. *)
From Eupsv Require Import Base.Base Base.BaseLemmas Model.PathAlg Proofs.PathAlg Model.Setup Model.SetupMS Proofs.SetupMSFrame.
From Coq Require Import Lia.

Arguments wf_path {w dl} _.
Arguments wf_set {w dl} _.
Arguments wf_nounset {w dl} _.
Arguments wf_path_not_set {w dl} _.
Arguments wf_path_not_reserved {w dl} _.
Arguments wf_set_not_reserved {w dl} _.

(* is n the name of a declared mproduct? *)
Lemma declared_dec (l : mworld) n :
  (exists p, In p l /\ mp_name p = n) \/ (forall p, ~ (In p l /\ mp_name p = n)).
Proof.
  induction l as [|q l IH].
  - right. intros p [[] _].
  - destruct (str_eq_dec (mp_name q) n) as [E|N].
    + left. exists q. split; [now left|assumption].
    + destruct IH as [[p [Hin Hn]]|Hno].
      * left. exists p. split; [now right|assumption].
      * right. intros p [[<-|Hin] Hn]; [now apply N|]. apply (Hno p). split; assumption.
Qed.

Section Inv.
Variable w : mworld.
Variable cfg : config.
Variable dl : str -> ascii.
Variable rank : str -> nat.            (* a witness that the dependency graph over names is acyclic *)

Notation has_name := (has_name w).
Notation own_var := (own_var w).
Notation own_elem := (own_elem w).
Notation path_var := (path_var w).
Notation set_var := (set_var w).
Notation touches := (touches w).
Notation nodollar_paths := (nodollar_paths w).
Notation env_frame := (env_frame w dl).
Notation levels := (levels cfg).
Notation depth_ok := (depth_ok cfg).

Definition word (x : str) : Prop := x <> [] /\ mem_ascii c_space x = false.

(* a stack root that utils.decodePath gives back from utils.encodePath (it does not for a root with the
   characters minus plus in front of a blank: the blank becomes the marker minus plus minus, and the decoder
   reads the marker one character too early) *)
Definition root_ok (r : str) : Prop := r <> [] /\ decode_path (encode_path r) = r.

(* the names the mworld speaks about: names of declared products and targets of setupRequired /
   setupOptional lines.  own_var n k holds of ANY string n for its three reserved variables, and two
   different strings can have the same upper-case form (SETUP_A is owned by both a and A), so apartness
   of variables can only be asked of names the mworld knows. *)
Definition known (n : str) : Prop :=
  exists p, In p w /\ (mp_name p = n \/ exists o j, In (ASetup o n j) (mp_actions p)).

Record WF2 : Prop := {
  wf_base : WF w dl;
  wf_rank : forall n m, dep_edge w n m -> rank m < rank n;
  wf_elem_apart : forall n m var v, n <> m -> own_elem n var v -> ~ own_elem m var v;
  wf_var_apart : forall n m k, known n -> known m -> n <> m -> own_var n k -> ~ own_var m k;
  wf_versions_path : forall p q ap var v d ap' d', In p w -> In q w -> mp_name p = mp_name q -> p <> q ->
      In (APath ap var v d) (mp_actions p) -> ~ In (APath ap' var v d') (mp_actions q);
  wf_versions_set : forall p q k v, In p w -> In q w -> mp_name p = mp_name q -> p <> q ->
      In (ASet k v) (mp_actions p) -> ~ In (ASet k v) (mp_actions q);
  wf_set_once : forall p k v v', In p w -> In (ASet k v) (mp_actions p) -> In (ASet k v') (mp_actions p) -> v = v';
  (* a declaration is identified by its name, its version and its stack *)
  wf_keys : forall p q, In p w -> In q w -> mp_name p = mp_name q -> mp_version p = mp_version q ->
            mp_root p = mp_root q -> p = q;
  wf_words : forall p, In p w -> word (mp_name p) /\ word (mp_version p) /\ mp_version p <> lit "-f" /\
                                 word (mp_flavor p) /\ root_ok (mp_root p)
}.

(* ---------------------------------------------------------------- the invariant *)

Definition present (p : mproduct) (e : amap str) : Prop :=
  (forall ap var v d, In (APath ap var v d) (mp_actions p) -> In v (elems d (oldv var e))) /\
  (forall k v, In (ASet k v) (mp_actions p) -> alookup k e = Some v).

Definition absent (p : mproduct) (e : amap str) : Prop :=
  (forall ap var v d, In (APath ap var v d) (mp_actions p) -> ~ In v (elems d (oldv var e))) /\
  (forall k v, In (ASet k v) (mp_actions p) -> alookup k e <> Some v).

(* what the environment says about one product name: the recorded version OF THE RECORDED STACK *)
Definition clause (name : str) (e : amap str) : Prop :=
  match mfind_setup_product w (c_flavor cfg) e name with
  | Some p => alookup (dir_var name) e = Some (mp_dir p) /\ present p e /\
              forall q, has_name name q -> q <> p -> absent q e
  | None => forall q, has_name name q -> absent q e
  end.

Definition Inv (e : amap str) : Prop := forall name, clause name e.
Definition lowinv (r : nat) (e : amap str) : Prop := forall n, rank n < r -> clause n e.

(* ---------------------------------------------------------------- ranks and touched names *)

Lemma known_has_name n p : has_name n p -> known n.
Proof. intros [Hin Hn]. exists p. split; [assumption|now left]. Qed.

Lemma known_dep n m : dep_edge w n m -> known m.
Proof. intros [p [o [j [[Hin _] Ha]]]]. exists p. split; [assumption|right; now exists o, j]. Qed.

Lemma touches_known b n k : known n -> touches b n k -> known k.
Proof.
  intros Kn Ht. induction Ht as [b n|b n m k Hp He Ht IH]; [assumption|].
  apply IH. now apply (known_dep n m).
Qed.

(* a call of setup on a name that is not declared changes nothing *)
Lemma setup_step_undeclared rec st ds name fwd depth just :
  (forall p, ~ has_name name p) ->
  match msetup_step w cfg rec st ds name fwd depth just with
  | MDone ok st' _ => ok = false /\ st' = st
  | MRaise _ _ => False
  | _ => True
  end.
Proof.
  intro Hno. unfold msetup_step.
  assert (Hf : forall e, mfind_setup_product w (c_flavor cfg) e name = None).
  { intro e. destruct (mfind_setup_product w (c_flavor cfg) e name) as [p|] eqn:E; [|reflexivity].
    exfalso. apply (Hno p). now apply (mfind_setup_product_spec w cfg e name p). }
  destruct fwd.
  - destruct ds as [|[v|] ds1]; auto.
    destruct (find_pvr w name v) as [p|] eqn:E; auto.
    exfalso. apply (Hno p). now destruct (find_pvr_spec w name v p E).
  - rewrite Hf. auto.
Qed.

Lemma touches_rank (H : WF2) b n k : touches b n k -> k = n \/ rank k < rank n.
Proof.
  induction 1 as [b n|b n m k Hp He Ht IH]; [now left|].
  right. pose proof (wf_rank H n m He). destruct IH as [->|IH]; lia.
Qed.

Lemma touches_not_above (H : WF2) b n k : touches b n k -> rank n < rank k -> False.
Proof. intros Ht Hr. destruct (touches_rank H b n k Ht) as [->|]; lia. Qed.

(* ---------------------------------------------------------------- membership through masks *)

Lemma In_mask v l : In v l <-> In v (uniq (filter (fun x => str_eqb x v) l)).
Proof.
  rewrite uniq_In, filter_In. rewrite str_eqb_refl. tauto.
Qed.

Lemma mask_In_iff v l l' :
  uniq (filter (fun x => str_eqb x v) l') = uniq (filter (fun x => str_eqb x v) l) -> (In v l' <-> In v l).
Proof. intro E. rewrite (In_mask v l'), (In_mask v l), E. tauto. Qed.

(* facts about things owned by a name that a frame does not cover are the same on both sides *)
Lemma frame_elem (H : WF2) (N : str -> Prop) e e' m p ap var v d :
  env_frame N e e' -> (forall n, N n -> n <> m) -> has_name m p -> In (APath ap var v d) (mp_actions p) ->
  (In v (elems d (oldv var e')) <-> In v (elems d (oldv var e))).
Proof.
  intros [_ P] HN Hp Ha.
  destruct Hp as [Hin Hnm].
  destruct (wf_path (wf_base H) p ap var v d Hin Ha) as [_ [_ Hd]]. subst d.
  apply mask_In_iff. apply P.
  - exists p, ap, v, (dl var). split; assumption.
  - intros n x Hn Hown. apply str_eqb_neq. intros ->.
    apply (wf_elem_apart H n m var v (HN n Hn) Hown).
    exists p, ap, (dl var). split; [split|]; assumption.
Qed.

Lemma frame_var (H : WF2) (N : str -> Prop) e e' m k :
  env_frame N e e' -> (forall n, N n -> n <> m) -> (forall n, N n -> known n) -> known m ->
  own_var m k -> ~ path_var k ->
  alookup k e' = alookup k e.
Proof.
  intros [V _] HN HK Km Hown Hnp. apply V; [assumption|].
  intros n Hn Hon. apply (wf_var_apart H n m k (HK n Hn) Km (HN n Hn) Hon Hown).
Qed.

Lemma set_not_path (H : WF2) p k v : In p w -> In (ASet k v) (mp_actions p) -> ~ path_var k.
Proof.
  intros Hin Ha Hp. apply (wf_path_not_set (wf_base H) k Hp). exists p, v. split; assumption.
Qed.

Lemma own_set m p k v : has_name m p -> In (ASet k v) (mp_actions p) -> own_var m k.
Proof. intros Hp Ha. right; right; right. exists p, v. split; assumption. Qed.

Lemma frame_present (H : WF2) (N : str -> Prop) e e' m p :
  env_frame N e e' -> (forall n, N n -> n <> m) -> (forall n, N n -> known n) -> has_name m p ->
  (present p e' <-> present p e).
Proof.
  intros F HN HK Hp. pose proof (known_has_name m p Hp) as Km. unfold present. split; intros [A B]; split.
  - intros ap var v d Ha. apply (frame_elem H N e e' m p ap var v d F HN Hp Ha). now apply (A ap var v d).
  - intros k v Ha. rewrite <- (frame_var H N e e' m k F HN HK Km (own_set m p k v Hp Ha) (set_not_path H p k v (proj1 Hp) Ha)).
    now apply B.
  - intros ap var v d Ha. apply (frame_elem H N e e' m p ap var v d F HN Hp Ha). now apply (A ap var v d).
  - intros k v Ha. rewrite (frame_var H N e e' m k F HN HK Km (own_set m p k v Hp Ha) (set_not_path H p k v (proj1 Hp) Ha)).
    now apply B.
Qed.

Lemma frame_absent (H : WF2) (N : str -> Prop) e e' m p :
  env_frame N e e' -> (forall n, N n -> n <> m) -> (forall n, N n -> known n) -> has_name m p ->
  (absent p e' <-> absent p e).
Proof.
  intros F HN HK Hp. pose proof (known_has_name m p Hp) as Km. unfold absent. split; intros [A B]; split.
  - intros ap var v d Ha Hin. apply (A ap var v d Ha). now apply (frame_elem H N e e' m p ap var v d F HN Hp Ha).
  - intros k v Ha. rewrite <- (frame_var H N e e' m k F HN HK Km (own_set m p k v Hp Ha) (set_not_path H p k v (proj1 Hp) Ha)).
    now apply B.
  - intros ap var v d Ha Hin. apply (A ap var v d Ha). now apply (frame_elem H N e e' m p ap var v d F HN Hp Ha).
  - intros k v Ha. rewrite (frame_var H N e e' m k F HN HK Km (own_set m p k v Hp Ha) (set_not_path H p k v (proj1 Hp) Ha)).
    now apply B.
Qed.

Lemma frame_find (H : WF2) (N : str -> Prop) e e' m :
  env_frame N e e' -> (forall n, N n -> n <> m) -> (forall n, N n -> known n) -> known m ->
  mfind_setup_product w (c_flavor cfg) e' m = mfind_setup_product w (c_flavor cfg) e m.
Proof.
  intros F HN HK Km. unfold mfind_setup_product.
  rewrite (frame_var H N e e' m (setup_var m) F HN HK Km); [reflexivity|unfold SetupMSFrame.own_var; tauto|].
  apply (reserved_not_path w dl (wf_base H)). exists m. tauto.
Qed.

(* the clause of a name that a frame does not cover is unaffected *)
Lemma frame_clause (H : WF2) (N : str -> Prop) e e' m :
  env_frame N e e' -> (forall n, N n -> n <> m) -> (forall n, N n -> known n) -> clause m e -> clause m e'.
Proof.
  intros F HN HK. destruct (declared_dec w m) as [[p0 Hp0]|Hno].
  2:{ (* no mproduct has this name: its clause says nothing *)
      intros _. unfold clause. destruct (mfind_setup_product w (c_flavor cfg) e' m) as [p|] eqn:Hf.
      - exfalso. apply (Hno p). now apply (mfind_setup_product_spec w cfg e' m p).
      - intros q Hq. exfalso. now apply (Hno q). }
  pose proof (known_has_name m p0 Hp0) as Km.
  unfold clause. rewrite (frame_find H N e e' m F HN HK Km).
  destruct (mfind_setup_product w (c_flavor cfg) e m) as [p|] eqn:Hf.
  - intros [D [P A]]. pose proof (mfind_setup_product_spec w cfg e m p Hf) as Hp. split; [|split].
    + rewrite (frame_var H N e e' m (dir_var m) F HN HK Km); [assumption|unfold SetupMSFrame.own_var; tauto|].
      apply (reserved_not_path w dl (wf_base H)). exists m. tauto.
    + now apply (frame_present H N e e' m p F HN HK Hp).
    + intros q Hq Hne. apply (frame_absent H N e e' m q F HN HK Hq). now apply A.
  - intros A q Hq. apply (frame_absent H N e e' m q F HN HK Hq). now apply A.
Qed.

(* ---------------------------------------------------------------- single own actions *)

Lemma result_fwd_In ap d v old x :
  In x (result_list ap true d v old) <-> x = v \/ In x (elems d old).
Proof.
  unfold result_list, path_step. rewrite uniq_In. destruct ap.
  - rewrite in_app_iff, remove_str_In. simpl.
    destruct (str_eq_dec x v) as [->|N]; intuition; subst; auto.
  - simpl. rewrite remove_str_In.
    destruct (str_eq_dec x v) as [->|N]; intuition; subst; auto.
Qed.

Lemma result_rev_In ap d v old x :
  In x (result_list ap false d v old) <-> In x (elems d old) /\ x <> v.
Proof. rewrite result_reverse, remove_str_In, uniq_In. tauto. Qed.

Lemma path_step_facts (H : WF2) name p ap fwd var v d e :
  has_name name p -> In (APath ap var v d) (mp_actions p) -> nodollar_paths e ->
  exists e', env_prepend ap fwd var v d e = Ok (Some e') /\ env_frame (eq name) e e' /\ nodollar_paths e' /\
    (forall k, k <> var -> alookup k e' = alookup k e) /\
    (forall x, In x (elems d (oldv var e')) <->
               if fwd then x = v \/ In x (elems d (oldv var e)) else In x (elems d (oldv var e)) /\ x <> v).
Proof.
  intros Hp Ha Hnd.
  destruct (frame_path_step w dl (wf_base H) (eq name) name p ap fwd var v d e eq_refl Hp Ha Hnd)
    as [e' [E1 [E2 E3]]].
  destruct Hp as [Hin Hnm].
  destruct (wf_path (wf_base H) p ap var v d Hin Ha) as [Hd [Hv _]].
  assert (Hpv : path_var var) by (exists p, ap, v, d; auto).
  destruct (env_prepend_elems ap fwd var v d e Hd Hv (Hnd var Hpv)) as [e2 [G1 [G2 [_ G4]]]].
  rewrite E1 in G1. injection G1 as <-.
  exists e'. split; [assumption|]. split; [assumption|]. split; [assumption|]. split; [assumption|].
  intro x. rewrite G2. destruct fwd; [apply result_fwd_In|apply result_rev_In].
Qed.

Lemma set_step_facts (H : WF2) name p fwd k v e :
  has_name name p -> In (ASet k v) (mp_actions p) -> nodollar_paths e ->
  env_set fwd k v e = Ok (Some (if fwd then aset k v e else aremove k e)) /\
  env_frame (eq name) e (if fwd then aset k v e else aremove k e) /\
  nodollar_paths (if fwd then aset k v e else aremove k e).
Proof.
  intros Hp Ha Hnd.
  destruct (frame_set_step w dl (wf_base H) (eq name) name p fwd k v e eq_refl Hp Ha Hnd) as [e' [E1 [E2 E3]]].
  destruct Hp as [Hin Hnm].
  destruct (wf_set (wf_base H) p k v Hin Ha) as [Hne Hdol].
  assert (X : env_set fwd k v e = Ok (Some (if fwd then aset k v e else aremove k e))).
  { destruct fwd; [|reflexivity].
    rewrite (env_set_expanded k v v e (expand_nodollar e v Hdol) Hne). now rewrite (interp_nodollar e v Hdol). }
  rewrite X in E1. injection E1 as <-. split; [assumption|split; assumption].
Qed.

(* ---------------------------------------------------------------- progress through a table *)

Definition progress (fwd : bool) (p : mproduct) (todo : list action) (e : amap str) : Prop :=
  (forall ap var v d, In (APath ap var v d) (mp_actions p) ->
     In (APath ap var v d) todo \/
     (if fwd then In v (elems d (oldv var e)) else ~ In v (elems d (oldv var e)))) /\
  (forall k v, In (ASet k v) (mp_actions p) ->
     In (ASet k v) todo \/ (if fwd then alookup k e = Some v else alookup k e <> Some v)).

(* what holds about the mproduct name while the table of p is being processed *)
Definition during (fwd : bool) (name : str) (p : mproduct) (e : amap str) : Prop :=
  (if fwd then alookup (setup_var name) e = Some (ms_setup_string p) /\
               alookup (dir_var name) e = Some (mp_dir p)
   else alookup (setup_var name) e = None) /\
  (forall q, has_name name q -> q <> p -> absent q e) /\
  lowinv (rank name) e /\ nodollar_paths e.

Lemma reserved_neq_path (H : WF2) var k : path_var var -> reserved k -> k <> var.
Proof. intros Hv Hr ->. now apply (wf_path_not_reserved (wf_base H) var). Qed.

Lemma reserved_neq_set (H : WF2) k r : set_var k -> reserved r -> r <> k.
Proof. intros Hs Hr ->. now apply (wf_set_not_reserved (wf_base H) k). Qed.

Lemma lowinv_frame_self (H : WF2) name e e' :
  known name -> env_frame (eq name) e e' -> lowinv (rank name) e -> lowinv (rank name) e'.
Proof.
  intros Kn F L n Hn. apply (frame_clause H (eq name) e e' n F); [| |now apply L].
  - intros x <-. intros ->. lia.
  - now intros x <-.
Qed.

Lemma dl_of (H : WF2) p ap var v d : In p w -> In (APath ap var v d) (mp_actions p) -> d = dl var.
Proof. intros Hin Ha. now destruct (wf_path (wf_base H) p ap var v d Hin Ha) as [_ [_ E]]. Qed.

(* one path action of p *)
Lemma own_path_step (H : WF2) fwd name p todo ap var v d e :
  has_name name p -> In (APath ap var v d) (mp_actions p) ->
  progress fwd p (APath ap var v d :: todo) e -> during fwd name p e ->
  exists e', env_prepend ap fwd var v d e = Ok (Some e') /\ progress fwd p todo e' /\ during fwd name p e'.
Proof.
  intros Hp Ha [PP PS] [DV [DA [DL DN]]].
  destruct (path_step_facts H name p ap fwd var v d e Hp Ha DN) as [e' [E1 [E2 [E3 [E4 E5]]]]].
  exists e'. split; [assumption|].
  assert (Hpv : path_var var) by (exists p, ap, v, d; split; [apply Hp|assumption]).
  assert (Hin : In p w) by apply Hp.
  split; [split|split; [|split; [|split]]].
  - (* path facts *)
    intros ap2 var2 v2 d2 Ha2. destruct (PP ap2 var2 v2 d2 Ha2) as [[Eq|Ht]|Hs].
    + injection Eq as <- <- <- <-. right. destruct fwd.
      * apply E5. now left.
      * intro Hx. apply E5 in Hx. now destruct Hx.
    + now left.
    + right. destruct (str_eq_dec var2 var) as [->|Nv].
      * assert (d2 = d) by (rewrite (dl_of H p ap2 var v2 d2 Hin Ha2), (dl_of H p ap var v d Hin Ha); reflexivity).
        subst d2. destruct fwd.
        -- apply E5. now right.
        -- intro Hx. apply E5 in Hx. now destruct Hx.
      * unfold oldv. rewrite E4 by assumption. exact Hs.
  - (* set facts *)
    intros k2 v2 Ha2. destruct (PS k2 v2 Ha2) as [[Eq|Ht]|Hs]; [discriminate|now left|right].
    assert (k2 <> var).
    { intros ->. apply (wf_path_not_set (wf_base H) var Hpv). exists p, v2. split; assumption. }
    rewrite E4 by assumption. exact Hs.
  - (* the mproduct's own variables *)
    assert (R1 : setup_var name <> var) by (apply (reserved_neq_path H); [assumption|exists name; tauto]).
    assert (R2 : dir_var name <> var) by (apply (reserved_neq_path H); [assumption|exists name; tauto]).
    destruct fwd; [destruct DV; split|]; rewrite E4; assumption.
  - (* the other versions stay absent *)
    intros q Hq Hne. destruct (DA q Hq Hne) as [QA QS]. split.
    + intros ap2 var2 v2 d2 Ha2. destruct (str_eq_dec var2 var) as [->|Nv].
      * assert (d2 = d) by (rewrite (dl_of H q ap2 var v2 d2 (proj1 Hq) Ha2), (dl_of H p ap var v d Hin Ha); reflexivity).
        subst d2. intro Hx. apply E5 in Hx. destruct fwd.
        -- destruct Hx as [->|Hx]; [|now apply (QA ap2 var v2 d Ha2)].
           assert (Hnn : mp_name p = mp_name q) by (destruct Hp as [_ ->]; now destruct Hq as [_ ->]).
           assert (Hpq : p <> q) by congruence.
           exact (wf_versions_path H p q ap var v d ap2 d Hin (proj1 Hq) Hnn Hpq Ha Ha2).
        -- destruct Hx as [Hx _]. now apply (QA ap2 var v2 d Ha2).
      * unfold oldv. rewrite E4 by assumption. now apply (QA ap2 var2 v2 d2).
    + intros k2 v2 Ha2. assert (k2 <> var).
      { intros ->. apply (wf_path_not_set (wf_base H) var Hpv). exists q, v2. split; [apply Hq|assumption]. }
      rewrite E4 by assumption. now apply (QS k2 v2).
  - now apply (lowinv_frame_self H name e e' (known_has_name name p Hp)).
  - assumption.
Qed.

(* one envSet action of p *)
Lemma own_set_step (H : WF2) fwd name p todo k v e :
  has_name name p -> In (ASet k v) (mp_actions p) ->
  progress fwd p (ASet k v :: todo) e -> during fwd name p e ->
  let e' := if fwd then aset k v e else aremove k e in
  env_set fwd k v e = Ok (Some e') /\ progress fwd p todo e' /\ during fwd name p e'.
Proof.
  intros Hp Ha [PP PS] [DV [DA [DL DN]]] e'.
  destruct (set_step_facts H name p fwd k v e Hp Ha DN) as [E1 [E2 E3]]. fold e' in E1, E2, E3.
  split; [assumption|].
  assert (Hin : In p w) by apply Hp.
  assert (Hsv : set_var k) by (exists p, v; split; assumption).
  assert (Hnp : ~ path_var k) by (intro Hx; now apply (wf_path_not_set (wf_base H) k Hx)).
  assert (Hold : forall var, path_var var -> oldv var e' = oldv var e).
  { intros var Hv. subst e'. destruct fwd; [apply oldv_other|apply oldv_other_remove]; intros ->; contradiction. }
  assert (Hother : forall k2, k2 <> k -> alookup k2 e' = alookup k2 e).
  { intros k2 N. subst e'. destruct fwd; [now apply alookup_aset_other|now apply alookup_aremove_other]. }
  assert (Hself : if fwd then alookup k e' = Some v else alookup k e' = None).
  { subst e'. destruct fwd; [apply alookup_aset_same|apply alookup_aremove_same]. }
  split; [split|split; [|split; [|split]]].
  - intros ap2 var2 v2 d2 Ha2. destruct (PP ap2 var2 v2 d2 Ha2) as [[Eq|Ht]|Hs]; [discriminate|now left|right].
    rewrite Hold; [exact Hs|]. exists p, ap2, v2, d2. split; assumption.
  - intros k2 v2 Ha2. destruct (PS k2 v2 Ha2) as [[Eq|Ht]|Hs].
    + injection Eq as <- <-. right. destruct fwd; [assumption|]. rewrite Hself. discriminate.
    + now left.
    + right. destruct (str_eq_dec k2 k) as [->|N].
      * destruct fwd.
        -- rewrite Hself. f_equal. now apply (wf_set_once H p k v v2 Hin).
        -- rewrite Hself. discriminate.
      * rewrite Hother by assumption. exact Hs.
  - assert (R1 : setup_var name <> k) by (apply (reserved_neq_set H); [assumption|exists name; tauto]).
    assert (R2 : dir_var name <> k) by (apply (reserved_neq_set H); [assumption|exists name; tauto]).
    destruct fwd; [destruct DV; split|]; rewrite Hother; assumption.
  - intros q Hq Hne. destruct (DA q Hq Hne) as [QA QS]. split.
    + intros ap2 var2 v2 d2 Ha2. rewrite Hold; [now apply (QA ap2 var2 v2 d2)|].
      exists q, ap2, v2, d2. split; [apply Hq|assumption].
    + intros k2 v2 Ha2. destruct (str_eq_dec k2 k) as [->|N].
      * destruct fwd.
        -- rewrite Hself. intro Eq. injection Eq as ->.
           assert (Hnn : mp_name p = mp_name q) by (destruct Hp as [_ ->]; now destruct Hq as [_ ->]).
           assert (Hpq : p <> q) by congruence.
           exact (wf_versions_set H p q k v2 Hin (proj1 Hq) Hnn Hpq Ha Ha2).
        -- rewrite Hself. discriminate.
      * rewrite Hother by assumption. now apply (QS k2 v2).
  - now apply (lowinv_frame_self H name e e' (known_has_name name p Hp)).
  - assumption.
Qed.

(* ---------------------------------------------------------------- nested calls *)

Definition fn_inv (rec : msetup_fn) : Prop :=
  forall st ds name fwd depth just,
    nodollar_paths (s_env st) -> depth_ok depth -> lowinv (S (rank name)) (s_env st) ->
    match rec st ds name fwd depth just with
    | MDone ok st' _ =>
        lowinv (S (rank name)) (s_env st') /\
        (fwd = false -> mfind_setup_product w (c_flavor cfg) (s_env st) name <> None ->
         alookup (setup_var name) (s_env st') = None) /\
        (* a forward call that succeeds leaves the product it decided on recorded - version and stack - or, below
           the top level, found the product already set up (same version or same directory, whatever the stack
           that SETUP_NAME records) and changed nothing *)
        (fwd = true -> ok = true -> forall v ds1, ds = Some v :: ds1 ->
         exists p, find_pvr w name v = Some p /\
           ((mfind_setup_product w (c_flavor cfg) (s_env st') name = Some p /\
             alookup (setup_var name) (s_env st') = Some (ms_setup_string p)) \/
            (depth <> 0 /\ st' = st /\
             msame_product p (mfind_setup_product w (c_flavor cfg) (s_env st) name) = true)))
    | _ => True
    end.

Lemma progress_frame (H : WF2) (N : str -> Prop) fwd name p todo e e' :
  env_frame N e e' -> (forall n, N n -> n <> name) -> (forall n, N n -> known n) -> has_name name p ->
  progress fwd p todo e -> progress fwd p todo e'.
Proof.
  intros F HN HK Hp [PP PS]. pose proof (known_has_name name p Hp) as Km. split.
  - intros ap var v d Ha. destruct (PP ap var v d Ha) as [Ht|Hs]; [now left|right].
    pose proof (frame_elem H N e e' name p ap var v d F HN Hp Ha) as I. destruct fwd; tauto.
  - intros k v Ha. destruct (PS k v Ha) as [Ht|Hs]; [now left|right].
    rewrite (frame_var H N e e' name k F HN HK Km (own_set name p k v Hp Ha) (set_not_path H p k v (proj1 Hp) Ha)).
    exact Hs.
Qed.

Lemma during_frame (H : WF2) (N : str -> Prop) fwd name p e e' :
  env_frame N e e' -> (forall n, N n -> n <> name) -> (forall n, N n -> known n) -> has_name name p ->
  lowinv (rank name) e' -> nodollar_paths e' ->
  during fwd name p e -> during fwd name p e'.
Proof.
  intros F HN HK Hp L' D' [DV [DA _]]. pose proof (known_has_name name p Hp) as Km.
  assert (Rs : ~ path_var (setup_var name)) by (apply (reserved_not_path w dl (wf_base H)); exists name; tauto).
  assert (Rd : ~ path_var (dir_var name)) by (apply (reserved_not_path w dl (wf_base H)); exists name; tauto).
  assert (Os : own_var name (setup_var name)) by (unfold SetupMSFrame.own_var; tauto).
  assert (Od : own_var name (dir_var name)) by (unfold SetupMSFrame.own_var; tauto).
  split; [|split; [|split; assumption]].
  - destruct fwd.
    + destruct DV as [D1 D2]. split.
      * now rewrite (frame_var H N e e' name _ F HN HK Km Os Rs).
      * now rewrite (frame_var H N e e' name _ F HN HK Km Od Rd).
    + now rewrite (frame_var H N e e' name _ F HN HK Km Os Rs).
  - intros q Hq Hne. apply (frame_absent H N e e' name q F HN HK Hq). now apply DA.
Qed.

(* a dependency of [name] processed while [name]'s table is executed *)
Lemma nested_call (H : WF2) (rec : msetup_fn) fwd name p todo m depth j st ds :
  fn_ok w cfg dl rec -> fn_inv rec -> has_name name p -> dep_edge w name m -> depth_ok (S depth) ->
  progress fwd p todo (s_env st) -> during fwd name p (s_env st) ->
  match rec st ds m fwd (S depth) j with
  | MDone _ st' _ => progress fwd p todo (s_env st') /\ during fwd name p (s_env st')
  | _ => True
  end.
Proof.
  intros Hok Hinv Hp He Hd PR DU.
  pose proof DU as [_ [_ [DL DN]]].
  pose proof (wf_rank H name m He) as Hr.
  assert (HN : forall n, touches (levels (S depth) j) m n -> n <> name).
  { intros n Ht ->. destruct (touches_rank H _ _ _ Ht) as [E|E]; [subst; lia|lia]. }
  assert (HK : forall n, touches (levels (S depth) j) m n -> known n).
  { intros n Ht. apply (touches_known (levels (S depth) j) m n); [now apply (known_dep name m)|assumption]. }
  pose proof (Hok st ds m fwd (S depth) j DN Hd) as G.
  assert (Hlow : lowinv (S (rank m)) (s_env st)) by (intros n Hn; apply DL; lia).
  pose proof (Hinv st ds m fwd (S depth) j DN Hd Hlow) as I.
  destruct (rec st ds m fwd (S depth) j) as [ok st' ds'|st' ds'| |]; auto.
  destruct G as [F [D' _]]. destruct I as [L' _].
  assert (Lname : lowinv (rank name) (s_env st')).
  { intros n Hn. destruct (Nat.le_gt_cases (rank n) (rank m)) as [Hle|Hgt].
    - apply L'. lia.
    - apply (frame_clause H _ (s_env st) (s_env st') n F); [|exact HK|apply DL; lia].
      intros x Hx ->. now apply (touches_not_above H _ _ _ Hx). }
  split.
  - now apply (progress_frame H _ fwd name p todo (s_env st) (s_env st') F HN HK Hp).
  - now apply (during_frame H _ fwd name p (s_env st) (s_env st') F HN HK Hp).
Qed.

Lemma progress_tail fwd p a todo e :
  (forall ap var v d, a <> APath ap var v d) -> (forall k v, a <> ASet k v) ->
  progress fwd p (a :: todo) e -> progress fwd p todo e.
Proof.
  intros N1 N2 [PP PS]. split.
  - intros ap var v d Ha. destruct (PP ap var v d Ha) as [[Eq|Ht]|Hs]; auto. exfalso. now apply (N1 ap var v d).
  - intros k v Ha. destruct (PS k v Ha) as [[Eq|Ht]|Hs]; auto. exfalso. now apply (N2 k v).
Qed.

Lemma run_actions_inv (H : WF2) (rec : msetup_fn) name p fwd depth just :
  fn_ok w cfg dl rec -> fn_inv rec -> has_name name p -> depth_ok depth ->
  forall acts, (forall a, In a acts -> In a (mp_actions p)) ->
  forall st ds, progress fwd p acts (s_env st) -> during fwd name p (s_env st) ->
    match mrun_actions cfg rec fwd depth just acts st ds with
    | MDone _ st' _ => progress fwd p [] (s_env st') /\ during fwd name p (s_env st')
    | _ => True
    end.
Proof.
  intros Hok Hinv Hp Hdepth.
  induction acts as [|a acts IH]; intros Hsub st ds PR DU; [cbn [mrun_actions]; now split|].
  assert (Hsub' : forall a0, In a0 acts -> In a0 (mp_actions p)) by (intros; apply Hsub; now right).
  assert (Ha : In a (mp_actions p)) by (apply Hsub; now left).
  cbn [mrun_actions]. destruct a as [o m j|ap var v d|k v|k|k v|].
  - (* dependency *)
    assert (PT : progress fwd p acts (s_env st)) by (apply (progress_tail fwd p (ASetup o m j) acts); [discriminate|discriminate|assumption]).
    destruct (cut_off cfg just (S depth)) eqn:Hc; [now apply IH|].
    destruct (cut_off_false_levels cfg depth just j Hdepth Hc) as [_ [_ Hd']].
    assert (He : dep_edge w name m) by (exists p, o, j; split; assumption).
    pose proof (nested_call H rec fwd name p acts m depth j st ds Hok Hinv Hp He Hd' PT DU) as NC.
    pose proof (Hok st ds m fwd (S depth) j (proj2 (proj2 (proj2 DU))) Hd') as G.
    destruct (rec st ds m fwd (S depth) j) as [ok st' ds'|st' ds'| |]; auto.
    + destruct ok.
      * destruct NC as [P' D']. now apply IH.
      * destruct (fwd && negb o); [exact I|]. apply IH; auto.
    + destruct (fwd && negb o); [exact I|]. apply IH; auto.
  - destruct (own_path_step H fwd name p acts ap var v d (s_env st) Hp Ha PR DU) as [e' [E1 [E2 E3]]].
    cbn [exec_simple]. rewrite E1. now apply IH.
  - destruct (own_set_step H fwd name p acts k v (s_env st) Hp Ha PR DU) as [E1 [E2 E3]].
    cbn [exec_simple]. rewrite E1. now apply IH.
  - exfalso. now apply (wf_nounset (wf_base H) p k (proj1 Hp)).
  - cbn [exec_simple]. apply IH; auto. cbn [s_env].
    apply (progress_tail fwd p (AAlias k v) acts); [discriminate|discriminate|assumption].
  - cbn [exec_simple]. apply IH; auto.
    apply (progress_tail fwd p ANone acts); [discriminate|discriminate|assumption].
Qed.

(* ---------------------------------------------------------------- the record written in SETUP_<NAME> *)

Lemma words_head x y : word x -> words (x ++ c_space :: y) = x :: words y.
Proof.
  intros [Hne Hsp]. unfold words. rewrite (split_on_app c_space x y Hsp). cbn [filter].
  destruct x; [congruence|reflexivity].
Qed.

Lemma encode_path_nospace r : mem_ascii c_space (encode_path r) = false.
Proof.
  induction r as [|c r IH]; [reflexivity|]. cbn [encode_path].
  destruct (ascii_eqb c c_space) eqn:E.
  - exact IH.
  - cbn [mem_ascii]. rewrite ascii_eqb_sym, E. exact IH.
Qed.

Lemma encode_path_nonempty r : r <> [] -> encode_path r <> [].
Proof. destruct r as [|c r]; [congruence|]. intros _. cbn [encode_path]. destruct (ascii_eqb c c_space); discriminate. Qed.

Lemma words_word x : word x -> words x = [x].
Proof.
  intros [Hne Hsp]. unfold words. rewrite (split_on_nodelim c_space x Hsp). cbn [filter].
  destruct x; [congruence|reflexivity].
Qed.

(* what findSetupVersion reads in the value Eups.setup wrote *)
Lemma recorded_setup_string p :
  word (mp_name p) -> word (mp_version p) -> mp_version p <> lit "-f" -> word (mp_flavor p) -> root_ok (mp_root p) ->
  recorded_fields (ms_setup_string p) = Some (mp_version p, Some (mp_flavor p), Some (mp_root p)).
Proof.
  intros Hn Hv Hf Hfl [Hr1 Hr2]. unfold recorded_fields, ms_setup_string.
  assert (Wr : word (encode_path (mp_root p))) by (split; [now apply encode_path_nonempty|apply encode_path_nospace]).
  replace (mp_name p ++ [c_space] ++ mp_version p ++ lit " -f " ++ mp_flavor p ++ lit " -Z " ++ encode_path (mp_root p))
    with (mp_name p ++ c_space :: (mp_version p ++ c_space :: (lit "-f" ++ c_space :: (mp_flavor p ++ c_space ::
           (lit "-Z" ++ c_space :: encode_path (mp_root p)))))).
  2:{ change (lit " -f ") with (c_space :: lit "-f" ++ [c_space]). change (lit " -Z ") with (c_space :: lit "-Z" ++ [c_space]).
      cbn [app]. rewrite <- !app_assoc. reflexivity. }
  rewrite (words_head (mp_name p) _ Hn), (words_head (mp_version p) _ Hv).
  rewrite (words_head (lit "-f")) by (split; [discriminate|reflexivity]).
  rewrite (words_head (mp_flavor p) _ Hfl).
  rewrite (words_head (lit "-Z")) by (split; [discriminate|reflexivity]).
  rewrite (words_word _ Wr).
  assert (E : str_eqb (mp_version p) (lit "-f") = false) by (now apply str_eqb_neq).
  unfold recorded_args, is_dash_f. cbv zeta. rewrite E. cbn [snd fst]. rewrite str_eqb_refl. cbn [snd fst].
  change (is_dash_z (lit "-Z")) with true. cbn [snd fst]. now rewrite Hr2.
Qed.

Lemma setup_dir_differ name : setup_var name <> dir_var name.
Proof.
  intro E. apply (f_equal (@length ascii)) in E. unfold setup_var, dir_var in E.
  rewrite !app_length in E. cbn in E. lia.
Qed.

Lemma setup_extra_differ name : setup_var name <> extra_var name.
Proof.
  intro E. apply (f_equal (@length ascii)) in E. unfold setup_var, extra_var in E.
  rewrite !app_length in E. cbn in E. lia.
Qed.

Lemma dir_extra_differ name : dir_var name <> extra_var name.
Proof.
  intro E. apply (f_equal (@length ascii)) in E. unfold dir_var, extra_var in E.
  rewrite !app_length in E. cbn in E. lia.
Qed.

(* setting or unsetting a reserved variable says nothing about table contributions *)
Lemma absent_reserved (H : WF2) q r e e' :
  In q w -> reserved r -> (forall k, k <> r -> alookup k e' = alookup k e) -> absent q e -> absent q e'.
Proof.
  intros Hq Hr Hsame [QA QS]. split.
  - intros ap var v d Ha.
    assert (var <> r).
    { intros ->. apply (wf_path_not_reserved (wf_base H) r); [exists q, ap, v, d; split; assumption|assumption]. }
    unfold oldv. rewrite Hsame by assumption. now apply (QA ap var v d).
  - intros k v Ha.
    assert (k <> r).
    { intros ->. apply (wf_set_not_reserved (wf_base H) r); [exists q, v; split; assumption|assumption]. }
    rewrite Hsame by assumption. now apply (QS k v).
Qed.

Lemma absent_set_vars (H : WF2) q name p st :
  In q w -> absent q (s_env st) -> absent q (s_env (mset_product_vars st name p)).
Proof.
  intros Hq A. unfold set_product_vars, set_env. cbn [s_env].
  apply (absent_reserved H q (setup_var name) (aset (dir_var name) (mp_dir p) (s_env st))); auto.
  - exists name. tauto.
  - intros k N. now apply alookup_aset_other.
  - apply (absent_reserved H q (dir_var name) (s_env st)); auto.
    + exists name. tauto.
    + intros k N. now apply alookup_aset_other.
Qed.

Lemma absent_unset_vars (H : WF2) q name st :
  In q w -> absent q (s_env st) -> absent q (s_env (unset_product_vars st name)).
Proof.
  intros Hq A. unfold unset_product_vars, unset_env. cbn [s_env].
  apply (absent_reserved H q (extra_var name) (aremove (setup_var name) (aremove (dir_var name) (s_env st)))); auto.
  - exists name. tauto.
  - intros k N. now apply alookup_aremove_other.
  - apply (absent_reserved H q (setup_var name) (aremove (dir_var name) (s_env st))); auto.
    + exists name. tauto.
    + intros k N. now apply alookup_aremove_other.
    + apply (absent_reserved H q (dir_var name) (s_env st)); auto.
      * exists name. tauto.
      * intros k N. now apply alookup_aremove_other.
Qed.

Lemma find_none_when_unset e name : alookup (setup_var name) e = None -> mfind_setup_product w (c_flavor cfg) e name = None.
Proof. intro E. unfold mfind_setup_product. now rewrite E. Qed.

Lemma all_absent_of_clause name e :
  clause name e -> alookup (setup_var name) e = None -> forall q, has_name name q -> absent q e.
Proof. intros C E. unfold clause in C. now rewrite (find_none_when_unset e name E) in C. Qed.

(* products with decidable equality (through classical-free case analysis on a boolean test is not
   available for records of lists, so the name/version key decides within a WF2 mworld) *)
Lemma wf_keys_dec_in (H : WF2) q sp : In q w -> In sp w -> mp_name q = mp_name sp -> q = sp \/ q <> sp.
Proof.
  intros Hq Hs Hn. destruct (str_eq_dec (mp_version q) (mp_version sp)) as [E|N].
  - destruct (str_eq_dec (mp_root q) (mp_root sp)) as [E2|N2].
    + left. now apply (wf_keys H).
    + right. intros ->. now apply N2.
  - right. intros ->. now apply N.
Qed.

(* ---------------------------------------------------------------- one level of setup *)

Lemma setup_step_inv (H : WF2) (rec : msetup_fn) :
  fn_ok w cfg dl rec -> fn_inv rec -> fn_inv (msetup_step w cfg rec).
Proof.
  intros Hok Hinv st ds name fwd depth just Hnd Hdepth Hlow.
  destruct (declared_dec w name) as [[p0 Hp0]|Hno].
  2:{ (* an undeclared name: nothing happens *)
      pose proof (setup_step_undeclared rec st ds name fwd depth just Hno) as U.
      destruct (msetup_step w cfg rec st ds name fwd depth just) as [ok st' ds'|st' ds'| |]; auto.
      destruct U as [-> ->]. split; [assumption|split; [|discriminate]].
      intros _ Hx. exfalso. destruct (mfind_setup_product w (c_flavor cfg) (s_env st) name) as [p|] eqn:E; [|now apply Hx].
      apply (Hno p). now apply (mfind_setup_product_spec w cfg (s_env st) name p). }
  pose proof (known_has_name name p0 Hp0) as Kn.
  assert (HKn : forall x, touches (levels depth just) name x -> known x).
  { intros x Hx. now apply (touches_known (levels depth just) name x). }
  pose proof (setup_step_ok w cfg dl (wf_base H) rec Hok st ds name fwd depth just Hnd Hdepth) as G.
  (* names of the same rank (other than name) are not touched: their clauses follow from the frame *)
  assert (Hrest : forall st' , env_frame (touches (levels depth just) name) (s_env st) (s_env st') ->
                  lowinv (rank name) (s_env st') -> clause name (s_env st') -> lowinv (S (rank name)) (s_env st')).
  { intros st' F L C n Hn. destruct (str_eq_dec n name) as [->|Nn]; [assumption|].
    destruct (Nat.lt_ge_cases (rank n) (rank name)) as [Hlt|Hge]; [now apply L|].
    apply (frame_clause H _ (s_env st) (s_env st') n F); [|exact HKn|apply Hlow; lia].
    intros x Hx ->. destruct (touches_rank H _ _ _ Hx) as [E|E]; [now apply Nn|lia]. }
  remember (msetup_step w cfg rec st ds name fwd depth just) as r eqn:Er.
  unfold msetup_step in Er. destruct fwd.
  - (* forward *)
    destruct ds as [|[v|] ds1]; [subst r; exact I| |subst r; split; [assumption|split; [discriminate|]]; intros _ _ v0 ds0 Eq; discriminate].
    destruct (find_pvr w name v) as [p|] eqn:Hf; [|subst r; exact I].
    destruct (find_pvr_spec w name v p Hf) as [Hp [Hv Hvr]].
    assert (Hkey : v = mkVref (mp_version p) (mp_root p)) by (destruct v; cbn in Hv, Hvr; now subst).
    destruct (msame_product p (mfind_setup_product w (c_flavor cfg) (s_env st) name) && negb (depth =? 0)) eqn:Hsame;
      [subst r; split; [assumption|split; [discriminate|]]; intros _ _ v0 ds0 Eq; injection Eq as <- _;
       exists p; split; [exact Hf|right]; apply andb_true_iff in Hsame; destruct Hsame as [Hs1 Hs2];
       split; [intros ->; discriminate|split; [reflexivity|exact Hs1]]|].
    (* the state after the old version (if any) has been unset *)
    assert (H0 : match (match mfind_setup_product w (c_flavor cfg) (s_env st) name with
                        | Some _ => rec st ds1 name false depth (just || c_keep cfg)
                        | None => MDone true st ds1 end) with
                 | MDone _ st1 _ => lowinv (S (rank name)) (s_env st1) /\ nodollar_paths (s_env st1) /\
                                    mfind_setup_product w (c_flavor cfg) (s_env st1) name = None
                 | _ => True end).
    { destruct (mfind_setup_product w (c_flavor cfg) (s_env st) name) as [sp|] eqn:Hs.
      - pose proof (Hinv st ds1 name false depth (just || c_keep cfg) Hnd Hdepth Hlow) as I0.
        pose proof (Hok st ds1 name false depth (just || c_keep cfg) Hnd Hdepth) as G0.
        destruct (rec st ds1 name false depth (just || c_keep cfg)) as [ok st1 ds2|st1 ds2| |]; auto.
        destruct I0 as [L1 [U1 _]]. destruct G0 as [_ [D1 _]]. split; [assumption|split; [assumption|]].
        apply find_none_when_unset. apply U1; [reflexivity|]. rewrite Hs. discriminate.
      - split; [assumption|split; assumption]. }
    destruct (match mfind_setup_product w (c_flavor cfg) (s_env st) name with
              | Some _ => rec st ds1 name false depth (just || c_keep cfg)
              | None => MDone true st ds1 end) as [ok1 st1 ds2|st1 ds2| |]; try (subst r; exact I).
    destruct H0 as [L1 [D1 F1]].
    assert (A1 : forall q, has_name name q -> absent q (s_env st1)).
    { pose proof (L1 name (Nat.lt_succ_diag_r _)) as C. unfold clause in C. now rewrite F1 in C. }
    set (st2 := mset_product_vars st1 name p) in *.
    destruct (set_product_vars_ok w dl (wf_base H) (eq name) name p st1 eq_refl D1) as [F2 [D2 _]].
    fold st2 in F2, D2.
    assert (DU : during true name p (s_env st2)).
    { split; [split|split; [|split]].
      - unfold st2, mset_product_vars, set_env. cbn [s_env]. apply alookup_aset_same.
      - unfold st2, mset_product_vars, set_env. cbn [s_env].
        rewrite alookup_aset_other by (apply not_eq_sym, setup_dir_differ). apply alookup_aset_same.
      - intros q Hq _. apply (absent_set_vars H q name p st1 (proj1 Hq)). now apply A1.
      - apply (lowinv_frame_self H name (s_env st1) _ Kn); [assumption|]. intros n Hn. apply L1. lia.
      - assumption. }
    assert (PR : progress true p (mp_actions p) (s_env st2)) by (split; intros; now left).
    pose proof (run_actions_inv H rec name p true depth just Hok Hinv Hp Hdepth (mp_actions p)
                  (fun a Ha => Ha) st2 ds2 PR DU) as R.
    destruct (mrun_actions cfg rec true depth just (mp_actions p) st2 ds2) as [ok st' ds'|st' ds'| |];
      subst r; try exact I.
    destruct R as [[PP PS] [[DS DD] [DA [DL DN]]]]. destruct G as [F _].
    destruct (wf_words H p (proj1 Hp)) as [Wn [Wv [Wf [Wfl Wr]]]]. destruct Hp as [Hin Hnm].
    assert (Hfound : mfind_setup_product w (c_flavor cfg) (s_env st') name = Some p).
    { unfold mfind_setup_product. rewrite DS.
      rewrite (recorded_setup_string p Wn Wv Wf Wfl Wr). rewrite <- Hkey, Hf. now rewrite str_eqb_refl. }
    split; [|split; [discriminate|]].
    2:{ intros _ _ v0 ds0 Eq. injection Eq as <- _. exists p. split; [assumption|left; split; assumption]. }
    apply (Hrest st' F DL).
    (* the clause of the product just set up *)
    unfold clause. rewrite Hfound.
    split; [assumption|split].
    + split.
      * intros ap var x d Ha. destruct (PP ap var x d Ha) as [[]|Hs]. exact Hs.
      * intros k x Ha. destruct (PS k x Ha) as [[]|Hs]. exact Hs.
    + intros q Hq Hne. now apply DA.
  - (* unsetup *)
    destruct (mfind_setup_product w (c_flavor cfg) (s_env st) name) as [sp|] eqn:Hs;
      [|subst r; split; [assumption|split; [intros _ Hx; now elim Hx|discriminate]]].
    pose proof (mfind_setup_product_spec w cfg (s_env st) name sp Hs) as Hp.
    pose proof (Hlow name (Nat.lt_succ_diag_r _)) as C. unfold clause in C. rewrite Hs in C.
    destruct C as [_ [_ CA]].
    set (st1 := unset_product_vars st name) in *.
    destruct (unset_product_vars_ok w dl (wf_base H) (eq name) name st eq_refl Hnd) as [F1 [D1 _]].
    fold st1 in F1, D1.
    assert (DU : during false name sp (s_env st1)).
    { split; [|split; [|split]].
      - unfold st1, unset_product_vars, unset_env. cbn [s_env].
        rewrite alookup_aremove_other by apply setup_extra_differ. apply alookup_aremove_same.
      - intros q Hq Hne. apply (absent_unset_vars H q name st (proj1 Hq)). now apply CA.
      - apply (lowinv_frame_self H name (s_env st) _ Kn); [assumption|]. intros n Hn. apply Hlow. lia.
      - assumption. }
    assert (PR : progress false sp (mp_actions sp) (s_env st1)) by (split; intros; now left).
    pose proof (run_actions_inv H rec name sp false depth just Hok Hinv Hp Hdepth (mp_actions sp)
                  (fun a Ha => Ha) st1 ds PR DU) as R.
    destruct (mrun_actions cfg rec false depth just (mp_actions sp) st1 ds) as [ok st' ds'|st' ds'| |];
      subst r; try exact I.
    destruct R as [[PP PS] [DS [DA [DL DN]]]]. destruct G as [F _].
    split; [|split; [intros _ _; exact DS|discriminate]]. apply (Hrest st' F DL).
    unfold clause. rewrite (find_none_when_unset _ _ DS). intros q Hq.
    destruct (wf_keys_dec_in H q sp (proj1 Hq) (proj1 Hp)
                (eq_trans (proj2 Hq) (eq_sym (proj2 Hp)))) as [->|Hne].
    + split.
      * intros ap var x d Ha. destruct (PP ap var x d Ha) as [[]|Hx]. exact Hx.
      * intros k x Ha. destruct (PS k x Ha) as [[]|Hx]. exact Hx.
    + now apply DA.
Qed.

(* ---------------------------------------------------------------- all fuels, all names *)

Theorem setup_inv (H : WF2) fuel : fn_inv (msetup w cfg fuel).
Proof.
  induction fuel as [|fuel IH].
  - intros st ds name fwd depth just _ _ _. exact I.
  - cbn [msetup]. apply (setup_step_inv H); [apply (setup_frame w cfg dl (wf_base H))|exact IH].
Qed.

Theorem setup_preserves_Inv (H : WF2) fuel st ds name fwd depth just ok st' ds' :
  nodollar_paths (s_env st) -> depth_ok depth -> Inv (s_env st) ->
  msetup w cfg fuel st ds name fwd depth just = MDone ok st' ds' ->
  Inv (s_env st') /\ nodollar_paths (s_env st').
Proof.
  intros Hnd Hd HI Hrun.
  destruct (declared_dec w name) as [[p0 Hp0]|Hno].
  2:{ destruct fuel as [|fuel]; [discriminate|]. cbn [msetup] in Hrun.
      pose proof (setup_step_undeclared (msetup w cfg fuel) st ds name fwd depth just Hno) as U.
      rewrite Hrun in U. destruct U as [_ ->]. split; assumption. }
  pose proof (known_has_name name p0 Hp0) as Kn.
  pose proof (setup_inv H fuel st ds name fwd depth just Hnd Hd (fun n _ => HI n)) as I0.
  pose proof (setup_frame w cfg dl (wf_base H) fuel st ds name fwd depth just Hnd Hd) as G.
  rewrite Hrun in I0, G. destruct I0 as [L _]. destruct G as [F [D _]]. split; [|assumption].
  intro n. destruct (Nat.lt_ge_cases (rank n) (S (rank name))) as [Hlt|Hge]; [now apply L|].
  apply (frame_clause H _ (s_env st) (s_env st') n F); [| |apply HI].
  - intros x Hx ->. apply (touches_not_above H _ _ _ Hx). lia.
  - intros x Hx. now apply (touches_known (levels depth just) name x).
Qed.

End Inv.

Lemma forallb_filter_id {A} (f : A -> bool) l : forallb f l = true -> filter f l = l.
Proof.
  induction l as [|x l IH]; simpl; [reflexivity|]. intro H. apply andb_true_iff in H. destruct H as [Hx Hl].
  rewrite Hx. now rewrite IH.
Qed.
