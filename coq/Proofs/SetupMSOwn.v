(* What a call of setup (Model/Setup.v, every resolver) can do to the variables and aliases that products own,
   in positive form (C02):
     - a variable that is not a path variable is unchanged, or is owned by a mproduct name the call touches;
     - a variable that some table sets with envSet is unchanged, or unset, or holds a value some table sets it to;
     - for every mproduct name the mworld knows: NAME_DIR_EXTRA is unchanged or unset, and SETUP_NAME / NAME_DIR
       are both unchanged, or both unset, or both written for one declared mproduct of that name;
     - an alias is unchanged, or is defined by a table of a mproduct name the call touches.
   The relations are reflexive and transitive, so they hold across setup followed by unsetup. *)
From Eupsv Require Import Base.Base Base.BaseLemmas Model.PathAlg Proofs.PathAlg Model.Setup Model.SetupMS Proofs.SetupMSFrame
     Proofs.SetupMSInv.
From Coq Require Import Lia.

Section Own.
Variable w : mworld.
Variable cfg : config.
Variable dl : str -> ascii.
Variable rank : str -> nat.
Hypothesis H : WF2 w dl rank.

Notation has_name := (has_name w).
Notation own_var := (own_var w).
Notation own_alias := (own_alias w).
Notation path_var := (path_var w).
Notation set_var := (set_var w).
Notation known := (known w).
Notation touches := (touches w).
Notation nodollar_paths := (nodollar_paths w).

(* a value an envSet action can leave in k *)
Definition written (k : str) (val : option str) : Prop :=
  val = None \/ exists p v, In p w /\ In (ASet k v) (mp_actions p) /\ val = Some v.

Definition res_rel (n : str) (e e' : amap str) : Prop :=
  (alookup (extra_var n) e' = alookup (extra_var n) e \/ alookup (extra_var n) e' = None) /\
  ((alookup (setup_var n) e' = alookup (setup_var n) e /\ alookup (dir_var n) e' = alookup (dir_var n) e) \/
   (alookup (setup_var n) e' = None /\ alookup (dir_var n) e' = None) \/
   (exists p, has_name n p /\ alookup (setup_var n) e' = Some (ms_setup_string p) /\
              alookup (dir_var n) e' = Some (mp_dir p))).

Record own_rel (N : str -> Prop) (e e' : amap str) : Prop := {
  or_changed : forall k, ~ path_var k -> alookup k e' = alookup k e \/ exists n, N n /\ own_var n k;
  or_set : forall k, set_var k -> alookup k e' = alookup k e \/ written k (alookup k e');
  or_res : forall n, known n -> res_rel n e e' }.

Definition alias_rel (N : str -> Prop) (a a' : amap str) : Prop :=
  forall k, alookup k a' = alookup k a \/ exists n, N n /\ own_alias n k.

Definition st_rel (N : str -> Prop) (st st' : state) : Prop :=
  own_rel N (s_env st) (s_env st') /\ alias_rel N (s_aliases st) (s_aliases st').

Lemma res_rel_refl n e : res_rel n e e.
Proof. split; [now left|left; now split]. Qed.

Lemma res_rel_trans n e1 e2 e3 : res_rel n e1 e2 -> res_rel n e2 e3 -> res_rel n e1 e3.
Proof.
  intros [X1 M1] [X2 M2]. split.
  - destruct X2 as [X2|X2]; [rewrite X2; exact X1|now right].
  - destruct M2 as [[S2 D2]|[M2|M2]]; [|right; now left|right; now right].
    rewrite S2, D2. exact M1.
Qed.

Lemma own_rel_refl N e : own_rel N e e.
Proof. split; [now left|now left|intros; apply res_rel_refl]. Qed.

Lemma own_rel_trans N e1 e2 e3 : own_rel N e1 e2 -> own_rel N e2 e3 -> own_rel N e1 e3.
Proof.
  intros [C1 S1 R1] [C2 S2 R2]. split.
  - intros k Hk. destruct (C2 k Hk) as [E|O]; [|now right]. rewrite E. now apply C1.
  - intros k Hk. destruct (S2 k Hk) as [E|W]; [|now right]. rewrite E. now apply S1.
  - intros n Kn. exact (res_rel_trans n e1 e2 e3 (R1 n Kn) (R2 n Kn)).
Qed.

Lemma own_rel_mono (N M : str -> Prop) e e' : (forall n, N n -> M n) -> own_rel N e e' -> own_rel M e e'.
Proof.
  intros HNM [C S R]. split; [|assumption|assumption].
  intros k Hk. destruct (C k Hk) as [E|[n [Hn O]]]; [now left|right]. exists n. split; [now apply HNM|assumption].
Qed.

Lemma alias_rel_refl N a : alias_rel N a a.
Proof. intro k. now left. Qed.

Lemma alias_rel_trans N a1 a2 a3 : alias_rel N a1 a2 -> alias_rel N a2 a3 -> alias_rel N a1 a3.
Proof. intros A1 A2 k. destruct (A2 k) as [E|O]; [|now right]. rewrite E. apply A1. Qed.

Lemma alias_rel_mono (N M : str -> Prop) a a' : (forall n, N n -> M n) -> alias_rel N a a' -> alias_rel M a a'.
Proof. intros HNM A k. destruct (A k) as [E|[n [Hn O]]]; [now left|right]. exists n. split; [now apply HNM|assumption]. Qed.

Lemma st_rel_refl N st : st_rel N st st.
Proof. split; [apply own_rel_refl|apply alias_rel_refl]. Qed.

Lemma st_rel_trans N s1 s2 s3 : st_rel N s1 s2 -> st_rel N s2 s3 -> st_rel N s1 s3.
Proof.
  intros [A1 B1] [A2 B2]. split; [exact (own_rel_trans N _ _ _ A1 A2)|exact (alias_rel_trans N _ _ _ B1 B2)].
Qed.

Lemma st_rel_mono (N M : str -> Prop) st st' : (forall n, N n -> M n) -> st_rel N st st' -> st_rel M st st'.
Proof. intros HNM [A B]. split; [now apply (own_rel_mono N M)|now apply (alias_rel_mono N M)]. Qed.

(* ---------------------------------------------------------------- the reserved variables of two known names *)

Lemma reserved_apart n m : known n -> known m -> n <> m ->
  forall a b, (a = setup_var n \/ a = dir_var n \/ a = extra_var n) ->
              (b = setup_var m \/ b = dir_var m \/ b = extra_var m) -> a <> b.
Proof.
  intros Kn Km Hne a b Ha Hb E. subst b.
  assert (On : own_var n a) by (unfold SetupMSFrame.own_var; tauto).
  assert (Om : own_var m a) by (unfold SetupMSFrame.own_var; tauto).
  exact (wf_var_apart w dl rank H n m a Kn Km Hne On Om).
Qed.

(* when all keys that changed are outside the reserved variables of n, n's relation is the trivial one *)
Lemma res_rel_same n e e' :
  alookup (setup_var n) e' = alookup (setup_var n) e -> alookup (dir_var n) e' = alookup (dir_var n) e ->
  alookup (extra_var n) e' = alookup (extra_var n) e -> res_rel n e e'.
Proof. intros A B C. split; [now left|left; now split]. Qed.

Lemma set_vars_rel (N : str -> Prop) name p st :
  N name -> has_name name p ->
  own_rel N (s_env st) (s_env (mset_product_vars st name p)).
Proof.
  intros Hn Hp. pose proof (known_has_name w name p Hp) as Kname.
  unfold mset_product_vars, set_env. cbn [s_env].
  assert (Look : forall k, k <> setup_var name -> k <> dir_var name ->
            alookup k (aset (setup_var name) (ms_setup_string p) (aset (dir_var name) (mp_dir p) (s_env st)))
            = alookup k (s_env st)).
  { intros k N1 N2. rewrite alookup_aset_other by assumption. now rewrite alookup_aset_other. }
  split.
  - intros k _. destruct (str_eq_dec k (setup_var name)) as [->|N1].
    { right. exists name. split; [assumption|]. unfold SetupMSFrame.own_var. tauto. }
    destruct (str_eq_dec k (dir_var name)) as [->|N2].
    { right. exists name. split; [assumption|]. unfold SetupMSFrame.own_var. tauto. }
    left. now apply Look.
  - intros k Hk. left. apply Look.
    + intros ->. apply (wf_set_not_reserved (wf_base w dl rank H) _ Hk). exists name. tauto.
    + intros ->. apply (wf_set_not_reserved (wf_base w dl rank H) _ Hk). exists name. tauto.
  - intros n Kn. destruct (str_eq_dec n name) as [->|Nn].
    + split.
      * left. apply Look; [apply not_eq_sym, setup_extra_differ|apply not_eq_sym, dir_extra_differ].
      * right. right. exists p. split; [assumption|]. split.
        -- apply alookup_aset_same.
        -- rewrite alookup_aset_other by (apply not_eq_sym, setup_dir_differ). apply alookup_aset_same.
    + pose proof (reserved_apart n name Kn Kname Nn) as Ap.
      apply res_rel_same; apply Look; apply Ap; tauto.
Qed.

Lemma unset_vars_rel (N : str -> Prop) name st :
  N name -> known name ->
  own_rel N (s_env st) (s_env (unset_product_vars st name)).
Proof.
  intros Hn Kname. unfold unset_product_vars, unset_env. cbn [s_env].
  assert (Look : forall k, k <> setup_var name -> k <> dir_var name -> k <> extra_var name ->
            alookup k (aremove (extra_var name) (aremove (setup_var name) (aremove (dir_var name) (s_env st))))
            = alookup k (s_env st)).
  { intros k N1 N2 N3. rewrite alookup_aremove_other by assumption. rewrite alookup_aremove_other by assumption.
    now rewrite alookup_aremove_other. }
  assert (Gone : forall k, k = setup_var name \/ k = dir_var name \/ k = extra_var name ->
            alookup k (aremove (extra_var name) (aremove (setup_var name) (aremove (dir_var name) (s_env st)))) = None).
  { intros k Hk. destruct (str_eq_dec k (extra_var name)) as [->|N3]; [apply alookup_aremove_same|].
    rewrite alookup_aremove_other by assumption.
    destruct (str_eq_dec k (setup_var name)) as [->|N1]; [apply alookup_aremove_same|].
    rewrite alookup_aremove_other by assumption.
    destruct Hk as [-> | [-> | ->]]; try contradiction. apply alookup_aremove_same. }
  split.
  - intros k _.
    destruct (str_eq_dec k (setup_var name)) as [->|N1]; [right; exists name; split; [assumption|unfold SetupMSFrame.own_var; tauto]|].
    destruct (str_eq_dec k (dir_var name)) as [->|N2]; [right; exists name; split; [assumption|unfold SetupMSFrame.own_var; tauto]|].
    destruct (str_eq_dec k (extra_var name)) as [->|N3]; [right; exists name; split; [assumption|unfold SetupMSFrame.own_var; tauto]|].
    left. now apply Look.
  - intros k Hk. left. apply Look; intros ->; apply (wf_set_not_reserved (wf_base w dl rank H) _ Hk); exists name; tauto.
  - intros n Kn. destruct (str_eq_dec n name) as [->|Nn].
    + split; [right; apply Gone; tauto|]. right. left. split; apply Gone; tauto.
    + pose proof (reserved_apart n name Kn Kname Nn) as Ap.
      apply res_rel_same; apply Look; apply Ap; tauto.
Qed.

(* ---------------------------------------------------------------- the actions that are not dependencies *)

Lemma simple_rel (N : str -> Prop) name p fwd a st :
  N name -> has_name name p -> In a (mp_actions p) -> (forall o m j, a <> ASetup o m j) ->
  nodollar_paths (s_env st) ->
  exists st', exec_simple fwd a st = Ok st' /\ st_rel N st st' /\ nodollar_paths (s_env st') /\
    (forall k, reserved k -> alookup k (s_env st') = alookup k (s_env st)) /\
    (((forall k v, a <> AAlias k v) /\ s_aliases st' = s_aliases st) \/
     exists k v, a = AAlias k v /\ s_env st' = s_env st /\
                 s_aliases st' = if fwd then aset k v (s_aliases st) else aremove k (s_aliases st)).
Proof.
  intros Hn Hp Ha Hns Hnd. pose proof (known_has_name w name p Hp) as Kname.
  assert (ResSame : forall e', (forall k, reserved k -> alookup k e' = alookup k (s_env st)) ->
            forall n, known n -> res_rel n (s_env st) e').
  { intros e' R n _. apply res_rel_same; apply R; exists n; tauto. }
  destruct a as [o m j|ap var v d|k v|k|k v|]; cbn [exec_simple].
  - exfalso. now apply (Hns o m j).
  - destruct (path_step_facts w dl rank H name p ap fwd var v d (s_env st) Hp Ha Hnd) as [e' [E1 [_ [E3 [E4 _]]]]].
    rewrite E1. eexists. split; [reflexivity|]. cbn [with_env s_env s_aliases].
    assert (Hpv : path_var var) by (exists p, ap, v, d; split; [apply Hp|assumption]).
    assert (R : forall k, reserved k -> alookup k e' = alookup k (s_env st)).
    { intros k Hk. apply E4. now apply (reserved_neq_path w dl rank H var k). }
    split; [split; [split|apply alias_rel_refl]|split; [assumption|split; [assumption|left; split; [discriminate|reflexivity]]]].
    + intros k Hk. left. apply E4. intros ->. contradiction.
    + intros k Hk. left. apply E4. intros ->. exact (wf_path_not_set (wf_base w dl rank H) var Hpv Hk).
    + now apply ResSame.
  - destruct (set_step_facts w dl rank H name p fwd k v (s_env st) Hp Ha Hnd) as [E1 [_ E3]].
    rewrite E1. eexists. split; [reflexivity|]. cbn [with_env s_env s_aliases].
    assert (Hsv : set_var k) by (exists p, v; split; [apply Hp|assumption]).
    assert (Oth : forall k', k' <> k -> alookup k' (if fwd then aset k v (s_env st) else aremove k (s_env st))
                                      = alookup k' (s_env st)).
    { intros k' Nk. destruct fwd; [now apply alookup_aset_other|now apply alookup_aremove_other]. }
    assert (R : forall r, reserved r -> alookup r (if fwd then aset k v (s_env st) else aremove k (s_env st))
                                      = alookup r (s_env st)).
    { intros r Hr. apply Oth. now apply (reserved_neq_set w dl rank H k r). }
    split; [split; [split|apply alias_rel_refl]|split; [assumption|split; [assumption|left; split; [discriminate|reflexivity]]]].
    + intros k' _. destruct (str_eq_dec k' k) as [->|Nk]; [|left; now apply Oth].
      right. exists name. split; [assumption|]. exact (own_set w name p k v Hp Ha).
    + intros k' _. destruct (str_eq_dec k' k) as [->|Nk]; [|left; now apply Oth].
      right. destruct fwd.
      * right. exists p, v. split; [apply Hp|]. split; [assumption|apply alookup_aset_same].
      * left. apply alookup_aremove_same.
    + now apply ResSame.
  - exfalso. exact (wf_nounset (wf_base w dl rank H) p k (proj1 Hp) Ha).
  - eexists. split; [reflexivity|]. cbn [s_env s_aliases].
    split; [split; [apply own_rel_refl|]|split; [assumption|split; [reflexivity|]]].
    + intro k'. destruct (str_eq_dec k' k) as [->|Nk].
      * right. exists name. split; [assumption|]. exists p, v. split; assumption.
      * left. destruct fwd; [now apply alookup_aset_other|now apply alookup_aremove_other].
    + right. exists k, v. split; [reflexivity|split; reflexivity].
  - eexists. split; [reflexivity|]. split; [apply st_rel_refl|]. split; [assumption|split; [reflexivity|left; split; [discriminate|reflexivity]]].
Qed.

(* ---------------------------------------------------------------- the induction over setup *)

Definition fn_own (rec : msetup_fn) : Prop :=
  forall st ds name fwd depth just, nodollar_paths (s_env st) -> depth_ok cfg depth ->
    match rec st ds name fwd depth just with
    | MDone _ st' _ => st_rel (touches (levels cfg depth just) name) st st'
    | _ => True
    end.

Lemma run_actions_own (rec : msetup_fn) name p fwd depth just :
  fn_ok w cfg dl rec -> fn_own rec -> has_name name p -> depth_ok cfg depth ->
  forall acts, (forall a, In a acts -> In a (mp_actions p)) ->
  forall st ds, nodollar_paths (s_env st) ->
    match mrun_actions cfg rec fwd depth just acts st ds with
    | MDone _ st' _ => st_rel (touches (levels cfg depth just) name) st st'
    | _ => True
    end.
Proof.
  intros Hok Hown Hp Hdepth. set (N := touches (levels cfg depth just) name).
  assert (HNself : N name) by constructor.
  induction acts as [|a acts IH]; intros Hsub st ds Hnd; [cbn [mrun_actions]; apply st_rel_refl|].
  assert (Hsub' : forall a0, In a0 acts -> In a0 (mp_actions p)) by (intros; apply Hsub; now right).
  assert (Ha : In a (mp_actions p)) by (apply Hsub; now left).
  cbn [mrun_actions].
  assert (Simple : (forall o m j, a <> ASetup o m j) ->
            match match exec_simple fwd a st with
                  | Ok st' => mrun_actions cfg rec fwd depth just acts st' ds
                  | Err _ => MRaise st ds
                  end with
            | MDone _ st' _ => st_rel N st st'
            | _ => True
            end).
  { intro Hns. destruct (simple_rel N name p fwd a st HNself Hp Ha Hns Hnd) as [st1 [E [R [D _]]]]. rewrite E.
    pose proof (IH Hsub' st1 ds D) as R'.
    destruct (mrun_actions cfg rec fwd depth just acts st1 ds) as [ok st' ds'|st' ds'| |]; auto.
    exact (st_rel_trans N _ _ _ R R'). }
  destruct a as [o m j|ap var v d|k v|k|k v|]; try (apply Simple; discriminate).
  destruct (cut_off cfg just (S depth)) eqn:Hc; [now apply IH|].
  destruct (cut_off_false_levels cfg depth just j Hdepth Hc) as [Hpos [Hble Hd']].
  assert (Hsubset : forall k, touches (levels cfg (S depth) j) m k -> N k).
  { intros k Hk. apply (touches_step w (levels cfg depth just) name m k Hpos).
    - exists p, o, j. split; assumption.
    - now apply (touches_mono w (levels cfg (S depth) j)). }
  pose proof (Hown st ds m fwd (S depth) j Hnd Hd') as C.
  pose proof (Hok st ds m fwd (S depth) j Hnd Hd') as G.
  destruct (rec st ds m fwd (S depth) j) as [ok st' ds'|st' ds'| |]; auto.
  - destruct ok.
    + destruct G as [_ [D _]]. pose proof (IH Hsub' st' ds' D) as R'.
      destruct (mrun_actions cfg rec fwd depth just acts st' ds') as [ok2 st2 ds2|st2 ds2| |]; auto.
      exact (st_rel_trans N _ _ _ (st_rel_mono _ N _ _ Hsubset C) R').
    + destruct (fwd && negb o); [exact I|]. now apply IH.
  - destruct (fwd && negb o); [exact I|]. now apply IH.
Qed.

Lemma setup_step_own (rec : msetup_fn) : fn_ok w cfg dl rec -> fn_own rec -> fn_own (msetup_step w cfg rec).
Proof.
  intros Hok Hown st ds name fwd depth just Hnd Hdepth. set (N := touches (levels cfg depth just) name).
  assert (HNself : N name) by constructor.
  unfold msetup_step. destruct fwd.
  - destruct ds as [|[v|] ds1]; auto; [|apply st_rel_refl].
    destruct (find_pvr w name v) as [p|] eqn:Hf; auto.
    destruct (find_pvr_spec w name v p Hf) as [Hp _].
    destruct (msame_product p (mfind_setup_product w (c_flavor cfg) (s_env st) name) && negb (depth =? 0)); [apply st_rel_refl|].
    assert (H0 : match (match mfind_setup_product w (c_flavor cfg) (s_env st) name with
                        | Some _ => rec st ds1 name false depth (just || c_keep cfg)
                        | None => MDone true st ds1 end) with
                 | MDone _ st1 _ => st_rel N st st1 /\ nodollar_paths (s_env st1)
                 | _ => True end).
    { destruct (mfind_setup_product w (c_flavor cfg) (s_env st) name).
      - pose proof (Hown st ds1 name false depth (just || c_keep cfg) Hnd Hdepth) as C.
        pose proof (Hok st ds1 name false depth (just || c_keep cfg) Hnd Hdepth) as G.
        destruct (rec st ds1 name false depth (just || c_keep cfg)) as [ok st1 ds2|st1 ds2| |]; auto.
        split; [|exact (proj1 (proj2 G))].
        apply (st_rel_mono (touches (levels cfg depth (just || c_keep cfg)) name) N); [|exact C].
        intros n Hn. apply (touches_mono w _ _ _ Hn). apply levels_just_le.
      - split; [apply st_rel_refl|assumption]. }
    destruct (match mfind_setup_product w (c_flavor cfg) (s_env st) name with
              | Some _ => rec st ds1 name false depth (just || c_keep cfg)
              | None => MDone true st ds1 end) as [ok1 st1 ds2|st1 ds2| |]; auto.
    destruct H0 as [R0 D1].
    destruct (set_product_vars_ok w dl (wf_base w dl rank H) N name p st1 HNself D1) as [_ [D2 A2]].
    pose proof (run_actions_own rec name p true depth just Hok Hown Hp Hdepth (mp_actions p) (fun a Ha => Ha)
                  (mset_product_vars st1 name p) ds2 D2) as R2.
    destruct (mrun_actions cfg rec true depth just (mp_actions p) (mset_product_vars st1 name p) ds2)
      as [ok st' ds'|st' ds'| |]; auto.
    apply (st_rel_trans N st st1 st' R0). apply (st_rel_trans N st1 (mset_product_vars st1 name p) st'); [|exact R2].
    split; [now apply set_vars_rel|]. rewrite A2. apply alias_rel_refl.
  - destruct (mfind_setup_product w (c_flavor cfg) (s_env st) name) as [sp|] eqn:Hs; [|apply st_rel_refl].
    pose proof (mfind_setup_product_spec w cfg _ _ _ Hs) as Hp.
    destruct (unset_product_vars_ok w dl (wf_base w dl rank H) N name st HNself Hnd) as [_ [D1 A1]].
    pose proof (run_actions_own rec name sp false depth just Hok Hown Hp Hdepth (mp_actions sp) (fun a Ha => Ha)
                  (unset_product_vars st name) ds D1) as R2.
    destruct (mrun_actions cfg rec false depth just (mp_actions sp) (unset_product_vars st name) ds)
      as [ok st' ds'|st' ds'| |]; auto.
    apply (st_rel_trans N st (unset_product_vars st name) st'); [|exact R2].
    split; [apply unset_vars_rel; [assumption|exact (known_has_name w name sp Hp)]|]. rewrite A1. apply alias_rel_refl.
Qed.

Theorem setup_own fuel : fn_own (msetup w cfg fuel).
Proof.
  induction fuel as [|fuel IH].
  - intros st ds name fwd depth just _ _. exact I.
  - cbn [msetup]. apply setup_step_own; [apply (setup_frame w cfg dl (wf_base w dl rank H))|exact IH].
Qed.

End Own.

(* every alias (of the set Z) that is defined and that a table of a mproduct name in [reach] defines is accounted
   for: it is one of the pending names B, or a table of a mproduct that is recorded, of a name in [reach], defines it *)
Definition alias_acc (w : mworld) (cfg : config) (reach Z B : str -> Prop) (st : state) : Prop :=
  forall k v, Z k -> alookup k (s_aliases st) = Some v -> (exists n, reach n /\ own_alias w n k) ->
    B k \/ exists n q v', reach n /\ mfind_setup_product w (c_flavor cfg) (s_env st) n = Some q /\ In (AAlias k v') (mp_actions q).
