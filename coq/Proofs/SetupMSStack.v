(* What is specific to several stacks in the setup model Model/SetupMS.v (C01, C02, C04):
     - the declaration that SETUP_NAME records is found in the stack it records, whatever the other stacks
       declare under the same name and version (recorded_product_found);
     - unsetup executes the table of THAT declaration (unsetup_step_recorded);
     - a two-stack world with the same name and version in both stacks, on which the hypotheses of the theorems
       hold (ms_world ... used by the Examples of Props/C01.v, C02.v, C04.v). *)
From Eupsv Require Import Base.Base Base.BaseLemmas Model.PathAlg Proofs.PathAlg Model.Setup Model.SetupMS
     Proofs.SetupMSFrame Proofs.SetupMSInv.
From Coq Require Import Lia.

Definition key_of (p : mproduct) : vref := mkVref (mp_version p) (mp_root p).

Lemma find_pvr_some (l : mworld) p : In p l -> exists q, find_pvr l (mp_name p) (key_of p) = Some q.
Proof.
  induction l as [|p0 l IH]; [intros []|]. intros [->|Hin]; cbn [find_pvr].
  - unfold mp_is, key_of. cbn [vr_version vr_root]. rewrite !str_eqb_refl. now exists p.
  - destruct (mp_is (mp_name p) (key_of p) p0); [now exists p0|now apply IH].
Qed.

Lemma find_pvr_complete w dl rank p : WF2 w dl rank -> In p w -> find_pvr w (mp_name p) (key_of p) = Some p.
Proof.
  intros H Hin. destruct (find_pvr_some w p Hin) as [q E]. rewrite E. f_equal.
  destruct (find_pvr_in w _ _ q E) as [Hq [Hn [Hv Hr]]]. now apply (wf_keys w dl rank H).
Qed.

(* findSetupProduct on an environment in which SETUP_NAME holds what Eups.setup wrote for the declaration p: it is p
   that is found - in the stack recorded, under the flavor recorded - and not a declaration of the same name and
   version in a stack that comes earlier on the path *)
Lemma recorded_product_found w dl rank native e p :
  WF2 w dl rank -> In p w ->
  alookup (setup_var (mp_name p)) e = Some (ms_setup_string p) ->
  mfind_setup_product w native e (mp_name p) = Some p.
Proof.
  intros H Hin E. unfold mfind_setup_product. rewrite E.
  destruct (wf_words w dl rank H p Hin) as [Wn [Wv [Wf [Wfl Wr]]]].
  rewrite (recorded_setup_string p Wn Wv Wf Wfl Wr).
  change (mkVref (mp_version p) (mp_root p)) with (key_of p).
  rewrite (find_pvr_complete w dl rank p H Hin). now rewrite str_eqb_refl.
Qed.

(* two declarations of one name that are both recorded by the same value are the same declaration: the value
   determines version, flavor and stack *)
Lemma record_determines_declaration w dl rank p q :
  WF2 w dl rank -> In p w -> In q w -> mp_name p = mp_name q -> ms_setup_string p = ms_setup_string q -> p = q.
Proof.
  intros H Hp Hq Hn E.
  destruct (wf_words w dl rank H p Hp) as [Wn [Wv [Wf [Wfl Wr]]]].
  destruct (wf_words w dl rank H q Hq) as [Vn [Vv [Vf [Vfl Vr]]]].
  pose proof (recorded_setup_string p Wn Wv Wf Wfl Wr) as R1.
  pose proof (recorded_setup_string q Vn Vv Vf Vfl Vr) as R2.
  rewrite E, R2 in R1. injection R1 as E1 E2 E3. symmetry. now apply (wf_keys w dl rank H).
Qed.

(* the unsetup branch of Eups.setup: the table undone is the one of the recorded declaration *)
Lemma unsetup_step_recorded w cfg dl rank rec st ds depth just p :
  WF2 w dl rank -> In p w ->
  alookup (setup_var (mp_name p)) (s_env st) = Some (ms_setup_string p) ->
  msetup_step w cfg rec st ds (mp_name p) false depth just =
  mrun_actions cfg rec false depth just (mp_actions p) (unset_product_vars st (mp_name p)) ds.
Proof.
  intros H Hin E. unfold msetup_step.
  now rewrite (recorded_product_found w dl rank (c_flavor cfg) (s_env st) p H Hin E).
Qed.

(* ---------------------------------------------------------------- a two-stack world *)

Definition c_colon : ascii := ":"%char.

(* lib 1.0 is declared in the stack /sA and in the stack /s B (a blank in its root), with different directories
   and tables; lib 2.0 only in the second; app 1.0 (first stack) requires lib *)
Definition ms_libA : mproduct :=
  {| mp_name := lit "lib"; mp_version := lit "1.0"; mp_root := lit "/sA"; mp_flavor := lit "Linux64";
     mp_dir := lit "/sA/Linux64/lib/1.0";
     mp_actions := [APath false (lit "PATH") (lit "/sA/Linux64/lib/1.0/bin") c_colon;
                    ASet (lit "LIB_STACK") (lit "/sA/share")] |}.
Definition ms_libB : mproduct :=
  {| mp_name := lit "lib"; mp_version := lit "1.0"; mp_root := lit "/s B"; mp_flavor := lit "generic";
     mp_dir := lit "/s B/generic/lib/1.0";
     mp_actions := [APath false (lit "PATH") (lit "/s B/generic/lib/1.0/bin2") c_colon;
                    ASet (lit "LIB_STACK") (lit "/s B/ups_db/x");
                    AAlias (lit "run_lib") (lit "echo second")] |}.
Definition ms_lib2 : mproduct :=
  {| mp_name := lit "lib"; mp_version := lit "2.0"; mp_root := lit "/s B"; mp_flavor := lit "Linux64";
     mp_dir := lit "/s B/Linux64/lib/2.0";
     mp_actions := [APath false (lit "PATH") (lit "/s B/Linux64/lib/2.0/bin") c_colon] |}.
Definition ms_app : mproduct :=
  {| mp_name := lit "app"; mp_version := lit "1.0"; mp_root := lit "/sA"; mp_flavor := lit "Linux64";
     mp_dir := lit "/sA/Linux64/app/1.0";
     mp_actions := [ASetup false (lit "lib") false;
                    APath false (lit "PATH") (lit "/sA/Linux64/app/1.0/bin") c_colon] |}.

Definition ms_world : mworld := [ms_libA; ms_libB; ms_lib2; ms_app].
Definition ms_order : list str := [lit "lib"; lit "app"].
Definition ms_cfg : config :=
  {| c_flavor := lit "Linux64"; c_root := lit "/sA"; c_max_depth := None; c_keep := false; c_flavors := [] |}.
Definition ms_st0 : state := {| s_env := []; s_aliases := [] |}.

(* setup lib with the decision (1.0, second stack): found in the second stack although the first declares 1.0 too *)
Definition ms_stB : state :=
  {| s_env := [ (lit "LIB_DIR", lit "/s B/generic/lib/1.0");
                (lit "SETUP_LIB", lit "lib 1.0 -f generic -Z /s-+-B");
                (lit "PATH", lit "/s B/generic/lib/1.0/bin2");
                (lit "LIB_STACK", lit "/s B/ups_db/x") ];
     s_aliases := [ (lit "run_lib", lit "echo second") ] |}.

(* then setup app (decisions: app 1.0 of the first stack, lib 1.0 OF THE FIRST STACK): the dependency finds lib
   already set up - the same version - and SETUP_LIB keeps the second stack *)
Definition ms_stApp : state :=
  {| s_env := [ (lit "LIB_DIR", lit "/s B/generic/lib/1.0");
                (lit "SETUP_LIB", lit "lib 1.0 -f generic -Z /s-+-B");
                (lit "PATH", lit "/sA/Linux64/app/1.0/bin:/s B/generic/lib/1.0/bin2");
                (lit "LIB_STACK", lit "/s B/ups_db/x");
                (lit "APP_DIR", lit "/sA/Linux64/app/1.0");
                (lit "SETUP_APP", lit "app 1.0 -f Linux64 -Z /sA") ];
     s_aliases := [ (lit "run_lib", lit "echo second") ] |}.

(* setup lib at the top level with the decision (1.0, first stack) from ms_stB: the second stack's table is undone,
   the first stack's executed *)
Definition ms_stA : state :=
  {| s_env := [ (lit "PATH", lit "/sA/Linux64/lib/1.0/bin");
                (lit "LIB_DIR", lit "/sA/Linux64/lib/1.0");
                (lit "SETUP_LIB", lit "lib 1.0 -f Linux64 -Z /sA");
                (lit "LIB_STACK", lit "/sA/share") ];
     s_aliases := [] |}.

(* unsetup lib from ms_stB *)
Definition ms_stNone : state := {| s_env := [ (lit "PATH", []) ]; s_aliases := [] |}.
