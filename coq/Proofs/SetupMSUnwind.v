(* The unsetup traversal of Model/Setup.v reaches every mproduct the environment records below the requested
   one (C02): if every recorded mproduct reachable from [top] - other than [top] itself - is named by a
   dependency line of the table of another recorded reachable mproduct (PJ), and those tables have no -j line
   (NJ), then after  unsetup top  (no --max-depth, no --just) no reachable mproduct is recorded; and every alias
   that was accounted for by a recorded reachable mproduct (alias_acc) is gone.

   The argument: the unsetup of a recorded mproduct x first removes its record, which leaves the products its
   table names justified only by the lines still to be processed; each line either finds its mproduct
   unrecorded (nothing happens) or unsets it, with everything justified through it, recursively.  The records
   only shrink.  At the end every recorded reachable mproduct would have a recorded reachable parent, of higher
   rank, and [top], of highest rank, is not recorded. *)
From Eupsv Require Import Base.Base Base.BaseLemmas Model.PathAlg Proofs.PathAlg Model.Setup Model.SetupMS Proofs.SetupMSFrame
     Proofs.SetupMSInv Proofs.SetupMSOwn.
From Coq Require Import Lia.

Section Unwind.
Variable w : mworld.
Variable cfg : config.
Variable dl : str -> ascii.
Variable rank : str -> nat.
Variable top : str.
Variable Z : str -> Prop.
Hypothesis H : WF2 w dl rank.
Hypothesis Hdepth : c_max_depth cfg = None.

Notation has_name := (has_name w).
Notation known := (known w).
Notation nodollar_paths := (nodollar_paths w).

Definition reach (n : str) : Prop := touches w None top n.
Definition rec_ (e : amap str) (n : str) (q : mproduct) : Prop := mfind_setup_product w (c_flavor cfg) e n = Some q.

Definition NJ (e : amap str) : Prop :=
  forall n q o x j, reach n -> rec_ e n q -> In (ASetup o x j) (mp_actions q) -> j = false.
Definition PJ (A : str -> Prop) (e : amap str) : Prop :=
  forall k q, reach k -> rec_ e k q ->
    A k \/ exists n qn o j, reach n /\ rec_ e n qn /\ In (ASetup o k j) (mp_actions qn).
Definition shrinks (e e' : amap str) : Prop := forall k q, rec_ e' k q -> rec_ e k q.
Notation AJ := (alias_acc w cfg reach Z).

Definition targets (acts : list action) (k : str) : Prop := exists o j, In (ASetup o k j) acts.
Definition aliases_of (acts : list action) (k : str) : Prop := exists v, In (AAlias k v) acts.

Lemma shrinks_refl e : shrinks e e.
Proof. intros k q R. exact R. Qed.
Lemma shrinks_trans e1 e2 e3 : shrinks e1 e2 -> shrinks e2 e3 -> shrinks e1 e3.
Proof. intros A B k q R. apply A. now apply B. Qed.
Lemma NJ_shrinks e e' : shrinks e e' -> NJ e -> NJ e'.
Proof. intros S N n q o x j Rn Rq Hin. exact (N n q o x j Rn (S n q Rq) Hin). Qed.

Lemma reach_step n q o x j : reach n -> has_name n q -> In (ASetup o x j) (mp_actions q) -> reach x.
Proof.
  intros R Hq Hin. unfold reach in *.
  assert (T : forall a b, touches w None a b -> forall c, touches w None b c -> touches w None a c).
  { intros a b Tab. remember (@None nat) as bud eqn:Eb. induction Tab as [b0 n0|b0 n0 m0 k0 Hpos He Ht IH]; intros c Hc; [assumption|].
    subst b0. apply (t_dep w None n0 m0 c I He). now apply IH. }
  apply (T top n R). apply (t_dep w None n x x I); [|constructor]. now exists q, o, j.
Qed.

Lemma cut_off_plain depth : cut_off cfg false depth = false.
Proof. unfold cut_off. now rewrite Hdepth. Qed.

Definition unwind_post (A B : str -> Prop) (st : state) (x : str) (r : mresult) : Prop :=
  match r with
  | MDone ok st' _ =>
      shrinks (s_env st) (s_env st') /\ nodollar_paths (s_env st') /\
      mfind_setup_product w (c_flavor cfg) (s_env st') x = None /\ PJ A (s_env st') /\ AJ B st' /\
      (ok = false -> st' = st)
  | MRaise _ _ => False
  | _ => True
  end.

Definition unwind_fn (rec : msetup_fn) : Prop :=
  forall (A B : str -> Prop) st ds x depth,
    reach x -> nodollar_paths (s_env st) -> NJ (s_env st) -> PJ A (s_env st) -> AJ B st ->
    unwind_post A B st x (rec st ds x false depth false).

Definition run_post (A B : str -> Prop) (st : state) (r : mresult) : Prop :=
  match r with
  | MDone _ st' _ => shrinks (s_env st) (s_env st') /\ nodollar_paths (s_env st') /\ PJ A (s_env st') /\ AJ B st'
  | MRaise _ _ => False
  | _ => True
  end.

Lemma run_post_step A B st st1 r : shrinks (s_env st) (s_env st1) -> run_post A B st1 r -> run_post A B st r.
Proof.
  intro S. destruct r as [ok st' ds'|st' ds'| |]; cbn [run_post]; auto.
  intros [S' R]. split; [exact (shrinks_trans _ _ _ S S')|exact R].
Qed.

Lemma run_unwind (rec : msetup_fn) (A B : str -> Prop) x q depth :
  unwind_fn rec -> has_name x q -> reach x ->
  (forall o y j, In (ASetup o y j) (mp_actions q) -> j = false) ->
  forall acts, (forall a, In a acts -> In a (mp_actions q)) ->
  forall st ds, nodollar_paths (s_env st) -> NJ (s_env st) ->
    PJ (fun k => A k \/ targets acts k) (s_env st) -> AJ (fun k => B k \/ aliases_of acts k) st ->
    run_post A B st (mrun_actions cfg rec false depth false acts st ds).
Proof.
  intros HU Hq Rx Hj. induction acts as [|a acts IH]; intros Hsub st ds Hnd HN HP HA.
  - cbn [mrun_actions run_post]. split; [apply shrinks_refl|]. split; [assumption|]. split.
    + intros k qk Rk Rq. destruct (HP k qk Rk Rq) as [[Ak|[o [j []]]]|P]; [now left|now right].
    + intros k v Zk E O. destruct (HA k v Zk E O) as [[Bk|[v0 []]]|P]; [now left|now right].
  - assert (Hsub' : forall a0, In a0 acts -> In a0 (mp_actions q)) by (intros; apply Hsub; now right).
    assert (Ha : In a (mp_actions q)) by (apply Hsub; now left).
    cbn [mrun_actions].
    (* an action that is not a dependency: the records stay; an alias may go *)
    assert (Simple : (forall o m j, a <> ASetup o m j) ->
              run_post A B st match exec_simple false a st with
                              | Ok st' => mrun_actions cfg rec false depth false acts st' ds
                              | Err _ => MRaise st ds
                              end).
    { intro Hns.
      destruct (simple_rel w dl rank H (eq x) x q false a st eq_refl Hq Ha Hns Hnd) as [st1 [E [_ [Dn [Res Al]]]]].
      rewrite E.
      assert (F : forall n, mfind_setup_product w (c_flavor cfg) (s_env st1) n = mfind_setup_product w (c_flavor cfg) (s_env st) n).
      { intro n. unfold mfind_setup_product. rewrite Res; [reflexivity|]. exists n. tauto. }
      assert (Same : forall n qn, rec_ (s_env st1) n qn <-> rec_ (s_env st) n qn).
      { intros n qn. unfold rec_. now rewrite F. }
      apply (run_post_step A B st st1); [intros k qk R; now apply Same|].
      apply IH; auto.
      - intros n qn o y j Rn Rq. apply (HN n qn o y j Rn). now apply Same.
      - intros k qk Rk Rq. apply Same in Rq. destruct (HP k qk Rk Rq) as [[Ak|[o [j [Eq|Hin]]]]|[n [qn [o [j [Rn [Rqn Hin]]]]]]].
        + left. now left.
        + exfalso. exact (Hns o k j Eq).
        + left. right. now exists o, j.
        + right. exists n, qn, o, j. split; [assumption|]. split; [now apply Same|assumption].
      - destruct Al as [[Hna EA]|[k0 [v0 [-> [EE EA]]]]].
        + intros k v Zk E' O. rewrite EA in E'.
          destruct (HA k v Zk E' O) as [[Bk|[v1 [Eq|Hin]]]|[n [qn [v1 [Rn [Rqn Hin]]]]]].
          * left. now left.
          * exfalso. exact (Hna k v1 Eq).
          * left. right. now exists v1.
          * right. exists n, qn, v1. split; [assumption|]. split; [now apply Same|assumption].
        + intros k v Zk E' O. rewrite EA in E'. destruct (str_eq_dec k k0) as [->|Nk].
          * rewrite alookup_aremove_same in E'. discriminate.
          * rewrite alookup_aremove_other in E' by assumption.
            destruct (HA k v Zk E' O) as [[Bk|[v1 [Eq|Hin]]]|[n [qn [v1 [Rn [Rqn Hin]]]]]].
            -- left. now left.
            -- injection Eq as Ek _. exfalso. apply Nk. now symmetry.
            -- left. right. now exists v1.
            -- right. exists n, qn, v1. split; [assumption|]. split; [now apply Same|assumption]. }
    destruct a as [o y j|ap var v d|k v|k|k v|]; try (apply Simple; discriminate).
    pose proof (Hj o y j Ha) as ->. rewrite cut_off_plain.
    assert (Ry : reach y) by exact (reach_step x q o y false Rx Hq Ha).
    pose proof (HU (fun k => A k \/ targets (ASetup o y false :: acts) k)
                   (fun k => B k \/ aliases_of (ASetup o y false :: acts) k) st ds y (S depth) Ry Hnd HN HP HA) as C.
    (* what the line leaves behind, from the state the loop goes on with *)
    assert (Next : forall st1, shrinks (s_env st) (s_env st1) -> nodollar_paths (s_env st1) ->
              mfind_setup_product w (c_flavor cfg) (s_env st1) y = None ->
              PJ (fun k => A k \/ targets (ASetup o y false :: acts) k) (s_env st1) ->
              AJ (fun k => B k \/ aliases_of (ASetup o y false :: acts) k) st1 ->
              forall ds1, run_post A B st (mrun_actions cfg rec false depth false acts st1 ds1)).
    { intros st1 S1 D1 Ny P1 A1 ds1. apply (run_post_step A B st st1 _ S1). apply IH; auto.
      - exact (NJ_shrinks _ _ S1 HN).
      - intros k qk Rk Rq. destruct (P1 k qk Rk Rq) as [[Ak|[o0 [j0 [Eq|Hin]]]]|P]; [left; now left| |left; right; now exists o0, j0|now right].
        injection Eq as _ <- _. unfold rec_ in Rq. rewrite Ny in Rq. discriminate.
      - intros k v Zk E O. destruct (A1 k v Zk E O) as [[Bk|[v1 [Eq|Hin]]]|P]; [left; now left|discriminate|left; right; now exists v1|now right]. }
    destruct (rec st ds y false (S depth) false) as [ok st' ds'|st' ds'| |]; cbn [unwind_post] in C; auto; try contradiction.
    destruct C as [S1 [D1 [Ny [P1 [A1 Eqst]]]]]. destruct ok.
    + now apply Next.
    + cbn [andb]. specialize (Eqst eq_refl). subst st'. now apply Next.
Qed.

(* the loop over a table ends in success or raises *)
Lemma run_actions_done_true (rec : msetup_fn) fwd depth just acts :
  forall st ds ok st' ds', mrun_actions cfg rec fwd depth just acts st ds = MDone ok st' ds' -> ok = true.
Proof.
  induction acts as [|a acts IH]; intros st ds ok st' ds'; cbn [mrun_actions].
  - intro E. now injection E as <- _ _.
  - destruct a as [o m j|ap var v d|k v|k|k v|];
      try (destruct (exec_simple fwd _ st); [apply IH|discriminate]).
    destruct (cut_off cfg just (S depth)); [apply IH|].
    destruct (rec st ds m fwd (S depth) j) as [[|] st1 ds1|st1 ds1| |]; try discriminate; try apply IH;
      destruct (fwd && negb o); try discriminate; apply IH.
Qed.

Lemma unwind_step (rec : msetup_fn) : unwind_fn rec -> unwind_fn (msetup_step w cfg rec).
Proof.
  intros HU A B st ds x depth Rx Hnd HN HP HA. unfold msetup_step.
  destruct (mfind_setup_product w (c_flavor cfg) (s_env st) x) as [q|] eqn:Hs.
  2:{ cbn [unwind_post]. split; [apply shrinks_refl|]. split; [assumption|]. split; [assumption|]. auto. }
  pose proof (mfind_setup_product_spec w cfg _ _ _ Hs) as Hq. pose proof (known_has_name w x q Hq) as Kx.
  set (st1 := unset_product_vars st x).
  destruct (unset_product_vars_ok w dl (wf_base w dl rank H) (eq x) x st eq_refl Hnd) as [_ [D1 A1]]. fold st1 in D1, A1.
  assert (Nx : mfind_setup_product w (c_flavor cfg) (s_env st1) x = None).
  { apply find_none_when_unset. unfold st1, unset_product_vars, unset_env. cbn [s_env].
    rewrite alookup_aremove_other by apply setup_extra_differ. apply alookup_aremove_same. }
  assert (Other : forall n, n <> x -> known n -> mfind_setup_product w (c_flavor cfg) (s_env st1) n = mfind_setup_product w (c_flavor cfg) (s_env st) n).
  { intros n Nn Kn. pose proof (unset_vars_rel w dl rank H (eq x) x st eq_refl Kx) as R.
    destruct (or_res w (eq x) _ _ R n Kn) as [_ M]. unfold mfind_setup_product. fold st1 in M.
    destruct M as [[S _]|[[S _]|[p [_ [S _]]]]].
    - now rewrite S.
    - (* impossible: the variables of another known name are not touched *)
      pose proof (reserved_apart w dl rank H n x Kn Kx Nn) as Ap.
      assert (E : alookup (setup_var n) (s_env st1) = alookup (setup_var n) (s_env st)).
      { unfold st1, unset_product_vars, unset_env. cbn [s_env].
        rewrite !alookup_aremove_other; [reflexivity| | |]; apply Ap; tauto. }
      now rewrite E.
    - pose proof (reserved_apart w dl rank H n x Kn Kx Nn) as Ap.
      assert (E : alookup (setup_var n) (s_env st1) = alookup (setup_var n) (s_env st)).
      { unfold st1, unset_product_vars, unset_env. cbn [s_env].
        rewrite !alookup_aremove_other; [reflexivity| | |]; apply Ap; tauto. }
      now rewrite E. }
  assert (Known : forall n qn e, rec_ e n qn -> known n).
  { intros n qn e R. exact (known_has_name w n qn (mfind_setup_product_spec w cfg e n qn R)). }
  assert (S1 : shrinks (s_env st) (s_env st1)).
  { intros k qk R. unfold rec_ in *. destruct (str_eq_dec k x) as [->|Nk]; [rewrite Nx in R; discriminate|].
    now rewrite <- (Other k Nk (Known k qk _ R)). }
  assert (Keep : forall n qn, n <> x -> rec_ (s_env st) n qn -> rec_ (s_env st1) n qn).
  { intros n qn Nn R. unfold rec_ in *. now rewrite (Other n Nn (Known n qn _ R)). }
  pose proof (run_unwind rec A B x q depth HU Hq Rx (fun o y j Hin => HN x q o y j Rx Hs Hin)
                (mp_actions q) (fun a Ha => Ha) st1 ds D1 (NJ_shrinks _ _ S1 HN)) as R.
  assert (P1 : PJ (fun k => A k \/ targets (mp_actions q) k) (s_env st1)).
  { intros k qk Rk Rq. destruct (HP k qk Rk (S1 k qk Rq)) as [Ak|[n [qn [o [j [Rn [Rqn Hin]]]]]]]; [left; now left|].
    destruct (str_eq_dec n x) as [->|Nn].
    - unfold rec_ in Rqn. rewrite Hs in Rqn. injection Rqn as <-. left. right. now exists o, j.
    - right. exists n, qn, o, j. split; [assumption|]. split; [now apply Keep|assumption]. }
  assert (A1' : AJ (fun k => B k \/ aliases_of (mp_actions q) k) st1).
  { intros k v Zk E O. rewrite A1 in E. destruct (HA k v Zk E O) as [Bk|[n [qn [v1 [Rn [Rqn Hin]]]]]]; [left; now left|].
    destruct (str_eq_dec n x) as [->|Nn].
    - rewrite Hs in Rqn. injection Rqn as <-. left. right. now exists v1.
    - right. exists n, qn, v1. split; [assumption|]. split; [exact (Keep n qn Nn Rqn)|assumption]. }
  specialize (R P1 A1').
  destruct (mrun_actions cfg rec false depth false (mp_actions q) st1 ds) as [ok st' ds'|st' ds'| |] eqn:ER;
    cbn [run_post unwind_post] in *; auto.
  destruct R as [S' [D' [P' A']]].
  split; [exact (shrinks_trans _ _ _ S1 S')|]. split; [assumption|]. split.
  - destruct (mfind_setup_product w (c_flavor cfg) (s_env st') x) as [qx|] eqn:E; [|reflexivity].
    pose proof (S' x qx E) as E1. unfold rec_ in E1. rewrite Nx in E1. discriminate.
  - split; [assumption|]. split; [assumption|].
    intro Eok. rewrite (run_actions_done_true _ _ _ _ _ _ _ _ _ _ ER) in Eok. discriminate.
Qed.

Theorem unwind_setup fuel : unwind_fn (msetup w cfg fuel).
Proof.
  induction fuel as [|fuel IH].
  - intros A B st ds x depth _ _ _ _ _. exact I.
  - cbn [msetup]. now apply unwind_step.
Qed.

(* unsetup top: nothing reachable stays recorded, no accounted alias stays defined *)
Theorem unwind_clears fuel st1 ds ok st2 ds' :
  nodollar_paths (s_env st1) -> NJ (s_env st1) -> PJ (eq top) (s_env st1) -> AJ (fun _ => False) st1 ->
  msetup w cfg fuel st1 ds top false 0 false = MDone ok st2 ds' ->
  (forall k, reach k -> mfind_setup_product w (c_flavor cfg) (s_env st2) k = None) /\
  (forall k v, Z k -> alookup k (s_aliases st2) = Some v -> ~ exists n, reach n /\ own_alias w n k) /\
  shrinks (s_env st1) (s_env st2).
Proof.
  intros Hnd HN HP HA E.
  assert (Rtop : reach top) by constructor.
  pose proof (unwind_setup fuel (eq top) (fun _ => False) st1 ds top 0 Rtop Hnd HN HP HA) as U.
  rewrite E in U. cbn [unwind_post] in U. destruct U as [S [D [Ntop [P [A _]]]]].
  assert (Clear : forall d k q, rank top - rank k <= d -> reach k -> rec_ (s_env st2) k q -> False).
  { induction d as [|d IH]; intros k q Hd Rk Rq.
    - destruct (touches_rank w dl rank H None top k Rk) as [->|Lt]; [|lia].
      unfold rec_ in Rq. rewrite Ntop in Rq. discriminate.
    - destruct (P k q Rk Rq) as [<-|[n [qn [o [j [Rn [Rqn Hin]]]]]]].
      + unfold rec_ in Rq. rewrite Ntop in Rq. discriminate.
      + assert (Lt : rank k < rank n).
        { apply (wf_rank w dl rank H n k). exists qn, o, j. split; [|assumption].
          exact (mfind_setup_product_spec w cfg _ _ _ Rqn). }
        apply (IH n qn); [|assumption|assumption].
        destruct (touches_rank w dl rank H None top n Rn) as [->|Ln]; lia. }
  assert (None_ : forall k, reach k -> mfind_setup_product w (c_flavor cfg) (s_env st2) k = None).
  { intros k Rk. destruct (mfind_setup_product w (c_flavor cfg) (s_env st2) k) as [q|] eqn:Eq; [|reflexivity].
    exfalso. exact (Clear (rank top - rank k) k q (le_n _) Rk Eq). }
  split; [exact None_|]. split; [|exact S].
  intros k v Zk Ek O. destruct (A k v Zk Ek O) as [[]|[n [q [v1 [Rn [Rq _]]]]]].
  rewrite (None_ n Rn) in Rq. discriminate.
Qed.

End Unwind.
