(* Soundness of the checker of Model/SetupWf.v: a mworld that passes it satisfies the hypotheses WF
   (Proofs/SetupMSFrame.v) and WF2 (Proofs/SetupMSInv.v) of the setup theorems, with the delimiter function
   and the rank function the checker computes. *)
From Eupsv Require Import Base.Base Base.BaseLemmas Model.PathAlg Proofs.PathAlg Model.Setup Model.SetupMS.
From Eupsv Require Import Proofs.SetupMSFrame Proofs.SetupMSInv Model.SetupMSWf.
From Coq Require Import Lia.

(* ---------------------------------------------------------------- the entries of a table *)

Lemma path_entries_In p var v d :
  In (var, v, d) (mpath_entries p) <-> exists ap, In (APath ap var v d) (mp_actions p).
Proof.
  unfold mpath_entries. rewrite in_flat_map. split.
  - intros [a [Ha Hx]]. destruct a as [o n j|ap var' v' d'|k x|k|k x|]; cbn [In] in Hx; try contradiction.
    destruct Hx as [E|[]]. injection E as -> -> ->. now exists ap.
  - intros [ap Ha]. exists (APath ap var v d). split; [assumption|now left].
Qed.

Lemma set_entries_In p k v : In (k, v) (mset_entries p) <-> In (ASet k v) (mp_actions p).
Proof.
  unfold mset_entries. rewrite in_flat_map. split.
  - intros [a [Ha Hx]]. destruct a as [o n j|ap var' v' d'|k' x|k'|k' x|]; cbn [In] in Hx; try contradiction.
    destruct Hx as [E|[]]. injection E as -> ->. assumption.
  - intro Ha. exists (ASet k v). split; [assumption|now left].
Qed.

Lemma dep_targets_In p m : In m (mdep_targets p) <-> exists o j, In (ASetup o m j) (mp_actions p).
Proof.
  unfold mdep_targets. rewrite in_flat_map. split.
  - intros [a [Ha Hx]]. destruct a as [o n j|ap var' v' d'|k' x|k'|k' x|]; cbn [In] in Hx; try contradiction.
    destruct Hx as [E|[]]. subst n. now exists o, j.
  - intros [o [j Ha]]. exists (ASetup o m j). split; [assumption|now left].
Qed.

Lemma elem_pairs_In p var v :
  In (var, v) (melem_pairs p) <-> exists ap d, In (APath ap var v d) (mp_actions p).
Proof.
  unfold melem_pairs. rewrite in_map_iff. split.
  - intros [[[a b] c] [E Hin]]. cbn [fst snd] in E. injection E as -> ->.
    apply path_entries_In in Hin. destruct Hin as [ap Ha]. now exists ap, c.
  - intros [ap [d Ha]]. exists (var, v, d). split; [reflexivity|]. apply path_entries_In. now exists ap.
Qed.

(* ---------------------------------------------------------------- helpers *)

Lemma pair_eqb_eq a b : mpair_eqb a b = true <-> a = b.
Proof.
  destruct a as [a1 a2], b as [b1 b2]. unfold mpair_eqb. cbn [fst snd].
  rewrite andb_true_iff, !str_eqb_eq. split; [intros [-> ->]; reflexivity|intro E; injection E; auto].
Qed.

Lemma disjoint_str_spec a b : mdisjoint_str a b = true -> forall x, In x a -> In x b -> False.
Proof.
  unfold mdisjoint_str. rewrite forallb_forall. intros H x Ha Hb.
  specialize (H x Ha). apply negb_true_iff in H. apply mem_str_not_In in H. contradiction.
Qed.

Lemma disjoint_pair_spec a b : mdisjoint_pair a b = true -> forall x, In x a -> In x b -> False.
Proof.
  unfold mdisjoint_pair. rewrite forallb_forall. intros H x Ha Hb.
  specialize (H x Ha). apply negb_true_iff in H.
  assert (T : existsb (mpair_eqb x) b = true) by (apply existsb_exists; exists x; split; [assumption|now apply pair_eqb_eq]).
  rewrite T in H. discriminate.
Qed.

Lemma ends_with_refl p x : ends_with p (x ++ p) = true.
Proof. unfold ends_with. rewrite rev_app_distr. apply starts_with_refl. Qed.

(* the syntactic test covers every variable reserved for some name *)
Lemma reserved_maybe k : reserved k -> mmaybe_reserved k = true.
Proof.
  intros [n [E|[E|E]]]; subst k; unfold mmaybe_reserved, setup_var, dir_var, extra_var.
  - now rewrite starts_with_refl.
  - rewrite (ends_with_refl (lit "_DIR")). now rewrite orb_true_r.
  - rewrite (ends_with_refl (lit "_DIR_EXTRA")). now rewrite !orb_true_r.
Qed.

Lemma keys_sound (l : mworld) :
  mcheck_keys l = true ->
  forall p q, In p l -> In q l -> mp_name p = mp_name q -> mp_version p = mp_version q -> mp_root p = mp_root q -> p = q.
Proof.
  induction l as [|a l IH]; cbn [mcheck_keys]; [intros _ p q []|].
  intro H. apply andb_true_iff in H. destruct H as [Hn Hl]. apply negb_true_iff in Hn.
  assert (Hno : forall x, In x l -> mp_name x = mp_name a -> mp_version x = mp_version a -> mp_root x = mp_root a -> False).
  { intros x Hx E1 E2 E3.
    assert (T : existsb (fun q => str_eqb (mp_name q) (mp_name a) && str_eqb (mp_version q) (mp_version a) &&
                                  str_eqb (mp_root q) (mp_root a)) l = true).
    { apply existsb_exists. exists x. split; [assumption|]. rewrite E1, E2, E3, !str_eqb_refl. reflexivity. }
    rewrite T in Hn. discriminate. }
  intros p q [<-|Hp] [<-|Hq] En Ev Er.
  - reflexivity.
  - exfalso. now apply (Hno q Hq).
  - exfalso. now apply (Hno p Hp).
  - now apply IH.
Qed.

Lemma word_ok_word x : mword_ok x = true -> word x.
Proof.
  unfold mword_ok, word. intro H. apply andb_true_iff in H. destruct H as [H1 H2]. split.
  - intros ->. discriminate.
  - now apply negb_true_iff.
Qed.

(* ---------------------------------------------------------------- the fields, one by one *)

Section Sound.
Variable w : mworld.
Variable order : list str.

Lemma actions_sound :
  mcheck_actions w = true -> forall p a, In p w -> In a (mp_actions p) -> maction_ok w a = true.
Proof.
  unfold mcheck_actions. rewrite forallb_forall. intros H p a Hp Ha.
  specialize (H p Hp). rewrite forallb_forall in H. now apply H.
Qed.

Lemma path_var_In var : path_var w var -> In var (mpath_vars w).
Proof.
  unfold path_var, mpath_vars. intros [p [ap [v [d [Hp Ha]]]]].
  apply in_map_iff. exists (var, v, d). split; [reflexivity|].
  apply in_flat_map. exists p. split; [assumption|]. apply path_entries_In. now exists ap.
Qed.

Lemma set_var_In k : set_var w k -> In k (mset_vars w).
Proof.
  unfold set_var, mset_vars. intros [p [v [Hp Ha]]].
  apply in_map_iff. exists (k, v). split; [reflexivity|].
  apply in_flat_map. exists p. split; [assumption|]. now apply set_entries_In.
Qed.

Lemma wf_sound : mcheck_actions w = true -> mcheck_vars w = true -> WF w (mdl_of w).
Proof.
  intros HA HV. unfold mcheck_vars in HV. apply andb_true_iff in HV. destruct HV as [HP HS].
  rewrite forallb_forall in HP, HS.
  split.
  - intros p ap var v d Hp Ha. pose proof (actions_sound HA p _ Hp Ha) as X. cbn [maction_ok] in X.
    apply andb_true_iff in X. destruct X as [X X3]. apply andb_true_iff in X. destruct X as [X1 X2].
    split; [assumption|split; [assumption|]]. now apply ascii_eqb_eq.
  - intros p k v Hp Ha. pose proof (actions_sound HA p _ Hp Ha) as X. cbn [maction_ok] in X.
    apply andb_true_iff in X. destruct X as [X1 X2]. split.
    + intros ->. discriminate.
    + now apply negb_true_iff.
  - intros p k Hp Ha. pose proof (actions_sound HA p _ Hp Ha) as X. discriminate.
  - intros var Hv Hs. apply path_var_In in Hv. apply set_var_In in Hs.
    specialize (HP var Hv). apply andb_true_iff in HP. destruct HP as [X _].
    apply negb_true_iff in X. apply mem_str_not_In in X. contradiction.
  - intros var Hv Hr. apply path_var_In in Hv.
    specialize (HP var Hv). apply andb_true_iff in HP. destruct HP as [_ X].
    rewrite (reserved_maybe var Hr) in X. discriminate.
  - intros k Hs Hr. apply set_var_In in Hs. specialize (HS k Hs).
    rewrite (reserved_maybe k Hr) in HS. discriminate.
Qed.

Lemma rank_sound :
  mcheck_rank w order = true -> forall n m, dep_edge w n m -> mrank_of order m < mrank_of order n.
Proof.
  intros H n m [p [o [j [[Hp Hn] Ha]]]]. unfold mcheck_rank in H. rewrite forallb_forall in H.
  specialize (H p Hp). rewrite forallb_forall in H. subst n. apply Nat.ltb_lt. apply H.
  apply dep_targets_In. now exists o, j.
Qed.

Lemma known_In n : known w n -> In n (mknown_names w).
Proof.
  intros [p [Hp [E|[o [j Ha]]]]]; unfold mknown_names; apply uniq_In; apply in_flat_map; exists p;
    (split; [assumption|]).
  - now left.
  - right. apply dep_targets_In. now exists o, j.
Qed.

Lemma own_var_In n k : own_var w n k -> In k (mown_vars w n).
Proof.
  unfold own_var, mown_vars. intros [E|[E|[E|[p [v [[Hp Hn] Ha]]]]]]; apply in_or_app.
  - left. left. now symmetry.
  - left. right. left. now symmetry.
  - left. right. right. left. now symmetry.
  - right. apply in_map_iff. exists (k, v). split; [reflexivity|]. apply in_flat_map. exists p. split.
    + apply filter_In. split; [assumption|]. now apply str_eqb_eq.
    + now apply set_entries_In.
Qed.

Lemma var_apart_sound :
  mcheck_var_apart w = true ->
  forall n m k, known w n -> known w m -> n <> m -> own_var w n k -> ~ own_var w m k.
Proof.
  intros H n m k Kn Km Hne On Om. unfold mcheck_var_apart in H. rewrite forallb_forall in H.
  specialize (H n (known_In n Kn)). rewrite forallb_forall in H. specialize (H m (known_In m Km)).
  apply orb_true_iff in H. destruct H as [E|D].
  - apply str_eqb_eq in E. contradiction.
  - apply (disjoint_str_spec _ _ D k); now apply own_var_In.
Qed.

Lemma elem_apart_sound :
  mcheck_elem_apart w = true ->
  forall n m var v, n <> m -> own_elem w n var v -> ~ own_elem w m var v.
Proof.
  intros H n m var v Hne [p [ap [d [[Hp Hn] Ha]]]] [q [ap' [d' [[Hq Hm] Ha']]]].
  unfold mcheck_elem_apart in H. rewrite forallb_forall in H. specialize (H p Hp).
  rewrite forallb_forall in H. specialize (H q Hq). apply orb_true_iff in H. destruct H as [E|D].
  - apply str_eqb_eq in E. congruence.
  - apply (disjoint_pair_spec _ _ D (var, v)); apply elem_pairs_In; eauto.
Qed.

Lemma versions_sound :
  mcheck_versions w = true -> mcheck_keys w = true ->
  forall p q, In p w -> In q w -> mp_name p = mp_name q -> p <> q ->
  mdisjoint_pair (melem_pairs p) (melem_pairs q) = true /\ mdisjoint_pair (mset_entries p) (mset_entries q) = true.
Proof.
  intros H K p q Hp Hq Hn Hne. unfold mcheck_versions in H. rewrite forallb_forall in H.
  specialize (H p Hp). rewrite forallb_forall in H. specialize (H q Hq).
  apply orb_true_iff in H. destruct H as [H|H]; [apply orb_true_iff in H; destruct H as [H|H]|].
  - rewrite Hn, str_eqb_refl in H. discriminate.
  - apply andb_true_iff in H. destruct H as [H H']. apply str_eqb_eq in H. apply str_eqb_eq in H'.
    exfalso. apply Hne. now apply (keys_sound w K).
  - now apply andb_true_iff in H.
Qed.

Lemma set_once_sound :
  mcheck_set_once w = true ->
  forall p k v v', In p w -> In (ASet k v) (mp_actions p) -> In (ASet k v') (mp_actions p) -> v = v'.
Proof.
  intros H p k v v' Hp Ha Hb. unfold mcheck_set_once in H. rewrite forallb_forall in H.
  specialize (H p Hp). rewrite forallb_forall in H.
  apply set_entries_In in Ha. apply set_entries_In in Hb.
  specialize (H (k, v) Ha). rewrite forallb_forall in H. specialize (H (k, v') Hb). cbn [fst snd] in H.
  rewrite str_eqb_refl in H. cbn [negb orb] in H. now apply str_eqb_eq.
Qed.

Lemma words_sound :
  mcheck_words w = true ->
  forall p, In p w -> word (mp_name p) /\ word (mp_version p) /\ mp_version p <> lit "-f" /\
                       word (mp_flavor p) /\ root_ok (mp_root p).
Proof.
  intros H p Hp. unfold mcheck_words in H. rewrite forallb_forall in H. specialize (H p Hp).
  apply andb_true_iff in H. destruct H as [H H6]. apply andb_true_iff in H. destruct H as [H H5].
  apply andb_true_iff in H. destruct H as [H H4].
  apply andb_true_iff in H. destruct H as [H H3]. apply andb_true_iff in H. destruct H as [H1 H2].
  split; [now apply word_ok_word|split; [now apply word_ok_word|split; [|split; [now apply word_ok_word|split]]]].
  - apply negb_true_iff in H3. now apply str_eqb_neq.
  - intros E. rewrite E in H5. discriminate.
  - now apply str_eqb_eq.
Qed.

(* ---------------------------------------------------------------- the theorem *)

Theorem wf2_check_sound : mwf2_check w order = true -> WF2 w (mdl_of w) (mrank_of order).
Proof.
  unfold mwf2_check. rewrite !andb_true_iff.
  intros [[[[[[[[H1 H2] H3] H4] H5] H6] H7] H8] H9]. split.
  - now apply wf_sound.
  - now apply rank_sound.
  - now apply elem_apart_sound.
  - now apply var_apart_sound.
  - intros p q ap var v d ap' d' Hp Hq Hn Hne Ha Hb.
    destruct (versions_sound H6 H8 p q Hp Hq Hn Hne) as [D _].
    apply (disjoint_pair_spec _ _ D (var, v)); apply elem_pairs_In; eauto.
  - intros p q k v Hp Hq Hn Hne Ha Hb.
    destruct (versions_sound H6 H8 p q Hp Hq Hn Hne) as [_ D].
    apply (disjoint_pair_spec _ _ D (k, v)); now apply set_entries_In.
  - now apply set_once_sound.
  - now apply (keys_sound w).
  - now apply words_sound.
Qed.

Corollary wf_check_sound : mwf2_check w order = true -> WF w (mdl_of w).
Proof. intro H. exact (wf_base w (mdl_of w) (mrank_of order) (wf2_check_sound H)). Qed.

End Sound.

(* the empty environment is consistent and free of dollar references, whatever the world *)
Lemma Inv_nil w cfg : Inv w cfg [].
Proof.
  intro name. unfold clause, mfind_setup_product. cbn [alookup].
  intros q _. split.
  - intros ap var v d _ Hin. exact Hin.
  - intros k v _. discriminate.
Qed.

Lemma nodollar_nil w : nodollar_paths w [].
Proof. intros var _. reflexivity. Qed.

Print Assumptions wf2_check_sound.
Print Assumptions wf_check_sound.
