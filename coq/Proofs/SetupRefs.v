(* Table values that refer to a variable whose value is a LIST in the delimiter of the command
   (envAppend(PLUGIN_PATH, SITE_DIRS, semicolon) with SITE_DIRS = /site/a;/site/b): Action.execute_envPrepend
   expands the WHOLE value first and splits the expansion afterwards, in setup and in unsetup mode alike, so
   setup adds the elements of the list and unsetup removes exactly those (C02; C12's theorems about references,
   Props/C12.v reference_read_at_execution ff., ask for an expansion that is ONE element). *)
From Eupsv Require Import Base.Base Base.BaseLemmas Model.PathAlg Proofs.PathAlg.
From Coq Require Import Lia.

(* the expansion is a clean list: no reference left in it, no empty part *)
Definition clean_list (d : ascii) (x : str) : Prop :=
  mem_ascii c_dollar x = false /\ split_on d x = elems d x.

Definition many_list (ap fwd : bool) (xs old : list str) : list str :=
  uniq (fold_left (path_step ap fwd) xs old).

Lemma good_fold d ap fwd xs : forall old,
  Forall (good d) xs -> Forall (good d) old -> Forall (good d) (fold_left (path_step ap fwd) xs old).
Proof.
  induction xs as [|x xs IH]; intros old Hx Ho; [exact Ho|].
  cbn [fold_left]. inversion Hx; subst. apply IH; [assumption|]. now apply good_step.
Qed.

Lemma env_prepend_list ap fwd (var v x : str) d e :
  wf_delim d = true -> mem_ascii d v = false -> expand_var e v = Ok (Some x) -> clean_list d x ->
  no_dollar (oldv var e) = true ->
  exists e', env_prepend ap fwd var v d e = Ok (Some e') /\
    elems d (oldv var e') = many_list ap fwd (elems d x) (elems d (oldv var e)) /\
    no_dollar (oldv var e') = true /\
    (forall k, k <> var -> alookup k e' = alookup k e).
Proof.
  intros Hd Hdv Hx [Hnx Hsp] Ho.
  unfold no_dollar in Ho. rewrite negb_true_iff in Ho.
  assert (Gx : Forall (good d) (elems d x)) by now apply elems_good_parts.
  assert (Go : Forall (good d) (elems d (oldv var e))) by now apply elems_good_parts.
  assert (G : Forall (good d) (many_list ap fwd (elems d x) (elems d (oldv var e)))).
  { unfold many_list. apply good_uniq. now apply good_fold. }
  exists (aset var (join d (many_list ap fwd (elems d x) (elems d (oldv var e)))) e).
  split; [|split; [|split]].
  - unfold env_prepend. fold (oldv var e).
    rewrite (strip_lead_none d v Hdv). rewrite (strip_trail_none d v Hdv).
    assert (Hx' : (if fwd then expand_var e v
                   else match expand_var e v with Ok (Some y) => Ok (Some y) | _ => Ok (Some v) end)
                  = Ok (Some x)) by (rewrite Hx; now destruct fwd).
    rewrite Hx'. cbn [bind]. unfold new_path_text. rewrite Hsp. cbn [andb].
    fold (many_list ap fwd (elems d x) (elems d (oldv var e))).
    rewrite interp_nodollar; [reflexivity|].
    apply join_nodollar; [now apply wf_delim_not_dollar|assumption].
  - rewrite oldv_aset_same. now apply elems_join.
  - rewrite oldv_aset_same. unfold no_dollar. rewrite negb_true_iff.
    apply join_nodollar; [now apply wf_delim_not_dollar|assumption].
  - intros k Hk. now apply alookup_aset_other.
Qed.

(* unsetup mode: what is left *)
Lemma fold_remove_In y xs : forall old,
  In y (fold_left (path_step false false) xs old) <-> In y old /\ ~ In y xs.
Proof.
  induction xs as [|x xs IH]; intros old; cbn [fold_left].
  - simpl. tauto.
  - rewrite IH. unfold path_step. rewrite remove_str_In. simpl. split.
    + intros [[H1 H2] H3]. split; [assumption|]. intros [E|E]; [now apply H2|now apply H3].
    + intros [H1 H2]. split; [split; [assumption|]|]; intro E; apply H2; [now left|now right].
Qed.

Lemma path_step_reverse ap np x : path_step ap false np x = path_step false false np x.
Proof. reflexivity. Qed.

Lemma fold_reverse_any ap xs : forall old,
  fold_left (path_step ap false) xs old = fold_left (path_step false false) xs old.
Proof. induction xs as [|x xs IH]; intros old; cbn [fold_left]; [reflexivity|]. now rewrite IH. Qed.

Lemma many_list_reverse_In ap y xs old :
  In y (many_list ap false xs old) <-> In y old /\ ~ In y xs.
Proof. unfold many_list. rewrite uniq_In, fold_reverse_any. apply fold_remove_In. Qed.

(* setup mode: every element of the list is there afterwards *)
Lemma fold_forward_In ap y xs : forall old,
  In y (fold_left (path_step ap true) xs old) <-> In y old \/ In y xs.
Proof.
  induction xs as [|x xs IH]; intros old; cbn [fold_left].
  - simpl. tauto.
  - rewrite IH. unfold path_step. destruct ap.
    + rewrite in_app_iff, remove_str_In. simpl. destruct (str_eq_dec y x) as [->|N]; intuition congruence.
    + simpl. rewrite remove_str_In. destruct (str_eq_dec y x) as [->|N]; intuition congruence.
Qed.

Lemma many_list_forward_In ap y xs old :
  In y (many_list ap true xs old) <-> In y old \/ In y xs.
Proof. unfold many_list. rewrite uniq_In. apply fold_forward_In. Qed.
