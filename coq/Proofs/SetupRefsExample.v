(* A concrete world whose table values refer to OTHER variables than the product's own directory (Examples of
   Props/C01.v, C02.v):
     kit 1.0, kit 2.0     PATH
     tool 1.0             setupRequired(kit), then envSet(TOOL_PLUGINS, KIT_DIR/plugins) and
                          envPrepend(PATH, KIT_DIR/tools) - both values written with a reference to the directory
                          variable of the dependency the line before set up
     tool 2.0             setupRequired(kit); PATH
     site 1.0             envAppend(PLUGIN_PATH, SITE_DIRS, semicolon): a reference to a variable of the user that
                          holds a LIST in the delimiter of the command *)
From Eupsv Require Import Base.Base Model.PathAlg Model.Setup.

Definition rx_colon : ascii := ":"%char.
Definition rx_semi : ascii := ";"%char.

Definition rx_kit (v : string) : product :=
  {| p_name := lit "kit"; p_version := lit v; p_dir := lit "/s/kit/" ++ lit v;
     p_actions := [APath false (lit "PATH") (lit "/s/kit/" ++ lit v ++ lit "/bin") rx_colon] |}.
Arguments rx_kit v%string.

Definition rx_world : world :=
  [ rx_kit "1.0"; rx_kit "2.0";
    {| p_name := lit "tool"; p_version := lit "1.0"; p_dir := lit "/s/tool/1.0";
       p_actions := [ASetup false (lit "kit") false;
                     ASet (lit "TOOL_PLUGINS") (lit "${KIT_DIR}/plugins");
                     APath false (lit "PATH") (lit "${KIT_DIR}/tools") rx_colon] |};
    {| p_name := lit "tool"; p_version := lit "2.0"; p_dir := lit "/s/tool/2.0";
       p_actions := [ASetup false (lit "kit") false;
                     APath false (lit "PATH") (lit "/s/tool/2.0/bin") rx_colon] |};
    {| p_name := lit "site"; p_version := lit "1.0"; p_dir := lit "/s/site/1.0";
       p_actions := [APath true (lit "PLUGIN_PATH") (lit "${SITE_DIRS}") rx_semi] |} ].

Definition rx_cfg : config :=
  {| c_flavor := lit "Linux64"; c_root := lit "/s"; c_max_depth := None; c_keep := false; c_flavors := [] |}.

Definition rx_st0 : state :=
  {| s_env := [(lit "PATH", lit "/usr/bin"); (lit "SITE_DIRS", lit "/site/a;/site/b"); (lit "PLUGIN_PATH", lit "/pre")];
     s_aliases := [] |}.

(* setup tool 1.0 (kit resolved to 1.0), setup tool 2.0 (kit resolved to 2.0) *)
Definition rx_ds1 : list decision := [Some (lit "1.0"); Some (lit "1.0")].
Definition rx_ds2 : list decision := [Some (lit "2.0"); Some (lit "2.0")].
