(* Sessions on one Eups object (Model/SetupSession.v): with the table emptied at the start of every top-level
   forward request, a request on a long-lived object answers like a request on a fresh one - whatever table the
   earlier requests left.  The unsetup never reads the table. *)
From Eupsv Require Import Base.Base Model.PathAlg Model.Setup Model.Resolve Model.SetupFull Model.SetupSession.

(* equal but for the table *)
Definition same_but_table (r1 r2 : fresult) : Prop :=
  match r1, r2 with
  | FDone ok1 st1 _ tr1, FDone ok2 st2 _ tr2 => ok1 = ok2 /\ st1 = st2 /\ tr1 = tr2
  | FRaise st1 _ tr1, FRaise st2 _ tr2 => st1 = st2 /\ tr1 = tr2
  | FFuel tr1, FFuel tr2 => tr1 = tr2
  | FBad tr1, FBad tr2 => tr1 = tr2
  | _, _ => False
  end.

Lemma with_trace_same pre r1 r2 : same_but_table r1 r2 -> same_but_table (with_trace pre r1) (with_trace pre r2).
Proof.
  destruct r1, r2; cbn; intros H; try contradiction.
  - destruct H as (-> & -> & ->); auto.
  - destruct H as (-> & ->); auto.
  - now subst.
  - now subst.
Qed.

Definition unsetup_blind (rec : full_fn) : Prop :=
  forall st al1 al2 vro name li depth just,
    same_but_table (rec st al1 vro name li false depth just) (rec st al2 vro name li false depth just).

Lemma run_actions_unsetup_blind cfg rec depth just vro :
  unsetup_blind rec ->
  forall acts infos st al1 al2,
    same_but_table (run_actions_full cfg rec false depth just vro acts infos st al1)
                   (run_actions_full cfg rec false depth just vro acts infos st al2).
Proof.
  intros Hrec acts. induction acts as [|a acts IH]; intros infos st al1 al2.
  - cbn. auto.
  - cbn [run_actions_full]. destruct a; try (destruct (exec_simple false _ st); [apply IH | cbn; auto]).
    destruct (cut_off cfg just (S depth)); [apply IH|].
    specialize (Hrec st al1 al2 (child_vro vro) name (hd no_info infos) (S depth) just0).
    destruct (rec st al1 (child_vro vro) name (hd no_info infos) false (S depth) just0) as [ok1 s1 a1 t1|s1 a1 t1|t1|t1],
             (rec st al2 (child_vro vro) name (hd no_info infos) false (S depth) just0) as [ok2 s2 a2 t2|s2 a2 t2|t2|t2];
      cbn in Hrec; try contradiction.
    + destruct Hrec as (-> & -> & ->). destruct ok2; cbn [andb]; apply with_trace_same, IH.
    + destruct Hrec as (-> & ->). cbn [andb]. apply with_trace_same, IH.
    + subst. cbn. reflexivity.
    + subst. cbn. reflexivity.
Qed.

Lemma setup_full_unsetup_blind vcmp vmatch fw cfg rc flavors fuel :
  unsetup_blind (setup_full vcmp vmatch fw cfg rc flavors fuel).
Proof.
  induction fuel as [|fuel IH]; intros st al1 al2 vro name li depth just.
  - cbn. reflexivity.
  - cbn [setup_full]. unfold setup_full_step.
    destruct (find_setup_product (fw_products fw) (s_env st) name).
    + apply run_actions_unsetup_blind, IH.
    + cbn. auto.
Qed.

Section Session.
Variable vcmp : str -> str -> comparison.
Variable vmatch : str -> str -> bool.
Variable fw : fworld.
Variable cfg : Setup.config.
Variable rc : Resolve.config.
Variable flavors : list str.

(* a request on a long-lived object, whatever table it carries, answers like a request on a fresh object *)
Lemma instance_request_like_fresh fuel al st name version fwd just :
  fst (instance_request vcmp vmatch fw cfg rc flavors true fuel al st name version fwd just)
  = request_full vcmp vmatch fw cfg rc flavors fuel st name version fwd just.
Proof.
  unfold instance_request, request_full.
  destruct (select_vro rc (request_opts cfg version)) as [vro|e]; [|reflexivity].
  destruct fwd; cbn [andb].
  - destruct (setup_full vcmp vmatch fw cfg rc flavors fuel st [] vro name _ true 0 just) as [[|] ? ? ?| | |]; reflexivity.
  - pose proof (setup_full_unsetup_blind vcmp vmatch fw cfg rc flavors fuel st al [] vro name
                  {| li_version := version; li_expr := None |} 0 just) as H.
    destruct (setup_full vcmp vmatch fw cfg rc flavors fuel st al vro name _ false 0 just) as [ok1 s1 a1 t1|s1 a1 t1|t1|t1],
             (setup_full vcmp vmatch fw cfg rc flavors fuel st [] vro name _ false 0 just) as [ok2 s2 a2 t2|s2 a2 t2|t2|t2];
      cbn in H; try contradiction.
    + destruct H as (-> & -> & ->). destruct ok2; reflexivity.
    + destruct H as (-> & ->). reflexivity.
    + reflexivity.
    + reflexivity.
Qed.

Lemma session_like_fresh fuel rqs : forall al st,
  session_run vcmp vmatch fw cfg rc flavors true fuel al st rqs = fresh_run vcmp vmatch fw cfg rc flavors fuel st rqs.
Proof.
  induction rqs as [|[[[name version] fwd] just] rest IH]; intros al st; [reflexivity|].
  cbn [session_run fresh_run].
  pose proof (instance_request_like_fresh fuel al st name version fwd just) as H.
  destruct (instance_request vcmp vmatch fw cfg rc flavors true fuel al st name version fwd just) as [o al'].
  cbn in H. subst o. f_equal. apply IH.
Qed.

End Session.
